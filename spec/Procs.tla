------------------------------- MODULE Procs -------------------------------
(***************************************************************************)
(* C13 - children are started, awaited and reaped correctly under every    *)
(* schedule.                                                               *)
(*                                                                         *)
(* Process lifecycle of the (simulated) kernel plus the shell-side         *)
(* wait/SIGCHLD protocol, composed with a small-step interpreter of the    *)
(* script shapes that start children:                                      *)
(*   pipelines `a | b | c` (fork all stages, then wait for each; pipefail),*)
(*   asynchronous lists `{ ..; } &` with `$!`, the `wait` built-in,        *)
(*   subshells `( .. )`, command substitutions `x=$( .. )`, nesting <= 2.  *)
(*                                                                         *)
(* Kernel part (POSIX, XSH wait()/fork()/_exit(), XCU 2.9.3.1, 2.12):      *)
(*   a process is Run, Zombie (terminated, status not yet collected: the   *)
(*   simulator's `state_has_changed` flag is set) or Reaped (status        *)
(*   collected: flag cleared - the simulator never removes a process).     *)
(*   Termination closes every descriptor and raises SIGCHLD at the parent. *)
(*   SIGCHLD is discarded unless the parent has installed its handler; with*)
(*   the handler installed the signal is blocked (stays pending) except    *)
(*   inside the atomic unblock-and-sleep of select.                        *)
(*   wait(t) returns a changed child matching t (and thereby reaps it),    *)
(*   "none" if matching unreaped children exist, ECHILD otherwise.         *)
(*                                                                         *)
(* Shell part (yash-env/src/lib.rs wait_for_subshell, yash-builtin wait,   *)
(* yash-semantics pipeline.rs / item.rs / subshell.rs / command_subst.rs): *)
(*   en:   enable the SIGCHLD handler                                      *)
(*   poll: r := wait(t); result -> continue                                *)
(*   slp:  IF r = none THEN wait for SIGCHLD (unblock-and-sleep atomically)*)
(*         ; GOTO poll                                                     *)
(* Every step of every process is a separate action, so TLC explores every *)
(* interleaving (finer than the simulator, whose processes interleave only *)
(* at blocking points).  Named WRONG orders are selected with the constant *)
(* `Variant` (negative configurations: TLC must find the lost wake-up /    *)
(* deadlock / zombie there).                                               *)
(*                                                                         *)
(* Correspondence with the simulator (yash-env/src/system/virtual.rs):     *)
(*   st = "Run"    <-> ProcessState::Running                                *)
(*   st = "Zombie" <-> Halted(Exited|Signaled) with state_has_changed set   *)
(*   st = "Reaped" <-> Halted(..) with state_has_changed cleared            *)
(* so the `changed` flag is st = "Zombie" (ChangedKids).                    *)
(*                                                                         *)
(* Stop / continue (POSIX XCU 2.9.1.1, 2.9.3, 2.9.4.3, 2.11; XSH wait):    *)
(*   any live process may be stopped (SIGSTOP) and continued (SIGCONT) by  *)
(*   another process; both raise SIGCHLD at the parent and set the child's *)
(*   `state_has_changed` flag (nch) without terminating it.  The monitor   *)
(*   option is off in every script shape (JobCtl = FALSE), so a shell      *)
(*   waiting for ANY kind of foreground child - a pipeline member, a       *)
(*   subshell `( )`, a command substitution - acknowledges such a          *)
(*   notification and keeps waiting until the child has TERMINATED; `$?`   *)
(*   is the child's exit status.  Only with job control may a stopped      *)
(*   foreground job end the wait (not modelled).  The named wrong          *)
(*   protocols `stop_is_finish` (pipeline members) and `fg_stop_is_finish` *)
(*   (the other foreground children) take the stop for the end.            *)
(*                                                                         *)
(* The model is written as functions on a state record S (Kind, Apply,     *)
(* DoCollect) so that Trace_Procs can compose the very same steps to       *)
(* validate what one scheduling step of the real shell did.                *)
(***************************************************************************)
EXTENDS Integers, Sequences, FiniteSets, TLC, Json

CONSTANTS Variant,   \* "ok" | "enable_late" | "nonatomic_select" | "no_loop"
                     \*      | "wait_last_only" | "leak_writer" | "leak_reader"
                     \*      | "unblock_no_sigchld" | "stop_is_finish" | "fg_stop_is_finish"
          Scripts,   \* set of script ids explored (see Script)
          MaxP       \* bound on the number of processes ever created

Base  == 2                      \* pid of the main shell process (simulator)
Pids  == Base .. (Base + MaxP - 1)
NV    == 2                      \* shell variables p1, p2 holding values of $!
NoSt  == -9                     \* "status not known"
NZ    == -1                     \* some non-zero status (EPIPE / SIGPIPE)
ANY   == -2                     \* zero or non-zero: outcome of a race in the script
KS    == -3                     \* terminated by a signal: reported as a status > 128

-----------------------------------------------------------------------------
(* Script syntax                                                           *)
St(n)      == [k |-> "st", n |-> n]                 \* status n
Pr(t)      == [k |-> "pr", t |-> t, b |-> FALSE]    \* probe t       (records $?)
PrB(t)     == [k |-> "pr", t |-> t, b |-> TRUE]     \* probe t $!    (records $? and $!)
Rd         == [k |-> "rd"]                          \* sink   (reads stdin to EOF)
Wr(safe)   == [k |-> "wr", safe |-> safe]           \* echo x (safe: its reader reads to EOF)
Em(dr)     == [k |-> "em", dr |-> dr]               \* emit 3000: writes more than a pipe holds
                                                    \* (dr: its reader drains the pipe)
Blk        == [k |-> "blk"]                         \* sink </tmp/fifo : blocks until killed
Sig(g, v)  == [k |-> "kill", s |-> g, v |-> v]      \* kill -s TERM|STOP|CONT $pv
Kill(v)    == Sig("TERM", v)
Me(v)      == [k |-> "me", v |-> v]                 \* mypid pv  (assigns the own pid to pv; no fork)
Clo        == [k |-> "clo"]                         \* exec >&-  (closes the own standard output)
Pub        == [k |-> "pub"]                         \* mypid   (writes the own pid to stdout, a pipe)
Get(v)     == [k |-> "get", v |-> v]                \* read pv (reads a pid from stdin, a pipe)
Sub(b)     == [k |-> "sub", b |-> b]                \* ( b )
Cs(b)      == [k |-> "cs", b |-> b]                 \* x=$( b )
Bg(b, v)   == [k |-> "bg", b |-> b, v |-> v]        \* { b; } &  [pv=$!]
Pipe(cs)   == [k |-> "pipe", cs |-> cs]             \* { cs[1]; } | { cs[2]; } | ...
Wt(ts)     == [k |-> "wait", ts |-> ts]             \* wait [$p_i | 999]...   (0 = unknown pid 999)

S1(x) == <<St(x)>>

\* A foreground child that is stopped and later continued by a background
\* signaller (its own asynchronous child, which inherits p1 = the victim's
\* pid) while the shell waits for it.  g = 1: `( status 0 )` between STOP and
\* CONT, so that the waiting shell gets to see the stopped state; g = 0: STOP
\* and CONT in immediate succession.
SigBody(g) == <<Sig("STOP", 1)>> \o (IF g = 1 THEN <<Sub(S1(0))>> ELSE <<>>) \o <<Sig("CONT", 1)>>
\* ... the victim waits for the signaller and then exits with status n
VicW(n, g) == <<Me(1), Bg(SigBody(g), 0), Wt(<<>>), St(n)>>
\* ... the victim blocks for ever; the signaller finally terminates it
VicK(g)    == <<Me(1), Bg(SigBody(g) \o <<Sig("TERM", 1)>>, 0), Blk>>
\* ... the victim is stopped while it waits for a foreground child of its own
VicN(n, g) == <<Me(1), Bg(SigBody(g), 0), Sub(S1(4)), Pr(1), Wt(<<>>), St(n)>>

\* Generated scripts: every sequence (of a given length) over these commands,
\* each followed by a probe.  p1, p2 start as the unknown pid 999.
GenAtoms == << St(3), Sub(S1(4)), Cs(S1(6)), Bg(S1(5), 1), Bg(S1(0), 2), Wt(<<1>>), Wt(<<2, 1>>), Wt(<<>>),
               Pipe(<<S1(3), S1(0)>>), Pipe(<< S1(4), <<Rd>> >>),
               Pipe(<< <<Em(FALSE)>>, S1(5), <<Rd>> >>) >>
RECURSIVE GenBody(_, _)
GenBody(a, i) == IF i > Len(a) THEN <<>> ELSE <<GenAtoms[a[i]], Pr(i)>> \o GenBody(a, i + 1)

\* Script ids: [f |-> family, a |-> parameters, pf |-> pipefail]
Script(id) ==
  LET a == id.a
      body ==
        CASE id.f = "pipe2"  -> <<Pipe(<<S1(a[1]), S1(a[2])>>), Pr(1)>>
          [] id.f = "pipe3"  -> <<Pipe(<<S1(a[1]), S1(a[2]), S1(a[3])>>), Pr(1)>>
          [] id.f = "sub"    -> <<Sub(S1(a[1])), Pr(1)>>
          [] id.f = "cs"     -> <<Cs(S1(a[1])), Pr(1)>>
          [] id.f = "bgw"    -> <<Bg(S1(a[1]), 1), PrB(1), Wt(<<1>>), Pr(2), Wt(<<1>>), Pr(3)>>
          [] id.f = "bg2"    -> <<Bg(S1(a[1]), 1), Bg(S1(a[2]), 2)>> \o
                                (CASE a[3] = 1 -> <<Wt(<<1, 2>>), Pr(1), Wt(<<2>>), Pr(2)>>
                                   [] a[3] = 2 -> <<Wt(<<2, 1>>), Pr(1), Wt(<<1, 2>>), Pr(2)>>
                                   [] OTHER    -> <<Wt(<<2>>), Pr(1), Wt(<<1>>), Pr(2)>>)
          [] id.f = "bgall"  -> <<Bg(S1(a[1]), 1), Bg(S1(a[2]), 2), Wt(<<>>), Pr(1), Wt(<<1>>), Pr(2)>>
          [] id.f = "unk"    -> <<St(a[1]), Wt(<<0>>), Pr(1)>>
          [] id.f = "subw"   -> <<Bg(S1(a[1]), 1), Sub(<<Wt(<<1>>), Pr(1)>>), Pr(2), Wt(<<1>>), Pr(3)>>
          [] id.f = "bgfg"   -> <<Bg(S1(a[1]), 1), Sub(S1(a[2])), Pr(1), Wt(<<1>>), Pr(2)>>
          [] id.f = "bgcs"   -> <<Bg(S1(a[1]), 1), Cs(S1(a[2])), Pr(1), Wt(<<1>>), Pr(2)>>
          [] id.f = "bgpipe" -> <<Bg(S1(a[1]), 1), Pipe(<<S1(a[2]), S1(a[3])>>), Pr(1), Wt(<<1>>), Pr(2)>>
          [] id.f = "nest1"  -> <<Sub(<<Sub(S1(a[1])), Pr(1)>>), Pr(2)>>
          [] id.f = "nest2"  -> <<Cs(<<Pipe(<<S1(a[1]), S1(a[2])>>)>>), Pr(1)>>
          [] id.f = "nest3"  -> <<Sub(<<Bg(S1(a[1]), 1), Wt(<<1>>), Pr(1)>>), Pr(2)>>
          [] id.f = "nest4"  -> <<Pipe(<< <<Pipe(<<S1(a[1]), S1(a[2])>>), Pr(1)>>, <<St(a[3]), Pr(2)>> >>), Pr(3)>>
          [] id.f = "nest5"  -> <<Pipe(<< <<Sub(S1(a[1]))>>, <<Cs(S1(a[2]))>> >>), Pr(1)>>
          [] id.f = "nest6"  -> <<Pipe(<< <<Pipe(<<S1(a[1]), S1(a[2])>>)>>, S1(a[3]) >>), Pr(1)>>
          [] id.f = "bgpr"   -> <<Bg(<<St(a[1]), Pr(1)>>, 1), Wt(<<1>>), Pr(2)>>
          [] id.f = "bgpr2"  -> <<Bg(<<St(a[1]), Pr(1)>>, 1), Pr(2), Wt(<<1>>), Pr(3)>>
          [] id.f = "sink1"  -> <<Pipe(<<S1(a[1]), <<Rd>> >>), Pr(1)>>
          [] id.f = "sink2"  -> <<Pipe(<< <<Bg(S1(a[1]), 0)>>, <<Rd>> >>), Pr(1)>>
          [] id.f = "sink3"  -> <<Pipe(<< <<Wr(TRUE)>>, <<Rd>>, <<Rd, St(a[1])>> >>), Pr(1)>>
          [] id.f = "cseof"  -> <<Cs(<<Bg(S1(a[1]), 0), St(a[2])>>), Pr(1)>>
          [] id.f = "race"   -> <<Pipe(<< <<Wr(FALSE)>>, S1(a[1]) >>), Pr(1)>>
          \* up to 5-6 concurrently live processes
          [] id.f = "pipe4"  -> <<Pipe(<<S1(a[1]), S1(a[2]), S1(a[3]), S1(a[4])>>), Pr(1)>>
          [] id.f = "bg3"    -> <<Bg(S1(a[1]), 1), Bg(S1(a[2]), 2), Bg(S1(a[3]), 0), Wt(<<1>>), Pr(1),
                                  Wt(<<>>), Pr(2), Wt(<<2>>), Pr(3)>>
          [] id.f = "subp3"  -> <<Sub(<<Pipe(<<S1(a[1]), S1(a[2]), S1(a[3])>>)>>), Pr(1)>>
          [] id.f = "csp3"   -> <<Cs(<<Pipe(<<S1(a[1]), S1(a[2]), S1(a[3])>>), Pr(1)>>), Pr(2)>>
          [] id.f = "bgpp"   -> <<Bg(<<Pipe(<<S1(a[1]), S1(a[2])>>)>>, 1), Pipe(<<S1(a[3]), S1(a[4])>>), Pr(1),
                                  Wt(<<1>>), Pr(2)>>
          [] id.f = "psub3"  -> <<Pipe(<< <<Sub(S1(a[1]))>>, <<Sub(S1(a[2]))>>, S1(a[3]) >>), Pr(1)>>
          [] id.f = "nbgw"   -> <<Sub(<<Bg(S1(a[1]), 1), Bg(S1(a[2]), 2), Wt(<<>>), Pr(1), Wt(<<2>>), Pr(2)>>), Pr(3)>>
          [] id.f = "bgsub"  -> <<Bg(<<Sub(S1(a[1])), St(a[2])>>, 1), Sub(S1(a[3])), Pr(1), Wt(<<1>>), Pr(2)>>
          [] id.f = "bgsink" -> <<Bg(S1(a[1]), 1), Pipe(<< S1(a[2]), <<Rd>> >>), Pr(1), Wt(<<1, 0>>), Pr(2)>>
          [] id.f = "cswait" -> <<Bg(S1(a[1]), 1), Cs(<<Wt(<<1>>), Pr(1), Bg(S1(a[2]), 2), Wt(<<2>>)>>), Pr(2),
                                  Wt(<<1>>), Pr(3)>>
          \* a producer of more than the pipe capacity; consumers that leave early
          [] id.f = "big2"   -> <<Pipe(<< <<Em(FALSE)>>, S1(a[1]) >>), Pr(1)>>
          [] id.f = "big3a"  -> <<Pipe(<< <<Em(FALSE)>>, S1(a[1]), <<Rd>> >>), Pr(1)>>
          [] id.f = "big3b"  -> <<Pipe(<< <<Em(FALSE)>>, S1(a[1]), S1(a[2]) >>), Pr(1)>>
          [] id.f = "big3c"  -> <<Pipe(<< <<Em(TRUE)>>, <<Rd>>, S1(a[1]) >>), Pr(1)>>
          [] id.f = "big3d"  -> <<Pipe(<< <<Em(TRUE)>>, <<St(a[1]), Rd>>, <<Rd>> >>), Pr(1)>>
          [] id.f = "big4"   -> <<Pipe(<< <<Em(FALSE)>>, S1(a[1]), S1(a[2]), <<Rd>> >>), Pr(1)>>
          \* signals: an asynchronous child that blocks until it is killed; with
          \* a[1] = 1 the shell has a command trap on TERM (TERM is then blocked
          \* outside select, the child inherits the mask and unblocks in its first
          \* step: a TERM sent before that stays pending and kills it then)
          [] id.f = "tk1"    -> <<Bg(<<Blk>>, 1), Kill(1), Wt(<<1>>), Pr(1)>>
          [] id.f = "tk2"    -> <<Bg(<<Blk>>, 1), Sub(S1(a[2])), Kill(1), Pr(1), Wt(<<1>>), Pr(2)>>
          [] id.f = "tk3"    -> <<Bg(<<Blk>>, 1), Bg(S1(a[2]), 2), Kill(1), Sub(S1(0)), Pr(1), Wt(<<2, 1>>), Pr(2),
                                  Wt(<<1>>), Pr(3)>>
          [] id.f = "tk4"    -> <<Sub(<<Bg(<<Blk>>, 1), Sub(S1(0)), Kill(1), Wt(<<>>), Pr(1)>>), Pr(2)>>
          \* a pipeline member is stopped and later continued (and killed) by other
          \* processes while the shell waits for the pipeline: the wait must go on
          [] id.f = "stop1"  -> <<Pipe(<< <<Pub, Blk>>,
                                          <<Get(1), Sig("STOP", 1),
                                            Bg(<<Sub(S1(0)), Sig("CONT", 1), Sig("TERM", 1)>>, 0)>> >>), Pr(1)>>
          [] id.f = "stop2"  -> <<Pipe(<< <<Pub, Blk>>,
                                          <<Get(1), Sig("STOP", 1), Sub(S1(a[1])), Sig("CONT", 1), Sig("TERM", 1)>> >>),
                                  Pr(1)>>
          \* every kind of foreground child is stopped and continued while the shell
          \* waits for it (no job control: the wait ends only when it has terminated)
          [] id.f = "fsub"   -> <<Sub(VicW(a[1], a[2])), Pr(1)>>
          [] id.f = "fsubk"  -> <<Sub(VicK(a[1])), Pr(1)>>
          [] id.f = "fcs"    -> <<Cs(VicW(a[1], a[2])), Pr(1)>>
          [] id.f = "fcsc"   -> <<Cs(<<Clo>> \o VicW(a[1], a[2])), Pr(1)>>
          [] id.f = "fcsk"   -> <<Cs(<<Clo>> \o VicK(a[1])), Pr(1)>>
          [] id.f = "fst1"   -> <<Pipe(<<VicW(a[1], a[2]), S1(a[3])>>), Pr(1)>>
          [] id.f = "fst2"   -> <<Pipe(<<S1(a[3]), VicW(a[1], a[2])>>), Pr(1)>>
          [] id.f = "fnest"  -> <<Sub(<<Sub(VicW(a[1], a[2])), Pr(1)>>), Pr(2)>>
          [] id.f = "fbg"    -> <<Bg(<<Sub(VicW(a[1], a[2])), Pr(1)>>, 1), Wt(<<1>>), Pr(2)>>
          [] id.f = "fpsub"  -> <<Pipe(<< <<Sub(VicW(a[1], a[2])), Pr(1)>>, S1(a[3]) >>), Pr(2)>>
          [] id.f = "fpcs"   -> <<Pipe(<< S1(a[3]), <<Cs(<<Clo>> \o VicW(a[1], a[2])), Pr(1)>> >>), Pr(2)>>
          [] id.f = "fcssub" -> <<Cs(<<Sub(VicW(a[1], a[2])), Pr(1)>>), Pr(2)>>
          [] id.f = "fouter" -> <<Sub(VicN(a[1], a[2])), Pr(2)>>
          \* generated: GenAtoms[a[1]]; probe 1; GenAtoms[a[2]]; probe 2; ...
          [] id.f = "gen"    -> GenBody(a, 1)
  IN [id |-> id, pf |-> id.pf, body |-> body,
      tr |-> id.f \in {"tk1", "tk2", "tk3", "tk4"} /\ id.a[1] = 1]

Ids(f, as, pfs) == {[f |-> f, a |-> a, pf |-> pf] : a \in as, pf \in pfs}
B2 == {FALSE, TRUE}

CatPipes ==
  Ids("pipe2", {<<0, 0>>, <<3, 0>>, <<0, 4>>, <<3, 4>>}, B2)
  \cup Ids("pipe3", {<<0, 0, 0>>, <<3, 0, 0>>, <<0, 4, 0>>, <<3, 4, 0>>, <<3, 0, 5>>, <<0, 4, 5>>}, B2)
CatSimple ==
  Ids("sub", {<<0>>, <<5>>}, {FALSE}) \cup Ids("cs", {<<0>>, <<6>>}, {FALSE})
  \cup Ids("unk", {<<0>>}, {FALSE})
CatAsync ==
  Ids("bgw", {<<0>>, <<3>>}, {FALSE})
  \cup Ids("bg2", {<<3, 4, 1>>, <<3, 4, 2>>, <<3, 0, 3>>}, {FALSE})
  \cup Ids("bgall", {<<3, 4>>}, {FALSE})
  \cup Ids("subw", {<<3>>}, {FALSE})
  \cup Ids("bgfg", {<<3, 4>>, <<0, 5>>}, {FALSE})
  \cup Ids("bgcs", {<<3, 6>>}, {FALSE})
  \cup Ids("bgpipe", {<<3, 4, 0>>}, B2)
  \cup Ids("bgpr", {<<3>>}, {FALSE}) \cup Ids("bgpr2", {<<3>>}, {FALSE})
CatNested ==
  Ids("nest1", {<<5>>}, {FALSE}) \cup Ids("nest2", {<<3, 0>>}, B2)
  \cup Ids("nest3", {<<3>>}, {FALSE}) \cup Ids("nest4", {<<3, 4, 5>>}, {FALSE})
  \cup Ids("nest5", {<<3, 6>>}, B2) \cup Ids("nest6", {<<3, 0, 0>>}, B2)
CatPipesEof ==
  Ids("sink1", {<<3>>}, B2) \cup Ids("sink2", {<<3>>}, {FALSE})
  \cup Ids("sink3", {<<4>>}, {FALSE}) \cup Ids("cseof", {<<3, 6>>}, {FALSE})
  \cup Ids("race", {<<0>>}, B2)

CatBigWriter ==
  Ids("big2", {<<0>>}, B2) \cup Ids("big3a", {<<0>>, <<5>>}, B2) \cup Ids("big3b", {<<0, 0>>, <<5, 4>>}, B2)
  \cup Ids("big3c", {<<4>>}, B2) \cup Ids("big3d", {<<3>>}, B2)
CatStop == Ids("stop1", {<<0>>}, B2) \cup Ids("stop2", {<<4>>}, B2)
CatNegStop == Ids("stop1", {<<0>>}, {FALSE})
CatSignals ==
  CatStop \cup  Ids("tk1", {<<0>>, <<1>>}, {FALSE}) \cup Ids("tk2", {<<0, 4>>, <<1, 4>>}, {FALSE})
  \cup Ids("tk3", {<<0, 3>>, <<1, 3>>}, {FALSE}) \cup Ids("tk4", {<<0>>, <<1>>}, {FALSE})
G2 == {0, 1}
\* quick tier: model-checked under every interleaving AND run on the real shell
CatFgStopQ ==
  Ids("fsub", {<<5, g>> : g \in G2}, {FALSE}) \cup Ids("fsubk", {<<1>>}, {FALSE})
  \cup Ids("fcs", {<<6, 1>>}, {FALSE}) \cup Ids("fcsc", {<<6, 1>>}, {FALSE}) \cup Ids("fcsk", {<<1>>}, {FALSE})
  \cup Ids("fcssub", {<<5, 1>>}, {FALSE})
\* quick tier: only run on the real shell, every run validated against this
\* module (the state constraint ModelChecked keeps TLC at their initial
\* states, where the catalogue line is printed); thorough tier: model-checked too
CatFgStopX ==
  Ids("fnest", {<<5, 1>>}, {FALSE}) \cup Ids("fouter", {<<5, 1>>}, {FALSE}) \cup Ids("fbg", {<<5, 1>>}, {FALSE})
  \cup Ids("fpsub", {<<5, 1, 0>>}, {FALSE}) \cup Ids("fpcs", {<<6, 1, 3>>}, {FALSE})
CatFgStop ==
  CatFgStopQ \cup CatFgStopX
  \cup Ids("fst1", {<<3, 1, 0>>}, {FALSE}) \cup Ids("fst2", {<<4, 1, 3>>}, {FALSE})
  \cup Ids("fcsc", {<<6, 0>>}, {FALSE}) \cup Ids("fouter", {<<5, 0>>}, {FALSE})
  \cup Ids("fst1", {<<3, 1, 0>>}, {TRUE}) \cup Ids("fst2", {<<4, 1, 3>>}, {TRUE})
  \cup Ids("fpsub", {<<5, 1, 0>>}, {TRUE})
CatNegFgStop == Ids("fsub", {<<5, 1>>}, {FALSE})
CatAll == CatSignals \cup CatPipes \cup CatSimple \cup CatAsync \cup CatNested \cup CatPipesEof \cup CatBigWriter
CatBig ==
  Ids("pipe4", {<<3, 0, 4, 0>>}, B2) \cup Ids("bg3", {<<3, 4, 5>>}, {FALSE})
  \cup Ids("subp3", {<<3, 4, 0>>}, B2) \cup Ids("csp3", {<<0, 4, 0>>}, B2)
  \cup Ids("bgpp", {<<3, 0, 4, 0>>}, B2) \cup Ids("psub3", {<<3, 4, 0>>}, B2)
  \cup Ids("nbgw", {<<3, 4>>}, {FALSE}) \cup Ids("bgsub", {<<3, 4, 5>>}, {FALSE})
  \cup Ids("bgsink", {<<3, 4>>}, B2) \cup Ids("cswait", {<<3, 4>>}, {FALSE})
  \cup Ids("big4", {<<0, 5>>, <<5, 0>>}, B2)
GenIx == 1 .. Len(GenAtoms)
CatGen2 == Ids("gen", {<<i, j>> : i, j \in GenIx}, {TRUE})
CatGen3 == Ids("gen", {<<i, j, k>> : i, j, k \in GenIx}, {TRUE})
CatThorough == CatAll \cup CatFgStop \cup CatBig \cup CatGen3
CatQuick == CatAll \cup CatFgStopQ \cup CatFgStopX \cup Ids("pipe4", {<<3, 0, 4, 0>>}, {TRUE}) \cup Ids("bg3", {<<3, 4, 5>>}, {FALSE})
            \cup Ids("bgsub", {<<3, 4, 5>>}, {FALSE}) \cup Ids("bgsink", {<<3, 4>>}, {TRUE})
            \cup CatGen2
CatQuickMC == CatQuick \ CatFgStopX      \* the scripts the quick tier explores in the model
\* scripts of the negative configurations (one is enough to exhibit each deviation)
CatNegWait == Ids("sub", {<<5>>}, {FALSE}) \cup Ids("bgfg", {<<3, 4>>}, {FALSE})
CatNegPipe == Ids("pipe2", {<<3, 4>>}, {FALSE})
CatNegLeak == Ids("sink1", {<<3>>}, {FALSE})
CatNegLeakR == Ids("big3a", {<<0>>}, {FALSE})
CatNegSig == Ids("tk1", {<<1>>}, {FALSE})

-----------------------------------------------------------------------------
(* Concrete syntax (what the harness feeds to the real shell)              *)
RECURSIVE TxtBody(_), TxtCmd(_), TxtStages(_), TxtOps(_)
EndsBg(b) == b # <<>> /\ b[Len(b)].k = "bg"
Brace(b) == "{ " \o TxtBody(b) \o (IF EndsBg(b) THEN " }" ELSE "; }")
TxtOps(ts) == IF ts = <<>> THEN ""
              ELSE (IF Head(ts) = 0 THEN " 999" ELSE " $p" \o ToString(Head(ts))) \o TxtOps(Tail(ts))
TxtStages(cs) ==
  LET one == IF Len(Head(cs)) = 1 /\ Head(cs)[1].k \in {"st", "rd", "wr", "em", "sub", "cs"}
             THEN TxtCmd(Head(cs)[1]) ELSE Brace(Head(cs))
  IN IF Len(cs) = 1 THEN one ELSE one \o " | " \o TxtStages(Tail(cs))
TxtCmd(c) ==
  CASE c.k = "st"   -> "status " \o ToString(c.n)
    [] c.k = "pr"   -> "probe " \o ToString(c.t) \o (IF c.b THEN " $!" ELSE "")
    [] c.k = "rd"   -> "sink"
    [] c.k = "wr"   -> "echo x"
    [] c.k = "em"   -> "emit 3000"
    [] c.k = "blk"  -> "sink </tmp/fifo"
    [] c.k = "kill" -> "kill -s " \o c.s \o " $p" \o ToString(c.v)
    [] c.k = "pub"  -> "mypid"
    [] c.k = "me"   -> "mypid p" \o ToString(c.v)
    [] c.k = "clo"  -> "exec >&-"
    [] c.k = "get"  -> "read p" \o ToString(c.v)
    [] c.k = "sub"  -> "( " \o TxtBody(c.b) \o " )"
    [] c.k = "cs"   -> "x=$( " \o TxtBody(c.b) \o " )"
    [] c.k = "bg"   -> Brace(c.b) \o " &" \o (IF c.v = 0 THEN "" ELSE " p" \o ToString(c.v) \o "=$!")
    [] c.k = "pipe" -> TxtStages(c.cs)
    [] c.k = "wait" -> "wait" \o TxtOps(c.ts)
TxtBody(b) ==
  IF Len(b) = 1 THEN TxtCmd(b[1])
  ELSE TxtCmd(Head(b)) \o (IF Head(b).k = "bg" /\ Head(b).v = 0 THEN " " ELSE "; ") \o TxtBody(Tail(b))
Text(sc) == (IF sc.pf THEN "set -o pipefail; " ELSE "") \o (IF sc.tr THEN "trap 'probe 9' TERM; " ELSE "")
            \o (IF sc.id.f = "gen" THEN "p1=999; p2=999; " ELSE "") \o TxtBody(sc.body)

-----------------------------------------------------------------------------
(* Denotation: what a script must yield, computed sequentially.  Processes *)
(* are named by their path in the fork tree (k-th fork of the parent).     *)
(* env e = [q: $?, bang: path of $!, vars: [1..NV -> path], jobs: path ->  *)
(* status, nf: forks so far].  Result [e, pr: own probes, procs: set of    *)
(* [path, pr, xs] of descendants, gl: global probe log].                   *)
NoPath == <<0>>

FoldPipe(ss, pf) ==
  LET RECURSIVE F(_, _)
      F(i, r) == IF i > Len(ss) THEN r
                 ELSE F(i + 1, IF ~pf THEN ss[i]
                               ELSE IF ss[i] = ANY THEN ANY
                               ELSE IF ss[i] # 0 THEN ss[i] ELSE r)
  IN F(1, 0)

RECURSIVE DenBody(_, _, _), DenCmd(_, _, _), DenChild(_, _, _), DenWait(_, _, _)

DenChild(b, cp, e) ==
  LET r == DenBody(b, cp, [e EXCEPT !.jobs = <<>>, !.nf = 0])
  IN [xs |-> r.e.q, gl |-> r.gl,
      procs |-> r.procs \cup {[path |-> cp, pr |-> r.pr, xs |-> r.e.q]}]

\* the wait built-in with operands ts: [e, r] after all operands
DenWait(ts, e, r) ==
  IF ts = <<>> THEN [e EXCEPT !.q = r]
  ELSE LET t == IF Head(ts) = 0 THEN NoPath ELSE e.vars[Head(ts)]
       IN IF t \in DOMAIN e.jobs
          THEN DenWait(Tail(ts), [e EXCEPT !.jobs = [x \in DOMAIN e.jobs \ {t} |-> e.jobs[x]]], e.jobs[t])
          ELSE DenWait(Tail(ts), e, 127)

DenCmd(c, path, e) ==
  LET none == [e |-> e, pr |-> <<>>, procs |-> {}, gl |-> <<>>]
      bp == IF c.b THEN e.bang ELSE <<>>
  IN CASE c.k = "st" -> [none EXCEPT !.e.q = c.n]
       [] c.k = "pr" -> [none EXCEPT !.pr = << <<c.t, e.q, bp>> >>, !.gl = << <<path, c.t, e.q, bp>> >>]
       [] c.k = "rd" -> [none EXCEPT !.e.q = 0]
       [] c.k = "wr" -> [none EXCEPT !.e.q = IF c.safe THEN 0 ELSE ANY]
       [] c.k = "em" -> [none EXCEPT !.e.q = IF c.dr THEN 0 ELSE NZ]
       [] c.k = "blk" -> [none EXCEPT !.e.q = KS]      \* never returns: the process is killed (scripts kill it)
       [] c.k \in {"kill", "pub", "get", "me", "clo"} -> [none EXCEPT !.e.q = 0]
       [] c.k \in {"sub", "cs"} ->
            LET r == DenChild(c.b, Append(path, e.nf + 1), e)
            IN [e |-> [e EXCEPT !.q = r.xs, !.nf = @ + 1], pr |-> <<>>, procs |-> r.procs, gl |-> r.gl]
       [] c.k = "bg" ->
            LET cp == Append(path, e.nf + 1)
                r == DenChild(c.b, cp, e)
            IN [e |-> [e EXCEPT !.q = 0, !.nf = @ + 1, !.bang = cp,
                                !.vars = IF c.v = 0 THEN @ ELSE [@ EXCEPT ![c.v] = cp],
                                !.jobs = (cp :> r.xs) @@ @],
                pr |-> <<>>, procs |-> r.procs, gl |-> r.gl]
       [] c.k = "pipe" ->
            LET n == Len(c.cs)
                rs == [i \in 1 .. n |-> DenChild(c.cs[i], Append(path, e.nf + i), e)]
                RECURSIVE Gl(_)
                Gl(i) == IF i > n THEN <<>> ELSE rs[i].gl \o Gl(i + 1)
            IN [e |-> [e EXCEPT !.q = FoldPipe([i \in 1 .. n |-> rs[i].xs], e.pf), !.nf = @ + n],
                pr |-> <<>>, procs |-> UNION {rs[i].procs : i \in 1 .. n}, gl |-> Gl(1)]
       [] c.k = "wait" ->
            IF c.ts = <<>> THEN [none EXCEPT !.e.q = 0, !.e.jobs = <<>>]
            ELSE [none EXCEPT !.e = DenWait(c.ts, e, 0)]

DenBody(b, path, e) ==
  IF b = <<>> THEN [e |-> e, pr |-> <<>>, procs |-> {}, gl |-> <<>>]
  ELSE LET r1 == DenCmd(Head(b), path, e)
           r2 == DenBody(Tail(b), path, r1.e)
       IN [e |-> r2.e, pr |-> r1.pr \o r2.pr, procs |-> r1.procs \cup r2.procs, gl |-> r1.gl \o r2.gl]

Den(sc) ==
  LET e0 == [q |-> 0, bang |-> NoPath, vars |-> [v \in 1 .. NV |-> NoPath], jobs |-> <<>>, nf |-> 0,
             pf |-> sc.pf]
      r == DenBody(sc.body, <<>>, e0)
  IN [procs |-> r.procs \cup {[path |-> <<>>, pr |-> r.pr, xs |-> r.e.q]}, gl |-> r.gl, status |-> r.e.q]

(* Race classification, computed on the syntax (conservative): the global  *)
(* order of probe events and every status are determined iff no two        *)
(* concurrently live processes both probe, and no writer's reader may go   *)
(* away without reading.                                                   *)
RECURSIVE HasPr(_), DetBody(_)
HasPr(b) ==
  \E i \in 1 .. Len(b) :
     LET c == b[i] IN
       \/ c.k = "pr"
       \/ c.k \in {"sub", "cs", "bg"} /\ HasPr(c.b)
       \/ c.k = "pipe" /\ \E j \in 1 .. Len(c.cs) : HasPr(c.cs[j])
DetBody(b) ==
  \A i \in 1 .. Len(b) :
     LET c == b[i] IN
       CASE c.k = "wr" -> c.safe
         [] c.k \in {"sub", "cs"} -> DetBody(c.b)
         [] c.k = "bg" -> /\ DetBody(c.b)
                          /\ HasPr(c.b) => /\ i < Len(b) /\ b[i + 1].k = "wait"
                                           /\ (b[i + 1].ts = <<>> \/ \E j \in 1 .. Len(b[i + 1].ts) : b[i + 1].ts[j] = c.v)
         [] c.k = "pipe" -> /\ \A j \in 1 .. Len(c.cs) : DetBody(c.cs[j])
                            /\ Cardinality({j \in 1 .. Len(c.cs) : HasPr(c.cs[j])}) <= 1
         [] OTHER -> TRUE
Deterministic(sc) == DetBody(sc.body)

\* does an observed / operational status o agree with the denoted status d?
Match(d, o) == d = ANY \/ d = o \/ (d = NZ /\ o # 0 /\ o # KS) \/ (d = KS /\ o > 128)

-----------------------------------------------------------------------------
(* Operational model: state record                                         *)
\* dn: the members of the pipeline already waited for; ri: the position of the
\* member whose status is in r
Idle == [n |-> "cmd", m |-> "", k |-> 0, c |-> 0, r |-> 0, kids |-> <<>>, pp |-> 0, dn |-> {}, ri |-> 0]

\* the members of the pipeline p has started and not yet waited for.  The shell
\* waits for ALL members; in which order is not fixed by XCU 2.9.2 (each wait names
\* one process, so any order collects the same statuses): the next member to wait
\* for is a free choice (phase "pick")
KidSet(h) == {h.kids[i] : i \in 1 .. Len(h.kids)}
PipeLeft(h) == KidSet(h) \ h.dn
KidPos(h, c) == CHOOSE i \in 1 .. Len(h.kids) : h.kids[i] = c

InitS(sc) ==
  [ sid   |-> sc.id, pf |-> sc.pf, det |-> Deterministic(sc),
    tr    |-> [p \in Pids |-> p = Base /\ sc.tr],         \* command trap on TERM: TERM blocked outside select
    tb    |-> [p \in Pids |-> FALSE],                     \* subshell not yet entered: TERM still blocked (inherited)
    tp    |-> [p \in Pids |-> FALSE],                     \* TERM pending
    stp   |-> [p \in Pids |-> FALSE],                     \* stopped (SIGSTOP), cannot step until continued
    nch   |-> [p \in Pids |-> FALSE],                     \* stopped/continued: state_has_changed of a live process
    msg   |-> [i \in 1 .. MaxP |-> <<>>],                 \* pids written to pipe i and not yet read
    n     |-> 1,                                          \* processes created so far
    np    |-> 0,                                          \* pipes created so far
    st    |-> [p \in Pids |-> IF p = Base THEN "Run" ELSE "None"],
    par   |-> [p \in Pids |-> IF p = Base THEN 1 ELSE 0],
    kind  |-> [p \in Pids |-> IF p = Base THEN "main" ELSE "none"],
    xs    |-> [p \in Pids |-> NoSt],                      \* exit status
    body  |-> [p \in Pids |-> IF p = Base THEN sc.body ELSE <<>>],
    pc    |-> [p \in Pids |-> 1],
    ph    |-> [p \in Pids |-> Idle],                      \* phase inside the current command
    q     |-> [p \in Pids |-> 0],                         \* $?
    bang  |-> [p \in Pids |-> 0],                         \* $!
    vars  |-> [p \in Pids |-> [v \in 1 .. NV |-> 0]],
    jobs  |-> [p \in Pids |-> <<>>],                      \* job table: pid -> status | NoSt
    hd    |-> [p \in Pids |-> FALSE],                     \* SIGCHLD handler installed (signal blocked outside select)
    pend  |-> [p \in Pids |-> FALSE],                     \* SIGCHLD pending
    inp   |-> [p \in Pids |-> 0],                         \* pipe on fd 0 (0: not a pipe)
    out   |-> [p \in Pids |-> 0],                         \* pipe on fd 1
    xr    |-> [p \in Pids |-> {}],                        \* further read ends held
    xw    |-> [p \in Pids |-> {}],                        \* further write ends held
    path  |-> [p \in Pids |-> <<>>],
    nf    |-> [p \in Pids |-> 0],
    obs   |-> [p \in Pids |-> <<>>],                      \* history: probes of p
    glog  |-> <<>>,                                       \* history: global probe log (deterministic scripts)
    rc    |-> [p \in Pids |-> 0],                         \* history: how often p was reaped
    got   |-> {},                                         \* history: <<child, status the shell recorded for it>>
    err   |-> "" ]

Created(T)      == {p \in Pids : T.st[p] # "None"}
NewPid(T)       == Base + T.n
Cmd(T, p)       == T.body[p][T.pc[p]]
AtEnd(T, p)     == T.pc[p] > Len(T.body[p])
HW(T, x)        == (IF T.out[x] # 0 THEN {T.out[x]} ELSE {}) \cup T.xw[x]
HR(T, x)        == (IF T.inp[x] # 0 THEN {T.inp[x]} ELSE {}) \cup T.xr[x]
Eof(T, pi)      == pi = 0 \/ \A x \in Pids : T.st[x] = "Run" => pi \notin HW(T, x)
HasReader(T, pi) == \E x \in Pids : T.st[x] = "Run" /\ pi \in HR(T, x)
\* some process reads pi to EOF as the next thing it can block on
Draining(T, pi) ==
  \E x \in Pids :
     /\ T.st[x] = "Run" /\ T.inp[x] = pi /\ T.ph[x].n = "cmd"
     /\ \E i \in T.pc[x] .. Len(T.body[x]) :
           /\ T.body[x][i].k = "rd"
           /\ \A j \in T.pc[x] .. (i - 1) : T.body[x][j].k = "st"
\* A write of more than the pipe capacity completes when a reader drains the
\* pipe, or fails (EPIPE / SIGPIPE) when no read end is left; while a read end
\* is held by processes that do not read, the writer stays blocked.
EmReady(T, p) == T.out[p] = 0 \/ ~HasReader(T, T.out[p]) \/ Draining(T, T.out[p])
Kids(T, p)      == {c \in Pids : T.par[c] = p}
ChangedKids(T, p) == {c \in Kids(T, p) : T.st[c] = "Zombie"}     \* state_has_changed
UnreapedKids(T, p) == {c \in Kids(T, p) : T.st[c] \in {"Run", "Zombie"}}
Terminated(T)   == \A p \in Pids : T.st[p] # "Run"
Foreground      == {"sub", "cs", "stage"}
\* is process p a job-controlling shell?  No script shape turns the monitor
\* option on, and a subshell never controls jobs.
JobCtl(T, p)    == FALSE

\* SIGCHLD raised at t: discarded without handler; otherwise pending until
\* consumed by the sleeper (in the window of the non-atomic variant the
\* handler runs and nobody looks: lost).
Raise(T, t) ==
  IF t \in Pids /\ T.st[t] = "Run" /\ T.hd[t] /\ T.ph[t].n # "win"
  THEN [T EXCEPT !.pend[t] = TRUE] ELSE T

Fork(T, p, bdy, knd, i, o, r, w) ==
  LET c == NewPid(T) IN
  IF c \notin Pids THEN [T EXCEPT !.err = "too many processes"]
  ELSE [T EXCEPT !.n = @ + 1, !.st[c] = "Run", !.par[c] = p, !.kind[c] = knd, !.body[c] = bdy,
                 !.pc[c] = 1, !.ph[c] = Idle, !.q[c] = T.q[p], !.bang[c] = T.bang[p],
                 !.vars[c] = T.vars[p], !.jobs[c] = <<>>, !.hd[c] = T.hd[p], !.pend[c] = FALSE,
                 !.inp[c] = i, !.out[c] = o, !.xr[c] = r, !.xw[c] = w,
                 !.tb[c] = T.tr[p] \/ T.tb[p], !.tp[c] = FALSE, !.stp[c] = FALSE, !.nch[c] = FALSE,
                 !.path[c] = Append(T.path[p], T.nf[p] + 1), !.nf[p] = @ + 1]

Adv(T, p) == [T EXCEPT !.pc[p] = @ + 1, !.ph[p] = Idle]

\* c's status is collected by its parent (wait returned it): Zombie -> Reaped
Reap(T, c) == [T EXCEPT !.st[c] = "Reaped", !.rc[c] = @ + 1]

\* continuation after wait_for_subshell(c) produced status s
Cont(T0, p, c, s) ==
  LET T == [T0 EXCEPT !.got = @ \cup {<<c, s>>}]
      cm == Cmd(T, p)
      h == T.ph[p]
  IN IF cm.k = "pipe"
     THEN \* the pipeline's status: the last member's, or under pipefail that of the
          \* rightmost member that failed (zero if none did) - by POSITION, whatever
          \* the order in which the members were waited for
          LET i == KidPos(h, c)
              take == IF T.pf THEN s # 0 /\ i > h.ri ELSE i = Len(h.kids)
              r2 == IF take THEN s ELSE h.r
              ri2 == IF take THEN i ELSE h.ri
              dn2 == h.dn \cup {c}
          IN IF KidSet(h) \ dn2 # {}
             THEN [T EXCEPT !.ph[p] = [h EXCEPT !.n = "pick", !.c = 0, !.r = r2, !.ri = ri2, !.dn = dn2]]
             ELSE Adv([T EXCEPT !.q[p] = r2], p)
     ELSE Adv([T EXCEPT !.q[p] = s], p)

DoExit(T, p) ==
  Raise([T EXCEPT !.st[p] = "Zombie", !.xs[p] = T.q[p], !.inp[p] = 0, !.out[p] = 0,
                  !.xr[p] = {}, !.xw[p] = {}, !.ph[p] = Idle, !.pend[p] = FALSE],
        T.par[p])

\* t is terminated by a signal: descriptors closed, SIGCHLD at the parent
Die(T, t, sigchld) ==
  LET U == [T EXCEPT !.st[t] = "Zombie", !.xs[t] = KS, !.inp[t] = 0, !.out[t] = 0, !.xr[t] = {}, !.xw[t] = {},
                     !.ph[t] = Idle, !.pend[t] = FALSE, !.tb[t] = FALSE, !.tp[t] = FALSE,
                     !.stp[t] = FALSE, !.nch[t] = FALSE]
  IN IF sigchld THEN Raise(U, T.par[t]) ELSE U
\* target of the kill command p is about to execute (0: none)
KillTarget(T, p) == T.vars[p][Cmd(T, p).v]
KillsNow(T, p) ==
  LET t == KillTarget(T, p) IN Cmd(T, p).s = "TERM" /\ t \in Pids /\ T.st[t] = "Run" /\ ~T.tb[t]
StopsNow(T, p) ==
  LET t == KillTarget(T, p) IN Cmd(T, p).s = "STOP" /\ t \in Pids /\ T.st[t] = "Run" /\ ~T.stp[t]
ContsNow(T, p) ==
  LET t == KillTarget(T, p) IN Cmd(T, p).s = "CONT" /\ t \in Pids /\ T.st[t] = "Run" /\ T.stp[t]
\* status p terminates with in its next step, if that step is "exit"
NextXs(T, p) == IF T.tb[p] THEN KS ELSE T.q[p]

JobsWithout(j, xs) == [x \in DOMAIN j \ xs |-> j[x]]

\* What p's next step is: "blocked", or the kind of visible effect it has
\* ("probe", "fork", "reap" of ph.c, "reapany", "exit"), or "silent".
Kind(T, p) ==
  LET h == T.ph[p] IN
  IF T.stp[p] THEN "blocked"                               \* stopped
  ELSE IF T.tb[p] THEN (IF T.tp[p] THEN "exit" ELSE "silent")   \* entering the subshell unblocks TERM
  ELSE
  CASE h.n = "cmd" ->
         IF AtEnd(T, p) THEN "exit"
         ELSE LET c == Cmd(T, p) IN
              (CASE c.k = "pr" -> "probe"
                 [] c.k = "rd" -> IF Eof(T, T.inp[p]) THEN "silent" ELSE "blocked"
                 [] c.k = "em" -> IF EmReady(T, p) THEN "silent" ELSE "blocked"
                 [] c.k = "blk" -> "blocked"
                 [] c.k = "kill" -> IF KillsNow(T, p) THEN "kill" ELSE IF StopsNow(T, p) THEN "stop"
                                    ELSE IF ContsNow(T, p) THEN "cont" ELSE "silent"
                 [] c.k = "get" -> IF T.inp[p] = 0 \/ T.msg[T.inp[p]] # <<>> THEN "silent" ELSE "blocked"
                 [] c.k \in {"sub", "cs", "bg"} -> "fork"
                 [] OTHER -> "silent")
    [] h.n = "pf" -> "fork"
    [] h.n = "pick" -> "pick"
    [] h.n = "rdeof" -> IF Eof(T, h.pp) THEN "silent" ELSE "blocked"
    [] h.n \in {"poll", "pollx"} ->
         IF h.m = "fg" THEN (IF T.st[h.c] = "Zombie" THEN "reap" ELSE IF T.nch[h.c] THEN "ack" ELSE "silent")
         ELSE (IF ChangedKids(T, p) # {} THEN "reapany" ELSE "silent")
    [] h.n = "slp" -> IF Variant = "nonatomic_select" \/ T.pend[p] THEN "silent" ELSE "blocked"
    [] h.n = "zz" -> IF T.pend[p] THEN "silent" ELSE "blocked"
    [] OTHER -> "silent"                \* en, en2, win, wchk

\* Fine-grained label of the step (for coverage and diagnostics)
Tag(T, p) ==
  LET h == T.ph[p] IN
  IF T.tb[p] THEN "unblock"
  ELSE IF h.n = "cmd" THEN (IF AtEnd(T, p) THEN "exit" ELSE Cmd(T, p).k) ELSE h.n

\* p's next step; ch = the child chosen by a "reapany" step (else ignored)
Apply(T, p, ch) ==
  LET h == T.ph[p] IN
  IF T.tb[p]
  THEN (IF T.tp[p] THEN Die(T, p, Variant # "unblock_no_sigchld") ELSE [T EXCEPT !.tb[p] = FALSE])
  ELSE
  CASE h.n = "cmd" ->
    IF AtEnd(T, p) THEN DoExit(T, p)
    ELSE LET c == Cmd(T, p) IN
      (CASE c.k = "st" -> Adv([T EXCEPT !.q[p] = c.n], p)
         [] c.k = "pr" ->
              LET bp == IF c.b /\ T.bang[p] # 0 THEN T.path[T.bang[p]] ELSE <<>> IN
              Adv([T EXCEPT !.obs[p] = Append(@, <<c.t, T.q[p], bp>>),
                            !.glog = IF T.det THEN Append(@, <<T.path[p], c.t, T.q[p], bp>>) ELSE @], p)
         [] c.k = "rd" -> Adv([T EXCEPT !.q[p] = 0], p)
         [] c.k = "wr" -> Adv([T EXCEPT !.q[p] = IF T.out[p] = 0 \/ HasReader(T, T.out[p]) THEN 0 ELSE NZ], p)
         [] c.k = "em" -> Adv([T EXCEPT !.q[p] = IF T.out[p] = 0 \/ HasReader(T, T.out[p]) THEN 0 ELSE NZ], p)
         [] c.k = "kill" ->
              LET t == KillTarget(T, p) IN
              IF KillsNow(T, p)
              THEN (IF T.stp[t] THEN [T EXCEPT !.err = "TERM sent to a stopped process (not modelled)"]
                    ELSE Adv([Die(T, t, TRUE) EXCEPT !.q[p] = 0], p))
              ELSE IF StopsNow(T, p)
              THEN Adv(Raise([T EXCEPT !.stp[t] = TRUE, !.nch[t] = TRUE, !.q[p] = 0], T.par[t]), p)
              ELSE IF ContsNow(T, p)
              THEN Adv(Raise([T EXCEPT !.stp[t] = FALSE, !.nch[t] = TRUE, !.q[p] = 0], T.par[t]), p)
              ELSE IF c.s = "TERM" /\ t \in Pids /\ T.st[t] = "Run" THEN Adv([T EXCEPT !.tp[t] = TRUE, !.q[p] = 0], p)
              ELSE Adv([T EXCEPT !.q[p] = 0], p)
         [] c.k = "me" -> Adv([T EXCEPT !.q[p] = 0, !.vars[p] = [@ EXCEPT ![c.v] = p]], p)
         [] c.k = "clo" -> Adv([T EXCEPT !.q[p] = 0, !.out[p] = 0], p)
         [] c.k = "pub" ->
              Adv([T EXCEPT !.q[p] = 0, !.msg = IF T.out[p] = 0 THEN @ ELSE [@ EXCEPT ![T.out[p]] = Append(@, p)]], p)
         [] c.k = "get" ->
              IF T.inp[p] = 0 THEN Adv([T EXCEPT !.q[p] = 1], p)
              ELSE Adv([T EXCEPT !.q[p] = 0, !.vars[p] = [@ EXCEPT ![c.v] = Head(T.msg[T.inp[p]])],
                                 !.msg = [@ EXCEPT ![T.inp[p]] = Tail(@)]], p)
         [] c.k = "sub" ->
              LET U == Fork(T, p, c.b, "sub", T.inp[p], T.out[p], T.xr[p], T.xw[p])
              IN [U EXCEPT !.ph[p] = [Idle EXCEPT !.n = "en", !.m = "fg", !.c = NewPid(T)]]
         [] c.k = "cs" ->
              \* pipe(); fork; the child makes the write end its stdout and drops
              \* the read end; the parent drops the write end and reads to EOF
              LET pi == T.np + 1
                  U == Fork(T, p, c.b, "cs", T.inp[p], pi, T.xr[p], T.xw[p])
              IN [U EXCEPT !.np = pi, !.xr[p] = @ \cup {pi},
                           !.ph[p] = [Idle EXCEPT !.n = "rdeof", !.m = "fg", !.c = NewPid(T), !.pp = pi]]
         [] c.k = "bg" ->
              \* asynchronous list: stdin is /dev/null, the pid becomes a job and $!
              LET cpid == NewPid(T)
                  U == Fork(T, p, c.b, "bg", 0, T.out[p], T.xr[p], T.xw[p])
              IN Adv([U EXCEPT !.jobs[p] = (cpid :> NoSt) @@ @, !.bang[p] = cpid, !.q[p] = 0,
                               !.vars[p] = IF c.v = 0 THEN @ ELSE [@ EXCEPT ![c.v] = cpid]], p)
         [] c.k = "pipe" -> [T EXCEPT !.ph[p] = [Idle EXCEPT !.n = "pf", !.k = 1]]
         [] c.k = "wait" -> [T EXCEPT !.ph[p] = [Idle EXCEPT !.n = "wchk", !.k = 1]])
  [] h.n = "pf" ->
      \* stage k of the pipeline: [pipe();] fork; the parent closes the previous
      \* read end and the new write end (PipeSet::shift)
      LET c == Cmd(T, p)
          n == Len(c.cs)
          k == h.k
          pi == IF k < n THEN T.np + 1 ELSE 0
          cpid == NewPid(T)
          U == Fork(T, p, c.cs[k], "stage",
                    IF k > 1 THEN h.pp ELSE T.inp[p],
                    IF k < n THEN pi ELSE T.out[p],
                    T.xr[p] \ {h.pp}, T.xw[p])
          kids2 == Append(h.kids, cpid)
          first == IF Variant = "wait_last_only" THEN n ELSE 1
      IN [U EXCEPT !.np = IF k < n THEN pi ELSE @,
                   !.xr[p] = (IF Variant = "leak_reader" /\ k < n THEN @ ELSE @ \ {h.pp})
                             \cup (IF k < n THEN {pi} ELSE {}),
                   !.xw[p] = IF Variant = "leak_writer" /\ k < n THEN @ \cup {pi} ELSE @,
                   !.ph[p] = IF k < n THEN [h EXCEPT !.k = k + 1, !.pp = pi, !.kids = kids2]
                             ELSE IF Variant = "wait_last_only"
                             THEN [Idle EXCEPT !.n = "en", !.m = "fg", !.k = first, !.c = kids2[first], !.kids = kids2,
                                               !.dn = {kids2[i] : i \in 1 .. n - 1}]
                             ELSE [Idle EXCEPT !.n = "pick", !.m = "fg", !.kids = kids2]]
  [] h.n = "pick" -> [T EXCEPT !.ph[p] = [h EXCEPT !.n = "en", !.c = ch]]
  [] h.n = "rdeof" -> [T EXCEPT !.xr[p] = @ \ {h.pp}, !.ph[p] = [h EXCEPT !.n = "en"]]
  [] h.n = "en" ->
      IF Variant = "enable_late" THEN [T EXCEPT !.ph[p] = [h EXCEPT !.n = "poll"]]
      ELSE [T EXCEPT !.hd[p] = TRUE, !.ph[p] = [h EXCEPT !.n = "poll"]]
  [] h.n = "en2" -> [T EXCEPT !.hd[p] = TRUE, !.ph[p] = [h EXCEPT !.n = "slp"]]
  [] h.n \in {"poll", "pollx"} ->
      LET sleep == [T EXCEPT !.ph[p] = [h EXCEPT !.n = IF Variant = "enable_late" THEN "en2" ELSE "slp"]] IN
      IF h.m = "fg"
      THEN (CASE T.st[h.c] = "Zombie" -> Cont(Reap(T, h.c), p, h.c, T.xs[h.c])
              [] T.st[h.c] = "Run" /\ T.nch[h.c] ->
                   \* wait reports that the child was stopped or continued: not a
                   \* termination.  Without job control the wait for a foreground
                   \* child of any kind goes on (the notification is consumed)
                   IF JobCtl(T, p) THEN [T EXCEPT !.err = "suspended foreground job (job control is not modelled)"]
                   ELSE IF T.stp[h.c] /\ Variant = (IF Cmd(T, p).k = "pipe" THEN "stop_is_finish" ELSE "fg_stop_is_finish")
                   THEN Cont([T EXCEPT !.nch[h.c] = FALSE], p, h.c, KS)
                   ELSE [T EXCEPT !.nch[h.c] = FALSE, !.ph[p] = [h EXCEPT !.n = "en"]]
              [] T.st[h.c] = "Run" /\ ~T.nch[h.c] -> IF h.n = "pollx" THEN Cont(T, p, h.c, 1) ELSE sleep
              [] OTHER -> [T EXCEPT !.err = "ECHILD from wait for a foreground child"])
      ELSE IF ChangedKids(T, p) # {}
           THEN LET U == Reap(T, ch) IN
                [U EXCEPT !.jobs[p] = IF ch \in DOMAIN @ THEN [@ EXCEPT ![ch] = T.xs[ch]] ELSE @,
                          !.got = IF ch \in DOMAIN T.jobs[p] THEN @ \cup {<<ch, T.xs[ch]>>} ELSE @,
                          !.ph[p] = [h EXCEPT !.n = "wchk"]]
           ELSE IF UnreapedKids(T, p) = {} THEN [T EXCEPT !.err = "ECHILD in the wait built-in"]
           ELSE sleep
  [] h.n = "slp" ->
      IF Variant = "nonatomic_select"
      THEN [T EXCEPT !.pend[p] = FALSE, !.ph[p] = [h EXCEPT !.n = "win"]]   \* unblock: handler runs, nobody looks
      ELSE [T EXCEPT !.pend[p] = FALSE,
                     !.ph[p] = [h EXCEPT !.n = IF Variant = "no_loop" /\ h.m = "fg" THEN "pollx" ELSE "poll"]]
  [] h.n = "win" -> [T EXCEPT !.ph[p] = [h EXCEPT !.n = "zz"]]
  [] h.n = "zz" -> [T EXCEPT !.pend[p] = FALSE, !.ph[p] = [h EXCEPT !.n = "poll"]]
  [] h.n = "wchk" ->
      LET c == Cmd(T, p)
          j == T.jobs[p]
      IN IF c.ts = <<>>
         THEN LET rest == {x \in DOMAIN j : j[x] = NoSt} IN
              IF rest = {} THEN Adv([T EXCEPT !.q[p] = 0, !.jobs[p] = <<>>], p)
              ELSE [T EXCEPT !.jobs[p] = JobsWithout(j, DOMAIN j \ rest),
                             !.ph[p] = [h EXCEPT !.n = "en", !.m = "wb"]]
         ELSE IF h.k > Len(c.ts) THEN Adv([T EXCEPT !.q[p] = h.r], p)
         ELSE LET t == IF c.ts[h.k] = 0 THEN 0 ELSE T.vars[p][c.ts[h.k]] IN
              IF t \notin DOMAIN j THEN [T EXCEPT !.ph[p] = [h EXCEPT !.k = @ + 1, !.r = 127]]
              ELSE IF j[t] # NoSt
              THEN [T EXCEPT !.jobs[p] = JobsWithout(j, {t}), !.ph[p] = [h EXCEPT !.k = @ + 1, !.r = j[t]]]
              ELSE [T EXCEPT !.ph[p] = [h EXCEPT !.n = "en", !.m = "wb"]]

\* Between two commands a shell may collect the status of a terminated
\* asynchronous child into its job table (update_all_subshell_statuses).
Collectable(T, p, c) ==
  /\ T.st[p] = "Run" /\ T.ph[p].n = "cmd"
  /\ c \in Pids /\ T.par[c] = p /\ T.st[c] = "Zombie" /\ T.kind[c] = "bg"
DoCollect(T, p, c) ==
  LET U == Reap(T, c) IN
  [U EXCEPT !.jobs[p] = IF c \in DOMAIN @ THEN [@ EXCEPT ![c] = T.xs[c]] ELSE @,
            !.got = IF c \in DOMAIN T.jobs[p] THEN @ \cup {<<c, T.xs[c]>>} ELSE @]

-----------------------------------------------------------------------------
(* The transition system                                                   *)
VARIABLE S

Init == \E id \in Scripts : S = InitS(Script(id))

\* state constraint of the quick configuration (see CatFgStopX)
ModelChecked == S.sid \notin CatFgStopX

Step(p) ==
  /\ S.st[p] = "Run"
  /\ Kind(S, p) # "blocked"
  /\ IF Kind(S, p) = "reapany" THEN \E c \in ChangedKids(S, p) : S' = Apply(S, p, c)
     ELSE IF Kind(S, p) = "pick" THEN \E c \in PipeLeft(S.ph[p]) : S' = Apply(S, p, c)
     ELSE S' = Apply(S, p, 0)

Is(p, tags) == S.st[p] = "Run" /\ Tag(S, p) \in tags

\* one named action per kind of step (coverage is reported per action)
ASimple(p)    == Is(p, {"st", "pipe", "wait", "me", "clo"}) /\ Step(p)
AProbe(p)     == Is(p, {"pr"}) /\ Step(p)
ARead(p)      == Is(p, {"rd"}) /\ Step(p)
AWrite(p)     == Is(p, {"wr"}) /\ Step(p)
ABigWrite(p)  == Is(p, {"em"}) /\ Step(p)
AKill(p)      == Is(p, {"kill"}) /\ Step(p)
APubGet(p)    == Is(p, {"pub", "get"}) /\ Step(p)
AAck(p)       == Is(p, {"poll", "pollx"}) /\ S.ph[p].m = "fg" /\ Kind(S, p) = "ack" /\ Step(p)
AUnblock(p)   == Is(p, {"unblock"}) /\ Step(p)
AForkSub(p)   == Is(p, {"sub"}) /\ Step(p)
AForkCs(p)    == Is(p, {"cs"}) /\ Step(p)
AForkBg(p)    == Is(p, {"bg"}) /\ Step(p)
AForkStage(p) == Is(p, {"pf"}) /\ Step(p)
AReadEof(p)   == Is(p, {"rdeof"}) /\ Step(p)
AEnable(p)    == Is(p, {"en", "en2"}) /\ Step(p)
APollFg(p)    == Is(p, {"poll", "pollx"}) /\ S.ph[p].m = "fg" /\ Kind(S, p) = "silent" /\ Step(p)
AReapFg(p)    == Is(p, {"poll", "pollx"}) /\ S.ph[p].m = "fg" /\ Kind(S, p) = "reap" /\ Step(p)
APollAny(p)   == Is(p, {"poll", "pollx"}) /\ S.ph[p].m = "wb" /\ Kind(S, p) = "silent" /\ Step(p)
AReapAny(p)   == Is(p, {"poll", "pollx"}) /\ S.ph[p].m = "wb" /\ Kind(S, p) = "reapany" /\ Step(p)
AWake(p)      == Is(p, {"slp", "zz", "win"}) /\ Step(p)
APick(p)      == Is(p, {"pick"}) /\ Step(p)
AWaitChk(p)   == Is(p, {"wchk"}) /\ Step(p)
AExit(p)      == Is(p, {"exit"}) /\ Step(p)
ACollect(p, c) == Collectable(S, p, c) /\ S' = DoCollect(S, p, c)
Done          == Terminated(S) /\ UNCHANGED S

Next ==
  \/ \E p \in Pids :
       \/ ASimple(p) \/ AProbe(p) \/ ARead(p) \/ AWrite(p) \/ ABigWrite(p) \/ AKill(p) \/ APubGet(p) \/ AAck(p) \/ AUnblock(p) \/ AForkSub(p) \/ AForkCs(p) \/ AForkBg(p)
       \/ AForkStage(p) \/ AReadEof(p) \/ AEnable(p) \/ APollFg(p) \/ AReapFg(p) \/ APollAny(p)
       \/ AReapAny(p) \/ AWake(p) \/ APick(p) \/ AWaitChk(p) \/ AExit(p)
  \/ \E p, c \in Pids : ACollect(p, c)
  \/ Done

Spec     == Init /\ [][Next]_S
FairSpec == Spec /\ \A p \in Pids : WF_S(Step(p))

-----------------------------------------------------------------------------
(* Properties                                                              *)
NoErr == S.err = ""

\* each child moves Zombie -> Reaped at most once (and Reaped means exactly once)
ReapOnce(T) == \A c \in Pids : T.rc[c] <= 1 /\ (T.rc[c] = 1 <=> T.st[c] = "Reaped")

\* the status the shell records for a child is the status the child exited with
StatusTrue(T) == \A g \in T.got : g[2] = T.xs[g[1]]

\* a process that has gone past a foreground construct (or has terminated)
\* has reaped every child of that construct
NoFgLeft(T) ==
  \A p \in Created(T) :
    (T.st[p] # "Run" \/ T.ph[p].n = "cmd") =>
       \A c \in Kids(T, p) : T.kind[c] \in Foreground => T.st[c] = "Reaped"

\* a job whose status is not known is a child that has not been reaped
JobsSound(T) ==
  \A p \in Created(T) : T.st[p] = "Run" =>
     \A c \in DOMAIN T.jobs[p] : /\ T.par[c] = p
                                 /\ (T.jobs[p][c] = NoSt <=> T.st[c] \in {"Run", "Zombie"})
                                 /\ (T.jobs[p][c] # NoSt => T.jobs[p][c] = T.xs[c])

\* operational outcome = denotation (for every schedule)
ObsOf(T) == {[path |-> T.path[p], pr |-> T.obs[p], xs |-> T.xs[p]] : p \in Created(T)}
ProcMatch(d, o) ==
  /\ d.path = o.path /\ Match(d.xs, o.xs) /\ Len(d.pr) = Len(o.pr)
  /\ \A i \in 1 .. Len(d.pr) : d.pr[i][1] = o.pr[i][1] /\ Match(d.pr[i][2], o.pr[i][2]) /\ d.pr[i][3] = o.pr[i][3]
GlMatch(d, o) ==
  /\ Len(d) = Len(o)
  /\ \A i \in 1 .. Len(d) : d[i][1] = o[i][1] /\ d[i][2] = o[i][2] /\ Match(d[i][3], o[i][3]) /\ d[i][4] = o[i][4]
AgreesWithDenotation(T) ==
  Terminated(T) =>
    LET D == Den(Script(T.sid)) IN
      /\ \A o \in ObsOf(T) : \E d \in D.procs : ProcMatch(d, o)
      /\ \A d \in D.procs : \E o \in ObsOf(T) : ProcMatch(d, o)
      /\ T.det => GlMatch(D.gl, T.glog)

Safe(T) == ReapOnce(T) /\ StatusTrue(T) /\ NoFgLeft(T) /\ JobsSound(T)

InvReapOnce   == ReapOnce(S)
InvStatusTrue == StatusTrue(S)
InvNoFgLeft   == NoFgLeft(S)
InvJobsSound  == JobsSound(S)
InvDenotation == AgreesWithDenotation(S)

Termination == <>Terminated(S)

\* P3 catalogue: one line per script, printed from the initial states of the
\* very run that model-checks the script.
Emit ==
  IF S.n = 1 /\ S.pc[Base] = 1 /\ S.ph[Base].n = "cmd"
  THEN LET sc == Script(S.sid)
           D == Den(sc)
       IN PrintT(ToJson([sid |-> S.sid, text |-> Text(sc), det |-> S.det, status |-> D.status,
                         gl |-> D.gl, procs |-> D.procs, px |-> S.sid \in CatFgStopX]))
  ELSE TRUE
=============================================================================
