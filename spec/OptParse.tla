------------------------------ MODULE OptParse ------------------------------
(***************************************************************************)
(* C20 -- argument syntax of built-in utilities.                           *)
(*                                                                         *)
(* Written from                                                            *)
(*  - POSIX.1-2024 XBD 12.2 "Utility Syntax Guidelines" (guidelines 3-7,   *)
(*    9, 10, 13: one-character option names after a single `-`; several    *)
(*    options without option-arguments may be grouped behind one `-`,      *)
(*    followed by at most one option that takes an option-argument; the    *)
(*    option-argument is the rest of the same argument or the next         *)
(*    argument; options precede operands; the first `--` that is not an    *)
(*    option-argument ends the options; `-` alone is an operand),          *)
(*  - /repo/docs/src/builtins/README.md "Command line argument syntax      *)
(*    conventions" (long options `--name`, abbreviation to an unambiguous  *)
(*    prefix, `--name=arg` or `--name arg`, operands after options, what   *)
(*    the `portable` option rejects),                                      *)
(*  - the public doc comments of yash_builtin::common::syntax (`Mode`,     *)
(*    `OptionSpec`, `OptionOccurrence`, `OptionSpelling`, `ParseError`).   *)
(*                                                                         *)
(* Three definitions live here and in OptParseMachine.tla:                 *)
(*  1. Spellings(specs, mode, inv): GENERATIVE / declarative -- the set of *)
(*     argument vectors that spell the canonical invocation `inv`          *)
(*     (a sequence of (option, option-argument) plus operands).            *)
(*  2. Parse(specs, mode, argv): FUNCTIONAL -- classification of each      *)
(*     argument by the guidelines; gives the invocation or the set of      *)
(*     error classes that apply to the first malformed argument.           *)
(*  3. OptParseMachine: the left-to-right machine in the shape of          *)
(*     parse_arguments / parse_short_options / parse_long_option.          *)
(* TLC checks (MC_OptParse*.cfg) that 3 agrees with 2 on the whole bounded *)
(* domain and that 2 is exactly the inverse of 1.                          *)
(*                                                                         *)
(* Text: an argument is a sequence of one-character strings.               *)
(***************************************************************************)
EXTENDS Integers, Sequences, FiniteSets, TLC

Chars(s) == [i \in 1..Len(s) |-> SubSeq(s, i, i)]

Hy == "-"
DD == <<Hy, Hy>>

OPIsPrefix(p, s) == Len(p) <= Len(s) /\ SubSeq(s, 1, Len(p)) = p
OPDrop(s, n) == SubSeq(s, n + 1, Len(s))
\* first index of character c in s, 0 if absent
OPIndexOf(s, c) == IF \E i \in 1..Len(s) : s[i] = c
                   THEN CHOOSE i \in 1..Len(s) : s[i] = c /\ \A j \in 1..(i-1) : s[j] # c
                   ELSE 0

(***************************************************************************)
(* Option specifications and modes.                                        *)
(*   spec == [s |-> short name ("" = none), l |-> long name (<<>> = none), *)
(*            a |-> takes an option-argument, x |-> non-portable extension]*)
(*   mode == [long |-> long option names accepted,                         *)
(*            ext  |-> extension options accepted,                         *)
(*            same |-> option-argument may share the field of a short      *)
(*                     option]                                             *)
(***************************************************************************)
OptSpec(s, l, a, x) == [s |-> s, l |-> l, a |-> a, x |-> x]
OptMode(long, ext, same) == [long |-> long, ext |-> ext, same |-> same]
ModeExt == OptMode(TRUE, TRUE, TRUE)          \* Mode::with_extensions()
ModePortable == OptMode(FALSE, FALSE, FALSE)  \* Mode::default()
ModeOfId(m) == OptMode(m % 2 = 1, (m \div 2) % 2 = 1, (m \div 4) % 2 = 1)   \* 0..7; 7 = ModeExt

\* What the doc comments of OptionSpec ask of a table ("the name should not be
\* a hyphen", "should not start with -- or include ="), plus distinct names:
\* the contract says nothing about two specs sharing a name, so such tables
\* are outside the domain of the specification.
WellFormed(specs) ==
  /\ \A i \in DOMAIN specs :
       /\ specs[i].s # Hy
       /\ specs[i].s # "" \/ specs[i].l # <<>>
       /\ \A j \in 1..Len(specs[i].l) : specs[i].l[j] # "="
       /\ ~OPIsPrefix(DD, specs[i].l)
  /\ \A i, j \in DOMAIN specs :
       i # j => /\ specs[i].s = "" \/ specs[i].s # specs[j].s
                /\ specs[i].l = <<>> \/ specs[i].l # specs[j].l

(***************************************************************************)
(* Classification of one argument (guidelines 3, 4, 10, 13 + long names).  *)
(***************************************************************************)
IsSeparator(w) == w = DD
IsLongForm(w) == Len(w) > 2 /\ w[1] = Hy /\ w[2] = Hy
IsShortForm(w) == Len(w) >= 2 /\ w[1] = Hy /\ w[2] # Hy
\* anything else is an operand: "", "-", and words not starting with "-"
OptionLike(w) == Len(w) >= 2 /\ w[1] = Hy

(***************************************************************************)
(* Resolution of a (possibly abbreviated) long option name: the option     *)
(* whose name it is, else the only option whose name it abbreviates.       *)
(* Result: [n |-> number of candidates (1 when resolved), i |-> index/0]   *)
(***************************************************************************)
LongExact(specs, name) == {i \in DOMAIN specs : specs[i].l # <<>> /\ specs[i].l = name}
LongCands(specs, name) == {i \in DOMAIN specs : specs[i].l # <<>> /\ OPIsPrefix(name, specs[i].l)}
LongResolve(specs, name) ==
  LET ex == LongExact(specs, name)
      cs == LongCands(specs, name)
  IN IF ex # {} THEN [n |-> 1, i |-> CHOOSE i \in ex : TRUE]
     ELSE IF Cardinality(cs) = 1 THEN [n |-> 1, i |-> CHOOSE i \in cs : TRUE]
     ELSE [n |-> Cardinality(cs), i |-> 0]

(***************************************************************************)
(* Results.  An occurrence is [i, sp, f, k, d]: option specs[i], written   *)
(* in argv[f]; sp = 0 for a long spelling, else OptionSpelling::Short(sp): *)
(* position of the option letter in the field counted from 0 (1 = first    *)
(* letter after the hyphen, larger = grouped); k, d: the option-argument   *)
(* is argv[k] from its d-th character on (k = 0: no option-argument).      *)
(* p: operands are argv[p..].                                              *)
(* errs: every error class whose documented condition holds for the first  *)
(* malformed element; at: index of the argument holding it.                *)
(***************************************************************************)
ErrClasses == {"UnknownShort", "UnknownLong", "NonPortableShort", "NonPortableLong",
               "AmbiguousLong", "MissingArg", "Unseparated", "UnexpectedArg"}

Ok(opts, p) == [ok |-> TRUE, opts |-> opts, p |-> p, errs |-> {}, at |-> 0]
Err(errs, at) == [ok |-> FALSE, opts |-> <<>>, p |-> 0, errs |-> errs, at |-> at]
Occ(i, sp, f, k, d) == [i |-> i, sp |-> sp, f |-> f, k |-> k, d |-> d]
Prepend(o, r) == IF r.ok THEN [r EXCEPT !.opts = <<o>> \o @] ELSE r

\* An empty long name (`--=x`) is outside the documented syntax: README speaks
\* of names abbreviated "if unambiguous", and whether the empty word
\* abbreviates anything is not stated.  Such vectors are Unspecified.
RECURSIVE Unspecified(_)
Unspecified(argv) ==
  IF argv = <<>> THEN FALSE
  ELSE LET w == Head(argv) IN
       (IsLongForm(w) /\ w[3] = "=") \/ Unspecified(Tail(argv))

(***************************************************************************)
(* 2. Functional definition.                                               *)
(***************************************************************************)
RECURSIVE ParseFrom(_, _, _, _), Cluster(_, _, _, _, _)

\* letters of the short-option group argv[k], from its j-th character
Cluster(specs, mode, argv, k, j) ==
  LET w == argv[k] IN
  IF j > Len(w) THEN ParseFrom(specs, mode, argv, k + 1)
  ELSE
    LET S == {i \in DOMAIN specs : specs[i].s = w[j]} IN
    IF S = {} THEN Err({"UnknownShort"}, k)
    ELSE
      LET i == CHOOSE i \in S : TRUE
          o == specs[i]
          attached == j < Len(w)
          errs == (IF o.x /\ ~mode.ext THEN {"NonPortableShort"} ELSE {})
                  \cup (IF o.a /\ attached /\ ~mode.same THEN {"Unseparated"} ELSE {})
                  \cup (IF o.a /\ ~attached /\ k = Len(argv) THEN {"MissingArg"} ELSE {})
      IN IF errs # {} THEN Err(errs, k)
         ELSE IF ~o.a THEN Prepend(Occ(i, j - 1, k, 0, 0), Cluster(specs, mode, argv, k, j + 1))
         ELSE IF attached THEN Prepend(Occ(i, j - 1, k, k, j + 1), ParseFrom(specs, mode, argv, k + 1))
         ELSE Prepend(Occ(i, j - 1, k, k + 1, 1), ParseFrom(specs, mode, argv, k + 2))

LongOption(specs, mode, argv, k) ==
  LET w == argv[k]
      eq == OPIndexOf(w, "=")
      name == IF eq = 0 THEN OPDrop(w, 2) ELSE SubSeq(w, 3, eq - 1)
      r == LongResolve(specs, name)
  IN IF r.n = 0 THEN Err({"UnknownLong"}, k)
     ELSE IF r.n > 1
       THEN Err({"AmbiguousLong"} \cup (IF ~mode.long THEN {"NonPortableLong"} ELSE {}), k)
     ELSE
       LET o == specs[r.i]
           errs == (IF ~mode.long \/ (o.x /\ ~mode.ext) THEN {"NonPortableLong"} ELSE {})
                   \cup (IF ~o.a /\ eq # 0 THEN {"UnexpectedArg"} ELSE {})
                   \cup (IF o.a /\ eq = 0 /\ k = Len(argv) THEN {"MissingArg"} ELSE {})
       IN IF errs # {} THEN Err(errs, k)
          ELSE IF ~o.a THEN Prepend(Occ(r.i, 0, k, 0, 0), ParseFrom(specs, mode, argv, k + 1))
          ELSE IF eq # 0 THEN Prepend(Occ(r.i, 0, k, k, eq + 1), ParseFrom(specs, mode, argv, k + 1))
          ELSE Prepend(Occ(r.i, 0, k, k + 1, 1), ParseFrom(specs, mode, argv, k + 2))

ParseFrom(specs, mode, argv, k) ==
  IF k > Len(argv) THEN Ok(<<>>, k)
  ELSE LET w == argv[k] IN
       IF IsSeparator(w) THEN Ok(<<>>, k + 1)          \* guideline 10
       ELSE IF IsLongForm(w) THEN LongOption(specs, mode, argv, k)
       ELSE IF IsShortForm(w) THEN Cluster(specs, mode, argv, k, 2)
       ELSE Ok(<<>>, k)                                \* first operand (guideline 9, 13)

Parse(specs, mode, argv) == ParseFrom(specs, mode, argv, 1)

(***************************************************************************)
(* Canonical invocation denoted by a successful parse: what was asked for, *)
(* independent of how it was spelled.                                      *)
(*   [opts |-> Seq([i, has, arg]), operands |-> Seq(argument)]             *)
(***************************************************************************)
ArgText(argv, o) == IF o.k = 0 THEN <<>> ELSE OPDrop(argv[o.k], o.d - 1)
Canon(argv, r) ==
  [opts |-> [n \in 1..Len(r.opts) |->
               [i |-> r.opts[n].i, has |-> r.opts[n].k # 0, arg |-> ArgText(argv, r.opts[n])]],
   operands |-> OPDrop(argv, r.p - 1)]

InvOpt(i, has, arg) == [i |-> i, has |-> has, arg |-> arg]
Invocation(opts, operands) == [opts |-> opts, operands |-> operands]

\* An invocation is meaningful for a table: options exist and carry an
\* option-argument exactly when their spec says so.
ValidInv(specs, inv) ==
  \A n \in DOMAIN inv.opts :
     /\ inv.opts[n].i \in DOMAIN specs
     /\ inv.opts[n].has = specs[inv.opts[n].i].a
     /\ inv.opts[n].has \/ inv.opts[n].arg = <<>>

(***************************************************************************)
(* 1. Generative definition: all spellings of an invocation.               *)
(***************************************************************************)
\* names by which option i may be written as a long option
LongNames(specs, mode, i) ==
  IF ~mode.long \/ specs[i].l = <<>> \/ (specs[i].x /\ ~mode.ext) THEN {}
  ELSE {p \in {SubSeq(specs[i].l, 1, n) : n \in 1..Len(specs[i].l)} :
          LET r == LongResolve(specs, p) IN r.n = 1 /\ r.i = i}

LongSpell(specs, mode, o) ==
  LET names == LongNames(specs, mode, o.i) IN
  IF ~o.has THEN {<<DD \o p>> : p \in names}
  ELSE {<<DD \o p \o <<"=">> \o o.arg>> : p \in names} \cup {<<DD \o p, o.arg>> : p \in names}

\* opts[m..n] written as one group of letters behind a single hyphen
RECURSIVE Letters(_, _, _, _)
Letters(specs, opts, m, n) ==
  IF m > n THEN <<>> ELSE <<specs[opts[m].i].s>> \o Letters(specs, opts, m + 1, n)

ClusterSpell(specs, mode, opts, m, n) ==
  IF \/ \E q \in m..n : specs[opts[q].i].s = "" \/ (specs[opts[q].i].x /\ ~mode.ext)
     \/ \E q \in m..(n - 1) : opts[q].has
  THEN {}
  ELSE LET g == <<Hy>> \o Letters(specs, opts, m, n) IN
       IF ~opts[n].has THEN {<<g>>}
       ELSE {<<g, opts[n].arg>>}
            \cup (IF mode.same /\ opts[n].arg # <<>> THEN {<<g \o opts[n].arg>>} ELSE {})

GroupSpell(specs, mode, opts, m, n) ==
  ClusterSpell(specs, mode, opts, m, n)
  \cup (IF m = n THEN LongSpell(specs, mode, opts[m]) ELSE {})

RECURSIVE OptSpell(_, _, _, _)
OptSpell(specs, mode, opts, m) ==
  IF m > Len(opts) THEN {<<>>}
  ELSE UNION {{w \o rest : w \in GroupSpell(specs, mode, opts, m, n),
                           rest \in OptSpell(specs, mode, opts, n + 1)} : n \in m..Len(opts)}

\* operands follow the options; `--` may always separate them and must do so
\* when the first operand would otherwise be taken for an option or for `--`
OperandSpell(operands) ==
  {<<DD>> \o operands}
  \cup (IF operands = <<>> \/ ~OptionLike(operands[1]) THEN {operands} ELSE {})

Spellings(specs, mode, inv) ==
  {o \o r : o \in OptSpell(specs, mode, inv.opts, 1), r \in OperandSpell(inv.operands)}

(***************************************************************************)
(* One plain spelling of an invocation: every option by itself, by its     *)
(* short name if it has one, option-arguments as separate arguments, `--`  *)
(* only where needed.  (An element of Spellings when the mode allows it.)  *)
(***************************************************************************)
RECURSIVE PlainOpts(_, _, _)
PlainOpts(specs, opts, m) ==
  IF m > Len(opts) THEN <<>>
  ELSE LET o == opts[m]
           name == IF specs[o.i].s # "" THEN <<Hy, specs[o.i].s>> ELSE DD \o specs[o.i].l
       IN <<name>> \o (IF o.has THEN <<o.arg>> ELSE <<>>) \o PlainOpts(specs, opts, m + 1)
PlainVec(specs, inv) ==
  PlainOpts(specs, inv.opts, 1)
  \o (IF inv.operands = <<>> \/ ~OptionLike(inv.operands[1]) THEN <<>> ELSE <<DD>>)
  \o inv.operands

(***************************************************************************)
(* Judging an observed outcome (used by Trace_OptParse).  The observation  *)
(* is [ok, opts: Seq([i, sp, f, has, k, arg]), operands, err, fld, pn]:    *)
(* f / k = index of the argument the occurrence's location / the           *)
(* option-argument's origin points to (k = 0: none); fld = text of the     *)
(* field reported by ParseError::field() and fo its index; oo = indices of *)
(* the arguments the operands' origins point to; pn = the parser panicked. *)
(***************************************************************************)
Expected(argv, r) ==
  [ok |-> r.ok,
   opts |-> [n \in 1..Len(r.opts) |->
               [i |-> r.opts[n].i, sp |-> r.opts[n].sp, f |-> r.opts[n].f, has |-> r.opts[n].k # 0,
                k |-> r.opts[n].k, arg |-> ArgText(argv, r.opts[n])]],
   operands |-> IF r.ok THEN OPDrop(argv, r.p - 1) ELSE <<>>]

Conforms(specs, mode, argv, obs) ==
  LET r == Parse(specs, mode, argv)
      e == Expected(argv, r)
  IN /\ ~obs.pn
     /\ obs.ok = r.ok
     /\ r.ok => /\ Len(obs.opts) = Len(e.opts)
                /\ \A n \in 1..Len(e.opts) :
                     /\ obs.opts[n].i = e.opts[n].i
                     /\ obs.opts[n].sp = e.opts[n].sp
                     /\ obs.opts[n].f = e.opts[n].f
                     /\ obs.opts[n].k = e.opts[n].k
                     /\ obs.opts[n].has = e.opts[n].has
                     /\ obs.opts[n].arg = e.opts[n].arg
                /\ obs.operands = e.operands
                /\ obs.oo = [n \in 1..Len(e.operands) |-> r.p + n - 1]
     /\ ~r.ok => /\ obs.err \in r.errs
                 /\ obs.fo = r.at
                 /\ obs.fld = argv[r.at]
=============================================================================
