SPECIFICATION Spec
CONSTANTS
  NT = 2
  NP = 2
  NS = 1
  Cap = 2
  MaxNow = 1
  Budget = 2
  MaxExt = 2
  MaxSel = 2
  MaxSpur = 0
  Base0 = {}
  Variant = "ok"
  Hist = "off"
  Loop = FALSE
  Peek = FALSE
  Sym = TRUE
  Fam = "rw2"
  Ops <- FamOps
  Exts <- FamExts
INVARIANT TypeOK
