--------------------------- MODULE Trace_WordSubst ---------------------------
(***************************************************************************)
(* impl -> spec validation for G15.  Every record of the ndjson file       *)
(* IOEnv.TRACE was observed on the real shell:                             *)
(*   {ctx, w, text, st, obs: {k, f, x, y, ifs, q}}                         *)
(* the word w (units of WordSubst.tla), written as `text`, in context ctx  *)
(* and shell state st gave the fields f, left the variables x, y, IFS and  *)
(* `$?` = q (k = "ok"), or the shell exited with a diagnostic (k = "err"). *)
(* A record is accepted iff the text is the text the specification gives   *)
(* the word and the observation agrees with the prescribed outcome; inputs *)
(* outside the specified fragment are reported as skipped.  Binary         *)
(* splitting of the index range as in Trace_Expand.                        *)
(***************************************************************************)
EXTENDS WordSubst, Json, IOUtils

Rec == ndJsonDeserialize(IOEnv.TRACE)
N == Len(Rec)

VARIABLES lo, hi
vars == <<lo, hi>>

Init == lo = 1 /\ hi = N
Next == /\ lo < hi
        /\ LET mid == (lo + hi) \div 2
           IN \/ lo' = lo /\ hi' = mid
              \/ lo' = mid + 1 /\ hi' = hi
Spec == Init /\ [][Next]_vars

Verdict(r) ==
  IF Text(r.ctx, r.w) # r.text THEN [v |-> "badtext", exp |-> Out("skip", <<Text(r.ctx, r.w)>>, r.st, "", FALSE)]
  ELSE LET o == Outcome(r.ctx, r.w, r.st) IN
       IF o.k = "skip" THEN [v |-> "skip", exp |-> o]
       ELSE IF Agree(r.obs, o) THEN [v |-> "ok", exp |-> o]
       ELSE [v |-> "reject", exp |-> o]

Judge ==
  (lo = hi /\ N > 0) =>
     LET j == Verdict(Rec[lo])
     IN IF j.v = "ok" THEN TRUE
        ELSE PrintT(ToJson([i |-> lo, v |-> j.v, exp |-> j.exp]))
=============================================================================
