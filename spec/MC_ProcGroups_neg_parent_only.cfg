\* negative configuration: the wrong variant "parent_only" must be refuted (law OwnGroup)
SPECIFICATION Spec
CONSTANTS
  Variant = "parent_only"
  Fams = {"fg", "async", "stop1", "tty", "nomon"}
  Cfgs = {"m", "mi", "-", "ml", "mib"}
  Enf = {TRUE}
ALIAS Brief
INVARIANT OwnGroup
