SPECIFICATION Spec
CONSTANTS
  Profile = "word"
  MaxTok = 12
  MaxUnits = 1
INVARIANT GenInv
