SPECIFICATION Spec
CONSTANTS
  Profile = "word"
  MaxTok = 12
  MaxUnits = 2
INVARIANT GenInv
