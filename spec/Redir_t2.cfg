SPECIFICATION Spec
CONSTANTS
  Cfg = "t2"
  Bug = "none"
  Sim = TRUE
INVARIANT TypeOK
INVARIANT InternalInv
INVARIANT Conforms
INVARIANT Emit
