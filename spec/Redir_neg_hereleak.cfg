SPECIFICATION Spec
CONSTANTS
  Cfg = "negflt"
  Bug = "hereleak"
  Sim = TRUE
INVARIANT TypeOK
INVARIANT Conforms
