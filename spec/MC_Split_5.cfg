SPECIFICATION Spec
CONSTANT MaxLen = 5
INVARIANT Theorems
INVARIANT EmptyIfsNoSplit
INVARIANT AllQuotedOneField
