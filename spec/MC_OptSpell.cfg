SPECIFICATION Spec
CONSTANTS
  TableIds = {0, 14, 1255, 7000, 20000, 31103}
  ModeIds = {0, 7}
  MaxOpts = 3
  MaxOps = 1
INVARIANT SpellingsParseBack
INVARIANT SomeSpelling
