---------------------------- MODULE Trace_Fnmatch ----------------------------
(***************************************************************************)
(* P4 validation for C04 (impl -> spec).  Every record is one call of the   *)
(* real yash_fnmatch on a (pattern, string, configuration):                 *)
(*   mode, c, l   how the pattern reached the parser: "pc" explicit pattern *)
(*                characters c with quoted flags l; "esc" with_escape(text  *)
(*                c); "raw" without_escape(text c)                          *)
(*   s            the string (array of characters)                          *)
(*   ab ae sh lp  Config                                                    *)
(*   pn           the call panicked                                         *)
(*   e            Pattern::parse_with_config returned an error (the shell   *)
(*                treats such a pattern as matching nothing)                *)
(*   m, f, r      is_match, find, rfind (character indices; -1,-1 = None)   *)
(* The record is accepted iff that is what Fnmatch.tla prescribes.  Records *)
(* whose pattern POSIX leaves open are accepted and counted.                *)
(***************************************************************************)
EXTENDS Fnmatch, Json, IOUtils

Rec == ndJsonDeserialize(IOEnv.TRACE)

VARIABLE l
vars == <<l>>

PatternOf(r) ==
  CASE r.mode = "pc"  -> [i \in 1..Len(r.c) |-> [c |-> r.c[i], l |-> r.l[i] = 1]]
    [] r.mode = "esc" -> WithEscape(r.c)
    [] r.mode = "raw" -> WithoutEscape(r.c)

\* POSIX / the manual leave the outcome open
Open(r) ==
  \/ r.mode = "esc" /\ TrailingBackslash(r.c)
  \/ ~Specified(PatternOf(r))
  \/ r.lp /\ ~(r.ab /\ r.ae)      \* literal_period is specified for whole-string matching only

StepOK(r) ==
  /\ ~r.pn
  /\ IF Open(r) THEN TRUE
     ELSE LET P   == Parse(PatternOf(r))
              A   == P.atoms
              cfg == [ab |-> r.ab, ae |-> r.ae, sh |-> r.sh]
          IN \* (a parser error is observable only as "matches nothing")
             IF r.lp THEN r.m = MatchesPeriodA(A, r.s)
                ELSE IF P.mc
                \* multi-character collating symbols: only matching is specified
                THEN r.m = IsMatchA(A, r.s, cfg)
                ELSE LET f == FindA(A, r.s, cfg) IN
                     r.m = (f # None) /\ r.f = f /\ r.r = RFindA(A, r.s, cfg)

RECURSIVE Join(_)
Join(s) == IF Len(s) = 0 THEN "" ELSE s[1] \o Join(Tail(s))

\* The records are independent calls, so validation goes on after a record
\* that the specification does not allow: each such record is printed as a
\* {reject, rec, cs, nt} line (cs, nt: descriptive shape of the pattern) and
\* the driver turns it into a violation.
Reject(i) ==
  LET A == Parse(PatternOf(Rec[i])).atoms
  IN PrintT(ToJson([reject |-> i, rec |-> Rec[i],
                    cs |-> {Join(s) : s \in Syms(A)}, nt |-> ShapeNotes(A)]))

TraceInit == l = 1

TraceNext ==
  /\ l <= Len(Rec)
  /\ IF StepOK(Rec[l]) THEN TRUE ELSE Reject(l)
  /\ l' = l + 1

TraceSpec == TraceInit /\ [][TraceNext]_vars

\* every record was judged; how many of them POSIX leaves open
Accepted ==
  LET d == TLCGet("stats").diameter
  IN /\ d - 1 = Len(Rec)
     /\ PrintT(ToJson([judged |-> Len(Rec),
                       open |-> Cardinality({i \in 1..Len(Rec) : Open(Rec[i])})]))
=============================================================================
