SPECIFICATION Spec
CONSTANTS
  Sigs = {"INT", "QUIT"}
  WithExit = FALSE
  MaxH = 100
VIEW view
INVARIANT Consistent
PROPERTY ExactlyOnce
