\* G08 enumeration: family ulimit, thorough
SPECIFICATION Spec
VIEW View
CONSTANTS
  Family = "ulimit"
  Depth = 2
  Level = "full"
INVARIANT Emit
