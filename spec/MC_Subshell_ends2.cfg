\* C08 thorough: every way a subshell can end x script and interactive parent, at most 2 mutators
CONSTANTS
  MaxPre = 1
  MaxChild = 2
  MaxPost = 1
  MaxTotal = 2
  MinPre = 0
  MinTotal = 0
  Leaky = FALSE
  ForkBug = "none"
  Alphabet <- EndCmds
  PreAlphabet <- CorePreCmds
  Kinds <- EndKinds
  Modes <- BothModes
  Fins <- AllFins
  Ctxs <- MainCtx
INIT Init
NEXT Next
INVARIANTS NoForeignTrapAction EntryIsForkImage PendingCleared ParentTrapOnce ContextDuplicated TrapRule SharedDescriptions Final Emit
PROPERTIES Isolation CopyNotReference
