INIT Init
NEXT Next
VIEW view
CONSTANTS
  Variant = ""
  PNorm <- TokErrQ
  PLit <- NoChars
  PMacro <- MacErrQ
  PLen = 3
  SAlpha <- StrErr
  SLen = 1
  CfgSel = "cilp"
  Kind = "match"
INVARIANT Emit
