\* negative configuration: the wrong variant "ret_loop_norestore" must be refuted by P_CallRestores
SPECIFICATION Spec
CONSTANTS
  MaxDepth = 4
  Variant = "ret_loop_norestore"
  Fams = {"pos"}
  LB = 1
  LM = 1
  Wide = {}
  Stepwise = TRUE
PROPERTY P_CallRestores
