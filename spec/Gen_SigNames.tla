---------------------------- MODULE Gen_SigNames ----------------------------
(***************************************************************************)
(* G14, P1 + P4 (enumeration, spec -> impl).  For one system (the platform *)
(* record is read from the file IOEnv.PLATFORM, written by                 *)
(* `yv-g14 platform`) TLC                                                  *)
(*   - evaluates the laws of the catalogue and of the conversions          *)
(*     (family "law": one state per law, printed with its verdict; a law   *)
(*     that fails on the measured catalogue is a discrepancy of the system *)
(*     under test, reported by the check),                                 *)
(*   - enumerates the cases of every family as initial states and prints   *)
(*     each as one JSON line together with the kind of outcome the         *)
(*     specification prescribes (xk).                                      *)
(* harness/g14 runs every case on the system (simulated shell / real       *)
(* kernel / API of the system object) and records the observation;         *)
(* Trace_SigNames.tla holds the verdict (SigNames!Conforms).               *)
(***************************************************************************)
EXTENDS SigNames, Json, IOUtils

CONSTANT Level      \* "quick" | "full" | "laws" (only the laws; with INVARIANT LawsHold: the negative configurations)

VARIABLE c
vars == <<c>>

Plat == JsonDeserialize(IOEnv.PLATFORM)
P == [names |-> Plat.names, rtmin |-> Plat.rtmin, rtmax |-> Plat.rtmax, kacc |-> Plat.kacc, maxn |-> Plat.maxn]
SysName == Plat.sys

C(fam, po, w) == [fam |-> fam, po |-> po, w |-> w, op |-> "", t |-> "", n |-> 0]
A(op, t, n) == [fam |-> "api", po |-> FALSE, w |-> <<>>, op |-> op, t |-> t, n |-> n]

(***************************************************************************)
(* Alphabets.                                                              *)
(***************************************************************************)
CatNames == {P.names[i].n : i \in 1..Len(P.names)}
Mid == (P.rtmin + P.rtmax) \div 2
RtPick == IF Level = "full" THEN RtNumbers(P)
          ELSE RtNumbers(P) \cap {P.rtmin, P.rtmin + 1, P.rtmin + 2, Mid - 1, Mid, Mid + 1, Mid + 2, P.rtmax - 2, P.rtmax - 1, P.rtmax}
RtExact == UNION {Spellings(P, n) : n \in RtPick}
Exact == CatNames \cup RtExact

\* aBcD...
RECURSIVE Alt(_, _)
Alt(s, up) == IF Len(s) = 0 THEN "" ELSE (IF up THEN Up(Ch(s, 1)) ELSE Down(Ch(s, 1))) \o Alt(Tl(s, 2), ~up)

Variants(nm) ==
  {nm, Down(nm), Cap(nm), "SIG" \o nm, "sig" \o Down(nm), "Sig" \o Down(nm)}
  \cup (IF Level = "full" THEN {"SIG" \o Down(nm), "sig" \o nm, Alt(nm, FALSE), Alt("SIG" \o nm, TRUE)} ELSE {})
Texts == UNION {Variants(nm) : nm \in Exact}

Over == ToString(RtSpan(P) + 1)
Bad == {"", "FOO", "TERMX", "XTERM", "SIG", "SIGSIGTERM", "TER", "T", "EXIT", "SIGEXIT", "exit",
        " TERM", "TERM ", "TE RM", "+15", "-15", "+0", "-0", "015", "00", "0x0f", "1 5", "15x", "x15",
        "RTMIN+" \o Over, "RTMAX-" \o Over, "rtmin+" \o Over, "SIGRTMAX-" \o Over, "RTMIN-1", "RTMAX+1", "RTMIN+", "RTMAX-",
        "RTMIN0", "RTMAX1", "RTMIN+-1", "RTMIN++1", "RTMIN-0", "RTMAX+0", "RTMIN+01", "RTMAX-00", "RTMINX", "RTMID", "RT", "RTMIN+1x",
        "RTMIN+99999999999", "99999999999", "4294967311", "2147483648"}

NumTexts == {ToString(n) : n \in 0..(P.maxn + 1)}
            \cup {"127", "128", "129", "255", "256", "384", "385", "399", "1000", "65535", "2147483647"}

(***************************************************************************)
(* Families.                                                               *)
(***************************************************************************)
SendShapes(x) == {<<"-s", x, "@V1">>, <<"-s" \o x, "@V1">>, <<"-n", x, "@V1">>, <<"-n" \o x, "@V1">>,
                  <<"-" \o x, "@V1">>, <<"-s", x, "--", "@V1">>}
\* thorough only: several targets, groups, a target that does not exist
MoreShapes(x) == {<<"-s", x, "@V2", "@V3">>, <<"-" \o x, "--", "@-G1">>, <<"-n", x, "--", "@-G2", "@V3">>, <<"-s", x, "@V1", "@NONE">>,
                  <<"-" \o x, "@NONE">>, <<"-s" \o x, "--", "@-G1", "@-G2">>}
FamSpec == {C("send", po, w) : po \in BOOLEAN, w \in UNION {SendShapes(x) : x \in Texts \cup Bad \cup NumTexts}}
           \cup (IF Level = "full" THEN {C("send", po, w) : po \in BOOLEAN, w \in UNION {MoreShapes(x) : x \in Texts \cup Bad \cup NumTexts}}
                 ELSE {})

TargetShapes == {
  <<>>, <<"--">>, <<"-s">>, <<"-n">>, <<"-s", "TERM">>, <<"-s", "TERM", "--">>, <<"-TERM">>, <<"-15">>,
  <<"@V1">>, <<"@V1", "@V2">>, <<"@V2", "@V3">>, <<"@V1", "@V2", "@V3">>, <<"--", "@V1">>, <<"@V1", "--">>, <<"--", "--", "@V1">>,
  <<"@-G1">>, <<"@-G1", "@V2">>, <<"--", "@-G1">>, <<"--", "@-G2">>, <<"--", "@-G1", "@-G2">>,
  <<"-s", "USR1", "--", "@-G1">>, <<"-s", "USR1", "@-G1">>, <<"-USR1", "--", "@-G1", "@V2">>, <<"-n", "2", "--", "@-G2", "@V3">>,
  <<"@V2", "@-G1">>, <<"-s", "INT", "@V2", "@-G1">>, <<"-1", "--", "@-G1">>, <<"-sHUP", "--", "@-G2">>,
  <<"@NONE">>, <<"@V1", "@NONE">>, <<"@NONE", "@V2">>, <<"-s", "0", "@NONE">>, <<"-0", "@V1", "@NONE", "@V3">>,
  <<"-s", "0", "@V1">>, <<"-n", "0", "--", "@-G1">>,
  <<"abc">>, <<"">>, <<"@V1", "abc">>, <<"abc", "@V1">>, <<"1x", "@V2">>, <<"@V3", "">>, <<"-">>, <<"-", "@V1">>,
  <<"-s", "TERM", "-s", "INT", "@V1">>, <<"-TERM", "-INT", "@V1">>, <<"-s", "TERM", "-TERM", "@V1">>,
  <<"-l", "-s", "TERM">>, <<"-s", "TERM", "-l">>, <<"-ls", "TERM", "@V1">>, <<"-sl", "@V1">>,
  <<"-q", "@V1">>, <<"-x">>, <<"-sq", "@V1">>, <<"--", "-s", "TERM", "@V1">>, <<"--", "-TERM", "@V1">>,
  <<"-s", "KILL", "@V1", "@V2">>, <<"-s", "STOP", "@V3">>, <<"-KILL", "--", "@-G1">>, <<"-s", "CONT", "@V1">>, <<"-STOP", "--", "@-G1">>,
  <<"-stop", "@V1">>, <<"-sstop", "@V1">>, <<"-sigstop", "@V1">>, <<"-segv", "@V2">>, <<"-sys", "@V2">>, <<"-nint", "@V3">>, <<"-n9", "@V3">>,
  <<"-vtalrm", "@V1">>, <<"-VTALRM", "@V1">>, <<"-Vtalrm", "@V1">>, <<"-lost", "@V1">>, <<"-LOST", "@V1">>, <<"-Lost", "@V1">>,
  <<"-vTALRM", "@V1">>, <<"-sVTALRM", "@V1">>, <<"-nlost", "@V1">>}
FamTargets == {C("send", po, w) : po \in BOOLEAN, w \in TargetShapes}

StatusTexts == {ToString(s) : s \in 0..(384 + P.maxn + 3)}
SomeStatus == {ToString(s) : s \in ({0, 1, 2, 3, 6, 9, 14, 15, 128, 129, 130, 143, 384, 385, 386, 399} \cup Numbers(P))}
ListShapes ==
  {<<"-l">>, <<"-v">>, <<"-lv">>, <<"-vl">>, <<"-l", "-v">>, <<"-l", "--">>, <<"-v", "--">>, <<"-l", "-l">>}
  \cup {<<"-l", x>> : x \in StatusTexts \cup Texts \cup Bad}
  \cup {<<"-v", x>> : x \in Exact \cup SomeStatus \cup {"0", "FOO", "int", "SIGINT"}}
  \cup {<<"-l", "--", x>> : x \in {"9", "TERM", "-15", "FOO", "399", "--"}}
  \cup {<<"-l", a, b>> : a \in {"9", "TERM", "0", "FOO", "399", "INT", "int"}, b \in {"9", "TERM", "0", "FOO", "399", "INT", "int"}}
  \cup {<<"-l", "9", "15", "2">>, <<"-v", "9", "TERM">>, <<"-lv", "HUP", "130">>, <<"-l", "USR1", "-v">>}
  \cup (IF Level = "full"
        THEN {<<"-v", x>> : x \in StatusTexts \cup Texts \cup Bad} \cup {<<"-lv", "--", x>> : x \in Exact \cup SomeStatus}
             \cup {<<"-l", a, b>> : a \in Exact, b \in {"9", "TERM", "FOO", "399", "int", "RTMAX"}}
        ELSE {})
FamList == {C("list", po, w) : po \in BOOLEAN, w \in ListShapes}

SelfNums == (NamedNumbers(P) \cup RtPick) \ {KillNum(P), StopNum(P)}
SelfNames == UNION {NamesOfNum(P, n) \cup NameOf(P, n) : n \in SelfNums}
FamSelf ==
  {C("self", FALSE, <<"-s", nm, "@ME">>) : nm \in SelfNames}
  \cup {C("self", FALSE, <<"-n", ToString(n), "@ME">>) : n \in SelfNums}
  \cup {C("self", po, <<"-" \o nm, "@ME">>) : po \in BOOLEAN, nm \in UNION {NameOf(P, n) : n \in SelfNums}}
  \cup {C("self", po, w) : po \in BOOLEAN,
        w \in {<<"@ME">>, <<"-s", "0", "@ME">>, <<"-0", "@ME">>, <<"-s", "FOO", "@ME">>, <<"-s", "term", "@ME">>, <<"-sigusr1", "@ME">>,
               <<"-s", "SIGUSR2", "@ME">>, <<"-n", "usr1", "@ME">>, <<"-" \o ToString(P.maxn), "@ME">>, <<"-s", "usr1", "--", "@ME">>}}

DieNums == {n \in (NamedNumbers(P) \cup RtPick) : DefAct(P, n) \in {"T", "A", "I", "C"}}
FamDie == {C("die", FALSE, <<"-s", nm, "@ME">>) : nm \in UNION {NameOf(P, n) : n \in DieNums}}
          \cup {C("die", FALSE, <<"-" \o ToString(n), "@ME">>) : n \in {1, 2, 3, 6, 9, 14, 15}}
          \cup {C("die", FALSE, w) : w \in {<<"@ME">>, <<"-s", "0", "@ME">>, <<"-s", "FOO", "@ME">>}}

TrapConds == Texts \cup Bad \cup {ToString(n) : n \in 0..(P.maxn + 2)} \cup {"EXIT", "exit", "Exit", "SIGEXIT", "sigexit", "128", "399"}
FamTrap ==
  {C("trap", FALSE, <<f, x>>) : f \in {"-p", "-", ""}, x \in TrapConds}
  \* a command as the action; the action omitted before a number
  \cup {C("trap", FALSE, <<"true", x>>) : x \in Exact \cup {ToString(n) : n \in 0..(P.maxn + 2)} \cup {"EXIT", "FOO", "int", "SIGINT"}}
  \cup {C("trap", FALSE, <<x>>) : x \in {ToString(n) : n \in 0..(P.maxn + 2)} \cup {"00", "015", "INT", "EXIT", "-", "", "true"}}
  \cup {C("trap", FALSE, <<ToString(n), y>>) : n \in {0, 1, 2, 15, P.rtmin, P.maxn}, y \in {"QUIT", "3", "EXIT", "0", "FOO", "quit", "RTMAX", "-"}}
  \cup {C("trap", FALSE, w) : w \in {<<"1", "2", "3">>, <<"false", "USR1", "USR2">>, <<"exit", "TERM", "EXIT">>, <<"true", "INT", "FOO">>,
                                     <<"INT", "2">>, <<"echo x", "INT">>, <<"-x", "INT">>, <<"--", "-", "INT">>, <<"true", "KILL">>, <<"9">>,
                                     <<"true", "0", "EXIT">>, <<"15", "15">>}}
  \cup {C("trap", FALSE, w) : w \in {<<"-", "INT", "FOO">>, <<"-p", "INT", "TERM", "EXIT">>, <<"", "INT", "KILL">>, <<"-p", "EXIT", "0">>,
                                     <<"-", "USR1", "usr2">>, <<"", "USR1", "USR2", "15">>, <<"-p", "KILL", "STOP">>, <<"-p", "FOO", "INT">>,
                                     <<"-", "2", "QUIT">>}}
  \cup (IF Level = "full"
        THEN {C("trap", FALSE, <<f, x, y>>) : f \in {"-p", "-", "", "true"}, x \in Exact \cup {"EXIT", "0", "FOO", "int"},
                                              y \in {"QUIT", "3", "EXIT", "FOO", "RTMIN", "quit", ToString(P.rtmax)}}
             \cup {C("trap", FALSE, <<f, x>>) : f \in {"false", "exit"}, x \in TrapConds}
        ELSE {})
  \cup {C("trapall", FALSE, <<"-p">>)}

ApiTexts == Texts \cup Bad \cup RangeOf(KnownNames) \cup {"RTMIN", "RTMAX", "RTMIN+1", "RTMAX-1", "RTMIN+1000", "RTMAX-1000", "RTMIN+0", "RTMAX-0"}
FamApi ==
  {A("str2sig", t, 0) : t \in ApiTexts}
  \cup {A("fromstr", t, 0) : t \in ApiTexts}
  \cup {A(op, t, 0) : op \in {"parsesig0", "parsesig1"}, t \in ApiTexts \cup NumTexts}
  \cup {A("numfromname", t, 0) : t \in {x \in ApiTexts : FromStrNames(x).k = "ok"}}
  \cup {A(op, "", n) : op \in {"sig2str", "tosignum", "validate"}, n \in (-2)..(P.maxn + 2)}
  \cup {A(op, "", s) : op \in {"tosignal0", "tosignal1"}, s \in ((-2)..(384 + P.maxn + 3)) \cup {527, 655, 99999}}
  \cup {A("fromsignal", "", n) : n \in Numbers(P)}
  \cup {A(op, "", 0) : op \in {"conditer", "named", "itersigrt", "nameiter"}}
  \cup (IF SysName = "sim" THEN {A("effect", "", n) : n \in Numbers(P)} ELSE {})

(***************************************************************************)
(* Laws.  Each is evaluated on the measured catalogue.                     *)
(***************************************************************************)
AllNums == Numbers(P)
AllSpellings == UNION {Spellings(P, n) : n \in AllNums}
MirrorName(nm) == IF nm = "RTMIN" THEN "RTMAX" ELSE IF nm = "RTMAX" THEN "RTMIN"
                  ELSE IF StartsWith(nm, "RTMIN+") THEN "RTMAX-" \o Tl(nm, 7) ELSE "RTMIN+" \o Tl(nm, 7)
AllVariants(nm) == {nm, Down(nm), Cap(nm), "SIG" \o nm, "sig" \o Down(nm), "Sig" \o Down(nm), Alt(nm, FALSE)}
NoSig(v) == ~StartsWith(Up(v), "SIG")

Law(id) ==
  CASE id = "catalogue-well-formed" ->
         /\ \A i, j \in 1..Len(P.names) : i # j => P.names[i].n # P.names[j].n
         /\ \A i \in 1..Len(P.names) : P.names[i].v > 0 /\ P.names[i].v \notin RtNumbers(P)
         /\ \A i \in 1..Len(P.names) : P.names[i].n \in RangeOf(KnownNames)
         /\ \A i \in 1..Len(P.names) : ~StartsWith(P.names[i].n, "SIG") /\ ~IsDigits(P.names[i].n) /\ P.names[i].n # "EXIT"
                                        /\ ~StartsWith(P.names[i].n, "RTM") /\ P.names[i].n = Up(P.names[i].n)
         /\ HasRt(P) => P.rtmin > 0
         /\ 0 \in Kacc(P) /\ AllNums \subseteq Kacc(P)
    [] id = "posix-required-names" ->
         /\ PosixNames \subseteq CatNames
         /\ \A i \in 1..Len(P.names) : P.names[i].req = (P.names[i].n \in PosixNames)
    [] id = "posix-fixed-numbers" -> \A i \in 1..Len(PosixFixed) : NumOfNamed(P, PosixFixed[i][1]) = PosixFixed[i][2]
    [] id = "posix-fixed-names" ->              \* kill -l 6 is ABRT whatever other names 6 has
         \A i \in 1..Len(PosixFixed) : NameOf(P, PosixFixed[i][2]) = {PosixFixed[i][1]}
                                        /\ OperandPairs(P, ToString(PosixFixed[i][2])) = {<<PosixFixed[i][2], PosixFixed[i][1]>>}
    [] id = "rt-names-mirror" ->                \* the realtime names are symmetric about the middle of the range
         \A k \in 0..RtSpan(P) : {MirrorName(nm) : nm \in NameOf(P, P.rtmin + k)} = NameOf(P, P.rtmax - k)
    [] id = "list-operand-forms" ->             \* kill.md Compatibility: no 0, no EXIT, never the SIG prefix
         /\ ListOperand(P, "0").k = "err" /\ ListOperand(P, "EXIT").k = "err" /\ ListOperand(P, "").k = "err"
         /\ \A nm \in AllSpellings : ListOperand(P, nm).k = "name" /\ ListOperand(P, "SIG" \o nm).k = "err"
         /\ \A n \in AllNums : ListOperand(P, ToString(n)).k = "num" /\ n \in ListOperand(P, ToString(n)).ns
    [] id = "name-of-number-round-trip" ->      \* ParseSigSpec(NameOf(n)) = n in every context
         \A n \in AllNums : NameOf(P, n) # {} /\ \A nm \in NameOf(P, n) :
           /\ NameNum(P, nm) = Sig(n)
           /\ \A po \in BOOLEAN : ParseSigSpec(P, nm, "kill-s", po) = Sig(n) /\ ParseSigSpec(P, nm, "kill-n", po) = Sig(n)
                                   /\ ParseSigSpec(P, nm, "kill-dash", po) = Sig(n)
           /\ ParseSigSpec(P, nm, "kill-l", FALSE) = Sig(n) /\ ParseSigSpec(P, nm, "trap", FALSE) = Sig(n)
    [] id = "number-of-name-canonical" ->       \* NameOf(ParseSigSpec(name)) is a spelling of the same signal
         \A nm \in AllSpellings : LET r == NameNum(P, nm) IN
           r.k = "sig" /\ NameOf(P, r.n) # {} /\ NameOf(P, r.n) \subseteq Spellings(P, r.n) /\ nm \in Spellings(P, r.n)
    [] id = "kill-l-round-trip" ->              \* kill -l $(kill -l N) and kill -s $(kill -l N)
         \A n \in AllNums : \A s \in {n, 128 + n, 384 + n} :
           (ListOperand(P, ToString(s)).ns = {n}) =>
             \A p \in OperandPairs(P, ToString(s)) :
               /\ p[1] = n
               /\ ListOperand(P, p[2]).k = "name" /\ ListOperand(P, p[2]).ns = {n}
               /\ \A q \in OperandPairs(P, p[2]) : q[1] = n /\ NameNum(P, q[2]) = Sig(n)
               /\ KillCmd(P, FALSE, <<"-s", p[2], "@V1">>).sig = n /\ KillCmd(P, TRUE, <<"-s", p[2], "@V1">>).sig = n
               /\ KillCmd(P, FALSE, <<"-l", p[2]>>).k = "list"
    [] id = "status-to-signal" ->
         /\ \A n \in AllNums : /\ StatusReadings(P, 384 + n) = {n} /\ StatusExact(P, 384 + n) = {n}
                               /\ n \in StatusReadings(P, 128 + n) /\ StatusReadings(P, 128 + n) \subseteq {n, 128 + n}
                               /\ n \in StatusReadings(P, n) /\ StatusOfSignal(n) > 128
                               /\ StatusExact(P, StatusOfSignal(n)) = {n} /\ StatusFirst(P, StatusOfSignal(n)) = n
                               /\ StatusFirst(P, n) \in StatusReadings(P, n)
         /\ \A s \in 0..384 : StatusExact(P, s) = {}
         /\ StatusReadings(P, 0) = {}
    [] id = "no-ambiguity-with-options" ->      \* -NAME in any spelling is the signal, never an option cluster
         \A nm \in AllSpellings : \A v \in AllVariants(nm) : \A po \in BOOLEAN :
           LET n == NameNum(P, nm).n
               st == Scan(P, po, <<"-" \o v, "@V1">>, St0)
               cl == Cluster(P, po, v, TRUE, "@V1", St0)
           IN IF po /\ ~NoSig(v) THEN st.res = "err"
              ELSE /\ st.res = "go" /\ st.sig = n /\ st.cnt = 1 /\ ~st.list /\ ~st.verb /\ st.i = 2
                   /\ (cl.res = "go" => cl.sig = n /\ ~cl.list /\ ~cl.verb /\ cl.used = 1)
                   /\ KillCmd(P, po, <<"-" \o v, "@V1">>) = KOut("send", n, {"V1"}, TRUE, FALSE, <<>>, FALSE)
    [] id = "contexts-agree" ->                 \* -s X, -sX, -n X, -nX, -X, with and without --
         \A nm \in AllSpellings : \A v \in AllVariants(nm) :
           LET n == NameNum(P, nm).n
               want == KOut("send", n, {"V1"}, TRUE, FALSE, <<>>, FALSE)
           IN /\ \A w \in SendShapes(v) : KillCmd(P, FALSE, w) = want
              /\ NoSig(v) => KillCmd(P, TRUE, <<"-s", v, "@V1">>) = want /\ KillCmd(P, TRUE, <<"-" \o v, "@V1">>) = want
              /\ ~NoSig(v) => \A w \in SendShapes(v) : KillCmd(P, TRUE, w).k = "err"
              /\ KillCmd(P, TRUE, <<"-n", v, "@V1">>).k = "err" /\ KillCmd(P, TRUE, <<"-s" \o v, "@V1">>).k = "err"
    [] id = "numbers-agree" ->
         \A n \in 0..(P.maxn + 1) :
           LET t == ToString(n)
               want == IF n \in AllNums \cup {0} THEN KOut("send", n, {"V1"}, TRUE, FALSE, <<>>, FALSE)
                       ELSE IF n \in Kacc(P) THEN KOpen ELSE KErr
           IN /\ \A w \in SendShapes(t) : KillCmd(P, FALSE, w) = want
              /\ KillCmd(P, TRUE, <<"-" \o t, "@V1">>) = want
              /\ KillCmd(P, TRUE, <<"-s", t, "@V1">>) = (IF n = 0 THEN want ELSE KErr)
    [] id = "trap-conditions" ->
         /\ ParseTrapCond(P, "EXIT") = ExitR /\ ParseTrapCond(P, "0") = ExitR
         /\ \A n \in AllNums : ParseTrapCond(P, ToString(n)) = Sig(n)
         /\ \A n \in 1..(P.maxn + 2) : n \notin AllNums => ParseTrapCond(P, ToString(n)) = ErrR
         /\ \A nm \in AllSpellings : ParseTrapCond(P, nm).k = "sig"
              /\ \A v \in AllVariants(nm) \ {nm} : (v # Up(v) \/ ~NoSig(v)) => ParseTrapCond(P, v) = ErrR
         /\ \A v \in {"exit", "Exit", "SIGEXIT", "sigexit", "", "-1"} : ParseTrapCond(P, v) = ErrR
    [] id = "list-all" ->
         /\ ListAllOK(P, ListAll(P, FALSE), FALSE) /\ ListAllOK(P, ListAll(P, TRUE), TRUE)
         /\ Len(ListAll(P, FALSE)) = Len(P.names) + Cardinality(RtNumbers(P))
         /\ \A nm \in CatNames : \E i \in 1..Len(ListAll(P, FALSE)) : ListAll(P, FALSE)[i] = <<nm>>
         \* anti-vacuity of ListAllOK: dropping, doubling or swapping a line is noticed
         /\ ~ListAllOK(P, Tail(ListAll(P, FALSE)), FALSE)
         /\ ~ListAllOK(P, <<ListAll(P, FALSE)[1]>> \o ListAll(P, FALSE), FALSE)
         /\ ~ListAllOK(P, <<ListAll(P, FALSE)[3], ListAll(P, FALSE)[2], ListAll(P, FALSE)[1]>> \o SubSeq(ListAll(P, FALSE), 4, Len(ListAll(P, FALSE))), FALSE)
    [] OTHER -> FALSE

LawIds == {"catalogue-well-formed", "posix-required-names", "posix-fixed-numbers", "posix-fixed-names", "rt-names-mirror",
           "list-operand-forms", "name-of-number-round-trip",
           "number-of-name-canonical", "kill-l-round-trip", "status-to-signal", "no-ambiguity-with-options",
           "contexts-agree", "numbers-agree", "trap-conditions", "list-all"}
FamLaw == {[fam |-> "law", po |-> Law(id), w |-> <<id>>, op |-> "", t |-> "", n |-> 0] : id \in LawIds}

Fam(f) ==
  CASE f = "law" -> FamLaw [] f = "spec" -> FamSpec [] f = "targets" -> FamTargets [] f = "list" -> FamList
    [] f = "self" -> FamSelf [] f = "die" -> FamDie [] f = "trap" -> FamTrap [] f = "api" -> FamApi

Families == IF Level = "laws" THEN {"law"} ELSE {"law", "spec", "targets", "list", "self", "die", "trap", "api"}

Init == \E f \in Families : c \in Fam(f)
Next == UNCHANGED c
Spec == Init /\ [][Next]_vars

\* the negative configurations: some law must fail for the wrong variant
LawsHold == c.fam = "law" => c.po

Emit == PrintT(ToJson([fam |-> c.fam, po |-> c.po, w |-> c.w, op |-> c.op, t |-> c.t, n |-> c.n,
                       xk |-> IF c.fam = "law" THEN "law" ELSE ExpectKind(P, c)]))
=============================================================================
