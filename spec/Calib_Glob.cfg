INIT Init
NEXT Next
