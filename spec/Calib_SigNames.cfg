SPECIFICATION Spec
CONSTANTS
  Variant = "none"
