SPECIFICATION Spec
