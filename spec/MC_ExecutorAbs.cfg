SPECIFICATION ASpec
CONSTANTS
  MaxTasks = 3
  NChan = 1
  Budget = 2
  MaxOver = 2
  YieldFree = FALSE
VIEW aview
INVARIANT AbsInv
PROPERTY RelayForward
PROPERTY StatusForward
