------------------------------ MODULE Subshell ------------------------------
(***************************************************************************)
(* C08 -- nothing done in a subshell environment leaks into the parent.    *)
(*                                                                         *)
(* POSIX XCU 2.13 (shell execution environment): a subshell environment is *)
(* "created as a duplicate of the shell environment, except that: traps    *)
(* that are not being ignored shall be set to the default action"; changes *)
(* made to the subshell environment shall not affect the shell             *)
(* environment.  Command substitution, commands grouped with parentheses,  *)
(* asynchronous AND-OR lists and each command of a multi-command pipeline  *)
(* are executed in a subshell environment.  2.9.3.1: without job control   *)
(* the standard input of an asynchronous list is /dev/null (or equivalent) *)
(* and 2.12: its commands inherit SIGINT/SIGQUIT as ignored.  fork():      *)
(* the child has copies of the parent's descriptors referring to the SAME  *)
(* open file descriptions, and inherits working directory and umask.       *)
(*                                                                         *)
(* The state of one shell process is a flat map  key -> string  over the   *)
(* modelled keys MK ("-" = absent / default):                              *)
(*   val:N  "-" no such variable | "U" declared without value | "S<text>"  *)
(*   exp:N / ro:N   "1" exported / read-only                               *)
(*   func:N body text    alias:N replacement    opt:N "on"                 *)
(*   pos:# number of positional parameters, pos:1 pos:2 their values       *)
(*   trap:C "ignore" | "cmd:<text>"     disp:S "ignore" | "catch"          *)
(*   pend:S "1" the signal was caught, its trap action has not run yet     *)
(*   kpend:S "1" the signal is in the kernel's pending set of the process   *)
(*          (sent while blocked, not yet noticed by the shell)              *)
(*   xctx:cond "1" the process executes inside a context in which errexit   *)
(*          is ignored (condition of if/while/until, `!`, non-last and-or)  *)
(*   cwd, umask                                                            *)
(*   fd:N  identity of the open file description, fdx:N "1" close-on-exec  *)
(* E (shell execution environment) and K[p] (per-process kernel state) of  *)
(* DESIGN.md are the two halves of this map (EKeys / KKeys).               *)
(*                                                                         *)
(* The mutator alphabet IS shell text: the harness pastes the strings into *)
(* scripts and knows nothing about their meaning, which is given by Sem.   *)
(***************************************************************************)
EXTENDS Naturals, Sequences, FiniteSets, TLC, Json

CONSTANTS Alphabet,   \* set of mutator command texts used by the generator
          PreAlphabet,\* ... for the parent's prelude (before the fork)
          Kinds,      \* subset of {"Paren","CmdSubst","Pipe","Async"}
          Ctxs,       \* subset of {"main","trap"}: where the construct is executed
          Modes,      \* subset of {"script","interactive"}: the parent shell
          Fins,       \* subset of AllFins: how the subshells of the scenario end
          MaxPre, MaxChild, MaxPost, MaxTotal,
          MinPre,     \* the fork may happen only after at least this many prelude mutators
          MinTotal,   \* a scenario may end early only with at least this many mutators
                      \* (0 for exhaustive enumeration; > 0 to make random walks long)
          Leaky,      \* TRUE: adds a wrong action sharing state by reference (negative test)
          ForkBug     \* "none"; negative tests: "pending" (fork copies the pending signals),
                      \* "nostack" (the child forgets the execution context it was created in)

-----------------------------------------------------------------------------
(* keys *)
Vars   == {"a", "b"}
Conds  == {"INT", "QUIT", "TERM", "USR1", "USR2", "CHLD", "EXIT"}
Sigs   == {"INT", "QUIT", "TERM", "USR1", "USR2"}   \* conditions whose kernel disposition is observed
FdNums == {"0", "1", "2", "3", "4"}
FdKeys == {"fd:" \o n : n \in FdNums}

EKeys == {"val:a", "exp:a", "ro:a", "val:b", "exp:b", "ro:b", "val:PWD", "val:OLDPWD",
          "func:f", "alias:al", "opt:glob", "opt:clobber", "pos:#", "pos:1", "pos:2",
          "opt:allexport", "opt:errexit", "opt:monitor", "opt:notify", "opt:pipefail", "opt:unset",
          "opt:verbose", "opt:xtrace", "opt:hashondefinition", "opt:ignoreeof",
          "opt:interactive", "opt:cmdline", "opt:stdin", "trap:TSTP", "trap:TTIN", "trap:TTOU",
          "trap:INT", "trap:QUIT", "trap:TERM", "trap:USR1", "trap:USR2", "trap:CHLD", "trap:EXIT",
          "pend:USR1", "xctx:cond"}
KKeys == {"cwd", "umask", "disp:INT", "disp:QUIT", "disp:TERM", "disp:USR1", "disp:USR2", "kpend:USR1",
          "fd:0", "fd:1", "fd:2", "fd:3", "fd:4", "fdx:3", "fdx:4"}
MK    == EKeys \cup KKeys

(* The state of the simulated shell process at the first probe, when run as *)
(* `yash -c <script> yash p q` (checked against the observed "init"          *)
(* snapshot by Trace_Subshell: a difference is tool drift, not a verdict).  *)
InitMap ==
  [k \in MK |->
     CASE k = "cwd"         -> ""
       [] k = "umask"       -> "644"
       [] k = "val:PWD"     -> "S"
       [] k = "opt:glob"    -> "on"
       [] k = "opt:clobber" -> "on"
       [] k = "opt:unset"   -> "on"
       [] k = "opt:cmdline" -> "on"
       [] k = "pos:#"       -> "2"
       [] k = "pos:1"       -> "p"
       [] k = "pos:2"       -> "q"
       [] k = "fd:0"        -> "o0"
       [] k = "fd:1"        -> "o1"
       [] k = "fd:2"        -> "o2"
       [] OTHER             -> "-"]

(* ... and when run as `yash -i -s p q` with the script on standard input:  *)
(* job control is on by default, and the interactive shell itself catches   *)
(* SIGINT and ignores SIGTERM and SIGQUIT (XCU 2.12 / sh: "an interactive   *)
(* shell shall ignore SIGTERM ... SIGQUIT"), which is not a trap.           *)
InitMapFor(mode) ==
  IF mode = "interactive"
  THEN [k \in MK |->
          CASE k = "opt:interactive" -> "on"
            [] k = "opt:monitor"     -> "on"
            [] k = "opt:stdin"       -> "on"
            [] k = "opt:cmdline"     -> "-"
            [] k = "disp:INT"        -> "catch"
            [] k = "disp:TERM"       -> "ignore"
            [] k = "disp:QUIT"       -> "ignore"
            [] OTHER                 -> InitMap[k]]
  ELSE InitMap

-----------------------------------------------------------------------------
(* symbolic names of open file descriptions created during a scenario *)
Who == {"pre", "post", "c1", "c2", "c3", "c4"}
Fresh(who, i) == "n:" \o who \o ":" \o ToString(i)
PlumbNames == {"n:pipeW", "n:pipe1W", "n:pipe1R", "n:pipeInR", "n:pipeOutW", "n:devnull"}
SymSet == {Fresh(w, i) : w \in Who, i \in 1..16} \cup PlumbNames

-----------------------------------------------------------------------------
(* the mutators of the property's list: shell text |-> meaning *)
Sem(c) ==
  CASE c = "a=1"                 -> [op |-> "assign",  n |-> "a", v |-> "1"]
    [] c = "a=2"                 -> [op |-> "assign",  n |-> "a", v |-> "2"]
    [] c = "unset a"             -> [op |-> "unset",   n |-> "a"]
    [] c = "unset b"             -> [op |-> "unset",   n |-> "b"]
    [] c = "export a"            -> [op |-> "export",  n |-> "a"]
    [] c = "export b=3"          -> [op |-> "exportv", n |-> "b", v |-> "3"]
    [] c = "readonly b"          -> [op |-> "readonly", n |-> "b"]
    [] c = "f() { probe f1; }"   -> [op |-> "fdef",    n |-> "f", body |-> "{ probe f1; }"]
    [] c = "f() { probe f2; }"   -> [op |-> "fdef",    n |-> "f", body |-> "{ probe f2; }"]
    [] c = "unset -f f"          -> [op |-> "funset",  n |-> "f"]
    [] c = "alias al=one"        -> [op |-> "alias",   n |-> "al", v |-> "one"]
    [] c = "alias al=two"        -> [op |-> "alias",   n |-> "al", v |-> "two"]
    [] c = "unalias al"          -> [op |-> "unalias", n |-> "al"]
    [] c = "unalias -a"          -> [op |-> "unaliasall"]
    [] c = "set -o noglob"       -> [op |-> "opt",     n |-> "glob",    v |-> "-"]
    [] c = "set +o noglob"       -> [op |-> "opt",     n |-> "glob",    v |-> "on"]
    [] c = "set -C"              -> [op |-> "opt",     n |-> "clobber", v |-> "-"]
    [] c = "set +C"              -> [op |-> "opt",     n |-> "clobber", v |-> "on"]
    [] c = "set -a"              -> [op |-> "opt",     n |-> "allexport", v |-> "on"]
    [] c = "set +a"              -> [op |-> "opt",     n |-> "allexport", v |-> "-"]
    [] c = "set -e"              -> [op |-> "opt",     n |-> "errexit",   v |-> "on"]
    [] c = "set +e"              -> [op |-> "opt",     n |-> "errexit",   v |-> "-"]
    [] c = "set -m"              -> [op |-> "opt",     n |-> "monitor",   v |-> "on"]
    [] c = "set +m"              -> [op |-> "opt",     n |-> "monitor",   v |-> "-"]
    [] c = "set -b"              -> [op |-> "opt",     n |-> "notify",    v |-> "on"]
    [] c = "set +b"              -> [op |-> "opt",     n |-> "notify",    v |-> "-"]
    [] c = "set -o pipefail"     -> [op |-> "opt",     n |-> "pipefail",  v |-> "on"]
    [] c = "set +o pipefail"     -> [op |-> "opt",     n |-> "pipefail",  v |-> "-"]
    [] c = "set -u"              -> [op |-> "opt",     n |-> "unset",     v |-> "-"]
    [] c = "set +u"              -> [op |-> "opt",     n |-> "unset",     v |-> "on"]
    [] c = "set -v"              -> [op |-> "opt",     n |-> "verbose",   v |-> "on"]
    [] c = "set +v"              -> [op |-> "opt",     n |-> "verbose",   v |-> "-"]
    [] c = "set -x"              -> [op |-> "opt",     n |-> "xtrace",    v |-> "on"]
    [] c = "set +x"              -> [op |-> "opt",     n |-> "xtrace",    v |-> "-"]
    [] c = "set -h"              -> [op |-> "opt",     n |-> "hashondefinition", v |-> "on"]
    [] c = "set +h"              -> [op |-> "opt",     n |-> "hashondefinition", v |-> "-"]
    [] c = "set -o ignoreeof"    -> [op |-> "opt",     n |-> "ignoreeof", v |-> "on"]
    [] c = "set +o ignoreeof"    -> [op |-> "opt",     n |-> "ignoreeof", v |-> "-"]
    \* the fifth kind of subshell: a simple command made of redirections only
    \* (XCU 2.9.1: "... any redirections shall be performed in a subshell
    \* environment"); what its subshell does is the side effect of expanding
    \* the operand: an assignment.  `inner` is that step.
    [] c = ">>/tmp/r$((a=1))"    -> [op |-> "redironly", n |-> "a", file |-> "/tmp/r1",
                                     inner |-> [op |-> "assign", n |-> "a", v |-> "1"]]
    [] c = ">>/tmp/r${b=3}"      -> [op |-> "redironly", n |-> "b", file |-> "/tmp/r3",
                                     inner |-> [op |-> "assigndef", n |-> "b", v |-> "3"]]
    [] c = "shift"               -> [op |-> "shift"]
    [] c = "set --"              -> [op |-> "setpos",  ps |-> <<>>]
    [] c = "set -- r"            -> [op |-> "setpos",  ps |-> <<"r">>]
    [] c = "set -- s t"          -> [op |-> "setpos",  ps |-> <<"s", "t">>]
    [] c = "cd /tmp"             -> [op |-> "cd",      d |-> "/tmp"]
    [] c = "cd /home"            -> [op |-> "cd",      d |-> "/home"]
    [] c = "umask 027"           -> [op |-> "umask",   m |-> "027"]
    [] c = "umask 077"           -> [op |-> "umask",   m |-> "077"]
    [] c = "trap 'probe t' INT"  -> [op |-> "trap",    c |-> "INT",  a |-> "cmd:probe t"]
    [] c = "trap '' INT"         -> [op |-> "trap",    c |-> "INT",  a |-> "ignore"]
    [] c = "trap - INT"          -> [op |-> "trap",    c |-> "INT",  a |-> "-"]
    [] c = "trap 'probe u' TERM" -> [op |-> "trap",    c |-> "TERM", a |-> "cmd:probe u"]
    [] c = "trap '' TERM"        -> [op |-> "trap",    c |-> "TERM", a |-> "ignore"]
    [] c = "trap - TERM"         -> [op |-> "trap",    c |-> "TERM", a |-> "-"]
    [] c = "trap 'probe e' EXIT" -> [op |-> "trap",    c |-> "EXIT", a |-> "cmd:probe e"]
    [] c = "trap - EXIT"         -> [op |-> "trap",    c |-> "EXIT", a |-> "-"]
    [] c = "trap 'probe c' CHLD" -> [op |-> "trap",    c |-> "CHLD", a |-> "cmd:probe c"]
    [] c = "trap - CHLD"         -> [op |-> "trap",    c |-> "CHLD", a |-> "-"]
    [] c = "status 0 & until wait; do :; done"     -> [op |-> "gchild"]   \* a child of this process exits: SIGCHLD
    \* a command that fails: whether the process goes on depends on errexit and on
    \* the execution context (XCU 2.8.1 / set -e: ignored in the compound list after
    \* if/while/until, in a pipeline beginning with !, in a non-last and-or command)
    [] c = "status 1"            -> [op |-> "fail"]
    [] c = "exec 3>>/tmp/f3"     -> [op |-> "open",    fd |-> "3"]
    [] c = "exec 4</tmp/in"      -> [op |-> "open",    fd |-> "4"]
    [] c = "exec 3>&-"           -> [op |-> "close",   fd |-> "3"]
    [] c = "exec 4>&3"           -> [op |-> "dup",     fd |-> "4", src |-> "3"]
    [] c = "exec 4>&-"           -> [op |-> "close",   fd |-> "4"]
    \* standard input closed: the descriptors a later pipe() / open() returns start at 0, so the
    \* shell's own plumbing (pipes of command substitutions and pipelines, saved copies) meets
    \* descriptor numbers it usually never sees; whatever it does, the parent's table afterwards
    \* is the parent's table before (descriptor 0 stays closed)
    [] c = "exec 0<&-"           -> [op |-> "close",   fd |-> "0"]

AllCmds ==
  {"a=1", "a=2", "unset a", "unset b", "export a", "export b=3", "readonly b",
   "f() { probe f1; }", "f() { probe f2; }", "unset -f f",
   "alias al=one", "alias al=two", "unalias al", "unalias -a",
   "set -o noglob", "set +o noglob", "set -C", "set +C",
   "shift", "set --", "set -- r", "set -- s t",
   "cd /tmp", "cd /home", "umask 027", "umask 077",
   "trap 'probe t' INT", "trap '' INT", "trap - INT",
   "trap 'probe u' TERM", "trap '' TERM", "trap - TERM",
   "trap 'probe e' EXIT", "trap - EXIT", "trap 'probe c' CHLD", "trap - CHLD", "status 0 & until wait; do :; done",
   "status 1",
   "set -a", "set +a", "set -e", "set +e", "set -m", "set +m", "set -b", "set +b",
   "set -o pipefail", "set +o pipefail", "set -u", "set +u", "set -v", "set +v", "set -x", "set +x",
   "set -h", "set +h", "set -o ignoreeof", "set +o ignoreeof",
   ">>/tmp/r$((a=1))", ">>/tmp/r${b=3}",
   "exec 3>>/tmp/f3", "exec 4</tmp/in", "exec 3>&-", "exec 4>&3", "exec 4>&-", "exec 0<&-"}

(* one representative per mutator class of the property's list *)
CoreCmds ==
  {"a=1", "unset a", "export a", "readonly b", "f() { probe f1; }", "unset -f f",
   "alias al=one", "unalias -a", "set -o noglob", "shift", "set -- r",
   "cd /tmp", "umask 027", "trap 'probe t' INT", "trap '' TERM", "trap 'probe e' EXIT",
   "trap 'probe c' CHLD", "status 0 & until wait; do :; done", ">>/tmp/r$((a=1))", ">>/tmp/r${b=3}",
   "exec 3>>/tmp/f3", "exec 3>&-", "exec 4>&3", "exec 0<&-"}

(* every option `set -o` lists that a script can switch on without a terminal *)
OptOnCmds ==
  {"set -a", "set -e", "set -m", "set -b", "set -o pipefail", "set -u", "set -v", "set -x", "set -h",
   "set -o ignoreeof", "set -C", "set -o noglob"}
CorePreCmds == CoreCmds \cup OptOnCmds
(* the alphabet of the catalogues about what the fork does with the parent's *)
(* pending signals and execution context                                    *)
CtxCmds    == {"a=1", "status 1", "set -e", "set +e", "status 0 & until wait; do :; done"}
CtxPreCmds == {"set -e", "set -m", "trap 'probe c' CHLD"}
CtxCmds1    == {"a=1", "status 1", "set -e"}
CtxPreCmds1 == {"set -e", "set -m"}

AllKinds == {"Paren", "CmdSubst", "Pipe", "Async"}
(* two command substitutions in one word: the second fork happens after the *)
(* parent has waited for the first subshell, within the same command        *)
CtxKinds == AllKinds \cup {"CmdSubst2", "NotPipe"}
(* pipelines of 3 and 4 commands and negated ones (each command a subshell) *)
WideKinds == {"Pipe3", "Pipe4", "NotPipe", "NotPipe3"}
EndKinds  == AllKinds \cup {"Pipe3"}
EveryKind == AllKinds \cup WideKinds
SimKinds  == EveryKind \cup {"CmdSubst2"}
ScriptMode == {"script"}
BothModes  == {"script", "interactive"}
(* how a subshell ends (after its last snapshot): falling off the end,      *)
(* exit, a signal it sends to itself (`selfkill` is a probe: $$ is the main *)
(* shell's pid everywhere), errexit, an error of a special built-in         *)
NormalFin == {"normal"}
EndCmds == {"a=1", "cd /tmp", "exec 3>>/tmp/f3", "trap 'probe e' EXIT"}
AllFins == {"normal", "exit 3", "selfkill INT", "selfkill TERM", "selfkill KILL", "set -e; status 1", "shift 5"}
MainCtx  == {"main"}
TrapCtx  == {"trap"}
BothCtxs == {"main", "trap"}
(* the construct is (part of) the condition of if / while / until, of a     *)
(* pipeline beginning with `!`, the left-hand side of `&&`                  *)
CondCtxs == {"if", "while", "until", "not", "and"}
(* a sibling (asynchronous list started before) sends SIGUSR1, for which    *)
(* the parent has a command trap, to the parent at any moment               *)
SigCtx   == {"sig"}
NewCtxs  == CondCtxs \cup SigCtx
EveryCtx == BothCtxs \cup NewCtxs

Roles(kind) ==
  CASE kind = "Paren"    -> <<"paren">>
    [] kind = "CmdSubst" -> <<"cmdsubst">>
    [] kind = "CmdSubst2" -> <<"cmdsubst", "cmdsubst">>
    [] kind \in {"Pipe", "NotPipe"}   -> <<"pipe_first", "pipe_last">>
    [] kind \in {"Pipe3", "NotPipe3"} -> <<"pipe_first", "pipe_mid", "pipe_last">>
    [] kind = "Pipe4"    -> <<"pipe_first", "pipe_mid", "pipe_mid", "pipe_last">>
    [] kind = "Async"    -> <<"async">>

-----------------------------------------------------------------------------
(* Is the mutator well defined in state S of a process of the given role?  *)
(* Excluded (the generator skips them): errors of special built-ins and    *)
(* assignments to read-only variables -- a non-interactive shell exits --, *)
(* `readonly NAME` while allexport is on (outside the modelled fragment),  *)
(* and `trap` on SIGINT/SIGQUIT inside an asynchronous list, where POSIX   *)
(* ("signals that were ignored on entry ... cannot be trapped or reset")   *)
(* leaves the outcome open.                                                *)
En(c, S, role) ==
  LET s == Sem(c) IN
  CASE s.op \in {"assign", "exportv", "unset", "redironly"} -> S["ro:" \o s.n] # "1"
    \* whether `readonly NAME` (no assignment) exports NAME under allexport is not C08's business
    [] s.op = "readonly" -> S["opt:allexport"] # "on"
    [] s.op = "unalias" -> S["alias:" \o s.n] # "-"
    [] s.op = "shift"   -> S["pos:#"] # "0"
    [] s.op = "dup"     -> S["fd:" \o s.src] # "-"
    \* (an interactive shell reads its commands from standard input: closing it ends the session)
    \* (and only the parent does it: a pipeline member that closes its own standard input would
    \*  only lose the data the scenario pushes through the pipe)
    [] s.op = "close"   -> s.fd # "0" \/ (role = "parent" /\ S["opt:interactive"] # "on")     \* descriptor 3 is only ever opened for output
    [] s.op = "trap"    -> /\ ~(role = "async" /\ s.c \in {"INT", "QUIT"})
                           \* the interactive shell's own handling of these is not modelled
                           /\ ~(role = "parent" /\ S["opt:interactive"] = "on" /\ s.c \in {"INT", "QUIT", "TERM"})
    [] s.op = "opt"     -> ~(role = "parent" /\ S["opt:interactive"] = "on" /\ s.n = "monitor")
    \* with errexit on and not ignored the process exits here: not a step of a scenario
    [] s.op = "fail"    -> ~(S["opt:errexit"] = "on" /\ S["xctx:cond"] # "1")
    [] OTHER            -> TRUE

Upd(S, u) == [k \in DOMAIN S |-> IF k \in DOMAIN u THEN u[k] ELSE S[k]]

Dec(s)    == CASE s = "2" -> "1" [] s = "1" -> "0" [] OTHER -> "0"
NumStr(n) == CASE n = 0 -> "0" [] n = 1 -> "1" [] OTHER -> "2"
DispOf(a) == CASE a = "-" -> "-" [] a = "ignore" -> "ignore" [] OTHER -> "catch"

(* Effect of mutator c on the map S; `fresh` names the open file            *)
(* description the command creates, if it creates one.                      *)
Ap(c, S, fresh) ==
  LET s == Sem(c) IN
  CASE s.op = "assign"   -> Upd(S, ("val:" \o s.n) :> ("S" \o s.v) @@
                                   ("exp:" \o s.n) :> (IF S["opt:allexport"] = "on" THEN "1" ELSE S["exp:" \o s.n]))
    [] s.op = "redironly" -> S      \* done in a subshell of its own: nothing reaches this environment
    [] s.op = "unset"    -> Upd(S, ("val:" \o s.n) :> "-" @@ ("exp:" \o s.n) :> "-" @@ ("ro:" \o s.n) :> "-")
    [] s.op = "export"   -> Upd(S, ("exp:" \o s.n) :> "1" @@
                                   ("val:" \o s.n) :> (IF S["val:" \o s.n] = "-" THEN "U" ELSE S["val:" \o s.n]))
    [] s.op = "exportv"  -> Upd(S, ("exp:" \o s.n) :> "1" @@ ("val:" \o s.n) :> ("S" \o s.v))
    [] s.op = "readonly" -> Upd(S, ("ro:" \o s.n) :> "1" @@
                                   ("val:" \o s.n) :> (IF S["val:" \o s.n] = "-" THEN "U" ELSE S["val:" \o s.n]))
    [] s.op = "fdef"     -> Upd(S, ("func:" \o s.n) :> s.body)
    [] s.op = "funset"   -> Upd(S, ("func:" \o s.n) :> "-")
    [] s.op = "alias"    -> Upd(S, ("alias:" \o s.n) :> s.v)
    [] s.op = "unalias"  -> Upd(S, ("alias:" \o s.n) :> "-")
    [] s.op = "unaliasall" -> Upd(S, "alias:al" :> "-")
    [] s.op = "opt"      -> Upd(S, ("opt:" \o s.n) :> s.v)
    [] s.op = "shift"    -> Upd(S, "pos:#" :> Dec(S["pos:#"]) @@ "pos:1" :> S["pos:2"] @@ "pos:2" :> "-")
    [] s.op = "setpos"   -> Upd(S, "pos:#" :> NumStr(Len(s.ps)) @@
                                   "pos:1" :> (IF Len(s.ps) >= 1 THEN s.ps[1] ELSE "-") @@
                                   "pos:2" :> (IF Len(s.ps) >= 2 THEN s.ps[2] ELSE "-"))
    [] s.op = "cd"       -> Upd(S, "cwd" :> s.d @@ "val:OLDPWD" :> S["val:PWD"] @@ "val:PWD" :> ("S" \o s.d))
    [] s.op = "umask"    -> Upd(S, "umask" :> s.m)
    [] s.op = "gchild"   -> S
    [] s.op = "fail"     -> S
    [] s.op = "trap"     -> IF s.c \in {"EXIT", "CHLD"} THEN Upd(S, ("trap:" \o s.c) :> s.a)
                            ELSE Upd(S, ("trap:" \o s.c) :> s.a @@ ("disp:" \o s.c) :> DispOf(s.a))
    [] s.op = "open"     -> Upd(S, ("fd:" \o s.fd) :> fresh @@ ("fdx:" \o s.fd) :> "-")
    [] s.op = "close"    -> Upd(S, ("fd:" \o s.fd) :> "-" @@ ("fdx:" \o s.fd) :> "-")
    [] s.op = "dup"      -> Upd(S, ("fd:" \o s.fd) :> S["fd:" \o s.src] @@ ("fdx:" \o s.fd) :> "-")

(* the keys a redirection-only command would change if its expansions were *)
(* (wrongly) performed in the environment that executes it                  *)
NestedFootprint(c) == IF Sem(c).op = "redironly" THEN {"val:" \o Sem(c).n, "exp:" \o Sem(c).n} ELSE {}
NestedFiles(seq) == {Sem(seq[i]).file : i \in {x \in 1..Len(seq) : Sem(seq[x]).op = "redironly"}}

(* keys outside MK that a mutator may legitimately touch as well *)
ExtraFootprint(c) == IF Sem(c).op = "cd" THEN {"exp:PWD", "exp:OLDPWD"} ELSE {}

RECURSIVE ApplyFrom(_, _, _, _)
ApplyFrom(S, seq, who, i) ==
  IF i > Len(seq) THEN S ELSE ApplyFrom(Ap(seq[i], S, Fresh(who, i)), seq, who, i + 1)
ApplySeq(S, seq, who) == ApplyFrom(S, seq, who, 1)

-----------------------------------------------------------------------------
(* The subshell's view on entry: a COPY of the parent's map, except         *)
(*  - traps with command actions are default, ignored ones stay ignored    *)
(*    (the kernel disposition follows: caught -> default);                  *)
(*  - an asynchronous list (no job control) ignores SIGINT and SIGQUIT;     *)
(*  - the descriptors the construct itself plumbs (pipe ends, /dev/null)    *)
(*    refer to open file descriptions the parent does not hold; all other  *)
(*    descriptors share the parent's open file descriptions.                *)
(* 2.9.3.1 / 2.12: /dev/null as standard input and ignored SIGINT/SIGQUIT    *)
(* apply to an asynchronous list only "if job control is disabled"          *)
NoJobControl(S) == S["opt:monitor"] # "on"
TrapImg(S, role, c) ==
  IF role = "async" /\ NoJobControl(S) /\ c \in {"INT", "QUIT"} THEN "ignore"
  ELSE IF S["trap:" \o c] \in {"-", "ignore"} THEN S["trap:" \o c] ELSE "-"
DispImg(S, role, c) ==
  IF role = "async" /\ NoJobControl(S) /\ c \in {"INT", "QUIT"} THEN "ignore"
  ELSE DispOf(TrapImg(S, role, c))   \* what the shell itself catches or ignores is not inherited
(* yash-env subshell::Config (doc comment of `job_control`): "If the parent  *)
(* process is a job-controlling interactive shell, but the subshell is not  *)
(* job-controlled, the subshell's signal dispositions for SIGTSTP, SIGTTIN, *)
(* and SIGTTOU are set to Ignore" -- of the kinds here only the command     *)
(* substitution is started without job control from such a shell.           *)
StopImg(S, role, c) ==
  IF role = "cmdsubst" /\ S["opt:interactive"] = "on" /\ S["opt:monitor"] = "on" THEN "ignore"
  ELSE TrapImg(S, role, c)

Plumb(role) ==
  CASE role = "paren"      -> <<>>
    [] role = "cmdsubst"   -> ("fd:1" :> "n:pipeW")
    [] role = "pipe_first" -> ("fd:1" :> "n:pipe1W")
    [] role = "pipe_last"  -> ("fd:0" :> "n:pipe1R")
    [] role = "pipe_mid"   -> ("fd:0" :> "n:pipeInR" @@ "fd:1" :> "n:pipeOutW")
    [] role = "async"      -> ("fd:0" :> "n:devnull")

(* fork(): "the set of signals pending for the child process shall be      *)
(* initialized to the empty set" -- neither a signal still in the kernel's  *)
(* pending set of the parent (kpend) nor one the parent's handler has       *)
(* caught but whose trap action has not run yet (pend) reaches the child:   *)
(* both are the parent's business; the child neither runs the parent's     *)
(* trap action nor is it killed by them.  Everything else is a COPY, which  *)
(* includes the execution context (xctx:cond): XCU 2.13 "a duplicate of the *)
(* shell environment"; 2.8.1/set -e: errexit is ignored while executing    *)
(* the compound list after if/while/until etc., subshells included.         *)
EffPlumb(S, role) == IF role = "async" /\ ~NoJobControl(S) THEN <<>> ELSE Plumb(role)
ForkImage(S, role) ==
  Upd(S, "trap:INT"  :> TrapImg(S, role, "INT")  @@ "trap:QUIT" :> TrapImg(S, role, "QUIT") @@
         "trap:TERM" :> TrapImg(S, role, "TERM") @@ "trap:EXIT" :> TrapImg(S, role, "EXIT") @@
         "trap:USR1" :> TrapImg(S, role, "USR1") @@ "trap:USR2" :> TrapImg(S, role, "USR2") @@
         "trap:CHLD" :> TrapImg(S, role, "CHLD") @@
         "trap:TSTP" :> StopImg(S, role, "TSTP") @@ "trap:TTIN" :> StopImg(S, role, "TTIN") @@
         "trap:TTOU" :> StopImg(S, role, "TTOU") @@
         "disp:INT"  :> DispImg(S, role, "INT")  @@ "disp:QUIT" :> DispImg(S, role, "QUIT") @@
         "disp:TERM" :> DispImg(S, role, "TERM") @@
         "disp:USR1" :> DispImg(S, role, "USR1") @@ "disp:USR2" :> DispImg(S, role, "USR2") @@
         "pend:USR1" :> "-" @@ "kpend:USR1" :> "-" @@
         EffPlumb(S, role))

(* The elements of a pipeline beginning with `!` are created inside that    *)
(* pipeline: their context is errexit-exempt whatever the parent's was.     *)
NegCtx(S, k) == IF k \in {"NotPipe", "NotPipe3"} THEN Upd(S, "xctx:cond" :> "1") ELSE S
ForkImageK(S, k, role) == ForkImage(NegCtx(S, k), role)

(* What the Fork action of the scenario machine does: the law, unless a     *)
(* negative configuration plants a wrong fork.                              *)
DoFork(S, k, role) ==
  LET I == ForkImageK(S, k, role) IN
  CASE ForkBug = "pending" -> Upd(I, "kpend:USR1" :> S["kpend:USR1"])
    [] ForkBug = "nostack" -> Upd(I, "xctx:cond" :> "-")
    [] OTHER               -> I

(* Where the construct is executed.  "trap": from inside the action of a    *)
(* SIGUSR2 trap, after SIGUSR1 -- which has a command trap, too -- has been *)
(* caught: its action is pending (it runs when the USR2 action is over).    *)
(* The harness renders this as                                              *)
(*    trap 'probe s' USR1; trap '. /tmp/act' USR2; kill -s USR2 $$          *)
(* with /tmp/act = kill -s USR1 $$; <before> <construct> <after>.           *)
(* "if", "while", "until", "not", "and": the part from "before" to "after"  *)
(* is the condition of an if / while / until command, the body of `! { }`,  *)
(* the left-hand side of `{ } && :`.                                        *)
(* "sig":  trap 'probe s' USR1; { pause S; kill -s USR1 $$; } &  precede    *)
(* "before"; the construct is the only clause of a `case $(pause W) in` :   *)
(* the parent waits inside the command that forks, so the signal can reach  *)
(* it after its last look at the caught signals and before the fork.        *)
EnterCtx(S, x) ==
  CASE x = "trap" -> Upd(S, "trap:USR1" :> "cmd:probe s" @@ "disp:USR1" :> "catch" @@
                            "trap:USR2" :> "cmd:. /tmp/act" @@ "disp:USR2" :> "catch" @@ "pend:USR1" :> "1")
    [] x = "sig"  -> Upd(S, "trap:USR1" :> "cmd:probe s" @@ "disp:USR1" :> "catch")
    [] x \in CondCtxs -> Upd(S, "xctx:cond" :> "1")
    [] OTHER      -> S

(* Trap actions a process runs because of mutator c (executed in map S,     *)
(* S2 afterwards): a pending caught signal's action runs at the next        *)
(* command boundary; a terminating child raises SIGCHLD.                    *)
IsCmd(a) == a \notin {"-", "ignore"}
Triggered(c, S, S2) ==
  (IF S["pend:USR1"] = "1" /\ IsCmd(S["trap:USR1"]) THEN {S["trap:USR1"]} ELSE {})
  \cup (IF Sem(c).op = "gchild" /\ IsCmd(S2["trap:CHLD"]) THEN {S2["trap:CHLD"]} ELSE {})
(* the actions a process installed itself *)
OwnActs(seq) == {Sem(seq[i]).a : i \in {x \in 1..Len(seq) : Sem(seq[x]).op = "trap" /\ IsCmd(Sem(seq[x]).a)}}

-----------------------------------------------------------------------------
(* The scenario machine: parent prelude, fork of one construct, the         *)
(* subshell(s) and -- for the concurrent kinds -- the parent and the        *)
(* sibling running their mutators in every interleaving, join.              *)
VARIABLES phase, kind, ctx, mode, fin, pre, chs, post,   \* the scenario (what the harness renders)
          P,                             \* the parent's map
          P0,                            \* ... at the fork ("before")
          C, C0,                         \* the children's maps, now and on entry
          ran,                           \* trap actions each child has run
          sigst,                         \* the sibling's signal: "-" none, "armed", "sent"
          pran                           \* how often the parent has run its SIGUSR1 trap action
vars == <<phase, kind, ctx, mode, fin, pre, chs, post, P, P0, C, C0, ran, sigst, pran>>

RECURSIVE SumLen(_, _)
SumLen(ss, i) == IF i > Len(ss) THEN 0 ELSE Len(ss[i]) + SumLen(ss, i + 1)
Total == Len(pre) + SumLen(chs, 1) + Len(post)

Init == /\ phase = "pre" /\ kind = "-" /\ ctx = "-" /\ pre = <<>> /\ chs = <<>> /\ post = <<>>
        /\ mode \in Modes /\ fin = "-"
        /\ P = InitMapFor(mode) /\ P0 = P /\ C = <<>> /\ C0 = <<>> /\ ran = <<>>
        /\ sigst = "-" /\ pran = 0

PreStep ==
  /\ phase = "pre" /\ Len(pre) < MaxPre /\ Total < MaxTotal
  /\ \E c \in PreAlphabet :
       /\ En(c, P, "parent")
       /\ P' = Ap(c, P, Fresh("pre", Len(pre) + 1))
       /\ pre' = Append(pre, c)
  /\ UNCHANGED <<phase, kind, ctx, mode, fin, chs, post, P0, C, C0, ran, sigst, pran>>

Fork ==
  /\ phase = "pre" /\ (Len(pre) >= MinPre \/ Len(pre) = MaxPre)
  /\ \E k \in Kinds, x \in Ctxs \ SigCtx :
       /\ kind' = k /\ ctx' = x
       /\ P' = EnterCtx(P, x)
       /\ C' = [j \in 1..Len(Roles(k)) |-> DoFork(P', k, Roles(k)[j])]
       /\ chs' = [j \in 1..Len(Roles(k)) |-> <<>>]
       /\ ran' = [j \in 1..Len(Roles(k)) |-> {}]
  /\ C0' = C' /\ P0' = P' /\ phase' = "run"
  /\ UNCHANGED <<pre, post, mode, fin, sigst, pran>>

(* The "sig" context: the sibling is started and "before" taken (Arm); the  *)
(* signal is sent (Signal: it joins the kernel's pending set, the shell     *)
(* keeps trapped signals blocked), noticed by the shell (Catch) and its     *)
(* trap action run (RunTrap) at any moment from then on -- before the fork  *)
(* (ForkSig), between the steps of the subshells, after them.               *)
Arm ==
  /\ phase = "pre" /\ (Len(pre) >= MinPre \/ Len(pre) = MaxPre)
  /\ "sig" \in Ctxs /\ mode = "script"
  /\ \E k \in Kinds : kind' = k
  /\ ctx' = "sig" /\ P' = EnterCtx(P, "sig") /\ P0' = P' /\ phase' = "win" /\ sigst' = "armed"
  /\ UNCHANGED <<pre, post, mode, fin, chs, C, C0, ran, pran>>

ForkSig ==
  /\ phase = "win" /\ phase' = "run"
  /\ C' = [j \in 1..Len(Roles(kind)) |-> DoFork(P, kind, Roles(kind)[j])]
  /\ chs' = [j \in 1..Len(Roles(kind)) |-> <<>>]
  /\ ran' = [j \in 1..Len(Roles(kind)) |-> {}]
  /\ C0' = C'
  /\ UNCHANGED <<kind, ctx, mode, fin, pre, post, P, P0, sigst, pran>>

Signal ==
  /\ phase \in {"win", "run"} /\ sigst = "armed" /\ sigst' = "sent"
  /\ P' = Upd(P, "kpend:USR1" :> "1")
  /\ UNCHANGED <<phase, kind, ctx, mode, fin, pre, chs, post, P0, C, C0, ran, pran>>

Catch ==
  /\ phase \in {"win", "run"} /\ ctx = "sig" /\ P["kpend:USR1"] = "1"
  /\ P' = Upd(P, "kpend:USR1" :> "-" @@ "pend:USR1" :> "1")
  /\ UNCHANGED <<phase, kind, ctx, mode, fin, pre, chs, post, P0, C, C0, ran, sigst, pran>>

RunTrap ==
  /\ phase \in {"win", "run"} /\ ctx = "sig" /\ P["pend:USR1"] = "1"
  /\ P' = Upd(P, "pend:USR1" :> "-") /\ pran' = pran + 1
  /\ UNCHANGED <<phase, kind, ctx, mode, fin, pre, chs, post, P0, C, C0, ran, sigst>>

ChildStepOf(j) ==
  /\ phase = "run" /\ Len(chs[j]) < MaxChild /\ Total < MaxTotal
  /\ \E c \in Alphabet :
       /\ En(c, C[j], Roles(kind)[j])
       /\ C' = [C EXCEPT ![j] = Ap(c, C[j], Fresh("c" \o ToString(j), Len(chs[j]) + 1))]
       /\ chs' = [chs EXCEPT ![j] = Append(@, c)]
       /\ ran' = [ran EXCEPT ![j] = @ \cup Triggered(c, C[j], C'[j])]
  /\ UNCHANGED <<phase, kind, ctx, mode, fin, pre, post, P, P0, C0, sigst, pran>>

(* the parent goes on while an asynchronous list runs *)
ParentStep ==
  /\ phase = "run" /\ kind = "Async" /\ Len(post) < MaxPost /\ Total < MaxTotal
  /\ \E c \in Alphabet :
       /\ En(c, P, "parent")
       /\ P' = Ap(c, P, Fresh("post", Len(post) + 1))
       /\ post' = Append(post, c)
  /\ UNCHANGED <<phase, kind, ctx, mode, fin, pre, chs, P0, C, C0, ran, sigst, pran>>

Saturated == /\ \A j \in 1..Len(chs) : Len(chs[j]) = MaxChild
             /\ kind = "Async" => Len(post) = MaxPost
Finish == /\ phase = "run" /\ phase' = "done"
          /\ fin' \in Fins      \* however the subshells end, nothing else changes
          \* (with errexit on, the PARENT rightly exits on a failing subshell: left out)
          \* (... unless the parent ignores errexit where it executes the construct)
          /\ (P["opt:errexit"] = "on" /\ P["xctx:cond"] # "1") =>
                /\ fin' = "normal"
                \* ( ...; status 1 ) returns 1 as well
                /\ \A j \in 1..Len(chs) : IF chs[j] = <<>> THEN TRUE ELSE Sem(chs[j][Len(chs[j])]).op # "fail"
          \* the script waits for the sibling, whose signal the parent has handled by then
          /\ ctx = "sig" => (sigst = "sent" /\ P["kpend:USR1"] = "-" /\ P["pend:USR1"] = "-")
          \* (an interrupt in an interactive shell abandons the command line being executed,
          \*  here the trap action that contains the construct and the "after" probe: left out)
          \*  likewise the compound command / and-or list / negated pipeline whose condition holds the
          \*  construct (the contexts of CondCtxs), together with what follows it on the command line)
          /\ (ctx \in {"trap"} \cup CondCtxs /\ mode = "interactive") => fin' # "selfkill INT"
          /\ Total >= MinTotal \/ Total = MaxTotal \/ Saturated
          /\ UNCHANGED <<kind, ctx, mode, pre, chs, post, P, P0, C, C0, ran, sigst, pran>>

(* NEGATIVE TEST ONLY: the child's variables are the parent's (a shared     *)
(* reference instead of a copy).                                            *)
LeakStepOf(j) ==
  /\ Leaky /\ phase = "run" /\ Len(chs[j]) < MaxChild /\ Total < MaxTotal
  /\ En("a=2", C[j], Roles(kind)[j])
  /\ C' = [C EXCEPT ![j] = Ap("a=2", C[j], "-")]
  /\ P' = Ap("a=2", P, "-")
  /\ chs' = [chs EXCEPT ![j] = Append(@, "a=2")]
  /\ UNCHANGED <<phase, kind, ctx, mode, fin, pre, post, P0, C0, ran, sigst, pran>>

ChildStep == \E j \in 1..Len(chs) : ChildStepOf(j)
LeakStep  == \E j \in 1..Len(chs) : LeakStepOf(j)

Next == PreStep \/ Fork \/ ParentStep \/ Finish \/ ChildStep \/ LeakStep
        \/ Arm \/ ForkSig \/ Signal \/ Catch \/ RunTrap

Spec == Init /\ [][Next]_vars

-----------------------------------------------------------------------------
(* the property *)

(* No step of a subshell changes the parent's E or K[parent], nor a sibling. *)
Isolation ==
  [][(phase = "run" /\ chs' # chs) =>
        /\ P' = P
        /\ \A j \in 1..Len(chs) : chs'[j] = chs[j] => C'[j] = C[j]]_vars

(* ... and the copy is a copy: later steps of the parent do not reach it. *)
(* nor does a signal that reaches the parent *)
CopyNotReference == [][(phase = "run" /\ P' # P) => C' = C]_vars

EntryIsForkImage ==
  phase \in {"run", "done"} =>
     \A j \in 1..Len(C0) : C0[j] = ForkImageK(P0, kind, Roles(kind)[j])

(* fork(): the child's set of pending signals is empty -- whatever signal   *)
(* was pending for, or caught but not yet handled by, the parent            *)
PendingCleared ==
  phase \in {"run", "done"} =>
     \A j \in 1..Len(C0) : C0[j]["kpend:USR1"] = "-" /\ C0[j]["pend:USR1"] = "-"

(* ... and the parent's signal is the parent's: its trap action runs once   *)
ParentTrapOnce == (phase = "done" /\ ctx = "sig") => pran = 1

(* the subshell knows the execution context it was created in *)
ContextDuplicated ==
  phase \in {"run", "done"} =>
     \A j \in 1..Len(C0) : C0[j]["xctx:cond"] = NegCtx(P0, kind)["xctx:cond"]

TrapRule ==
  phase \in {"run", "done"} =>
     \A j \in 1..Len(C0) : \A c \in Conds :
        /\ C0[j]["trap:" \o c] \in {"-", "ignore"}
        /\ P0["trap:" \o c] = "ignore" => C0[j]["trap:" \o c] = "ignore"
        /\ LET forced == Roles(kind)[j] = "async" /\ NoJobControl(P0) /\ c \in {"INT", "QUIT"}
           IN /\ forced => C0[j]["trap:" \o c] = "ignore"
              /\ (~forced /\ P0["trap:" \o c] # "ignore") => C0[j]["trap:" \o c] = "-"

(* BEHAVIOURALLY: the only trap actions a subshell ever runs are those it   *)
(* installed itself -- never the parent's, whatever signal reaches it      *)
(* (a pending one inherited across the fork, SIGCHLD of its own children). *)
NoForeignTrapAction ==
  \A j \in 1..Len(ran) : ran[j] \subseteq OwnActs(chs[j])

(* descriptors: same numbers open; non-plumbed ones share the description *)
SharedDescriptions ==
  phase \in {"run", "done"} =>
     \A j \in 1..Len(C0) : \A k \in FdKeys \cup {"fdx:3", "fdx:4", "cwd", "umask"} :
        IF k \in DOMAIN EffPlumb(P0, Roles(kind)[j])
        THEN C0[j][k] \in PlumbNames /\ \A k2 \in FdKeys : P0[k2] # C0[j][k]
        ELSE C0[j][k] = P0[k]

(* at the join the parent is what its OWN steps made of "before", and each *)
(* subshell what its own steps made of its entry view                      *)
Final ==
  phase = "done" =>
     /\ P = ApplySeq(P0, post, "post")
     /\ \A j \in 1..Len(C) : C[j] = ApplySeq(C0[j], chs[j], "c" \o ToString(j))

-----------------------------------------------------------------------------
(* scenario catalogue: one JSON line per finished scenario *)
Delta(A, B) == [k \in {x \in MK : A[x] # B[x]} |-> B[k]]

Scenario ==
  [kind |-> kind, ctx |-> ctx, mode |-> mode, fin |-> fin, pre |-> pre, ch |-> chs, post |-> post,
   exp  |-> [before |-> Delta(InitMapFor(mode), P0),
             entry  |-> [j \in 1..Len(C0) |-> Delta(P0, C0[j])],
             end    |-> [j \in 1..Len(C)  |-> Delta(C0[j], C[j])],
             after  |-> Delta(P0, P),
             runs   |-> ran]]

Emit == phase = "done" => PrintT(ToJson(Scenario))
=============================================================================
