SPECIFICATION Spec
CONSTANTS
  Fuel = 24
  TickLimit = 2
  K = 4
  Alphabet <- AlphaFlow
  ItemAlphabet <- ItemsFlow
  Mode = "c02"
INVARIANT Emit
CHECK_DEADLOCK FALSE
