----------------------------- MODULE CmdSearch -----------------------------
(***************************************************************************)
(* Command search and the `command` / `type` built-ins (growth module      *)
(* G04, part B).                                                           *)
(*                                                                         *)
(* Written from POSIX.1-2024 XCU 2.9.1.4 (command search and execution),   *)
(* 2.9.1.2 (variable assignments), 2.15 (special built-ins), the           *)
(* descriptions of `command` and `type`, XBD 8.3 (PATH), and the manual:   *)
(* docs/src/language/commands/simple.md ("Command search", "Exit status"), *)
(* docs/src/builtins/README.md (types of built-ins),                       *)
(* docs/src/builtins/{command,type}.md.                                    *)
(*                                                                         *)
(* Search order (simple.md):                                               *)
(*  1. a name containing a slash is the pathname of an external utility,   *)
(*     whether or not the file exists or is executable;                    *)
(*  2. special built-in;  3. function;                                     *)
(*  4. built-in other than substitutive (mandatory, elective, extension;   *)
(*     extension built-ins are ignored under `posixlycorrect`; elective    *)
(*     and extension built-ins are found but rejected under `portable`);   *)
(*  5. PATH search: "the first matching executable regular file"; an empty *)
(*     pathname in PATH is the working directory;                          *)
(*  6. found: a substitutive built-in of that name is the target, else the *)
(*     file;  7. else the search fails.                                    *)
(* Exit status: 127 if the search failed, 126 if the target was identified *)
(* but could not be executed.                                              *)
(*                                                                         *)
(* `command name`: as above without step 3, and a special built-in loses   *)
(* its special properties (2.15: an error does not abort the shell,        *)
(* assignments do not persist).  `command -p`: the search uses the         *)
(* standard path.  `command -v`: pathname for what is found by the PATH    *)
(* search (external utilities, substitutive built-ins) and for names with  *)
(* a slash; the name for functions, other built-ins, reserved words; the   *)
(* alias definition for aliases; nothing and a non-zero status otherwise.  *)
(* `command -V` / `type`: the same classification in words.                *)
(*                                                                         *)
(* A shell state (everything the search depends on):                       *)
(*   [fns, als : sets of names, bi : Seq([n, t]) built-in table,           *)
(*    path, std : Seq(directory) ($PATH split at colons; standard path),   *)
(*    files : Seq([p |-> absolute pathname, k |-> "exec" | "plain" | "dir"]),*)
(*    cwd : absolute pathname, posix, portable : BOOLEAN]                  *)
(* "exec": regular file with execute permission (a loadable program),      *)
(* "plain": regular file without execute permission, "dir": directory      *)
(* (searchable, i.e. with x permission bits).                              *)
(***************************************************************************)
EXTENDS Chars

Keywords == {"!", "{", "}", "case", "do", "done", "elif", "else", "esac", "fi", "for", "if", "in",
             "then", "until", "while"}

---------------------------------------------------------------------------
(* pathnames: lexical canonical form of an absolute pathname (no empty or  *)
(* `.` components; the model has no `..` and no symbolic links)            *)
RECURSIVE SplitSlash(_, _, _)
SplitSlash(cs, i, cur) ==       \* components of cs[i..]
  IF i > Len(cs) THEN <<cur>>
  ELSE IF cs[i] = "/" THEN <<cur>> \o SplitSlash(cs, i + 1, <<>>)
  ELSE SplitSlash(cs, i + 1, Append(cur, cs[i]))

RECURSIVE JoinSlash(_)
JoinSlash(comps) == IF comps = <<>> THEN "" ELSE "/" \o Str(Head(comps)) \o JoinSlash(Tail(comps))

Canon(p) ==
  LET comps == SelectSeq(SplitSlash(Chars(p), 1, <<>>), LAMBDA c : c # <<>> /\ c # <<".">>)
  IN IF comps = <<>> THEN "/" ELSE JoinSlash(comps)

HasSlash(name) == InSeq("/", Chars(name))
IsAbsolute(p) == Len(p) > 0 /\ SubSeq(p, 1, 1) = "/"
Abs(S, p) == Canon(IF IsAbsolute(p) THEN p ELSE S.cwd \o "/" \o p)

(* XBD 8.3: "applying the filename to each prefix"; a zero-length prefix    *)
(* is the current working directory                                        *)
Candidate(S, dir, name) == Abs(S, IF dir = "" THEN name ELSE dir \o "/" \o name)

FileKind(S, abspath) ==
  IF \E i \in DOMAIN S.files : S.files[i].p = abspath
  THEN S.files[CHOOSE i \in DOMAIN S.files : S.files[i].p = abspath].k
  ELSE "none"

(* the PATH search: first directory holding an executable regular file     *)
RECURSIVE SearchPath(_, _, _)
SearchPath(S, dirs, name) ==
  IF dirs = <<>> THEN ""
  ELSE IF FileKind(S, Candidate(S, Head(dirs), name)) = "exec" THEN Candidate(S, Head(dirs), name)
  ELSE SearchPath(S, Tail(dirs), name)

---------------------------------------------------------------------------
TypeInTable(S, name) ==
  IF \E i \in DOMAIN S.bi : S.bi[i].n = name
  THEN S.bi[CHOOSE i \in DOMAIN S.bi : S.bi[i].n = name].t
  ELSE "none"

(* README.md: extension built-ins "are treated as non-existing during      *)
(* command search" under posixlycorrect                                    *)
BuiltinType(S, name) ==
  LET t == TypeInTable(S, name) IN IF t = "extension" /\ S.posix THEN "none" ELSE t

(* README.md: under `portable`, "attempting to execute an elective         *)
(* [extension] built-in is rejected with an error, even though it is       *)
(* still found in command search"; simple.md: likewise "a special built-in *)
(* found under a name POSIX does not define as a special built-in name     *)
(* (for example, `source`)".                                               *)
PosixSpecialNames == {".", ":", "break", "continue", "eval", "exec", "exit", "export", "readonly", "return",
                      "set", "shift", "times", "trap", "unset"}
Rejected(S, name, t) ==
  S.portable /\ (t \in {"elective", "extension"} \/ (t = "special" /\ name \notin PosixSpecialNames))

(* The target of the search.  kind: "special", "function", "builtin"       *)
(* (path = "" or, for a substitutive built-in, the file found), "external" *)
(* (path), "rejected", "notfound".                                         *)
T(kind, path) == [kind |-> kind, path |-> path]

Resolve(S, name, useFns, dirs) ==
  IF HasSlash(name) THEN T("external", Abs(S, name))
  ELSE LET t == BuiltinType(S, name) IN
    IF t = "special" THEN (IF Rejected(S, name, t) THEN T("rejected", "") ELSE T("special", ""))
    ELSE IF useFns /\ name \in S.fns THEN T("function", "")
    ELSE IF t \in {"mandatory", "elective", "extension"}
         THEN (IF Rejected(S, name, t) THEN T("rejected", "") ELSE T("builtin", ""))
    ELSE LET p == SearchPath(S, dirs, name) IN
         IF p = "" THEN T("notfound", "")
         ELSE IF t = "substitutive" THEN T("builtin", p) ELSE T("external", p)

---------------------------------------------------------------------------
(* Executing `name args` (mode "plain"), `command name args` ("command"),  *)
(* `command -p name args` ("command-p").  Outcome:                         *)
(*   what: "builtin" (sp: with the properties of a special built-in),      *)
(*         "function", "exec" (path: the file executed),                   *)
(*         "fail" (st: 127 not found / 126 found but cannot be executed)   *)
(*   persist: does a variable assignment prefixed to the command persist:  *)
(*         "Y", "N", "U" (unspecified: functions, 2.9.1.2)                 *)
Out(what, path, st, sp, persist) == [what |-> what, path |-> path, st |-> st, sp |-> sp, persist |-> persist]

Invoke(S, name, mode) ==
  LET r == Resolve(S, name, mode = "plain", IF mode = "command-p" THEN S.std ELSE S.path) IN
  CASE r.kind = "special" -> Out("builtin", "", 0, mode = "plain", IF mode = "plain" THEN "Y" ELSE "N")
    [] r.kind = "builtin" -> Out("builtin", "", 0, FALSE, "N")
    [] r.kind = "function" -> Out("function", "", 0, FALSE, "U")
    [] r.kind = "rejected" -> Out("fail", "", 126, FALSE, "U")     \* nothing is said about the assignments
    [] r.kind = "notfound" -> Out("fail", "", 127, FALSE, "N")
    [] r.kind = "external" ->
         LET k == FileKind(S, r.path) IN
         IF k = "exec" THEN Out("exec", r.path, 0, FALSE, "N")
         ELSE IF k = "none" THEN Out("fail", "", 127, FALSE, "N")
         ELSE Out("fail", "", 126, FALSE, "N")

(* A built-in that reports an error (2.8.1): a special built-in aborts a   *)
(* non-interactive shell, unless invoked through `command`.                *)
AbortsOnError(S, name, mode) == Invoke(S, name, mode).what = "builtin" /\ Invoke(S, name, mode).sp

---------------------------------------------------------------------------
(* `command -v name` (std = FALSE) / `command -pv name` (std = TRUE), and  *)
(* `command -V` / `type`.  Result: kind, text (-v: what is written, minus  *)
(* the alias case), path, found.                                           *)
(*  kind: "keyword" "alias" "function" "special" "builtin" "external"      *)
(*        "notfound"; "unsp": a name with a slash naming an existing file  *)
(*        that cannot be executed (whether that counts as found is not     *)
(*        said)                                                            *)
Id(kind, text, path, found) == [kind |-> kind, text |-> text, path |-> path, found |-> found]

Identify(S, name, std) ==
  IF name \in Keywords THEN Id("keyword", name, "", TRUE)
  ELSE IF name \in S.als THEN Id("alias", name, "", TRUE)
  ELSE LET r == Resolve(S, name, TRUE, IF std THEN S.std ELSE S.path) IN
    CASE r.kind \in {"special", "function"} -> Id(r.kind, name, "", TRUE)
      [] r.kind = "builtin" -> Id("builtin", IF r.path = "" THEN name ELSE r.path, r.path, TRUE)
      [] r.kind \in {"rejected", "notfound"} -> Id("notfound", "", "", FALSE)
      [] r.kind = "external" ->
           LET k == FileKind(S, r.path) IN
           IF k = "exec" THEN Id("external", r.path, r.path, TRUE)
           ELSE IF k = "none" THEN Id("notfound", "", "", FALSE)
           ELSE Id("unsp", "", "", FALSE)

(* an observation of -v: [out |-> text written (alias: the name if the     *)
(* output is a definition of that alias), found |-> status = 0]            *)
AgreeV(obs, id) ==
  id.kind = "unsp" \/ (obs.found = id.found /\ obs.out = id.text)
(* an observation of -V / type: [kind, path, found]                        *)
AgreeVV(obs, id) ==
  id.kind = "unsp" \/ (obs.found = id.found /\ obs.kind = id.kind /\ obs.path = id.path)
(* an observation of an invocation: [what, path, st, sp, persist];         *)
(* st is compared for failures only (what an executed program or function  *)
(* returns is not the subject), sp for built-ins, persist unless "U"       *)
AgreeInv(obs, o) ==
  /\ obs.what = o.what
  /\ obs.path = o.path
  /\ (o.what = "fail" => obs.st = o.st)
  /\ (o.what = "builtin" => obs.sp = o.sp)
  /\ (o.persist # "U" => obs.persist = o.persist)
=============================================================================
