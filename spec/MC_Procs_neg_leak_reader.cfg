\* NEGATIVE configuration: the named wrong order "leak_reader" (the shell keeps
\* the read end of every pipe but the last while forking; later stages inherit
\* it) replaces the correct protocol; TLC MUST report a deadlock here: the
\* producer of more than the pipe capacity never gets EPIPE.
SPECIFICATION Spec
CONSTANTS
  Variant = "leak_reader"
  MaxP = 7
  Scripts <- CatNegLeakR
INVARIANTS NoErr InvReapOnce InvStatusTrue InvNoFgLeft InvJobsSound InvDenotation
