SPECIFICATION Spec
CONSTANTS
  Variant = "ok"
  MaxP = 7
  Scripts <- CatAll
INVARIANTS NoErr InvReapOnce InvStatusTrue InvNoFgLeft InvJobsSound InvDenotation Emit
