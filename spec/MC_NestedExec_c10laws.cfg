SPECIFICATION Spec
CONSTANTS
  Fuel = 24
  TickLimit = 2
  K = 3
  Alphabet <- AlphaC10Laws
  Opts <- OptsC10
INVARIANT Laws
INVARIANT LawsC10
CHECK_DEADLOCK FALSE
