INIT Init
NEXT Next
CONSTANTS
  SAlpha <- StrFull
  SLen = 3
  Shards = 16
INVARIANT Emit
