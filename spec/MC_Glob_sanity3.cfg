\* P1 (thorough): sanity theorems on every word of <= 2 units over the whole
\* alphabet and <= 3 units over a core, rich + one-node + random trees.
INIT Init
NEXT Next
VIEW View
CONSTANTS
  MaxLen = 3
  FullLen = 2
  Core = {1, 3, 4, 5, 6, 8, 9, 11, 12, 21, 26, 30}
  Families = {"rich", "one", "rand"}
  NRand = 4
  RandSize = 9
INVARIANT TreesOK
INVARIANT T_Exist
INVARIANT T_Complete
INVARIANT T_Sorted
INVARIANT T_Quoted
INVARIANT T_Period
INVARIANT T_Fallback
