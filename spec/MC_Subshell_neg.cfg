\* negative test: with the sharing action TLC must report Isolation violated
CONSTANTS
  MaxPre = 0
  MaxChild = 1
  MaxPost = 0
  MaxTotal = 1
  MinPre = 0
  MinTotal = 0
  Leaky = TRUE
  ForkBug = "none"
  Alphabet <- CoreCmds
  PreAlphabet <- CoreCmds
  Kinds <- AllKinds
  Modes <- ScriptMode
  Fins <- NormalFin
  Ctxs <- MainCtx
INIT Init
NEXT Next
PROPERTIES Isolation
