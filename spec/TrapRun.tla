------------------------------ MODULE TrapRun ------------------------------
(***************************************************************************)
(* C11, phase 2: the delivery pipeline of spec/Trap.tla lifted to whole    *)
(* shell scripts.  A script is a small abstract syntax tree; Allowed(prog) *)
(* is the set of probe traces the property, POSIX XCU 2.12 (subshells),    *)
(* 2.15 `trap`/`wait` and docs/src/environment/traps.md allow:             *)
(*                                                                         *)
(*  - a signal whose trap is a command becomes pending when it is sent and *)
(*    its action runs exactly once at the next command boundary of the     *)
(*    main shell: after the simple command, subshell, command substitution *)
(*    or pipeline during which it arrived (deliveries of one signal that   *)
(*    arrive before the same boundary may coalesce);                       *)
(*  - `$?` after the action is what it was before the action;              *)
(*  - no trap action starts while another one runs: a signal that arrives  *)
(*    during an action is handled when that action is over or at the next  *)
(*    boundary (both allowed);                                             *)
(*  - on entering a subshell command traps are reset, ignored ones stay;   *)
(*    an asynchronous command (no job control) ignores INT and QUIT;       *)
(*  - a signal ignored on entry to the (non-interactive) shell can be      *)
(*    neither trapped nor reset, silently;                                 *)
(*  - `wait` interrupted by a trapped signal returns > 128 and the action  *)
(*    runs right after it.                                                 *)
(*                                                                         *)
(* Observation points are the probe built-ins of the harness: `probe TAG`  *)
(* records TAG and `$?`; `disp TAG` records the dispositions installed in  *)
(* the calling process.  Events of the main shell and events of all other  *)
(* processes are compared as two separate sequences (their interleaving is *)
(* the scheduler's choice).  Exit statuses above 128 are recorded as 129.  *)
(***************************************************************************)
EXTENDS Integers, Sequences, FiniteSets, TLC, Json

CONSTANT Level     \* 1: quick program families; 2: also deeper nestings and all action shapes

Sigs == <<"USR1", "USR2", "INT", "QUIT">>          \* order of the `disp` string
SigSet == {Sigs[i] : i \in 1..Len(Sigs)} \cup {"TERM", "SEGV"}

\* Uniform node: kind, string argument, integer argument, two child sequences
N(k, s, n, a, b) == [k |-> k, s |-> s, n |-> n, a |-> a, b |-> b]
Probe(t)       == N("probe", t, 0, <<>>, <<>>)
Disp(t)        == N("disp", t, 0, <<>>, <<>>)
Status(n)      == N("status", "", n, <<>>, <<>>)
Kill(g)        == N("kill", g, 0, <<>>, <<>>)
TrapCmd(g, bd) == N("trapcmd", g, 0, bd, <<>>)
TrapIgn(g)     == N("trapign", g, 0, <<>>, <<>>)
TrapDfl(g)     == N("trapdfl", g, 0, <<>>, <<>>)
TrapPrint(g)   == N("trapp", g, 0, <<>>, <<>>)
Brace(bd)      == N("brace", "", 0, bd, <<>>)
Sub(bd)        == N("sub", "", 0, bd, <<>>)
If(c, t)       == N("if", "", 0, c, t)
For(n, bd)     == N("for", "", n, bd, <<>>)
Func(bd)       == N("func", "", 0, bd, <<>>)
Eval(bd)       == N("eval", "", 0, bd, <<>>)
Subst(bd)      == N("subst", "", 0, bd, <<>>)
Pipe(bd)       == N("pipe", "", 0, bd, <<>>)
Async(bd)      == N("async", "", 0, bd, <<>>)     \* { bd; } & wait
BgKill(g)      == N("bgkill", g, 0, <<>>, <<>>)   \* { kill -s g $$; } &
Wait           == N("wait", "", 0, <<>>, <<>>)
BgExit         == N("bgexit", "", 0, <<>>, <<>>)   \* a job that ends at once: status 0 &
\* one trap command naming several conditions (b = the conditions, as nodes)
SigNodes(gs)   == [i \in 1..Len(gs) |-> N("sig", gs[i], 0, <<>>, <<>>)]
TrapCmdN(gs, bd) == N("trapcmdn", "", 0, bd, SigNodes(gs))
TrapIgnN(gs)   == N("trapignn", "", 0, <<>>, SigNodes(gs))
TrapDflN(gs)   == N("trapdfln", "", 0, <<>>, SigNodes(gs))
Fifo3          == N("fifo3", "", 0, <<>>, <<>>)     \* exec 3<>/tmp/fifo (never blocks; read end stays open)
\* `read x <&3` in the main shell while background jobs act on it.  Variant n:
\*   0  one job sends g and writes the line in one go (signal and completion in the same step)
\*   1  one job sends g; another writes the line later (`nap` = a timer of the simulated clock)
\*   2  as 1, and a third job sends USR2 in between (two signals, separate batches)
\*   3  one job sends g; another sends SIGINT later; nobody writes (interactive shell only)
\*   4  as 3 with USR2 in between
ReadWith(g, n) == N("readwith", g, n, <<>>, <<>>)
BgBlock        == N("bgblock", "", 0, <<>>, <<>>) \* a job that never ends by itself: sink </tmp/fifo & p1=$!
WaitJob        == N("waitjob", "", 0, <<>>, <<>>) \* wait $p1
\* `return n` (n >= 0) / `return` without operand (n = -1): only generated inside a function
\* body or inside a trap action that is executed while a function runs
Return(n)      == N("return", "", n, <<>>, <<>>)

-----------------------------------------------------------------------------
\* Concrete syntax
RECURSIVE Render(_), RenderSeq(_), Words(_), Names(_)
Names(q) == IF q = <<>> THEN "" ELSE " " \o q[1].s \o Names(Tail(q))
Words(n) == IF n = 0 THEN "" ELSE " x" \o Words(n - 1)
RenderSeq(q) == IF q = <<>> THEN ":"
                ELSE IF Len(q) = 1 THEN Render(q[1])
                ELSE Render(q[1]) \o (IF q[1].k \in {"bgkill", "bgexit"} THEN " " ELSE "; ") \o RenderSeq(Tail(q))
Render(nd) ==
  CASE nd.k = "probe"   -> "probe " \o nd.s
    [] nd.k = "disp"    -> "disp " \o nd.s
    [] nd.k = "status"  -> "status " \o ToString(nd.n)
    [] nd.k = "kill"    -> "kill -s " \o nd.s \o " $$"
    [] nd.k = "trapcmd" -> "trap '" \o RenderSeq(nd.a) \o "' " \o nd.s
    [] nd.k = "trapign" -> "trap '' " \o nd.s
    [] nd.k = "trapdfl" -> "trap - " \o nd.s
    [] nd.k = "trapp"   -> "trap -p " \o nd.s
    [] nd.k = "brace"   -> "{ " \o RenderSeq(nd.a) \o "; }"
    [] nd.k = "sub"     -> "(" \o RenderSeq(nd.a) \o ")"
    [] nd.k = "if"      -> "if " \o RenderSeq(nd.a) \o "; then " \o RenderSeq(nd.b) \o "; fi"
    [] nd.k = "for"     -> "for i in" \o Words(nd.n) \o "; do " \o RenderSeq(nd.a) \o "; done"
    [] nd.k = "func"    -> "f() { " \o RenderSeq(nd.a) \o "; }; f"
    [] nd.k = "eval"    -> "eval '" \o RenderSeq(nd.a) \o "'"
    [] nd.k = "subst"   -> "x=$(" \o RenderSeq(nd.a) \o ")"
    [] nd.k = "pipe"    -> "{ " \o RenderSeq(nd.a) \o "; } | cat"
    [] nd.k = "async"   -> "{ " \o RenderSeq(nd.a) \o "; } & wait"
    [] nd.k = "bgkill"  -> "{ kill -s " \o nd.s \o " $$; } &"
    [] nd.k = "wait"    -> "wait"
    [] nd.k = "fifo3"   -> "exec 3<>/tmp/fifo"
    [] nd.k = "readwith" ->
         (CASE nd.n = 0 -> "{ kill -s " \o nd.s \o " $$; echo v >&3; } &"
            [] nd.n = 1 -> "{ kill -s " \o nd.s \o " $$; } & { nap 1; echo v >&3; } &"
            [] nd.n = 2 -> "{ kill -s " \o nd.s \o " $$; } & { nap 1; kill -s USR2 $$; } & { nap 2; echo v >&3; } &"
            [] nd.n = 3 -> "{ kill -s " \o nd.s \o " $$; } & { nap 1; kill -s INT $$; } &"
            [] nd.n = 4 -> "{ kill -s " \o nd.s \o " $$; } & { nap 1; kill -s USR2 $$; } & { nap 2; kill -s INT $$; } &")
         \o " read x <&3"
    [] nd.k = "bgblock" -> "sink </tmp/fifo & p1=$!"
    [] nd.k = "bgexit"  -> "status 0 &"
    [] nd.k = "trapcmdn" -> "trap '" \o RenderSeq(nd.a) \o "'" \o Names(nd.b)
    [] nd.k = "trapignn" -> "trap ''" \o Names(nd.b)
    [] nd.k = "trapdfln" -> "trap -" \o Names(nd.b)
    [] nd.k = "waitjob" -> "wait $p1"
    [] nd.k = "return"  -> IF nd.n < 0 THEN "return" ELSE "return " \o ToString(nd.n)

-----------------------------------------------------------------------------
\* Semantics.  A state of the interpreter:
\*   st      $? of the process executing
\*   main    executing in the main shell process (kill targets it: $$)
\*   mt      trap table of the main shell:  signal -> [kind, body]
\*   ct      trap table of the executing process
\*   cnt     deliveries to the main shell not yet handled, per signal
\*   fly     signal a background signaller is about to send ("" = none)
\*   intrap  the main shell is executing a trap action
\*   tr/ctr  events of the main shell / of all other processes
\*   halt    the main shell is blocked for ever (recorded as the pseudo event DEADLOCK)
\*   ret     `return` has been executed: the commands up to the end of the innermost function
\*           are not executed (XCU return; return.md).  A `return` in a trap action that runs
\*           while a function is executed ends that function (return.md: "invoked in a trap
\*           executed in a function ... returns from that function"); the actions of OTHER
\*           signals caught before stay owed and run at a later command boundary - ending the
\*           function must not lose them (each caught signal runs its action once)
\*   pre     $? before entering the trap action being executed (`return` without operand
\*           inside an action: "the exit status will be the value of $? before entering the trap")

None == [kind |-> "dfl", body |-> <<>>]
Ign  == [kind |-> "ign", body |-> <<>>]
Cmd(bd) == [kind |-> "cmd", body |-> bd]

Start(init) ==
  LET t0 == [g \in SigSet |-> IF init[g] = "I" THEN Ign ELSE None]
  IN [st |-> 0, main |-> TRUE, mt |-> t0, ct |-> t0, cnt |-> [g \in SigSet |-> 0], fly |-> "",
      intrap |-> FALSE, tr |-> <<>>, ctr |-> <<>>, init |-> init, halt |-> FALSE, ret |-> FALSE, pre |-> 0]

Emit(s, tag, d) ==
  LET e == [t |-> tag, st |-> s.st, d |-> d]
  IN IF s.main THEN [s EXCEPT !.tr = Append(@, e)] ELSE [s EXCEPT !.ctr = Append(@, e)]

DispChar(tr) == CASE tr.kind = "cmd" -> "C" [] tr.kind = "ign" -> "I" [] tr.kind = "dfl" -> "D"
RECURSIVE DispFrom(_, _)
DispFrom(s, i) == IF i > Len(Sigs) THEN "" ELSE DispChar(s.ct[Sigs[i]]) \o DispFrom(s, i + 1)

\* set a trap in the executing process; silently refused for a signal ignored
\* on entry to the shell
SetTrap(s, g, v) ==
  IF s.init[g] = "I" THEN s
  ELSE IF s.main THEN [s EXCEPT !.mt[g] = v, !.ct[g] = v] ELSE [s EXCEPT !.ct[g] = v]

\* traps of a subshell: commands reset, ignores kept
ResetTraps(t) == [g \in SigSet |-> IF t[g].kind = "cmd" THEN None ELSE t[g]]

\* one trap command with several conditions: each condition is handled on its own
RECURSIVE SetTraps(_, _, _)
SetTraps(s, q, v) == IF q = <<>> THEN s ELSE SetTraps(SetTrap(s, q[1].s, v), Tail(q), v)

RECURSIVE Exec(_, _), ExecSeq(_, _), Boundary(_), RunPending(_, _), RunTrapK(_, _, _), Repeat(_, _, _)

ExecSeq(q, S) == IF q = <<>> THEN S ELSE ExecSeq(Tail(q), UNION {Exec(q[1], s) : s \in S})

RunTrapOnce(g, s) ==
  LET saved == s.st
      R == ExecSeq(s.mt[g].body, {[s EXCEPT !.intrap = TRUE, !.pre = saved]})
  IN {[r EXCEPT !.st = IF r.ret THEN r.st ELSE saved, !.intrap = FALSE] : r \in R}
RunTrapK(g, k, S) == IF k = 0 THEN S ELSE RunTrapK(g, k - 1, UNION {RunTrapOnce(g, s) : s \in S})

\* run the actions of exactly the signals in P, in any order, each between
\* once and as many times as it was delivered
RunPending(P, s) ==
  IF P = {} \/ s.ret THEN {s}     \* after a `return` the remaining actions stay owed
  ELSE UNION {UNION {RunPending(P \ {gk[1]}, r) : r \in RunTrapK(gk[1], gk[2], {[s EXCEPT !.cnt[gk[1]] = 0]})}
              : gk \in {x \in P \X (1..4) : x[2] <= s.cnt[x[1]]}}

\* a command boundary of the main shell
Boundary(s) ==
  IF ~s.main \/ s.intrap \/ s.ret THEN {s}
  ELSE LET P == {g \in SigSet : s.cnt[g] > 0 /\ s.mt[g].kind = "cmd"}
       IN IF P = {} THEN {s}
          ELSE LET R == RunPending(P, s)
               IN R \cup UNION {Boundary(r) : r \in R}    \* arrivals during the actions: later or now

\* the background signaller may deliver just before any boundary of the main shell
Arrive(s) == IF s.fly # "" /\ s.main
             THEN {s, [s EXCEPT !.cnt[s.fly] = @ + 1, !.fly = ""]} ELSE {s}
Leaf(s) == UNION {Boundary(a) : a \in Arrive(s)}

\* a signal sent to the main shell
Deliver(s, g) ==
  CASE s.mt[g].kind = "cmd" -> [s EXCEPT !.cnt[g] = @ + 1]
    [] s.mt[g].kind = "ign" -> s
    [] s.mt[g].kind = "dfl" -> [s EXCEPT !.st = -1]      \* the shell is killed: not generated

Repeat(n, q, S) == IF n = 0 THEN S ELSE Repeat(n - 1, q, ExecSeq(q, S))

\* a child process executing `bd`; returns the parent's states afterwards
\* (status = the child's), before the parent's boundary
InChild(s, bd, ct0) ==
  LET c0 == [s EXCEPT !.main = FALSE, !.ct = ct0, !.intrap = FALSE]
  IN {[r EXCEPT !.main = s.main, !.ct = s.ct, !.intrap = s.intrap] : r \in ExecSeq(bd, {c0})}

Exec(nd, s) ==
  IF s.halt \/ s.ret THEN {s} ELSE
  CASE nd.k = "probe"   -> Leaf(Emit(s, nd.s, ""))
    [] nd.k = "disp"    -> Leaf(Emit(s, nd.s, DispFrom(s, 1)))
    [] nd.k = "status"  -> Leaf([s EXCEPT !.st = nd.n])
    [] nd.k = "kill"    -> Leaf([Deliver(s, nd.s) EXCEPT !.st = 0])
    [] nd.k = "trapcmd" -> Leaf([SetTrap(s, nd.s, Cmd(nd.a)) EXCEPT !.st = 0])
    [] nd.k = "trapign" -> Leaf([SetTrap(s, nd.s, Ign) EXCEPT !.st = 0])
    [] nd.k = "trapdfl" -> Leaf([SetTrap(s, nd.s, None) EXCEPT !.st = 0])
    [] nd.k = "trapp"   -> Leaf([s EXCEPT !.st = 0])
    [] nd.k = "brace"   -> ExecSeq(nd.a, {s})
    [] nd.k = "func"    -> \* the function definition command itself succeeds ($? = 0), then the call
                           \* (a `return` ends the call: the simple command `f` is complete, which
                           \* is a command boundary)
                           UNION {UNION {IF r.ret THEN Leaf([r EXCEPT !.ret = FALSE]) ELSE {r} : r \in ExecSeq(nd.a, {d})}
                                  : d \in Leaf([s EXCEPT !.st = 0])}
    [] nd.k = "return"  -> {[s EXCEPT !.st = IF nd.n >= 0 THEN nd.n ELSE IF s.intrap THEN s.pre ELSE s.st, !.ret = TRUE]}
    [] nd.k = "eval"    -> ExecSeq(nd.a, {s})
    [] nd.k = "if"      -> UNION {IF c.ret THEN {c} ELSE IF c.st = 0 THEN ExecSeq(nd.b, {c}) ELSE {[c EXCEPT !.st = 0]}
                                  : c \in ExecSeq(nd.a, {s})}
    [] nd.k = "for"     -> IF nd.n = 0 THEN {[s EXCEPT !.st = 0]} ELSE Repeat(nd.n, nd.a, {s})
    [] nd.k = "sub"     -> UNION {Leaf(r) : r \in InChild(s, nd.a, ResetTraps(s.ct))}
    [] nd.k = "subst"   -> UNION {Leaf(r) : r \in InChild(s, nd.a, ResetTraps(s.ct))}
    [] nd.k = "pipe"    -> UNION {Leaf([r EXCEPT !.st = 0]) : r \in InChild(s, nd.a, ResetTraps(s.ct))}
    [] nd.k = "async"   -> \* asynchronous command without job control: INT and QUIT ignored
                           LET ct0 == [g \in SigSet |-> IF g \in {"INT", "QUIT"} THEN Ign ELSE ResetTraps(s.ct)[g]]
                           IN UNION {Leaf([r EXCEPT !.st = 0]) : r \in InChild(s, nd.a, ct0)}
    [] nd.k = "bgkill"  -> Leaf([s EXCEPT !.fly = nd.s, !.st = 0])
    [] nd.k = "wait"    -> IF s.fly = "" THEN Leaf([s EXCEPT !.st = 0])
                           ELSE \* the signal arrives while waiting
                                LET a == [s EXCEPT !.cnt[s.fly] = @ + 1, !.fly = ""]
                                IN \* wait is interrupted: it returns > 128 and the action is taken
                                   \* immediately after (POSIX) ...
                                   Boundary([a EXCEPT !.st = 129])
                                   \* ... or "on interrupting wait", before wait's own status is set
                                   \cup {[r EXCEPT !.st = 129] : r \in Boundary(a)}
                                   \* or the signaller is already gone and wait succeeds
                                   \cup Boundary([a EXCEPT !.st = 0])

    [] nd.k = "fifo3"   -> Leaf([s EXCEPT !.st = 0])
    [] nd.k = "readwith" ->
         \* every signal sent reaches the shell while it is blocked in `read` (it does not yield
         \* before); the actions run once each at the boundary after `read` - whether read
         \* completed (a line arrived) or was interrupted by SIGINT (interactive shell, default
         \* SIGINT: the rest of the script is abandoned after that boundary)
         LET d1 == Deliver(s, nd.s)
             d2 == IF nd.n \in {2, 4} THEN Deliver(d1, "USR2") ELSE d1
             B  == Boundary([d2 EXCEPT !.st = 0])
         IN IF nd.n \in {3, 4} THEN {[r EXCEPT !.halt = TRUE] : r \in B} ELSE B
    [] nd.k = "bgblock" -> Leaf([s EXCEPT !.st = 0])
    [] nd.k = "bgexit"  -> Leaf([s EXCEPT !.st = 0])
    [] nd.k = "trapcmdn" -> Leaf([SetTraps(s, nd.b, Cmd(nd.a)) EXCEPT !.st = 0])
    [] nd.k = "trapignn" -> Leaf([SetTraps(s, nd.b, Ign) EXCEPT !.st = 0])
    [] nd.k = "trapdfln" -> Leaf([SetTraps(s, nd.b, None) EXCEPT !.st = 0])
    [] nd.k = "waitjob" -> \* the awaited job never ends: only a trapped signal ends the wait - whatever
                           \* else happens meanwhile (other jobs ending, SIGCHLD in the same batch)
                           IF s.fly = ""
                           THEN {[s EXCEPT !.halt = TRUE, !.tr = Append(@, [t |-> "DEADLOCK", st |-> 0, d |-> ""])]}
                           ELSE LET a == [s EXCEPT !.cnt[s.fly] = @ + 1, !.fly = ""]
                                IN Boundary([a EXCEPT !.st = 129])
                                   \cup {[r EXCEPT !.st = 129] : r \in Boundary(a)}

Allowed(init, prog) == {[m |-> f.tr, c |-> f.ctr] : f \in ExecSeq(prog, {Start(init)})}

-----------------------------------------------------------------------------
\* Program families (the generator)

AllDefault == [g \in SigSet |-> "D"]
Usr1Ignored == [AllDefault EXCEPT !["USR1"] = "I"]

\* contexts: a syntactic position for the sequence `x`
Ctx(kind, x) ==
  CASE kind = "plain" -> Brace(x)
    [] kind = "brace" -> Brace(x \o <<Status(5)>>)
    [] kind = "sub"   -> Sub(x \o <<Status(5)>>)
    [] kind = "ifc"   -> If(x, <<Probe("t")>>)
    [] kind = "ifb"   -> If(<<Status(0)>>, x)
    [] kind = "for"   -> For(2, x)
    [] kind = "func"  -> Func(x \o <<Status(6)>>)
    [] kind = "eval"  -> Eval(x)
    [] kind = "subst" -> Subst(x \o <<Status(6)>>)
    [] kind = "pipe"  -> Pipe(x)
CtxKinds == {"plain", "brace", "sub", "ifc", "ifb", "for", "func", "eval", "subst", "pipe"}

Actions == { <<Probe("T")>>, <<Status(7), Probe("T")>>, <<Probe("T"), Status(7)>> }

\* the signal is sent by the shell to itself at one syntactic position
SyncProgs1 ==
  {[fam |-> "sync1:" \o k, init |-> AllDefault, opts |-> "",
    prog |-> <<TrapCmd("USR1", a), Status(3), Ctx(k, <<Kill("USR1")>>), Probe("a"), Status(4), Probe("b")>>]
   : k \in CtxKinds, a \in Actions}
SyncProgs2 ==
  {[fam |-> "sync2:" \o k1 \o "/" \o k2, init |-> AllDefault, opts |-> "",
    prog |-> <<TrapCmd("USR1", a), Status(3), Ctx(k1, <<Ctx(k2, <<Kill("USR1")>>)>>), Probe("a"), Status(4), Probe("b")>>]
   : <<k1, k2>> \in {kk \in CtxKinds \X CtxKinds : ~(kk[1] = "eval" /\ kk[2] = "eval")},
     a \in {<<Probe("T"), Status(7)>>}}

\* a signal that arrives while a trap action runs; two deliveries before one boundary;
\* ignored and reset traps; dispositions after trap commands and in subshells
OtherProgs ==
  { [fam |-> "nested", init |-> AllDefault, opts |-> "",
     prog |-> <<TrapCmd("USR1", <<Kill("USR2"), Probe("T1")>>), TrapCmd("USR2", <<Probe("T2")>>),
               Status(3), Kill("USR1"), Probe("a"), Status(4), Probe("b")>>],
    [fam |-> "nested-sub", init |-> AllDefault, opts |-> "",
     prog |-> <<TrapCmd("USR1", <<Sub(<<Kill("USR2"), Status(5)>>), Probe("T1")>>), TrapCmd("USR2", <<Probe("T2")>>),
               Status(3), Sub(<<Kill("USR1"), Status(2)>>), Probe("a"), Probe("b")>>],
    [fam |-> "coalesce", init |-> AllDefault, opts |-> "",
     prog |-> <<TrapCmd("USR1", <<Probe("T")>>), Sub(<<Kill("USR1"), Kill("USR1"), Status(5)>>), Probe("a")>>],
    [fam |-> "two-signals", init |-> AllDefault, opts |-> "",
     prog |-> <<TrapCmd("USR1", <<Probe("T1")>>), TrapCmd("USR2", <<Probe("T2")>>),
               Sub(<<Kill("USR1"), Kill("USR2"), Status(5)>>), Probe("a")>>],
    [fam |-> "ignore", init |-> AllDefault, opts |-> "",
     prog |-> <<TrapIgn("USR1"), Disp("d1"), Status(3), Kill("USR1"), Probe("a"), Sub(<<Disp("c1"), Kill("USR1"), Probe("c")>>),
               TrapCmd("USR1", <<Probe("T")>>), Disp("d2"), Kill("USR1"), Probe("b")>>],
    [fam |-> "reset-in-subshell", init |-> AllDefault, opts |-> "",
     prog |-> <<TrapCmd("USR1", <<Probe("T")>>), TrapIgn("USR2"), TrapCmd("INT", <<Probe("TI")>>), Disp("m1"),
               Sub(<<Disp("c1"), TrapCmd("USR2", <<Probe("C")>>), Disp("c2"), Sub(<<Disp("cc")>>)>>),
               Disp("m2"), TrapDfl("USR1"), TrapDfl("INT"), Disp("m3")>>],
    [fam |-> "ignored-on-entry", init |-> Usr1Ignored, opts |-> "",
     prog |-> <<Disp("d0"), TrapCmd("USR1", <<Probe("T")>>), Probe("s1"), Disp("d1"), Kill("USR1"), Probe("a"),
               TrapDfl("USR1"), Probe("s2"), Disp("d2"), Kill("USR1"), Probe("b"),
               Sub(<<TrapCmd("USR1", <<Probe("C")>>), Disp("c1"), Kill("USR1"), Probe("c")>>), Probe("e")>>],
    [fam |-> "ignored-on-entry-after-listing", init |-> Usr1Ignored, opts |-> "",
     prog |-> <<TrapPrint("USR1"), TrapCmd("USR1", <<Probe("T")>>), Disp("d1"), Kill("USR1"), Probe("a"),
               TrapDfl("USR1"), Disp("d2"), Kill("USR1"), Probe("b"),
               Sub(<<TrapPrint("USR1"), TrapCmd("USR1", <<Probe("C")>>), Disp("c1"), Kill("USR1"), Probe("c")>>), Probe("e")>>],
    [fam |-> "async-ignores-int-quit", init |-> AllDefault, opts |-> "",
     prog |-> <<TrapCmd("USR1", <<Probe("T")>>), Disp("m1"), Async(<<Disp("c1")>>), Disp("m2")>>],
    [fam |-> "async-child-traps-int", init |-> AllDefault, opts |-> "",
     prog |-> <<Async(<<TrapCmd("INT", <<Probe("C")>>), Disp("c1")>>), Disp("m1")>>],
    [fam |-> "async-child-traps-int-after-listing", init |-> AllDefault, opts |-> "",
     prog |-> <<TrapPrint("INT"), Async(<<TrapCmd("INT", <<Probe("C")>>), Disp("c1")>>), Disp("m1")>>] }

\* `return` in a trap action that runs while a function is executed: the function ends; with
\* two different signals caught before the same boundary the action of the other one is still
\* owed and runs exactly once (before, or at a boundary after the function has ended)
RetActs == { <<Probe("T1"), Return(7)>>, <<Probe("T1"), Return(-1)>>, <<Status(6), Return(-1), Probe("x")>> }
DivertProgs ==
  {[fam |-> "return-in-action:" \o k, init |-> AllDefault, opts |-> "",
    prog |-> <<TrapCmd("USR1", a), Status(3), Func(<<Ctx(k, <<Kill("USR1")>>), Probe("n"), Status(2)>>), Probe("a"), Status(4), Probe("b")>>]
   : k \in {"plain", "sub", "for", "ifc", "eval"}, a \in RetActs}
  \cup
  {[fam |-> "return-in-action-two-signals:" \o x[3], init |-> AllDefault, opts |-> "",
    prog |-> <<TrapCmd(x[1][1], x[2][1]), TrapCmd(x[1][2], x[2][2]), Status(3),
               Func(<<Sub(<<Kill(x[1][1]), Kill(x[1][2]), Status(5)>>), Probe("n"), Status(2)>>), Probe("a"), Status(4), Probe("b")>>]
   : x \in { << <<"USR1", "USR2">>, << <<Probe("T1"), Return(7)>>, <<Probe("T2")>> >>, "first" >>,
             << <<"USR1", "USR2">>, << <<Probe("T1")>>, <<Probe("T2"), Return(7)>> >>, "second" >>,
             << <<"USR1", "USR2">>, << <<Probe("T1"), Return(-1)>>, <<Probe("T2"), Return(8)>> >>, "both" >>,
             << <<"INT", "QUIT">>, << <<Probe("T1"), Return(7)>>, <<Probe("T2"), Status(9)>> >>, "int-quit" >> }}
  \cup
  {[fam |-> "return-in-action-nested-functions", init |-> AllDefault, opts |-> "",
    prog |-> <<TrapCmd("USR1", <<Probe("T1"), Return(7)>>), TrapCmd("USR2", <<Probe("T2")>>), Status(3),
               Func(<<Sub(<<Kill("USR2"), Kill("USR1"), Status(5)>>), Probe("n")>>), Probe("a"),
               Func(<<Kill("USR1"), Probe("m")>>), Probe("b")>>]}

\* the signal is sent by another process at a moment the scheduler chooses
AsyncProgs ==
  {[fam |-> "bg:" \o k, init |-> AllDefault, opts |-> "",
    prog |-> <<TrapCmd("USR1", a), BgKill("USR1"), Status(3), Ctx(k, <<Probe("a")>>), Status(4), Probe("b"), Wait, Probe("w")>>]
   \* (the main shell is pre-empted only where it blocks: in the foreground subshells and in wait)
   : k \in {"plain", "sub", "subst", "for", "ifc", "func"}, a \in {<<Probe("T"), Status(7)>>, <<Status(7), Probe("T")>>}}

\* thorough tier: every action shape at two levels, three levels of the process-creating
\* and looping contexts, and another signal
SyncProgs2All ==
  {[fam |-> "sync2:" \o kk[1] \o "/" \o kk[2], init |-> AllDefault, opts |-> "",
    prog |-> <<TrapCmd("USR1", a), Status(3), Ctx(kk[1], <<Ctx(kk[2], <<Kill("USR1")>>)>>), Probe("a"), Status(4), Probe("b")>>]
   : kk \in {kk \in CtxKinds \X CtxKinds : ~(kk[1] = "eval" /\ kk[2] = "eval")}, a \in Actions}
Deep == {"sub", "for", "ifc", "subst", "func", "brace"}
SyncProgs3 ==
  {[fam |-> "sync3:" \o kk[1] \o "/" \o kk[2] \o "/" \o kk[3], init |-> AllDefault, opts |-> "",
    prog |-> <<TrapCmd("INT", <<Probe("T"), Status(7)>>), Status(3),
               Ctx(kk[1], <<Ctx(kk[2], <<Ctx(kk[3], <<Kill("INT")>>)>>)>>), Probe("a"), Status(4), Probe("b")>>]
   : kk \in Deep \X Deep \X Deep}

\* `wait JOB` for a job that does not end, while another job sends the trapped signal to the
\* shell and exits at once: the signal and the SIGCHLD for that other job reach the shell
\* together; the trapped signal must still interrupt the wait.
WaitJobProgs ==
  {[fam |-> "wait-job:" \o k, init |-> AllDefault, opts |-> "",
    prog |-> <<TrapCmd("USR1", a), BgBlock, Status(3), Ctx(k, <<Probe("a")>>), BgKill("USR1"), WaitJob, Probe("w"), Status(4), Probe("b")>>]
   : k \in {"plain", "for", "func"}, a \in {<<Probe("T"), Status(7)>>, <<Status(7), Probe("T")>>}}

\* the same with a further job that simply ends, before or after the signaller is started: under
\* the enumerated schedules its SIGCHLD reaches the shell before, after or together with the
\* trapped signal, in either order within one batch
WaitJobProgs2 ==
  {[fam |-> "wait-job2:" \o k, init |-> AllDefault, opts |-> "",
    prog |-> <<TrapCmd("USR1", <<Probe("T"), Status(7)>>), BgBlock, Status(3), Probe("a")>> \o mid \o <<WaitJob, Probe("w"), Status(4), Probe("b")>>]
   : <<k, mid>> \in { <<"exit-kill", <<BgExit, BgKill("USR1")>> >>, <<"kill-exit", <<BgKill("USR1"), BgExit>> >>,
                     <<"exit-exit-kill", <<BgExit, BgExit, BgKill("USR1")>> >> }}

\* one trap command naming several conditions, with and without a signal ignored on entry
MultiBody(tag) == <<Disp(tag \o "0"),
   TrapCmdN(<<"USR1", "USR2", "INT">>, <<Probe("T")>>), Probe("s1"), Disp(tag \o "1"), Kill("USR2"), Probe("a"), Kill("INT"), Probe("b"),
   TrapDflN(<<"INT", "USR1", "USR2">>), Probe("s2"), Disp(tag \o "2"),
   TrapIgnN(<<"USR2", "USR1", "QUIT">>), Probe("s3"), Disp(tag \o "3"), Kill("USR2"), Kill("QUIT"), Probe("c"),
   TrapCmdN(<<"QUIT", "INT", "USR1">>, <<Probe("U")>>), Disp(tag \o "4"), Kill("QUIT"), Probe("d"),
   Sub(<<TrapCmdN(<<"USR1", "USR2">>, <<Probe("C")>>), Disp(tag \o "5")>>), Probe("e")>>
MultiProgs ==
  { [fam |-> "multi-condition", init |-> AllDefault, opts |-> "", prog |-> MultiBody("d")],
    [fam |-> "multi-condition-ignored-on-entry", init |-> Usr1Ignored, opts |-> "", prog |-> MultiBody("i")] }

\* a signal handler installed before the shell started (SEGV and BUS under the Rust runtime on
\* a real kernel): not "ignored on entry" - the signal can be trapped, listed, run and reset
CaughtOnEntry == [AllDefault EXCEPT !["USR1"] = "C", !["SEGV"] = "C"]
CaughtProgs ==
  { [fam |-> "caught-on-entry", init |-> CaughtOnEntry, opts |-> "",
     prog |-> <<Disp("d0"), TrapCmd("USR1", <<Probe("T")>>), Probe("s1"), Disp("d1"), Kill("USR1"), Probe("a"),
               TrapDfl("USR1"), Disp("d2"), TrapIgn("USR1"), Disp("d3"), Kill("USR1"), Probe("b"),
               TrapCmdN(<<"USR2", "USR1">>, <<Probe("U")>>), Disp("d4"), Kill("USR1"), Probe("c"),
               Sub(<<Disp("c0"), TrapCmd("USR1", <<Probe("C")>>), Disp("c1")>>), Probe("e")>>],
    [fam |-> "caught-on-entry-after-listing", init |-> CaughtOnEntry, opts |-> "",
     prog |-> <<TrapPrint("USR1"), Disp("d0"), TrapCmd("USR1", <<Probe("T")>>), Disp("d1"), Kill("USR1"), Probe("a"),
               TrapDfl("USR1"), Disp("d2")>>],
    [fam |-> "caught-on-entry-segv", init |-> CaughtOnEntry, opts |-> "",
     prog |-> <<TrapCmd("SEGV", <<Probe("T"), Status(7)>>), Probe("s1"), Status(3), Kill("SEGV"), Probe("a"),
               TrapDfl("SEGV"), Probe("b")>>] }

\* a signal that arrives while a built-in of the main shell blocks (read on a descriptor with
\* no data yet), non-interactive and interactive (option -i, SIGINT at its default)
ReadProgs ==
  {[fam |-> "read" \o x[1] \o ":" \o ToString(x[2]) \o ":" \o x[3], init |-> AllDefault, opts |-> x[1],
    prog |-> <<Fifo3, TrapCmd(x[3], <<Probe("T"), Status(7)>>), TrapCmd("USR2", <<Probe("U")>>), Status(3), Probe("a"),
               ReadWith(x[3], x[2]), Probe("r"), Status(4), Probe("b")>>]
   : x \in ({"", "-i"} \X {0, 1, 2} \X {"USR1", "TERM"}) \cup ({"-i"} \X {3, 4} \X {"USR1", "TERM"})}

Programs == DivertProgs \cup CaughtProgs \cup ReadProgs \cup WaitJobProgs \cup WaitJobProgs2 \cup MultiProgs \cup SyncProgs1 \cup SyncProgs2 \cup OtherProgs \cup AsyncProgs
            \cup (IF Level >= 2 THEN SyncProgs2All \cup SyncProgs3 ELSE {})

\* Generator: one state per program; the line carries the script and the traces allowed
VARIABLE p
GenInit == p \in Programs
GenNext == UNCHANGED p
GenSpec == GenInit /\ [][GenNext]_p
EmitProgram ==
  PrintT(ToJson([fam |-> p.fam, init |-> p.init, opts |-> p.opts, script |-> RenderSeq(p.prog),
                 allowed |-> Allowed(p.init, p.prog), real |-> (p.fam = "caught-on-entry-segv"), sched |-> (p \in AsyncProgs \cup WaitJobProgs \cup WaitJobProgs2 \cup ReadProgs)]))

\* sanity of the oracle itself (checked by TLC on every generated program)
\* every allowed trace of a program that sends k signals runs the action between 1 and k times
NonEmpty == Allowed(p.init, p.prog) # {}
=============================================================================
