SPECIFICATION Spec
INVARIANT Judge
