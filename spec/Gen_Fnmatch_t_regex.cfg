INIT Init
NEXT Next
VIEW view
CONSTANTS
  PNorm <- AlphaRegex
  PLit <- NoChars
  PMacro <- NoChars
  PLen = 5
  SAlpha <- StrRegex
  SLen = 2
  Kind = "match"
INVARIANT Emit
