SPECIFICATION Spec
CONSTANTS
  Alphabet = {97, 39, 34, 92, 36, 10, 126, 58, 123, 125}
  MaxLen = 4
INVARIANT DesignOK
INVARIANT RuleShape
INVARIANT Emit
