SPECIFICATION Spec
CONSTANTS
  Variant = "ok"
  Fams = {"fg", "async", "stop", "tty", "zomb", "nomon", "hang", "mix"}
  Cfgs = {"m", "mi", "-", "i", "mo", "mio", "mb", "mib", "ml", "mil"}
  Enf = {TRUE, FALSE}
INVARIANT AllLaws
INVARIANT EmitScn
INVARIANT EmitEnd
