SPECIFICATION Spec
CONSTANTS
  Variant = "ok"
  Fams = {"fg", "async", "stop", "tty", "zomb", "nomon"}
  Cfgs = {"m", "mi", "-", "i", "mo", "mio", "mb", "mib"}
  Enf = {TRUE, FALSE}
INVARIANT AllLaws
INVARIANT EmitScn
INVARIANT EmitEnd
