SPECIFICATION Spec
CONSTANT Fams = {"files"}
CONSTANT Deep = 0
CONSTANT Variant = ""
INVARIANT Check
