SPECIFICATION Spec
CONSTANTS
  Fuel = 24
  TickLimit = 2
  K = 3
  Alphabet <- AlphaAll
  Opts <- OptsPlain
INVARIANT Laws
CHECK_DEADLOCK FALSE
