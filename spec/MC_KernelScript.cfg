SPECIFICATION SSpec
CONSTANTS
  Theme = "script"
  MaxFd = 5
  MaxLen = 12
  MaxPipe = 1
  MaxH = 0
VIEW sview
CONSTRAINT SBounded
INVARIANT STypeOK
INVARIANT SEmit
