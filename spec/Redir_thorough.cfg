SPECIFICATION Spec
CONSTANTS
  Cfg = "thorough"
  Bug = "none"
  Sim = TRUE
INVARIANT TypeOK
INVARIANT InternalInv
INVARIANT Conforms
INVARIANT Emit
