--------------------------- MODULE Gen_FnmatchFind ---------------------------
(***************************************************************************)
(* P4 enumeration for C04, phase 2.  What find / rfind must return for a    *)
(* string s under a configuration is, by the definitions FindG / RFindG of  *)
(* Fnmatch.tla, a function of the set of parts of s that the pattern        *)
(* denotes.  Every part of a string of the (substring-closed) domain is in  *)
(* the domain, so the expected results follow from the match set printed    *)
(* in phase 1.  This module reads the DISTINCT match sets of phase 1        *)
(* (IOEnv.MSETS, ndjson {k, m}) and prints, for each, the find / rfind      *)
(* ranges of every domain string under all eight configurations, so that    *)
(* the oracle is evaluated once per match set instead of once per pattern.  *)
(*                                                                          *)
(* Header line: cfgs = the configurations in the order of the row entries.  *)
(* Line: k = match-set id, t = [string |-> row]; a row is the flattened     *)
(* sequence of <<find, rfind>> ranges per configuration (-1,-1 = none).     *)
(* Strings none of whose parts is denoted (all entries none) are omitted.   *)
(***************************************************************************)
EXTENDS Fnmatch, Json, IOUtils

CONSTANTS SAlpha, SLen, Shards

StrPunct     == {"!", "\"", "#", "$", "%", "&", "'", "(", ")", "*", "+", ",", "-", ".", "/", ":", ";", "<", "=", ">",
                 "?", "@", "[", "\\", "]", "^", "_", "`", "{", "|", "}", "~", "a"}
StrSet       == {"a", "&", "~", "-"}
StrRegex     == {"a", "+", "(", ")", "|", "$", "{", "}", "\n"}
StrFull      == {"a", "b", ".", "-", "]", "^"}
StrSmall     == {"a", ".", "-", "]"}
StrClass     == {"a", "A", "1", "-", " ", "]"}
StrWide      == {"a", "b", ".", "-", "]", "^", "[", "\\", "*", "!"}

Rec == ndJsonDeserialize(IOEnv.MSETS)
N   == Len(Rec)

RECURSIVE Strs(_)
Strs(n) == IF n = 0 THEN {""} ELSE Strs(n - 1) \cup {s \o c : s \in Strs(n - 1), c \in SAlpha}
Dom == Strs(SLen)

CfgSeq == << [ab |-> FALSE, ae |-> FALSE, sh |-> FALSE], [ab |-> FALSE, ae |-> FALSE, sh |-> TRUE],
             [ab |-> TRUE,  ae |-> FALSE, sh |-> FALSE], [ab |-> TRUE,  ae |-> FALSE, sh |-> TRUE],
             [ab |-> FALSE, ae |-> TRUE,  sh |-> FALSE], [ab |-> FALSE, ae |-> TRUE,  sh |-> TRUE],
             [ab |-> TRUE,  ae |-> TRUE,  sh |-> FALSE], [ab |-> TRUE,  ae |-> TRUE,  sh |-> TRUE] >>

ASSUME PrintT(ToJson([cfgs |-> CfgSeq]))

VARIABLE k
Init == k = 0
Next == IF k = 0 THEN \E w \in 1..Shards : k' = -w
        ELSE IF k < 0 THEN \E i \in 1..N : i % Shards = (-k) % Shards /\ k' = i
        ELSE FALSE

SetOf(seq) == {seq[i] : i \in 1..Len(seq)}

Row(MS, s) ==
  LET Ok(i, j) == SubSeq(s, i + 1, j) \in MS
      one(c) == LET f == FindG(Ok, Len(s), CfgSeq[c])
                    r == RFindG(Ok, Len(s), CfgSeq[c])
                IN <<f[1], f[2], r[1], r[2]>>
  IN one(1) \o one(2) \o one(3) \o one(4) \o one(5) \o one(6) \o one(7) \o one(8)

Touched(MS, s) == \E i \in 0..Len(s) : \E j \in i..Len(s) : SubSeq(s, i + 1, j) \in MS

Line ==
  LET MS == SetOf(Rec[k].m)
  IN [k |-> Rec[k].k, t |-> [s \in {s \in Dom : Touched(MS, s)} |-> Row(MS, s)]]

Emit == k > 0 => PrintT(ToJson(Line))
=============================================================================
