---------------------------- MODULE Trace_Expand ----------------------------
(***************************************************************************)
(* impl -> spec validation for C01.  Every record of the ndjson file       *)
(* IOEnv.TRACE was observed on the real shell:                             *)
(*   {kind: "word", w, st, obs: {k, f, x, y, ...}}   `probe <w>` in state  *)
(*        st gave the fields f (k = "ok") or failed (k = "err")            *)
(*   {kind: "read", line, n, ifs, obs: {vals, status, extra}}              *)
(* A record is accepted iff the observation is one of the outcomes the     *)
(* specification allows for that input.  Inputs outside the modelled       *)
(* fragment are reported as skipped.                                       *)
(*                                                                         *)
(* The records are independent, so the "behaviour" is a binary splitting   *)
(* of the index range 1..N (all TLC workers share the work); the invariant *)
(* judges the record at every leaf and prints one JSON line per record     *)
(* that is not accepted.  It never fails: the driver reads the verdicts.   *)
(***************************************************************************)
EXTENDS Expand, Json, IOUtils

Rec == ndJsonDeserialize(IOEnv.TRACE)
N == Len(Rec)

VARIABLES lo, hi
vars == <<lo, hi>>

Init == lo = 1 /\ hi = N
Next == /\ lo < hi
        /\ LET mid == (lo + hi) \div 2
           IN \/ lo' = lo /\ hi' = mid
              \/ lo' = mid + 1 /\ hi' = hi
Spec == Init /\ [][Next]_vars

WordVerdict(r) ==
  LET O == Outcomes(r.w, r.st) IN
  IF O[1].k = "skip" THEN [v |-> "skip", exp |-> O]
  ELSE IF \E i \in DOMAIN O : Agrees(r.obs, O[i]) THEN [v |-> "ok", exp |-> <<>>]
  ELSE [v |-> "reject", exp |-> O]

ReadVerdict(r) ==
  LET A == ReadOutcomes(r.line, r.n, [set |-> r.ifs.set, v |-> Chars(r.ifs.v)]) IN
  IF r.obs.status = 0 /\ ~r.obs.extra /\ r.obs.vals \in A THEN [v |-> "ok", exp |-> <<>>]
  ELSE [v |-> "reject", exp |-> A]

Verdict(r) == IF r.kind = "read" THEN ReadVerdict(r) ELSE WordVerdict(r)

Judge ==
  (lo = hi /\ N > 0) =>
     LET j == Verdict(Rec[lo])
     IN IF j.v = "ok" THEN TRUE
        ELSE PrintT(ToJson([i |-> lo, v |-> j.v, exp |-> j.exp]))
=============================================================================
