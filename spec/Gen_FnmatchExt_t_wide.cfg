INIT Init
NEXT Next
VIEW view
CONSTANTS
  Variant = ""
  PNorm <- TokWidet
  PLit <- NoChars
  PMacro <- MacWide
  PLen = 3
  SAlpha <- StrWidet
  SLen = 3
  CfgSel = "all"
  Kind = "match"
INVARIANT Emit
