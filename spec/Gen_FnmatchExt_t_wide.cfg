INIT Init
NEXT Next
VIEW view
CONSTANTS
  Variant = ""
  PNorm <- TokWidet
  PLit <- NoChars
  PMacro <- MacWide
  PLen = 2
  SAlpha <- StrWidet
  SLen = 3
  CfgSel = "all"
  Kind = "match"
INVARIANT Emit
