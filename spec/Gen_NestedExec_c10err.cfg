SPECIFICATION Spec
CONSTANTS
  Fuel = 24
  TickLimit = 2
  K = 3
  Alphabet <- AlphaC10Err
  Opts <- OptsC10
INVARIANT EmitC10
CHECK_DEADLOCK FALSE
