SPECIFICATION FairSpec
CONSTANTS
  NT = 2
  NP = 1
  NS = 1
  Cap = 2
  MaxNow = 8
  Budget = 2
  MaxExt = 4
  MaxSel = 6
  MaxSpur = 0
  Base0 = {}
  Variant = "nonatomic"
  Hist = "off"
  Loop = TRUE
  Peek = FALSE
  Sym = FALSE
  Fam = "live"
  Ops <- FamOps
  Exts <- FamExts
PROPERTY L_SignalWait
PROPERTY L_Polled
PROPERTY L_TimerFires
PROPERTY L_ReaderWoken
