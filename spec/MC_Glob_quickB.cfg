\* P4 enumeration, quick, part B: every one-node tree x words of <= 2 units
INIT Init
NEXT Next
VIEW View
CONSTANTS
  MaxLen = 2
  FullLen = 2
  Core = {}
  Families = {"one"}
  NRand = 0
  RandSize = 0
INVARIANT TreesOK0
INVARIANT Emit
