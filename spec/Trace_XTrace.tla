---------------------------- MODULE Trace_XTrace ----------------------------
(***************************************************************************)
(* impl -> spec validation for G10.  Every record of the ndjson file        *)
(* IOEnv.TRACE was produced by harness/g10 from a random scenario:          *)
(*   sc      the scenario in the abstract syntax of XTrace.tla             *)
(*           [o start-up options, prog statements, dots dot scripts]       *)
(*   script  the script text the harness rendered (lines)                  *)
(*   obs     what the real shell showed: outcome, status, out, err,        *)
(*           files, reached (the final `snap` ran), vars, xt, vb           *)
(* A record is accepted iff the scenario is well-formed and its script is   *)
(* the one XTrace!Script gives (otherwise the harness is wrong: verdicts    *)
(* "illformed" / "render", tool errors) and the observation agrees with    *)
(* one of the outcomes XTrace!Alts allows.  Scenarios of class "open" /    *)
(* "skip" must merely have terminated.                                     *)
(*                                                                         *)
(* The records are independent: the "behaviour" is a binary splitting of   *)
(* the index range (all TLC workers share the work); the invariant judges  *)
(* the record at every leaf and prints one JSON line per record that is    *)
(* not plainly accepted.                                                   *)
(***************************************************************************)
EXTENDS XTrace, Json, IOUtils

Rec == ndJsonDeserialize(IOEnv.TRACE)
N == Len(Rec)

VARIABLES lo, hi
vars == <<lo, hi>>

Init == lo = 1 /\ hi = N
Next == /\ lo < hi
        /\ LET mid == (lo + hi) \div 2
           IN \/ lo' = lo /\ hi' = mid
              \/ lo' = mid + 1 /\ hi' = hi
Spec == Init /\ [][Next]_vars

SameSeq(a, b) == Len(a) = Len(b) /\ \A i \in 1..Len(a) : a[i] = b[i]

FirstBad(sc) == LET I == {i \in 1..Len(sc.prog) : ~StmtOK(sc.prog[i])} IN IF I = {} THEN "dots" ELSE StmtLines(sc.prog[XMin(I)])[1]
Verdict(r) ==
  IF ~ScenarioOK(r.sc) THEN [v |-> "illformed", class |-> "", n |-> 0, why |-> FirstBad(r.sc)]
  ELSE IF ~SameSeq(Script(r.sc), r.script) THEN [v |-> "render", class |-> "", n |-> 0, why |-> ""]
  ELSE LET A == Alts(r.sc)
           cls == IF \E a \in A : a.cls = "skip" THEN "skip" ELSE IF \E a \in A : a.cls = "open" THEN "open" ELSE "ok"
           why == LET B == {a \in A : a.cls = cls} IN (CHOOSE a \in B : TRUE).why
           n == Cardinality(A)
       IN IF r.obs.outcome # "completed" THEN [v |-> "reject", class |-> cls, n |-> n, why |-> "outcome"]
          ELSE IF cls # "ok" THEN [v |-> "open", class |-> cls, n |-> n, why |-> why]
          ELSE IF \E a \in A : Agrees(a, r.obs) THEN [v |-> "ok", class |-> cls, n |-> n, why |-> ""]
          ELSE [v |-> "reject", class |-> cls, n |-> n, why |-> ""]

Judge ==
  (lo = hi /\ N > 0) =>
     LET j == Verdict(Rec[lo])
     IN IF j.v = "ok" /\ j.n = 1 THEN TRUE
        ELSE PrintT(ToJson([i |-> lo, v |-> j.v, class |-> j.class, n |-> j.n, why |-> j.why]))
=============================================================================
