SPECIFICATION Spec
CONSTANTS
  MaxDepth = 4
  Variant = ""
  Fams = {"pos", "vars", "tabfn", "tabmain", "redir", "sub", "ns"}
  LB = 2
  LM = 1
  Wide = {"vars", "tabmain", "redir", "ns"}
  Stepwise = FALSE
INVARIANT Emit
