--------------------------- MODULE Trace_ProcGroups ---------------------------
(***************************************************************************)
(* impl -> spec for G16: every record written by harness/g16 - one run of  *)
(* the real shell on the simulated OS (kind "run": the scenario, then for  *)
(* every scheduling step the process that ran, the probes it executed and  *)
(* the kernel state afterwards, and for every signal the terminal driver   *)
(* sent the kernel state afterwards) or one call-level run of              *)
(* yash_env::subshell::Config / job::tcsetpgrp_* / Env::ensure_foreground  *)
(* over an instrumented kernel (same shape, one event per system call) -   *)
(* must be a behaviour of ProcGroups.                                      *)
(*                                                                         *)
(* Verdict(rec) carries the SET of specification states compatible with    *)
(* the observations so far.  An event "process w ran" is matched by any    *)
(* number of steps of w (the simulated processes are cooperative: between  *)
(* two observations one process runs until it blocks) that ends in a       *)
(* state whose projection equals the observed kernel state and that has    *)
(* recorded exactly the observed probes with the observed values.          *)
(* One line is printed for every record that is not accepted.              *)
(***************************************************************************)
EXTENDS ProcGroups, Json, IOUtils

Rec == ndJsonDeserialize(IOEnv.TRACE)

Depth == 60

\* all states reachable from the states F by at most k steps of process p alone
RECURSIVE Reach(_, _, _, _)
Reach(c, F, p, k) ==
  IF k = 0 \/ F = {} THEN F
  ELSE LET N == UNION {Steps(c, S, p) : S \in F} IN F \cup Reach(c, N \ F, p, k - 1)

SeqSet(s) == {s[k] : k \in DOMAIN s}
ObsSnap(sn) == [fg |-> sn.fg, ps |-> SeqSet(sn.ps)]

\* exit statuses: the documents only say "not zero" where the specification says err
StatusOk(spec, obs) == IF spec = "err" THEN obs # "0" ELSE spec = obs

\* the shell may have learnt of a status change the specification's job
\* table does not show yet (or the other way round): both are allowed
Fresh(Q) == IF Q.st = "Z" THEN "D" ELSE Q.st
JobsOk(T, sj, oj) ==
  /\ {[ld |-> x.ld, jc |-> x.jc] : x \in sj} = {[ld |-> x.ld, jc |-> x.jc] : x \in oj}
  /\ \A x \in oj : \E y \in sj : y.ld = x.ld /\ (x.st = y.st \/ x.st = y.fr)

ProbeOk(T, r) ==
  LET e == T.out[r.tag]
  IN /\ e.who = r.who /\ e.pg = r.pg /\ e.tc = r.tc /\ e.dp = r.dp /\ e.in = r.in
     /\ e.bang = r.bang /\ e.cj = r.cj /\ StatusOk(e.st, r.st)
     /\ JobsOk(T, e.jobs, SeqSet(r.jobs))

CallsOk(c, S, T, e) ==
  ~c.log \/ SubSeq(T.calls, Len(S.calls) + 1, Len(T.calls)) = e.calls

EventOk(S, T, e) ==
  /\ Proj(T) = ObsSnap(e.sn)
  /\ DOMAIN T.out \ DOMAIN S.out = {e.pr[k].tag : k \in DOMAIN e.pr}
  /\ \A k \in DOMAIN e.pr : ProbeOk(T, e.pr[k])

\* the same but for what happened to processes that had already terminated
\* (used only to name the reason of a rejection)
Hide(S, T, ps) == {IF x.n \in DOMAIN S.proc /\ S.proc[x.n].st = "Z" THEN [n |-> x.n] ELSE x : x \in ps}
EventOkButZombies(S, T, e) ==
  /\ T.fg = e.sn.fg
  /\ Hide(S, T, Proj(T).ps) = Hide(S, T, SeqSet(e.sn.ps))
  /\ DOMAIN T.out \ DOMAIN S.out = {e.pr[k].tag : k \in DOMAIN e.pr}
  /\ \A k \in DOMAIN e.pr : ProbeOk(T, e.pr[k])

Succ(c, S, e) ==
  IF e.w = "env"
  THEN (IF TtyEnabled(c, S) /\ c.env[S.ei] = e.sig THEN {TtyStep(c, S)} ELSE {})
  ELSE IF e.w = "outer"
  THEN (IF OuterEnabled(S) THEN {OuterStep(S)} ELSE {})
  ELSE IF e.w \in DOMAIN S.proc THEN Reach(c, {S}, e.w, Depth) ELSE {}

RECURSIVE Fold(_, _, _, _)
Fold(c, ev, k, C) ==
  IF k > Len(ev) THEN [ok |-> TRUE, at |-> k, why |-> "", C |-> C]
  ELSE LET e == ev[k]
           M == UNION {{T \in Succ(c, S, e) : EventOk(S, T, e) /\ CallsOk(c, S, T, e)} : S \in C}
           nocall == \E S \in C : \E T \in Succ(c, S, e) : EventOk(S, T, e)
       IN IF M # {} THEN Fold(c, ev, k + 1, M)
          ELSE LET z == \E S \in C : \E T \in Succ(c, S, e) : EventOkButZombies(S, T, e) /\ CallsOk(c, S, T, e)
               IN [ok |-> FALSE, at |-> k, C |-> C,
                   why |-> IF nocall THEN "the system calls of " \o e.w \o " are not those of the protocol"
                           ELSE IF z THEN "a signal changed the state of a terminated process"
                           ELSE IF e.w = "env" THEN "the effect of a terminal signal is not the specified one"
                           ELSE "step of " \o e.w \o " is not a behaviour of ProcGroups"]

\* the runner of the harness does not make the shell process exit at the end
\* of its input
ShellAtEnd(S) == LET P == S.proc["s"] IN P.st = "R" /\ P.todo = {} /\ P.pc > Len(P.prog)

\* steps of the shell that change nothing an observer sees are not recorded
EndOk(S, T) == /\ ShellDone(S) \/ ShellAtEnd(T)
               /\ ShellDone(S) \/ (Proj(T) = Proj(S) /\ DOMAIN T.out = DOMAIN S.out)

Verdict(rec) ==
  LET c == rec.scn
      f == Fold(c, rec.ev, 1, {InitState(c)})
  IN IF ~f.ok THEN [v |-> "no", at |-> f.at, why |-> f.why]
     ELSE IF rec.outcome = "completed"
          THEN (IF \E S \in f.C : \E T \in Reach(c, {S}, "s", Depth) : EndOk(S, T) THEN [v |-> "ok", at |-> 0, why |-> ""]
                ELSE [v |-> "no", at |-> Len(rec.ev) + 1, why |-> "the run ended but the shell of the specification has not finished"])
     ELSE IF rec.outcome = "deadlock"
          THEN (IF \E S \in f.C : Stuck(c, S) /\ ~TtyEnabled(c, S) /\ ~ShellDone(S) THEN [v |-> "ok", at |-> 0, why |-> ""]
                ELSE [v |-> "no", at |-> Len(rec.ev) + 1, why |-> "the run hangs where the specification goes on"])
     ELSE [v |-> "no", at |-> Len(rec.ev) + 1, why |-> "outcome " \o rec.outcome]

VARIABLE l
TraceInit == l = 1
TraceNext ==
  /\ l <= Len(Rec)
  /\ LET v == Verdict(Rec[l])
     IN IF v.v = "ok" THEN TRUE
        ELSE PrintT(ToJson([line |-> l, v |-> v.v, at |-> v.at, why |-> v.why]))
  /\ l' = l + 1
TraceSpec == TraceInit /\ [][TraceNext]_l
=============================================================================
