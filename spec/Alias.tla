------------------------------- MODULE Alias -------------------------------
(***************************************************************************)
(* Alias substitution (property C17), written from POSIX.1-2024 XCU 2.3.1  *)
(* "Alias Substitution" and /repo/docs/src/language/aliases.md -- not from *)
(* the parser's code.                                                      *)
(*                                                                         *)
(* The model is token level.  A command line is a sequence of tokens that  *)
(* are separated by blanks in the source text (so no token is ever formed  *)
(* partly from replacement text and partly from the text that follows it;  *)
(* XCU 2.3.1 leaves that case unspecified).  An alias value is a sequence  *)
(* of tokens plus the flag "the value ends with a <blank>".                *)
(*                                                                         *)
(*   rem   tokens not yet categorised, each with the chain of aliases it   *)
(*         results from (outermost first) and the flag `ab`: "this token   *)
(*         is the next token after an alias value that ended in a blank"   *)
(*   out   tokens already categorised (the "by hand" text being built)     *)
(*   ctx   what the next token can be, from the tokens that precede it     *)
(*                                                                         *)
(* XCU 2.3.1: a TOKEN is subject to alias substitution iff it contains no  *)
(* quoting, an alias of that name is in effect, it did not result from a   *)
(* substitution of the same alias at an earlier recursion level, and       *)
(* either it could be parsed as the command name word of a simple command  *)
(* given the tokens that precede it, or it is the next token after an      *)
(* alias value that ended in a <blank>.  (yash: ... or the alias is a      *)
(* global alias.)  The value is then processed as if it had been read      *)
(* instead of the TOKEN, token recognition resuming at its start, so       *)
(* reserved words, operators and redirections in it are recognised.        *)
(***************************************************************************)
EXTENDS Integers, Sequences, FiniteSets, TLC, Json

-----------------------------------------------------------------------------
\* Token classes.  Every other string is an ordinary word.  Quoted words are
\* written with their quotes ("'a'") or symbolically ("BSa" stands for \a,
\* "LC" for a backslash-newline pair); they never name an alias because
\* alias names looked up by the model contain no quoting.

\* "NL" is the <newline> token: like `;` it is followed by the start of a
\* command; where the grammar has `linebreak` (after `&&`, `||`, `|`, an opening
\* reserved word) it continues the command instead of ending it (XCU 2.10.2) -
\* which of the two is the business of the grammar, that is of the parse of the
\* text obtained by hand; for substitution only the position it opens matters.
SepToks    == {";", "|", "&&", "||", "&", "NL"}    \* the next token starts a command
RedirToks  == {">", "<", ">>"}                      \* the next token is the operand
KwOpen     == {"!", "{", "if", "then", "else", "elif", "while", "until", "do"}
KwClose    == {"}", "fi", "done"}
Keywords   == KwOpen \cup KwClose
AssignToks == {"v=a", "v=b", "v=c", "v=d", "v=1"}   \* NAME=value words
LC         == "LC"                                  \* removed before tokenising (XCU 2.2.1)

\* Contexts:
\*  C0  start of a command: reserved words are recognised, a word is the command name
\*  C1  after an assignment word or redirection of a simple command that has
\*      no command name yet: a word is still the command name
\*  A   after the command name: words are arguments
\*  R1 / RA / RX  operand of a redirection; afterwards C1 / A / X
\*  X   after a complete compound command: only redirections or separators may follow
CmdPos(c) == c \in {"C0", "C1"}

NextCtx(c, t) ==
  IF t \in SepToks THEN "C0"
  ELSE IF t \in RedirToks
       THEN (CASE c = "C0" -> "R1" [] c = "C1" -> "R1" [] c = "A" -> "RA" [] c = "X" -> "RX" [] OTHER -> c)
  ELSE CASE c = "R1" -> "C1"
         [] c = "RA" -> "A"
         [] c = "RX" -> "X"
         [] c = "C0" -> (IF t \in KwOpen THEN "C0"
                         ELSE IF t \in KwClose THEN "X"
                         ELSE IF t \in AssignToks THEN "C1" ELSE "A")
         [] c = "C1" -> (IF t \in AssignToks THEN "C1" ELSE "A")
         [] c = "A"  -> "A"
         [] OTHER    -> "X"

\* "s": operator or recognised reserved word; "w": a word of the command
\* (command name, argument, assignment word, redirection operand)
Kind(c, t) == IF t \in SepToks \cup RedirToks THEN "s"
              ELSE IF c = "C0" /\ t \in Keywords THEN "s" ELSE "w"

-----------------------------------------------------------------------------
\* Alias tables: tb \in [some set of names -> [toks, bl, g]]
\*   toks  the tokens of the value,  bl  the value ends with a blank,
\*   g     global alias (yash extension)

IsName(tb, t)   == t \in DOMAIN tb
InChain(o, n)   == \E i \in 1..Len(o) : o[i] = n
Candidate(tb, e) == IsName(tb, e.t) /\ ~InChain(e.o, e.t)

\* XCU 2.3.1, the five conditions
Eligible(tb, e, c) ==
  /\ Candidate(tb, e)
  /\ c # "X"
  /\ (CmdPos(c) \/ e.ab \/ tb[e.t].g)

\* Where neither POSIX nor the manual decides, the case is marked and the
\* conformance step skips it:
\*  - a reserved word where a command name is expected after an assignment
\*    or redirection, or directly after a compound command;
\*  - a global alias / continued substitution directly after a compound command.
Unspecified(tb, e, c) ==
  \/ e.t \in Keywords /\ c \in {"C1", "X"}
  \/ c = "X" /\ Candidate(tb, e) /\ (e.ab \/ tb[e.t].g)

Entry(t, o, ab) == [t |-> t, o |-> o, ab |-> ab]

InitSt(line) ==
  LET l == SelectSeq(line, LAMBDA t : t # LC)
  IN [rem |-> [i \in 1..Len(l) |-> Entry(l[i], <<>>, FALSE)],
      out |-> <<>>, ctx |-> "C0", amb |-> FALSE, unspec |-> FALSE,
      seen |-> {l[i] : i \in 1..Len(l)}]

Done(s) == s.rem = <<>>

\* The token is categorised as it stands and becomes part of the result.
AcceptOf(tb, s) ==
  LET e == Head(s.rem)
  IN [s EXCEPT !.rem = Tail(@),
               !.out = Append(@, [t |-> e.t, o |-> e.o, k |-> Kind(s.ctx, e.t)]),
               !.ctx = NextCtx(s.ctx, e.t),
               !.unspec = (@ \/ Unspecified(tb, e, s.ctx))]

\* The token is replaced by the alias value, which is then read instead of it
\* (so `ctx` is unchanged).  The first token of the value follows whatever the
\* replaced token followed; if the value ends in a blank the token after the
\* value is the "next token in the input" that shall be checked.
\* One point is open: when a token that is being checked because of a
\* preceding blank-ending value is itself replaced by an EMPTY value, the
\* text does not say whether the token after it is now "the next token"
\* after that preceding value (its own value does not end in a blank, so
\* "the process" could also be read to stop).  Both outcomes are allowed.
PassMatters(tb, nx, c) == ~nx.ab /\ Candidate(tb, nx) /\ ~CmdPos(c) /\ c # "X" /\ ~tb[nx.t].g

SubstSet(tb, s) ==
  LET e    == Head(s.rem)
      al   == tb[e.t]
      k    == Len(al.toks)
      o2   == Append(e.o, e.t)
      new  == [j \in 1..k |-> Entry(al.toks[j], o2, j = 1 /\ e.ab)]
      rest == Tail(s.rem)
      open == k = 0 /\ e.ab /\ ~al.bl /\ rest # <<>> /\ PassMatters(tb, rest[1], s.ctx)
      pass == IF open THEN {TRUE, FALSE} ELSE {FALSE}
      Rest(p) == IF rest = <<>> THEN rest
                 ELSE <<[rest[1] EXCEPT !.ab = (@ \/ al.bl \/ p)]>> \o Tail(rest)
  IN { [s EXCEPT !.rem = new \o Rest(p),
                 !.amb = (@ \/ open),
                 !.seen = @ \cup {al.toks[j] : j \in 1..k}] : p \in pass }

Step(tb, s) ==
  IF Done(s) THEN {}
  ELSE IF Eligible(tb, Head(s.rem), s.ctx) THEN SubstSet(tb, s) ELSE {AcceptOf(tb, s)}

\* Result(table, line): the set of allowed final states; `out` is the token
\* sequence obtained by performing the substitutions by hand.  A singleton
\* except for the open point above.
RECURSIVE Finals(_, _)
Finals(tb, s) == IF Done(s) THEN {s} ELSE UNION {Finals(tb, n) : n \in Step(tb, s)}
Result(tb, line) == Finals(tb, InitSt(line))

OutToks(s)  == [i \in 1..Len(s.out) |-> s.out[i].t]
OutWords(s) == SelectSeq(s.out, LAMBDA x : x.k = "w")

-----------------------------------------------------------------------------
\* Termination measure.  Replacing a token whose chain lacks k of the table's
\* names yields at most MaxVal tokens whose chains lack k-1 names.
RECURSIVE Pow(_, _)
Pow(b, n) == IF n = 0 THEN 1 ELSE b * Pow(b, n - 1)
RECURSIVE SumSeq(_)
SumSeq(q) == IF q = <<>> THEN 0 ELSE Head(q) + SumSeq(Tail(q))
ChainSet(o) == {o[i] : i \in 1..Len(o)}
MaxVal(tb) == LET L == {Len(tb[n].toks) : n \in DOMAIN tb} \cup {1}
              IN CHOOSE m \in L : \A x \in L : x <= m
Variant(tb, s) ==
  SumSeq([i \in 1..Len(s.rem) |->
            Pow(MaxVal(tb) + 1, Cardinality(DOMAIN tb \ ChainSet(s.rem[i].o)))])

NoDup(o) == \A i, j \in 1..Len(o) : i # j => o[i] # o[j]

-----------------------------------------------------------------------------
\* Bounded model: all tables over NameSeq with values from the property's
\* value set, crossed with a family of lines.

CONSTANTS NameSeq,      \* e.g. <<"a", "b", "c">>
          GlobalNames,  \* names that are global aliases when defined
          LineFam,      \* which family of lines (see Lines)
          Prune         \* TRUE: only (table, line) pairs in which every defined alias can occur (see Reach)

NameSeq3 == <<"a", "b", "c">>          \* cfg files cannot write tuples
NameSeq4 == <<"a", "b", "c", "d">>

N     == Len(NameSeq)
Names == {NameSeq[i] : i \in 1..N}
NV    == 2 * N + 8       \* 2N+7: the empty value; 2N+8: a value that is one blank

\* value number v for an alias;  0 = not defined
ValToks(v) == IF v <= N THEN <<NameSeq[v]>>
              ELSE IF v <= 2 * N THEN <<NameSeq[v - N]>>
              ELSE CASE v = 2 * N + 1 -> <<"!">>
                     [] v = 2 * N + 2 -> <<"{">>
                     [] v = 2 * N + 3 -> <<"if">>
                     [] v = 2 * N + 4 -> <<"|">>
                     [] v = 2 * N + 5 -> <<">", "f">>
                     [] v = 2 * N + 6 -> <<"'q'">>
                     [] OTHER         -> <<>>
ValBlank(v) == (v > N /\ v <= 2 * N) \/ v = 2 * N + 1 \/ v = 2 * N + 8

TableOf(f) == [n \in {m \in Names : f[m] # 0} |->
                 [toks |-> ValToks(f[n]), bl |-> ValBlank(f[n]), g |-> n \in GlobalNames]]
Tables == {TableOf(f) : f \in [Names -> 0..NV]}

Cat3(P, C, S) == {p \o c \o s : p \in P, c \in C, s \in S}

\* Prefixes put the core in: command position, argument position, after an
\* assignment word, after a redirection (whose operand is a name), after
\* reserved words, after operators, after a quoted name, as the operand of a
\* redirection, after another alias and a line continuation.
Pres == { <<>>, <<"x">>, <<"v=a">>, <<">", "b">>, <<"!">>, <<"{">>, <<"if">>,
          <<"x", "|">>, <<"x", ";">>, <<"x", "&&">>, <<"BSa">>, <<"'a'">>, <<"x", ">">>,
          <<"a", LC>> }
CoresSmall == { <<"a">>, <<"a", "b">>, <<"a", "b", "c">> }
Cores == CoresSmall \cup
         { <<"a", "a">>, <<"a", "BSb", "c">>, <<"a", ">", "b", "c">>, <<"a", "v=b", "c">>,
           <<"a", LC, "b">>, <<"a", "|", "b">>, <<"a", ";", "b">>, <<"a", "b", "a">>,
           <<"b", "a", "c">> }
SufGroup == { <<";", "}">> }
SufIf    == { <<";", "then", "c", ";", "fi">> }
Sufs     == { <<>>, <<"|", "c">> } \cup SufGroup \cup SufIf

LinesQ ==
  Cat3(Pres, CoresSmall, {<<>>})
  \cup Cat3({<<>>, <<"x">>}, Cores, {<<>>})
  \cup Cat3({<<>>, <<"{">>}, {<<"a", "b">>, <<"a", "x">>, <<"a", "b", "c">>}, SufGroup)
  \cup Cat3({<<>>, <<"if">>}, {<<"a", "b">>, <<"a", "x">>}, SufIf)
  \cup Cat3({<<>>}, {<<"a", "b">>}, {<<"|", "c">>})

\* lines for tables in which "c" is a global alias
LinesG ==
  { <<"c">>, <<"x", "c">>, <<"x", "c", "b">>, <<"x", "a", "c">>, <<"a", "c", "b">>, <<"a", "c">>,
    <<"x", ">", "c">>, <<"x", ">", "c", "a">>, <<">", "c", "a">>, <<"x", "'c'">>, <<"x", "BSc">>,
    <<"x", "v=c">>, <<"v=c", "c">>, <<"!", "x", "c">>, <<"x", "|", "x", "c">>,
    <<"{", "x", "c", ";", "}">>, <<"{", "x", ";", "c">>, <<"if", "x", "c", ";", "then", "x", ";", "fi">>,
    <<"x", LC, "c", "a">>, <<"x", "c", LC, "a">>, <<"c", LC, "a", LC, "b">>, <<"x", "c", "c">>, <<"x", "b", "c", "a">> }

\* (closing a group / an if only where it can make the line well formed)
LinesT == Cat3(Pres, Cores, {<<>>, <<"|", "c">>})
          \cup Cat3({<<>>, <<"{">>}, Cores, SufGroup)
          \cup Cat3({<<>>, <<"if">>}, Cores, SufIf)

\* lines that use a fourth name
Lines4 ==
  { <<"a">>, <<"a", "b">>, <<"a", "b", "c">>, <<"a", "b", "c", "d">>, <<"x", "a", "b">>,
    <<"a", "d">>, <<"d", "c", "b", "a">>, <<"a", "a", "d", "d">>, <<"{", "a", "b", "c", "d", ";", "}">>,
    <<"a", "b", ";", "then", "c", "d", ";", "fi">>, <<"a", ">", "b", "c", "d">>, <<"!", "a", "b", "|", "c", "d">> }

LinesL == { <<"a">>, <<"a", "b">>, <<"a", "b", "c">>, <<"x", "a", "b">>, <<"a", "b", "a">>,
            <<"a", "b", ";", "}">>, <<"a", ">", "b", "c">> }

\* lines that go on after a <newline>: an alias in the last position of the first
\* physical line whose value is empty, a blank only, a name with a trailing blank,
\* an operator or a reserved word - after `&&`, `||`, `|`, `!`, `if`, `{`, `;` and
\* at the start.  The text obtained by hand then has a linebreak (or a command
\* terminator) where the alias stood, and the next physical line must be read
\* exactly as it is read there.
LinesNT ==
  Cat3({<<>>, <<"x", "&&">>, <<"x", "||">>, <<"x", "|">>, <<"!">>, <<"if">>, <<"{">>, <<"x", ";">>, <<"x">>},
       {<<"a">>, <<"a", "b">>}, {<<"NL", "c">>, <<"NL", "b", "c">>})
  \cup Cat3({<<"x", "&&">>, <<"x", "|">>}, {<<"a">>, <<"a", "b">>}, {<<"NL", "b", "NL", "c">>, <<"NL", "NL", "c">>})
  \cup { <<"if", "x", "NL", "then", "a", "NL", "fi">>, <<"{", "a", "NL", "}">>, <<"{", "a", "NL", "b", ";", "}">>,
         <<"x", "NL", "a", "NL", "a", "b">>, <<"x", "&&", "a", "NL", "a", "NL", "c">> }
\* (the quick tier's share)
LinesN ==
  Cat3({<<>>, <<"x", "&&">>, <<"x", "||">>, <<"x", "|">>, <<"!">>, <<"{">>}, {<<"a">>}, {<<"NL", "c">>, <<"NL", "b", "c">>})
  \cup { <<"x", "&&", "a", "b", "NL", "c">>, <<"x", "&&", "a", "NL", "NL", "c">>, <<"x", "||", "a", "NL", "a", "NL", "c">> }

Lines == CASE LineFam = "q" -> LinesQ
           [] LineFam = "n" -> LinesN
           [] LineFam = "nt" -> LinesNT
           [] LineFam = "g" -> LinesG
           [] LineFam = "t" -> LinesT
           [] LineFam = "4" -> Lines4
           [] LineFam = "l" -> LinesL

VARIABLES tb, line, st
vars == <<tb, line, st>>

\* Names that can occur as a token while `line` is processed with `tb` (an
\* over-approximation: closure of the line's tokens under "value of").  An
\* alias outside it cannot influence the processing, so with Prune such
\* (table, line) pairs are represented by the table without that alias.
RECURSIVE Reach(_, _, _)
Reach(t, S, n) == IF n = 0 THEN S
                  ELSE Reach(t, S \cup UNION {{t[m].toks[j] : j \in 1..Len(t[m].toks)} : m \in S \cap DOMAIN t}, n - 1)
\* tokens of the line, plus the names that occur in it quoted or in an
\* assignment word (these must NOT be substituted: keep the alias defined)
Deco(n) == {"'" \o n \o "'", "BS" \o n, "v=" \o n}
LineToks(l) == {l[i] : i \in 1..Len(l)} \cup {n \in Names : \E i \in 1..Len(l) : l[i] \in Deco(n)}

Init == /\ tb \in Tables
        /\ line \in Lines
        /\ Prune => DOMAIN tb \subseteq Reach(tb, LineToks(line), N)
        /\ st = InitSt(line)

Subst  == /\ ~Done(st)
          /\ Eligible(tb, Head(st.rem), st.ctx)
          /\ st' \in SubstSet(tb, st)
          /\ UNCHANGED <<tb, line>>

Accept == /\ ~Done(st)
          /\ ~Eligible(tb, Head(st.rem), st.ctx)
          /\ st' = AcceptOf(tb, st)
          /\ UNCHANGED <<tb, line>>

Next == Subst \/ Accept

Spec     == Init /\ [][Next]_vars
LiveSpec == Spec /\ WF_vars(Next)

-----------------------------------------------------------------------------
\* Properties of the specification

\* alias substitution terminates
Terminates == <>Done(st)
\* ... because every step decreases a natural-number measure
VariantDecreases == [][Variant(tb, st') < Variant(tb, st)]_vars
VariantNat == Variant(tb, st) >= 0

\* no name is substituted inside its own replacement
NoSelfNesting ==
  /\ \A i \in 1..Len(st.rem) : NoDup(st.rem[i].o)
  /\ \A i \in 1..Len(st.out) : NoDup(st.out[i].o)

\* every token of the result that came out of an alias is in the value of the
\* innermost alias of its chain, and chains only name defined aliases
ChainsSound ==
  \A i \in 1..Len(st.out) :
    LET e == st.out[i]
    IN /\ \A j \in 1..Len(e.o) : e.o[j] \in DOMAIN tb
       /\ e.o # <<>> => \E j \in 1..Len(tb[e.o[Len(e.o)]].toks) : tb[e.o[Len(e.o)]].toks[j] = e.t

\* determinism: one successor, except at the open point
Deterministic == LET S == Step(tb, st)
                 IN Cardinality(S) <= 1 \/ (Cardinality(S) = 2 /\ \A n \in S : n.amb)

\* the recursive definition and the state machine agree, and the result is
\* unique unless the open point was met
FinalsAgree ==
  Done(st) => /\ st \in Result(tb, line)
              /\ (\A r \in Result(tb, line) : ~r.amb) => Cardinality(Result(tb, line)) = 1

\* nothing is replaced that is quoted, an operator, a reserved word or an
\* assignment word; nothing in argument position is replaced unless it follows
\* a blank-ending value or is global
OnlyEligibleReplaced ==
  [][ (Len(st'.out) = Len(st.out)) =>
        LET e == Head(st.rem)
        IN /\ e.t \in DOMAIN tb
           /\ e.t \notin SepToks \cup RedirToks \cup Keywords \cup AssignToks
           /\ (CmdPos(st.ctx) \/ e.ab \/ tb[e.t].g) ]_vars

-----------------------------------------------------------------------------
\* Generator: one JSON line per final state (spec -> implementation)
Relevant == ~Prune \/ DOMAIN tb \subseteq st.seen \cup LineToks(line)

Emit == IF Done(st) /\ Relevant
        THEN PrintT(ToJson([tb |-> tb, line |-> line, out |-> st.out,
                            amb |-> st.amb, unspec |-> st.unspec]))
        ELSE TRUE
=============================================================================
