SPECIFICATION TraceSpec
CONSTANTS
  Theme = "trace"
  MaxFd = 9
  MaxLen = 24
  MaxPipe = 3
  MaxH = 0
POSTCONDITION Consumed
CHECK_DEADLOCK FALSE
