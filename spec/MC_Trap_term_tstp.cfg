SPECIFICATION Spec
CONSTANTS
  Sigs = {"TERM", "TSTP"}
  WithExit = FALSE
  MaxH = 100
VIEW view
INVARIANT Consistent
INVARIANT EmitState
PROPERTY ExactlyOnce
PROPERTY InitiallyIgnoredRefused
