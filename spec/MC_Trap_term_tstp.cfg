SPECIFICATION Spec
CONSTANTS
  Sigs = {"TERM", "TSTP"}
  WithExit = FALSE
  MaxH = 100
  UniformInit = FALSE
  InitVals = {"D", "I"}
VIEW view
INVARIANT Consistent
INVARIANT EmitState
PROPERTY ExactlyOnce
PROPERTY InitiallyIgnoredRefused
