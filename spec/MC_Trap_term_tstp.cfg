SPECIFICATION Spec
CONSTANTS
  Sigs = {"TERM", "TSTP"}
  WithExit = FALSE
  MaxH = 100
  UniformInit = FALSE
VIEW view
INVARIANT Consistent
INVARIANT EmitState
PROPERTY ExactlyOnce
PROPERTY InitiallyIgnoredRefused
