SPECIFICATION Spec
CONSTANTS
  Cfg = "resv"
  Bug = "none"
  Sim = TRUE
INVARIANT TypeOK
INVARIANT InternalInv
INVARIANT Conforms
INVARIANT Emit
