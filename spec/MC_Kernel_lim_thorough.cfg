\* P1 + P2 generator, theme "lim", thorough tier: every distinct state reachable by
\* <= 4 calls of the theme's alphabet, and the result of every call in each
\* of them (sequences of <= 5 calls).
SPECIFICATION Spec
CONSTANTS
  Theme = "lim"
  MaxFd = 6
  MaxLen = 6
  MaxPipe = 2
  MaxH = 4
VIEW view
CONSTRAINT Bounded
INVARIANT TypeOK
INVARIANT NoDanglingOfd
INVARIANT TreeClosed
INVARIANT NoIgnoredPending
INVARIANT EmitBounded
