-------------------------- MODULE Trace_NestedExec --------------------------
(***************************************************************************)
(* impl -> spec for G07: records {p, e, t, oc, tr, st} produced by         *)
(* executing seeded random programs on the real shell are judged against   *)
(* the specification: TLC evaluates the interpreter of NestedExec.tla on   *)
(* the recorded program and run options and requires the recorded outcome  *)
(* to be the one the specification prescribes.  Programs the specification *)
(* classifies as unspecified or diverging are accepted whatever was        *)
(* observed (and counted).  One JSON line is printed per record that is    *)
(* skipped or rejected; the judge never stops at a rejection.              *)
(***************************************************************************)
EXTENDS NestedExec, Json, IOUtils

Rec == ndJsonDeserialize(IOEnv.TRACE)

VARIABLE l
vars == <<l>>

\* Symbolic statuses (<= -10) stand for "a non-zero status POSIX only bounds":
\* each is bound consistently to one observed value in 1..255.
Unify(etr, est, otr, ost) ==
  LET E == Append(etr, <<-1, est>>)
      O == Append(otr, <<-1, ost>>)
  IN /\ Len(E) = Len(O)
     /\ \A i \in 1..Len(E) :
          /\ E[i][1] = O[i][1]
          /\ IF E[i][2] <= -10 THEN O[i][2] \in 1..255 ELSE E[i][2] = O[i][2]
     /\ \A i, j \in 1..Len(E) : (E[i][2] <= -10 /\ E[i][2] = E[j][2]) => O[i][2] = O[j][2]

RECURSIVE SetToSeq(_)
SetToSeq(S) == IF S = {} THEN <<>> ELSE LET x == CHOOSE y \in S : TRUE IN <<x>> \o SetToSeq(S \ {x})

Judge(r, i) ==
  LET R == Run(Parse(r.p), [e |-> r.e, t |-> r.t])
  IN IF R.oc # "ok" THEN PrintT(ToJson([skip |-> R.oc, i |-> i]))
     ELSE IF r.oc = "completed" /\ Unify(R.tr, R.st, r.tr, r.st)
          THEN PrintT(ToJson([ok |-> i, tg |-> SetToSeq(R.tg), n |-> Len(R.tr)]))
     ELSE \* rejected: say what the specification prescribes
          PrintT(ToJson([reject |-> i, tr |-> R.tr, st |-> R.st, x |-> R.x, tg |-> SetToSeq(R.tg)]))

TraceInit == l = 1

TraceNext ==
  /\ l <= Len(Rec)
  /\ Judge(Rec[l], l)
  /\ l' = l + 1

TraceSpec == TraceInit /\ [][TraceNext]_vars

\* every record was judged
Complete == TLCGet("stats").diameter - 1 = Len(Rec)
=============================================================================
