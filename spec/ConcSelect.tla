----------------------------- MODULE ConcSelect -----------------------------
(***************************************************************************)
(* G17 - the select protocol of `Concurrent<S>` (yash-env): how many       *)
(* possibly blocking tasks (reads, writes, timers, signal waits) share one *)
(* thread and ONE blocking select call.                                    *)
(*                                                                         *)
(* Written from the documented contract, not from the code:                *)
(*   - doc comments of yash_env::system::concurrency (Concurrent, Read /   *)
(*     Write for Rc<Concurrent>, Sleep, WaitForSignals, Select::{peek,     *)
(*     select}, SignalSystem::set_disposition, RunLoop) and of             *)
(*     yash_env::system::Select::select (the inner call), waker::WakerSet  *)
(*     and ScheduledWakerQueue;                                            *)
(*   - POSIX.1-2024 XSH pselect()/select() (readiness, timeout, the signal *)
(*     mask is swapped and restored atomically, EINTR, EBADF, fd sets      *)
(*     unmodified on error), read()/write() with O_NONBLOCK on pipes       *)
(*     (EAGAIN, atomic writes of <= PIPE_BUF bytes, partial larger writes, *)
(*     EOF, EPIPE), sigprocmask()/sigaction() (a blocked signal stays      *)
(*     pending and is delivered when unblocked).                           *)
(*                                                                         *)
(* The world (the system under the wrapper): pipes p with occupancy in     *)
(* units of PIPE_BUF bytes (capacity Cap units), the descriptors RFd(p) =  *)
(* 2p+1 and WFd(p) = 2p+2, a clock, per signal a disposition, the blocked  *)
(* and pending sets and the list of caught signals the system keeps until  *)
(* it is taken.                                                            *)
(* The wrapper: descriptors with read / write registrations (rkeys/wkeys), *)
(* per task its one live registration reg[t] (read fd, write fd, timer     *)
(* with deadline, signal wait), the select mask (smset, sm).  Registrations*)
(* of dropped futures are dead: they wake nobody, but their descriptor     *)
(* stays a key until it is reported ready (allowed, see SelBegin).         *)
(* Tasks are lazy scripts: the polled task chooses its next operation.     *)
(*                                                                         *)
(* One action per critical section.  External events (another process      *)
(* writing / draining / closing a pipe end, a signal being sent, time      *)
(* passing) may happen between any two critical sections:                  *)
(*   between a system call that returned EAGAIN and the registration of    *)
(*   the waker (stage "park"); between blocking a signal and installing    *)
(*   its handler (stage "d2"); between computing the select arguments and  *)
(*   the call (sel = "ent"); while select blocks (sel = "wait"); between   *)
(*   its return and the wake-ups (sel = "ret"); between polls.             *)
(*                                                                         *)
(* Every step appends the events it produces to `ev` (and to the history   *)
(* `h` when Hist); the vocabulary is the one harness/g17 records from the  *)
(* real code, so a history is both a script for the replay (spec -> impl)  *)
(* and the format of recorded traces (impl -> spec, Trace_ConcSelect).     *)
(* Event = <<e, t, a, b, r, x, y, z, w>>; w is the projection of the world *)
(* after the step (only on the last event of a step).                      *)
(***************************************************************************)
EXTENDS Integers, Sequences, FiniteSets, TLC

CONSTANTS NT,       \* tasks 1..NT
          NP,       \* pipes 1..NP
          NS,       \* signals 1..NS
          Cap,      \* pipe capacity in units (PIPE_SIZE / PIPE_BUF)
          MaxNow,   \* clock bound
          Budget,   \* operations per task
          MaxExt,   \* external events per behaviour
          MaxSel,   \* select / peek calls per behaviour
          MaxSpur,  \* polls of tasks nobody woke
          Ops,      \* operations a task may begin
          Exts,     \* external events
          Base0,    \* signals blocked when the wrapper is created
          Variant,  \* "ok", or the name of a wrong variant (negative configurations)
          Hist,     \* "off": no events; "ev": the events of the last step; "on": also the history
          Loop,     \* run-loop discipline: select only when no task is runnable
          Peek,     \* peek() allowed
          Sym       \* symmetry reduction: tasks are first polled in the order of their numbers

VARIABLES occ, open, nb0, now, disp, blk, pnd, cgt, base, \* the world
          rkeys, wkeys, smset, sm, tch,                   \* the wrapper
          ts, pc, opr, stg, reg, wleft, got,              \* the tasks
          cur, sel, sp, sr, saved, idl, oc,               \* the loop and the select call in progress
          xn, sn, spn,                                    \* budgets
          ev, h

wv == <<occ, open, nb0, now, disp, blk, pnd, cgt, base>>
kv == <<rkeys, wkeys, smset, sm, tch>>
tv == <<ts, pc, opr, stg, reg, wleft, got>>
lv == <<cur, sel, sp, sr, saved, idl, oc>>
bv == <<xn, sn, spn>>
vars == <<wv, kv, tv, lv, bv, ev, h>>
view == <<wv, kv, tv, lv, bv>>

Tasks == 1 .. NT
Pipes == 1 .. NP
Sigs  == 1 .. NS
RFd(p) == 2 * p + 1
WFd(p) == 2 * p + 2
Fds == 3 .. (2 * NP + 2)
PipeOf(fd) == (fd - 1) \div 2
IsRd(fd) == fd % 2 = 1

NoOp  == [k |-> "-", a |-> 0, b |-> 0]
NoReg == [k |-> "n", a |-> 0]
NoSp  == [rd |-> {}, wr |-> {}, to |-> -1, mk |-> FALSE, mask |-> {}, pk |-> FALSE]
NoSr  == [k |-> "-", rr |-> {}, ww |-> {}]

PMin(a, b) == IF a < b THEN a ELSE b
PMax(a, b) == IF a > b THEN a ELSE b
SMin(S) == CHOOSE x \in S : \A y \in S : x <= y
B(x) == IF x THEN 1 ELSE 0

RECURSIVE SSeq(_)
SSeq(S) == IF S = {} THEN <<>> ELSE LET m == SMin(S) IN <<m>> \o SSeq(S \ {m})

RECURSIVE CsIns(_, _)
CsIns(s, x) == IF s = <<>> THEN <<x>>
             ELSE IF x <= Head(s) THEN <<x>> \o s ELSE <<Head(s)>> \o CsIns(Tail(s), x)
RECURSIVE CsSort(_)
CsSort(s) == IF s = <<>> THEN <<>> ELSE CsIns(CsSort(Tail(s)), Head(s))

RECURSIVE MapSeq(_, _)
MapSeq(s, f) == IF s = <<>> THEN <<>> ELSE <<f[Head(s)]>> \o MapSeq(Tail(s), f)

\* tasks sorted by (key, id)
RECURSIVE SortBy(_, _)
SortBy(S, key) ==
  IF S = {} THEN <<>>
  ELSE LET m == CHOOSE x \in S : \A y \in S : key[x] < key[y] \/ (key[x] = key[y] /\ x <= y)
       IN <<m>> \o SortBy(S \ {m}, key)

-----------------------------------------------------------------------------
\* Events
E(e, t, a, b, r, x, y, z) == <<e, t, a, b, r, x, y, z, <<>> >>

\* "temporarily set the file descriptor to non-blocking mode while performing
\* the operation": a descriptor is non-blocking exactly while an operation of
\* some task on it is in flight, or if it is non-blocking by itself (nb0), and
\* its own mode is what remains afterwards ("preserves the blocking mode")
InFlight(t, fd) == opr[t].k \in {"R", "W", "WA"} /\ opr[t].a = fd /\ ts[t] # "dead"
NbFlag(fd) == open[fd] /\ (nb0[fd] \/ \E t \in Tasks : InFlight(t, fd))

\* what the harness can see of the world after every event
Proj == <<now>> \o [p \in Pipes |-> occ[p]]
        \o [i \in 1 .. (2 * NP) |-> B(open[i + 2])]
        \o [i \in 1 .. (2 * NP) |-> B(NbFlag(i + 2))]
        \o [s \in Sigs |-> B(s \in blk)]
        \o [s \in Sigs |-> B(s \in pnd)]

Emit(s) ==
  /\ ev' = IF Hist = "off" THEN <<>> ELSE [s EXCEPT ![Len(s)] = [@ EXCEPT ![9] = Proj']]
  /\ h' = IF Hist = "on" THEN h \o ev' ELSE h

-----------------------------------------------------------------------------
\* The system under the wrapper (POSIX)

\* read(fd, k units) on a non-blocking pipe end
RdRes(fd, k) ==
  LET p == PipeOf(fd) IN
  IF ~open[fd] THEN [r |-> "EBADF", n |-> 0]
  ELSE IF occ[p] > 0 THEN [r |-> "ok", n |-> PMin(k, occ[p])]
  ELSE IF ~open[WFd(p)] THEN [r |-> "ok", n |-> 0]             \* end of file
  ELSE [r |-> "EAGAIN", n |-> 0]

\* one write(fd, k units) on a non-blocking pipe end holding o units:
\* k = 1 is a write of PIPE_BUF bytes (all or nothing), larger writes are partial
WrRes(fd, k, o) ==
  LET p == PipeOf(fd) room == Cap - o IN
  IF ~open[fd] THEN [r |-> "EBADF", n |-> 0]
  ELSE IF ~open[RFd(p)] THEN [r |-> "EPIPE", n |-> 0]
  ELSE IF room = 0 THEN [r |-> "EAGAIN", n |-> 0]
  ELSE [r |-> "ok", n |-> PMin(k, room)]

\* select readiness
RdReady(fd) == occ[PipeOf(fd)] > 0 \/ ~open[WFd(PipeOf(fd))]
WrReady(fd) == ~open[RFd(PipeOf(fd))] \/ Cap - occ[PipeOf(fd)] >= 1

\* signals of P that are delivered when the mask becomes M: caught ones are
\* appended to the caught list (ascending), ignored ones vanish
CaughtOf(P, M, d) == SelectSeq(SSeq(P \ M), LAMBDA s : d[s] = "Catch")

\* the state of a select call: "EINTR" / "EBADF" / ready sets / timeout / keep waiting
SelCond(intr, deadline) ==
  IF intr THEN [k |-> "EINTR", rr |-> {}, ww |-> {}]
  ELSE IF \E fd \in sp.rd \cup sp.wr : ~open[fd] THEN [k |-> "EBADF", rr |-> {}, ww |-> {}]
  ELSE LET rr == {fd \in sp.rd : RdReady(fd)}
           ww == {fd \in sp.wr : WrReady(fd)}
       IN IF rr \cup ww # {} THEN [k |-> "ok", rr |-> rr, ww |-> ww]
          ELSE IF sp.to = 0 \/ (deadline >= 0 /\ now >= deadline) THEN [k |-> "ok", rr |-> {}, ww |-> {}]
          ELSE [k |-> "wait", rr |-> {}, ww |-> {}]

-----------------------------------------------------------------------------
Init ==
  /\ occ = [p \in Pipes |-> 0]
  /\ open = [fd \in Fds |-> TRUE]
  /\ nb0 = [fd \in Fds |-> FALSE]
  /\ now = 0
  /\ disp = [s \in Sigs |-> "Default"]
  /\ blk = Base0 /\ base = Base0
  /\ pnd = {} /\ cgt = <<>>
  /\ rkeys = {} /\ wkeys = {} /\ smset = FALSE /\ sm = {} /\ tch = {}
  /\ ts = [t \in Tasks |-> "new"]
  /\ pc = [t \in Tasks |-> 0]
  /\ opr = [t \in Tasks |-> NoOp]
  /\ stg = [t \in Tasks |-> "idle"]
  /\ reg = [t \in Tasks |-> NoReg]
  /\ wleft = [t \in Tasks |-> 0]
  /\ got = [t \in Tasks |-> <<>>]
  /\ cur = 0 /\ sel = "no" /\ sp = NoSp /\ sr = NoSr /\ saved = {} /\ idl = -1 /\ oc = 0
  /\ xn = 0 /\ sn = 0 /\ spn = 0
  /\ ev = <<>> /\ h = <<>>

-----------------------------------------------------------------------------
\* The executor polls a task: one that was woken (or is new), or - futures may
\* be polled at any time, run loops re-poll the main task after every select -
\* one that nobody woke.
Poll(t) ==
  /\ cur = 0 /\ sel = "no"
  /\ IF ts[t] = "pend" THEN spn < MaxSpur /\ spn' = spn + 1
     ELSE ts[t] \in {"new", "ready"} /\ spn' = spn
  /\ (Sym /\ ts[t] = "new") => \A u \in 1 .. (t - 1) : ts[u] # "new"
  /\ cur' = t
  /\ ts' = [ts EXCEPT ![t] = "run"]
  /\ UNCHANGED <<wv, kv, pc, opr, stg, reg, wleft, got, sel, sp, sr, saved, idl, oc, xn, sn>>
  /\ Emit(<<E("poll", t, 0, 0, "", <<>>, <<>>, <<>>)>>)

\* the operation of t is complete: back between operations, still being polled
Done(t) ==
  /\ pc' = [pc EXCEPT ![t] = @ + 1]
  /\ opr' = [opr EXCEPT ![t] = NoOp]
  /\ stg' = [stg EXCEPT ![t] = "idle"]
  /\ reg' = [reg EXCEPT ![t] = NoReg]
  /\ wleft' = [wleft EXCEPT ![t] = 0]

\* ---- read / write ------------------------------------------------------
\* the attempts of one poll: <<events, occupancy, units left, status>>
RECURSIVE WrGo(_, _, _, _, _)
WrGo(t, fd, k, o, all) ==
  IF k = 0 THEN [evs |-> <<>>, o |-> o, left |-> 0, st |-> "ok"]
  ELSE LET r == WrRes(fd, k, o) IN
       IF r.r # "ok" THEN [evs |-> <<E("wr", t, fd, k, r.r, <<0>>, <<>>, <<>>)>>, o |-> o, left |-> k, st |-> r.r]
       ELSE IF all
            THEN LET m == WrGo(t, fd, k - r.n, o + r.n, all)
                 IN [evs |-> <<E("wr", t, fd, k, "ok", <<r.n>>, <<>>, <<>>)>> \o m.evs, o |-> m.o, left |-> m.left, st |-> m.st]
            ELSE [evs |-> <<E("wr", t, fd, k, "ok", <<r.n>>, <<>>, <<>>)>>, o |-> o + r.n, left |-> k - r.n, st |-> "ok"]

\* first = TRUE: the task begins the operation `op`; else it retries after a poll
IO(t, op, first) ==
  LET fd == op.a
      p == PipeOf(fd)
      pre == IF first THEN <<E("op", t, op.a, op.b, op.k, <<>>, <<>>, <<>>)>> ELSE <<>>
  IN
  /\ cur = t
  /\ IF first THEN stg[t] = "idle" /\ pc[t] < Budget /\ op \in Ops ELSE stg[t] = "io" /\ op = opr[t]
  /\ UNCHANGED <<kv, ts, got, lv, bv>>
  /\ IF op.k = "R"
     THEN LET r == RdRes(fd, op.b) IN
          /\ occ' = IF r.r = "ok" THEN [occ EXCEPT ![p] = @ - r.n] ELSE occ
          /\ IF r.r = "EAGAIN"
             THEN /\ opr' = [opr EXCEPT ![t] = op]
                  /\ stg' = [stg EXCEPT ![t] = IF first THEN "park" ELSE "park2"]
                  /\ UNCHANGED <<pc, reg, wleft>>
                  /\ UNCHANGED <<open, now, disp, blk, pnd, cgt, base, nb0>>
                  /\ Emit(pre \o <<E("rd", t, fd, op.b, "EAGAIN", <<0>>, <<>>, <<>>)>>)
             ELSE /\ Done(t)
                  /\ UNCHANGED <<open, now, disp, blk, pnd, cgt, base, nb0>>
                  /\ Emit(pre \o <<E("rd", t, fd, op.b, r.r, <<r.n>>, <<>>, <<>>),
                                   E("res", t, r.n, 0, r.r, <<>>, <<>>, <<>>)>>)
     ELSE LET k == IF first THEN op.b ELSE wleft[t]
              g == WrGo(t, fd, k, IF open[fd] THEN occ[p] ELSE 0, op.k = "WA")
              fin == g.st # "EAGAIN" /\ (g.st # "ok" \/ op.k = "W" \/ g.left = 0)
          IN
          /\ occ' = IF open[fd] THEN [occ EXCEPT ![p] = g.o] ELSE occ
          /\ UNCHANGED <<open, now, disp, blk, pnd, cgt, base, nb0>>
          /\ IF fin
             THEN /\ Done(t)
                  /\ Emit(pre \o g.evs \o <<E("res", t, IF op.k = "W" THEN k - g.left ELSE 0, 0, g.st, <<>>, <<>>, <<>>)>>)
             ELSE /\ opr' = [opr EXCEPT ![t] = op]
                  /\ stg' = [stg EXCEPT ![t] = IF first THEN "park" ELSE "park2"]
                  /\ wleft' = [wleft EXCEPT ![t] = g.left]
                  /\ UNCHANGED <<pc, reg>>
                  /\ Emit(pre \o g.evs)

\* "registers the current task's waker so that it can be woken up by select
\* when the file descriptor becomes ready", and the poll ends Pending
Park(t) ==
  /\ cur = t /\ stg[t] \in {"park", "park2"}
  /\ LET fd == opr[t].a
         skip == Variant = "no_rereg" /\ stg[t] = "park2"
     IN IF opr[t].k = "R"
        THEN /\ rkeys' = IF skip THEN rkeys ELSE rkeys \cup {fd}
             /\ reg' = [reg EXCEPT ![t] = IF skip THEN NoReg ELSE [k |-> "r", a |-> fd]]
             /\ UNCHANGED wkeys
        ELSE /\ wkeys' = IF skip THEN wkeys ELSE wkeys \cup {fd}
             /\ reg' = [reg EXCEPT ![t] = IF skip THEN NoReg ELSE [k |-> "w", a |-> fd]]
             /\ UNCHANGED rkeys
  /\ stg' = [stg EXCEPT ![t] = "io"]
  /\ ts' = [ts EXCEPT ![t] = "pend"]
  /\ cur' = 0
  /\ UNCHANGED <<wv, smset, sm, tch, pc, opr, wleft, got, sel, sp, sr, saved, idl, oc, bv>>
  /\ Emit(<<E("pe", t, 0, 0, "P", <<>>, <<>>, <<>>)>>)

\* ---- the other operations ----------------------------------------------
PendEnd(t) == /\ ts' = [ts EXCEPT ![t] = "pend"] /\ cur' = 0

\* the select mask: "initialized from the signal mask the shell inherited ...
\* signals the shell wants to catch are removed from this mask"
SmUpd(s, oldmask) ==
  /\ smset' = TRUE
  /\ sm' = IF Variant = "mask_overwrite" THEN oldmask \ {s}
           ELSE (IF smset THEN sm ELSE oldmask) \ {s}
  /\ tch' = tch \cup {s}

Begin(t, op) ==
  /\ cur = t /\ stg[t] = "idle" /\ pc[t] < Budget /\ op \in Ops
  /\ op.k \in {"S", "G", "Y", "D", "C"}
  /\ LET o == E("op", t, op.a, op.b, op.k, <<>>, <<>>, <<>>) IN
     CASE op.k = "S" ->
            \* "pending until the specified deadline is reached"
            IF op.a = 0
            THEN /\ Done(t)
                 /\ UNCHANGED <<wv, kv, ts, got, lv, bv>>
                 /\ Emit(<<o, E("res", t, 0, 0, "ok", <<>>, <<>>, <<>>)>>)
            ELSE /\ opr' = [opr EXCEPT ![t] = [k |-> "S", a |-> op.a, b |-> now + op.a]]
                 /\ reg' = [reg EXCEPT ![t] = [k |-> "t", a |-> now + op.a]]
                 /\ stg' = [stg EXCEPT ![t] = "slp"]
                 /\ PendEnd(t)
                 /\ UNCHANGED <<wv, kv, pc, wleft, got, sel, sp, sr, saved, idl, oc, bv>>
                 /\ Emit(<<o, E("pe", t, 0, 0, "P", <<>>, <<>>, <<>>)>>)
       [] op.k = "G" ->
            \* "pending until any signal is caught"
            /\ opr' = [opr EXCEPT ![t] = op]
            /\ reg' = [reg EXCEPT ![t] = [k |-> "s", a |-> 0]]
            /\ stg' = [stg EXCEPT ![t] = "sig"]
            /\ PendEnd(t)
            /\ UNCHANGED <<wv, kv, pc, wleft, got, sel, sp, sr, saved, idl, oc, bv>>
            /\ Emit(<<o, E("pe", t, 0, 0, "P", <<>>, <<>>, <<>>)>>)
       [] op.k = "Y" ->
            /\ opr' = [opr EXCEPT ![t] = op]
            /\ stg' = [stg EXCEPT ![t] = "yld"]
            /\ ts' = [ts EXCEPT ![t] = "ready"]
            /\ cur' = 0
            /\ UNCHANGED <<wv, kv, pc, reg, wleft, got, sel, sp, sr, saved, idl, oc, bv>>
            /\ Emit(<<o, E("pe", t, 0, 0, "P", <<>>, <<>>, <<>>)>>)
       [] op.k = "D" ->
            \* set_disposition(s, Catch): "the signal is blocked so that it is only
            \* delivered inside the select method" - blocked BEFORE the handler is set;
            \* set_disposition(s, Ignore): handler first, then "the signal is unblocked"
            LET s == op.a
                first_mask == (op.b = 1) # (Variant = "sa_before_block")
            IN
            /\ opr' = [opr EXCEPT ![t] = op]
            /\ stg' = [stg EXCEPT ![t] = "d2"]
            /\ IF first_mask
               THEN /\ IF op.b = 1
                       THEN /\ blk' = blk \cup {s} /\ UNCHANGED <<pnd, cgt>>
                       ELSE /\ blk' = blk \ {s}
                            /\ pnd' = pnd \cap blk'
                            /\ cgt' = cgt \o CaughtOf(pnd, blk', disp)
                    /\ SmUpd(s, blk)
                    /\ UNCHANGED <<disp, rkeys, wkeys>>
                    /\ UNCHANGED <<occ, open, now, base, nb0, ts, pc, reg, wleft, got, lv, bv>>
                    /\ Emit(<<o, E("sm", t, op.b, 0, "ok", <<s>>, <<>>, <<>>)>>)
               ELSE /\ disp' = [disp EXCEPT ![s] = IF op.b = 1 THEN "Catch" ELSE "Ignore"]
                    /\ UNCHANGED <<occ, open, now, blk, pnd, cgt, base, nb0, kv, ts, pc, reg, wleft, got, lv, bv>>
                    /\ Emit(<<o, E("sa", t, s, op.b, disp[s], <<>>, <<>>, <<>>)>>)
       [] op.k = "C" ->
            /\ open' = [open EXCEPT ![op.a] = FALSE]
            /\ Done(t)
            /\ UNCHANGED <<occ, now, disp, blk, pnd, cgt, base, nb0, kv, ts, got, lv, bv>>
            \* Close::close: "returns Ok(()) when the FD is already closed"
            /\ Emit(<<o, E("res", t, 0, 0, "ok", <<>>, <<>>, <<>>)>>)

\* second half of set_disposition
D2(t) ==
  /\ cur = t /\ stg[t] = "d2"
  /\ LET op == opr[t]
         s == op.a
         first_mask == (op.b = 1) # (Variant = "sa_before_block")
     IN
     IF first_mask
     THEN /\ disp' = [disp EXCEPT ![s] = IF op.b = 1 THEN "Catch" ELSE "Ignore"]
          /\ Done(t)
          /\ UNCHANGED <<occ, open, now, blk, pnd, cgt, base, nb0, kv, ts, got, lv, bv>>
          /\ Emit(<<E("sa", t, s, op.b, disp[s], <<>>, <<>>, <<>>), E("res", t, 0, 0, "ok", <<>>, <<>>, <<>>)>>)
     ELSE /\ IF op.b = 1
             THEN /\ blk' = blk \cup {s} /\ UNCHANGED <<pnd, cgt>>
             ELSE /\ blk' = blk \ {s}
                  /\ pnd' = pnd \cap blk'
                  /\ cgt' = cgt \o CaughtOf(pnd, blk', disp)
          /\ SmUpd(s, blk)
          /\ Done(t)
          /\ UNCHANGED <<occ, open, now, disp, base, nb0, rkeys, wkeys, ts, got, lv, bv>>
          /\ Emit(<<E("sm", t, op.b, 0, "ok", <<s>>, <<>>, <<>>), E("res", t, 0, 0, "ok", <<>>, <<>>, <<>>)>>)

\* a polled task continues a sleep, a signal wait or a yield
Cont(t) ==
  /\ cur = t /\ stg[t] \in {"slp", "sig", "yld"}
  /\ CASE stg[t] = "slp" ->
            IF now >= opr[t].b
            THEN /\ Done(t)
                 /\ UNCHANGED <<wv, kv, ts, got, lv, bv>>
                 /\ Emit(<<E("res", t, 0, 0, "ok", <<>>, <<>>, <<>>)>>)
            ELSE /\ reg' = [reg EXCEPT ![t] = [k |-> "t", a |-> opr[t].b]]
                 /\ PendEnd(t)
                 /\ UNCHANGED <<wv, kv, pc, opr, stg, wleft, got, sel, sp, sr, saved, idl, oc, bv>>
                 /\ Emit(<<E("pe", t, 0, 0, "P", <<>>, <<>>, <<>>)>>)
       [] stg[t] = "sig" ->
            IF got[t] # <<>>
            THEN /\ Done(t)
                 /\ got' = [got EXCEPT ![t] = <<>>]
                 /\ UNCHANGED <<wv, kv, ts, lv, bv>>
                 /\ Emit(<<E("res", t, 0, 0, "ok", CsSort(got[t]), <<>>, <<>>)>>)
            ELSE /\ reg' = [reg EXCEPT ![t] = [k |-> "s", a |-> 0]]
                 /\ PendEnd(t)
                 /\ UNCHANGED <<wv, kv, pc, opr, stg, wleft, got, sel, sp, sr, saved, idl, oc, bv>>
                 /\ Emit(<<E("pe", t, 0, 0, "P", <<>>, <<>>, <<>>)>>)
       [] stg[t] = "yld" ->
            /\ Done(t)
            /\ UNCHANGED <<wv, kv, ts, got, lv, bv>>
            /\ Emit(<<E("res", t, 0, 0, "ok", <<>>, <<>>, <<>>)>>)

\* the task's future returns Ready
Finish(t) ==
  /\ cur = t /\ stg[t] = "idle" /\ pc[t] >= 1
  /\ ts' = [ts EXCEPT ![t] = "done"]
  /\ cur' = 0
  /\ UNCHANGED <<wv, kv, pc, opr, stg, reg, wleft, got, sel, sp, sr, saved, idl, oc, bv>>
  /\ Emit(<<E("pe", t, 0, 0, "R", <<>>, <<>>, <<>>)>>)

\* a pending future is dropped: its registrations are dead from now on
Cancel(t) ==
  /\ cur = 0 /\ sel = "no" /\ xn < MaxExt
  /\ ts[t] \in {"pend", "ready"} /\ stg[t] # "idle"
  /\ ts' = [ts EXCEPT ![t] = "dead"]
  /\ opr' = [opr EXCEPT ![t] = NoOp]
  /\ stg' = [stg EXCEPT ![t] = "idle"]
  /\ reg' = [reg EXCEPT ![t] = NoReg]
  /\ wleft' = [wleft EXCEPT ![t] = 0]
  /\ got' = [got EXCEPT ![t] = <<>>]
  /\ xn' = xn + 1
  /\ UNCHANGED <<wv, kv, pc, lv, sn, spn>>
  /\ Emit(<<E("cancel", t, 0, 0, "", <<>>, <<>>, <<>>)>>)

-----------------------------------------------------------------------------
\* select / peek

Timers == {reg[t].a : t \in {u \in Tasks : reg[u].k = "t"}}
Waiters == {t \in Tasks : reg[t].k = "s"}

\* "performs a select system call with the file descriptors and timeout of
\* pending tasks"; the mask is passed only while somebody waits for signals
\* ("select does not consume caught signals until tasks are waiting")
SelBegin(pk) ==
  /\ cur = 0 /\ sel = "no" /\ sn < MaxSel
  /\ pk => Peek
  /\ Loop => (\A t \in Tasks : ts[t] \notin {"new", "ready"}) /\ (\E t \in Tasks : ts[t] = "pend")
  /\ LET to == IF pk THEN 0
               ELSE IF Timers = {} THEN -1
               ELSE PMax(0, SMin(Timers) - now)
         mk == smset /\ (Waiters # {} \/ Variant = "mask_always")
         p == [rd |-> rkeys, wr |-> wkeys, to |-> to, mk |-> mk, mask |-> IF mk THEN sm ELSE {}, pk |-> pk]
     IN /\ sp' = p
        /\ sel' = "ent"
        /\ UNCHANGED <<wv, kv, tv, cur, sr, saved, idl, oc, bv>>
        /\ Emit(<<E("sb", 0, B(pk), 0, "", <<>>, <<>>, <<>>),
                  E("sc", 0, to, B(mk), "", SSeq(p.rd), SSeq(p.wr), SSeq(p.mask))>>)

\* the inner select: the mask is swapped, pending signals it unblocks are
\* delivered, and the conditions are examined - atomically (pselect)
SelCall ==
  /\ sel = "ent" /\ Variant # "nonatomic"
  /\ LET nb == IF sp.mk THEN sp.mask ELSE blk
         c1 == cgt \o CaughtOf(pnd, nb, disp)
         p1 == pnd \cap nb
         dl == IF sp.to > 0 THEN now + sp.to ELSE -1
         res == SelCond(Len(c1) # Len(cgt), dl)
     IN /\ cgt' = c1 /\ pnd' = p1
        /\ oc' = Len(cgt)
        /\ saved' = blk
        /\ idl' = dl
        /\ IF res.k = "wait"
           THEN /\ blk' = nb /\ sel' = "wait" /\ sr' = sr
                /\ UNCHANGED <<occ, open, now, disp, base, nb0, kv, tv, cur, sp, bv>>
                /\ Emit(<<E("sw", 0, 0, 0, "", <<>>, <<>>, <<>>)>>)
           ELSE /\ blk' = blk /\ sel' = "ret" /\ sr' = res
                /\ UNCHANGED <<occ, open, now, disp, base, nb0, kv, tv, cur, sp, bv>>
                /\ Emit(<<E("sr", 0, 0, 0, res.k, SSeq(res.rr), SSeq(res.ww), <<>>)>>)

\* WRONG (negative configuration): unblock first, then wait for the NEXT event
SelCallNonAtomic ==
  /\ sel = "ent" /\ Variant = "nonatomic"
  /\ LET nb == IF sp.mk THEN sp.mask ELSE blk IN
     /\ cgt' = cgt \o CaughtOf(pnd, nb, disp)
     /\ pnd' = pnd \cap nb
     /\ oc' = Len(cgt')                  \* what arrived in between goes unnoticed
     /\ saved' = blk /\ blk' = nb
     /\ idl' = IF sp.to > 0 THEN now + sp.to ELSE -1
     /\ sel' = "wait"
     /\ UNCHANGED <<occ, open, now, disp, base, nb0, kv, tv, cur, sp, sr, bv>>
     /\ Emit(<<E("sw", 0, 0, 0, "", <<>>, <<>>, <<>>)>>)

\* a blocked select returns as soon as one of its conditions holds; the mask is restored
SelWake ==
  /\ sel = "wait"
  /\ LET res == SelCond(Len(cgt) # oc, idl) IN
     /\ res.k # "wait"
     /\ sr' = res
     /\ blk' = saved
     /\ sel' = "ret"
     /\ UNCHANGED <<occ, open, now, disp, pnd, cgt, base, nb0, kv, tv, cur, sp, saved, idl, oc, bv>>
     /\ Emit(<<E("sr", 0, 0, 0, res.k, SSeq(res.rr), SSeq(res.ww), <<>>)>>)

\* "wakes the tasks whose events are ready": descriptors reported ready (all of
\* them after an error other than EINTR, none after EINTR), every timer whose
\* deadline has passed, and - if signals were caught - ALL tasks waiting for
\* signals, which share the list
SelEnd ==
  /\ sel = "ret"
  /\ LET fdw == IF sr.k = "EINTR" /\ Variant # "eintr_drop" THEN {}
                ELSE IF sr.k = "ok"
                     THEN {t \in Tasks : (reg[t].k = "r" /\ reg[t].a \in sr.rr) \/ (reg[t].k = "w" /\ reg[t].a \in sr.ww)}
                     ELSE IF Variant = "eintr_drop" /\ sr.k = "EINTR" THEN {}
                          ELSE {t \in Tasks : reg[t].k \in {"r", "w"}}
         lim == IF Variant = "timer_early" THEN now + 1 ELSE now
         tw0 == {t \in Tasks : reg[t].k = "t" /\ reg[t].a <= lim}
         tw == IF Variant = "timer_first" /\ tw0 # {} THEN {CHOOSE t \in tw0 : \A u \in tw0 : reg[t].a <= reg[u].a /\ (reg[t].a = reg[u].a => t <= u)} ELSE tw0
         take == Waiters # {} \/ Variant = "consume_unwaited"
         sw0 == IF Waiters # {} /\ cgt # <<>> THEN Waiters ELSE {}
         sw == IF Variant = "sig_one" /\ sw0 # {} THEN {SMin(sw0)} ELSE sw0
         woken == fdw \cup tw \cup sw
         dls == [t \in Tasks |-> reg[t].a]
     IN /\ rkeys' = IF sr.k = "EINTR" THEN (IF Variant = "eintr_drop" THEN {} ELSE rkeys)
                    ELSE IF sr.k = "ok" THEN rkeys \ sr.rr ELSE {}
        /\ wkeys' = IF sr.k = "EINTR" THEN (IF Variant = "eintr_drop" THEN {} ELSE wkeys)
                    ELSE IF sr.k = "ok" THEN wkeys \ sr.ww ELSE {}
        /\ cgt' = IF take THEN <<>> ELSE cgt
        /\ got' = [t \in Tasks |-> IF t \in sw THEN cgt ELSE got[t]]
        /\ ts' = [t \in Tasks |-> IF t \in woken THEN "ready" ELSE ts[t]]
        /\ reg' = [t \in Tasks |-> IF t \in woken THEN NoReg ELSE reg[t]]
        /\ sel' = "no" /\ sp' = NoSp /\ sr' = NoSr /\ saved' = {} /\ idl' = -1 /\ oc' = 0
        /\ sn' = sn + 1
        /\ UNCHANGED <<occ, open, now, disp, blk, pnd, base, nb0, smset, sm, tch, pc, opr, stg, wleft, cur, xn, spn>>
        /\ Emit(<<E("se", 0, 0, 0, sr.k, SSeq(woken), SortBy(tw, dls), MapSeq(SortBy(tw, dls), dls))>>)

-----------------------------------------------------------------------------
\* external events

ExtOK == xn < MaxExt /\ (IF cur = 0 THEN TRUE ELSE stg[cur] \in {"park", "park2", "d2"})

Ext(x) ==
  /\ x \in Exts /\ x.k # "cancel"
  \* under the run-loop discipline time is taken to pass only while select blocks
  \* (up to the deadline of the call: the call returns before more time passes)
  /\ IF Loop /\ x.k = "xt" THEN sel = "wait" /\ idl >= 0 /\ now < idl /\ xn' = xn ELSE ExtOK /\ xn' = xn + 1
  /\ CASE x.k = "xw" ->   \* another process writes b units into pipe a
            /\ open[WFd(x.a)] /\ open[RFd(x.a)] /\ occ[x.a] + x.b <= Cap
            /\ occ' = [occ EXCEPT ![x.a] = @ + x.b]
            /\ UNCHANGED <<open, now, disp, blk, pnd, cgt, base, nb0>>
       [] x.k = "xr" ->   \* another process drains b units
            /\ open[RFd(x.a)] /\ occ[x.a] >= x.b
            /\ occ' = [occ EXCEPT ![x.a] = @ - x.b]
            /\ UNCHANGED <<open, now, disp, blk, pnd, cgt, base, nb0>>
       [] x.k = "xc" ->   \* descriptor a is closed
            /\ open[x.a]
            /\ open' = [open EXCEPT ![x.a] = FALSE]
            /\ UNCHANGED <<occ, now, disp, blk, pnd, cgt, base, nb0>>
       [] x.k = "xn" ->   \* the mode of descriptor a is toggled (O_NONBLOCK), while no operation uses it
            /\ open[x.a] /\ \A t \in Tasks : ~InFlight(t, x.a)
            /\ nb0' = [nb0 EXCEPT ![x.a] = ~@]
            /\ UNCHANGED <<occ, open, now, disp, blk, pnd, cgt, base>>
       [] x.k = "xs" ->   \* signal a is sent to the process
            /\ disp[x.a] # "Default" \/ x.a \in blk
            /\ IF x.a \in blk
               THEN pnd' = pnd \cup {x.a} /\ cgt' = cgt
               ELSE pnd' = pnd /\ cgt' = IF disp[x.a] = "Catch" THEN Append(cgt, x.a) ELSE cgt
            /\ UNCHANGED <<occ, open, now, disp, blk, base, nb0>>
       [] x.k = "xt" ->   \* time passes
            /\ now + x.a <= MaxNow
            /\ now' = now + x.a
            /\ UNCHANGED <<occ, open, disp, blk, pnd, cgt, base, nb0>>
  /\ UNCHANGED <<kv, tv, lv, sn, spn>>
  /\ Emit(<<E(x.k, 0, x.a, x.b, "", <<>>, <<>>, <<>>)>>)

-----------------------------------------------------------------------------
IONew(t) == \E op \in Ops : op.k \in {"R", "W", "WA"} /\ IO(t, op, TRUE)
IORetry(t) == stg[t] = "io" /\ IO(t, opr[t], FALSE)
BeginOp(t) == \E op \in Ops : op.k \notin {"R", "W", "WA"} /\ Begin(t, op)
CancelTask(t) == "cancel" \in {x.k : x \in Exts} /\ Cancel(t)

TaskNext == \E t \in Tasks :
              \/ Poll(t) \/ Park(t) \/ D2(t) \/ Cont(t) \/ Finish(t)
              \/ IORetry(t) \/ IONew(t) \/ BeginOp(t)
SelNext == (\E pk \in BOOLEAN : SelBegin(pk)) \/ SelCall \/ SelCallNonAtomic \/ SelWake \/ SelEnd
ExtNext == (\E x \in Exts : Ext(x)) \/ (\E t \in Tasks : CancelTask(t))
Next == TaskNext \/ SelNext \/ ExtNext

Spec == Init /\ [][Next]_vars

\* the run loop keeps going; time passes while select blocks on a deadline
TimePass == \E x \in Exts : x.k = "xt" /\ sel = "wait" /\ idl >= 0 /\ Ext(x)
FairSpec == Spec /\ WF_vars(TaskNext) /\ WF_vars(SelNext) /\ WF_vars(TimePass)

-----------------------------------------------------------------------------
\* State invariants

TypeOK ==
  /\ \A p \in Pipes : occ[p] \in 0 .. Cap
  /\ now \in 0 .. MaxNow
  /\ blk \subseteq Sigs /\ pnd \subseteq Sigs
  /\ rkeys \subseteq Fds /\ wkeys \subseteq Fds
  /\ cur \in 0 .. NT
  /\ sel \in {"no", "ent", "wait", "ret"}
  /\ \A t \in Tasks : ts[t] \in {"new", "ready", "run", "pend", "done", "dead"}

\* a pending task can always be woken: it holds a live registration, and a
\* descriptor registration is a key of the next select
I_PendingRegistered ==
  \A t \in Tasks : ts[t] = "pend" =>
    /\ reg[t].k # "n"
    /\ reg[t].k = "r" => reg[t].a \in rkeys
    /\ reg[t].k = "w" => reg[t].a \in wkeys

\* a registration belongs to a task that is pending (or polled without a wake)
I_RegOnlyPending ==
  \A t \in Tasks : reg[t].k # "n" => ts[t] \in {"pend", "run"}

\* outside select the mask is: inherited mask, minus every signal whose
\* disposition was ever set, plus the signals to be caught
Catching == {s \in Sigs : disp[s] = "Catch"}
I_Mask ==
  (cur = 0 /\ sel # "wait") => blk = (base \ tch) \cup Catching
I_MaskInSelect ==
  sel = "wait" => blk = IF sp.mk THEN sp.mask ELSE (base \ tch) \cup Catching
\* the mask used inside select: the inherited one minus every such signal
I_SelMask == smset => sm = base \ tch

\* a signal is only ever caught inside select
I_CaughtInside == cgt # <<>> => sel \in {"wait", "ret"}

\* pending signals are blocked ones
I_PendingBlocked == pnd \subseteq blk

\* the arguments of the inner select cover every pending task
I_SelArgs ==
  sel \in {"ent", "wait", "ret"} =>
    /\ \A t \in Tasks : reg[t].k = "r" => reg[t].a \in sp.rd
    /\ \A t \in Tasks : reg[t].k = "w" => reg[t].a \in sp.wr
    /\ sp.rd \subseteq Fds /\ sp.wr \subseteq Fds
    /\ ~sp.pk => (IF Timers = {} THEN sp.to = -1 ELSE sp.to >= 0)
    /\ sp.pk => sp.to = 0
    /\ sp.mk <=> (smset /\ Waiters # {})

\* no task is runnable or polled while select is in progress
I_SelExclusive == sel # "no" => cur = 0

Inv == TypeOK /\ I_PendingRegistered /\ I_RegOnlyPending /\ I_Mask /\ I_MaskInSelect /\ I_SelMask
       /\ I_CaughtInside /\ I_PendingBlocked /\ I_SelArgs /\ I_SelExclusive

-----------------------------------------------------------------------------
\* Action properties (laws about steps)

SelEndStep == sel = "ret" /\ sel' = "no"

\* no lost wake-up: what the select call reported wakes its task
P_NoLostFd ==
  [][SelEndStep =>
      \A t \in Tasks :
        /\ (sr.k = "ok" /\ reg[t].k = "r" /\ reg[t].a \in sr.rr) => ts'[t] = "ready"
        /\ (sr.k = "ok" /\ reg[t].k = "w" /\ reg[t].a \in sr.ww) => ts'[t] = "ready"
        /\ (sr.k = "EBADF" /\ reg[t].k \in {"r", "w"}) => ts'[t] = "ready"
        \* not woken => still registered for the next select
        /\ (reg[t].k = "r" /\ ts'[t] # "ready") => (reg'[t] = reg[t] /\ reg[t].a \in rkeys')
        /\ (reg[t].k = "w" /\ ts'[t] # "ready") => (reg'[t] = reg[t] /\ reg[t].a \in wkeys')]_vars

\* every timer whose deadline has passed fires, whatever made select return
P_NoLostTimer ==
  [][SelEndStep => \A t \in Tasks : (reg[t].k = "t" /\ reg[t].a <= now) => ts'[t] = "ready"]_vars

\* caught signals go to ALL tasks waiting for signals, once, and the list is consumed
P_SignalsToAll ==
  [][SelEndStep =>
      /\ (Waiters # {} /\ cgt # <<>>) =>
            /\ \A t \in Waiters : ts'[t] = "ready" /\ got'[t] = cgt
            /\ cgt' = <<>>
      /\ Waiters = {} => cgt' = cgt
      /\ \A t \in Tasks \ Waiters : got'[t] = got[t]]_vars

\* nobody is woken without cause
P_NoSpurious ==
  [][SelEndStep =>
      \A t \in Tasks : (ts[t] = "pend" /\ ts'[t] = "ready") =>
        \/ sr.k = "ok" /\ reg[t].k = "r" /\ reg[t].a \in sr.rr
        \/ sr.k = "ok" /\ reg[t].k = "w" /\ reg[t].a \in sr.ww
        \/ sr.k = "EBADF" /\ reg[t].k \in {"r", "w"}
        \/ reg[t].k = "t" /\ reg[t].a <= now
        \/ reg[t].k = "s" /\ cgt # <<>>]_vars

\* only select wakes a pending task (or the task itself, by yielding)
P_OnlySelectWakes ==
  [][\A t \in Tasks : (ts[t] = "pend" /\ ts'[t] = "ready") => SelEndStep]_vars

\* a sleep never completes before its deadline
P_TimerNotEarly ==
  [][\A t \in Tasks : (opr[t].k = "S" /\ opr'[t] = NoOp /\ ts'[t] # "dead") => now >= opr[t].b]_vars

P_ClockMonotone == [][now' >= now]_vars

\* a pending task keeps its registration until it is woken, polled or dropped
P_RegistrationStable ==
  [][\A t \in Tasks : (ts[t] = "pend" /\ ts'[t] = "pend") => reg'[t] = reg[t]]_vars

\* the wrapper's select returns iff the inner one does: between its return and
\* the wake-ups nothing but external events happens
P_SelectBracket ==
  [][(sel # "no" /\ sel' # "no") => (ts' = ts /\ reg' = reg)]_vars

\* pipes: units are neither lost nor duplicated by retries (checked per step)
P_RetryExact ==
  [][\A t \in Tasks : (opr[t].k = "WA" /\ opr'[t].k = "WA") => wleft'[t] <= wleft[t]]_vars

-----------------------------------------------------------------------------
\* Liveness (FairSpec, Loop = TRUE)

\* a task waiting for signals gets a signal that was sent
L_SignalWait ==
  \A t \in Tasks : (reg[t].k = "s" /\ (cgt # <<>> \/ pnd \cap Catching # {})) ~> (reg[t].k # "s")

\* a woken task is polled
L_Polled == \A t \in Tasks : (ts[t] = "ready") ~> (ts[t] # "ready")

\* a timer whose deadline has passed fires
L_TimerFires == \A t \in Tasks : (reg[t].k = "t" /\ reg[t].a <= now) ~> (reg[t].k # "t")

\* a system whose tasks only sleep and yield terminates: the loop ends when every task has completed
L_Terminates == <>[](\A t \in Tasks : ts[t] \in {"done", "dead"})

\* a reader whose pipe holds data (or reached end of file) is woken, unless the data goes away
RdyOf(t) == IF reg[t].k = "r" THEN open[reg[t].a] /\ RdReady(reg[t].a) ELSE FALSE
L_ReaderWoken == \A t \in Tasks : RdyOf(t) ~> ~RdyOf(t)
=============================================================================
