\* G14: the laws only, as an invariant (must hold)
SPECIFICATION Spec
CONSTANTS
  Level = "laws"
  Variant = "none"
INVARIANT LawsHold
