SPECIFICATION Spec
CONSTANT Variant = "spec"
CONSTANT MaxLen = 3
CONSTANT PairCoreSlice = 1
CONSTANT PairNewSlice = 5
CONSTANT Wide = TRUE
CONSTANT TripleSlice = 60
CONSTANT RawMax = 4
CONSTANT DoEmit = TRUE
INVARIANT Emit
