INIT Init
NEXT Next
CONSTANT Variant = ""
