SPECIFICATION Spec
CONSTANTS
  MaxLen = 5
  Modes = {TRUE, FALSE}
  JobIdOps = {"%1", "%2", "%+", "%-"}
  PidOps = {"$p1", "$p2", "9999"}
  Sigs = {"TERM", "INT", "STOP", "CONT"}
  JobsOpts = {"", "-l", "-p"}
  KillLNums = {0, 15, 393}
  MonCmds = {}
  FgSlots = {3}
  StartWith = "none"
VIEW view
INVARIANT TableConsistent
INVARIANT TableMirrorsProcesses
INVARIANT ListingShape
INVARIANT ReportedOnce
INVARIANT EmitState
PROPERTY ReportedThenGone
PROPERTY WaitTrue
PROPERTY NumbersStable
