\* negative configuration: the wrong variant "list_no_ro" must be refuted by ListRoundTrip
SPECIFICATION Spec
CONSTANTS
  MaxDepth = 4
  Variant = "list_no_ro"
  Fams = {"tabmain"}
  LB = 1
  LM = 1
  Wide = {}
  Stepwise = TRUE
INVARIANT ListRoundTrip
