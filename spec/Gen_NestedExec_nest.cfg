SPECIFICATION Spec
CONSTANTS
  Fuel = 24
  TickLimit = 2
  K = 6
  Alphabet <- AlphaNest
  Opts <- OptsPlain
INVARIANT Emit
CHECK_DEADLOCK FALSE
