SPECIFICATION Spec
CONSTANTS
  PIPE_BUF = 512
  PIPE_SIZE = 1024
  Tier = "thorough"
  NRandom = 30
INVARIANT Emit
