SPECIFICATION Spec
CONSTANTS
  Cfg = "qf"
  Bug = "none"
  Sim = TRUE
INVARIANT TypeOK
INVARIANT InternalInv
INVARIANT Conforms
INVARIANT Emit
