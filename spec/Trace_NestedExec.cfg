SPECIFICATION TraceSpec
CONSTANTS
  Fuel = 400
  TickLimit = 2
POSTCONDITION Complete
CHECK_DEADLOCK FALSE
