SPECIFICATION Spec
CONSTANTS
  Cfg = "neg"
  Bug = "fwd"
  Sim = TRUE
INVARIANT TypeOK
INVARIANT Conforms
