INIT Init
NEXT Next
CONSTANTS
  SAlpha <- StrPunct
  SLen = 2
  Shards = 16
INVARIANT Emit
