---------------------------- MODULE MC_ConcSelect ----------------------------
(***************************************************************************)
(* Bounded models of ConcSelect: operation and event alphabets by family,  *)
(* lemmas about the kernel rules (evaluated when the module is loaded) and *)
(* the generator invariant used by Gen_ConcSelect_*.cfg.                   *)
(***************************************************************************)
EXTENDS ConcSelect, Json

CONSTANT Fam

Op(k, a, b) == [k |-> k, a |-> a, b |-> b]
X(k, a, b) == [k |-> k, a |-> a, b |-> b]

\* families of alphabets (small enough to explore every interleaving)
FamOps ==
  CASE Fam = "rw"  -> {Op("R", RFd(p), k) : p \in Pipes, k \in {1, 2}}
                      \cup {Op("W", WFd(p), k) : p \in Pipes, k \in {1, 3}}
                      \cup {Op("WA", WFd(p), 3) : p \in Pipes}
                      \cup {Op("C", WFd(p), 0) : p \in Pipes} \cup {Op("Y", 0, 0)}
    [] Fam = "rw2" -> {Op("R", RFd(p), 1) : p \in Pipes} \cup {Op("WA", WFd(p), 3) : p \in Pipes}
                      \cup {Op("C", fd, 0) : fd \in Fds}
    [] Fam = "sig" -> {Op("G", 0, 0), Op("Y", 0, 0), Op("S", 1, 0)}
                      \cup {Op("D", s, d) : s \in Sigs, d \in {1, 2}}
    [] Fam = "tmr" -> {Op("S", d, 0) : d \in {0, 1, 2}} \cup {Op("Y", 0, 0)}
    [] Fam = "mix" -> {Op("R", 3, 1), Op("W", 4, 1), Op("G", 0, 0), Op("D", 1, 1), Op("S", 1, 0)}
    [] Fam = "live" -> {Op("R", 3, 1), Op("WA", 4, 3), Op("G", 0, 0), Op("D", 1, 1), Op("S", 1, 0), Op("S", 2, 0)}
    [] Fam = "calib" -> {Op("R", RFd(p), 1) : p \in Pipes} \cup {Op("W", WFd(p), 1) : p \in Pipes}
                      \cup {Op("WA", 4, 1), Op("S", 1, 0), Op("G", 0, 0)} \cup {Op("D", s, d) : s \in Sigs, d \in {1, 2}}

FamExts ==
  CASE Fam = "rw"  -> {X("xw", p, k) : p \in Pipes, k \in {1, 2}} \cup {X("xr", p, 1) : p \in Pipes}
                      \cup {X("xc", WFd(p), 0) : p \in Pipes} \cup {X("cancel", 0, 0)}
    [] Fam = "rw2" -> {X("xw", p, 1) : p \in Pipes} \cup {X("xr", p, 2) : p \in Pipes}
                      \cup {X("xc", fd, 0) : fd \in Fds} \cup {X("xn", 3, 0), X("xn", 4, 0)}
    [] Fam = "sig" -> {X("xs", s, 0) : s \in Sigs} \cup {X("xt", 1, 0), X("cancel", 0, 0)}
    [] Fam = "tmr" -> {X("xt", 1, 0), X("xt", 2, 0), X("cancel", 0, 0)}
    [] Fam = "mix" -> {X("xw", 1, 1), X("xs", 1, 0), X("xt", 1, 0), X("xc", 3, 0), X("cancel", 0, 0)}
    [] Fam = "live" -> {X("xt", 1, 0), X("xs", 1, 0)}
    [] Fam = "calib" -> {X("xw", p, k) : p \in Pipes, k \in {1, 2}} \cup {X("xr", p, 2) : p \in Pipes}
                      \cup {X("xc", 3, 0), X("xt", 1, 0)} \cup {X("xs", s, 0) : s \in Sigs}

\* ---- lemmas about the rules, on the whole small domain -----------------
\* select readiness is sound and complete with respect to read / write on a
\* non-blocking descriptor (POSIX select: "would not block")
RulesLemma ==
  \A o \in 0 .. Cap : \A k \in 1 .. (Cap + 1) :
    LET room == Cap - o IN
    /\ (room >= 1) <=> (PMin(k, room) >= 1)
    /\ PMin(k, room) <= k /\ PMin(k, room) <= room
ASSUME RulesLemma

=============================================================================
