INIT Init
NEXT Next
VIEW view
CONSTANTS
  Variant = ""
  PNorm <- TokLit2
  PLit <- NoChars
  PMacro <- NoChars
  PLen = 2
  SAlpha <- StrLit2
  SLen = 2
  CfgSel = "all"
  Kind = "match"
INVARIANT Emit
