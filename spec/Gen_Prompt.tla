---------------------------- MODULE Gen_Prompt ----------------------------
(***************************************************************************)
(* spec -> impl enumeration for G11.  TLC's breadth-first search is the     *)
(* enumerator: a state is (family, start-up configuration, events so far,   *)
(* folded session state); Next appends one event of the family's alphabet.  *)
(* For every state the invariant Emit prints one JSON line: how to start    *)
(* the shell, the input chunks, and what Prompt.tla expects (pattern of     *)
(* standard error, standard output, probe events).  harness/g11 runs the    *)
(* session on the real shell and compares.  Family "call" enumerates        *)
(* prompt strings for the call-level binding of yash_prompt::expand_posix   *)
(* and Prompter.                                                            *)
(*                                                                         *)
(* The invariant Laws checks laws of the model on every state; with         *)
(* Variant # "spec" the invariant Refute claims that the concrete output    *)
(* of a named wrong variant is accepted by the specification's pattern -    *)
(* TLC must find a counterexample (negative configurations).                *)
(***************************************************************************)
EXTENDS Prompt, Json, IOUtils

CONSTANTS Fams,      \* families to enumerate
          Deep,      \* 0: quick alphabets, 1: thorough
          Variant    \* "spec", or a wrong variant for the negative configurations

VARIABLE st
vars == <<st>>

Cfg(src, tin, terr, iflag, ign, vb, mflag, ps1, ps2) ==
  [src |-> src, tin |-> tin, terr |-> terr, iflag |-> iflag, ign |-> ign, vb |-> vb, mflag |-> mflag,
   ps1 |-> ps1, ps2 |-> ps2, via |-> "rc"]
Lit(s) == Tok("lit", "", s)
M1 == <<Lit("@1 ")>>          \* marked prompts: a diagnostic cannot swallow them
M2 == <<Lit("@2 ")>>
Tty == Cfg("stdin", TRUE, TRUE, "", FALSE, FALSE, "", NoPS, NoPS)
TtyM == [Tty EXCEPT !.ps1 = M1, !.ps2 = M2]
FileI == [TtyM EXCEPT !.tin = FALSE, !.terr = FALSE, !.iflag = "-i"]
FileN == [TtyM EXCEPT !.tin = FALSE, !.terr = FALSE]
TtyOff == [TtyM EXCEPT !.iflag = "+i"]

E(t, f, k, i) == Ev(t, f, k, i, <<>>)
Probe(k) == E("probe", "", k, 0)
PS(f, toks) == Ev("ps", f, "", 0, toks)

-----------------------------------------------------------------------------
\* prompt strings: "@" atoms " "
Atoms1 == {Tok("var", "x", ""), Tok("brc", "x", ""), Tok("var", "u", ""), Tok("dfl", "u", "d"), Tok("dfl", "x", "d"),
           Tok("dfl", "u", "a!!b"), Tok("asg", "u", "w"), Tok("alt", "x", "y"), Tok("alt", "x", "y!"), Tok("len", "x", ""),
           Tok("inc", "n", ""), Tok("ari", "n", "2"), Tok("sta", "", ""), Tok("sub", "", "c"), Tok("sub", "", "c!!"),
           Tok("err", "u", "m"), Tok("err", "x", "m"), Lit("!"), Lit("!!"), Lit("!!!"), Lit("a!b"), Lit("!!!!"),
           Tok("bsl", "", "\\"), Tok("bsl", "", "$x"), Tok("dlr", "", "")}
\* tokens whose expansion can fail are not combined with tokens that have side effects
Failing(t) == t.k = "err" \/ t.k \in {"var", "brc", "len"}
SideEff(t) == t.k \in {"inc", "asg"}
PSOf(atoms) == <<Lit("@")>> \o atoms \o <<Lit(" ")>>
PS1s == {PSOf(<<a>>) : a \in Atoms1}
PS2pairs == {p \in {PSOf(<<a, b>>) : a \in Atoms1, b \in Atoms1} :
               /\ GoodPS(p)
               /\ ~((\E i \in DOMAIN p : p[i].k = "err") /\ (\E i \in DOMAIN p : SideEff(p[i])))}
XVals == {"v", "p!!q!", "", "a b"}

-----------------------------------------------------------------------------
\* Families: initial (configuration, first events) and alphabet
Start(fam) ==
  CASE fam = "exp1" -> {<<c, <<>>>> : c \in {Tty, FileI}}
    [] fam = "exp2" -> {<<Tty, <<>>>>}
    [] fam = "ps2"  -> {<<Tty, <<>>>>}
    [] fam = "multi" -> {<<c, <<>>>> : c \in {Tty, TtyM, [TtyM EXCEPT !.vb = TRUE], FileI, FileN, TtyOff,
                                              [FileI EXCEPT !.src = "cmd"], [FileI EXCEPT !.src = "file"],
                                              [FileN EXCEPT !.src = "cmd"], [FileN EXCEPT !.src = "file", !.vb = TRUE]}}
    [] fam = "eof"  -> {<<c, <<>>>> : c \in {TtyM, [TtyM EXCEPT !.ign = TRUE], [FileI EXCEPT !.ign = TRUE],
                                             [TtyOff EXCEPT !.ign = TRUE], [TtyM EXCEPT !.ign = TRUE, !.iflag = "-i", !.terr = FALSE],
                                             [Tty EXCEPT !.ign = TRUE, !.vb = TRUE]}}
    [] fam = "jobs" -> {<<c, <<>>>> : c \in {TtyM, [TtyM EXCEPT !.mflag = "+m"], FileI, FileN} \cup
                                             (IF Deep = 1 THEN {[FileN EXCEPT !.mflag = "-m"], TtyOff, Tty} ELSE {})}
    [] fam = "read" -> {<<c, <<>>>> : c \in {TtyM, FileI, FileN, TtyOff, [TtyM EXCEPT !.ps2 = <<Lit("@"), Tok("inc", "n", ""), Lit("> ")>>]}}
    [] fam = "modes" -> {<<Cfg(src, tin, terr, ifl, ign, vb, mfl, p[1], p[2]), <<>>>> :
                           src \in {"stdin", "cmd", "file"}, tin \in BOOLEAN, terr \in BOOLEAN, ifl \in {"", "-i", "+i"},
                           ign \in BOOLEAN, vb \in BOOLEAN, mfl \in {"", "+m"},
                           p \in {<<NoPS, NoPS>>, <<M1, M2>>}}
                        \cup {<<[c EXCEPT !.via = "env"], <<>>>> : c \in {TtyM, FileI, FileN, [TtyM EXCEPT !.ps2 = NoPS]}}

Tags == {"a", "b"}
Alphabet(fam, c, es) ==
  LET n == Len(es) IN
  CASE fam = "exp1" ->
         IF n = 0 THEN {Ev("var", "x", v, 0, <<>>) : v \in XVals} \cup {E("unset", "x", "", 0)}
         ELSE IF n = 1 THEN {PS("PS1", p) : p \in PS1s} \cup {E("opt", "nounset", "", 1)}
         ELSE IF n = 2 /\ es[2].t = "opt" THEN {PS("PS1", p) : p \in {PSOf(<<a>>) : a \in {Tok("var", "x", ""), Tok("var", "u", ""), Tok("len", "u", ""), Tok("dfl", "u", "d"), Tok("inc", "n", "")}}}
         ELSE {Probe("a"), E("status", "", "", 3), E("multi", "if", "k", 0), E("synerr", "fi", "", 0)}
    [] fam = "exp2" ->
         IF n = 0 THEN {Ev("var", "x", v, 0, <<>>) : v \in {"v", "p!!q!"}}
         ELSE IF n = 1 THEN {PS("PS1", p) : p \in PS2pairs}
         ELSE {Probe("a"), E("status", "", "", 3)}
    [] fam = "ps2" ->
         IF n = 0 THEN {Ev("var", "x", v, 0, <<>>) : v \in {"v", "p!!q!"}}
         ELSE IF n = 1 THEN {PS("PS2", p) : p \in PS1s}
         ELSE {E("multi", f, "k", 0) : f \in {"if", "heredoc2", "sq"}} \cup {E("read", "", "r", 1), Probe("a")}
    [] fam = "multi" ->
         UNION {{E("multi", f, k, 0) : k \in IF Deep = 1 /\ n = 0 /\ f \in {"if", "sq", "heredoc"} THEN Tags ELSE {"k"}} : f \in AllForms}
         \cup {E("synerr", f, "", 0) : f \in AllErrForms}
         \cup {Probe("a"), E("empty", "", "", 0), E("comment", "", "c", 0), E("echo", "", "o", 0), E("exit", "", "", 0)}
         \cup (IF n = 0 THEN {E("opt", "verbose", "", 1), PS("PS2", <<Lit("@c ")>>), PS("PS1", <<Lit("@p"), Tok("sta", "", ""), Lit(" ")>>)} ELSE {})
    [] fam = "eof" ->
         {Probe("a"), E("eof", "", "", 0), E("opt", "ignoreeof", "", 1), E("opt", "ignoreeof", "", 0),
          E("synerr", "fi", "", 0), E("multi", "if", "k", 0),
          PS("PS1", <<Lit("@"), Tok("inc", "n", ""), Lit(" ")>>)}
         \cup {E("multi", f, "k", i) : f \in (IF Deep = 1 /\ n < 2 THEN EofForms ELSE {"if", "sq", "pipe"}), i \in 1..2}
         \cup (IF Deep = 1 THEN {E("exit", "", "", 0)} ELSE {})
    [] fam = "jobs" ->
         (IF Deep = 1 THEN {E("bg", "", s, d) : s \in {"0", "3"}, d \in {1, 2}}
          ELSE {E("bg", "", "0", 1), E("bg", "", "3", 2), E("bg", "", "0", 2)}) \cup
         {E("tick", "", "", 0), Probe("a"), E("multi", "if", "k", 0), E("synerr", "fi", "", 0), E("empty", "", "", 0)}
    [] fam = "read" ->
         {E("read", "", "r", i) : i \in 0..2} \cup {Probe("a"), E("multi", "if", "k", 0)}
    [] fam = "modes" ->
         CASE n = 0 -> {Probe("a")}
           [] n = 1 -> {E("multi", "if", "k", 0), E("bg", "", "0", 1)}
           [] n = 2 -> {E("tick", "", "", 0)}
           [] n = 3 -> {E("synerr", "fi", "", 0), Probe("b")}
           [] OTHER -> {Probe("c")}

MaxLen(fam) ==
  CASE fam = "exp1" -> IF Deep = 1 THEN 5 ELSE 4
    [] fam = "exp2" -> IF Deep = 1 THEN 4 ELSE 3
    [] fam = "ps2" -> IF Deep = 1 THEN 4 ELSE 3
    [] fam = "multi" -> IF Deep = 1 THEN 3 ELSE 2
    [] fam = "eof" -> IF Deep = 1 THEN 4 ELSE 3
    [] fam = "jobs" -> IF Deep = 1 THEN 7 ELSE 5
    [] fam = "read" -> 3
    [] fam = "modes" -> 5

\* restrictions that keep generated sessions inside what the documents define
Allowed(fam, c, S, es, e) ==
  /\ S.alive
  /\ ~(c.src = "cmd" /\ e.t = "opt" /\ e.f = "verbose")
  \* an end-of-file condition followed by more input needs a terminal
  /\ (e.t = "eof" \/ (e.t = "multi" /\ e.i > 0)) => (c.src = "stdin" /\ c.tin)
  /\ (e.t = "multi" /\ e.i > 0) => (e.f \in EofForms /\ e.i < Len(Form(e.f, e.k).lines))
  \* `read` takes its lines from the same descriptor as the shell: only when the shell reads descriptor 0
  /\ e.t = "read" => c.src = "stdin"
  \* at most two jobs, started only when the previous one is over or just started
  /\ e.t = "bg" => Len(S.jobs) < 2
  \* whether a shell given a command string (which never prompts) reports jobs is not said
  /\ e.t \in {"bg", "tick"} => c.src # "cmd"
  \* (pruning) in the jobs family other commands come only right after a tick
  /\ (fam = "jobs" /\ e.t \in {"multi", "synerr", "empty", "probe"}) => (Len(es) > 0 /\ es[Len(es)].t = "tick")
  /\ (fam = "jobs" /\ e.t = "tick") => Len(S.jobs) > 0
  /\ (fam = "eof" /\ e.t = "ps") => (Len(es) = 0)
  /\ (fam = "eof" /\ e.t = "opt") => (Len(es) <= 1)

\* call level: a prompt string, the value of x, PS1 or PS2, the nounset option
NoCall == [toks |-> <<>>, x |-> Unset, first |-> TRUE, nou |-> FALSE, tty |-> FALSE, k |-> 0]
\* EofGuard: interactive (first), ignoreeof (nou), terminal, number of end-of-file conditions
GuardCases == {[toks |-> <<>>, x |-> Unset, first |-> i, nou |-> g, tty |-> t, k |-> k] :
                 i \in BOOLEAN, g \in BOOLEAN, t \in BOOLEAN, k \in {0, 1, 2, 49, 50, 51}}
CallCases == {[toks |-> t, x |-> x, first |-> f, nou |-> n, tty |-> FALSE, k |-> 0] :
                t \in PS1s \cup (IF Deep = 1 THEN PS2pairs ELSE {p \in PS2pairs : p[2].k \in {"lit", "var", "inc"}}),
                x \in XVals \cup {Unset}, f \in BOOLEAN, n \in BOOLEAN}
CallOK(cc) == ~(cc.nou /\ \E i \in DOMAIN cc.toks : SideEff(cc.toks[i]))

Init == \/ \E fam \in Fams \ {"call", "guard"} : \E ce \in Start(fam) :
             /\ Modelled(ce[1], Init0(ce[1]))
             /\ st = [fam |-> fam, c |-> ce[1], es |-> ce[2], S |-> Init0(ce[1]), call |-> NoCall]
        \/ /\ "call" \in Fams
           /\ \E cc \in CallCases : CallOK(cc) /\ st = [fam |-> "call", c |-> Tty, es |-> <<>>, S |-> Init0(Tty), call |-> cc]
        \/ /\ "guard" \in Fams
           /\ \E cc \in GuardCases : st = [fam |-> "guard", c |-> Tty, es |-> <<>>, S |-> Init0(Tty), call |-> cc]
Next == /\ st.fam \notin {"call", "guard"}
        /\ Len(st.es) < MaxLen(st.fam)
        /\ \E e \in Alphabet(st.fam, st.c, st.es) :
             /\ Allowed(st.fam, st.c, st.S, st.es, e)
             /\ st' = [st EXCEPT !.es = Append(@, e), !.S = Step(st.c, st.S, e, "spec")]
Spec == Init /\ [][Next]_vars

-----------------------------------------------------------------------------
\* how to start the shell
Args(c) == (IF c.via = "rc" /\ HasPS(c) THEN <<"--rcfile", "/tmp/rc">> ELSE <<>>)
           \o (IF c.iflag = "" THEN <<>> ELSE <<c.iflag>>)
           \o (IF c.mflag = "" THEN <<>> ELSE <<c.mflag>>)
           \o (IF c.ign THEN <<"-o", "ignoreeof">> ELSE <<>>)
           \o (IF c.vb THEN <<"-v">> ELSE <<>>)
EnvOf(c) == IF c.via # "env" THEN <<>>
            ELSE (IF IsNoPS(c.ps1) THEN <<>> ELSE <<<<"PS1", RawPS(c.ps1)>>>>)
                 \o (IF IsNoPS(c.ps2) THEN <<>> ELSE <<<<"PS2", RawPS(c.ps2)>>>>)
Feat(es) == [i \in DOMAIN es |-> es[i].t \o (IF es[i].f = "" THEN "" ELSE ":" \o es[i].f)
                                        \o (IF es[i].t = "multi" /\ es[i].i > 0 THEN "@eof" ELSE "")]
RECURSIVE AsSeq(_)
AsSeq(f) == IF Len(f) = 0 THEN <<>> ELSE <<f[1]>> \o AsSeq(Tail(f))
RECURSIVE PsFeat(_)
PsFeat(es) == IF es = <<>> THEN <<>>
              ELSE (IF Head(es).t = "ps" THEN <<RawPS(Head(es).toks)>> ELSE <<>>) \o PsFeat(Tail(es))

Line(s) ==
  LET F == Finish(s.c, s.S, "spec")
  IN [fam |-> s.fam, src |-> s.c.src, tin |-> s.c.tin, terr |-> s.c.terr, args |-> Args(s.c), env |-> EnvOf(s.c),
      rc |-> IF s.c.via = "rc" THEN RcText(s.c) ELSE "", inter |-> Interactive(s.c),
      chunks |-> F.chunks, pat |-> F.pat, out |-> F.out, ev |-> F.ev,
      feat |-> AsSeq(Feat(s.es)), ps |-> PsFeat(s.es), n1 |-> F.n1, n2 |-> F.n2]

CallStatus == 5      \* the harness sets $? to 5 before the call
CallLine(cc) ==
  LET V0 == [v \in VarNames |-> IF v = "x" THEN cc.x ELSE Unset]
      d == ShowPS(cc.toks, cc.first, V0, CallStatus, cc.nou, "spec")
  IN [fam |-> "call", text |-> RawPS(cc.toks), first |-> cc.first, nou |-> cc.nou, x |-> cc.x,
      pat |-> d.p, post |-> <<d.V["x"], d.V["u"], d.V["n"]>>]

GuardLine(cc) ==
  LET g == GuardExpect(cc.first, cc.tty, cc.nou, cc.k)
  IN [fam |-> "guard", inter |-> cc.first, ign |-> cc.nou, tty |-> cc.tty, k |-> cc.k, pat |-> g.pat, ret |-> g.ret]

Emit == CASE st.fam = "call" -> PrintT(ToJson(CallLine(st.call)))
          [] st.fam = "guard" -> PrintT(ToJson(GuardLine(st.call)))
          [] OTHER -> PrintT(ToJson(Line(st)))

-----------------------------------------------------------------------------
(***************************************************************************)
(* Laws of the model, checked on every enumerated session.                  *)
(***************************************************************************)
CountT(es, T) == Cardinality({i \in DOMAIN es : es[i].t \in T})
Lines(e) == CASE e.t = "multi" -> Len(Form(e.f, e.k).lines) [] e.t = "synerr" -> Len(ErrForm(e.f))
              [] e.t = "read" -> 2 [] e.t = "eof" -> 0 [] OTHER -> 1
RECURSIVE SumLines(_)
SumLines(es) == IF es = <<>> THEN 0 ELSE Lines(Head(es)) + SumLines(Tail(es))
RECURSIVE CountItems(_, _)
CountItems(p, k) == IF p = <<>> THEN 0 ELSE (IF Head(p)[1] = k THEN 1 ELSE 0) + CountItems(Tail(p), k)
RECURSIVE HasX(_)
RECURSIVE AnyHasX(_)
HasX(p) == IF p = <<>> THEN FALSE
           ELSE \/ Head(p)[1] = "X"
                \/ (IF Head(p)[1] = "A" THEN AnyHasX(Head(p)[2]) ELSE FALSE)
                \/ HasX(Tail(p))
AnyHasX(as) == IF as = <<>> THEN FALSE ELSE HasX(Head(as)) \/ AnyHasX(Tail(as))
Plain(es) == \A i \in DOMAIN es : es[i].t \notin {"eof", "exit", "read"} /\ ~(es[i].t = "multi" /\ es[i].i > 0)

Laws ==
  st.fam \notin {"call", "guard"} =>
  LET c == st.c  es == st.es  F == Finish(c, st.S, "spec")
  IN \* a shell that does not prompt writes no prompt at all
     /\ ~Prompting(c) => (F.n1 = 0 /\ F.n2 = 0)
     \* PS1 is written once per command line read plus once when the end of input is met;
     \* PS2 once per further line of a command
     /\ (Prompting(c) /\ Plain(es) /\ ~Ignoring(c, st.S)) =>
          (F.n1 = Len(es) + 1 /\ F.n2 = SumLines(es) - Len(es))
     \* the session state does not depend on how it is folded
     /\ (Len(es) <= 2) => PatKey(Session(c, es, "spec").pat) = PatKey(F.pat)
     \* the pattern accepts its own renderings, and nothing longer
     /\ (Len(es) <= 2 /\ ~Ignoring(c, st.S)) =>
          (Matches(F.pat, Render(F.pat)) /\ Matches(F.pat, RenderLast(F.pat)) /\ (HasX(F.pat) \/ ~Matches(F.pat, Render(F.pat) \o "@")))
     \* a non-interactive shell reports no jobs and announces none
     /\ ~Interactive(c) => CountItems(F.pat, "N") = 0
     \* every input line is in exactly one chunk
     /\ Plain(es) => Len(F.chunks) = 1

\* every "!!" pair yields one "!", every other "!" one history number
RECURSIVE Bangs(_, _)
Bangs(s, i) == IF i > Len(s) THEN 0 ELSE (IF At(s, i) = "!" THEN 1 ELSE 0) + Bangs(s, i + 1)
ExclLaw == \A s \in {"", "!", "!!", "!!!", "!!!!", "a!b", "a!!b!", "!a!!", "!!!!!"} :
             LET p == Excl(s) IN Bangs(Render(p), 1) = Bangs(s, 1) \div 2 /\ CountItems(p, "H") = Bangs(s, 1) % 2
ASSUME ExclLaw

(***************************************************************************)
(* Negative configurations: the concrete output of the wrong variant is     *)
(* claimed to be acceptable; TLC must refute the claim.                     *)
(***************************************************************************)
Refute ==
  (Variant # "spec" /\ st.fam \notin {"call", "guard"}) =>
     LET W == Session(st.c, st.es, Variant)
         F == Finish(st.c, st.S, "spec")
     IN Matches(F.pat, Render(W.pat))
=============================================================================
