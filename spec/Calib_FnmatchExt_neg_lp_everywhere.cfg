INIT Init
NEXT Next
CONSTANTS
  Variant = "lp_everywhere"
INVARIANT C_LpMid
