SPECIFICATION Spec
CONSTANT Fams = {"core2", "core3", "delims", "two", "three", "places", "places3", "bare"}
CONSTANT Deep = 0
INVARIANT Emit
