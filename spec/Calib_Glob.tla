----------------------------- MODULE Calib_Glob -----------------------------
(***************************************************************************)
(* Calibration of the oracle Glob.tla (DESIGN.md 4.4): worked examples     *)
(* transcribed by hand from the project's manual and from its POSIX        *)
(* conformance script, each citing its source.  TLC evaluates the ASSUMEs  *)
(* at the start of every check; a failing one is a defect of the           *)
(* specification (tool error, exit 2), never a violation.                  *)
(***************************************************************************)
EXTENDS Glob

VARIABLE x
Init == x = 0
Next == UNCHANGED x

Cwd == <<"w">>
D(p) == <<"w">> \o p
Tree(dirs, files) ==
  [p \in {D(q) : q \in dirs \cup files} \cup {<<"w">>} |->
     [k |-> IF p = <<"w">> \/ \E q \in dirs : p = D(q) THEN "d" ELSE "f", to |-> <<>>]]

U(k, s) == [k |-> k, s |-> s]
Lit(s) == <<U("lit", s)>>
Only(us, T, res) == ~Unspecified(us) /\ Allowed(us, T, Cwd, FALSE) = {res}

(* yash-cli/tests/scripted_test/path-p.sh (set-up lines 5-13) *)
P == Tree({<<"foo">>, <<"foo", "dir">>, <<"foo", "no_read_dir">>, <<"foo", "no_search_dir">>,
           <<"bar">>, <<"bar", "a[b">>, <<"bar", "a[b", "c]d">>,
           <<"baz">>, <<"baz", ".dir">>, <<"baz", ".dir", ".file">>},
          {<<"foo", "dir", "file">>, <<"foo", "no_read_dir", "file">>, <<"foo", "no_search_dir", "file">>})

ASSUME WellFormedTree(P)
\* 'expansion with read-and-searchable directory'
ASSUME Only(Lit("foo/*dir"), P, <<"foo/dir", "foo/no_read_dir", "foo/no_search_dir">>)
ASSUME Only(Lit("foo/d*r/f*e"), P, <<"foo/dir/file">>)
\* '* does not match slash', '? does not match slash', '[...] does not match slash'
ASSUME Only(Lit("foo*dir*file"), P, <<"foo*dir*file">>)
ASSUME Only(Lit("foo?dir?file"), P, <<"foo?dir?file">>)
ASSUME Only(Lit("foo[/]dir[/]file"), P, <<"foo[/]dir[/]file">>)
ASSUME Only(Lit("bar/a[b/c]d"), P, <<"bar/a[b/c]d">>)
\* '* / ? / [!...] does not match initial dot'
ASSUME Only(Lit("baz/*dir/*file"), P, <<"baz/*dir/*file">>)
ASSUME Only(Lit("baz/?dir/?file"), P, <<"baz/?dir/?file">>)
ASSUME Only(Lit("baz/[!a]dir/[!1-9]file"), P, <<"baz/[!a]dir/[!1-9]file">>)
\* 'literal . and .. are not filtered out'
ASSUME Only(Lit("b*/../."), P, <<"bar/../.", "baz/../.">>)
\* 'pathnames are sorted according to current collating sequence'
ASSUME Only(Lit("[fb]*/"), P, <<"bar/", "baz/", "foo/">>)
\* path-y.sh / globbing.md "Hidden files": no pattern matches . or ..
ASSUME Only(Lit("baz/.*/"), P, <<"baz/.dir/">>)

(* docs/src/language/words/globbing.md *)
G == Tree({<<"docs">>, <<"notes">>},
          {<<"notes.txt">>, <<"todo.txt">>, <<"x.log">>, <<"docs", "readme.txt">>, <<"notes", "todo.txt">>,
           <<"docs", "a.md">>, <<".hidden.txt">>, <<".backup.log">>, <<"[a">>, <<"[b">>, <<"[c">>})
\* "echo *.txt -> notes.txt todo.txt"
ASSUME Only(Lit("*.txt"), G, <<"notes.txt", "todo.txt">>)
\* "Unmatched brackets": echo [a -> [a ; echo \[* -> [a [b [c
ASSUME Only(Lit("[a"), G, <<"[a">>)
ASSUME Only(<<U("bs", "["), U("lit", "*")>>, G, <<"[a", "[b", "[c">>)
\* "Subdirectories": echo */*.txt -> docs/readme.txt notes/todo.txt
ASSUME Only(Lit("*/*.txt"), G, <<"docs/readme.txt", "notes/todo.txt">>)
\* "the pattern a[/]b only matches the literal pathname a[/]b, not a/b"
ASSUME Only(Lit("a[/]b"), Tree({<<"a">>, <<"a[">>}, {<<"a", "b">>, <<"a[", "]b">>}), <<"a[/]b">>)
ASSUME Only(Lit("a[/]b"), Tree({<<"a">>}, {<<"a", "b">>}), <<"a[/]b">>)
\* "Hidden files": echo .*.txt -> .hidden.txt ; echo .* -> .backup.log .hidden.txt
ASSUME Only(Lit(".*.txt"), G, <<".hidden.txt">>)
ASSUME Only(Lit(".*"), G, <<".backup.log", ".hidden.txt">>)
\* "If the noglob shell option is set, pathname expansion is skipped."
ASSUME Allowed(Lit("*.txt"), G, Cwd, TRUE) = {<<"*.txt">>}
\* "No matches": "If a pattern does not match any files, it is left unchanged."
ASSUME Only(Lit("*.md"), G, <<"*.md">>)

(* docs/src/patterns.md "Quoting" *)
\* echo a\*b -> a*b ; asterisk='*'; echo "$asterisk" -> *
Q == Tree({}, {<<"a*b">>, <<"aXb">>, <<"zz">>})
ASSUME Only(<<U("lit", "a"), U("bs", "*"), U("lit", "b")>>, Q, <<"a*b">>)
ASSUME Only(<<U("dqvar", "*")>>, Q, <<"*">>)
\* quoted='a\*b'; echo $quoted -> a\*b  (no file a*b in the manual's example)
ASSUME Only(<<U("var", "a\\*b")>>, Tree({}, {<<"zz">>}), <<"a\\*b">>)
\* XCU 2.14.1 "The escaping <backslash> shall be discarded": with a special
\* character in the word the word is matched, the backslash matching nothing
ASSUME Only(<<U("var", "?\\*b")>>, Q, <<"a*b">>)
\* XCU 2.6.1 tilde results are not subject to pathname expansion
ASSUME Only(<<U("tilde", "/w/*"), U("lit", "/z*")>>, Q, <<"/w/*/z*">>)
=============================================================================
