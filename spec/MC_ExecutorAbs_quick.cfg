SPECIFICATION ASpec
CONSTANTS
  MaxTasks = 2
  NChan = 2
  Budget = 3
  MaxOver = 2
  YieldFree = FALSE
VIEW aview
INVARIANT AbsInv
PROPERTY RelayForward
PROPERTY StatusForward
