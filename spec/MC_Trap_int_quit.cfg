SPECIFICATION Spec
CONSTANTS
  Sigs = {"INT", "QUIT"}
  WithExit = FALSE
  MaxH = 100
  UniformInit = FALSE
  InitVals = {"D", "I"}
VIEW view
INVARIANT Consistent
INVARIANT EmitState
PROPERTY ExactlyOnce
PROPERTY InitiallyIgnoredRefused
