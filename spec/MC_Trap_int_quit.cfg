SPECIFICATION Spec
CONSTANTS
  Sigs = {"INT", "QUIT"}
  WithExit = FALSE
  MaxH = 100
  UniformInit = FALSE
VIEW view
INVARIANT Consistent
INVARIANT EmitState
PROPERTY ExactlyOnce
PROPERTY InitiallyIgnoredRefused
