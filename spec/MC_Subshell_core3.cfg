\* C08 thorough: every scenario with at most 3 mutators in total over one
\* representative per mutator class
CONSTANTS
  MaxPre = 1
  MaxChild = 2
  MaxPost = 1
  MaxTotal = 3
  MinPre = 0
  MinTotal = 0
  Leaky = FALSE
  ForkBug = "none"
  Alphabet <- CoreCmds
  PreAlphabet <- CorePreCmds
  Kinds <- AllKinds
  Modes <- ScriptMode
  Fins <- NormalFin
  Ctxs <- MainCtx
INIT Init
NEXT Next
INVARIANTS NoForeignTrapAction EntryIsForkImage PendingCleared ParentTrapOnce ContextDuplicated TrapRule SharedDescriptions Final Emit
PROPERTIES Isolation CopyNotReference
