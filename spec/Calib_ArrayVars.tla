-------------------------- MODULE Calib_ArrayVars --------------------------
(***************************************************************************)
(* Calibration of the G13 oracle (ArrayVars.tla): every example of the     *)
(* manual that involves an array or a modifier on * / @, and the scripted  *)
(* tests of yash-cli/tests/scripted_test that do (simple-y.sh, typeset-y.sh*)
(* param-y.sh, param-p.sh, read-y.sh), transcribed by hand (the scripted   *)
(* tests cannot run in this sandbox).  Variables are renamed to a / b / c. *)
(* A failing ASSUME is a tool error (the oracle is wrong), never a         *)
(* violation.                                                              *)
(***************************************************************************)
EXTENDS ArrayVars

L(s) == WLit(s)
SQ(s) == WSq(s)
DQ(us) == WDq(us)
P(p) == WPar(p)
PL(p) == WLen(p)
SW(p, colon, act, w) == WSw(p, colon, act, w)
TR(p, side, long, w) == WTrim(p, side, long, w)

DefIfs == [Fresh EXCEPT !.IFS = Var(VS(" \t\n"), FALSE, FALSE)]
WithA(v) == SetVal(DefIfs, "a", v)
WithPos(p) == [DefIfs EXCEPT !.pos = p]

F(ws, st) == LET O == Fields(ws, st) IN IF Len(O) = 1 /\ O[1].k = "ok" THEN O[1].f ELSE <<"?not-ok-or-ambiguous?">>
J(w, st) == LET O == Single(w, st) IN IF Len(O) = 1 /\ O[1].k = "ok" THEN O[1].j ELSE "?not-ok-or-ambiguous?"
K(ws, st) == Fields(ws, st)[1].k
Echo(ws, st) == JoinStr(F(ws, st), " ")
After(st, cmds) == Run(st, cmds)
Shows(st, cmd) == Step(st, cmd)[1]

\* --- variables.md, Arrays ---------------------------------------------------
\* $ fruits=(apple banana cherry)
\* $ for fruit in "$fruits"; do echo "$fruit"; done  ->  apple / banana / cherry
Fruits == After(DefIfs, <<CArr("a", <<L("apple"), L("banana"), L("cherry")>>)>>)
ASSUME ValOf(Fruits.a) = VA(<<"apple", "banana", "cherry">>)
ASSUME Shows(Fruits, CFor(<<DQ(P("a"))>>)).f = <<"apple", "banana", "cherry">>

\* --- parameters.md, Length --------------------------------------------------
\* $ users=(Alice Bob Charlie)
\* $ echo "Lengths of users: ${#users}"   ->  Lengths of users: 5 3 7
Users == WithA(VA(<<"Alice", "Bob", "Charlie">>))
ASSUME Echo(<<DQ(L("Lengths of users: ") \o PL("a"))>>, Users) = "Lengths of users: 5 3 7"
\* $ set yellow red green blue
\* $ echo "Lengths of positional parameters: ${#*}"  -> ... 6 3 5 4
Colours == WithPos(<<"yellow", "red", "green", "blue">>)
ASSUME F(<<DQ(L("Lengths of positional parameters: ") \o PL("*"))>>, Colours)
         = <<"Lengths of positional parameters: 6 3 5 4">>
\* scalar example of the same section
ASSUME F(<<DQ(L("Length of user: ") \o PL("a"))>>, WithA(VS("Alice"))) = <<"Length of user: 5">>

\* --- special.md (the multi-valued parameters this module generalises) -------
Foo == WithPos(<<"foo", "bar bar", "baz">>)
ASSUME F(<<DQ(P("@"))>>, Foo) = <<"foo", "bar bar", "baz">>
ASSUME F(<<P("@")>>, Foo) = <<"foo", "bar", "bar", "baz">>
ASSUME F(<<DQ(P("*"))>>, Foo) = <<"foo bar bar baz">>
ASSUME F(<<P("*")>>, Foo) = <<"foo", "bar", "bar", "baz">>
ASSUME F(<<DQ(P("@"))>>, WithPos(<<>>)) = <<>>
\* "In contexts where only one field is expected ... joined by the first character of IFS
\*  (defaults to space if unset, or no separator if IFS is empty)"
ASSUME J(P("@"), Foo) = "foo bar bar baz"
ASSUME J(P("@"), SetVal(Foo, "IFS", VS(":x"))) = "foo:bar bar:baz"
ASSUME J(P("@"), SetVal(Foo, "IFS", VS(""))) = "foobar barbaz"
ASSUME J(P("@"), SetVal(Foo, "IFS", VU)) = "foo bar bar baz"
\* the same for an array ([D] expand_word / ifs_join)
ASSUME J(P("a"), SetVal(WithA(VA(<<"foo", "bar bar", "baz">>)), "IFS", VS(":x"))) = "foo:bar bar:baz"
ASSUME J(DQ(P("a")), SetVal(WithA(VA(<<"foo", "bar bar", "baz">>)), "IFS", VS(""))) = "foobar barbaz"

\* --- field_splitting.md: "Field splitting only happens where words are expected, such as
\* simple command words, for loop words, and array assignments.  It does not occur in
\* contexts expecting a single word, like scalar assignments"
Flags == SetVal(DefIfs, "b", VS("-a -l"))
ASSUME ValOf(After(Flags, <<CArr("a", <<P("b")>>)>>).a) = VA(<<"-a", "-l">>)
ASSUME ValOf(After(Flags, <<CArr("a", <<DQ(P("b"))>>)>>).a) = VA(<<"-a -l">>)
ASSUME ValOf(After(Flags, <<CSca("a", P("b"))>>).a) = VS("-a -l")

\* --- typeset.md, Printing variables ------------------------------------------
\* $ foo='some value that contains spaces'; bar=(this is a readonly array); typeset -r bar
\* $ typeset -p foo bar
\* typeset foo='some value that contains spaces'
\* bar=(this is a readonly array)
\* typeset -r bar
Tp == After(DefIfs, <<CSca("b", SQ("some value that contains spaces")),
                      CArr("a", <<L("this"), L("is"), L("a"), L("readonly"), L("array")>>), CRo("a")>>)
ASSUME Shows(Tp, CPrint("typeset", "b")).f = <<"typeset">>
ASSUME Shows(Tp, CPrint("typeset", "a")).f = <<"asg", "typeset -r">>
ASSUME Shows(Tp, CPrint("typeset", "a")).x = <<Var(VA(<<"this", "is", "a", "readonly", "array">>), TRUE, FALSE)>>
\* "the typeset command is omitted if no options are applied to the variable"
ASSUME Shows(Users, CPrint("typeset", "a")).f = <<"asg">>
\* variables.md, Read-only variables: assigning to a read-only variable is an error
ASSUME Shows(Tp, CSca("a", L("3.14159"))).k = "readonly"
ASSUME Shows(Tp, CArr("a", <<L("x")>>)).k = "readonly"
ASSUME Shows(Tp, CUnset("a")).k = "readonly"          \* unset.md: "Unsetting a read-only variable ... is an error"
ASSUME Shows(Tp, CUnset("c")).k = "ok"                \* "It is not an error to unset a variable ... that is not set"

\* --- simple-y.sh 'without portable, an array assignment is accepted' ---------
\* a=(b c); for i in "$a"; do echo "$i"; done  ->  b / c
ASSUME Shows(After(DefIfs, <<CArr("a", <<L("b"), L("c")>>)>>), CFor(<<DQ(P("a"))>>)).f = <<"b", "c">>

\* --- typeset-y.sh 'defining and printing local array (no option)' ------------
\* a=(This is my array.); printf '%s\n' "$a" -> four lines; typeset -> a=(This is my array.)
My == After(DefIfs, <<CArr("a", <<L("This"), L("is"), L("my"), L("array.")>>)>>)
ASSUME Shows(My, CProbe(<<SQ("%s\\n"), DQ(P("a"))>>)).f = <<"%s\\n", "This", "is", "my", "array.">>
ASSUME Shows(My, CPrint("typeset", "a")).f = <<"asg">>
\* 'printing array variable (-p)': a=() b=(1 '2  2' 3); typeset -x b; typeset -p a b
\*   a=() / b=(1 '2  2' 3) / typeset -x b
Pa == After(DefIfs, <<CArr("a", <<>>), CArr("b", <<L("1"), SQ("2  2"), L("3")>>), CExport("b")>>)
ASSUME ValOf(Pa.a) = VA(<<>>) /\ ValOf(Pa.b) = VA(<<"1", "2  2", "3">>)
ASSUME Shows(Pa, CPrint("typeset", "a")).f = <<"asg">>
ASSUME Shows(Pa, CPrint("typeset", "b")).f = <<"asg", "typeset -x">>
\* 'separator preceding array variable name starting with -' (shape only)
ASSUME Shows(After(DefIfs, <<CArr("c", <<L("1"), L("2"), L("3")>>), CExport("c")>>), CPrint("typeset", "c")).f
         = <<"asg", "typeset -x">>
\* export.md / readonly.md: "the built-in invocation is preceded by a separate assignment command"
ASSUME Shows(Pa, CPrint("export", "b")).f = <<"asg", "export">>
ASSUME Shows(Tp, CPrint("readonly", "a")).f = <<"asg", "readonly">>

\* --- read-y.sh 'array - set -o allexport': sh -u -c 'echo "[$a]" "[$b]"' -> [A] [B:C:D]
\* (read -A is not implemented; what the test fixes about exporting an array is the `:` join,
\*  [D] env_c_strings)
ASSUME Shows(After(DefIfs, <<CSca("a", L("A")), CExport("a"), CArr("b", <<L("B"), L("C"), L("D")>>), CExport("b")>>),
             CEnv).x = <<"a=A", "b=B:C:D">>

\* --- param-y.sh 'without portable, unspecified parameter modifiers are accepted'
\* set -- ax bx; : ${#*} ${#@} ${*+x} ${@:+x} ${*#x} ${@%x}   (exit status 0)
Ax == WithPos(<<"ax", "bx">>)
ASSUME K(<<PL("*")>>, Ax) = "ok" /\ K(<<PL("@")>>, Ax) = "ok"
ASSUME K(<<SW("*", FALSE, "+", L("x"))>>, Ax) = "ok" /\ K(<<SW("@", TRUE, "+", L("x"))>>, Ax) = "ok"
ASSUME K(<<TR("*", "#", FALSE, L("x"))>>, Ax) = "ok" /\ K(<<TR("@", "%", FALSE, L("x"))>>, Ax) = "ok"
ASSUME F(<<PL("*")>>, Ax) = <<"2", "2">>
ASSUME F(<<TR("@", "%", FALSE, L("x"))>>, Ax) = <<"a", "b">>
ASSUME F(<<SW("@", TRUE, "+", L("x"))>>, Ax) = <<"x">>
\* --- param-p.sh 'assigning to special parameter': bracket ${*:=} fails --------
ASSUME K(<<SW("*", TRUE, "=", <<>>)>>, WithPos(<<>>)) = "nonassignable"
\* 'assigning to positional parameter': bracket ${1:=} fails
ASSUME K(<<SW("1", TRUE, "=", <<>>)>>, WithPos(<<>>)) = "nonassignable"
\* 'assigning to read-only variable': readonly n; bracket ${n:=}
ASSUME K(<<SW("a", TRUE, "=", <<>>)>>, After(DefIfs, <<CRo("a")>>)) = "readonly"

\* --- [D] Vacancy (switch.rs: vacancy_of_values) -------------------------------
ASSUME Vacancy(VU) = "unset" /\ Vacancy(VS("")) = "empty" /\ Vacancy(VS(".")) = "none"
ASSUME Vacancy(VA(<<>>)) = "noelem" /\ Vacancy(VA(<<"">>)) = "emptyelem"
ASSUME Vacancy(VA(<<".">>)) = "none" /\ Vacancy(VA(<<"", "">>)) = "none"
\* parameters.md Switch, transcribed to arrays
ASSUME F(<<DQ(SW("a", FALSE, "-", L("World")))>>, WithA(VA(<<"Alice">>))) = <<"Alice">>
ASSUME F(<<DQ(SW("a", FALSE, "-", L("World")))>>, DefIfs) = <<"World">>
ASSUME F(<<DQ(SW("a", TRUE, "-", L("World")))>>, WithA(VA(<<>>))) = <<"World">>
ASSUME F(<<DQ(SW("a", FALSE, "-", L("World")))>>, WithA(VA(<<>>))) = <<>>
ASSUME F(<<DQ(SW("a", FALSE, "+", L("World")))>>, WithA(VA(<<>>))) = <<"World">>

\* --- [D] doc tests: trim.rs shortest_prefix_with_array, param.rs length_of_array,
\* Value::quote is bound by the round trip, env_c_strings above
ASSUME F(<<DQ(TR("a", "#", FALSE, L("*2")))>>, WithA(VA(<<"0", "12321", "112211">>))) = <<"0", "321", "211">>
ASSUME F(<<DQ(PL("a"))>>, WithA(VA(<<"", "foo", "1", "bar">>))) = <<"0", "3", "1", "3">>

\* --- conservative over Expand.tla on scalars (spot checks; Gen_ArrayVars checks it on
\* the whole enumeration)
ASSUME F(<<P("a")>>, SetVal(WithA(VS("a:b::c:d")), "IFS", VS(":"))) = <<"a", "b", "", "c", "d">>
ASSUME F(<<DQ(L("x") \o P("a") \o L("y"))>>, WithA(VA(<<"1", "2", "3">>))) = <<"x1", "2", "3y">>
ASSUME F(<<DQ(L("x") \o P("a") \o L("y"))>>, WithA(VA(<<>>))) = <<"xy">>
=============================================================================
