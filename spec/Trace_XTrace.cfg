SPECIFICATION Spec
INVARIANT Judge
CHECK_DEADLOCK FALSE
