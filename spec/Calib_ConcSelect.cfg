SPECIFICATION CalibSpec
CONSTANTS
  NT = 3
  NP = 2
  NS = 2
  Cap = 2
  MaxNow = 2
  Budget = 3
  MaxExt = 3
  MaxSel = 2
  MaxSpur = 0
  Base0 = {}
  Variant = "ok"
  Hist = "on"
  Loop = FALSE
  Peek = TRUE
  Sym = FALSE
  Fam = "calib"
  Ops <- FamOps
  Exts <- FamExts
INVARIANT Mark
INVARIANT Never3
INVARIANT TypeOK
INVARIANT I_PendingRegistered
INVARIANT I_Mask
INVARIANT I_MaskInSelect
INVARIANT I_SelMask
INVARIANT I_CaughtInside
POSTCONDITION AllReached
CHECK_DEADLOCK FALSE
