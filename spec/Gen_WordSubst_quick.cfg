SPECIFICATION Spec
CONSTANT Variant = "spec"
CONSTANT MaxLen = 1
CONSTANT PairSlice = 1
CONSTANT TripleSlice = 0
CONSTANT RawMax = 2
CONSTANT DoEmit = TRUE
INVARIANT Emit
