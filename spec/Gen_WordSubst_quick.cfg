SPECIFICATION Spec
CONSTANT Variant = "spec"
CONSTANT MaxLen = 2
CONSTANT PairCoreSlice = 1
CONSTANT PairNewSlice = 40
CONSTANT Wide = FALSE
CONSTANT TripleSlice = 0
CONSTANT RawMax = 3
CONSTANT DoEmit = TRUE
INVARIANT Emit
