SPECIFICATION Spec
CONSTANT Fams = {"vars"}
CONSTANT Deep = 0
CONSTANT Variant = ""
INVARIANT Check
