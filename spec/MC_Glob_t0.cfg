INIT Init
NEXT Next
VIEW View
CONSTANTS
  MaxLen = 2
  FullLen = 2
  Core = {1,3,4,5,6,7,8,9,10,11,12}
  Families = {"rich"}
  NRand = 0
  RandSize = 0

INVARIANT TreesOK
INVARIANT T_Exist
INVARIANT T_Complete
INVARIANT T_Sorted
INVARIANT T_Quoted
INVARIANT T_Period
INVARIANT T_Fallback
