
