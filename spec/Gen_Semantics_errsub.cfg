SPECIFICATION Spec
CONSTANTS
  Fuel = 24
  TickLimit = 2
  K = 6
  Alphabet <- AlphaErrSub
  ItemAlphabet <- NoItems
  Mode = "c10"
INVARIANT Emit
CHECK_DEADLOCK FALSE
