----------------------------- MODULE MC_OptSpell -----------------------------
(***************************************************************************)
(* Sanity theorem tying the generative definition to the functional one    *)
(* (the converse is OptParseMachine!OnlySpellings): for every invocation   *)
(* `inv` over a table (up to MaxOpts options with option-arguments from    *)
(* ArgVals, up to MaxOps operands from OpVals)                             *)
(*   - every element of Spellings(inv) is accepted and parses back to inv  *)
(*     ("equivalent spellings mean the same"),                             *)
(*   - inv has at least one spelling whenever each of its options has a    *)
(*     name usable in the mode.                                            *)
(***************************************************************************)
EXTENDS OptTables

CONSTANTS TableIds, ModeIds, MaxOpts, MaxOps

VARIABLES specs, mode, inv
vars == <<specs, mode, inv>>

ArgVals == {Chars("X"), <<>>, Chars("-a"), Chars("--"), Chars("-"), Chars("=")}
OpVals == {Chars("X"), Chars("-"), Chars("--"), Chars("-a"), <<>>, Chars("--long")}

Init == /\ \E t \in TableIds : specs = TableOf(t)
        /\ \E m \in ModeIds : mode = ModeOfId(m)
        /\ inv = Invocation(<<>>, <<>>)

AddOption ==
  /\ Len(inv.opts) < MaxOpts /\ inv.operands = <<>>
  /\ \E i \in DOMAIN specs :
       \E a \in (IF specs[i].a THEN ArgVals ELSE {<<>>}) :
         inv' = [inv EXCEPT !.opts = Append(@, InvOpt(i, specs[i].a, a))]
  /\ UNCHANGED <<specs, mode>>

AddOperand ==
  /\ Len(inv.operands) < MaxOps
  /\ \E w \in OpVals : inv' = [inv EXCEPT !.operands = Append(@, w)]
  /\ UNCHANGED <<specs, mode>>

Next == AddOption \/ AddOperand
Spec == Init /\ [][Next]_vars

Usable(i) == /\ ~(specs[i].x /\ ~mode.ext)
             /\ specs[i].s # "" \/ mode.long

SpellingsParseBack ==
  /\ ValidInv(specs, inv)
  /\ \A w \in Spellings(specs, mode, inv) :
       LET r == Parse(specs, mode, w) IN r.ok /\ Canon(w, r) = inv

SomeSpelling ==
  (\A n \in DOMAIN inv.opts : Usable(inv.opts[n].i)) => Spellings(specs, mode, inv) # {}
=============================================================================
