SPECIFICATION TraceSpec
CONSTANTS
  MaxLen = 0
  Modes = {}
  JobIdOps = {}
  PidOps = {}
  Sigs = {}
  JobsOpts = {}
  KillLNums = {}
  MonCmds = {}
  FgSlots = {}
  StartWith = "none"
