----------------------------- MODULE Gen_Fnmatch -----------------------------
(***************************************************************************)
(* P4 enumeration for C04 (spec -> impl), phase 1.  One state per pattern   *)
(* over a token alphabet; for every pattern TLC prints one JSON line with   *)
(* the set of ALL strings of the string domain that the pattern denotes     *)
(* (so the oracle is evaluated once per pattern).  The harness calls the    *)
(* real yash_fnmatch for every (pattern, string).                           *)
(*                                                                          *)
(* Line:  c, l  pattern characters and their quoted flags (1 = quoted)      *)
(*        u     "" or the reason for which POSIX leaves the meaning open    *)
(*        mc    a multi-character collating symbol occurs                   *)
(*        cs    contents of the collating symbols / equivalence classes     *)
(*        nt    descriptive notes on the pattern's shape (for reports)      *)
(*        ft    constructs used: c q s b (atoms), c r cls sym eqv (items),  *)
(*              neg (coverage statistics)                                   *)
(*        m     the strings of the domain denoted by the pattern            *)
(*        x     those of m that literal_period excludes                     *)
(* Header line (printed once): dom = the string domain.                     *)
(***************************************************************************)
EXTENDS Fnmatch, Json

CONSTANTS PNorm,    \* unquoted one-character tokens
          PLit,     \* quoted one-character tokens
          PMacro,   \* multi-character tokens (strings, all characters unquoted)
          PLen,     \* maximal number of tokens
          SAlpha,   \* characters of the strings
          SLen,     \* maximal string length
          Kind      \* "match": lines for the matcher; "shell": lines for ${v#p}.. and case

\* alphabets named here because a .cfg file cannot write a backslash
AlphaFull    == {"a", "b", ".", "-", "*", "?", "[", "]", "!", "^", "\\", ":", "="}
AlphaBracket == {"a", "-", "[", "]", "!", "^", ".", ":", "="}
AlphaWild    == {"a", "b", ".", "*", "?", "[", "]", "!", "-"}
LitSpecial   == {"*", "?", "[", "]", "!", "^", "-", ".", ":", "=", "\\"}
LitCore      == {"*", "[", "]", "-", "!"}
AlphaColl    == {"a", "-", "[", "]"}
AlphaCollT   == {"a", "b", "-", "[", "]", "!"}
AlphaQ       == {"a", ".", "[", "]", "-", "!"}
LitQ         == {"-", "]", "!"}
CollMacros   == {"[.-.]", "[.^.]", "[.].]", "[=a=]"}
AlphaClass   == {"a", "1", "-", "[", "]", "!"}
\* every ASCII punctuation character (an escape of any of them may be special
\* in the regular-expression language) and one letter
AlphaPunct   == {"!", "\"", "#", "$", "%", "&", "'", "(", ")", "*", "+", ",", "-", ".", "/", ":", ";", "<", "=", ">",
                 "?", "@", "[", "\\", "]", "^", "_", "`", "{", "|", "}", "~", "a"}
\* patterns that the implementation rejects (POSIX leaves their meaning open)
ShellMacros  == {"[b-a]", "[[:x:]]"}
\* characters that are operators of the regular-expression language only
AlphaSet     == {"a", "&", "~", "-", "[", "]", "!"}
StrSet       == {"a", "&", "~", "-"}
AlphaRegex   == {"a", "+", "(", ")", "|", "{", "}", "$", "*", "?"}
StrRegex     == {"a", "+", "(", ")", "|", "$", "{", "}", "\n"}
StrFull      == {"a", "b", ".", "-", "]", "^"}
StrSmall     == {"a", ".", "-", "]"}
StrTiny      == {"a", ".", "-"}
AlphaSh      == {"a", ".", "*", "[", "]", "-"}
\* characters that need a backslash INSIDE double quotes (XCU 2.2.3), quoted
AlphaDq      == {"a", "*"}
LitDq        == {"\\", "$", "\"", "`", "*"}
StrDq        == {"a", "\\", "$", "\"", "`"}
LitSh        == {"*", "[", "-"}
StrClass     == {"a", "A", "1", "-", " ", "]"}
StrWide      == {"a", "b", ".", "-", "]", "^", "[", "\\", "*", "!"}
NoChars      == {}
ClassMacros  == {"[:alpha:]", "[:digit:]", "[:punct:]", "[:space:]", "[:upper:]", "[:xdigit:]"}

Tokens == {<<Nc(c)>> : c \in PNorm} \cup {<<Lc(c)>> : c \in PLit}
          \cup {WithoutEscape(Explode(m)) : m \in PMacro}

Dom == UNION {[1..k -> SAlpha] : k \in 0..SLen}

RECURSIVE Join(_)
Join(s) == IF Len(s) = 0 THEN "" ELSE s[1] \o Join(Tail(s))
DomStr == [s \in Dom |-> Join(s)]

\* `case` statement of the shell binding:
\*    case s in (P|a*) 1;; (*.) 2;; (*) 3;; esac        P = the pattern under test
CaseAlt  == "a*"
CaseRest == << <<"*.">>, <<"*">> >>
PA(str) == Parse(WithoutEscape(Explode(str))).atoms
CaseRestA == [i \in 1..Len(CaseRest) |-> [j \in 1..Len(CaseRest[i]) |-> PA(CaseRest[i][j])]]

ASSUME PrintT(ToJson([dom |-> {DomStr[s] : s \in Dom}, case_alt |-> CaseAlt, case_rest |-> CaseRest]))

VARIABLES p, n
vars == <<p, n>>
view == p

Init == p = <<>> /\ n = 0
Next == n < PLen /\ \E t \in Tokens : p' = p \o t /\ n' = n + 1

\* which constructs of the notation the pattern uses (coverage statistics only)
Features(A) ==
  {A[a].t : a \in 1..Len(A)}
  \cup UNION {{A[a].items[m].k : m \in 1..Len(A[a].items)} : a \in Brackets(A)}
  \cup (IF \E a \in Brackets(A) : A[a].neg THEN {"neg"} ELSE {})

Line ==
  LET P  == Parse(p)
      A  == P.atoms
      ok == P.un = {}
      MS == IF ok THEN {s \in Dom : MatchesA(A, s)} ELSE {}
      XS == {s \in MS : ~MatchesPeriodA(A, s)}
  IN [c  |-> [i \in 1..Len(p) |-> p[i].c],
      l  |-> [i \in 1..Len(p) |-> IF p[i].l THEN 1 ELSE 0],
      u  |-> IF ok THEN "" ELSE CHOOSE r \in P.un : TRUE,
      mc |-> P.mc,
      cs |-> {Join(s) : s \in Syms(A)},
      nt |-> ShapeNotes(A),
      ft |-> Features(A),
      m  |-> {DomStr[s] : s \in MS},
      x  |-> {DomStr[s] : s \in XS}]

\* ${s#p} ${s##p} ${s%p} ${s%%p} and the numbers of the case items that may be
\* selected.  Row: <<s, four trim results, c1, c2>>; the item selected must be c1
\* or c2 ("0": none).  For a pattern with a defined meaning c1 = c2.  A pattern
\* whose meaning POSIX leaves open (u # "") denotes SOME set of strings: the
\* trims are not compared, and the first item is selected if the alternative
\* a* matches, else either the first item or whatever the later items select.
ShellLine ==
  LET P   == Parse(p)
      A   == P.atoms
      ok  == P.un = {} /\ ~P.mc
      Sel(s)  == CaseSelectA(s, <<<<A, PA(CaseAlt)>>>> \o CaseRestA)
      Rest(s) == CaseSelectA(s, <<<<PA(CaseAlt)>>>> \o CaseRestA)
  IN [c  |-> [i \in 1..Len(p) |-> p[i].c],
      l  |-> [i \in 1..Len(p) |-> IF p[i].l THEN 1 ELSE 0],
      u  |-> IF P.un = {} THEN (IF P.mc THEN "multi-character collating symbol" ELSE "")
             ELSE CHOOSE r \in P.un : TRUE,
      cs |-> {Join(s) : s \in Syms(A)},
      nt |-> ShapeNotes(A),
      sh |-> IF ok
             THEN {<< DomStr[s],
                      Join(TrimPrefixA(A, s, FALSE)), Join(TrimPrefixA(A, s, TRUE)),
                      Join(TrimSuffixA(A, s, FALSE)), Join(TrimSuffixA(A, s, TRUE)),
                      ToString(Sel(s)), ToString(Sel(s)) >> : s \in Dom}
             ELSE {<< DomStr[s], "", "", "", "", "1", ToString(Rest(s)) >> : s \in Dom}]

Emit == PrintT(ToJson(IF Kind = "shell" THEN ShellLine ELSE Line))
=============================================================================
