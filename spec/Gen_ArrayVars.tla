---------------------------- MODULE Gen_ArrayVars ----------------------------
(***************************************************************************)
(* G13, spec -> impl enumeration and the laws of the model.  TLC's         *)
(* breadth-first search is the enumerator; every selected state prints one *)
(* JSON line which harness/g13 replays on the real shell.  Three families  *)
(* (constant Family):                                                      *)
(*                                                                         *)
(* "w"  words: (row of StateTable, IFS, nounset, word of one to three      *)
(*      units of the alphabet U) -> the allowed outcomes of the word where *)
(*      fields are expected (f) and where one field is expected (j); the   *)
(*      harness runs the word as command word, for-loop word, `set --`     *)
(*      operand, array assignment, scalar assignment, case subject,        *)
(*      here-document text and redirection operand.                        *)
(* "s"  scripts: the shell state is explored as a state machine (commands  *)
(*      of Trans, depth <= Depth; VIEW hides the witness path); every      *)
(*      distinct state prints its witness and the allowed results of every *)
(*      command of the fan (assignments, set, unset, readonly, export,     *)
(*      read, ${n=w}, typeset -p / export -p / readonly -p and their       *)
(*      re-evaluation, the environment of a utility, ...).                 *)
(* "r"  round trips: every list of up to RLen positional parameters over   *)
(*      the element alphabet Elems (empty string, IFS characters, glob     *)
(*      characters, quotes, backslash) x IFS.                              *)
(*                                                                         *)
(* Laws (invariant Laws, checked on every selected state):                 *)
(*  r: c=("$@") makes "$c" reproduce the positional parameters exactly;    *)
(*     set -- "$c"; c=("$@") is the identity; $# = number of elements;     *)
(*     the per-element modifiers commute with element selection.           *)
(*  s: the same two for the arrays of every reachable state; unset, export *)
(*     and readonly never change a value; a failing command changes        *)
(*     nothing; read always leaves a scalar; printing and re-reading gives *)
(*     the variable back.                                                  *)
(*  w: a scalar s and the one-element array <<s>> agree in every context;  *)
(*     length and trim of an array inside double quotes are the length and *)
(*     trim of each element; on scalar-only states the outcomes are those  *)
(*     of Expand.tla (C01) - this module is a conservative extension;      *)
(*     Word = Fields = Single.                                             *)
(***************************************************************************)
EXTENDS ArrayVars, Json, IOUtils

CONSTANTS Family,      \* "w", "s", "r" or "p"
          Slice,       \* w: 1/Slice of the words of 2 and 3 units; s: 1/Slice of the deepest level
          Level,       \* w: 1 reduced alphabet of modifier words, 2 full
          Depth,       \* s: length of the witness paths
          RLen         \* r: number of positional parameters

Seed == IF "SEED" \in DOMAIN IOEnv THEN (CHOOSE n \in 0..9999 : ToString(n) = IOEnv.SEED) ELSE 1

RECURSIVE SeqOfSet(_)
SeqOfSet(S) == IF S = {} THEN <<>> ELSE LET e == CHOOSE e \in S : TRUE IN <<e>> \o SeqOfSet(S \ {e})
RECURSIVE FlattenSeqs(_)
FlattenSeqs(ss) == IF ss = <<>> THEN <<>> ELSE Head(ss) \o FlattenSeqs(Tail(ss))

Li(s) == WLit(s)
Bs(c) == WBs(c)
SQ(s) == WSq(s)
DQ(us) == WDq(us)
P(p) == WPar(p)

---------------------------------------------------------------------------
(* family w: states *)
StateTable == <<
  [a |-> VU,                          b |-> VU,                pos |-> <<>>],
  [a |-> VS(""),                      b |-> VS("x"),           pos |-> <<"">>],
  [a |-> VS("x y"),                   b |-> VA(<<>>),          pos |-> <<"x">>],
  [a |-> VA(<<>>),                    b |-> VS("x*"),          pos |-> <<"x y", "">>],
  [a |-> VA(<<"">>),                  b |-> VU,                pos |-> <<>>],
  [a |-> VA(<<"x">>),                 b |-> VS(""),            pos |-> <<"", "z">>],
  [a |-> VA(<<"", "">>),              b |-> VA(<<"y", "">>),   pos |-> <<":">>],
  [a |-> VA(<<"x y", "">>),           b |-> VS("?"),           pos |-> <<>>],
  [a |-> VA(<<"", "z">>),             b |-> VA(<<"">>),        pos |-> <<"x", "y">>],
  [a |-> VA(<<" x:y ", ":">>),        b |-> VS(":"),           pos |-> <<" ">>],
  [a |-> VA(<<"x*", "?'\"">>),        b |-> VS("x"),           pos |-> <<"x*">>],
  [a |-> VA(<<"xx", "yxy", "x">>),    b |-> VS("*x"),          pos |-> <<"xyx", "xx">>],
  [a |-> VA(<<"e", "x\\">>),          b |-> VU,                pos |-> <<"e e">>],
  [a |-> VA(<<"x", "", "y z", "*">>), b |-> VA(<<"x", "y">>),  pos |-> <<"", "">>],
  [a |-> VA(<<"x:", "::y">>),         b |-> VS("y"),           pos |-> <<"x:y", "z w">>],
  [a |-> VA(<<"\tx", "y\n">>),        b |-> VS(" "),           pos |-> <<>>],
  [a |-> VS(" x:y "),                 b |-> VS("x*"),          pos |-> <<"x y", "">>],
  [a |-> VS("x*"),                    b |-> VU,                pos |-> <<"x">>] >>
IfsTable == << VU, VS(""), VS(" "), VS(":"), VS(" :") >>

MkState(si, fi, nu) ==
  [a |-> Var(StateTable[si].a, FALSE, FALSE), b |-> Var(StateTable[si].b, FALSE, FALSE), c |-> NoVar,
   IFS |-> Var(IfsTable[fi], FALSE, FALSE), pos |-> StateTable[si].pos, nounset |-> nu]

(* the unit alphabet *)
Core == Li("x") \o Li(":") \o SQ("") \o DQ(<<>>) \o P("a") \o DQ(P("a")) \o P("@") \o DQ(P("@"))
        \o P("b") \o DQ(P("b"))

Mid == SQ("") \o DQ(<<>>) \o Bs(" ") \o Li("x") \o P("a") \o DQ(P("a")) \o DQ(P("@")) \o DQ(P("*"))
       \o DQ(P("a") \o P("b"))

Singles ==
     P("*") \o DQ(P("*")) \o P("1") \o P("#") \o DQ(P("2"))
  \o WLen("a") \o DQ(WLen("a")) \o WLen("b") \o WLen("@") \o DQ(WLen("@")) \o WLen("*") \o DQ(WLen("*"))
  \o WLen("1") \o WLen("#")
  \o DQ(Li("x") \o P("a")) \o DQ(P("a") \o Li("x")) \o DQ(Li("x") \o P("a") \o Li("y")) \o DQ(P("a") \o P("a"))
  \o DQ(P("a") \o Li(" ") \o P("a")) \o DQ(P("b") \o P("a")) \o DQ(P("a") \o P("b")) \o DQ(P("a") \o P("@"))
  \o DQ(P("@") \o P("a")) \o DQ(P("*") \o P("a")) \o DQ(WLen("a") \o P("a")) \o DQ(Li(":") \o WLen("a"))
  \o DQ(P("a") \o Bs("$")) \o DQ(P("a") \o Li("'")) \o DQ(Li(" ") \o P("a") \o Li(" "))
  \o Li("e") \o Bs("x") \o SQ(" x")

SwWords == IF Level = 1
           THEN << <<>>, Li("v w"), DQ(P("@")), P("b") >>
           ELSE << <<>>, Li("v w"), DQ(P("@")), P("b"), DQ(P("b")), P("@"), SQ(" v"), Li("v:") \o P("b") >>
SwWordsDq == IF Level = 1 THEN << Li("v w"), P("@") >>
             ELSE << <<>>, Li("v w"), P("@"), P("b"), P("*") >>
TrimWords == IF Level = 1
             THEN << Li("x"), Li("*"), Li("x*"), SQ("*"), P("b") >>
             ELSE << <<>>, Li("x"), Li("*"), Li("?"), Li("x*"), Li("*x"), Li("*:"), SQ("*"), P("b"), DQ(P("b")),
                     Li("?") \o P("b") >>
TrimWordsDq == IF Level = 1 THEN << Li("x*") >> ELSE << Li("x*"), Li("*x"), SQ("*"), P("b") >>
Acts == {"-", "=", "?", "+"}

Switches ==
  FlattenSeqs(SeqOfSet(
    { WSw("a", c, a, SwWords[i]) : c \in BOOLEAN, a \in Acts, i \in DOMAIN SwWords }
    \cup { WSw(p, c, a, w) : p \in {"@", "*"}, c \in BOOLEAN, a \in {"-", "+", "="}, w \in {<<>>, Li("v w")} }
    \cup { WSw("b", c, a, w) : c \in BOOLEAN, a \in {"-", "+", "="}, w \in {P("a"), DQ(P("a"))} }
    \cup { DQ(WSw("a", c, a, SwWordsDq[i])) : c \in BOOLEAN, a \in Acts, i \in DOMAIN SwWordsDq }
    \cup { DQ(WSw(p, c, a, Li("v"))) : p \in {"@", "*"}, c \in BOOLEAN, a \in {"-", "+"} }
    \cup { DQ(WSw("b", c, a, P("a"))) : c \in BOOLEAN, a \in {"-", "+", "="} }
    \cup { DQ(Li("x") \o WSw("a", c, "-", P("@"))) : c \in BOOLEAN }
    \cup { DQ(WSw("a", c, "+", Li("v")) \o Li("x")) : c \in BOOLEAN }
    \cup { WSw("IFS", FALSE, "=", Li(":")) \o P("a") } ))

Sides == {"#", "%"}
Trims ==
  FlattenSeqs(SeqOfSet(
    { WTrim("a", s, g, TrimWords[i]) : s \in Sides, g \in BOOLEAN, i \in DOMAIN TrimWords }
    \cup { WTrim(p, s, g, w) : p \in {"@", "*"}, s \in Sides, g \in BOOLEAN, w \in {Li("x"), Li("*"), Li("x*")} }
    \cup { DQ(WTrim("a", s, g, TrimWordsDq[i])) : s \in Sides, g \in BOOLEAN, i \in DOMAIN TrimWordsDq }
    \cup { DQ(WTrim(p, s, g, Li("x*"))) : p \in {"@", "*"}, s \in Sides, g \in BOOLEAN }
    \cup { WTrim("b", "#", FALSE, P("a")), WTrim("b", "%", TRUE, DQ(P("a"))) } ))

U == Core \o Singles \o Switches \o Trims
NU == Len(U)
NCore == Len(Core)

---------------------------------------------------------------------------
(* family s: commands *)
A == P("a")
QA == DQ(P("a"))
Trans == <<
  CArr("a", <<>>),
  CArr("a", <<SQ("")>>),
  CArr("a", <<Li("x"), SQ("y z"), SQ("")>>),
  CArr("a", <<DQ(P("@"))>>),
  CArr("a", <<P("b")>>),
  CArr("a", <<QA, Li("w")>>),
  CArr("b", <<QA>>),
  CArr("b", <<A>>),
  CSca("b", A),
  CSca("b", QA),
  CSca("a", SQ("x y")),
  CSca("a", <<>>),
  CSca("b", SQ("*:")),
  CSca("IFS", Li(":")),
  CSca("IFS", <<>>),
  CUnset("IFS"),
  CSet(<<QA>>),
  CSet(<<A>>),
  CSet(<<>>),
  CSet(<<SQ(""), SQ("p q"), Li("*")>>),
  CUnset("a"),
  CRo("a"),
  CExport("a"),
  CExport("b"),
  CRead("a", "r s"),
  CProbe(<<DQ(WSw("a", TRUE, "=", Li("d e")))>>),
  CProbe(<<WSw("b", FALSE, "=", A)>>),
  CNounset(TRUE) >>

Observers == <<
  CProbe(<<QA>>), CProbe(<<A>>), CProbe(<<DQ(Li("x") \o A \o Li("y"))>>), CProbe(<<WLen("a")>>),
  CProbe(<<DQ(P("b"))>>), CProbe(<<DQ(P("@")), QA>>), CProbe(<<DQ(WSw("a", TRUE, "-", Li("w")))>>),
  CProbe(<<DQ(WSw("a", TRUE, "?", Li("msg")))>>), CProbe(<<DQ(WSw("a", FALSE, "+", P("b")))>>),
  CProbe(<<WTrim("a", "#", FALSE, Li("?"))>>), CProbe(<<P("c")>>),
  CFor(<<QA>>), CFor(<<A, DQ(P("b"))>>),
  CCase(A), CCase(QA), CCase(DQ(P("b") \o Li("-") \o P("@"))),
  CHere(A), CHere(Li("x") \o P("b") \o Li(":") \o WLen("a")),
  CRedir(Li("x") \o A), CRedir(DQ(P("b"))),
  CPrint("typeset", "a"), CPrint("typeset", "b"), CPrint("export", "a"), CPrint("export", "b"),
  CPrint("readonly", "a"), CPrint("readonly", "b"),
  CEnv, CTmpEnv("c", <<Li("x"), SQ("y z")>>), CTmpEnv("a", <<QA, Li("t")>>), CTmpEnv("b", <<DQ(P("@"))>>),
  CRead("b", " r  s "), CRead("a", "r:s"), CUnset("b"), CRo("b"),
  CArr("c", <<WSw("b", FALSE, "=", Li("v w")), P("b")>>),
  CArr("c", <<WSw("IFS", FALSE, "=", Li(":")), A>>),
  CArr("c", <<A, QA, DQ(P("@"))>>),
  CArr("c", <<DQ(Li("x") \o A), DQ(P("b") \o Li("y"))>>),
  CArr("a", <<Li("z")>>), CSca("c", QA), CSca("c", A \o P("b")),
  CSet(<<DQ(P("b")), QA>>),
  CNounset(FALSE) >>

Fan == Trans \o Observers
Start == [Fresh EXCEPT !.IFS = Var(VS(" \t\n"), FALSE, FALSE)]      \* the shell initialises IFS

---------------------------------------------------------------------------
(* family r *)
Elems == << "", " ", "x", ":", "*", "'", "\"", "x y", "\\", "?:" >>
NE == Len(Elems)

---------------------------------------------------------------------------
VARIABLES si, fi, nu, i1, i2, i3,   \* w: as in Gen_Expand;  r: fi, i1..i3 index Elems (0 = absent)
          S, path                   \* s: shell state and witness
vars == <<si, fi, nu, i1, i2, i3, S, path>>
View == <<si, fi, nu, i1, i2, i3, S>>

PRows == {4, 12, 14}

Init ==
  /\ i1 = 0 /\ i2 = 0 /\ i3 = 0 /\ S = Start /\ path = <<>>
  /\ CASE Family = "w" -> si \in DOMAIN StateTable /\ fi \in DOMAIN IfsTable /\ nu \in BOOLEAN
       [] Family = "s" -> si = 0 /\ fi = 0 /\ nu = FALSE
       [] Family = "r" -> si = 0 /\ fi \in DOMAIN IfsTable /\ nu = FALSE
       [] Family = "p" -> si \in PRows /\ fi = 3 /\ nu = FALSE

PairSel(j1, j2) == (j1 * 7 + j2 * 13 + si * 3 + fi * 5 + Seed) % Slice = 0

(* pairs of two Core units are always generated (stepping stones to the    *)
(* triples) but printed only if sampled                                    *)
NextW ==
  /\ UNCHANGED <<si, fi, nu, S, path>>
  /\ \/ i1 = 0 /\ i1' \in 1..NU /\ UNCHANGED <<i2, i3>>
     \/ i1 # 0 /\ i2 = 0 /\ i3 = 0 /\ UNCHANGED <<i1, i3>>
          /\ i2' \in (IF i1 <= NCore THEN 1..NU ELSE 1..NCore)
          /\ IF i1 <= NCore /\ i2' <= NCore THEN TRUE ELSE PairSel(i1, i2')
     \/ i1 # 0 /\ i1 <= NCore /\ i2 # 0 /\ i2 <= NCore /\ i3 = 0 /\ UNCHANGED <<i1, i2>>
          /\ i3' \in 1..Len(Mid)
          /\ (i1 * 7 + i2 * 13 + i3' * 29 + si * 3 + fi * 5 + Seed) % Slice = 0

NextS ==
  /\ UNCHANGED <<si, fi, nu, i1, i2, i3>>
  /\ Len(path) < Depth
  /\ \E k \in DOMAIN Trans :
        LET rs == Step(S, Trans[k]) IN
        /\ Len(rs) = 1 /\ rs[1].k = "ok"
        /\ (Len(path) = Depth - 1 /\ Slice > 1) => ((k * 11 + Len(path) * 7 + Seed) % Slice = 0)
        /\ S' = rs[1].st
        /\ path' = Append(path, Trans[k])

NextR ==
  /\ UNCHANGED <<si, fi, nu, S, path>>
  /\ \/ i1 = 0 /\ RLen >= 1 /\ i1' \in 1..NE /\ UNCHANGED <<i2, i3>>
     \/ i1 # 0 /\ i2 = 0 /\ RLen >= 2 /\ i2' \in 1..NE /\ UNCHANGED <<i1, i3>>
     \/ i2 # 0 /\ i3 = 0 /\ RLen >= 3 /\ i3' \in 1..NE /\ UNCHANGED <<i1, i2>>

(* family p: one-unit words (and two array assignments, i1 = NU + 1, NU + 2) under `portable` *)
NextP == /\ UNCHANGED <<si, fi, nu, i2, i3, S, path>>
         /\ i1 = 0 /\ i1' \in 1..(NU + 2)

Next == CASE Family = "w" -> NextW [] Family = "s" -> NextS [] Family = "r" -> NextR [] Family = "p" -> NextP
Spec == Init /\ [][Next]_vars

---------------------------------------------------------------------------
(* family w: emission and laws *)
WordOf ==
  IF i1 = 0 THEN <<>>
  ELSE IF i2 = 0 THEN <<U[i1]>>
  ELSE IF i3 = 0 THEN <<U[i1], U[i2]>>
  ELSE <<U[i1], Mid[i3], U[i2]>>

RECURSIVE MentionsUnset(_, _)
MentionsUnset(us, st) ==
  \E k \in DOMAIN us :
    LET u == us[k] IN
    \/ u.t = "par" /\ PVal(u.p, st).k = "u"
    \/ u.t = "par" /\ PVal(u.p, st) = VA(<<>>)          \* set -u must not make these fail
    \/ u.t = "par" /\ u.m \in {"sw", "trim"} /\ MentionsUnset(u.w, st)
    \/ u.t = "dq" /\ MentionsUnset(u.u, st)

SelectedW ==
  /\ i1 # 0
  /\ (i2 # 0 /\ i3 = 0) => PairSel(i1, i2)
  /\ nu => MentionsUnset(WordOf, MkState(si, fi, nu))

(* renaming a -> x, b -> y for the comparison with Expand.tla *)
RECURSIVE ToX(_)
ToX(us) ==
  [k \in DOMAIN us |->
     LET u == us[k] IN
     CASE u.t = "dq" -> [u EXCEPT !.u = ToX(u.u)]
       [] u.t = "par" ->
            LET p2 == CASE u.p = "a" -> "x" [] u.p = "b" -> "y" [] OTHER -> u.p
                u2 == [u EXCEPT !.p = p2]
            IN IF u.m \in {"sw", "trim"} THEN [u2 EXCEPT !.w = ToX(u.w)] ELSE u2
       [] OTHER -> u]
XVal(x) == IF x.k = "s" THEN Val(x.s) ELSE Unset
XState(st) == [x |-> XVal(st.a), y |-> XVal(st.b), pos |-> st.pos, ifs |-> XVal(st.IFS),
               nounset |-> st.nounset, st |-> "0"]
ScalarOnly(st) == st.a.k # "a" /\ st.b.k # "a"

(* every outcome is one C01 allows (where C01 decides); this module may be  *)
(* more definite about "${n-$@}" alone inside double quotes                *)
Conservative(w, st, O) ==
  ScalarOnly(st) =>
    LET X == Outcomes(ToX(w), XState(st)) IN
    X[1].k = "skip" \/
      \A i \in DOMAIN O : \E j \in DOMAIN X :
           IF X[j].k = "ok"
           THEN /\ O[i].k = "ok" /\ O[i].f = X[j].f
                /\ XVal(O[i].st.a) = X[j].x /\ XVal(O[i].st.b) = X[j].y /\ XVal(O[i].st.IFS) = X[j].ifs
           ELSE O[i].k = X[j].k

(* scalar s and array <<s>> agree *)
AsSingleton(st) == IF st.a.k = "s" THEN SetVal(st, "a", VA(<<st.a.s>>)) ELSE st
Norm(x) == IF x.k = "a" /\ Len(x.e) = 1 THEN Var(VS(x.e[1]), x.ro, x.ex) ELSE x
SameModuloShape(o1, o2) ==
  /\ o1.k = o2.k /\ o1.f = o2.f /\ o1.j = o2.j
  /\ Norm(o1.st.a) = Norm(o2.st.a) /\ o1.st.b = o2.st.b /\ o1.st.IFS = o2.st.IFS
ScalarSingleton(w, st, O) ==
  st.a.k = "s" =>
    LET O2 == Word(w, AsSingleton(st)) IN
    /\ Len(O2) = Len(O)
    /\ \A i \in DOMAIN O : SameModuloShape(O[i], O2[i])

(* "${#a}" / "${a#pat}" alone in double quotes: element by element *)
PerElement(w, st, O) ==
  (/\ Len(w) = 1 /\ w[1].t = "dq" /\ Len(w[1].u) = 1 /\ w[1].u[1].t = "par" /\ w[1].u[1].p = "a"
   /\ w[1].u[1].m \in {"len", "trim"} /\ st.a.k = "a" /\ O[1].k = "ok") =>
     /\ Len(O) = 1
     /\ Len(O[1].f) = Len(st.a.e)
     /\ \A i \in DOMAIN st.a.e :
          LET Oi == Word(w, SetVal(st, "a", VS(st.a.e[i]))) IN O[1].f[i] = Oi[1].f[1]

Consistent(w, st, O) ==     \* the three entry points agree
  /\ MapSeq(Fields(<<w>>, st), LAMBDA o : [k |-> o.k, f |-> o.f, st |-> o.st])
       = MapSeq(O, LAMBDA o : [k |-> o.k, f |-> o.f, st |-> o.st])
  /\ LET G == Single(w, st) IN
     \A i \in DOMAIN O : \E g \in DOMAIN G : G[g].k = O[i].k /\ G[g].j = O[i].j /\ G[g].st = O[i].st

(* what harness/g13 derives from a "w" line for each context is what Step   *)
(* prescribes for the corresponding command                                *)
ContextsAgree(w, st, O) ==
  LET KS(rs) == MapSeq(rs, LAMBDA r : [k |-> r.k, st |-> r.st])
      Derive(Post(_)) == MapSeq(O, LAMBDA o : [k |-> o.k, st |-> IF o.k = "ok" THEN Post(o) ELSE o.st])
  IN /\ KS(Step(st, CSet(<<w>>))) = Derive(LAMBDA o : [o.st EXCEPT !.pos = o.f])
     /\ KS(Step(st, CArr("c", <<w>>))) = Derive(LAMBDA o : SetVal(o.st, "c", VA(o.f)))
     /\ KS(Step(st, CProbe(<<w>>))) = Derive(LAMBDA o : o.st)
     /\ \A i \in DOMAIN O : O[i].k = "ok" =>
          /\ \E r \in DOMAIN Step(st, CSca("c", w)) : Step(st, CSca("c", w))[r].st = SetVal(O[i].st, "c", VS(O[i].j))
          /\ \E r \in DOMAIN Step(st, CCase(w)) : Step(st, CCase(w))[r].j = O[i].j
          /\ MapSeq(Step(st, CFor(<<w>>)), LAMBDA r : r.f) = MapSeq(O, LAMBDA o : o.f)

EmitW ==
  SelectedW =>
    LET st == MkState(si, fi, nu)
        w == WordOf
        O == Word(w, st)
    IN /\ Conservative(w, st, O)
       /\ ScalarSingleton(w, st, O)
       /\ PerElement(w, st, O)
       /\ ((i1 + si + fi) % 7 = 0 => (Consistent(w, st, O) /\ ContextsAgree(w, st, O)))
       /\ PrintT(ToJson([fam |-> "w", st |-> st, w |-> w, out |-> O, here |-> HereWord(w)]))

---------------------------------------------------------------------------
(* family s: emission and laws *)
FanOf(st) == [k \in DOMAIN Fan |-> Step(st, Fan[k])]

Arrays(st) == {n \in {"a", "b", "c"} : st[n].k = "a"}
Quiet(st) == [st EXCEPT !.nounset = FALSE]

LawsS(st, F) ==
  \* set -- "$n"; n=("$@") is the identity, and "$n" shows exactly the elements
  /\ \A n \in Arrays(st) :
       LET shown == Step(st, CProbe(<<DQ(P(n))>>))
           s1 == Step(st, CSet(<<DQ(P(n))>>))
       IN /\ Len(shown) = 1 /\ shown[1].k = "ok" /\ shown[1].f = st[n].e
          /\ Len(s1) = 1 /\ s1[1].k = "ok" /\ s1[1].st.pos = st[n].e
          /\ ~st[n].ro => LET s2 == Step(s1[1].st, CArr(n, <<DQ(P("@"))>>))
                          IN Len(s2) = 1 /\ s2[1].k = "ok" /\ s2[1].st = [st EXCEPT !.pos = st[n].e]
  \* c=("$@"); "$c" reproduces the positional parameters
  /\ LET s1 == Step(st, CArr("c", <<DQ(P("@"))>>)) IN
     ~st.c.ro => /\ Len(s1) = 1 /\ s1[1].k = "ok" /\ s1[1].st.c.e = st.pos /\ s1[1].st.c.k = "a"
                 /\ Step(s1[1].st, CProbe(<<DQ(P("c"))>>))[1].f = st.pos
  \* results of the fan: errors and failures change nothing; attributes only grow;
  \* unset / export / readonly never change a value; read leaves a scalar;
  \* print + re-read gives the variable back (with the attributes the built-in restores)
  /\ \A k \in DOMAIN Fan : \A i \in DOMAIN F[k] :
       LET r == F[k][i]
           cmd == Fan[k]
       IN /\ r.k \notin {"ok", "skip"} =>
               \* an expansion error may leave ${n=w} assignments of earlier words behind; nothing else changes
               (cmd.c \in {"unset", "read", "print", "env"} => r.st = st)
          /\ r.k = "ok" =>
               /\ \A n \in Names : st[n].ro => (ValOf(r.st[n]) = ValOf(st[n]) /\ r.st[n].ro)
               /\ cmd.c \in {"export", "ro"} => \A n \in Names : ValOf(r.st[n]) = ValOf(st[n])
               /\ cmd.c = "unset" => r.st[cmd.n] = NoVar /\ \A n \in Names \ {cmd.n} : r.st[n] = st[n]
               /\ cmd.c = "read" => r.st[cmd.n].k = "s"
               /\ cmd.c = "arr" => r.st[cmd.n].k = "a"
               /\ cmd.c = "sca" => r.st[cmd.n].k = "s"
               /\ cmd.c \in {"probe", "for", "case", "here", "redir", "env", "tmpenv", "print"} =>
                    \* only ${n=w} can change anything, and only an unset-or-empty variable
                    \A n \in Names : r.st[n] # st[n] => (Vacancy(ValOf(st[n])) # "none" /\ r.st[n].k = "s")
               /\ cmd.c = "print" => ValOf(r.x[1]) = ValOf(st[cmd.n])

EmitS ==
  LET F == FanOf(S) IN
  /\ LawsS(S, F)
  /\ PrintT(ToJson([fam |-> "s", st0 |-> Start, path |-> path, st |-> S,
                     fan |-> [k \in DOMAIN Fan |-> [cmd |-> Fan[k], out |-> F[k]]]]))

---------------------------------------------------------------------------
(* family r: emission and laws *)
PosOf == IF i1 = 0 THEN <<>> ELSE IF i2 = 0 THEN <<Elems[i1]>> ELSE IF i3 = 0 THEN <<Elems[i1], Elems[i2]>>
         ELSE <<Elems[i1], Elems[i2], Elems[i3]>>

LawsR(st) ==
  LET s1 == Step(st, CArr("c", <<DQ(P("@"))>>))[1].st
      shown == Step(s1, CProbe(<<DQ(P("c"))>>))
      s2 == Step([s1 EXCEPT !.pos = <<"other">>], CSet(<<DQ(P("c"))>>))[1].st
      s3 == Step(s2, CArr("c", <<DQ(P("@"))>>))[1].st
      lens == Step(s1, CProbe(<<DQ(WLen("c"))>>))[1].f
      trimmed == Step(s1, CProbe(<<DQ(WTrim("c", "#", FALSE, Li("?")))>>))[1].f
  IN /\ ValOf(s1.c) = VA(st.pos)
     /\ Len(shown) = 1 /\ shown[1].k = "ok" /\ shown[1].f = st.pos
     /\ s2.pos = st.pos /\ s3 = s2 /\ ValOf(s3.c) = VA(st.pos)
     /\ Step(s1, CProbe(<<P("#")>>))[1].f = <<ToString(Len(st.pos))>>
     /\ Len(lens) = Len(st.pos) /\ \A i \in DOMAIN lens : lens[i] = ToString(Len(st.pos[i]))
     /\ Len(trimmed) = Len(st.pos)
     /\ \A i \in DOMAIN trimmed :
          trimmed[i] = Step(SetVal(s1, "c", VS(st.pos[i])), CProbe(<<DQ(WTrim("c", "#", FALSE, Li("?")))>>))[1].f[1]
     \* unquoted: each element is split on its own, empty ones disappear
     /\ Step(s1, CProbe(<<P("c")>>))[1].f = Step(s1, CProbe(<<P("@")>>))[1].f
     \* single-field contexts: "$c", $c, "$*" give the same text
     /\ Single(DQ(P("c")), s1)[1].j = Single(DQ(P("*")), s1)[1].j
     /\ Single(P("c"), s1)[1].j = Single(DQ(P("*")), s1)[1].j

EmitR ==
  LET st == [Start EXCEPT !.pos = PosOf, !.IFS = Var(IfsTable[fi], FALSE, FALSE)] IN
  /\ LawsR(st)
  /\ LET c1 == CArr("c", <<DQ(P("@"))>>)
         s1 == Step(st, c1)[1].st
         E(cmd) == [cmd |-> cmd, out |-> Step(s1, cmd)]
     IN PrintT(ToJson([fam |-> "s", st0 |-> st, path |-> <<c1>>, st |-> s1,
                       fan |-> << E(CProbe(<<DQ(P("c"))>>)), E(CProbe(<<P("c")>>)), E(CFor(<<DQ(P("c"))>>)),
                                  E(CSca("b", P("c"))), E(CSca("b", DQ(P("c")))), E(CCase(P("c"))),
                                  E(CSet(<<DQ(P("c")), DQ(P("c"))>>)), E(CArr("a", <<DQ(P("c")), P("c")>>)),
                                  E(CProbe(<<DQ(WLen("c"))>>)), E(CProbe(<<DQ(WTrim("c", "#", FALSE, Li("?")))>>)),
                                  E(CPrint("typeset", "c")) >>]))

PCmd == IF i1 <= NU THEN CProbe(<<<<U[i1]>>>>)
        ELSE IF i1 = NU + 1 THEN CArr("c", <<Li("x"), Li("y")>>) ELSE CArr("c", <<>>)
EmitP ==
  i1 # 0 =>
    LET st == MkState(si, fi, nu)
        O == StepPortable(st, PCmd)
    IN \* the option only ever rejects: what it lets through behaves as without it
       /\ (O[1].k # "syntax" => O = Step(st, PCmd))
       /\ PrintT(ToJson([fam |-> "p", st0 |-> st, cmd |-> PCmd, out |-> O]))

Emit == CASE Family = "w" -> EmitW [] Family = "s" -> EmitS [] Family = "r" -> EmitR [] Family = "p" -> EmitP
=============================================================================
