SPECIFICATION Spec
CONSTANTS
  Fuel = 24
  TickLimit = 2
  K = 5
  Alphabet <- AlphaErrors5
  ItemAlphabet <- NoItems
  Mode = "c10"
INVARIANT Emit
CHECK_DEADLOCK FALSE
