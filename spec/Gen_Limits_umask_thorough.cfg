\* G08 enumeration: family umask, thorough
SPECIFICATION Spec
VIEW View
CONSTANTS
  Family = "umask"
  Depth = 1
  Level = "full"
INVARIANT Emit
