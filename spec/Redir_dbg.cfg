SPECIFICATION Spec
CONSTANTS
  Cfg = "dbg"
  Bug = "fwd"
  Sim = TRUE
INVARIANT TypeOK
INVARIANT Conforms
INVARIANT Emit
