INIT Init
NEXT Next
CONSTANT R = 3
INVARIANT NativeOK
