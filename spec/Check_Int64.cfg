INIT Init
NEXT Next
CONSTANT R = 60
INVARIANT NativeOK
