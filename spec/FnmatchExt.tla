----------------------------- MODULE FnmatchExt -----------------------------
(***************************************************************************)
(* G19: the configuration flags and the literal fast path of the           *)
(* yash-fnmatch crate, beyond what C04 (Fnmatch.tla) states.               *)
(*                                                                         *)
(* Written from                                                            *)
(*  - the public doc comments of /repo/yash-fnmatch (src/lib.rs: `Config`, *)
(*    `Error`, `Pattern::{as_literal, into_literal, is_match, find,        *)
(*    rfind}`; src/char_iter.rs: `PatternChar`, `with_escape`,             *)
(*    `without_escape`; src/ast.rs: `Atom`, `Ast::{is_literal,             *)
(*    to_literal}`),                                                       *)
(*  - POSIX.1-2024 XCU 2.14 (2.14.3 rule 2: a leading <period> "shall be   *)
(*    explicitly matched by using a <period> as the first character of the *)
(*    pattern"; "a leading <period> shall not be matched by the            *)
(*    <asterisk> or <question-mark> special characters [or] a bracket      *)
(*    expression"), XBD 9.2 (matching without regard to case: "not only    *)
(*    the character, but also its case counterpart (if any), shall be      *)
(*    matched"), XBD 9.3.5,                                                *)
(*  - the Unicode Character Database, CaseFolding.txt, statuses C and S    *)
(*    (`Config::case_insensitive`: "the "simple" case folding rules        *)
(*    defined by Unicode are applied"),                                    *)
(*  - /repo/docs/src/patterns.md and language/words/globbing.md,           *)
(* NOT from the code.  Fnmatch.tla (C04) is EXTENDed unchanged: it is the  *)
(* oracle for the notation itself, for Find / RFind under anchoring and    *)
(* greed, for the trims and for `case`.                                    *)
(*                                                                         *)
(* Where the documents leave a choice the result is a SET of allowed       *)
(* outcomes, one per READING:                                              *)
(*  neg  a non-matching list `[!...]` under case_insensitive: XBD 9.2      *)
(*       tries the character and its case counterparts one by one          *)
(*       ("any": one of them is outside the list) while folding the list   *)
(*       first and complementing afterwards gives "all" (none of them is   *)
(*       in the list).  The crate documentation says neither.              *)
(*  lp   literal_period when the search is not anchored at both ends and   *)
(*       the text starts with a period that the pattern does not match     *)
(*       explicitly.  The documents only say that nothing but a literal    *)
(*       period matches that period.  "emp": an empty match in front of    *)
(*       the period is a match; "skip": matches are looked for after the   *)
(*       period only; "none": the unmatched leading period makes the       *)
(*       search fail.  With both anchors the three readings agree          *)
(*       (theorem L_Anchored).                                             *)
(* Classed `open` (nothing but the structural API invariants is demanded): *)
(*  patterns whose meaning POSIX leaves open (Fnmatch.tla), patterns with  *)
(*  a multi-character collating element, and case-insensitive matching of  *)
(*  characters that the folding table below does not list.                 *)
(*                                                                         *)
(* Variant # "" selects a named WRONG variant of the definitions; the      *)
(* negative configurations (Calib_FnmatchExt_neg_*.cfg) show that each is  *)
(* refuted by a calibration fact taken from the documents.                 *)
(***************************************************************************)
EXTENDS Fnmatch

CONSTANT Variant

(***************************************************************************)
(* Simple case folding.  ASCII: A-Z fold to a-z.  Other characters: the    *)
(* rows <<character, code point, simple folding>> below, from              *)
(* CaseFolding.txt (C + S):                                                *)
(*   U+00C4 -> U+00E4  00C4; C; 00E4                                             *)
(*   U+00E4 -> U+00E4                                                            *)
(*   U+00C9 -> U+00E9  00C9; C; 00E9                                             *)
(*   U+00E9 -> U+00E9                                                            *)
(*   U+00DF -> U+00DF  no C/S entry (00DF; F; 0073 0073 is a full folding)       *)
(*   U+1E9E -> U+00DF  1E9E; S; 00DF                                             *)
(*   U+017F -> U+0073  017F; C; 0073   LATIN SMALL LETTER LONG S                 *)
(*   U+212A -> U+006B  212A; C; 006B   KELVIN SIGN                               *)
(*   U+212B -> U+00E5  212B; C; 00E5   ANGSTROM SIGN                             *)
(*   U+00C5 -> U+00E5  00C5; C; 00E5                                             *)
(*   U+00E5 -> U+00E5                                                            *)
(*   U+03A3 -> U+03C3  03A3; C; 03C3                                             *)
(*   U+03C2 -> U+03C3  03C2; C; 03C3   FINAL SIGMA                               *)
(*   U+03C3 -> U+03C3                                                            *)
(*   U+00B5 -> U+03BC  00B5; C; 03BC   MICRO SIGN                                *)
(*   U+039C -> U+03BC  039C; C; 03BC                                             *)
(*   U+03BC -> U+03BC                                                            *)
(*   U+042F -> U+044F  042F; C; 044F                                             *)
(*   U+044F -> U+044F                                                            *)
(*   U+01C4 -> U+01C6  01C4; C; 01C6                                             *)
(*   U+01C5 -> U+01C6  01C5; C; 01C6   titlecase                                 *)
(*   U+01C6 -> U+01C6                                                            *)
(*   U+0130 -> U+0130  only 0130; F / 0130; T: no simple folding                 *)
(*   U+0131 -> U+0131  only 0049; T; 0131: no simple folding                     *)
(*   U+3042 -> U+3042  caseless                                                  *)
(*   U+6F22 -> U+6F22  caseless                                                  *)
(*   U+0301 -> U+0301  caseless (combining acute accent)                         *)
(*   U+00A0 -> U+00A0  caseless                                                  *)
(*   U+1F600 -> U+1F600  caseless (4 bytes in UTF-8)                               *)
(* A character that is neither ASCII nor listed is UNKNOWN to this         *)
(* specification: case-insensitive cases that contain one are open.        *)
(***************************************************************************)
WideTable ==
  <<
     <<"Ä", 196, "ä">>,
     <<"ä", 228, "ä">>,
     <<"É", 201, "é">>,
     <<"é", 233, "é">>,
     <<"ß", 223, "ß">>,
     <<"ẞ", 7838, "ß">>,
     <<"ſ", 383, "s">>,
     <<"K", 8490, "k">>,
     <<"Å", 8491, "å">>,
     <<"Å", 197, "å">>,
     <<"å", 229, "å">>,
     <<"Σ", 931, "σ">>,
     <<"ς", 962, "σ">>,
     <<"σ", 963, "σ">>,
     <<"µ", 181, "μ">>,
     <<"Μ", 924, "μ">>,
     <<"μ", 956, "μ">>,
     <<"Я", 1071, "я">>,
     <<"я", 1103, "я">>,
     <<"Ǆ", 452, "ǆ">>,
     <<"ǅ", 453, "ǆ">>,
     <<"ǆ", 454, "ǆ">>,
     <<"İ", 304, "İ">>,
     <<"ı", 305, "ı">>,
     <<"あ", 12354, "あ">>,
     <<"漢", 28450, "漢">>,
     <<"́", 769, "́">>,
     <<" ", 160, " ">>,
     <<"😀", 128512, "😀">>
  >>

WideIdx   == 1..Len(WideTable)
WideChars == {WideTable[i][1] : i \in WideIdx}
WideFold  == [c \in WideChars |-> WideTable[CHOOSE i \in WideIdx : WideTable[i][1] = c][3]]

\* the listed character with code point n
WChar(n)  == WideTable[CHOOSE i \in WideIdx : WideTable[i][2] = n][1]

Known(c) == Code(c) # NonAscii \/ c \in WideChars

SimpleFold(c) ==
  IF Variant = "fold_turkic" /\ c \in {WideTable[23][1], WideTable[24][1]} THEN "i"
  ELSE IF c \in WideChars THEN (IF Variant = "ci_ascii_only" THEN c ELSE WideFold[c])
  ELSE IF Upper(Code(c)) THEN Printable[Code(c) + 1]     \* Printable[n - 31] has code n
  ELSE c

AsciiLetters == {Printable[i] : i \in (34..59) \cup (66..91)}
Letters      == AsciiLetters \cup WideChars
FoldClassOf  == [f \in {SimpleFold(c) : c \in Letters} |-> {c \in Letters : SimpleFold(c) = f}]

\* the character and its case counterparts
FoldClass(c) == IF c \in Letters THEN FoldClassOf[SimpleFold(c)] ELSE {c}
CharsOf(c, ci) == IF ci THEN FoldClass(c) ELSE {c}

ASSUME WideTable[23][2] = 304 /\ WideTable[24][2] = 305
ASSUME \A i \in WideIdx : Code(WideTable[i][1]) = NonAscii /\ WideTable[i][3] \in WideChars \cup AsciiLetters
ASSUME Cardinality(WideChars) = Len(WideTable)
ASSUME Cardinality(AsciiLetters) = 52

(***************************************************************************)
(* Matching under a (possibly case-insensitive) configuration.             *)
(* ng: the reading of a non-matching list, "all" or "any".                 *)
(***************************************************************************)
NegReadings == {"all", "any"}
LpReadings  == {"emp", "skip", "none"}

\* (wrong variant "ci_no_class": a character class is tested against the character itself only)
BracketOkX(a, c, ci, ng) ==
  LET D == CharsOf(c, ci)
      In(d) == \E n \in 1..Len(a.items) :
                  LET it == a.items[n] IN
                  IF Variant = "ci_no_class" /\ it.k = "cls" THEN ItemHas(it, c) ELSE ItemHas(it, d)
  IN IF ~a.neg THEN \E d \in D : In(d)
     ELSE IF ng = "all" THEN \A d \in D : ~In(d)
     ELSE \E d \in D : ~In(d)

\* atoms A[k..] denote exactly s[i..] (no multi-character collating elements)
RECURSIVE MatchAtX(_, _, _, _, _, _)
MatchAtX(A, k, s, i, ci, ng) ==
  IF k > Len(A) THEN i = Len(s) + 1
  ELSE LET a == A[k] IN
       CASE a.t = "c" -> i <= Len(s) /\ a.c \in CharsOf(s[i], ci) /\ MatchAtX(A, k + 1, s, i + 1, ci, ng)
         [] a.t = "q" -> i <= Len(s) /\ MatchAtX(A, k + 1, s, i + 1, ci, ng)
         [] a.t = "s" -> \E n \in i..(Len(s) + 1) : MatchAtX(A, k + 1, s, n, ci, ng)
         [] a.t = "b" -> i <= Len(s) /\ BracketOkX(a, s[i], ci, ng) /\ MatchAtX(A, k + 1, s, i + 1, ci, ng)

(***************************************************************************)
(* The literal fast path.  `as_literal`: "If the pattern is made up only   *)
(* of literal characters, this function returns the characters as a        *)
(* string.  If the pattern contains any ?, *, or bracket expression, the   *)
(* result is None."  An unquoted "[" that opens no bracket expression is   *)
(* a literal (XCU 2.14.1).  `Config::case_insensitive`: "For patterns that *)
(* are literal (i.e., as_literal returns Some(literal)), this flag is      *)
(* ignored."                                                               *)
(***************************************************************************)
IsLiteralA(A) == \A k \in 1..Len(A) : A[k].t = "c"
\* the string of a literal pattern (<<>> for any other pattern)
LiteralOf(A)  == IF IsLiteralA(A) THEN [k \in 1..Len(A) |-> A[k].c] ELSE <<>>
HasNeg(A)     == \E k \in 1..Len(A) : A[k].t = "b" /\ A[k].neg

\* the shape of the abstract syntax tree (`ast::Atom`): c = Char, q = AnyChar,
\* s = AnyString, b / n = Bracket without / with complement
AtomKinds(A) == [k \in 1..Len(A) |-> IF A[k].t = "b" THEN (IF A[k].neg THEN "n" ELSE "b") ELSE A[k].t]
AtomChars(A) == [k \in 1..Len(A) |-> IF A[k].t = "c" THEN A[k].c ELSE ""]

ConfigsX == [ab : BOOLEAN, ae : BOOLEAN, sh : BOOLEAN, lp : BOOLEAN, ci : BOOLEAN]

EffCI(A, cfg) == cfg.ci /\ (Variant = "ci_literal" \/ ~IsLiteralA(A))

(***************************************************************************)
(* literal_period: "a leading period in the text, if any, must be matched  *)
(* by a literal period in the pattern.  In other words, a wildcard pattern *)
(* (`*` or `?`) or bracket expression ([...]) does not match a leading     *)
(* period."  Only the first character of the TEXT is a leading period      *)
(* (the crate knows nothing about slashes); the period is matched          *)
(* explicitly iff the pattern begins with a (quoted or unquoted) period    *)
(* (XCU 2.14.3; globbing.md: "the pattern must start with a literal dot"). *)
(***************************************************************************)
StartsWithDotX(A) ==
  \/ StartsWithDot(A)
  \/ Variant = "lp_bracket_ok" /\ Len(A) > 0 /\ A[1].t = "b" /\ ~A[1].neg /\ ListHas(A[1].items, ".")
  \/ Variant = "lp_star_dot" /\ \E k \in 1..Len(A) : A[k].t = "c" /\ A[k].c = "." /\ \A m \in 1..(k - 1) : A[m].t = "s"

\* the text begins with a period that the pattern does not match explicitly
\* (wrong variant "lp_unanchored_off": the flag only counts with anchor_begin)
LeadDot(A, s, cfg) ==
  cfg.lp /\ Len(s) > 0 /\ s[1] = "." /\ ~StartsWithDotX(A) /\ (Variant = "lp_unanchored_off" => cfg.ab)

(***************************************************************************)
(* Searching (find: "the index range of the first match"; rfind: "of the   *)
(* last match"; shortest_match: the shortest instead of the longest part   *)
(* at that place; anchor_begin / anchor_end: "matches only at the          *)
(* beginning / end of text").  Stated over the set R of the DENOTED PARTS  *)
(* of the text: the pairs <<i, j>>, 0 <= i <= j <= n, such that characters *)
(* i+1..j are denoted by the pattern - so that the same definition is      *)
(* evaluated from the pattern (Allowed) and from tabulated match sets      *)
(* (Gen_FnmatchExt).  Theorem L_Base: without the two flags this is        *)
(* Fnmatch!FindA / RFindA.                                                 *)
(* An outcome is <<f1, f2, r1, r2>>: the ranges of find and rfind          *)
(* (None = <<-1, -1>>); is_match = (find # None).                          *)
(***************************************************************************)
Pairs(n) == {r \in (0..n) \X (0..n) : r[1] <= r[2]}

\* the parts at which a match may be reported (lead: the text begins with a
\* period that the pattern does not match explicitly; lr: the reading)
Eligible(R, n, cfg, lead, lr) ==
  {r \in R : /\ cfg.ab => r[1] = 0
             /\ cfg.ae => r[2] = n
             /\ lead => (CASE lr = "emp"  -> r[1] > 0 \/ r[2] = 0
                           [] lr = "skip" -> r[1] > 0
                           [] lr = "none" -> FALSE)}

OutcomeR(R, n, cfg, lead, lr) ==
  LET E == Eligible(R, n, cfg, lead, lr) IN
  IF E = {} THEN <<-1, -1, -1, -1>>
  ELSE LET f == PickEnd(E, MinS({r[1] : r \in E}), cfg.sh)
           r == IF Variant = "rfind_is_find" THEN f ELSE PickEnd(E, MaxS({r[1] : r \in E}), cfg.sh)
       IN <<f[1], f[2], r[1], r[2]>>

\* RS(ng): the denoted parts under reading ng of a non-matching list
AllowedR(RS(_), negs, n, cfg, lead) ==
  {OutcomeR(RS(ng), n, cfg, lead, lr) : ng \in negs, lr \in (IF lead THEN LpReadings ELSE {"skip"})}

NegReadingsFor(A, cfg) == IF EffCI(A, cfg) /\ HasNeg(A) THEN NegReadings ELSE {"all"}

\* (wrong variant "lp_everywhere": a period anywhere in the text counts as a leading one)
DenotedParts(A, s, cfg, ng) ==
  {r \in Pairs(Len(s)) :
      /\ MatchAtX(A, 1, SubSeq(s, r[1] + 1, r[2]), 1, EffCI(A, cfg), ng)
      /\ ~(Variant = "lp_everywhere" /\ cfg.lp /\ ~StartsWithDotX(A) /\ r[2] > r[1] /\ s[r[1] + 1] = ".")}

\* the complete set of allowed outcomes of (find, rfind) for the parsed pattern A
Allowed(A, s, cfg) ==
  AllowedR(LAMBDA ng : DenotedParts(A, s, cfg, ng), NegReadingsFor(A, cfg), Len(s), cfg, LeadDot(A, s, cfg))

\* one reading
Outcome(A, s, cfg, ng, lr) == OutcomeR(DenotedParts(A, s, cfg, ng), Len(s), cfg, LeadDot(A, s, cfg), lr)

AllChars(p, s) == {p[i].c : i \in 1..Len(p)} \cup {s[i] : i \in 1..Len(s)}

\* nothing but the structural invariants is demanded
OpenCase(p, s, cfg) ==
  LET P == Parse(p) IN
  \/ P.un # {}
  \/ P.mc
  \/ EffCI(P.atoms, cfg) /\ \E c \in AllChars(p, s) : ~Known(c)

(***************************************************************************)
(* Errors of Pattern::parse_with_config (doc comments of `Error`).  A      *)
(* pattern with a defined meaning compiles.  EmptyCollatingSymbol ("Empty  *)
(* collating symbol or equivalence class"), UndefinedCharClass ("the       *)
(* pattern [[:nothing:]] will produce UndefinedCharClass("nothing")") and  *)
(* CharClassInRange ("[[:digit:]-0] will produce                          *)
(* CharClassInRange("digit")") are promised for those shapes; when several *)
(* apply, which one is reported is not documented.  For every other        *)
(* pattern that POSIX leaves open any result is allowed ("*").             *)
(***************************************************************************)
RUndef == "undefined character class"
REmpty == "empty collating symbol"
RRange == "range end point is a class or a multi-character element"

ElementsAt(p) == {j \in 1..Len(p) : IsN(p, j, "[")}
HasSymEqv(p)  == \E j \in ElementsAt(p) : Element(p, j).k \in {"sym", "eqv"}
\* the names of all [:name:] constructs of the pattern text
ClsNamesIn(p) == {Element(p, j).s : j \in {j \in ElementsAt(p) : Element(p, j).k = "cls"}}

ErrAllowed(p) ==
  LET un == Parse(p).un IN
  IF un = {} THEN {""}
  ELSE IF un \subseteq {RUndef, REmpty, RRange} /\ (RRange \in un => ~HasSymEqv(p))
  THEN (IF RUndef \in un THEN {"UndefinedCharClass"} ELSE {})
       \cup (IF REmpty \in un THEN {"EmptyCollatingSymbol"} ELSE {})
       \cup (IF RRange \in un THEN {"CharClassInRange"} ELSE {})
  ELSE {"*"}

\* the name carried by UndefinedCharClass / CharClassInRange is one written in the pattern
ErrNameOK(p, e, name) ==
  CASE e = "UndefinedCharClass" -> name \in ClsNamesIn(p) /\ name \notin ClassNameSeqs
    [] e = "CharClassInRange"   -> name \in ClsNamesIn(p)
    [] OTHER -> TRUE

(***************************************************************************)
(* with_escape: "Backslashes in the string act as escape characters";      *)
(* without_escape: "Backslashes in the string do not act as escape         *)
(* characters".  A trailing backslash is unspecified (XCU 2.14.1): the     *)
(* characters before it are as specified; for the backslash itself either  *)
(* nothing or a backslash is produced.                                     *)
(***************************************************************************)
PcAllowed(mode, t) ==
  CASE mode = "raw" -> {WithoutEscape(t)}
    [] mode = "esc" -> IF TrailingBackslash(t)
                       THEN {WithEscape(t), WithEscape(t) \o <<Nc("\\")>>, WithEscape(t) \o <<Lc("\\")>>}
                       ELSE {WithEscape(t)}

(***************************************************************************)
(* The shell: `case` (XCU 2.9.4.3) and ${v#p} ${v##p} ${v%p} ${v%%p}       *)
(* (XCU 2.6.2) match the whole subject / the smallest or largest prefix or *)
(* suffix, case-sensitively and with no special treatment of a leading     *)
(* period (that rule belongs to pathname expansion, XCU 2.14.3).  The      *)
(* configuration of each use:                                              *)
(***************************************************************************)
ShellCfg(use) ==
  LET base == [ab |-> FALSE, ae |-> FALSE, sh |-> FALSE, lp |-> FALSE, ci |-> FALSE] IN
  CASE use = "case" -> [base EXCEPT !.ab = TRUE, !.ae = TRUE]
    [] use = "#"    -> [base EXCEPT !.ab = TRUE, !.sh = TRUE]
    [] use = "##"   -> [base EXCEPT !.ab = TRUE]
    [] use = "%"    -> [base EXCEPT !.ae = TRUE, !.sh = TRUE]     \* the LAST (shortest) suffix: rfind
    [] use = "%%"   -> [base EXCEPT !.ae = TRUE]

\* the value of ${s<op>p} through find / rfind of the configured pattern
TrimX(A, s, op) ==
  LET o == Outcome(A, s, ShellCfg(op), "all", "skip")
      r == IF op = "%" THEN <<o[3], o[4]>> ELSE <<o[1], o[2]>>
  IN IF r = None THEN s
     ELSE IF op \in {"#", "##"} THEN SubSeq(s, r[2] + 1, Len(s)) ELSE SubSeq(s, 1, r[1])
=============================================================================
