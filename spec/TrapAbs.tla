------------------------------ MODULE TrapAbs ------------------------------
(***************************************************************************)
(* Abstract contract of the trap set (property C11), written from the      *)
(* property, POSIX XCU 2.12/2.15 `trap`, docs/src/environment/traps.md,    *)
(* docs/src/builtins/trap.md and the doc comments of the public API of     *)
(* yash-env/src/trap.rs, trap/state.rs and system/concurrency/signal.rs.   *)
(*                                                                         *)
(* An OBSERVED state `st` is what the public API and the simulated process *)
(* show (harness/c11/src/trapset.rs, `project`):                           *)
(*   st.proc              "R" running | "K" killed | "S" stopped           *)
(*   st.c[cond]           per condition:                                   *)
(*      act  "V" (state unknown: no entry) | "D" | "I" | "C", cmd (text)   *)
(*      orig "-" | "I" inherited | "S" subshell | "U" user, loc (origin)   *)
(*      pend                the pending flag                               *)
(*      pact pcmd porig ploc  the parent state ("N" = none)                *)
(*      sys  disposition of the process;  blk  signal blocked;             *)
(*      kp   signal pending (blocked, undelivered) in the process          *)
(*   st.itc / st.ite      conditions listed by iter() / iter() agrees with *)
(*                        get_state                                        *)
(* The GHOST state g is what the contract itself keeps track of:           *)
(*   g.init[s]  disposition inherited at start-up ("D" | "I" | "C": a       *)
(*              handler installed before the shell started, which the      *)
(*              shell treats as the default disposition)                   *)
(*   g.int[s]   the shell's own need for signal s (internal disposition)   *)
(*              as requested through enable_* / disable_* / enter_subshell *)
(*                                                                         *)
(* Every operation is a list of named checks on (g, pre, op, res, post);   *)
(* a step conforms when all hold.  Where the documentation leaves a choice *)
(* the check is a disjunction.                                             *)
(***************************************************************************)
EXTENDS Integers, Sequences, FiniteSets, TLC

CondsOf(st) == DOMAIN st.c
SigsOf(st)  == DOMAIN st.c \ {"EXIT"}
Stoppers    == {"TSTP", "TTIN", "TTOU"}

\* Disposition order Default < Ignore < Catch; the effective disposition is the
\* maximum of the user's and the shell's own (trap.rs module doc, state.rs
\* `internal_disposition` doc)
RankD(d)   == CASE d = "D" -> 0 [] d = "I" -> 1 [] d = "C" -> 2
MaxD(a, b) == IF RankD(a) >= RankD(b) THEN a ELSE b

\* effect of the default action on the process (POSIX <signal.h>)
Eff(s) == IF s \in {"TSTP", "TTIN", "TTOU", "STOP"} THEN "S"
          ELSE IF s = "CHLD" THEN "R" ELSE "K"

\* Only IGNORED on entry is special; any other inherited disposition is the
\* default one for the shell.  A handler inherited from before the shell started
\* that is still installed (never blocked by the shell, unlike the shell's own
\* handlers) is observed as "C"/unblocked and counts as the default disposition.
IniEff(g, s)  == IF g.init[s] = "I" THEN "I" ELSE "D"
EffSys(g, s, e) == IF g.init[s] = "C" /\ e.sys = "C" /\ ~e.blk THEN "D" ELSE e.sys
InitAct(g, c) == IF c # "EXIT" /\ g.init[c] = "I" THEN "I" ELSE "D"

\* the disposition implied by the user's action combined with the shell's needs
Merged(act, int, ini) == IF act = "V" THEN ini ELSE MaxD(int, act)

SameCur(a, b) == a.act = b.act /\ a.cmd = b.cmd /\ a.orig = b.orig /\ a.loc = b.loc
SamePar(a, b) == a.pact = b.pact /\ a.pcmd = b.pcmd /\ a.porig = b.porig /\ a.ploc = b.ploc
NoPar(a)      == a.pact = "N" /\ a.pcmd = "" /\ a.porig = "-" /\ a.ploc = ""
IsVacant(a)   == a.act = "V" /\ a.cmd = "" /\ a.orig = "-" /\ a.loc = "" /\ ~a.pend /\ NoPar(a)
\* entry made from the inherited disposition (state learnt, nothing set)
IsInherited(g, c, a) == a.act = InitAct(g, c) /\ a.cmd = "" /\ a.orig = "I" /\ a.loc = ""

-----------------------------------------------------------------------------
\* Invariants of the property on an observed live state
InvChecks(g, st) ==
  LET S == SigsOf(st) IN
  << <<"inv:disposition = max(internal, user action)   [vacant => inherited]",
       \A s \in S : EffSys(g, s, st.c[s]) = Merged(st.c[s].act, g.int[s], IniEff(g, s))>>,
     <<"inv:caught signals are blocked, others are not (concurrency/signal.rs)",
       \A s \in S : st.c[s].blk = (EffSys(g, s, st.c[s]) = "C")>>,
     <<"inv:only blocked signals stay pending",
       \A s \in S : st.c[s].kp => st.c[s].blk>>,
     <<"inv:KILL and STOP are never trapped",
       \A s \in S \cap {"KILL", "STOP"} :
          st.c[s].sys = "D" /\ st.c[s].act \in {"V", "D"} /\ st.c[s].orig \in {"-", "I"}>>,
     <<"inv:an inherited entry shows the inherited action",
       \A c \in CondsOf(st) : st.c[c].orig = "I" => st.c[c].act = InitAct(g, c)>>,
     <<"inv:shape of entries",
       \A c \in CondsOf(st) : LET e == st.c[c] IN
          /\ e.act \in {"V", "D", "I", "C"} /\ e.orig \in {"-", "I", "S", "U"}
          /\ (e.act = "V") = (e.orig = "-")
          /\ e.act = "V" => IsVacant(e)
          /\ e.act = "C" => e.orig = "U"
          /\ (e.act = "C") = (e.cmd # "")
          /\ (e.orig = "U") = (e.loc # "")
          \* a parent state is the custom action reset on entering a subshell
          /\ e.pact \in {"N", "C"}
          /\ e.pact = "N" => NoPar(e)
          /\ e.pact = "C" => (e.pcmd # "" /\ e.porig = "U" /\ e.ploc # "" /\ e.act \in {"D", "I"} /\ e.orig = "S")>>,
     <<"inv:iter() lists exactly the known conditions and agrees with get_state",
       /\ st.ite
       /\ {st.itc[i] : i \in 1..Len(st.itc)} = {c \in CondsOf(st) : st.c[c].act # "V"}
       /\ Len(st.itc) = Cardinality({c \in CondsOf(st) : st.c[c].act # "V"})>> >>

-----------------------------------------------------------------------------
\* The shell's own needs after an operation (ghost)

IntTable(name) ==
  CASE name = "enable_chld"  -> [CHLD |-> "C"]
    [] name = "enable_term"  -> [INT |-> "C", TERM |-> "I", QUIT |-> "I"]
    [] name = "enable_stop"  -> [TSTP |-> "I", TTIN |-> "I", TTOU |-> "I"]
    [] name = "disable_term" -> [INT |-> "D", TERM |-> "D", QUIT |-> "D"]
    [] name = "disable_stop" -> [TSTP |-> "D", TTIN |-> "D", TTOU |-> "D"]
    [] name = "disable_all"  -> [CHLD |-> "D", INT |-> "D", TERM |-> "D", QUIT |-> "D",
                                 TSTP |-> "D", TTIN |-> "D", TTOU |-> "D"]
IsInternalOp(name) == name \in {"enable_chld", "enable_term", "enable_stop",
                                "disable_term", "disable_stop", "disable_all"}

\* enter_subshell: is signal s forced to be ignored?
ForcedIgnore(g, op, s) ==
  \/ op.ii /\ s \in {"INT", "QUIT"}
  \/ op.ks /\ s \in Stoppers /\ g.int[s] # "D"

NextG(g, pre, op) ==
  IF IsInternalOp(op.op)
  THEN [g EXCEPT !.int = [s \in DOMAIN g.int |->
                            IF s \in DOMAIN IntTable(op.op) THEN IntTable(op.op)[s] ELSE g.int[s]]]
  ELSE IF op.op = "enter_subshell"
  THEN \* internal dispositions are cleared except for SIGCHLD
       [g EXCEPT !.int = [s \in DOMAIN g.int |-> IF s = "CHLD" THEN g.int[s] ELSE "D"]]
  ELSE g

\* set_action is refused for a signal ignored since start-up, unless overridden
Refused(g, pre, op) ==
  /\ op.c # "EXIT" /\ ~op.ov /\ g.init[op.c] = "I"
  /\ pre.c[op.c].act = "V" \/ pre.c[op.c].orig = "I"

\* the user's action for signal s after the operation ("V": still unknown)
ExpAct(g, pre, op, s) ==
  LET e == pre.c[s] IN
  IF op.op = "set_action" /\ op.c = s /\ s \notin {"KILL", "STOP"} /\ ~Refused(g, pre, op) THEN op.a
  ELSE IF IsInternalOp(op.op) /\ s \in DOMAIN IntTable(op.op) /\ IntTable(op.op)[s] # "D" /\ e.act = "V"
  THEN InitAct(g, s)
  ELSE IF op.op = "enter_subshell"
  THEN IF e.act = "V" THEN (IF op.ii /\ s \in {"INT", "QUIT"} THEN "I" ELSE "V")
       ELSE IF s # "CHLD" /\ ForcedIgnore(g, op, s) THEN "I"
       ELSE IF e.act = "C" THEN "D" ELSE e.act
  ELSE e.act

ExpSys(g, pre, op, s) == Merged(ExpAct(g, pre, op, s), NextG(g, pre, op).int[s], IniEff(g, s))

\* A pending instance of a signal is delivered when the signal is unblocked;
\* under the default action this kills or stops the shell and the call never
\* returns.
Lethal(g, pre, op) ==
  {s \in SigsOf(pre) : pre.c[s].kp /\ ExpSys(g, pre, op, s) = "D" /\ Eff(s) # "R"}

-----------------------------------------------------------------------------
\* Frame conditions
OthersKeep(pre, post, except, parents) ==
  \A d \in CondsOf(pre) \ except :
     /\ SameCur(pre.c[d], post.c[d]) /\ post.c[d].pend = pre.c[d].pend
     /\ CASE parents = "same"    -> SamePar(pre.c[d], post.c[d])
          [] parents = "cleared" -> NoPar(post.c[d])
          [] parents = "either"  -> SamePar(pre.c[d], post.c[d]) \/ NoPar(post.c[d])

\* a pending instance stays pending exactly while the signal stays caught
KpFrame(pre, post) == \A s \in SigsOf(pre) : post.c[s].kp = (pre.c[s].kp /\ post.c[s].sys = "C")
NoRes(res) == res.sig = "" /\ res.act = "" /\ res.list = <<>>

-----------------------------------------------------------------------------
\* Operations

SetActionChecks(g, pre, op, res, post) ==
  LET c == op.c  e == pre.c[c]  f == post.c[c] IN
  IF c \in {"KILL", "STOP"}
  THEN << <<"set_action: KILL/STOP can never be trapped",
            res.r = "SIG" \o c /\ OthersKeep(pre, post, {}, "either") /\ KpFrame(pre, post)>> >>
  ELSE IF Refused(g, pre, op)
  THEN << <<"set_action: a signal ignored on entry can be neither trapped nor reset (no override)",
            /\ res.r = "ignored"
            /\ IF e.act = "V" THEN IsVacant(f) \/ (IsInherited(g, c, f) /\ ~f.pend /\ NoPar(f))
                              ELSE SameCur(e, f) /\ f.pend = e.pend /\ (SamePar(e, f) \/ NoPar(f))
            /\ OthersKeep(pre, post, {c}, "either") /\ KpFrame(pre, post)>> >>
  ELSE << <<"set_action: accepted", res.r = "ok">>,
          <<"set_action: the new state is the user's action, not pending",
            f.act = op.a /\ f.cmd = op.cmd /\ f.orig = "U" /\ f.loc = op.loc /\ ~f.pend /\ NoPar(f)>>,
          <<"set_action: other conditions keep their state; all parent states are cleared",
            OthersKeep(pre, post, {c}, "cleared") /\ KpFrame(pre, post)>> >>

PeekChecks(g, pre, op, res, post) ==
  LET c == op.c  e == pre.c[c]  f == post.c[c] IN
  << <<"peek_state: an unknown state is learnt from the system, a known one is unchanged",
       /\ IF e.act = "V" THEN IsInherited(g, c, f) /\ ~f.pend /\ NoPar(f)
                         ELSE SameCur(e, f) /\ f.pend = e.pend /\ SamePar(e, f)
       /\ OthersKeep(pre, post, {c}, "same") /\ KpFrame(pre, post)>>,
     <<"peek_state: returns the parent state if any, else the current state",
       /\ res.r = "ok" /\ res.sig = ""
       /\ IF f.pact # "N" THEN res.act = f.pact /\ res.cmd = f.pcmd /\ res.orig = f.porig /\ res.loc = f.ploc
                          ELSE res.act = f.act /\ res.cmd = f.cmd /\ res.orig = f.orig /\ res.loc = f.loc>> >>

InternalChecks(g, pre, op, res, post) ==
  LET T == IntTable(op.op) IN
  << <<"internal disposition: the call succeeds", res.r = "ok" /\ NoRes(res)>>,
     <<"internal disposition: user-visible states are not modified (unknown ones may become known)",
       /\ \A c \in CondsOf(pre) :
            LET e == pre.c[c]  f == post.c[c] IN
            IF c \in DOMAIN T /\ e.act = "V"
            THEN (IsInherited(g, c, f) /\ ~f.pend /\ NoPar(f)) \/ (T[c] = "D" /\ IsVacant(f))
            ELSE SameCur(e, f) /\ f.pend = e.pend /\ SamePar(e, f)
       /\ KpFrame(pre, post)>> >>

SubshellChecks(g, pre, op, res, post) ==
  << <<"enter_subshell: returns", res.r = "ok" /\ NoRes(res)>>,
     <<"enter_subshell: custom actions are reset and remembered as parent states; others stay; INT/QUIT and kept stoppers are ignored",
       \A c \in CondsOf(pre) :
         LET e == pre.c[c]  f == post.c[c]
             forced == c \notin {"EXIT", "CHLD"} /\ ForcedIgnore(g, op, c)
         IN IF e.act = "V"
            THEN IF forced /\ c \in {"INT", "QUIT"}
                 THEN /\ f.act = "I" /\ f.cmd = "" /\ f.loc = "" /\ ~f.pend /\ NoPar(f)
                      /\ f.orig = (IF g.init[c] = "I" THEN "I" ELSE "S")
                 ELSE IsVacant(f)
            ELSE /\ IF e.act = "C"
                    THEN /\ f.pact = "C" /\ f.pcmd = e.cmd /\ f.porig = "U" /\ f.ploc = e.loc
                         /\ f.act = (IF forced THEN "I" ELSE "D") /\ f.cmd = "" /\ f.orig = "S" /\ f.loc = ""
                         /\ ~f.pend
                    ELSE /\ NoPar(f)
                         /\ IF forced /\ e.act = "D"
                            THEN /\ f.act = "I" /\ f.cmd = ""
                                 \* set by the shell: origin Subshell (a user's origin may be kept)
                                 /\ (f.orig = "S" /\ f.loc = "") \/ (e.orig = "U" /\ f.orig = "U" /\ f.loc = e.loc)
                            ELSE SameCur(e, f)
                 /\ f.pend => e.pend>>,
     <<"enter_subshell: pending instances", KpFrame(pre, post)>> >>

\* kill(2) to the shell.  (Not exercised while a handler inherited from before the
\* shell started is still installed: what that handler does is not the shell's.)
DeliverChecks(g, pre, op, res, post) ==
  LET s == op.c
      d == IF s \in {"KILL", "STOP"} THEN "D" ELSE pre.c[s].sys
  IN << <<"deliver: the signal takes effect according to the installed disposition",
          /\ res.r = "ok"
          /\ post.proc = (IF d = "D" THEN Eff(s) ELSE "R")>> >> \o
     (IF post.proc # "R" THEN <<>> ELSE
      << <<"deliver: a caught signal stays pending until the shell collects it; nothing else changes",
           /\ \A t \in SigsOf(pre) : post.c[t].kp = (pre.c[t].kp \/ (t = s /\ d = "C"))
           /\ \A c \in CondsOf(pre) : post.c[c].sys = pre.c[c].sys /\ post.c[c].blk = pre.c[c].blk
           /\ OthersKeep(pre, post, {}, "same")>> >>)

\* Env::poll_signals
PollChecks(g, pre, op, res, post) ==
  LET got == {s \in SigsOf(pre) : pre.c[s].kp} IN
  << <<"poll: returns exactly the signals delivered since the last poll",
       /\ {res.list[i] : i \in 1..Len(res.list)} = got
       /\ res.r = (IF got = {} THEN "none" ELSE "some")>>,
     <<"poll: each collected signal becomes pending in the trap set, once; nothing else changes",
       /\ \A s \in SigsOf(pre) : ~post.c[s].kp
       /\ \A c \in CondsOf(pre) :
            /\ SameCur(pre.c[c], post.c[c]) /\ SamePar(pre.c[c], post.c[c])
            /\ post.c[c].pend = (pre.c[c].pend \/ (c \in got /\ pre.c[c].act # "V"))>> >>

CatchChecks(g, pre, op, res, post) ==
  << <<"catch_signal: sets the pending flag of a known signal; nothing else changes",
       /\ res.r = "ok"
       /\ \A c \in CondsOf(pre) :
            /\ SameCur(pre.c[c], post.c[c]) /\ SamePar(pre.c[c], post.c[c])
            /\ post.c[c].pend = (pre.c[c].pend \/ (c = op.c /\ pre.c[c].act # "V"))
       /\ KpFrame(pre, post)>> >>

\* take_caught_signal (sig = "") / take_signal_if_caught (sig = op.c)
TakeChecks(g, pre, op, res, post) ==
  LET P == IF op.op = "take" THEN {s \in SigsOf(pre) : pre.c[s].pend}
           ELSE {s \in {op.c} : pre.c[s].pend}
  IN << <<"take: returns a pending signal with its trap state (which one is unspecified), none if there is none",
          IF P = {} THEN res.r = "none" /\ NoRes(res)
          ELSE /\ res.r = "some" /\ res.sig \in P
               /\ LET e == pre.c[res.sig] IN
                  res.act = e.act /\ res.cmd = e.cmd /\ res.orig = e.orig /\ res.loc = e.loc>>,
        <<"take: clears the pending flag of the returned signal only; nothing else changes",
          /\ \A c \in CondsOf(pre) :
               /\ SameCur(pre.c[c], post.c[c]) /\ SamePar(pre.c[c], post.c[c])
               /\ post.c[c].pend = (pre.c[c].pend /\ c # res.sig)
          /\ KpFrame(pre, post)>> >>

OpChecks(g, pre, op, res, post) ==
  CASE op.op = "set_action"      -> SetActionChecks(g, pre, op, res, post)
    [] op.op = "peek"            -> PeekChecks(g, pre, op, res, post)
    [] IsInternalOp(op.op)       -> InternalChecks(g, pre, op, res, post)
    [] op.op = "enter_subshell"  -> SubshellChecks(g, pre, op, res, post)
    [] op.op = "poll"            -> PollChecks(g, pre, op, res, post)
    [] op.op = "catch"           -> CatchChecks(g, pre, op, res, post)
    [] op.op \in {"take", "take_if"} -> TakeChecks(g, pre, op, res, post)

\* All checks of one observed step
StepChecks(g, pre, op, res, post) ==
  IF op.op = "deliver" THEN DeliverChecks(g, pre, op, res, post)
  ELSE LET lethal == Lethal(g, pre, op) IN
       IF lethal # {}
       THEN << <<"a pending signal whose handler is removed is delivered: default action ends the shell",
                 post.proc \in {Eff(s) : s \in lethal} /\ res.r = "hang">> >>
       ELSE IF post.proc # "R" \/ res.r \in {"hang", "panic", "errno"}
       THEN << <<"the call returns and the shell keeps running", FALSE>> >>
       ELSE OpChecks(g, pre, op, res, post) \o InvChecks(NextG(g, pre, op), post)

AllHold(S) == \A i \in 1..Len(S) : S[i][2]
Failed(S)  == {S[i][1] : i \in {j \in 1..Len(S) : ~S[j][2]}}
=============================================================================
