SPECIFICATION Spec
CONSTANT Fams = {"pipe"}
CONSTANT Deep = 1
INVARIANT Emit
