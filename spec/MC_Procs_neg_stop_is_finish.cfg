\* NEGATIVE configuration: the named wrong action "stop_is_finish" (waiting
\* for a pipeline member returns when the member is merely stopped); TLC MUST
\* report a violated invariant: the shell goes on while the member is alive
\* and records a status that is not the member's exit status.
SPECIFICATION Spec
CONSTANTS
  Variant = "stop_is_finish"
  MaxP = 7
  Scripts <- CatNegStop
INVARIANTS NoErr InvReapOnce InvStatusTrue InvNoFgLeft InvJobsSound InvDenotation
