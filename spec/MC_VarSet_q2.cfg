SPECIFICATION Spec
CONSTANTS
  Names = {"x", "y"}
  Vals = {"a"}
  MaxDepth = 2
  PosVals <- PosNone
  Thens = {"none", "assign", "export"}
  MaxH = 100
VIEW view
INVARIANT TypeOK
INVARIANT Normalized
INVARIANT ObservationsAgree
INVARIANT EmitState
PROPERTY RefinesVarRef
PROPERTY ReadOnlyNeverChanges
PROPERTY ReadOnlyVisible
