SPECIFICATION Spec
INVARIANT Judge
