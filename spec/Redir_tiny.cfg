SPECIFICATION Spec
CONSTANTS
  Cfg = "tiny"
  Bug = "none"
  Sim = TRUE
INVARIANT TypeOK
INVARIANT InternalInv
INVARIANT Conforms
INVARIANT Emit
