INIT Init
NEXT Next
VIEW view
CONSTANTS
  PNorm <- AlphaRegex
  PLit <- NoChars
  PMacro <- NoChars
  PLen = 4
  SAlpha <- StrRegex
  SLen = 2
  Kind = "match"
INVARIANT Emit
