SPECIFICATION Spec
CONSTANTS
  Fuel = 24
  TickLimit = 2
  K = 4
  Alphabet <- AlphaExecNest
  Opts <- OptsExec
INVARIANT Emit
CHECK_DEADLOCK FALSE
