\* negative configuration: the wrong variant "def_overwrites_ro" must be refuted by P_DefineInert
SPECIFICATION Spec
CONSTANTS
  MaxDepth = 4
  Variant = "def_overwrites_ro"
  Fams = {"tabmain"}
  LB = 1
  LM = 1
  Wide = {}
  Stepwise = TRUE
PROPERTY P_DefineInert
