SPECIFICATION Spec
CONSTANTS
  Cfg = "q1a"
  Bug = "none"
  Sim = TRUE
INVARIANT TypeOK
INVARIANT InternalInv
INVARIANT Conforms
INVARIANT Emit
