SPECIFICATION Spec
CONSTANTS
  Fuel = 24
  TickLimit = 2
  Variant = ""
  K = 4
  Alphabet <- AlphaRedir
  ItemAlphabet <- NoItems
  Opts <- OptsPlain
INVARIANT Emit
CHECK_DEADLOCK FALSE
