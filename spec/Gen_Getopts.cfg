SPECIFICATION Spec
CONSTANTS
  MaxLen = 4
  ShellLen = 3
INVARIANT Emit
