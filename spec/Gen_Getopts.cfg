SPECIFICATION Spec
CONSTANTS
  MaxLen = 3
  ShellLen = 3
INVARIANT Emit
