\* G14 enumeration and laws, thorough
SPECIFICATION Spec
CONSTANTS
  Level = "full"
  Variant = "none"
INVARIANT Emit
