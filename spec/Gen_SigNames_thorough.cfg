\* G14 enumeration and laws, thorough
SPECIFICATION Spec
CONSTANTS
  Level = "full"
INVARIANT Emit
