SPECIFICATION Spec
CONSTANTS
  NT = 2
  NP = 1
  NS = 2
  Cap = 2
  MaxNow = 2
  Budget = 3
  MaxExt = 3
  MaxSel = 3
  MaxSpur = 1
  Base0 = {2}
  Variant = "ok"
  Hist = "off"
  Loop = FALSE
  Peek = TRUE
  Sym = TRUE
  Fam = "sig"
  Ops <- FamOps
  Exts <- FamExts
INVARIANT TypeOK
