SPECIFICATION WalkSpec
CONSTANTS
  MaxLen = 16
  Modes = {TRUE, FALSE}
  JobIdOps = {"%1", "%2", "%3", "%%", "%+", "%-", "%?f2", "%hold", "%"}
  PidOps = {"$p1", "$p2", "$p3", "9999"}
  Sigs = {"TERM", "KILL", "INT", "HUP", "STOP", "TSTP", "CONT", "0"}
  JobsOpts = {"", "-l", "-p"}
  StartWith = "none"
INVARIANT TableConsistent
INVARIANT TableMirrorsProcesses
INVARIANT ListingShape
INVARIANT EmitWalk
