SPECIFICATION WalkSpec
CONSTANTS
  MaxLen = 16
  Modes = {TRUE, FALSE}
  JobIdOps = {"%1", "%2", "%3", "%%", "%+", "%-", "%?f2", "%hold", "%"}
  PidOps = {"$p1", "$p2", "$p3", "9999"}
  Sigs = {"TERM", "KILL", "INT", "HUP", "STOP", "TSTP", "CONT", "0"}
  JobsOpts = {"", "-l", "-p"}
  KillLNums = {0, 1, 2, 3, 9, 15, 385, 386, 387, 393, 399}
  MonCmds = {0, 1}
  FgSlots = {1, 2, 3}
  StartWith = "none"
INVARIANT TableConsistent
INVARIANT TableMirrorsProcesses
INVARIANT ListingShape
INVARIANT EmitWalk
