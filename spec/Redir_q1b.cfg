SPECIFICATION Spec
CONSTANTS
  Cfg = "q1b"
  Bug = "none"
  Sim = TRUE
INVARIANT TypeOK
INVARIANT InternalInv
INVARIANT Conforms
INVARIANT Emit
