\* C08 quick: every scenario with at most 1 mutator over the full alphabet
CONSTANTS
  MaxPre = 1
  MaxChild = 2
  MaxPost = 1
  MaxTotal = 1
  MinPre = 0
  MinTotal = 0
  Leaky = FALSE
  ForkBug = "none"
  Alphabet <- AllCmds
  PreAlphabet <- AllCmds
  Kinds <- AllKinds
  Modes <- ScriptMode
  Fins <- NormalFin
  Ctxs <- MainCtx
INIT Init
NEXT Next
INVARIANTS NoForeignTrapAction EntryIsForkImage PendingCleared ParentTrapOnce ContextDuplicated TrapRule SharedDescriptions Final Emit
PROPERTIES Isolation CopyNotReference
