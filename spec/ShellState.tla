----------------------------- MODULE ShellState -----------------------------
(***************************************************************************)
(* C07, part (ii): state listings recreate the state.                      *)
(*                                                                         *)
(* Abstract shell state, the definition operations, and for every printer  *)
(* the part of the state it lists (Proj): the specification of a printer   *)
(* is that evaluating its output in a fresh shell yields a state whose     *)
(* projection equals that of the printing shell.  Listing(kind, st) is the *)
(* abstract listing (a set of definitions); Eval(Listing(kind, st)) has    *)
(* the same projection as st (checked by TLC, MC_ShellState: ListingsOK).  *)
(*                                                                         *)
(* Sources: POSIX.1-2024 XCU 2.5.3 (variables), 2.9.1 (assignments),       *)
(* 2.15 (export, readonly, set, trap), alias, umask; the manual            *)
(* docs/src/builtins/{alias,export,readonly,typeset,set,trap,umask}.md and *)
(* environment/options.md.  Names, values and other texts are sequences of *)
(* code points; here they only need equality (plus IsName).                *)
(*                                                                         *)
(* State:                                                                  *)
(*  vars   set of [n, k, v, x, r]: name, kind "S" scalar / "A" array /     *)
(*         "U" declared without value, v = <<value>> / elements / <<>>,    *)
(*         x exported, r read-only; names are unique                       *)
(*  al     set of [n, v]  aliases                                          *)
(*  fn     set of [n, b]  functions (b = body text)                        *)
(*  opts   set of names of the options that are on                         *)
(*  traps  set of [c, a]  condition name, action (<<>> = ignore)           *)
(*  mask   file mode creation mask, 0..511                                 *)
(*  infn   the shell is executing the body of a function                   *)
(*  loc    set of [n, k, v, x, r]: the local variables of that function    *)
(*         (variables.md#local-variables); a local variable hides a global *)
(*         one of the same name, also a read-only one (typeset.md,         *)
(*         Compatibility)                                                  *)
(***************************************************************************)
EXTENDS Quote

Str(s) == s   \* (documentation only: texts are code point sequences)

O_allexport == <<97,108,108,101,120,112,111,114,116>>
O_clobber == <<99,108,111,98,98,101,114>>
O_cmdline == <<99,109,100,108,105,110,101>>
O_errexit == <<101,114,114,101,120,105,116>>
O_exec == <<101,120,101,99>>
O_glob == <<103,108,111,98>>
O_hashondefinition == <<104,97,115,104,111,110,100,101,102,105,110,105,116,105,111,110>>
O_ignoreeof == <<105,103,110,111,114,101,101,111,102>>
O_interactive == <<105,110,116,101,114,97,99,116,105,118,101>>
O_log == <<108,111,103>>
O_login == <<108,111,103,105,110>>
O_monitor == <<109,111,110,105,116,111,114>>
O_notify == <<110,111,116,105,102,121>>
O_pipefail == <<112,105,112,101,102,97,105,108>>
O_portable == <<112,111,114,116,97,98,108,101>>
O_posixlycorrect == <<112,111,115,105,120,108,121,99,111,114,114,101,99,116>>
O_stdin == <<115,116,100,105,110>>
O_unset == <<117,110,115,101,116>>
O_verbose == <<118,101,114,98,111,115,101>>
O_vi == <<118,105>>
O_xtrace == <<120,116,114,97,99,101>>

(* environment/options.md: every option has a long name; cmdline,          *)
(* interactive and stdin can be given at start-up only (`set +o` prints    *)
(* them commented out).                                                    *)
AllOptions == {O_allexport, O_clobber, O_cmdline, O_errexit, O_exec, O_glob, O_hashondefinition,
               O_ignoreeof, O_interactive, O_log, O_login, O_monitor, O_notify, O_pipefail,
               O_portable, O_posixlycorrect, O_stdin, O_unset, O_verbose, O_vi, O_xtrace}
Modifiable == AllOptions \ {O_cmdline, O_interactive, O_stdin}

IsName(n) == n # <<>> /\ IsNameStart(n[1]) /\ \A k \in 1..Len(n) : IsNameChar(n[k])

---------------------------------------------------------------------------
Has(vs, n) == \E e \in vs : e.n = n
Get(vs, n) == CHOOSE e \in vs : e.n = n
Put(vs, e) == {o \in vs : o.n # e.n} \cup {e}
NoVar(n) == [n |-> n, k |-> "U", v |-> <<>>, x |-> FALSE, r |-> FALSE]
VarOr(vs, n) == IF Has(vs, n) THEN Get(vs, n) ELSE NoVar(n)
ReadOnly(st, n) == Has(st.vars, n) /\ Get(st.vars, n).r
(* the variables visible to the commands being executed *)
Vis(st) == st.loc \cup {e \in st.vars : ~Has(st.loc, e.n)}

(* A definition operation is a record                                      *)
(*   [op, n, hv, v, m]                                                     *)
(* op   "assign"   n=v[1]                 (simple command, XCU 2.9.1)      *)
(*      "array"    n=(v[1] .. v[k])       (variables.md#arrays)            *)
(*      "export"   export n[=v[1]]        hv = a value is given            *)
(*      "readonly" readonly n[=v[1]]                                       *)
(*      "typeset"  typeset n[=v[1]]       (outside functions)              *)
(*      "alias"    alias n=v[1]                                            *)
(*      "func"     n() v[1]                                                *)
(*      "opt"      set -o n (hv) / set +o n (~hv)                          *)
(*      "trap"     trap -- v[1] n (hv) / trap - n (~hv)                    *)
(*      "umask"    umask m                                                 *)
(*      "enter"    n() { ... }; n   the function n (body v[1]) is defined  *)
(*                 and called; what follows happens inside its body        *)
(*      "local"    typeset [-x] [-r] n[=v[1]] inside the function body     *)
(*                 (m = 1 with -x, 2 with -r, 3 with both): "creates or    *)
(*                 updates variables locally within the current function"  *)
(* Conditions (trap.md): EXIT and every signal the system offers except     *)
(* KILL and STOP, the real-time signals as RTMIN, RTMIN+n, RTMAX-n, RTMAX. *)
(* One signal may have several names (XBD <signal.h>); a listing uses one  *)
(* of them.  The catalogue is a parameter of the system: this is the one   *)
(* of the simulated system (nine real-time signals).                       *)
C_EXIT == <<69,88,73,84>>
ClassicSignals == {<<72,85,80>>, <<73,78,84>>, <<81,85,73,84>>, <<65,66,82,84>>,
                   <<65,76,82,77>>, <<84,69,82,77>>, <<66,85,83>>, <<67,72,76,68>>,
                   <<67,79,78,84>>, <<69,77,84>>, <<70,80,69>>, <<73,76,76>>,
                   <<73,78,70,79>>, <<73,79>>, <<76,79,83,84>>, <<80,73,80,69>>,
                   <<80,79,76,76>>, <<80,82,79,70>>, <<80,87,82>>, <<83,69,71,86>>,
                   <<83,84,75,70,76,84>>, <<83,89,83>>, <<84,72,82>>, <<84,82,65,80>>,
                   <<84,83,84,80>>, <<84,84,73,78>>, <<84,84,79,85>>, <<85,82,71>>,
                   <<85,83,82,49>>, <<85,83,82,50>>, <<86,84,65,76,82,77>>, <<87,73,78,67,72>>,
                   <<88,67,80,85>>, <<88,70,83,90>>}
RealTimeSignals == {<<82,84,77,73,78>>, <<82,84,77,73,78,43,49>>, <<82,84,77,73,78,43,50>>, <<82,84,77,73,78,43,51>>, <<82,84,77,73,78,43,52>>, <<82,84,77,65,88,45,51>>, <<82,84,77,65,88,45,50>>, <<82,84,77,65,88,45,49>>, <<82,84,77,65,88>>}
Conditions == {C_EXIT} \cup ClassicSignals \cup RealTimeSignals
CondAliases == {<<<<73,79,84>>, <<65,66,82,84>>>>,
                <<<<67,76,68>>, <<67,72,76,68>>>>,
                <<<<82,84,77,73,78,43,53>>, <<82,84,77,65,88,45,51>>>>,
                <<<<82,84,77,73,78,43,54>>, <<82,84,77,65,88,45,50>>>>,
                <<<<82,84,77,73,78,43,55>>, <<82,84,77,65,88,45,49>>>>,
                <<<<82,84,77,73,78,43,56>>, <<82,84,77,65,88>>>>,
                <<<<82,84,77,65,88,45,52>>, <<82,84,77,73,78,43,52>>>>,
                <<<<82,84,77,65,88,45,53>>, <<82,84,77,73,78,43,51>>>>,
                <<<<82,84,77,65,88,45,54>>, <<82,84,77,73,78,43,50>>>>,
                <<<<82,84,77,65,88,45,55>>, <<82,84,77,73,78,43,49>>>>,
                <<<<82,84,77,65,88,45,56>>, <<82,84,77,73,78>>>>}
Canon(c) == IF \E p \in CondAliases : p[1] = c THEN (CHOOSE p \in CondAliases : p[1] = c)[2] ELSE c
ConditionNames == Conditions \cup {p[1] : p \in CondAliases}

Contains61(n) == \E k \in 1..Len(n) : n[k] = EQ
(* XCU 2.15 trap: an action operand `-` resets the conditions; if the      *)
(* first operand is an unsigned decimal integer all operands are           *)
(* conditions (such operations are not generated).                         *)
AllDigits(a) == a # <<>> /\ \A k \in 1..Len(a) : a[k] \in 48..57
IsReset(o) == ~o.hv \/ o.v[1] = <<45>>

(* Operations whose effect the sources leave open, or that would end the   *)
(* shell, are not part of the quantifier (the generators skip them):       *)
(* assigning to a read-only variable is an error that makes a              *)
(* non-interactive shell exit; with allexport on ("all variables assigned   *)
(* in the shell are exported"), whether readonly/typeset count as          *)
(* assigning is not stated;                                                *)
(* with exec off nothing is executed any more; the operand of export,      *)
(* readonly, typeset and alias is split at its first `=`; while the        *)
(* portable option is on, `set` accepts only the option names POSIX knows  *)
(* (options.md, Compatibility; the operation is written `set -o name` /    *)
(* `set +o name`, so only the names that are spelled alike qualify) and    *)
(* the shell "rejects or ignores non-portable features", an open list, so  *)
(* no other definition is made under it.                                   *)
PortableSpelling == {O_allexport, O_notify, O_errexit, O_monitor, O_verbose, O_xtrace,
                     O_ignoreeof, O_pipefail, O_vi, O_portable}
OpEnabled(st, o) ==
  /\ O_portable \in st.opts => (o.op = "opt" /\ o.n \in PortableSpelling)
  (* inside the function body only local definitions are made (what an     *)
  (* assignment or `export` does to a hidden or a local variable is not    *)
  (* needed to state what the printers list)                               *)
  /\ st.infn <=> o.op = "local"
  /\ (CASE o.op \in {"assign", "array"} -> IsName(o.n) /\ ~ReadOnly(st, o.n)
        [] o.op \in {"export", "readonly", "typeset"} ->
             /\ ~Contains61(o.n)
             /\ o.hv => ~ReadOnly(st, o.n)
             /\ o.op # "export" => O_allexport \notin st.opts
        [] o.op = "alias" -> ~Contains61(o.n)
        [] o.op = "func" -> TRUE
        [] o.op = "opt" -> o.n \in Modifiable /\ ~(o.n = O_exec /\ ~o.hv)
        [] o.op = "trap" -> ~(o.hv /\ AllDigits(o.v[1])) /\ Canon(o.n) \in Conditions
        [] o.op = "umask" -> o.m \in 0..511
        [] o.op = "enter" -> TRUE
        [] o.op = "local" ->
             /\ ~Contains61(o.n) /\ o.m \in 0..3
             /\ O_allexport \notin st.opts
             /\ o.hv => ~(Has(st.loc, o.n) /\ Get(st.loc, o.n).r))

Apply(st, o) ==
  CASE o.op = "assign" ->
         LET old == VarOr(st.vars, o.n) IN
         [st EXCEPT !.vars = Put(@, [old EXCEPT !.k = "S", !.v = <<o.v[1]>>,
                                               !.x = old.x \/ O_allexport \in st.opts])]
    [] o.op = "array" ->
         LET old == VarOr(st.vars, o.n) IN
         [st EXCEPT !.vars = Put(@, [old EXCEPT !.k = "A", !.v = o.v,
                                               !.x = old.x \/ O_allexport \in st.opts])]
    [] o.op \in {"export", "readonly", "typeset"} ->
         LET old == VarOr(st.vars, o.n)
             val == IF o.hv THEN [old EXCEPT !.k = "S", !.v = <<o.v[1]>>] ELSE old
         IN [st EXCEPT !.vars = Put(@, [val EXCEPT !.x = old.x \/ o.op = "export",
                                                   !.r = old.r \/ o.op = "readonly"])]
    [] o.op = "alias" -> [st EXCEPT !.al = Put(@, [n |-> o.n, v |-> o.v[1]])]
    [] o.op = "func" -> [st EXCEPT !.fn = Put(@, [n |-> o.n, b |-> o.v[1]])]
    [] o.op = "opt" -> [st EXCEPT !.opts = IF o.hv THEN @ \cup {o.n} ELSE @ \ {o.n}]
    [] o.op = "trap" ->
         LET c == Canon(o.n) IN
         [st EXCEPT !.traps = IF IsReset(o) THEN {t \in @ : t.c # c}
                              ELSE {t \in @ : t.c # c} \cup {[c |-> c, a |-> o.v[1]]}]
    [] o.op = "umask" -> [st EXCEPT !.mask = o.m]
    [] o.op = "enter" -> [st EXCEPT !.fn = Put(@, [n |-> o.n, b |-> o.v[1]]), !.infn = TRUE]
    [] o.op = "local" ->
         LET old == VarOr(st.loc, o.n)     \* a new local variable inherits nothing
             val == IF o.hv THEN [old EXCEPT !.k = "S", !.v = <<o.v[1]>>] ELSE old
         IN [st EXCEPT !.loc = Put(@, [val EXCEPT !.x = old.x \/ o.m \in {1, 3},
                                                  !.r = old.r \/ o.m \in {2, 3}])]

RECURSIVE ApplyAll(_, _)
ApplyAll(st, h) == IF h = <<>> THEN st ELSE ApplyAll(Apply(st, Head(h)), Tail(h))

RECURSIVE AllEnabled(_, _)
AllEnabled(st, h) == IF h = <<>> THEN TRUE
                     ELSE OpEnabled(st, Head(h)) /\ AllEnabled(Apply(st, Head(h)), Tail(h))

---------------------------------------------------------------------------
(* What each printer lists.                                                *)
(*  alias        every alias                        (alias.md)             *)
(*  export -p    name and value of "all exported variables" (export.md;    *)
(*               "the commands do not include options to restore           *)
(*               attributes"), wherever the command is executed            *)
(*  readonly -p  name and value of "all read-only variables" (readonly.md) *)
(*  typeset -p   value and attributes of the "variables in the current     *)
(*               context": inside a function its local variables;          *)
(*  typeset -p -g  "variables visible in the current scope (which may be   *)
(*               outside the current function)"; no difference outside a   *)
(*               function (typeset.md)                                     *)
(*  typeset -fp  every function                     (typeset.md)           *)
(*  set          name and value of every "variable visible in the current  *)
(*               execution environment" that has a value and whose name is *)
(*               a name (set.md: "a sequence of simple commands performing *)
(*               an assignment")                                           *)
(*  set +o       the state of every modifiable option (set.md)             *)
(*  trap         every condition whose action is not the default (trap.md) *)
(*  umask, umask -S   the mask (umask.md)                                  *)
(* A hidden variable cannot be named by any command of the function, so    *)
(* "all" variables are the visible ones.                                   *)
Kinds == {"alias", "export", "readonly", "typeset", "typesetg", "functions", "set", "options", "trap",
          "umask", "umaskS"}

NKV(e) == [n |-> e.n, k |-> e.k, v |-> e.v]
(* the variables a variable printer lists *)
Listed(kind, st) ==
  CASE kind = "export" -> {e \in Vis(st) : e.x}
    [] kind = "readonly" -> {e \in Vis(st) : e.r}
    [] kind = "typeset" -> IF st.infn THEN st.loc ELSE st.vars
    [] kind = "typesetg" -> Vis(st)
    [] kind = "set" -> {e \in Vis(st) : e.k # "U" /\ IsName(e.n)}
Proj(kind, st) ==
  CASE kind = "alias" -> st.al
    [] kind \in {"export", "readonly", "set"} -> {NKV(e) : e \in Listed(kind, st)}
    [] kind \in {"typeset", "typesetg"} -> Listed(kind, st)
    [] kind = "functions" -> st.fn
    [] kind = "options" -> st.opts \cap Modifiable
    [] kind = "trap" -> st.traps
    [] kind \in {"umask", "umaskS"} -> {st.mask}

(* The abstract listing: a set of definition groups (each a short sequence *)
(* of operations on one name); groups of different names commute.          *)
Op(op, n, hv, v, m) == [op |-> op, n |-> n, hv |-> hv, v |-> v, m |-> m]
ValueOps(e, decl) ==
  (* define variable e.n with e's value through declaration `decl` *)
  IF e.k = "A" THEN <<Op("array", e.n, TRUE, e.v, 0), Op(decl, e.n, FALSE, <<>>, 0)>>
  ELSE IF e.k = "S" THEN <<Op(decl, e.n, TRUE, e.v, 0)>>
  ELSE <<Op(decl, e.n, FALSE, <<>>, 0)>>
Listing(kind, st) ==
  CASE kind = "alias" -> {<<Op("alias", e.n, TRUE, <<e.v>>, 0)>> : e \in st.al}
    [] kind = "export" -> {ValueOps(e, "export") : e \in Listed(kind, st)}
    [] kind = "readonly" -> {ValueOps(e, "readonly") : e \in Listed(kind, st)}
    [] kind \in {"typeset", "typesetg"} ->
         {ValueOps(e, "typeset") \o (IF e.x THEN <<Op("export", e.n, FALSE, <<>>, 0)>> ELSE <<>>)
                                 \o (IF e.r THEN <<Op("readonly", e.n, FALSE, <<>>, 0)>> ELSE <<>>) : e \in Listed(kind, st)}
    [] kind = "functions" -> {<<Op("func", e.n, TRUE, <<e.b>>, 0)>> : e \in st.fn}
    [] kind = "set" ->
         {<<Op(IF e.k = "A" THEN "array" ELSE "assign", e.n, TRUE, e.v, 0)>> :
            e \in Listed(kind, st)}
    [] kind = "options" -> {<<Op("opt", o, o \in st.opts, <<>>, 0)>> : o \in Modifiable \ {O_exec}}
    [] kind = "trap" -> {<<Op("trap", t.c, TRUE, <<t.a>>, 0)>> : t \in st.traps}
    [] kind \in {"umask", "umaskS"} -> {<<Op("umask", <<>>, TRUE, <<>>, st.mask)>>}

RECURSIVE Eval(_, _)
Eval(st, groups) ==
  IF groups = {} THEN st
  ELSE LET g == CHOOSE g \in groups : TRUE IN Eval(ApplyAll(st, g), groups \ {g})

Empty == [vars |-> {}, al |-> {}, fn |-> {}, opts |-> {}, traps |-> {}, mask |-> 0,
          infn |-> FALSE, loc |-> {}]
=============================================================================
