----------------------------- MODULE ShellState -----------------------------
(***************************************************************************)
(* C07, part (ii): state listings recreate the state.                      *)
(*                                                                         *)
(* Abstract shell state, the definition operations, and for every printer  *)
(* the part of the state it lists (Proj): the specification of a printer   *)
(* is that evaluating its output in a fresh shell yields a state whose     *)
(* projection equals that of the printing shell.  Listing(kind, st) is the *)
(* abstract listing (a set of definitions); Eval(Listing(kind, st)) has    *)
(* the same projection as st (checked by TLC, MC_ShellState: ListingsOK).  *)
(*                                                                         *)
(* Sources: POSIX.1-2024 XCU 2.5.3 (variables), 2.9.1 (assignments),       *)
(* 2.15 (export, readonly, set, trap), alias, umask; the manual            *)
(* docs/src/builtins/{alias,export,readonly,typeset,set,trap,umask}.md and *)
(* environment/options.md.  Names, values and other texts are sequences of *)
(* code points; here they only need equality (plus IsName).                *)
(*                                                                         *)
(* State:                                                                  *)
(*  vars   set of [n, k, v, x, r]: name, kind "S" scalar / "A" array /     *)
(*         "U" declared without value, v = <<value>> / elements / <<>>,    *)
(*         x exported, r read-only; names are unique                       *)
(*  al     set of [n, v]  aliases                                          *)
(*  fn     set of [n, b]  functions (b = body text)                        *)
(*  opts   set of names of the options that are on                         *)
(*  traps  set of [c, a]  condition name, action (<<>> = ignore)           *)
(*  mask   file mode creation mask, 0..511                                 *)
(***************************************************************************)
EXTENDS Quote

Str(s) == s   \* (documentation only: texts are code point sequences)

O_allexport == <<97,108,108,101,120,112,111,114,116>>
O_clobber == <<99,108,111,98,98,101,114>>
O_cmdline == <<99,109,100,108,105,110,101>>
O_errexit == <<101,114,114,101,120,105,116>>
O_exec == <<101,120,101,99>>
O_glob == <<103,108,111,98>>
O_hashondefinition == <<104,97,115,104,111,110,100,101,102,105,110,105,116,105,111,110>>
O_ignoreeof == <<105,103,110,111,114,101,101,111,102>>
O_interactive == <<105,110,116,101,114,97,99,116,105,118,101>>
O_log == <<108,111,103>>
O_login == <<108,111,103,105,110>>
O_monitor == <<109,111,110,105,116,111,114>>
O_notify == <<110,111,116,105,102,121>>
O_pipefail == <<112,105,112,101,102,97,105,108>>
O_portable == <<112,111,114,116,97,98,108,101>>
O_posixlycorrect == <<112,111,115,105,120,108,121,99,111,114,114,101,99,116>>
O_stdin == <<115,116,100,105,110>>
O_unset == <<117,110,115,101,116>>
O_verbose == <<118,101,114,98,111,115,101>>
O_vi == <<118,105>>
O_xtrace == <<120,116,114,97,99,101>>

(* environment/options.md: every option has a long name; cmdline,          *)
(* interactive and stdin can be given at start-up only (`set +o` prints    *)
(* them commented out).                                                    *)
AllOptions == {O_allexport, O_clobber, O_cmdline, O_errexit, O_exec, O_glob, O_hashondefinition,
               O_ignoreeof, O_interactive, O_log, O_login, O_monitor, O_notify, O_pipefail,
               O_portable, O_posixlycorrect, O_stdin, O_unset, O_verbose, O_vi, O_xtrace}
Modifiable == AllOptions \ {O_cmdline, O_interactive, O_stdin}

IsName(n) == n # <<>> /\ IsNameStart(n[1]) /\ \A k \in 1..Len(n) : IsNameChar(n[k])

---------------------------------------------------------------------------
Has(vs, n) == \E e \in vs : e.n = n
Get(vs, n) == CHOOSE e \in vs : e.n = n
Put(vs, e) == {o \in vs : o.n # e.n} \cup {e}
NoVar(n) == [n |-> n, k |-> "U", v |-> <<>>, x |-> FALSE, r |-> FALSE]
VarOr(vs, n) == IF Has(vs, n) THEN Get(vs, n) ELSE NoVar(n)
ReadOnly(st, n) == Has(st.vars, n) /\ Get(st.vars, n).r

(* A definition operation is a record                                      *)
(*   [op, n, hv, v, m]                                                     *)
(* op   "assign"   n=v[1]                 (simple command, XCU 2.9.1)      *)
(*      "array"    n=(v[1] .. v[k])       (variables.md#arrays)            *)
(*      "export"   export n[=v[1]]        hv = a value is given            *)
(*      "readonly" readonly n[=v[1]]                                       *)
(*      "typeset"  typeset n[=v[1]]       (outside functions)              *)
(*      "alias"    alias n=v[1]                                            *)
(*      "func"     n() v[1]                                                *)
(*      "opt"      set -o n (hv) / set +o n (~hv)                          *)
(*      "trap"     trap -- v[1] n (hv) / trap - n (~hv)                    *)
(*      "umask"    umask m                                                 *)
Contains61(n) == \E k \in 1..Len(n) : n[k] = EQ
(* XCU 2.15 trap: an action operand `-` resets the conditions; if the      *)
(* first operand is an unsigned decimal integer all operands are           *)
(* conditions (such operations are not generated).                         *)
AllDigits(a) == a # <<>> /\ \A k \in 1..Len(a) : a[k] \in 48..57
IsReset(o) == ~o.hv \/ o.v[1] = <<45>>

(* Operations whose effect the sources leave open, or that would end the   *)
(* shell, are not part of the quantifier (the generators skip them):       *)
(* assigning to a read-only variable is an error that makes a              *)
(* non-interactive shell exit; with allexport on ("all variables assigned   *)
(* in the shell are exported"), whether readonly/typeset count as          *)
(* assigning is not stated;                                                *)
(* with exec off nothing is executed any more; the operand of export,      *)
(* readonly, typeset and alias is split at its first `=`; while the        *)
(* portable option is on, `set` accepts only the option names POSIX knows  *)
(* (options.md, Compatibility; the operation is written `set -o name` /    *)
(* `set +o name`, so only the names that are spelled alike qualify) and    *)
(* the shell "rejects or ignores non-portable features", an open list, so  *)
(* no other definition is made under it.                                   *)
PortableSpelling == {O_allexport, O_notify, O_errexit, O_monitor, O_verbose, O_xtrace,
                     O_ignoreeof, O_pipefail, O_vi, O_portable}
OpEnabled(st, o) ==
  /\ O_portable \in st.opts => (o.op = "opt" /\ o.n \in PortableSpelling)
  /\ (CASE o.op \in {"assign", "array"} -> IsName(o.n) /\ ~ReadOnly(st, o.n)
        [] o.op \in {"export", "readonly", "typeset"} ->
             /\ ~Contains61(o.n)
             /\ o.hv => ~ReadOnly(st, o.n)
             /\ o.op # "export" => O_allexport \notin st.opts
        [] o.op = "alias" -> ~Contains61(o.n)
        [] o.op = "func" -> TRUE
        [] o.op = "opt" -> o.n \in Modifiable /\ ~(o.n = O_exec /\ ~o.hv)
        [] o.op = "trap" -> ~(o.hv /\ AllDigits(o.v[1]))
        [] o.op = "umask" -> o.m \in 0..511)

Apply(st, o) ==
  CASE o.op = "assign" ->
         LET old == VarOr(st.vars, o.n) IN
         [st EXCEPT !.vars = Put(@, [old EXCEPT !.k = "S", !.v = <<o.v[1]>>,
                                               !.x = old.x \/ O_allexport \in st.opts])]
    [] o.op = "array" ->
         LET old == VarOr(st.vars, o.n) IN
         [st EXCEPT !.vars = Put(@, [old EXCEPT !.k = "A", !.v = o.v,
                                               !.x = old.x \/ O_allexport \in st.opts])]
    [] o.op \in {"export", "readonly", "typeset"} ->
         LET old == VarOr(st.vars, o.n)
             val == IF o.hv THEN [old EXCEPT !.k = "S", !.v = <<o.v[1]>>] ELSE old
         IN [st EXCEPT !.vars = Put(@, [val EXCEPT !.x = old.x \/ o.op = "export",
                                                   !.r = old.r \/ o.op = "readonly"])]
    [] o.op = "alias" -> [st EXCEPT !.al = Put(@, [n |-> o.n, v |-> o.v[1]])]
    [] o.op = "func" -> [st EXCEPT !.fn = Put(@, [n |-> o.n, b |-> o.v[1]])]
    [] o.op = "opt" -> [st EXCEPT !.opts = IF o.hv THEN @ \cup {o.n} ELSE @ \ {o.n}]
    [] o.op = "trap" ->
         [st EXCEPT !.traps = IF IsReset(o) THEN {t \in @ : t.c # o.n}
                              ELSE {t \in @ : t.c # o.n} \cup {[c |-> o.n, a |-> o.v[1]]}]
    [] o.op = "umask" -> [st EXCEPT !.mask = o.m]

RECURSIVE ApplyAll(_, _)
ApplyAll(st, h) == IF h = <<>> THEN st ELSE ApplyAll(Apply(st, Head(h)), Tail(h))

RECURSIVE AllEnabled(_, _)
AllEnabled(st, h) == IF h = <<>> THEN TRUE
                     ELSE OpEnabled(st, Head(h)) /\ AllEnabled(Apply(st, Head(h)), Tail(h))

---------------------------------------------------------------------------
(* What each printer lists.                                                *)
(*  alias        every alias                        (alias.md)             *)
(*  export -p    name and value of exported variables (export.md; "the     *)
(*               commands do not include options to restore attributes")   *)
(*  readonly -p  name and value of read-only variables (readonly.md)       *)
(*  typeset -p   every variable with value and attributes (typeset.md)     *)
(*  typeset -fp  every function                     (typeset.md)           *)
(*  set          name and value of every variable that has a value and     *)
(*               whose name is a name (set.md: "a sequence of simple       *)
(*               commands performing an assignment")                       *)
(*  set +o       the state of every modifiable option (set.md)             *)
(*  trap         every condition whose action is not the default (trap.md) *)
(*  umask, umask -S   the mask (umask.md)                                  *)
Kinds == {"alias", "export", "readonly", "typeset", "functions", "set", "options", "trap", "umask", "umaskS"}

NKV(e) == [n |-> e.n, k |-> e.k, v |-> e.v]
Proj(kind, st) ==
  CASE kind = "alias" -> st.al
    [] kind = "export" -> {NKV(e) : e \in {e \in st.vars : e.x}}
    [] kind = "readonly" -> {NKV(e) : e \in {e \in st.vars : e.r}}
    [] kind = "typeset" -> st.vars
    [] kind = "functions" -> st.fn
    [] kind = "set" -> {NKV(e) : e \in {e \in st.vars : e.k # "U" /\ IsName(e.n)}}
    [] kind = "options" -> st.opts \cap Modifiable
    [] kind = "trap" -> st.traps
    [] kind \in {"umask", "umaskS"} -> {st.mask}

(* The abstract listing: a set of definition groups (each a short sequence *)
(* of operations on one name); groups of different names commute.          *)
Op(op, n, hv, v, m) == [op |-> op, n |-> n, hv |-> hv, v |-> v, m |-> m]
ValueOps(e, decl) ==
  (* define variable e.n with e's value through declaration `decl` *)
  IF e.k = "A" THEN <<Op("array", e.n, TRUE, e.v, 0), Op(decl, e.n, FALSE, <<>>, 0)>>
  ELSE IF e.k = "S" THEN <<Op(decl, e.n, TRUE, e.v, 0)>>
  ELSE <<Op(decl, e.n, FALSE, <<>>, 0)>>
Listing(kind, st) ==
  CASE kind = "alias" -> {<<Op("alias", e.n, TRUE, <<e.v>>, 0)>> : e \in st.al}
    [] kind = "export" -> {ValueOps(e, "export") : e \in {e \in st.vars : e.x}}
    [] kind = "readonly" -> {ValueOps(e, "readonly") : e \in {e \in st.vars : e.r}}
    [] kind = "typeset" ->
         {ValueOps(e, "typeset") \o (IF e.x THEN <<Op("export", e.n, FALSE, <<>>, 0)>> ELSE <<>>)
                                 \o (IF e.r THEN <<Op("readonly", e.n, FALSE, <<>>, 0)>> ELSE <<>>) : e \in st.vars}
    [] kind = "functions" -> {<<Op("func", e.n, TRUE, <<e.b>>, 0)>> : e \in st.fn}
    [] kind = "set" ->
         {<<Op(IF e.k = "A" THEN "array" ELSE "assign", e.n, TRUE, e.v, 0)>> :
            e \in {e \in st.vars : e.k # "U" /\ IsName(e.n)}}
    [] kind = "options" -> {<<Op("opt", o, o \in st.opts, <<>>, 0)>> : o \in Modifiable \ {O_exec}}
    [] kind = "trap" -> {<<Op("trap", t.c, TRUE, <<t.a>>, 0)>> : t \in st.traps}
    [] kind \in {"umask", "umaskS"} -> {<<Op("umask", <<>>, TRUE, <<>>, st.mask)>>}

RECURSIVE Eval(_, _)
Eval(st, groups) ==
  IF groups = {} THEN st
  ELSE LET g == CHOOSE g \in groups : TRUE IN Eval(ApplyAll(st, g), groups \ {g})

Empty == [vars |-> {}, al |-> {}, fn |-> {}, opts |-> {}, traps |-> {}, mask |-> 0]
=============================================================================
