\* negative configuration: the wrong variant "keep_ignoring" must be refuted (law JobDefaults)
SPECIFICATION Spec
CONSTANTS
  Variant = "keep_ignoring"
  Fams = {"fg", "async", "stop1", "tty", "nomon"}
  Cfgs = {"m", "mi", "-", "ml", "mib"}
  Enf = {TRUE}
ALIAS Brief
INVARIANT JobDefaults
