--------------------------- MODULE Gen_ConcSelect ---------------------------
(***************************************************************************)
(* spec -> impl: TLC enumerates every behaviour of a bounded ConcSelect    *)
(* model (family of alphabets, see MC_ConcSelect) and prints, for every    *)
(* distinct state in which the driver is between two of its own steps (or  *)
(* select blocks), the history that led there: the task scripts, the       *)
(* driver's calls, the external events at their exact places, and every    *)
(* event the real code must produce, with the world after each step.       *)
(* harness/g17 replays each history on the real Concurrent<S>.  The same   *)
(* run checks the invariants and the step laws of ConcSelect.              *)
(***************************************************************************)
EXTENDS MC_ConcSelect

CONSTANT EmitAll   \* TRUE: every quiescent state; FALSE: only where a budget is exhausted or all tasks are finished

Quiet == cur = 0 /\ sel \in {"no", "wait"}
Final == \/ xn = MaxExt \/ sn = MaxSel
         \/ \A t \in Tasks : ts[t] \in {"done", "dead"}
         \/ sel = "wait"
EmitState == IF Hist = "on" /\ Quiet /\ h # <<>> /\ (EmitAll \/ Final) THEN PrintT(ToJson(h)) ELSE TRUE
=============================================================================
