SPECIFICATION Spec
CONSTANTS
  NT = 2
  NP = 1
  NS = 1
  Cap = 2
  MaxNow = 1
  Budget = 3
  MaxExt = 3
  MaxSel = 3
  MaxSpur = 1
  Base0 = {}
  Variant = "ok"
  Hist = "off"
  Loop = FALSE
  Peek = TRUE
  Sym = TRUE
  Fam = "rw"
  Ops <- FamOps
  Exts <- FamExts
INVARIANT TypeOK
