--------------------------- MODULE Gen_Semantics ---------------------------
(***************************************************************************)
(* Bounded enumeration of programs for Semantics.tla (P1 + P2 of C02/C10). *)
(* The model *grows* a program in prefix form, one token per step; every   *)
(* complete program is interpreted by the specification, the laws below    *)
(* (theorems about the specification itself) are checked on it, and one    *)
(* JSON line {p: tokens, o: [run options + expected outcome]} is printed   *)
(* for the conformance harness.                                            *)
(***************************************************************************)
EXTENDS Semantics, Json, IOUtils

CONSTANTS K,          \* size bound (tokens; `esac` and empty case bodies are free)
          Alphabet,   \* set of command tokens
          ItemAlphabet, \* set of case-item tokens
          Mode        \* which run options are enumerated: "c02", "c10", "syn"

VARIABLES toks, slots, sz
vars == <<toks, slots, sz>>

T0(k) == Tok(k, 0, "", 0, 0)
Tn(k, n) == Tok(k, n, "", 0, 0)
Ts(k, s) == Tok(k, 0, s, 0, 0)

Cost(a) == IF a.k \in {"esac", "empty"} THEN 0 ELSE 1
\* An open slot: its type, and whether a loop / a function body lexically
\* encloses it in the same execution environment.  Programs in which break,
\* continue or return cannot but be unspecified (no enclosing loop / function)
\* are not generated at all.
Slot(ty, lp, fn) == [ty |-> ty, lp |-> lp, fn |-> fn]
Need(slot) == IF slot.ty \in {"C", "N"} THEN 1 ELSE 0
RECURSIVE NeedAll(_)
NeedAll(ss) == IF ss = <<>> THEN 0 ELSE Need(Head(ss)) + NeedAll(Tail(ss))

Allowed(a, slot) ==
  /\ (a.k \in {"brk", "cnt"} /\ a.n >= 1 /\ a.r = 0) => slot.lp
  /\ (a.k = "ret" /\ a.r = 0) => slot.fn

Alpha(slot) ==
  LET base == CASE slot.ty = "C" -> Alphabet
                [] slot.ty = "N" -> {a \in Alphabet : a.k # "seq"}
                [] slot.ty = "B" -> Alphabet \cup {T0("empty")}
                [] slot.ty = "I" -> ItemAlphabet \cup {T0("esac")}
  IN {a \in base : Allowed(a, slot)}

ChildSlots(a, slot) ==
  LET tys == SlotsOf(a.k)
      lp == CASE a.k \in {"for", "while", "until"} -> TRUE
              [] a.k \in {"def", "sub", "pipe"} -> FALSE
              [] OTHER -> slot.lp
      fn == CASE a.k = "def" -> TRUE
              [] OTHER -> slot.fn          \* (a subshell inside a function still executes it)
  IN [i \in 1..Len(tys) |-> Slot(tys[i], lp, fn)]

Init == toks = <<>> /\ slots = <<Slot("C", FALSE, FALSE)>> /\ sz = 0

Next ==
  /\ slots # <<>>
  /\ \E a \in Alpha(Head(slots)) :
       LET ns == ChildSlots(a, Head(slots)) \o Tail(slots)
       IN /\ sz + Cost(a) + NeedAll(ns) <= K
          /\ toks' = Append(toks, a)
          /\ slots' = ns
          /\ sz' = sz + Cost(a)

Spec == Init /\ [][Next]_vars

Complete == slots = <<>>

(***************************************************************************)
(* Run options enumerated for a program with nl top-level lines.           *)
(***************************************************************************)
Opt(e, t, y) == [e |-> e, t |-> t, y |-> y, m |-> 0]
OptM(e, t, y) == [e |-> e, t |-> t, y |-> y, m |-> 1]
\* Programs with multi-command pipelines or subshells are also run with the
\* monitor option on (a different code path starts and awaits the children).
OptSeq(nl, jobs) ==
  CASE Mode = "c02" -> <<Opt(0, 0, 0)>> \o (IF jobs THEN <<OptM(0, 0, 0)>> ELSE <<>>)
    [] Mode = "c10" -> <<Opt(0, 1, 0), Opt(1, 1, 0), Opt(1, 0, 0)>>
                       \o (IF jobs THEN <<OptM(1, 1, 0), OptM(0, 0, 0)>> ELSE <<>>)
    [] Mode = "syn" -> [i \in 1..(2 * nl) |-> Opt((i - 1) % 2, 1, ((i - 1) \div 2) + 1)]

Result(t, o) ==
  LET R == Run(t, o)
  IN [e |-> o.e, t |-> o.t, y |-> o.y, m |-> o.m, oc |-> R.oc, tr |-> R.tr, st |-> R.st, nt |-> R.nt, tag |-> R.tag]

Out ==
  LET t == Parse(toks)
      os == OptSeq(NLines(t), \E i \in 1..Len(toks) : toks[i].k \in {"pipe", "sub"})
  IN [p |-> toks, o |-> [i \in 1..Len(os) |-> Result(t, os[i])]]

Emit == Complete => PrintT(ToJson(Out))

(***************************************************************************)
(* Laws: theorems about the specification (DESIGN.md section 6, C02/C10).  *)
(***************************************************************************)
IsPrefix(a, b) == Len(a) <= Len(b) /\ SubSeq(b, 1, Len(a)) = a

RECURSIVE IsSubseq(_, _)
IsSubseq(a, b) ==
  IF a = <<>> THEN TRUE
  ELSE IF b = <<>> THEN FALSE
  ELSE IF Head(a) = Head(b) THEN IsSubseq(Tail(a), Tail(b)) ELSE IsSubseq(a, Tail(b))

HasKind(ks) == \E i \in 1..Len(toks) : toks[i].k \in ks

\* every regular built-in leaf run through `command`
RECURSIVE Wrapped(_)
Wrapped(t) ==
  [t EXCEPT !.w = IF t.k \in {"mk", "P", "tick"} THEN 1 ELSE @,
            !.c = [i \in 1..Len(t.c) |-> Wrapped(t.c[i])]]

NotOf(t) == [k |-> "not", n |-> 0, s |-> "", w |-> 0, r |-> 0, m |-> 0, c |-> <<t>>]

Ok(R) == R.oc = "ok"
Symbolic(s) == s <= -10

Laws ==
  Complete =>
  LET t == Parse(toks)
      nl == NLines(t)
      R(e, tr, y) == Run(t, Opt(e, tr, y))
      A == R(0, 0, 0)
      B == R(1, 0, 0)
  IN \* the interpreter is total and classifies every program
     /\ A.oc \in {"ok", "unspec", "div"} /\ B.oc \in {"ok", "unspec", "div"}
     \* no EXIT trap set: none runs
     /\ (~HasKind({"trap"})) => A.nt = 0 /\ B.nt = 0
     \* errexit: nothing is observed that would not be observed without it,
     \* the run is cut at the first non-exempt failure and not before, and
     \* the status of an errexit exit is that of the failing command
     /\ (Ok(A) /\ Ok(B) /\ ~HasKind({"trap"})) =>
          /\ IsSubseq(B.tr, A.tr)
          /\ (~HasKind({"sub", "pipe"})) => IsPrefix(B.tr, A.tr)
          /\ B.fired => B.st # 0 /\ B.x = "exit"
          /\ (~B.fired /\ ~HasKind({"sub", "pipe"})) => (B.tr = A.tr /\ B.st = A.st)
     \* errexit on can only turn an unspecified/diverging run into a shorter one
     /\ (Ok(A) /\ ~Ok(B)) => FALSE
     \* EXIT trap: runs exactly once, last, sees the final $?, changes nothing else
     /\ \A e \in {0, 1} :
          LET N == R(e, 0, 0)
              W == R(e, 1, 0)
          IN (Ok(N) /\ ~HasKind({"trap"})) =>
               /\ Ok(W) /\ W.nt = 1 /\ W.st = N.st
               /\ W.tr = Append(N.tr, <<0, N.st>>)
     \* `!` changes nothing but the status (errexit off)
     /\ (Ok(A) /\ ~HasKind({"trap"})) =>
          LET N == Run(NotOf(t), Opt(0, 0, 0))
          IN /\ Ok(N) /\ N.tr = A.tr
             /\ N.st = IF A.x = "exit" THEN A.st ELSE IF A.st = 0 THEN 1 ELSE 0
     \* `command` in front of a regular built-in changes nothing
     /\ LET W == Run(Wrapped(t), Opt(0, 0, 0))
        IN W.oc = A.oc /\ (Ok(A) => W.tr = A.tr /\ W.st = A.st)
     \* a syntax error after line y: the lines before it run as if it were
     \* not there, nothing after it runs, the shell exits with an error
     \* status unless it had exited before, the EXIT trap runs once
     /\ \A y \in 1..nl :
          LET W == R(0, 1, y)
              N == R(0, 1, 0)
          IN (Ok(W) /\ Ok(N) /\ ~HasKind({"trap"})) =>
               /\ W.nt = 1
               /\ IsPrefix(SubSeq(W.tr, 1, Len(W.tr) - 1), SubSeq(N.tr, 1, Len(N.tr) - 1))
               /\ Symbolic(W.st) \/ (W.st = N.st /\ W.tr = N.tr)
               /\ W.tr[Len(W.tr)] = <<0, W.st>>

(***************************************************************************)
(* Token alphabets (selected per configuration file).                      *)
(***************************************************************************)
NIL == T0("nil")
MK0 == Tn("mk", 0)
MK1 == Tn("mk", 1)
MK3 == Tn("mk", 3)
PR == T0("P")
TICK == T0("tick")
BRK(n) == Tn("brk", n)
CNT(n) == Tn("cnt", n)
RET(n) == Tn("ret", n)
EXIT(n) == Tn("exit", n)
CMD(s) == Ts("cmd", s)
DEFN(s) == Ts("def", s)
FOR(s) == Ts("for", s)
CASE_(s) == Ts("case", s)
ITEM(p, n) == Tok("item", n, p, 0, 0)
CW(a) == [a EXCEPT !.w = 1]
RXE(a) == [a EXCEPT !.r = 1]

Compound == {T0("not"), T0("sub"), T0("seq"), T0("and"), T0("or"), T0("pipe"),
             T0("if"), T0("ife"), T0("while"), T0("until")}

\* C02: everything, small bound
AlphaFlow ==
  {MK0, MK1, PR, TICK, BRK(1), BRK(2), CNT(1), CNT(2), RET(-1), RET(5), EXIT(-1), EXIT(4),
   CMD("f"), CMD("true"), NIL, DEFN("f"), FOR("ab"), FOR(""), CASE_("v")} \cup Compound
ItemsFlow == {ITEM("a", 0), ITEM("*", 0), ITEM("a", 1), ITEM("a|b", 2)}

\* C02: and-or lists, negation, pipelines, grouping
AlphaAndOr ==
  {MK0, MK1, MK3, PR, T0("not"), T0("sub"), T0("seq"), T0("and"), T0("or"), T0("pipe"),
   T0("if"), T0("ife")}

\* C02: loops with break/continue
AlphaLoops ==
  {MK0, MK1, PR, TICK, BRK(1), BRK(2), CNT(1), CNT(2), FOR("ab"), T0("while"), T0("until"),
   T0("seq"), T0("and"), T0("or"), T0("if"), T0("not"), CASE_("v")}
ItemsLoops == {ITEM("a", 0), ITEM("b", 0)}

\* C02: loop status rules (TickLimit = 3)
AlphaLoops2 == {MK1, TICK, CNT(1), T0("while"), T0("seq"), T0("or"), T0("and")}

\* C02: nested loops, break/continue levels (few tokens, larger bound)
AlphaNest == {MK0, TICK, BRK(1), BRK(2), CNT(1), CNT(2), FOR("ab"), T0("while"), T0("until"), T0("seq")}

\* C02: long and-or lists
AlphaAndOr4 == {MK0, MK1, PR, NIL, T0("and"), T0("or"), T0("not")}

\* C02: functions called from loops, return
AlphaFnLoop == {MK0, PR, DEFN("f"), CMD("f"), RET(5), RET(-1), BRK(1), EXIT(4), FOR("ab"), T0("seq"), T0("and"),
                T0("not"), T0("sub"), T0("pipe")}

\* C02: functions, return, command search
AlphaFuncs ==
  {MK0, MK1, PR, RET(-1), RET(5), RET(0), EXIT(4), BRK(1), CMD("f"), CMD("g"), CMD("true"),
   CW(CMD("f")), CW(CMD("true")), CW(RET(5)), CW(BRK(1)), DEFN("f"), DEFN("g"), DEFN("true"),
   CMD("status"), CW(CMD("status")), DEFN("status"),
   FOR("ab"), T0("seq"), T0("and"), T0("sub"), T0("not"), T0("pipe"), T0("if")}

\* C02: case
AlphaCase ==
  {MK0, MK1, MK3, PR, FOR("abc"), CASE_("v"), CASE_("a"), T0("seq"), BRK(1), CNT(1)}
ItemsCase == {ITEM(p, n) : p \in {"a", "b", "*", "a|b"}, n \in {0, 1, 2}}

\* C10: errexit and its exempt contexts
AlphaErrexit ==
  {MK0, MK1, MK3, PR, CMD("f"), CMD("nosuch"), CMD("false"), DEFN("f"), TICK, RET(-1), RET(5),
   FOR("ab"), T0("trap")} \cup Compound

\* C10: one failing command of every category of XCU 2.8.1
ErrorLeaves ==
  {T0("asg"), T0("asgc"), T0("exp"), T0("dot"), CW(T0("dot")), RXE(T0("nop")), CW(RXE(T0("nop"))),
   RXE(MK0), RXE(PR), RXE(CMD("f")), RXE(CMD("true")), BRK(0), CW(BRK(0)), RXE(EXIT(4)), CW(RXE(EXIT(4))),
   CMD("nosuch"), CW(CMD("nosuch")), T0("rx"), CW(EXIT(4)), RXE(BRK(1)), RXE(RET(5))}
AlphaErrors ==
  ErrorLeaves \cup {MK0, MK1, PR, CMD("f"), DEFN("f"), FOR("ab"), T0("seq"), T0("and"), T0("or"),
                    T0("not"), T0("sub"), T0("pipe"), T0("if"), T0("while"), TICK}

\* C10: the same, fewer tokens, for a larger size bound
AlphaErrors5 ==
  {T0("asg"), T0("exp"), T0("dot"), CW(T0("dot")), RXE(T0("nop")), RXE(MK0), RXE(CMD("f")), BRK(0),
   CMD("nosuch"), T0("rx"), MK0, MK1, CMD("f"), DEFN("f"), T0("seq"), T0("and"), T0("not"), T0("sub"),
   T0("if")}

\* C10: redirection errors on function calls and function bodies (needs a
\* definition, a call and an observer: size 6)
AlphaErrFn ==
  {MK0, MK1, CMD("f"), RXE(CMD("f")), DEFN("f"), T0("rx"), T0("seq"), T0("or"), T0("sub")}

\* C10: errexit across subshell boundaries and in exempt contexts (few tokens, larger bound)
AlphaErrSub == {MK0, MK1, NIL, EXIT(4), T0("sub"), T0("pipe"), T0("seq"), T0("not"), T0("and"), T0("or"), T0("if")}

\* C10: errexit and functions called from exempt contexts
AlphaErrFun == {MK0, MK1, DEFN("f"), CMD("f"), RET(5), T0("seq"), T0("not"), T0("and"), T0("if"), T0("sub")}

\* C10: syntax error on a later line
AlphaSyn ==
  {MK0, MK1, PR, EXIT(4), T0("asg"), CMD("nosuch"), T0("seq"), T0("and"), T0("sub"), T0("if"),
   DEFN("f"), CMD("f"), FOR("ab"), T0("trap")}

\* everything at once (laws on tiny programs, action coverage)
AlphaAll == AlphaFlow \cup AlphaAndOr \cup AlphaLoops \cup AlphaFuncs \cup AlphaCase \cup AlphaErrexit
            \cup AlphaErrors \cup AlphaSyn
ItemsAll == ItemsCase

NoItems == {}
=============================================================================
