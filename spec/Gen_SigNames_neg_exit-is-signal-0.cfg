\* G14 negative configuration: the wrong variant "exit-is-signal-0" of SigNames.tla must be refuted by a law
SPECIFICATION Spec
CONSTANTS
  Level = "laws"
  Variant = "exit-is-signal-0"
INVARIANT LawsHold
