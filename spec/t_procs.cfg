SPECIFICATION Spec
CONSTANTS
  Variant = "ok"
  MaxP = 7
  Scripts <- CatSimple
INVARIANTS NoErr InvReapOnce InvStatusTrue InvNoFgLeft InvJobsSound InvDenotation Emit
