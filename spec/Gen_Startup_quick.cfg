SPECIFICATION Spec
CONSTANT Fams = {"modes", "rc", "vars", "portable", "files", "term"}
CONSTANT Deep = 0
CONSTANT Variant = ""
INVARIANT Check
