--------------------------- MODULE Trace_ArrayVars ---------------------------
(***************************************************************************)
(* impl -> spec validation for G13.  Every record of the ndjson file       *)
(* IOEnv.TRACE is one command executed by the real shell:                  *)
(*   {st: the state before the command (as observed), cmd, obs: {k, f, j,  *)
(*    st, x}}                                                              *)
(* with obs.k = "ok" (completed, status 0), "fail" (completed, non-zero    *)
(* status), "exit" (the shell exited with a non-zero status instead of     *)
(* completing the command) or an abnormal outcome (panic, ...).  A record  *)
(* is accepted iff the observation agrees with one of the results          *)
(* Step(st, cmd) allows (AgreesR of ArrayVars.tla); commands whose result  *)
(* the specification leaves open are reported as skipped.                  *)
(*                                                                         *)
(* Records are independent (each carries its own pre-state), so the        *)
(* "behaviour" is a binary splitting of the index range 1..N; the          *)
(* invariant judges the record at every leaf and prints one JSON line per  *)
(* record that is not accepted.  It never fails: the driver reads the      *)
(* verdicts.                                                               *)
(***************************************************************************)
EXTENDS ArrayVars, Json, IOUtils

Rec == ndJsonDeserialize(IOEnv.TRACE)
N == Len(Rec)

VARIABLES lo, hi
vars == <<lo, hi>>

Init == lo = 1 /\ hi = N
Next == /\ lo < hi
        /\ LET mid == (lo + hi) \div 2
           IN \/ lo' = lo /\ hi' = mid
              \/ lo' = mid + 1 /\ hi' = hi
Spec == Init /\ [][Next]_vars

Verdict(r) ==
  LET rs == Step(r.st, r.cmd) IN
  IF \A i \in DOMAIN rs : rs[i].k = "skip" THEN [v |-> "skip", exp |-> <<>>]
  ELSE IF \E i \in DOMAIN rs : rs[i].k # "skip" /\ AgreesR(r.cmd, r.obs, rs[i]) THEN [v |-> "ok", exp |-> <<>>]
  ELSE [v |-> "reject", exp |-> rs]

Judge ==
  (lo = hi /\ N > 0) =>
     LET j == Verdict(Rec[lo])
     IN IF j.v = "ok" THEN TRUE
        ELSE PrintT(ToJson([i |-> lo, v |-> j.v, exp |-> j.exp]))
=============================================================================
