\* P4 enumeration, thorough, part C: rich + random trees x words of 4 units over a core
INIT Init
NEXT Next
VIEW View
CONSTANTS
  MaxLen = 4
  FullLen = 1
  Core = {1, 3, 4, 5, 6, 8, 9, 11, 12, 13, 14, 21, 30}
  Families = {"rich", "rand"}
  NRand = 12
  RandSize = 12
INVARIANT TreesOK0
INVARIANT Emit
