----------------------------- MODULE Gen_CdPwd -----------------------------
(***************************************************************************)
(* G01, P1 + P4 (enumeration, spec -> impl).  TLC explores, for each file  *)
(* tree and each way of starting the shell (working directory, $PWD and    *)
(* $OLDPWD of the environment), every state [cwd, pwd, oldpwd] reachable   *)
(* by at most Depth successful `cd` commands of the fan, and for every     *)
(* such state                                                              *)
(*   - checks the theorems of CdPwd.tla about every step of the fan        *)
(*     (a failure is a defect of the specification = tool error);          *)
(*   - prints one JSON line: the tree, the start, the witness (the steps   *)
(*     leading to the state), the state and, for every step of the fan,    *)
(*     the allowed exit status, the lines on standard output, the          *)
(*     successor state and what `pwd -L` / `pwd -P` print in it.           *)
(* harness/g01 drives the real shell into the state with the witness and   *)
(* runs every step of the fan there, on the simulated and on the real      *)
(* file system.  Because every step out of every reachable state is        *)
(* compared, a sequence of steps of any length through the explored states *)
(* is covered, not only sequences of length Depth.                         *)
(***************************************************************************)
EXTENDS CdPwd, Json

CONSTANTS Depth,      \* number of successful cd commands leading to a state
          TreeIds,    \* subset of DOMAIN Trees
          Level       \* "quick" | "full": size of the fan

VARIABLES tid, start, S, w
vars == <<tid, start, S, w>>

(***************************************************************************)
(* Trees.                                                                  *)
(***************************************************************************)
N(p, k, to) == [p |-> p, k |-> k, to |-> to]
D(p) == N(p, "d", "")
F(p) == N(p, "f", "")
L(p, to) == N(p, "l", to)
Range(q) == {q[i] : i \in 1..Len(q)}
TreeOf(q) == [p \in {n.p : n \in Range(q)} |-> LET n == CHOOSE n \in Range(q) : n.p = p IN [k |-> n.k, to |-> n.to]]

PlainNodes ==
  <<D(<<>>), D(<<"a">>), D(<<"a", "b">>), D(<<"a", "b", "c">>), D(<<"d">>), D(<<"d", "b">>), F(<<"a", "f">>)>>

\* l: relative link in the root to a nested directory (l/.. is physically /a,
\* logically /); m: absolute link; k: link with a dot-dot in its target; j: a
\* link through a link; x: dangling; g: link to a regular file; o: a loop
LinkNodes ==
  PlainNodes \o
  <<L(<<"l">>, "a/b"), L(<<"a", "m">>, "/d"), L(<<"d", "k">>, "../a/b"), L(<<"d", "j">>, "k/c"),
    L(<<"x">>, "nowhere"), L(<<"g">>, "a/f"), L(<<"o">>, "o")>>

\* u: a link to the parent directory (the logical pathname can grow without
\* bound); v: a sibling link; c: an absolute link through both
UpNodes ==
  <<D(<<>>), D(<<"a">>), D(<<"a", "b">>), D(<<"d">>), L(<<"a", "b", "u">>, ".."), L(<<"a", "l">>, "b"),
    L(<<"c">>, "/a/l/u/b"), L(<<"d", "b">>, "../a")>>

Nodes == [plain |-> PlainNodes, links |-> LinkNodes, up |-> UpNodes]
Trees == [t \in DOMAIN Nodes |-> TreeOf(Nodes[t])]

ASSUME \A t \in DOMAIN Trees : WellFormedTree(Trees[t])
ASSUME TreeIds \subseteq DOMAIN Trees

(***************************************************************************)
(* Starts: the working directory of the new shell process and PWD / OLDPWD *)
(* of its environment ("" = not in the environment).                       *)
(***************************************************************************)
St(cwd, pwd, oldpwd) == [cwd |-> cwd, env |-> [pwd |-> pwd, oldpwd |-> oldpwd, home |-> "", cdpath |-> ""]]

Starts(t) ==
  CASE t = "plain" ->
         {St(<<>>, "", ""), St(<<>>, "/", "/d")}
         \cup {St(<<"a", "b">>, p, "") : p \in {"", "/a/b", "/a/./b", "a/b", "/d", "/a//b", "/a/b/", "/a/b/c/..", "/nx", "/a/f"}}
    [] t = "links" ->
         {St(<<>>, "", "")}
         \cup {St(<<"a", "b">>, p, "") : p \in {"", "/a/b", "/l", "/d/k", "/a/m", "/l/.", "/x", "/l/", "/d/../l"}}
         \cup {St(<<"d">>, p, "") : p \in {"/a/m", "/d", "/a/b"}}
         \cup {St(<<"a", "b", "c">>, p, "/l") : p \in {"/d/j", "/l/c"}}
    [] t = "up" ->
         {St(<<>>, "", ""), St(<<"a", "b">>, "/a/b/u/b", ""), St(<<"a">>, "/d/b", ""), St(<<"a", "b">>, "/c", "")}

(***************************************************************************)
(* The fan: the steps tried in every state.                                *)
(***************************************************************************)
Pre(h, c) == <<<<"HOME", h>>, <<"CDPATH", c>>>>
CdStep(pre, opts, args) == [pre |-> pre, k |-> "cd", opts |-> opts, args |-> args]
PwdStep(opts, args) == [pre |-> Pre("/d", ""), k |-> "pwd", opts |-> opts, args |-> args]

\* the cross product of three sequences as a sequence
Cross3(X, Y, Z, f(_, _, _)) ==
  [n \in 1..(Len(X) * Len(Y) * Len(Z)) |->
     f(X[((n - 1) \div (Len(Y) * Len(Z))) + 1], Y[(((n - 1) \div Len(Z)) % Len(Y)) + 1], Z[((n - 1) % Len(Z)) + 1])]

LP == <<<<"-L">>, <<"-P">>>>

AbsOperands ==
  <<"/", "/a", "/a/b", "/a/b/c", "/d", "/l", "/l/c", "/a/m", "/a/m/b", "/d/k", "/d/k/c", "/d/j", "/x", "/g", "/o",
    "/a/f", "/nx", "/a/", "/a//b", "/a/./b", "/a/../d", "/l/..", "/a/m/..", "/d/k/..", "/..", "/../a", "/a/f/..",
    "/nx/..", "/x/..", "/l/../a", "/a/b/../../d", "/./", "/a/b/c/../..", "/l/../l/c", "/c", "/a/l/u", "/d/b/l">>

RelOperands ==
  <<".", "..", "../..", "a", "b", "c", "d", "l", "m", "k", "j", "u", "a/b", "./a", "./b", "../d", "../b", "b/..",
    "l/..", "m/..", "k/..", "u/..", "b/c", "l/c", "a/", "b//c", "x", "g", "f", "nx", "nx/..", "f/..", "x/..", "o",
    "./.", "b/./c", "../../..", "k/c/../..", "u/u", "b/u/b">>

Base == Cross3(AbsOperands \o RelOperands, LP, <<0>>, LAMBDA a, o, z : CdStep(Pre("/d", ""), o, <<a>>))

OptForms ==
  <<<<>>, <<"-L", "-P">>, <<"-P", "-L">>, <<"-PL">>, <<"-LP">>, <<"-Pe">>, <<"-P", "-e">>, <<"--">>, <<"-L", "--">>,
    <<"-P", "--">>, <<"-x">>, <<"-e">>>>
Options == Cross3(<<"b", "..", "/l/c", "l", "u">>, OptForms, <<0>>, LAMBDA a, o, z : CdStep(Pre("/d", ""), o, <<a>>))

\* no operand: $HOME
Homes == <<"", "/a", "/l", "/nx", "d", "/a/f", "/a/b/..", "b", "/a/l/u", "/l/">>
NoOperand == Cross3(Homes, <<"", "/a">>, <<<<>>, <<"-L">>, <<"-P">>>>, LAMBDA h, c, o : CdStep(Pre(h, c), o, <<>>))

\* `cd -`: $OLDPWD as the state has it, or assigned just before
Minus ==
  Cross3(<<0>>, <<0>>, <<<<>>, <<"-L">>, <<"-P">>, <<"--">>>>, LAMBDA y, z, o : CdStep(Pre("/d", ""), o, <<"-">>))
  \o Cross3(<<"", "/l/c", "/nx", "/a/b/..", "b", "/a//b", "/a/l/u", "-">>, <<"", "/a">>, LP,
            LAMBDA v, c, o : CdStep(Pre("/d", c) \o <<<<"OLDPWD", v>>>>, o, <<"-">>))

Odd ==
  <<CdStep(Pre("/d", ""), <<>>, <<"">>), CdStep(Pre("/d", ""), <<"-P">>, <<"">>),
    CdStep(Pre("/d", ""), <<>>, <<"a", "b">>), CdStep(Pre("/d", ""), <<"-L">>, <<"/a", "/d">>),
    CdStep(Pre("/d", ""), <<>>, <<"//a">>), CdStep(Pre("/d", ""), <<"-P">>, <<"//a">>)>>

\* (the operands with a first component dot or dot-dot are not searched for)
CdpathOperands ==
  IF Level = "quick" THEN <<"b", "c", "nx", "a/b", "./b", "../b">>
  ELSE <<"b", "a", "c", "a/b", "nx", "l", "b/..", "b/c", "u", "./b", "../b", "../d", ".", "..">>
Cdpaths ==
  IF Level = "quick" THEN <<"/a", "/d:/a", ":/d", "/nx:/d", ".", "..", "/d/", "/l", "d", "/a/b">>
  ELSE <<"/a", "/d:/a", ":/d", "/d:", "/nx:/d", ".", "..", "a", "/d/", "/l", "d", "/a:/d", "::/a", "/a/f:/a", "./a",
         "/a/l:/", "/:/a", "../d", "/a/b">>
WithCdpath == Cross3(CdpathOperands, Cdpaths, LP, LAMBDA a, c, o : CdStep(Pre("/d", c), o, <<a>>))

\* the manual's long option names
Long ==
  Cross3(<<"b", "/l/c", "..">>,
         <<<<"--logical">>, <<"--physical">>, <<"--physical", "--ensure-pwd">>, <<"-L", "--physical">>, <<"--nosuch">>>>,
         <<0>>, LAMBDA a, o, z : CdStep(Pre("/d", ""), o, <<a>>))
  \o <<[pre |-> Pre("/d", ""), k |-> "pwd", opts |-> <<"--physical">>, args |-> <<>>],
       [pre |-> Pre("/d", ""), k |-> "pwd", opts |-> <<"--logical">>, args |-> <<>>]>>

\* PWD / OLDPWD made read-only just before
Readonly ==
  Cross3(<<"b", "/l", "..", "nx", "/a/m/..">>, <<<<"PWD">>, <<"OLDPWD">>, <<"PWD", "OLDPWD">>>>, LP,
         LAMBDA a, v, o : CdStep(Pre("/d", "") \o [i \in 1..Len(v) |-> <<"readonly", v[i]>>], o, <<a>>))

Pwds == <<PwdStep(<<>>, <<>>), PwdStep(<<"-L">>, <<>>), PwdStep(<<"-P">>, <<>>), PwdStep(<<"-LP">>, <<>>),
          PwdStep(<<"-P", "-L">>, <<>>), PwdStep(<<"--">>, <<>>), PwdStep(<<>>, <<"x">>)>>

Fan == Base \o Options \o NoOperand \o Minus \o Odd \o WithCdpath \o Long \o Readonly \o Pwds

(***************************************************************************)
(* Exploration.                                                            *)
(***************************************************************************)
T == Trees[tid]

Init ==
  /\ tid \in TreeIds
  /\ start \in Starts(tid)
  /\ S = Start(Trees[tid], start.cwd, start.env)
  /\ w = <<>>

Next ==
  /\ Len(w) < Depth
  /\ \E i \in 1..Len(Fan) :
       LET R == Step(T, S, Fan[i]) IN
       /\ Fan[i].k = "cd"
       /\ R.st = <<0, 0>> /\ ~R.unspec /\ R.S.ro = {}
       /\ S' = R.S
       /\ w' = Append(w, Fan[i])
  /\ UNCHANGED <<tid, start>>

NoStart == St(<<>>, "-", "-")
\* HOME and CDPATH are assigned by every step: not part of the identity of a state
View == <<tid, S.cwd, S.pwd, S.oldpwd, IF w = <<>> THEN start ELSE NoStart>>

(***************************************************************************)
(* One line per state; the theorems.                                       *)
(***************************************************************************)
Outcome(step) ==
  LET R == Step(T, S, step)
      pl == Pwd(T, R.S, <<"-L">>, <<>>)
      pp == Pwd(T, R.S, <<"-P">>, <<>>)
  IN [pre |-> step.pre, k |-> step.k, opts |-> step.opts, args |-> step.args,
      st |-> R.st, out |-> R.out, unspec |-> R.unspec,
      pwd |-> R.S.pwd, oldpwd |-> R.S.oldpwd, cwd |-> AbsStr(R.S.cwd),
      pl |-> pl.out[1], pp |-> pp.out[1]]

StepTheorems(step) ==
  LET S1 == ApplyPre(S, step.pre)
      R == Step(T, S, step)
  IN IF step.k = "pwd" THEN R.S = S1
     ELSE /\ ThmSuccess(T, S1, ModeOf(Letters(step.opts)), R)
          /\ ThmFailure(S1, R)
          /\ ThmReadonly(T, S1, step.opts, step.args, R)
          /\ (step.args = <<"-">> => ThmSwap(T, S1, R))

StateTheorems ==
  /\ Names(T, S.cwd, S.pwd)            \* every reachable $PWD names the working directory
  /\ ThmPwd(T, S)
  /\ ThmDotDot(T, S)
  /\ \A name \in {"a", "b", "c", "d", "l", "m", "k", "j", "u", "x", "g", "f", "o"} : ThmLinkDotDot(T, S, name)
  /\ \A i \in 1..Len(AbsOperands) : ThmCanon(T, AbsOperands[i])

Emit ==
  /\ \A i \in 1..Len(Fan) : StepTheorems(Fan[i])
  /\ StateTheorems
  /\ PrintT(ToJson([tid |-> tid,
                    nodes |-> Nodes[tid],
                    start |-> [cwd |-> AbsStr(start.cwd), env |-> start.env],
                    w |-> w,
                    s |-> [cwd |-> AbsStr(S.cwd), pwd |-> S.pwd, oldpwd |-> S.oldpwd],
                    fan |-> [i \in 1..Len(Fan) |-> Outcome(Fan[i])]]))
=============================================================================
