--------------------------- MODULE Calib_ProcGroups ---------------------------
(***************************************************************************)
(* Calibration of ProcGroups.tla: worked examples of the manual            *)
(* (docs/src/interactive/job_control.md, language/commands/lists.md,       *)
(* environment/traps.md, builtins/fg.md, bg.md) and cases of the scripted  *)
(* tests yash-cli/tests/scripted_test/{job,fg,bg,async}-p.sh, transcribed  *)
(* by hand; each ASSUME cites its source.  The examples are run on the     *)
(* specification under one schedule (every law of ProcGroups holds under   *)
(* all of them; the values asserted here do not depend on the schedule):   *)
(* a process that can move moves, the terminal driver sends its next       *)
(* signal only when nobody can.                                            *)
(***************************************************************************)
EXTENDS ProcGroupsScn

RECURSIVE Run(_, _, _)
Run(c, S, fuel) ==
  IF fuel = 0 THEN S
  ELSE LET en == {p \in DOMAIN S.proc : Steps(c, S, p) # {}}
       IN IF en # {}
          THEN LET p == CHOOSE q \in en : TRUE
               IN Run(c, CHOOSE X \in Steps(c, S, p) : TRUE, fuel - 1)
          ELSE IF TtyEnabled(c, S) THEN Run(c, TtyStep(c, S), fuel - 1)
          ELSE S

Scn(m, i, prog, env) == [id |-> 0, m |-> m, i |-> i, fg0 |-> "shell", spg |-> "own", sl |-> TRUE, enf |-> TRUE,
                         log |-> FALSE, prog |-> prog, env |-> env]
End(m, i, prog, env) == Run(Scn(m, i, prog, env), InitState(Scn(m, i, prog, env)), 400)
Probe(m, i, prog, env, k) == End(m, i, prog, env).out[T(k)]

---------------------------------------------------------------------------
(* job_control.md:108-118 (ps -j): `sleep 60 && echo ...&` in an interactive shell: the job's
   process is the leader of its own group, the process it starts is in that group, the shell
   keeps its own group and the terminal *)
ASSUME LET e == End(TRUE, TRUE, <<Async(<<Sub(<<P(1), Pause>>), P(2)>>), P(3)>>, <<>>)
       IN /\ e.proc["s.1"].pg = "s.1" /\ e.proc["s.1.1"].pg = "s.1" /\ e.proc["s"].pg = "s"
          /\ e.out[T(1)].pg = "s.1" /\ e.out[T(1)].tc = "s" /\ e.out[T(3)].tc = "s"
          /\ e.out[T(3)].bang = "s.1"
(* job_control.md:100 "A multi-command pipeline is treated as a single job, with all commands in
   the same process group"; :122 the foreground job is the terminal's foreground process group *)
ASSUME LET e == End(TRUE, TRUE, <<Pipe(<<P(1)>>, <<P(2)>>), P(3)>>, <<>>)
       IN /\ e.out[T(1)].pg = e.out[T(2)].pg /\ e.out[T(1)].pg # "s"
          /\ e.out[T(1)].tc = e.out[T(1)].pg /\ e.out[T(2)].tc = e.out[T(2)].pg
          /\ e.out[T(3)].tc = "s"
(* job_control.md:100 command substitutions are not jobs and create no process groups *)
ASSUME Probe(TRUE, TRUE, <<CSub(<<P(1)>>), P(2)>>, <<>>, 1).pg = "s"
(* job_control.md:104 "Job control does not affect nested subshells recursively" *)
ASSUME LET e == End(TRUE, FALSE, <<Sub(<<P(1), Sub(<<P(2)>>), Pipe(<<P(3)>>, <<P(4)>>)>>), P(5)>>, <<>>)
       IN /\ e.out[T(2)].pg = "s.1" /\ e.out[T(3)].pg = "s.1" /\ e.out[T(4)].pg = "s.1"
          /\ ~e.out[T(1)].cj /\ e.out[T(5)].cj
(* job_control.md:134-139, :178-182: ^Z suspends the foreground job, the shell goes on, `$?` is
   that of a job terminated by the signal (404 = 384 + SIGTSTP), the job is in the list *)
ASSUME LET r == Probe(TRUE, TRUE, <<Sub(<<P(1), Pause>>), P(2)>>, <<"TSTP">>, 2)
       IN /\ r.st = "sig:TSTP" /\ r.tc = "s" /\ r.who = "s"
          /\ {[ld |-> x.ld, st |-> x.st] : x \in r.jobs} = {[ld |-> "s.1", st |-> "S"]}
(* job_control.md:126-129: ^C interrupts the foreground job, not the shell *)
ASSUME LET e == End(TRUE, TRUE, <<Sub(<<P(1), Pause>>), P(2)>>, <<"INT">>)
       IN /\ e.proc["s.1"].ex = "sig:INT" /\ e.out[T(2)].st = "sig:INT" /\ e.out[T(2)].jobs = {}
(* job_control.md:150 "Background jobs are not affected by Ctrl-C or Ctrl-Z" *)
ASSUME LET e == End(TRUE, TRUE, <<Async(<<P(1), Pause>>), Sub(<<P(2), Pause>>), P(3)>>, <<"INT">>)
       IN e.proc["s.1"].st = "R" /\ e.proc["s.2"].ex = "sig:INT"
(* job_control.md:186-199 / fg.md:13: fg makes the job the foreground group and resumes it *)
ASSUME LET e == End(TRUE, TRUE, <<Sub(<<P(1), StopMe("TSTP"), P(2)>>), P(3), Fg(1), P(4)>>, <<>>)
       IN /\ e.out[T(2)].tc = "s.1" /\ e.out[T(3)].tc = "s" /\ e.out[T(4)].tc = "s"
          /\ e.out[T(4)].jobs = {} /\ e.out[T(4)].st = "0"
(* job_control.md:201-213 / bg.md:13: bg resumes the job in the background *)
ASSUME LET e == End(TRUE, TRUE, <<Sub(<<P(1), StopMe("TSTP"), P(2)>>), Bg(1), P(3), Wait(1), P(4)>>, <<>>)
       IN /\ e.out[T(2)].tc = "s" /\ e.out[T(2)].pg = "s.1" /\ e.out[T(3)].bang = "s.1"
(* job_control.md:73, traps.md:74-79: an interactive shell ignores SIGINT (XCU sh: catches),
   SIGQUIT and, with job control, SIGTSTP SIGTTIN SIGTTOU; not in subshells *)
ASSUME LET e == End(TRUE, TRUE, <<P(1), Sub(<<P(2)>>)>>, <<>>)
       IN /\ SubSeq(e.out[T(1)].dp, 1, 3) = <<"I", "I", "I">> /\ e.out[T(1)].dp[4] \in {"I", "C"}
          /\ e.out[T(1)].dp[5] = "I" /\ e.out[T(2)].dp = AllDfl
ASSUME Probe(FALSE, TRUE, <<P(1)>>, <<>>, 1).dp[1] = "D"
(* job_control.md:311 a non-interactive job-control shell does not ignore the signals *)
ASSUME Probe(TRUE, FALSE, <<P(1)>>, <<>>, 1).dp = AllDfl
(* job_control.md:316 without job control an asynchronous command runs in the shell's group;
   lists.md:48, async-p.sh:48-53: its standard input is /dev/null; XCU 2.9.3.1: it ignores
   SIGINT and SIGQUIT *)
ASSUME LET r == Probe(FALSE, FALSE, <<Async(<<P(1)>>), Wait(1)>>, <<>>, 1)
       IN r.pg = "s" /\ r.in = "n" /\ r.dp[4] = "I" /\ r.dp[5] = "I"
(* lists.md:48, job-p.sh:20-26: with job control the standard input is not modified *)
ASSUME LET r == Probe(TRUE, FALSE, <<Async(<<P(1)>>), Wait(1)>>, <<>>, 1)
       IN r.pg = "s.1" /\ r.in = "o" /\ r.dp = AllDfl /\ r.tc = "s"
(* async-p.sh:65-70 only the first command of an asynchronous pipeline reads /dev/null *)
ASSUME LET e == End(FALSE, FALSE, <<Async(<<Pipe(<<P(1)>>, <<P(2)>>)>>), Wait(1)>>, <<>>)
       IN e.out[T(1)].in = "n" /\ e.out[T(2)].in = "o"
(* fg-p.sh:69-72 'exit status of fg' / fg.md:41 *)
ASSUME Probe(TRUE, FALSE, <<Sub(<<StopMe("STOP"), Ret(42)>>), Fg(1), P(1)>>, <<>>, 1).st = "42"
(* bg-p.sh:40-45 'resumed job is awaitable', :89-93 'bg updates $!', :95-98 'exit status of bg' *)
ASSUME LET e == End(TRUE, FALSE, <<Sub(<<StopMe("STOP"), Ret(17)>>), Bg(1), P(1), Wait(1), P(2)>>, <<>>)
       IN e.out[T(1)].st = "0" /\ e.out[T(1)].bang = "s.1" /\ e.out[T(2)].st = "17"
(* fg-p.sh:18-23, bg-p.sh:17-22 fg and bg cannot be used when job control is disabled *)
ASSUME LET e == End(FALSE, FALSE, <<Async(<<P(1)>>), Fg(1), P(2), Bg(1), P(3)>>, <<>>)
       IN e.out[T(2)].st = "err" /\ e.out[T(3)].st = "err"
(* job_control.md:322 a shell that starts job control in the background suspends itself until it
   is brought to the foreground (Env::ensure_foreground: unless it is in the session leader's
   group) *)
ASSUME LET c == [Scn(TRUE, FALSE, <<P(1)>>, <<>>) EXCEPT !.fg0 = "other", !.sl = FALSE]
           e == Run(c, InitState(c), 100)
       IN e.proc["s"].st = "S" /\ e.proc["s"].ss = "TTOU" /\ e.fg = "other"
ASSUME LET c == [Scn(TRUE, FALSE, <<P(1)>>, <<>>) EXCEPT !.fg0 = "other", !.sl = TRUE]
           e == Run(c, InitState(c), 100)
       IN e.proc["s"].st = "Z" /\ e.fg = "s" /\ e.out[T(1)].tc = "s"
=============================================================================
