SPECIFICATION TraceSpec
CONSTANTS
  Fuel = 400
  TickLimit = 2
  Variant = ""
POSTCONDITION Complete
CHECK_DEADLOCK FALSE
