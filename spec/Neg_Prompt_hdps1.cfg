SPECIFICATION Spec
CONSTANT Fams = {"multi"}
CONSTANT Deep = 0
CONSTANT Variant = "hdps1"
INVARIANT Refute
