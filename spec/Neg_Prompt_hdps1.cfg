SPECIFICATION Spec
CONSTANT Fams = {"exp1", "ps2", "multi", "eof", "jobs", "read"}
CONSTANT Deep = 0
CONSTANT Variant = "hdps1"
INVARIANT Refute
