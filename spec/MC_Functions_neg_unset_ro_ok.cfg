\* negative configuration: the wrong variant "unset_ro_ok" must be refuted by P_ReadOnlyStable
SPECIFICATION Spec
CONSTANTS
  MaxDepth = 4
  Variant = "unset_ro_ok"
  Fams = {"tabmain"}
  LB = 1
  LM = 1
  Wide = {}
  Stepwise = TRUE
PROPERTY P_ReadOnlyStable
