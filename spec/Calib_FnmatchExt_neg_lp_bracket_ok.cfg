INIT Init
NEXT Next
CONSTANTS
  Variant = "lp_bracket_ok"
INVARIANT C_LpBracket
