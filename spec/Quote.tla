------------------------------- MODULE Quote -------------------------------
(***************************************************************************)
(* C07, part (i): quoting round trip.                                      *)
(*                                                                         *)
(* Read(ctx, text)   what the shell reads when `text` is written where one *)
(*                   word is expected: token recognition (POSIX XCU 2.3),  *)
(*                   quoting (2.2), and the word expansions that can touch *)
(*                   a word containing only quoting (2.6.1 tilde, 2.6.6    *)
(*                   pathname expansion, 2.6.7 quote removal).  The result *)
(*                   is either a definite list of fields or "not a pure    *)
(*                   quoting word / result depends on the environment or   *)
(*                   is unspecified" (ok = FALSE + the reason).            *)
(* GoodQuote(s, q)   q reads back as exactly the one field s in every      *)
(*                   context in which a word is expanded.                  *)
(* QuoteRule(s)      the decision rule documented in the rustdoc of crate  *)
(*                   yash-quote (bare / single-quoted / double-quoted).    *)
(*                                                                         *)
(* The reader is written from POSIX.1-2024 XCU 2.2, 2.3, 2.4, 2.6, 2.10.1  *)
(* and the manual (docs/src/language/words/{quoting,comments,tilde,        *)
(* keywords}.md, commands/simple.md); it never looks at yash-quote.        *)
(* Text is a sequence of Unicode code points.                              *)
(***************************************************************************)
EXTENDS Naturals, Sequences, FiniteSets

TAB == 9        NL == 10      SP == 32      BANG == 33    DQ == 34
HASH == 35      DOLLAR == 36  AMP == 38     SQ == 39      LPAR == 40
RPAR == 41      STAR == 42    COLON == 58   SEMI == 59    LT == 60
EQ == 61        GT == 62      QM == 63      LBRK == 91    BS == 92
RBRK == 93      BQ == 96      LBRC == 123   BAR == 124    RBRC == 125
TILDE == 126

(* XCU 2.10.1 / 2.3 rule 6: characters that start an operator.             *)
OperatorChars == {BAR, AMP, SEMI, LT, GT, LPAR, RPAR}

(* XCU 2.3 rule 7 delimits tokens at an unquoted <blank>; <blank> is the   *)
(* LC_CTYPE class of the locale (XBD 7.3.1: <space>, <tab> and possibly    *)
(* more).  The shell under test documents its choice (lex/core.rs is_blank,*)
(* quoting.md "whitespace characters"): every Unicode White_Space          *)
(* character other than <newline>.                                         *)
UnicodeWhiteSpace ==
  {9, 10, 11, 12, 13, 32, 133, 160, 5760, 8232, 8233, 8239, 8287, 12288} \cup (8192..8202)
IsBlank(c) == c # NL /\ c \in UnicodeWhiteSpace

(* XCU 3.216 Name: underscore, digits, letters of the portable set; not    *)
(* starting with a digit.                                                  *)
IsNameStart(c) == c = 95 \/ c \in 65..90 \/ c \in 97..122
IsNameChar(c) == IsNameStart(c) \/ c \in 48..57

---------------------------------------------------------------------------
(* Token recognition.  A unit is one character of a word after quote       *)
(* removal together with the fact whether it was quoted.                   *)
U(c, q) == [c |-> c, q |-> q]

Fail(why) == [ok |-> FALSE, why |-> why, words |-> <<>>]
Done(words, cur, inw) == [ok |-> TRUE, why |-> "",
                          words |-> IF inw THEN Append(words, cur) ELSE words]

(* index of the first occurrence of c in t at or after i, 0 if none *)
RECURSIVE IndexFrom(_, _, _)
IndexFrom(t, i, c) == IF i > Len(t) THEN 0 ELSE IF t[i] = c THEN i ELSE IndexFrom(t, i + 1, c)

QuotedUnits(t) == [k \in 1..Len(t) |-> U(t[k], TRUE)]

(* LexU: outside quotes (i = next character; words = delimited words; cur = *)
(* units of the token in progress; inw = a token is in progress).          *)
(* LexD: inside double quotes (2.2.3).                                     *)
RECURSIVE LexU(_, _, _, _, _), LexD(_, _, _, _)
LexU(t, i, words, cur, inw) ==
  IF i > Len(t) THEN Done(words, cur, inw)                        \* 2.3 rule 1
  ELSE LET c == t[i] IN
    CASE c = BS ->                                                \* 2.2.1
           IF i = Len(t) THEN Fail("backslash at end")
           ELSE IF t[i + 1] = NL THEN LexU(t, i + 2, words, cur, inw)   \* line continuation
           ELSE LexU(t, i + 2, words, Append(cur, U(t[i + 1], TRUE)), TRUE)
      [] c = SQ ->                                                \* 2.2.2
           LET j == IndexFrom(t, i + 1, SQ) IN
           IF j = 0 THEN Fail("unterminated single quote")
           ELSE LexU(t, j + 1, words, cur \o QuotedUnits(SubSeq(t, i + 1, j - 1)), TRUE)
      [] c = DQ -> LexD(t, i + 1, words, cur)                     \* 2.2.3
      [] c \in {DOLLAR, BQ} -> Fail("expansion")                  \* 2.3 rule 5
      [] c \in OperatorChars -> Fail("operator")                  \* 2.3 rules 2, 3, 6
      [] c = NL -> Fail("newline")                                \* NEWLINE token ends the command
      [] IsBlank(c) ->                                            \* 2.3 rule 7
           LexU(t, i + 1, IF inw THEN Append(words, cur) ELSE words, <<>>, FALSE)
      [] c = HASH /\ ~inw ->                                      \* 2.3 rule 9 (comment)
           LET j == IndexFrom(t, i, NL) IN
           IF j = 0 THEN Done(words, <<>>, FALSE) ELSE LexU(t, j, words, <<>>, FALSE)
      [] OTHER -> LexU(t, i + 1, words, Append(cur, U(c, FALSE)), TRUE)   \* 2.3 rules 8, 10

LexD(t, i, words, cur) ==
  IF i > Len(t) THEN Fail("unterminated double quote")
  ELSE LET c == t[i] IN
    CASE c = DQ -> LexU(t, i + 1, words, cur, TRUE)
      [] c = BS ->
           IF i = Len(t) THEN Fail("unterminated double quote")
           ELSE IF t[i + 1] = NL THEN LexD(t, i + 2, words, cur)
           ELSE IF t[i + 1] \in {DOLLAR, BQ, DQ, BS}
                THEN LexD(t, i + 2, words, Append(cur, U(t[i + 1], TRUE)))
                ELSE LexD(t, i + 1, words, Append(cur, U(BS, TRUE)))   \* the backslash is literal
      [] c \in {DOLLAR, BQ} -> Fail("expansion")
      [] OTHER -> LexD(t, i + 1, words, Append(cur, U(c, TRUE)))

Lex(t) == LexU(t, 1, <<>>, <<>>, FALSE)
(* the same, the text being glued to a token already in progress *)
LexGlued(t) == LexU(t, 1, <<>>, <<>>, TRUE)

---------------------------------------------------------------------------
(* Word expansions of one delimited word w (a sequence of units).          *)
Unq(w, k, c) == w[k].c = c /\ ~w[k].q

(* 2.6.6 / 2.14.1: unquoted `*` and `?` are always pattern characters; `[`  *)
(* is one if it introduces a bracket expression, i.e. a `]` follows.       *)
HasPattern(w) ==
  \/ \E k \in 1..Len(w) : Unq(w, k, STAR) \/ Unq(w, k, QM)
  \/ \E k \in 1..Len(w) : Unq(w, k, LBRK) /\ \E m \in (k + 1)..Len(w) : Unq(w, m, RBRK)

(* 2.2 lists `{ , }` among the characters that "might need to be quoted    *)
(* under certain circumstances" (brace expansion is an allowed extension): *)
(* a word with an unquoted `{` and a later unquoted `}` has no portable    *)
(* reading.                                                                *)
HasBrace(w) ==
  \E k \in 1..Len(w) : Unq(w, k, LBRC) /\ \E m \in (k + 1)..Len(w) : Unq(w, m, RBRC)

(* 2.9.1 / simple.md: the word is an assignment word if it starts with an  *)
(* unquoted name followed by an unquoted `=`; returns the index of that `=`*)
(* or 0.                                                                   *)
AssignEq(w) ==
  IF \E k \in 1..Len(w) : Unq(w, k, EQ)
  THEN LET k == CHOOSE k \in 1..Len(w) : Unq(w, k, EQ) /\ \A m \in 1..(k - 1) : ~Unq(w, m, EQ) IN
       IF k > 1 /\ ~w[1].q /\ IsNameStart(w[1].c) /\ \A m \in 1..(k - 1) : ~w[m].q /\ IsNameChar(w[m].c)
       THEN k ELSE 0
  ELSE 0

(* 2.6.1: a tilde-prefix starts with an unquoted `~` at the beginning of   *)
(* the word; in an assignment also after the `=` and after any unquoted    *)
(* `:` of the value.                                                       *)
HasTilde(w, asAssign) ==
  \/ Len(w) > 0 /\ Unq(w, 1, TILDE)
  \/ LET e == AssignEq(w) IN
     asAssign /\ e > 0 /\
     \E k \in (e + 1)..Len(w) : Unq(w, k, TILDE) /\ (k = e + 1 \/ Unq(w, k - 1, COLON))

Chars(w) == [k \in 1..Len(w) |-> w[k].c]

(* Contexts in which a word is expanded:                                   *)
(*  "arg"   argument of an ordinary utility (and element of an array       *)
(*          assignment `name=(...)`, variables.md#arrays)                  *)
(*  "decl"  argument of a declaration utility (export, readonly, typeset): *)
(*          expanded as an assignment if it has the form of one            *)
(*  "value" the text follows `name=` in an assignment or in an argument    *)
(*          of a declaration utility                                       *)
Contexts == {"arg", "decl", "value"}

WordWhy(w, asAssign) ==
  IF HasTilde(w, asAssign) THEN "tilde"
  ELSE IF HasPattern(w) THEN "pattern"
  ELSE IF HasBrace(w) THEN "brace"
  ELSE ""

RECURSIVE FirstWhy(_, _)
FirstWhy(words, asAssign) ==
  IF words = <<>> THEN ""
  ELSE LET y == WordWhy(Head(words), asAssign) IN
       IF y # "" THEN y ELSE FirstWhy(Tail(words), asAssign)

Result(ok, why, f) == [ok |-> ok, why |-> why, f |-> f]

(* reading of already delimited words: L = Lex(t), as arguments of an      *)
(* ordinary (asAssign = FALSE) or of a declaration utility (TRUE)          *)
ReadWords(L, asAssign) ==
  IF ~L.ok THEN Result(FALSE, L.why, <<>>)
  ELSE LET y == FirstWhy(L.words, asAssign) IN
       IF y # "" THEN Result(FALSE, y, <<>>)
       ELSE Result(TRUE, "", [k \in 1..Len(L.words) |-> Chars(L.words[k])])

(* reading of a text glued to `name=`: L = LexGlued(t); the first word is  *)
(* the value (possibly empty): tilde-prefixes at its start and after each  *)
(* unquoted `:`; further words are arguments of the same command           *)
ReadValue(L) ==
  IF ~L.ok THEN Result(FALSE, L.why, <<>>)
  ELSE LET ws == L.words
           v == ws[1]
           tv == \E k \in 1..Len(v) : Unq(v, k, TILDE) /\ (k = 1 \/ Unq(v, k - 1, COLON))
           y == IF tv THEN "tilde"
                ELSE IF HasPattern(v) THEN "pattern" ELSE IF HasBrace(v) THEN "brace"
                ELSE FirstWhy(Tail(ws), TRUE)
       IN IF y # "" THEN Result(FALSE, y, <<>>)
          ELSE Result(TRUE, "", [k \in 1..Len(ws) |-> Chars(ws[k])])

Read(ctx, t) ==
  IF ctx = "value" THEN ReadValue(LexGlued(t)) ELSE ReadWords(Lex(t), ctx = "decl")

ReadsAs(ctx, q, s) == LET r == Read(ctx, q) IN r.ok /\ r.f = <<s>>

GoodQuote(s, q) == \A ctx \in Contexts : ReadsAs(ctx, q, s)

---------------------------------------------------------------------------
(* Command position (XCU 2.4, 2.9.1, keywords.md): a word that is, as      *)
(* written, one of the reserved words, or an assignment word, is not read  *)
(* as a command name / function name.  Not part of GoodQuote: the contract *)
(* of the quoting function is about words that are expanded to fields.     *)
ReservedWords ==
  { <<33>>, <<123>>, <<125>>,                                  \* ! { }
    <<99,97,115,101>>, <<100,111>>, <<100,111,110,101>>,       \* case do done
    <<101,108,105,102>>, <<101,108,115,101>>, <<101,115,97,99>>, \* elif else esac
    <<102,105>>, <<102,111,114>>, <<105,102>>, <<105,110>>,    \* fi for if in
    <<116,104,101,110>>, <<117,110,116,105,108>>, <<119,104,105,108,101>>, \* then until while
    <<91,91>>, <<93,93>>, <<102,117,110,99,116,105,111,110>>,  \* [[ ]] function
    <<110,97,109,101,115,112,97,99,101>>, <<115,101,108,101,99,116>>,  \* namespace select
    <<116,105,109,101>> }                                       \* time
CommandWordSafe(q) ==
  LET L == Lex(q) IN
  /\ L.ok /\ Len(L.words) = 1
  /\ LET w == L.words[1] IN
     /\ ~((\A k \in 1..Len(w) : ~w[k].q) /\ (Chars(w) \in ReservedWords \/ (Len(w) > 0 /\ w[Len(w)].c = COLON)))
     /\ AssignEq(w) = 0

---------------------------------------------------------------------------
(* The decision rule documented by yash-quote (crate-level rustdoc).       *)
Contains(s, c) == \E k \in 1..Len(s) : s[k] = c
AlwaysQuoted ==
  {SEMI, AMP, BAR, LPAR, RPAR, LT, GT, DOLLAR, BQ, BS, DQ, SQ, EQ, STAR, QM} \cup UnicodeWhiteSpace
NeedsQuoting(s) ==
  \/ s = <<>>
  \/ \E k \in 1..Len(s) : s[k] \in AlwaysQuoted
  \/ s[1] \in {HASH, TILDE}
  \/ \E k \in 1..(Len(s) - 1) : s[k] = COLON /\ s[k + 1] = TILDE
  \/ \E k \in 1..Len(s) : s[k] = LBRC /\ \E m \in (k + 1)..Len(s) : s[m] = RBRC
  \/ \E k \in 1..Len(s) : s[k] = LBRK /\ \E m \in (k + 1)..Len(s) : s[m] = RBRK

RECURSIVE DqBody(_)
DqBody(s) == IF s = <<>> THEN <<>>
             ELSE (IF Head(s) \in {DQ, BQ, DOLLAR, BS} THEN <<BS, Head(s)>> ELSE <<Head(s)>>) \o DqBody(Tail(s))

QuoteRule(s) ==
  IF ~NeedsQuoting(s) THEN s
  ELSE IF ~Contains(s, SQ) THEN <<SQ>> \o s \o <<SQ>>
  ELSE <<DQ>> \o DqBody(s) \o <<DQ>>
=============================================================================
