---------------------------- MODULE Trace_VarSet ----------------------------
(***************************************************************************)
(* P2/P3 validation for C16.  Every record observed on the real            *)
(* yash_env::variable::VariableSet,                                        *)
(*   {pre, chain, steps : <<{op, res, pn, post}, ...>>}                    *)
(* (pre/post = the observable projection, VarRef!Project; with chain the   *)
(* pre-state of step i>1 is the post-state of step i-1, otherwise every    *)
(* step starts from pre), is judged by the documented model VarRef:        *)
(* VarRef!Verdict must be "ok" for every step.  Steps are judged           *)
(* independently of each other (a relation on observed states), so all     *)
(* failing steps of a trace are reported, one JSON line per record.        *)
(***************************************************************************)
EXTENDS VarRef, Json, IOUtils

Rec == ndJsonDeserialize(IOEnv.TRACE)

VARIABLE l
tvars == <<l, ctx>>      \* ctx (the model's own state variable) is not used here

PreOf(r, i) == IF r.chain /\ i > 1 THEN r.steps[i - 1].post ELSE r.pre

StepVerdict(r, i) ==
  LET s == r.steps[i] IN Verdict(PreOf(r, i), s.op, s.res, s.pn, s.post)

\* what identifies a failing call (for known_findings.json): the scope's
\* lowest context index (0-based, as index_of_context computes it), how many
\* lower contexts hold the name, how many contexts at or above it do
Info(r, i) ==
  LET s == r.steps[i]
      pre == PreOf(r, i)
      why == StepVerdict(r, i)
  IN IF why = "pre" \/ s.op.op \notin {"gon", "unset"}
     THEN [i |-> i, why |-> why, depth |-> Len(pre) - 1, idx |-> -1, below |-> -1, held |-> -1,
           expect |-> "?"]
     ELSE LET c == Abstract(pre)
              t == ScopeIdx(c, s.op.scope)
              x == ResStr(Apply(c, s.op).res)
          IN [i |-> i, why |-> why, depth |-> Len(c) - 1, idx |-> t - 1,
              below |-> Cardinality({k \in Holders(c, s.op.n) : k < t}),
              held  |-> Cardinality({k \in Holders(c, s.op.n) : k >= t}),
              expect |-> x.st \o " " \o x.ret \o " " \o x.old]

Bad(r) ==
  IF r.chain THEN {i \in 1..Len(r.steps) : StepVerdict(r, i) # "ok"}
  ELSE LET coh == Coherent(r.pre)
           c == Abstract(r.pre)
       IN {i \in 1..Len(r.steps) :
             VerdictC(coh, c, r.steps[i].op, r.steps[i].res, r.steps[i].pn, r.steps[i].post) # "ok"}

TraceInit == l = 1 /\ ctx = <<>>
TraceNext ==
  /\ l <= Len(Rec)
  /\ LET b == Bad(Rec[l])
     IN IF b = {} THEN TRUE
        ELSE PrintT(ToJson([l |-> l, bad |-> {Info(Rec[l], i) : i \in b}]))
  /\ l' = l + 1
  /\ UNCHANGED ctx
TraceSpec == TraceInit /\ [][TraceNext]_tvars

\* every record was looked at
Complete ==
  LET d == TLCGet("stats").diameter
  IN IF d - 1 = Len(Rec) THEN TRUE ELSE Print(<<"INCOMPLETE", d, Len(Rec)>>, FALSE)
=============================================================================
