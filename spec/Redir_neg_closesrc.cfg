SPECIFICATION Spec
CONSTANTS
  Cfg = "neg"
  Bug = "closesrc"
  Sim = TRUE
INVARIANT TypeOK
INVARIANT Conforms
