---------------------------- MODULE Calib_Alias ----------------------------
(***************************************************************************)
(* Calibration of the oracle Result(table, line) of Alias.tla against      *)
(* worked examples that are independent of the parser's code:              *)
(*   [M]  /repo/docs/src/language/aliases.md (the manual's examples)       *)
(*   [P]  /repo/yash-cli/tests/scripted_test/alias-p.sh (POSIX conformance *)
(*        cases with expected output; the case title is cited)             *)
(* A failing ASSUME is a tool error (the oracle is wrong), never a         *)
(* violation.  "v=1" stands for any assignment word, "f" for a file name.  *)
(***************************************************************************)
EXTENDS Alias

V(toks, bl) == [toks |-> toks, bl |-> bl, g |-> FALSE]
Toks(t, ln) == {OutToks(s) : s \in Result(t, ln)}
Is(t, ln, want) == Toks(t, ln) = {want}

\* [M] Recursion: alias ll='ls -l' l='ll -h';  l
ASSUME Is([ll |-> V(<<"ls", "-l">>, FALSE), l |-> V(<<"ll", "-h">>, FALSE)],
          <<"l">>, <<"ls", "-l", "-h">>)
\* [M] alias ls='ls -F';  ls   (not substituted in its own expansion)
ASSUME Is([ls |-> V(<<"ls", "-F">>, FALSE)], <<"ls">>, <<"ls", "-F">>)
\* [M] Continued substitution: greet='echo Hello,' time='time -p ';  time greet World
ASSUME Is([greet |-> V(<<"echo", "Hello,">>, FALSE), time |-> V(<<"time", "-p">>, TRUE)],
          <<"time", "greet", "World">>, <<"time", "-p", "echo", "Hello,", "World">>)
\* [M] ... and with time='time -p' the next word is not substituted
ASSUME Is([greet |-> V(<<"echo", "Hello,">>, FALSE), time |-> V(<<"time", "-p">>, FALSE)],
          <<"time", "greet", "World">>, <<"time", "-p", "greet", "World">>)
\* [M] alias dumb='> /dev/null';  dumb echo Hello
ASSUME Is([dumb |-> V(<<">", "f">>, FALSE)], <<"dumb", "echo", "Hello">>, <<">", "f", "echo", "Hello">>)
\* [M] alias 2001='test y = 2001 &&';  2001 echo Happy
ASSUME Is([m |-> V(<<"test", "y", "=", "2001", "&&">>, FALSE), echo |-> V(<<"E">>, FALSE)],
          <<"m", "echo", "Happy">>, <<"test", "y", "=", "2001", "&&", "E", "Happy">>)
\* [M] To prevent alias substitution for a word, quote it
ASSUME Is([echo |-> V(<<":">>, FALSE)], <<"'echo'", "x">>, <<"'echo'", "x">>)
ASSUME Is([echo |-> V(<<":">>, FALSE)], <<"BSecho", "x">>, <<"BSecho", "x">>)

\* [P] 'alias ending with blank'
ASSUME Is([c |-> V(<<"cat">>, FALSE), e |-> V(<<"echo">>, TRUE)],
          <<"e", "c", "c", "cat">>, <<"echo", "cat", "c", "cat">>)
ASSUME Is([c |-> V(<<"cat">>, TRUE), e |-> V(<<"echo">>, TRUE)],
          <<"e", "c", "c", "cat">>, <<"echo", "cat", "cat", "cat">>)
ASSUME Is([c |-> V(<<"cat">>, TRUE), e |-> V(<<"echo">>, TRUE), echo |-> V(<<"e", "x", "x">>, TRUE), x |-> V(<<".">>, FALSE)],
          <<"echo", "echo">>, <<"echo", ".", "x", "echo", ".", "x">>)
ASSUME Is([c |-> V(<<"cat">>, TRUE), e |-> V(<<"echo">>, TRUE), echo |-> V(<<"e", "x", "x">>, TRUE), x |-> V(<<"x", ".">>, TRUE)],
          <<"echo", "echo">>, <<"echo", "x", ".", "x", ".", "echo", "x", ".", "x", ".">>)
\* [P] 'recursive alias': alias echo='echo % ' e='echo echo';  e !
ASSUME Is([echo |-> V(<<"echo", "%">>, TRUE), e |-> V(<<"echo", "echo">>, FALSE)],
          <<"e", "!">>, <<"echo", "%", "echo", "%", "!">>)
\* [P] 'using alias after assignment (simple)': alias s=sh;  a=A s -c x
ASSUME Is([s |-> V(<<"sh">>, FALSE)], <<"v=1", "s", "-c", "x">>, <<"v=1", "sh", "-c", "x">>)
\* [P] 'using alias after assignment (complex)': b=" b=B s 'x'; echo C" s=' sh -c ';  a=A b
ASSUME Is([b |-> V(<<"v=b", "s", "'x'", ";", "echo", "C">>, FALSE), s |-> V(<<"sh", "-c">>, TRUE)],
          <<"v=1", "b">>, <<"v=1", "v=b", "sh", "-c", "'x'", ";", "echo", "C">>)
\* [P] 'using alias after redirection (simple)': alias e=echo;  >/dev/null e not_printed
ASSUME Is([e |-> V(<<"echo">>, FALSE)], <<">", "f", "e", "np">>, <<">", "f", "echo", "np">>)
\* [P] 'using alias in pipeline (simple)': alias a='echo ABC' c=cat;  ! a | c | c
ASSUME Is([a |-> V(<<"echo", "ABC">>, FALSE), c |-> V(<<"cat">>, FALSE)],
          <<"!", "a", "|", "c", "|", "c">>, <<"!", "echo", "ABC", "|", "cat", "|", "cat">>)
\* [P] 'using aliases in compound commands': alias begin={ end=};  if true; then begin a; end; fi
ASSUME Is([begin |-> V(<<"{">>, FALSE), end |-> V(<<"}">>, FALSE), a |-> V(<<"echo", "ABC">>, FALSE)],
          <<"if", "true", ";", "then", "begin", "a", ";", "end", ";", "fi">>,
          <<"if", "true", ";", "then", "{", "echo", "ABC", ";", "}", ";", "fi">>)
\* [P] 'alias substitution to blank before if': alias b=" ";  b if true; then echo ok; fi
ASSUME LET r == Result([b |-> V(<<>>, TRUE)], <<"b", "if", "true", ";", "then", "echo", "ok", ";", "fi">>)
       IN \A s \in r : /\ OutToks(s) = <<"if", "true", ";", "then", "echo", "ok", ";", "fi">>
                       /\ s.out[1].k = "s"          \* `if` is recognised as the reserved word
\* [P] 'alias substitution to !': alias e='! echo';  if e if; then echo then; else echo else; fi
ASSUME LET r == Result([e |-> V(<<"!", "echo">>, FALSE)], <<"if", "e", "if", ";", "then", "x", ";", "fi">>)
       IN \A s \in r : /\ OutToks(s) = <<"if", "!", "echo", "if", ";", "then", "x", ";", "fi">>
                       /\ s.out[2].k = "s" /\ s.out[4].k = "w"   \* `!` reserved word; second `if` an argument
\* [P] 'alias substitution to empty string': alias a= ;  a echo foo | a
ASSUME Is([a |-> V(<<>>, FALSE)], <<"a", "echo", "foo", "|", "a">>, <<"echo", "foo", "|">>)
\* [P] 'line continuation between alias names (1)' (line continuations removed before tokenising)
ASSUME Is([echo |-> V(<<"echo">>, TRUE), foo |-> V(<<"bar">>, FALSE), bar |-> V(<<"X">>, FALSE)],
          <<"echo", LC, "foo">>, <<"echo", "X">>)


CalibSpec == tb = <<>> /\ line = <<>> /\ st = InitSt(<<>>) /\ [][UNCHANGED vars]_vars
=============================================================================
