\* G14 negative configuration: the wrong variant "status-128" of SigNames.tla must be refuted by a law
SPECIFICATION Spec
CONSTANTS
  Level = "laws"
  Variant = "status-128"
INVARIANT LawsHold
