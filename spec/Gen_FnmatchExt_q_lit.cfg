INIT Init
NEXT Next
VIEW view
CONSTANTS
  Variant = ""
  PNorm <- TokLit
  PLit <- LitLit
  PMacro <- MacLit
  PLen = 2
  SAlpha <- StrLit
  SLen = 2
  CfgSel = "all"
  Kind = "match"
INVARIANT Emit
