SPECIFICATION Spec
CONSTANT Fams = {"core2", "core3", "core4", "delims", "two", "three", "places", "places3", "bare"}
CONSTANT Deep = 1
INVARIANT Emit
