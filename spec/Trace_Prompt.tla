---------------------------- MODULE Trace_Prompt ----------------------------
(***************************************************************************)
(* impl -> spec validation for G11.  Every record of the ndjson file        *)
(* IOEnv.TRACE was produced by harness/g11 from a random session:           *)
(*   cfg     start-up configuration [src, tin, terr, iflag, ign, vb, mflag, *)
(*           ps1, ps2, via]                                                 *)
(*   es      the events [t, f, k, i, toks]                                  *)
(*   chunks  the input the harness typed (its own rendering of the events)  *)
(*   obs     [outcome, stderr, stdout, ev, unfed] what the real shell did   *)
(* A record is accepted iff the chunks are those Prompt!Session gives for   *)
(* the events (otherwise the harness renderer is wrong: verdict "render", a *)
(* tool error) and the shell completed, consumed all input, wrote to        *)
(* standard error a text matching the session's pattern, and standard       *)
(* output and the probe events are as specified.  Sessions outside          *)
(* Prompt!Defined are "skip".                                               *)
(*                                                                         *)
(* The records are independent: the "behaviour" is a binary splitting of    *)
(* the index range (all TLC workers share the work); the invariant judges   *)
(* the record at every leaf and prints one JSON line per record that is     *)
(* not plainly accepted.                                                    *)
(***************************************************************************)
EXTENDS Prompt, Json, IOUtils

Rec == ndJsonDeserialize(IOEnv.TRACE)
NRec == Len(Rec)

VARIABLES lo, hi
vars == <<lo, hi>>

Init == lo = 1 /\ hi = NRec
Next == /\ lo < hi
        /\ LET mid == (lo + hi) \div 2
           IN \/ lo' = lo /\ hi' = mid
              \/ lo' = mid + 1 /\ hi' = hi
Spec == Init /\ [][Next]_vars

SameSeq(a, b) == Len(a) = Len(b) /\ \A i \in 1..Len(a) : a[i] = b[i]
SameEv(a, b) == Len(a) = Len(b) /\ \A i \in 1..Len(a) : SameSeq(a[i], b[i])

Verdict(r) ==
  IF ~Defined(r.cfg, r.es) THEN [v |-> "skip", why |-> ""]
  ELSE LET F == Session(r.cfg, r.es, "spec")
       IN IF ~SameSeq(F.chunks, r.chunks) THEN [v |-> "render", why |-> "chunks"]
          ELSE IF r.obs.outcome # "completed" THEN [v |-> "reject", why |-> "outcome"]
          ELSE IF ~Matches(F.pat, r.obs.stderr) THEN [v |-> "reject", why |-> "stderr"]
          ELSE IF r.obs.stdout # F.out THEN [v |-> "reject", why |-> "stdout"]
          ELSE IF ~SameEv(r.obs.ev, F.ev) THEN [v |-> "reject", why |-> "events"]
          ELSE IF r.obs.unfed # 0 THEN [v |-> "reject", why |-> "unfed"]
          ELSE [v |-> "ok", why |-> ""]

Judge ==
  (lo = hi /\ NRec > 0) =>
     LET j == Verdict(Rec[lo])
     IN IF j.v = "ok" THEN TRUE
        ELSE PrintT(ToJson([i |-> lo, v |-> j.v, why |-> j.why]))
=============================================================================
