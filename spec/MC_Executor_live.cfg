SPECIFICATION FairSpec
CONSTANTS
  MaxTasks = 3
  NChan = 1
  Budget = 1
  MaxOver = 2
  YieldFree = TRUE
  MaxRoots = 3
  MaxExt = 1
  Lifo = FALSE
  Hist = FALSE
  Pinned = FALSE
INVARIANT DriverInv
INVARIANT FifoOnce
PROPERTY NoStarvation
