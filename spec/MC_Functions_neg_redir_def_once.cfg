\* negative configuration: the wrong variant "redir_def_once" must be refuted by P_OnlyChangers
SPECIFICATION Spec
CONSTANTS
  MaxDepth = 4
  Variant = "redir_def_once"
  Fams = {"redir"}
  LB = 1
  LM = 1
  Wide = {}
  Stepwise = TRUE
PROPERTY P_OnlyChangers
