SPECIFICATION Spec
CONSTANT Fams = {"modes"}
CONSTANT Deep = 0
CONSTANT Variant = "interactive-stdin-only"
INVARIANT Check
