SPECIFICATION Spec
CONSTANTS
  Profile = "ctl"
  MaxTok = 11
  MaxUnits = 0
INVARIANT GenInv
