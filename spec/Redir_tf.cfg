SPECIFICATION Spec
CONSTANTS
  Cfg = "tf"
  Bug = "none"
  Sim = TRUE
INVARIANT TypeOK
INVARIANT InternalInv
INVARIANT Conforms
INVARIANT Emit
