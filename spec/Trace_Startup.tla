---------------------------- MODULE Trace_Startup ----------------------------
(***************************************************************************)
(* impl -> spec validation for G09.  Every record of the ndjson file        *)
(* IOEnv.TRACE was produced by harness/g09 from a random scenario:          *)
(*   sc      the scenario (fields as in Startup.tla)                        *)
(*   argv, stdin, script   the rendering the harness used                   *)
(*   runs    per mode (sim: simulated OS; real: true entry point on the     *)
(*           real OS): [mode, outcome, out (normalised lines of standard    *)
(*           output), status, sig, err ("empty" / "nonempty")]              *)
(* A record is accepted iff the rendering is the one Startup.tla gives for  *)
(* the scenario (otherwise the harness renderer is wrong: verdict "render", *)
(* a tool error) and every run is one of the outcomes Startup!Expect        *)
(* allows.  For scenarios of class "unspec" the runs must merely have       *)
(* terminated.                                                              *)
(*                                                                         *)
(* The records are independent: the "behaviour" is a binary splitting of   *)
(* the index range (all TLC workers share the work); the invariant judges  *)
(* the record at every leaf and prints one JSON line per (record, run,    *)
(* deviation) that is not plainly accepted.                                *)
(***************************************************************************)
EXTENDS Startup, Json, IOUtils

Rec == ndJsonDeserialize(IOEnv.TRACE)
N == Len(Rec)

VARIABLES lo, hi
vars == <<lo, hi>>

Init == lo = 1 /\ hi = N
Next == /\ lo < hi
        /\ LET mid == (lo + hi) \div 2
           IN \/ lo' = lo /\ hi' = mid
              \/ lo' = mid + 1 /\ hi' = hi
Spec == Init /\ [][Next]_vars

SameSeq(a, b) == Len(a) = Len(b) /\ \A i \in 1..Len(a) : a[i] = b[i]

\* verdicts of the runs of one record that are not plain acceptance
Verdicts(i) ==
  LET r == Rec[i]
      s == r.sc
      e == Expect(s)
      plan == PlanOf(s)
      base == [i |-> i, class |-> e.class, rc |-> plan.rc, last |-> plan.last, inter |-> plan.inter]
  IN IF ~(SameSeq(Argv(s), r.argv) /\ StdinText(s) = r.stdin /\ ScriptText(s) = r.script)
     THEN {base @@ [v |-> "render", mode |-> "", field |-> "", pos |-> 0, exp |-> "", got |-> ""]}
     ELSE UNION { LET run == r.runs[k]
                      ds == IF e.class = "unspec"
                            THEN (IF run.outcome = "completed" THEN {} ELSE {D("outcome", 0, "completed", run.outcome)})
                            ELSE BestDevs(e.alts, run, 1)
                  IN IF ds = {} THEN {base @@ [v |-> IF e.class = "unspec" THEN "unspec" ELSE "ok", mode |-> run.mode,
                                               field |-> "", pos |-> 0, exp |-> "", got |-> ""]}
                     ELSE {base @@ [v |-> "reject", mode |-> run.mode, field |-> d.field, pos |-> d.pos, exp |-> d.exp, got |-> d.got] : d \in ds}
                  : k \in DOMAIN r.runs }

Judge ==
  (lo = hi /\ N > 0) =>
     \A j \in Verdicts(lo) : IF j.v = "ok" THEN TRUE ELSE PrintT(ToJson(j))
=============================================================================
