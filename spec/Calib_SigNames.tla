--------------------------- MODULE Calib_SigNames ---------------------------
(***************************************************************************)
(* G14: calibration of SigNames.tla.  Worked examples transcribed by hand  *)
(* from the manual (docs/src/builtins/kill.md, trap.md,                    *)
(* language/commands/exit_status.md), the scripted tests                   *)
(* yash-cli/tests/scripted_test/{kill1-p,kill2-p,kill3-p,kill4-p,kill-y,   *)
(* trap-p,trap-y}.sh (they cannot run in this sandbox) and the examples in *)
(* the rustdoc / unit tests of yash_env::signal, yash_env::semantics and   *)
(* yash_builtin::kill::print.  A failing ASSUME is a defect of the         *)
(* specification (tool error), never a violation.                          *)
(*                                                                         *)
(* Two sample platforms: Lnx (Linux x86-64 <signal.h>, glibc: realtime     *)
(* signals 34..64) and Vrt (the simulated system as documented in          *)
(* yash-env/src/system/virtual/signal.rs: realtime signals 201..209).      *)
(***************************************************************************)
EXTENDS SigNames

E(n, v) == [n |-> n, v |-> v, req |-> n \in PosixNames]
Lnx == [names |-> <<E("ABRT", 6), E("ALRM", 14), E("BUS", 7), E("CHLD", 17), E("CONT", 18), E("FPE", 8), E("HUP", 1), E("ILL", 4),
                    E("INT", 2), E("IO", 29), E("IOT", 6), E("KILL", 9), E("PIPE", 13), E("POLL", 29), E("PROF", 27), E("PWR", 30),
                    E("QUIT", 3), E("SEGV", 11), E("STKFLT", 16), E("STOP", 19), E("SYS", 31), E("TERM", 15), E("TRAP", 5),
                    E("TSTP", 20), E("TTIN", 21), E("TTOU", 22), E("URG", 23), E("USR1", 10), E("USR2", 12), E("VTALRM", 26),
                    E("WINCH", 28), E("XCPU", 24), E("XFSZ", 25)>>,
        rtmin |-> 34, rtmax |-> 64, kacc |-> [i \in 1..65 |-> i - 1], maxn |-> 66]
VrtNumbers == <<6, 14, 101, 102, 102, 103, 104, 105, 1, 106, 107, 2, 108, 6, 9, 109, 110, 111, 112, 113, 3, 114, 115, 116, 117, 15,
                118, 119, 120, 121, 122, 123, 124, 125, 126, 127, 128, 129>>
Vrt == [names |-> [i \in 1..Len(KnownNames) |-> E(KnownNames[i], VrtNumbers[i])],
        rtmin |-> 201, rtmax |-> 209,
        kacc |-> <<0, 1, 2, 3, 6, 9, 14, 15>> \o [i \in 1..29 |-> 100 + i] \o [i \in 1..9 |-> 200 + i], maxn |-> 211]

Send(n, tg) == KOut("send", n, tg, TRUE, FALSE, <<>>, FALSE)
K(w) == KillCmd(Lnx, FALSE, w)
KP(w) == KillCmd(Lnx, TRUE, w)

(***************************************************************************)
(* kill.md                                                                 *)
(***************************************************************************)
\* "for example, INT, int, and SIGINT all denote the same signal"
ASSUME ParseKillSig(Lnx, "INT", FALSE) = Sig(2) /\ ParseKillSig(Lnx, "int", FALSE) = Sig(2) /\ ParseKillSig(Lnx, "SIGINT", FALSE) = Sig(2)
\* "The default signal is SIGTERM."
ASSUME K(<<"@V1">>) = Send(15, {"V1"})
\* "If the number is zero, the built-in does not send a signal"
ASSUME K(<<"-s", "0", "@V1">>) = Send(0, {"V1"}) /\ K(<<"-n", "0", "@V1">>) = Send(0, {"V1"})
\* "written in the same argument as the option name, as in -sTERM"
ASSUME K(<<"-sTERM", "@V1">>) = Send(15, {"V1"})
\* "like -TERM and -15 instead of -s TERM and -n 15"
ASSUME K(<<"-TERM", "@V1">>) = Send(15, {"V1"}) /\ K(<<"-15", "@V1">>) = Send(15, {"V1"})
ASSUME K(<<"-s", "TERM", "@V1">>) = Send(15, {"V1"}) /\ K(<<"-n", "15", "@V1">>) = Send(15, {"V1"})
\* Examples: kill -l $? with 399 / 386 / 385
ASSUME OperandPairs(Lnx, "399") = {<<15, "TERM">>} /\ OperandPairs(Lnx, "386") = {<<2, "INT">>} /\ OperandPairs(Lnx, "385") = {<<1, "HUP">>}
ASSUME K(<<"-l", "399">>).k = "list"
\* "kill -n 15 -- -$!": the -- separator is needed for a negated group ID
ASSUME K(<<"-n", "15", "--", "@-G1">>) = Send(15, {"V1", "V3"})
ASSUME K(<<"-n", "1", "@V1">>) = Send(1, {"V1"})
\* Errors: no target; unsupported signal; unknown -l operand
ASSUME K(<<>>).k = "err" /\ K(<<"-s", "TERM">>).k = "err"
ASSUME K(<<"-s", "NOSUCH", "@V1">>).k = "err" /\ K(<<"-n", "65", "@V1">>).k = "err"
ASSUME K(<<"-l", "NOSUCH">>).k = "err"
\* Compatibility: "The operands to the -l and -v options never accept the prefix."
ASSUME K(<<"-l", "SIGTERM">>).k = "err" /\ K(<<"-v", "SIGTERM">>).k = "err"
\* "kill -l 0 or kill -l EXIT ... this implementation regards them as invalid operands"
ASSUME K(<<"-l", "0">>).k = "err" /\ K(<<"-l", "EXIT">>).k = "err"
\* "POSIX defines the following signal numbers"
ASSUME \A i \in 1..Len(PosixFixed) : NumOfNamed(Lnx, PosixFixed[i][1]) = PosixFixed[i][2] /\ NumOfNamed(Vrt, PosixFixed[i][1]) = PosixFixed[i][2]
\* portable: "use ... kill -9 rather than kill -s 9, kill -s TERM rather than kill -n TERM or kill -sTERM, and TERM rather than
\* SIGTERM.  The obsolete syntax is unaffected, so kill -stop still sends SIGSTOP."
ASSUME KP(<<"-9", "@V1">>) = Send(9, {"V1"}) /\ KP(<<"-s", "9", "@V1">>).k = "err"
ASSUME KP(<<"-s", "TERM", "@V1">>) = Send(15, {"V1"}) /\ KP(<<"-n", "TERM", "@V1">>).k = "err" /\ KP(<<"-sTERM", "@V1">>).k = "err"
ASSUME KP(<<"-s", "SIGTERM", "@V1">>).k = "err" /\ KP(<<"-SIGTERM", "@V1">>).k = "err"
ASSUME KP(<<"-stop", "@V1">>) = Send(19, {"V1"}) /\ K(<<"-stop", "@V1">>) = Send(19, {"V1"})
\* "Using the -l option with more than one operand / a signal name operand is a non-standard extension"; "-v is an extension"
ASSUME KP(<<"-l", "9", "15">>).k = "err" /\ KP(<<"-l", "TERM">>).k = "err" /\ KP(<<"-v">>).k = "err" /\ KP(<<"-l", "15">>).k = "list"

(***************************************************************************)
(* kill-y.sh                                                               *)
(***************************************************************************)
ASSUME K(<<"-s", "SIGCONT", "@V1">>) = Send(18, {"V1"}) /\ K(<<"-s", "sigcont", "@V1">>) = Send(18, {"V1"})   \* SIG prefix accepted in -s
ASSUME KP(<<"-s", "SIGCONT", "@V1">>).k = "err"                                                           \* ... rejected under portable
ASSUME K(<<"-SIGCONT", "@V1">>) = Send(18, {"V1"}) /\ K(<<"-sigcont", "@V1">>) = Send(18, {"V1"})           \* obsolete syntax
ASSUME KP(<<"-SIGCONT", "@V1">>).k = "err"
ASSUME K(<<"-n", "CONT", "@V1">>) = Send(18, {"V1"}) /\ KP(<<"-n", "CONT", "@V1">>).k = "err"              \* option -n
ASSUME K(<<"-v">>).k = "list" /\ KP(<<"-v">>).k = "err"                                                   \* option -v
ASSUME K(<<"-sCONT", "@V1">>) = Send(18, {"V1"}) /\ KP(<<"-sCONT", "@V1">>).k = "err"                      \* attached argument
ASSUME K(<<"-s", "9", "@V1">>) = Send(9, {"V1"}) /\ KP(<<"-s", "9", "@V1">>).k = "err"                     \* number argument to -s
ASSUME K(<<"-l", "9", "15">>).k = "list" /\ LineOK(Lnx, <<"KILL">>, OperandPairs(Lnx, "9"), FALSE) /\ LineOK(Lnx, <<"TERM">>, OperandPairs(Lnx, "15"), FALSE)
ASSUME K(<<"-l", "TERM">>).k = "list" /\ LineOK(Lnx, <<"TERM">>, OperandPairs(Lnx, "TERM"), FALSE)
ASSUME KP(<<"-s", "CONT", "@V1">>) = Send(18, {"V1"}) /\ KP(<<"-s", "0", "@V1">>) = Send(0, {"V1"})
ASSUME KP(<<"-CONT", "@V1">>) = Send(18, {"V1"}) /\ KP(<<"-0", "@V1">>) = Send(0, {"V1"})
ASSUME KP(<<"-stop", "@V1">>) = Send(19, {"V1"}) /\ KP(<<"-cont", "@V1">>) = Send(18, {"V1"}) /\ KP(<<"-s", "KILL", "@V1">>) = Send(9, {"V1"})
ASSUME KP(<<"-l">>).k = "list"

(***************************************************************************)
(* kill1-p.sh .. kill4-p.sh                                                *)
(***************************************************************************)
ASSUME K(<<"-l">>).k = "list" /\ K(<<"-l">>).ops = <<>>
ASSUME \A i \in 1..Len(PosixFixed) : OperandPairs(Lnx, ToString(PosixFixed[i][2])) = {<<PosixFixed[i][2], PosixFixed[i][1]>>}
\* sh -c 'kill -s X $$'; kill -l $?   (the status of a yash child killed by X is 384 + X)
ASSUME \A i \in 1..Len(PosixFixed) : OperandPairs(Lnx, ToString(StatusOfSignal(PosixFixed[i][2]))) = {<<PosixFixed[i][2], PosixFixed[i][1]>>}
ASSUME K(<<"@ME">>) = Send(15, {"ME"}) /\ K(<<"-s", "0", "@ME">>) = Send(0, {"ME"})
ASSUME \A nm \in {"ABRT", "ALRM", "FPE", "HUP", "ILL", "INT", "KILL", "PIPE", "QUIT", "TERM", "USR1", "USR2", "CHLD", "CONT", "URG",
                  "STOP", "TSTP", "TTIN", "TTOU"} :
         K(<<"-s", nm, "@ME">>) = Send(NumOfNamed(Lnx, nm), {"ME"}) /\ K(<<"-" \o nm, "@ME">>) = Send(NumOfNamed(Lnx, nm), {"ME"})
ASSUME \A n \in {1, 2, 3, 6, 9, 14, 15} : K(<<"-" \o ToString(n), "@ME">>) = Send(n, {"ME"})
\* kill2-p expects the shell to die of the signal, kill3-p to survive CHLD CONT URG and to be stopped by STOP TSTP TTIN TTOU
ASSUME \A nm \in {"ABRT", "ALRM", "FPE", "HUP", "ILL", "INT", "KILL", "PIPE", "QUIT", "TERM", "USR1", "USR2"} : DefAct(Lnx, NumOfNamed(Lnx, nm)) \in {"T", "A"}
ASSUME \A nm \in {"CHLD", "CONT", "URG"} : DefAct(Lnx, NumOfNamed(Lnx, nm)) \in {"I", "C"}
ASSUME \A nm \in {"STOP", "TSTP", "TTIN", "TTOU"} : DefAct(Lnx, NumOfNamed(Lnx, nm)) = "S"
\* kill -s HUP -- -$pgid ; kill -1 -- -$pgid
ASSUME K(<<"-s", "HUP", "--", "@-G1">>) = Send(1, {"V1", "V3"}) /\ K(<<"-1", "--", "@-G1">>) = Send(1, {"V1", "V3"})
\* sending to multiple processes
ASSUME K(<<"@V1", "@V2">>) = Send(15, {"V1", "V2"})

(***************************************************************************)
(* trap.md, trap-p.sh, trap-y.sh                                           *)
(***************************************************************************)
\* "A symbolic name of a signal without the SIG prefix (e.g. INT, QUIT, TERM)"
ASSUME ParseTrapCond(Lnx, "INT") = Sig(2) /\ ParseTrapCond(Lnx, "QUIT") = Sig(3) /\ ParseTrapCond(Lnx, "TERM") = Sig(15)
\* "Signal names must be specified in uppercase. Lowercase names and the SIG prefix may be supported in the future."
\* (trap-y.sh: both tests carry the expected-failure flag)
ASSUME ParseTrapCond(Lnx, "SIGUSR1") = ErrR /\ ParseTrapCond(Lnx, "uSr1") = ErrR /\ ParseTrapCond(Lnx, "int") = ErrR
\* "A positive decimal integer representing a signal number"; "The number 0 or the symbolic name EXIT"
ASSUME \A i \in 1..Len(PosixFixed) : ParseTrapCond(Lnx, ToString(PosixFixed[i][2])) = Sig(PosixFixed[i][2])
ASSUME ParseTrapCond(Lnx, "0") = ExitR /\ ParseTrapCond(Lnx, "EXIT") = ExitR
\* "Traps cannot be set to SIGKILL or SIGSTOP" (trap-y.sh: exit status 1)
ASSUME TrapCmd(Lnx, <<"", "KILL">>).k = "err" /\ TrapCmd(Lnx, <<"", "STOP">>).k = "err"
\* trap-y.sh: invalid signal name / number; trap-p.sh: trap '' ''
ASSUME TrapCmd(Lnx, <<"-", "NOSUCHSIGNAL">>).k = "err" /\ TrapCmd(Lnx, <<"-", "-1">>).k = "err" /\ TrapCmd(Lnx, <<"", "">>).k = "err"
\* trap - USR1; trap 'x' USR1 USR2; trap 2 QUIT (conditions 2 and QUIT)
ASSUME TrapCmd(Lnx, <<"-", "USR1">>) = TrapR("ok", <<"USR1">>, <<{"USR1"}>>, "-")
ASSUME TrapCmd(Lnx, <<"-", "2", "QUIT">>) = TrapR("ok", <<"2", "QUIT">>, <<{"INT"}, {"QUIT"}>>, "-")
\* trap-p.sh:60-70 "initial numeric operand implies default trap": trap 'echo trapped' 2 QUIT; trap 2 QUIT
ASSUME TrapCmd(Lnx, <<"2", "QUIT">>) = TrapR("ok", <<"2", "QUIT">>, <<{"INT"}, {"QUIT"}>>, "-")
\* trap-p.sh:13 trap '' USR1 (ignore); trap-p.sh:123 trap 'false' USR1 (a command)
ASSUME TrapCmd(Lnx, <<"", "USR1">>) = TrapR("ok", <<"USR1">>, <<{"USR1"}>>, "''")
ASSUME TrapCmd(Lnx, <<"false", "USR1">>) = TrapR("ok", <<"USR1">>, <<{"USR1"}>>, "false")
\* trap.md: "The action may be omitted if the first condition is a non-negative decimal integer"; 0 is EXIT
ASSUME TrapCmd(Lnx, <<"0">>) = TrapR("ok", <<"0">>, <<{"EXIT"}>>, "-") /\ TrapCmd(Lnx, <<"15", "FOO">>).k = "err"
\* trap -p QUIT USR1 TERM prints `trap -- 'echo Y' QUIT`, `trap -- 'echo X' USR1`, `trap -- - TERM`
ASSUME TrapCmd(Lnx, <<"-p", "QUIT", "USR1", "TERM">>) = TrapR("ok", <<"QUIT", "USR1", "TERM">>, <<{"QUIT"}, {"USR1"}, {"TERM"}>>, "''")
ASSUME TrapLineOK(<<"trap", "--", "-", "TERM">>, {"TERM"}) /\ ~TrapLineOK(<<"trap", "--", "-", "SIGTERM">>, {"TERM"})
\* trap.md example: `trap -p INT` prints `trap -- '' INT`
ASSUME TrapLineOK(<<"trap", "--", "''", "INT">>, {"INT"})

(***************************************************************************)
(* exit_status.md and the rustdoc of ExitStatus::to_signal                 *)
(***************************************************************************)
\* "if a command is terminated by SIGINT (signal number 2), the exit status will be 386"
ASSUME StatusOfSignal(2) = 386
\* unit test exit_status_to_signal (virtual system)
ASSUME StatusReadings(Vrt, 0) = {} /\ StatusExact(Vrt, 0) = {}
ASSUME StatusReadings(Vrt, 2) = {2} /\ StatusExact(Vrt, 2) = {}
ASSUME StatusReadings(Vrt, 2 + 128) = {2} /\ StatusExact(Vrt, 2 + 128) = {}
ASSUME StatusReadings(Vrt, 2 + 384) = {2} /\ StatusExact(Vrt, 2 + 384) = {2} /\ StatusExact(Vrt, 15 + 384) = {15}

\* rustdoc of ExitStatus::to_signal: 384 first, then 128, then 0 (129 on the virtual system: HUP by 128 + 1, not XFSZ = 129)
ASSUME StatusFirst(Vrt, 129) = 1 /\ StatusReadings(Vrt, 129) = {1, 129} /\ StatusFirst(Vrt, 386) = 2 /\ StatusFirst(Vrt, 130) = 2
ASSUME StatusFirst(Vrt, 2) = 2 /\ StatusFirst(Vrt, 0) = -1 /\ StatusFirst(Vrt, 4) = -1
\* XBD <signal.h>: default actions (T terminate: TERM; A with additional actions: QUIT; realtime: terminate)
ASSUME DefAct(Lnx, 15) = "T" /\ DefAct(Lnx, 3) = "A" /\ DefAct(Lnx, 34) = "T" /\ DefAct(Lnx, 64) = "T" /\ DefAct(Lnx, 17) = "I"
ASSUME DefAct(Lnx, 19) = "S" /\ DefAct(Lnx, 18) = "C" /\ DefAct(Lnx, 30) = "?"

(***************************************************************************)
(* rustdoc and unit tests of yash_env::signal (Name::as_string, FromStr)   *)
(* and of Signals::str2sig                                                 *)
(***************************************************************************)
ASSUME FromStrNames("ABRT").k = "ok" /\ FromStrNames("INT").k = "ok" /\ FromStrNames("QUIT").k = "ok"
ASSUME FromStrNames("RTMIN").s = {"RTMIN"} /\ "RTMIN" \in FromStrNames("RTMIN+0").s /\ FromStrNames("RTMIN+1").s = {"RTMIN+1"}
ASSUME FromStrNames("RTMAX").s = {"RTMAX"} /\ "RTMAX" \in FromStrNames("RTMAX-0").s /\ FromStrNames("RTMAX-1").s = {"RTMAX-1"}
ASSUME \A t \in {"", "FOO", "int", "RTMIN0", "RTMIN+", "RTMAX0", "RTMAX-", "2"} : FromStrNames(t).k = "err"
ASSUME FromStrNames("RTMIN+20").s = {"RTMIN+20"} /\ FromStrNames("RTMAX-20").s = {"RTMAX-20"}
\* kill/syntax.rs unit tests: parse_signal
ASSUME NumOrName(Vrt, "INT", FALSE) = Sig(2) /\ NumOrName(Vrt, "RtMin+5", FALSE) = Sig(206) /\ NumOrName(Vrt, "SigRtMin+5", FALSE) = ErrR
ASSUME NumOrName(Vrt, "SigRtMin+5", TRUE) = Sig(206)
ASSUME \A n \in {0, 1, 3, 6, 9, 14} : NumOrName(Vrt, ToString(n), TRUE) = Sig(n)
ASSUME \A t \in {"", "TERM1", "1TERM"} : NumOrName(Vrt, t, FALSE) = ErrR
\* kill/print.rs unit tests
ASSUME OperandPairs(Vrt, "9") = {<<9, "KILL">>} /\ OperandPairs(Vrt, "386") = {<<2, "INT">>} /\ ListOperand(Vrt, "0").k = "err"
ASSUME ListOperand(Vrt, "FOO").k = "err" /\ ListOperand(Vrt, "RTMIN-1").k = "err"
ASSUME LineOK(Vrt, <<"2", "INT">>, OperandPairs(Vrt, "INT"), TRUE)
\* print_all_non_verbose: the whole list of the virtual system
ASSUME ListAll(Vrt, FALSE) =
  << <<"HUP">>, <<"INT">>, <<"QUIT">>, <<"ABRT">>, <<"IOT">>, <<"KILL">>, <<"ALRM">>, <<"TERM">>, <<"BUS">>, <<"CHLD">>, <<"CLD">>,
     <<"CONT">>, <<"EMT">>, <<"FPE">>, <<"ILL">>, <<"INFO">>, <<"IO">>, <<"LOST">>, <<"PIPE">>, <<"POLL">>, <<"PROF">>, <<"PWR">>, <<"SEGV">>,
     <<"STKFLT">>, <<"STOP">>, <<"SYS">>, <<"THR">>, <<"TRAP">>, <<"TSTP">>, <<"TTIN">>, <<"TTOU">>, <<"URG">>, <<"USR1">>, <<"USR2">>,
     <<"VTALRM">>, <<"WINCH">>, <<"XCPU">>, <<"XFSZ">>, <<"RTMIN">>, <<"RTMIN+1">>, <<"RTMIN+2">>, <<"RTMIN+3">>,
     <<"RTMIN+4">>, <<"RTMAX-3">>, <<"RTMAX-2">>, <<"RTMAX-1">>, <<"RTMAX">> >>
ASSUME ListAllOK(Vrt, ListAll(Vrt, FALSE), FALSE) /\ ListAllOK(Lnx, ListAll(Lnx, TRUE), TRUE)
\* the realtime names of Linux: 34 RTMIN, 35 RTMIN+1, 49 RTMIN+15 / RTMAX-15, 50 RTMAX-14, 64 RTMAX
ASSUME NameOf(Lnx, 34) = {"RTMIN"} /\ NameOf(Lnx, 35) = {"RTMIN+1"} /\ NameOf(Lnx, 49) = {"RTMIN+15", "RTMAX-15"}
ASSUME NameOf(Lnx, 50) = {"RTMAX-14"} /\ NameOf(Lnx, 64) = {"RTMAX"} /\ NameOf(Lnx, 6) = {"ABRT"} /\ NameOf(Lnx, 29) = {"IO", "POLL"}
ASSUME NameNum(Lnx, "RTMIN+30") = Sig(64) /\ NameNum(Lnx, "RTMAX-30") = Sig(34) /\ NameNum(Lnx, "RTMIN+31") = ErrR /\ NameNum(Lnx, "RTMAX-31") = ErrR

VARIABLE dummy
Init == dummy = 0
Next == UNCHANGED dummy
Spec == Init /\ [][Next]_dummy
=============================================================================
