\* G14 enumeration and laws, quick
SPECIFICATION Spec
CONSTANTS
  Level = "quick"
  Variant = "none"
INVARIANT Emit
