------------------------------- MODULE Limits -------------------------------
(***************************************************************************)
(* G08 (specification growth) - process attributes: resource limits, the   *)
(* file mode creation mask and the process times, as the system calls      *)
(* getrlimit / setrlimit / umask / times and as the built-ins `ulimit`,    *)
(* `umask` and `times` that are layered on them.                           *)
(*                                                                         *)
(* Written from POSIX.1-2024 (XSH getrlimit / setrlimit, umask, times;     *)
(* XCU ulimit, umask, times, chmod EXTENDED DESCRIPTION for the grammar    *)
(* and the meaning of symbolic modes, XBD 12.2 utility syntax guidelines)  *)
(* and the manual docs/src/builtins/{ulimit,umask,times}.md - not from the *)
(* code.  Where the two leave a choice an operation has several allowed    *)
(* outcomes or is classed `unspec` (not judged, counted).                  *)
(*                                                                         *)
(* One model for both systems.  What differs between systems is the        *)
(* platform record P:                                                      *)
(*   sup    set of resources (named by their ulimit option letter) the     *)
(*          system supports                                                *)
(*   priv   whether the process may raise hard limits                      *)
(*   inf    the decimal numeral of RLIM_INFINITY (largest value of rlim_t) *)
(*   ceil   per resource the largest hard limit even a privileged process  *)
(*          may set ("inf" = none; Linux: /proc/sys/fs/nr_open for -n)     *)
(*   times  <<>> (the clock is the system's) or the four known values      *)
(*          <<self user, self system, children user, children system>>,    *)
(*          each <<minutes, seconds, microseconds>>                        *)
(*                                                                         *)
(* State S = [rlim : resource -> <<soft, hard>>, umask : 0..511,           *)
(*            portable : BOOLEAN, tprev : last observed times or <<>>].    *)
(* A limit is the string "inf" or a canonical decimal numeral of the raw   *)
(* value (bytes, seconds, ...): TLC's integers have 32 bits, limits 64, so *)
(* the arithmetic (scaling by 512 / 1024, comparison, division) is done on *)
(* digit sequences.                                                        *)
(***************************************************************************)
EXTENDS Naturals, Integers, Sequences, FiniteSets, TLC

(***************************************************************************)
(* Strings and sequences.                                                  *)
(***************************************************************************)
Chars(s) == [i \in 1..Len(s) |-> SubSeq(s, i, i)]
RangeOf(q) == {q[i] : i \in 1..Len(q)}
RECURSIVE Concat(_)
Concat(q) == IF q = <<>> THEN "" ELSE q[1] \o Concat(Tail(q))
SetMin(X) == CHOOSE x \in X : \A y \in X : x <= y
StartsWith(s, p) == Len(s) >= Len(p) /\ SubSeq(s, 1, Len(p)) = p
RECURSIVE SkipWhile(_, _, _)
SkipWhile(cs, i, X) == IF i <= Len(cs) /\ cs[i] \in X THEN SkipWhile(cs, i + 1, X) ELSE i

\* the pieces of cs between occurrences of sep (always at least one piece)
RECURSIVE SplitAt(_, _, _, _)
SplitAt(cs, sep, i, from) ==
  IF i > Len(cs) THEN <<SubSeq(cs, from, Len(cs))>>
  ELSE IF cs[i] = sep THEN <<SubSeq(cs, from, i - 1)>> \o SplitAt(cs, sep, i + 1, i + 1)
  ELSE SplitAt(cs, sep, i + 1, from)
Split(cs, sep) == SplitAt(cs, sep, 1, 1)

(***************************************************************************)
(* Natural numbers as sequences of decimal digits, most significant first. *)
(***************************************************************************)
DigitChars == <<"0", "1", "2", "3", "4", "5", "6", "7", "8", "9">>
DigitSet == RangeOf(DigitChars)
OctalSet == {"0", "1", "2", "3", "4", "5", "6", "7"}
DigitVal(c) == (CHOOSE i \in 1..10 : DigitChars[i] = c) - 1
AllDigits(s) == Len(s) > 0 /\ \A i \in 1..Len(s) : SubSeq(s, i, i) \in DigitSet
Canonical(s) == AllDigits(s) /\ (Len(s) = 1 \/ SubSeq(s, 1, 1) # "0")
DigitsOf(s) == [i \in 1..Len(s) |-> DigitVal(SubSeq(s, i, i))]
RECURSIVE DStrip(_)
DStrip(d) == IF Len(d) > 1 /\ d[1] = 0 THEN DStrip(Tail(d)) ELSE d
RECURSIVE DStr(_)
DStr(d) == IF d = <<>> THEN "" ELSE DigitChars[d[1] + 1] \o DStr(Tail(d))

\* -1 / 0 / 1 for canonical digit sequences
DCmp(a, b) ==
  IF Len(a) # Len(b) THEN (IF Len(a) < Len(b) THEN -1 ELSE 1)
  ELSE LET diff == {i \in 1..Len(a) : a[i] # b[i]} IN
       IF diff = {} THEN 0 ELSE LET i == SetMin(diff) IN IF a[i] < b[i] THEN -1 ELSE 1

\* d * k + c  (k, c small), <<>> standing for zero while recursing
RECURSIVE DMulAddRaw(_, _, _)
DMulAddRaw(d, k, c) ==
  IF d = <<>> THEN (IF c = 0 THEN <<>> ELSE DMulAddRaw(<<>>, k, c \div 10) \o <<(c % 10)>>)
  ELSE LET t == (d[Len(d)] * k) + c IN DMulAddRaw(SubSeq(d, 1, Len(d) - 1), k, t \div 10) \o <<(t % 10)>>
DMulAdd(d, k, c) == LET r == DMulAddRaw(d, k, c) IN IF r = <<>> THEN <<0>> ELSE DStrip(r)

\* quotient and remainder of d by a small k
RECURSIVE DDivRaw(_, _)
DDivRaw(d, k) ==
  IF d = <<>> THEN [q |-> <<>>, r |-> 0]
  ELSE LET p == DDivRaw(SubSeq(d, 1, Len(d) - 1), k)
           t == (p.r * 10) + d[Len(d)]
       IN [q |-> Append(p.q, t \div k), r |-> t % k]
DDiv(d, k) == LET x == DDivRaw(d, k) IN [q |-> DStrip(x.q), r |-> x.r]

\* a small natural number as text, zero-padded to at least w digits
RECURSIVE NatStr(_)
NatStr(n) == IF n < 10 THEN DigitChars[n + 1] ELSE NatStr(n \div 10) \o DigitChars[(n % 10) + 1]
RECURSIVE Pad(_, _)
Pad(s, w) == IF Len(s) >= w THEN s ELSE Pad("0" \o s, w)

(***************************************************************************)
(* Limits: "inf" or the canonical decimal numeral of the raw value.        *)
(***************************************************************************)
Inf == "inf"
IsLimit(v) == v = Inf \/ Canonical(v)
LimLE(a, b) == IF b = Inf THEN TRUE ELSE IF a = Inf THEN FALSE ELSE DCmp(DigitsOf(a), DigitsOf(b)) <= 0
LimLT(a, b) == LimLE(a, b) /\ a # b

(***************************************************************************)
(* The resources: option letter (the name of the resource throughout),     *)
(* long option (manual), unit of the operand and of the output (manual;    *)
(* POSIX for c d f n s t v), whether POSIX defines the option.             *)
(***************************************************************************)
Rs(o, l, sc, px) == [o |-> o, long |-> l, scale |-> sc, posix |-> px]
ResTable ==
  <<Rs("b", "sbsize", 1, FALSE), Rs("c", "core", 512, TRUE), Rs("d", "data", 1024, TRUE),
    Rs("e", "nice", 1, FALSE), Rs("f", "fsize", 512, TRUE), Rs("i", "sigpending", 1, FALSE),
    Rs("k", "kqueues", 1, FALSE), Rs("l", "memlock", 1024, FALSE), Rs("m", "rss", 1024, FALSE),
    Rs("n", "nofile", 1, TRUE), Rs("q", "msgqueue", 1, FALSE), Rs("R", "rttime", 1, FALSE),
    Rs("r", "rtprio", 1, FALSE), Rs("s", "stack", 1024, TRUE), Rs("t", "cpu", 1, TRUE),
    Rs("u", "nproc", 1, FALSE), Rs("v", "as", 1024, TRUE), Rs("w", "swap", 1024, FALSE),
    Rs("x", "locks", 1, FALSE)>>
Resources == {ResTable[i].o : i \in 1..Len(ResTable)}
ResOf(o) == ResTable[CHOOSE i \in 1..Len(ResTable) : ResTable[i].o = o]
Scale(o) == ResOf(o).scale
PosixRes == {o \in Resources : ResOf(o).posix}

UlimitLetters == Resources \cup {"H", "S", "a"}
UlimitLongs ==
  [n \in {ResTable[i].long : i \in 1..Len(ResTable)} \cup {"hard", "soft", "all"} |->
     CASE n = "hard" -> "H" [] n = "soft" -> "S" [] n = "all" -> "a"
       [] OTHER -> ResTable[CHOOSE i \in 1..Len(ResTable) : ResTable[i].long = n].o]

(***************************************************************************)
(* The state.                                                              *)
(***************************************************************************)
NoLimits == [r \in Resources |-> <<Inf, Inf>>]
MkState(rlim, mask) == [rlim |-> rlim, umask |-> mask, portable |-> FALSE, tprev |-> <<>>]
Soft(S, r) == S.rlim[r][1]
Hard(S, r) == S.rlim[r][2]

WellFormedState(S) ==
  /\ \A r \in Resources : IsLimit(Soft(S, r)) /\ IsLimit(Hard(S, r)) /\ LimLE(Soft(S, r), Hard(S, r))
  /\ S.umask \in 0..511

(***************************************************************************)
(* SYSTEM CALLS (XSH).  A call result is [err, val, S]: err = "" or the    *)
(* name of an errno value; a call has a SET of allowed results.            *)
(***************************************************************************)
CallRes(err, val, S) == [err |-> err, val |-> val, S |-> S]

\* getrlimit: "shall return the current soft and hard limits"; EINVAL for an
\* invalid (here: unsupported) resource
SysGetrlimit(P, S, r) ==
  IF r \notin P.sup THEN {CallRes("EINVAL", <<>>, S)} ELSE {CallRes("", S.rlim[r], S)}

\* setrlimit: EINVAL "the new rlim_cur exceeds the new rlim_max" or invalid
\* resource; EPERM "the limit specified would have raised the maximum limit
\* value and the caller does not have appropriate privileges"; a process may
\* lower its hard limit (irreversibly if unprivileged) and move its soft limit
\* anywhere up to the hard limit.  When both errors apply either is allowed.
Raises(S, r, hard) == ~LimLE(hard, Hard(S, r))
RaiseRefused(P, S, r, hard) == Raises(S, r, hard) /\ (~P.priv \/ ~LimLE(hard, P.ceil[r]))
SysSetrlimit(P, S, r, soft, hard) ==
  IF r \notin P.sup THEN {CallRes("EINVAL", <<>>, S)}
  ELSE LET e1 == IF ~LimLE(soft, hard) THEN {"EINVAL"} ELSE {}
           e2 == IF RaiseRefused(P, S, r, hard) THEN {"EPERM"} ELSE {}
       IN IF e1 \cup e2 # {} THEN {CallRes(e, <<>>, S) : e \in e1 \cup e2}
          ELSE {CallRes("", <<>>, [S EXCEPT !.rlim[r] = <<soft, hard>>])}

\* umask: "sets the file mode creation mask to cmask & 0777 and returns the
\* previous value"; only the file permission bits are modelled
SysUmask(S, m) == {CallRes("", S.umask, [S EXCEPT !.umask = m % 512])}

(***************************************************************************)
(* UTILITY SYNTAX (XBD 12.2) for built-ins whose options take no option-   *)
(* argument: `--` ends the options, the first operand ends them, letters   *)
(* may be grouped; the manual adds long options `--name`.  Abbreviated     *)
(* long options (C20's subject) and option-like arguments after the first  *)
(* operand are not judged.                                                 *)
(***************************************************************************)
Occ(l, long, grp) == [l |-> l, long |-> long, grp |-> grp]
Parsed(err, unspec, opts, ops) == [err |-> err, unspec |-> unspec, opts |-> opts, ops |-> ops]

RECURSIVE ParseArgsFrom(_, _, _, _, _)
ParseArgsFrom(args, i, Letters, Longs, acc) ==
  IF i > Len(args) THEN Parsed(FALSE, FALSE, acc, <<>>)
  ELSE LET a == args[i] IN
    IF a = "--" THEN Parsed(FALSE, FALSE, acc, SubSeq(args, i + 1, Len(args)))
    ELSE IF StartsWith(a, "--") THEN
      LET n == SubSeq(a, 3, Len(a)) IN
      IF n \in DOMAIN Longs THEN ParseArgsFrom(args, i + 1, Letters, Longs, Append(acc, Occ(Longs[n], TRUE, FALSE)))
      ELSE IF \E m \in DOMAIN Longs : StartsWith(m, n) THEN Parsed(FALSE, TRUE, acc, <<>>)
      ELSE Parsed(TRUE, FALSE, acc, <<>>)
    ELSE IF Len(a) >= 2 /\ StartsWith(a, "-") THEN
      LET ls == [j \in 1..(Len(a) - 1) |-> SubSeq(a, j + 1, j + 1)] IN
      IF \A j \in 1..Len(ls) : ls[j] \in Letters
      THEN ParseArgsFrom(args, i + 1, Letters, Longs, acc \o [j \in 1..Len(ls) |-> Occ(ls[j], FALSE, Len(ls) > 1)])
      ELSE Parsed(TRUE, FALSE, acc, <<>>)
    ELSE LET ops == SubSeq(args, i, Len(args)) IN
         Parsed(FALSE, \E j \in 2..Len(ops) : Len(ops[j]) >= 2 /\ StartsWith(ops[j], "-"), acc, ops)
ParseArgs(args, Letters, Longs) == ParseArgsFrom(args, 1, Letters, Longs, <<>>)

(***************************************************************************)
(* OUTCOMES of a built-in: exit status class (0 / 1 = non-zero), what is   *)
(* written to standard output (abstractly: `fmt`), the successor state.    *)
(* An error writes a diagnostic to standard error, nothing to standard     *)
(* output, and changes nothing.                                            *)
(***************************************************************************)
Fmt(k, t, m, rows) == [k |-> k, t |-> t, m |-> m, rows |-> rows]
FNone == Fmt("none", "", 0, {})
FText(t) == Fmt("text", t, 0, {})
FOctal(m) == Fmt("octal", "", m, {})
FSym(m) == Fmt("sym", "", m, {})
FTable(rows) == Fmt("table", "", 0, rows)
FTimes == Fmt("times", "", 0, {})

Out(st, fmt, S, unspec) == [st |-> st, fmt |-> fmt, S |-> S, unspec |-> unspec]
Ok(fmt, S) == {Out(0, fmt, S, FALSE)}
Fail(S) == {Out(1, FNone, S, FALSE)}
Unspec(S) == {Out(0, FNone, S, TRUE)}

(***************************************************************************)
(* ULIMIT (XCU ulimit; manual).                                            *)
(***************************************************************************)
\* the value printed for a limit: `unlimited` or the number of units; the
\* rounding of a value that is not a whole number of units is not specified
\* ("?" matches anything)
Display(r, v) ==
  IF v = Inf THEN "unlimited"
  ELSE LET x == DDiv(DigitsOf(v), Scale(r)) IN IF x.r = 0 THEN DStr(x.q) ELSE "?"

\* the new raw value named by the operand: [k, v] with k in ok / bad / unspec
NewLimit(P, S, r, w) ==
  CASE w = "unlimited" -> [k |-> "ok", v |-> Inf]
    [] w = "hard" -> [k |-> "ok", v |-> Hard(S, r)]
    [] w = "soft" -> [k |-> "ok", v |-> Soft(S, r)]
    [] OTHER ->
       IF AllDigits(w) THEN
         IF ~Canonical(w) THEN [k |-> "unspec", v |-> ""]   \* 010: decimal or octal?
         ELSE LET raw == DMulAdd(DigitsOf(w), Scale(r), 0)
                  c == DCmp(raw, DigitsOf(P.inf))
              IN IF c > 0 THEN [k |-> "bad", v |-> ""]       \* does not fit rlim_t: out of range
                 ELSE IF c = 0 THEN [k |-> "unspec", v |-> ""]  \* the numeral of RLIM_INFINITY itself
                 ELSE [k |-> "ok", v |-> DStr(raw)]
       ELSE IF Len(w) >= 2 /\ SubSeq(w, 1, 1) = "+" /\ AllDigits(SubSeq(w, 2, Len(w))) THEN [k |-> "unspec", v |-> ""]
       ELSE [k |-> "bad", v |-> ""]

UlimitSet(P, S, r, H, Sf, w) ==
  LET n == NewLimit(P, S, r, w) IN
  IF n.k = "unspec" THEN Unspec(S)
  ELSE IF n.k = "bad" THEN Fail(S)
  ELSE LET soft == IF H /\ ~Sf THEN Soft(S, r) ELSE n.v
           hard == IF Sf /\ ~H THEN Hard(S, r) ELSE n.v
       IN IF ~LimLE(soft, hard) THEN Fail(S)                   \* soft limit above the hard limit
          ELSE IF RaiseRefused(P, S, r, hard) THEN Fail(S)     \* raising the hard limit without privilege
          ELSE Ok(FNone, [S EXCEPT !.rlim[r] = <<soft, hard>>])

Ulimit(P, S, args) ==
  LET pa == ParseArgs(args, UlimitLetters, UlimitLongs) IN
  IF pa.unspec THEN Unspec(S)
  ELSE IF pa.err THEN Fail(S)
  ELSE
    LET ls == [i \in 1..Len(pa.opts) |-> pa.opts[i].l]
        H == "H" \in RangeOf(ls)
        Sf == "S" \in RangeOf(ls)
        res == RangeOf(ls) \ {"H", "S"}
        \* (manual, Compatibility) with the portable option: no long options,
        \* no grouping, no extension resources, no repetition of an option
        \* other than -H / -S, not both -H and -S
        portableError ==
          S.portable /\ (\/ \E i \in 1..Len(pa.opts) : pa.opts[i].long \/ pa.opts[i].grp
                         \/ res \ (PosixRes \cup {"a"}) # {}
                         \/ \E i, j \in 1..Len(ls) : i < j /\ ls[i] = ls[j] /\ ls[i] \notin {"H", "S"}
                         \/ (H /\ Sf))
    IN IF portableError THEN Fail(S)
       ELSE IF Cardinality(res) > 1 THEN Fail(S)               \* more than one resource option
       ELSE LET r == IF res = {} THEN "f" ELSE CHOOSE x \in res : TRUE IN
         IF r = "a" THEN
           IF pa.ops # <<>> \/ (H /\ Sf) THEN Fail(S)
           ELSE Ok(FTable({<<x, Display(x, IF H THEN Hard(S, x) ELSE Soft(S, x))>> : x \in P.sup}), S)
         ELSE IF Len(pa.ops) > 1 THEN Fail(S)
         ELSE IF r \notin P.sup THEN Fail(S)                   \* unsupported on this platform
         ELSE IF pa.ops = <<>> THEN
           IF H /\ Sf THEN Fail(S)
           ELSE LET d == Display(r, IF H THEN Hard(S, r) ELSE Soft(S, r)) IN
                IF d = "?" THEN Unspec(S) ELSE Ok(FText(d \o "\n"), S)
         ELSE UlimitSet(P, S, r, H, Sf, pa.ops[1])

(***************************************************************************)
(* UMASK (XCU umask, chmod EXTENDED DESCRIPTION; manual).  Permissions are *)
(* sets of bit positions 0..8: position b has the value 2^b, b % 3 is      *)
(* 0 = x, 1 = w, 2 = r, b \div 3 is 0 = other, 1 = group, 2 = user.  The   *)
(* symbolic mode works on the permissions the mask leaves ON.              *)
(***************************************************************************)
Bits == 0..8
RECURSIVE Pow2(_)
Pow2(n) == IF n = 0 THEN 1 ELSE 2 * Pow2(n - 1)
PermsOf(m) == {b \in Bits : (m \div Pow2(b)) % 2 = 0}
RECURSIVE SumPow(_)
SumPow(X) == IF X = {} THEN 0 ELSE LET b == CHOOSE b \in X : TRUE IN Pow2(b) + SumPow(X \ {b})
MaskOf(perms) == SumPow(Bits \ perms)

WhoBits(c) == CASE c = "u" -> {6, 7, 8} [] c = "g" -> {3, 4, 5} [] c = "o" -> {0, 1, 2} [] c = "a" -> Bits
ClassBits(k) == {b \in Bits : b % 3 = k}

\* symbolic_mode : clause (',' clause)*      clause : who* action+
\* action : op permlist? | op permcopy       op : + - =
\* permlist : (r|w|x|X|s|t)+                 permcopy : u | g | o
WhoChars == {"u", "g", "o", "a"}
OpChars == {"+", "-", "="}
PermChars == {"r", "w", "x", "X", "s", "t", "u", "g", "o"}

RECURSIVE ParseActs(_, _, _)
ParseActs(cs, i, acc) ==
  IF i > Len(cs) \/ cs[i] \notin OpChars THEN [ok |-> acc # <<>>, acts |-> acc, next |-> i]
  ELSE LET j == SkipWhile(cs, i + 1, PermChars)
           run == SubSeq(cs, i + 1, j - 1)
       IN IF RangeOf(run) \cap {"u", "g", "o"} # {} /\ Len(run) > 1 THEN [ok |-> FALSE, acts |-> acc, next |-> i]
          ELSE ParseActs(cs, j, Append(acc, [op |-> cs[i], perms |-> run]))

RECURSIVE ParseClauses(_, _, _)
ParseClauses(cs, i, acc) ==
  LET j == SkipWhile(cs, i, WhoChars)
      A == ParseActs(cs, j, <<>>)
      cl == [who |-> SubSeq(cs, i, j - 1), acts |-> A.acts]
  IN IF ~A.ok THEN [ok |-> FALSE, clauses |-> <<>>]
     ELSE IF A.next > Len(cs) THEN [ok |-> TRUE, clauses |-> Append(acc, cl)]
     ELSE IF cs[A.next] = "," THEN ParseClauses(cs, A.next + 1, Append(acc, cl))
     ELSE [ok |-> FALSE, clauses |-> <<>>]
ParseMode(text) == ParseClauses(Chars(text), 1, <<>>)

\* the who of a clause; none = all (manual; for the umask utility the mask
\* itself does not restrict them)
WhoOf(who) == IF who = <<>> THEN Bits ELSE UNION {WhoBits(who[i]) : i \in 1..Len(who)}

\* The permissions named by a permlist / permcopy.  `cur`: the permissions as
\* the previous actions left them; `xref`: the permissions that decide X
\* ("if the current (unmodified) file mode bits have at least one of the
\* execute bits set").  s: ignored (manual).
PermOfChar(c, xref) ==
  CASE c = "r" -> ClassBits(2) [] c = "w" -> ClassBits(1) [] c = "x" -> ClassBits(0)
    [] c = "X" -> (IF xref \cap ClassBits(0) # {} THEN ClassBits(0) ELSE {})
    [] OTHER -> {}
NamedPerms(run, cur, xref) ==
  IF run = <<"u">> THEN {b \in Bits : (b % 3) + 6 \in cur}
  ELSE IF run = <<"g">> THEN {b \in Bits : (b % 3) + 3 \in cur}
  ELSE IF run = <<"o">> THEN {b \in Bits : (b % 3) \in cur}
  ELSE UNION {PermOfChar(run[i], xref) : i \in 1..Len(run)}

ApplyAct(cur, who, a, xref) ==
  LET eff == NamedPerms(a.perms, cur, xref) \cap who IN
  CASE a.op = "+" -> cur \cup eff
    [] a.op = "-" -> cur \ eff
    [] a.op = "=" -> (cur \ who) \cup eff

\* actions left to right within a clause, clauses left to right; xmode says
\* which reading of "current (unmodified)" decides X: "orig" = the permissions
\* before the whole operand, "cur" = as the previous actions left them
RECURSIVE ApplyActs(_, _, _, _, _, _)
ApplyActs(cur, who, acts, i, orig, xmode) ==
  IF i > Len(acts) THEN cur
  ELSE ApplyActs(ApplyAct(cur, who, acts[i], IF xmode = "orig" THEN orig ELSE cur), who, acts, i + 1, orig, xmode)
RECURSIVE ApplyClauses(_, _, _, _, _)
ApplyClauses(cur, cls, i, orig, xmode) ==
  IF i > Len(cls) THEN cur
  ELSE ApplyClauses(ApplyActs(cur, WhoOf(cls[i].who), cls[i].acts, 1, orig, xmode), cls, i + 1, orig, xmode)
SymbolicMask(mask, cls, xmode) == MaskOf(ApplyClauses(PermsOf(mask), cls, 1, PermsOf(mask), xmode))

HasPerm(cls, c) == \E i \in 1..Len(cls) : \E j \in 1..Len(cls[i].acts) : c \in RangeOf(cls[i].acts[j].perms)

RECURSIVE OctalVal(_)
OctalVal(cs) == IF cs = <<>> THEN 0 ELSE (OctalVal(SubSeq(cs, 1, Len(cs) - 1)) * 8) + DigitVal(cs[Len(cs)])

\* the set of masks a mode operand may produce: {} = invalid, "unspec" = not judged
NewMasks(mask, text) ==
  LET cs == Chars(text) IN
  IF cs = <<>> THEN [k |-> "bad", ms |-> {}]
  ELSE IF cs[1] \in DigitSet THEN
    IF RangeOf(cs) \subseteq OctalSet THEN
      \* bits other than the file permission bits: unspecified
      IF Len(cs) <= 9 /\ OctalVal(cs) <= 511 THEN [k |-> "ok", ms |-> {OctalVal(cs)}] ELSE [k |-> "unspec", ms |-> {}]
    ELSE [k |-> "bad", ms |-> {}]
  ELSE LET p == ParseClauses(cs, 1, <<>>) IN
    IF ~p.ok THEN [k |-> "bad", ms |-> {}]
    ELSE IF HasPerm(p.clauses, "t") THEN [k |-> "unspec", ms |-> {}]   \* t: not in the manual
    ELSE [k |-> "ok", ms |-> {SymbolicMask(mask, p.clauses, "orig"), SymbolicMask(mask, p.clauses, "cur")}]

UmaskLetters == {"S"}
UmaskLongs == [n \in {"symbolic"} |-> "S"]

Umask(P, S, args) ==
  LET pa == ParseArgs(args, UmaskLetters, UmaskLongs) IN
  IF pa.unspec \/ (S.portable /\ \E i \in 1..Len(pa.opts) : pa.opts[i].long) THEN Unspec(S)
  ELSE IF pa.err THEN
    \* a mode starting with - "may be confused as an option" (manual)
    (IF Len(args) = 1 /\ ParseMode(args[1]).ok THEN Unspec(S) ELSE Fail(S))
  ELSE IF pa.ops = <<>> THEN Ok(IF pa.opts # <<>> THEN FSym(S.umask) ELSE FOctal(S.umask), S)
  ELSE IF Len(pa.ops) > 1 THEN Fail(S)
  ELSE LET n == NewMasks(S.umask, pa.ops[1]) IN        \* -S is ignored when a mode is given (manual)
       IF n.k = "unspec" THEN Unspec(S)
       ELSE IF n.k = "bad" THEN Fail(S)
       ELSE {Out(0, FNone, [S EXCEPT !.umask = m], FALSE) : m \in n.ms}

(***************************************************************************)
(* TIMES (XCU times; manual): no options, no operands; two lines           *)
(* "%dm%fs %dm%fs\n" with six digits after the decimal point.              *)
(***************************************************************************)
Times(P, S, args) == IF args # <<>> /\ args # <<"--">> THEN Fail(S) ELSE Ok(FTimes, S)

FormatTime(t) == NatStr(t[1]) \o "m" \o NatStr(t[2]) \o "." \o Pad(NatStr(t[3]), 6) \o "s"
FormatTimes(ts) ==
  FormatTime(ts[1]) \o " " \o FormatTime(ts[2]) \o "\n" \o FormatTime(ts[3]) \o " " \o FormatTime(ts[4]) \o "\n"

\* "12m3.456789s" -> [ok, m (digit sequence), s, us (digit sequences)]
ParseTime(cs) ==
  LET i == SkipWhile(cs, 1, DigitSet)
      j == SkipWhile(cs, i + 1, DigitSet)
      k == SkipWhile(cs, j + 1, DigitSet)
      ok == /\ i > 1 /\ i <= Len(cs) /\ cs[i] = "m"
            /\ j > i + 1 /\ j <= Len(cs) /\ cs[j] = "."
            /\ k = j + 7 /\ k = Len(cs) /\ cs[k] = "s"
  IN IF ~ok THEN [ok |-> FALSE, v |-> <<>>]
     ELSE LET sec == DStrip([x \in 1..(j - i - 1) |-> DigitVal(cs[i + x])]) IN
          \* minutes, seconds below 60, microseconds: one comparable digit sequence
          [ok |-> DCmp(sec, <<6, 0>>) < 0,
           v |-> DStrip([x \in 1..(i - 1) |-> DigitVal(cs[x])] \o (IF Len(sec) = 1 THEN <<0>> \o sec ELSE sec)
                        \o [x \in 1..6 |-> DigitVal(cs[j + x])])]

\* the whole output -> [ok, v: four comparable values]
ParseTimes(text) ==
  LET lines == Split(Chars(text), "\n") IN
  IF Len(lines) # 3 \/ lines[3] # <<>> THEN [ok |-> FALSE, v |-> <<>>]
  ELSE LET a == Split(lines[1], " ") b == Split(lines[2], " ") IN
    IF Len(a) # 2 \/ Len(b) # 2 THEN [ok |-> FALSE, v |-> <<>>]
    ELSE LET t == <<ParseTime(a[1]), ParseTime(a[2]), ParseTime(b[1]), ParseTime(b[2])>> IN
         [ok |-> \A i \in 1..4 : t[i].ok, v |-> [i \in 1..4 |-> t[i].v]]

(***************************************************************************)
(* The portable option (manual: ulimit, Compatibility).                    *)
(***************************************************************************)
SetOpt(S, args) ==
  IF args = <<"-o", "portable">> THEN Ok(FNone, [S EXCEPT !.portable = TRUE])
  ELSE IF args = <<"+o", "portable">> THEN Ok(FNone, [S EXCEPT !.portable = FALSE])
  ELSE Unspec(S)

(***************************************************************************)
(* One command = <<name, arg, ...>>.                                       *)
(***************************************************************************)
Outcomes(P, S, cmd) ==
  LET args == Tail(cmd) IN
  CASE cmd[1] = "ulimit" -> Ulimit(P, S, args)
    [] cmd[1] = "umask" -> Umask(P, S, args)
    [] cmd[1] = "times" -> Times(P, S, args)
    [] cmd[1] = "set" -> SetOpt(S, args)
    [] OTHER -> Unspec(S)

\* system calls as commands: <<"getrlimit", r>>, <<"setrlimit", r, soft, hard>>,
\* <<"sys_umask", octal text>>, <<"sys_getumask">>; the value is rendered as text
Calls(P, S, cmd) ==
  CASE cmd[1] = "getrlimit" -> SysGetrlimit(P, S, cmd[2])
    [] cmd[1] = "setrlimit" -> SysSetrlimit(P, S, cmd[2], cmd[3], cmd[4])
    [] cmd[1] = "sys_umask" -> SysUmask(S, OctalVal(Chars(cmd[2])))
    [] cmd[1] = "sys_getumask" -> {CallRes("", S.umask, S)}      \* umask(0), then umask(the value returned)
(***************************************************************************)
(* RENDERING AND MATCHING of standard output.  Canon gives one text the    *)
(* specification certainly allows ("?" where no single text is            *)
(* prescribed); Matches is the definition of what is allowed.              *)
(***************************************************************************)
OctalText(m) == NatStr(m \div 64) \o NatStr((m \div 8) % 8) \o NatStr(m % 8)
SymPart(perms, base) ==
  (IF base + 2 \in perms THEN "r" ELSE "") \o (IF base + 1 \in perms THEN "w" ELSE "") \o (IF base \in perms THEN "x" ELSE "")
SymText(m) ==
  LET p == PermsOf(m) IN "u=" \o SymPart(p, 6) \o ",g=" \o SymPart(p, 3) \o ",o=" \o SymPart(p, 0)

CallText(cmd, res) ==
  IF res.err # "" THEN res.err
  ELSE CASE cmd[1] = "getrlimit" -> res.val[1] \o " " \o res.val[2]
         [] cmd[1] = "setrlimit" -> "ok"
         [] cmd[1] \in {"sys_umask", "sys_getumask"} -> OctalText(res.val)

Canon(P, fmt) ==
  CASE fmt.k = "none" -> ""
    [] fmt.k = "text" -> fmt.t
    [] fmt.k = "octal" -> OctalText(fmt.m) \o "\n"
    [] fmt.k = "sym" -> SymText(fmt.m) \o "\n"
    [] fmt.k = "table" -> "?"
    [] fmt.k = "times" -> IF P.times = <<>> THEN "?" ELSE FormatTimes(P.times)

\* one line without its newline, or <<FALSE>> if the text does not end in a newline
BodyOf(text) ==
  LET cs == Chars(text) IN
  IF cs # <<>> /\ cs[Len(cs)] = "\n" THEN [ok |-> TRUE, cs |-> SubSeq(cs, 1, Len(cs) - 1)] ELSE [ok |-> FALSE, cs |-> <<>>]

\* octal: POSIX leaves the format open but "the output can be reused as mode"
MatchOctal(m, text) ==
  LET b == BodyOf(text) IN
  b.ok /\ b.cs # <<>> /\ Len(b.cs) <= 9 /\ RangeOf(b.cs) \subseteq OctalSet /\ OctalVal(b.cs) = m

\* -S: "u=%s,g=%s,o=%s\n", each %s the letters r, w, x of the permissions left on
RwxIndex(c) == CASE c = "r" -> 2 [] c = "w" -> 1 [] OTHER -> 0
MatchSym(m, text) ==
  LET b == BodyOf(text)
      parts == Split(b.cs, ",")
      pre == <<"u", "g", "o">>
      okPart(i) == LET q == parts[i] IN
                   /\ Len(q) >= 2 /\ q[1] = pre[i] /\ q[2] = "="
                   /\ \A x \in 3..Len(q) : q[x] \in {"r", "w", "x"}
                   /\ \A x, y \in 3..Len(q) : x # y => q[x] # q[y]
      permsOf(i) == LET q == parts[i] IN
                    {((3 - i) * 3) + RwxIndex(q[x]) : x \in 3..Len(q)}
  IN /\ b.ok /\ Len(parts) = 3 /\ \A i \in 1..3 : okPart(i)
     /\ UNION {permsOf(i) : i \in 1..3} = PermsOf(m)

\* -a: one line per supported resource with the option (-x or -x:) first and
\* the value last; in between a description (the format is implementation-
\* defined and subject to change)
Tokens(cs) == LET ps == Split(cs, " ") IN SelectSeq(ps, LAMBDA p : p # <<>>)
RowOf(line) ==
  LET ts == Tokens(line) IN
  IF Len(ts) < 2 THEN <<"", "">>
  ELSE LET f == ts[1]
           l == IF Len(f) = 3 /\ f[1] = "-" /\ f[3] = ":" THEN f[2] ELSE IF Len(f) = 2 /\ f[1] = "-" THEN f[2] ELSE ""
       IN <<l, Concat(ts[Len(ts)])>>
MatchTable(rows, text) ==
  LET b == BodyOf(text)
      lines == Split(b.cs, "\n")
      got == {RowOf(lines[i]) : i \in 1..Len(lines)}
  IN /\ b.ok /\ Len(lines) = Cardinality(rows) /\ Cardinality(got) = Len(lines)
     /\ \A g \in got : \E r \in rows : g[1] = r[1] /\ (r[2] = "?" \/ g[2] = r[2])

LE4(a, b) == \A i \in 1..4 : DCmp(a[i], b[i]) <= 0
MatchTimes(P, S, text) ==
  IF P.times # <<>> THEN text = FormatTimes(P.times)
  ELSE LET t == ParseTimes(text) IN t.ok /\ (S.tprev = <<>> \/ LE4(S.tprev, t.v))

Matches(P, S, fmt, text) ==
  CASE fmt.k = "none" -> text = ""
    [] fmt.k = "text" -> text = fmt.t
    [] fmt.k = "octal" -> MatchOctal(fmt.m, text)
    [] fmt.k = "sym" -> MatchSym(fmt.m, text)
    [] fmt.k = "table" -> MatchTable(fmt.rows, text)
    [] fmt.k = "times" -> MatchTimes(P, S, text)

(***************************************************************************)
(* THE JUDGE.  obs = [st (exit status), out (standard output), err         *)
(* (whether anything was written to standard error)].  After(..) is the    *)
(* set of states the specification may be in after the observed command:   *)
(* empty = the observation is not allowed.                                 *)
(***************************************************************************)
IsUnspec(P, S, cmd) == \E o \in Outcomes(P, S, cmd) : o.unspec

After(P, S, cmd, obs) ==
  {IF o.fmt.k = "times" /\ P.times = <<>> THEN [o.S EXCEPT !.tprev = ParseTimes(obs.out).v] ELSE o.S :
     o \in {o \in Outcomes(P, S, cmd) :
              /\ ~o.unspec
              /\ (o.st = 0) = (obs.st = 0)
              /\ (o.st = 0) = ~obs.err
              /\ Matches(P, S, o.fmt, obs.out)}}

AfterCall(P, S, cmd, text) == {r.S : r \in {r \in Calls(P, S, cmd) : CallText(cmd, r) = text}}
=============================================================================
