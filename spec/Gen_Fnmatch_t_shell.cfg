INIT Init
NEXT Next
VIEW view
CONSTANTS
  PNorm <- AlphaWild
  PLit <- LitCore
  PMacro <- ShellMacros
  PLen = 3
  SAlpha <- StrSmall
  SLen = 3
  Kind = "shell"
INVARIANT Emit
