INIT Init
NEXT Next
VIEW view
CONSTANTS
  PNorm <- AlphaWild
  PLit <- LitCore
  PMacro <- NoChars
  PLen = 3
  SAlpha <- StrSmall
  SLen = 3
  Kind = "shell"
INVARIANT Emit
