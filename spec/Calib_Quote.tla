----------------------------- MODULE Calib_Quote -----------------------------
(***************************************************************************)
(* Calibration of the reader of Quote.tla (DESIGN.md 4.4): worked examples *)
(* transcribed from the manual (docs/src/language/words/*.md) and from the  *)
(* POSIX conformance cases yash-cli/tests/scripted_test/quote-p.sh.  Each   *)
(* ASSUME gives the text written after the command name and the fields the  *)
(* command receives.  A failing ASSUME is a tool error, never a violation.  *)
(* The comment above each ASSUME shows the source and the text.             *)
(***************************************************************************)
EXTENDS Quote

\* quoting.md 'Single quotes': echo '"$foo"'
\*   text:   '\'"$foo"\''
\*   fields: ['"$foo"']
ASSUME LET r == Read("arg", <<39, 34, 36, 102, 111, 111, 34, 39>>) IN r.ok /\ r.f = <<<<34, 36, 102, 111, 111, 34>>>>

\* quoting.md 'Single quotes': newline inside single quotes
\*   text:   "'foo\nbar'"
\*   fields: ['foo\nbar']
ASSUME LET r == Read("arg", <<39, 102, 111, 111, 10, 98, 97, 114, 39>>) IN r.ok /\ r.f = <<<<102, 111, 111, 10, 98, 97, 114>>>>

\* quoting.md 'Single quotes': echo "'"
\*   text:   '"\'"'
\*   fields: ["'"]
ASSUME LET r == Read("arg", <<34, 39, 34>>) IN r.ok /\ r.f = <<<<39>>>>

\* quoting.md 'Single quotes': echo \'
\*   text:   "\\'"
\*   fields: ["'"]
ASSUME LET r == Read("arg", <<92, 39>>) IN r.ok /\ r.f = <<<<39>>>>

\* quoting.md 'Backslash': cat My\ Diary.txt
\*   text:   'My\\ Diary.txt'
\*   fields: ['My Diary.txt']
ASSUME LET r == Read("arg", <<77, 121, 92, 32, 68, 105, 97, 114, 121, 46, 116, 120, 116>>) IN r.ok /\ r.f = <<<<77, 121, 32, 68, 105, 97, 114, 121, 46, 116, 120, 116>>>>

\* quoting.md 'Backslash': "My\ Diary\$.txt" is the file My\ Diary$.txt
\*   text:   '"My\\ Diary\\$.txt"'
\*   fields: ['My\\ Diary$.txt']
ASSUME LET r == Read("arg", <<34, 77, 121, 92, 32, 68, 105, 97, 114, 121, 92, 36, 46, 116, 120, 116, 34>>) IN r.ok /\ r.f = <<<<77, 121, 92, 32, 68, 105, 97, 114, 121, 36, 46, 116, 120, 116>>>>

\* quoting.md 'Line continuation' inside double quotes
\*   text:   '"This is a long command that \\\ncontinues on the next line"'
\*   fields: ['This is a long command that continues on the next line']
ASSUME LET r == Read("arg", <<34, 84, 104, 105, 115, 32, 105, 115, 32, 97, 32, 108, 111, 110, 103, 32, 99, 111, 109, 109, 97, 110, 100, 32, 116, 104, 97, 116, 32, 92, 10, 99, 111, 110, 116, 105, 110, 117, 101, 115, 32, 111, 110, 32, 116, 104, 101, 32, 110, 101, 120, 116, 32, 108, 105, 110, 101, 34>>) IN r.ok /\ r.f = <<<<84, 104, 105, 115, 32, 105, 115, 32, 97, 32, 108, 111, 110, 103, 32, 99, 111, 109, 109, 97, 110, 100, 32, 116, 104, 97, 116, 32, 99, 111, 110, 116, 105, 110, 117, 101, 115, 32, 111, 110, 32, 116, 104, 101, 32, 110, 101, 120, 116, 32, 108, 105, 110, 101>>>>

\* comments.md: echo "Hello, world!"# This is not a comment
\*   text:   '"Hello, world!"# This is not a comment'
\*   fields: ['Hello, world!#', 'This', 'is', 'not', 'a', 'comment']
ASSUME LET r == Read("arg", <<34, 72, 101, 108, 108, 111, 44, 32, 119, 111, 114, 108, 100, 33, 34, 35, 32, 84, 104, 105, 115, 32, 105, 115, 32, 110, 111, 116, 32, 97, 32, 99, 111, 109, 109, 101, 110, 116>>) IN r.ok /\ r.f = <<<<72, 101, 108, 108, 111, 44, 32, 119, 111, 114, 108, 100, 33, 35>>, <<84, 104, 105, 115>>, <<105, 115>>, <<110, 111, 116>>, <<97>>, <<99, 111, 109, 109, 101, 110, 116>>>>

\* comments.md: echo "Hello, world!"  # This prints a message
\*   text:   '"Hello, world!"  # This prints a message'
\*   fields: ['Hello, world!']
ASSUME LET r == Read("arg", <<34, 72, 101, 108, 108, 111, 44, 32, 119, 111, 114, 108, 100, 33, 34, 32, 32, 35, 32, 84, 104, 105, 115, 32, 112, 114, 105, 110, 116, 115, 32, 97, 32, 109, 101, 115, 115, 97, 103, 101>>) IN r.ok /\ r.f = <<<<72, 101, 108, 108, 111, 44, 32, 119, 111, 114, 108, 100, 33>>>>

\* quote-p.sh:8 backslash (not preceding newline), line 1
\*   text:   '\\ \\!\\$x\\%\\&\\(\\)\\*\\+\\,\\-\\.\\/ \\# \\"x\\" \\\'x\\\''
\*   fields: [' !$x%&()*+,-./', '#', '"x"', "'x'"]
ASSUME LET r == Read("arg", <<92, 32, 92, 33, 92, 36, 120, 92, 37, 92, 38, 92, 40, 92, 41, 92, 42, 92, 43, 92, 44, 92, 45, 92, 46, 92, 47, 32, 92, 35, 32, 92, 34, 120, 92, 34, 32, 92, 39, 120, 92, 39>>) IN r.ok /\ r.f = <<<<32, 33, 36, 120, 37, 38, 40, 41, 42, 43, 44, 45, 46, 47>>, <<35>>, <<34, 120, 34>>, <<39, 120, 39>>>>

\* quote-p.sh:9 line 2
\*   text:   '\\0\\1\\2\\3\\4\\5\\6\\7\\8\\9\\:\\;\\<\\=\\>\\?'
\*   fields: ['0123456789:;<=>?']
ASSUME LET r == Read("arg", <<92, 48, 92, 49, 92, 50, 92, 51, 92, 52, 92, 53, 92, 54, 92, 55, 92, 56, 92, 57, 92, 58, 92, 59, 92, 60, 92, 61, 92, 62, 92, 63>>) IN r.ok /\ r.f = <<<<48, 49, 50, 51, 52, 53, 54, 55, 56, 57, 58, 59, 60, 61, 62, 63>>>>

\* quote-p.sh:10 line 3 (tail)
\*   text:   '\\@\\A\\B\\C\\[\\]\\^\\_ \\\\ \\\\\\\\'
\*   fields: ['@ABC[]^_', '\\', '\\\\']
ASSUME LET r == Read("arg", <<92, 64, 92, 65, 92, 66, 92, 67, 92, 91, 92, 93, 92, 94, 92, 95, 32, 92, 92, 32, 92, 92, 92, 92>>) IN r.ok /\ r.f = <<<<64, 65, 66, 67, 91, 93, 94, 95>>, <<92>>, <<92, 92>>>>

\* quote-p.sh:11 line 4 (tail)
\*   text:   '\\x\\y\\z\\{\\|\\}\\~ \\`\\`'
\*   fields: ['xyz{|}~', '``']
ASSUME LET r == Read("arg", <<92, 120, 92, 121, 92, 122, 92, 123, 92, 124, 92, 125, 92, 126, 32, 92, 96, 92, 96>>) IN r.ok /\ r.f = <<<<120, 121, 122, 123, 124, 125, 126>>, <<96, 96>>>>

\* quote-p.sh:20 line continuation in normal word
\*   text:   '123\\\n456\\\n\\\n789 \\\nABC\\\n DEF'
\*   fields: ['123456789', 'ABC', 'DEF']
ASSUME LET r == Read("arg", <<49, 50, 51, 92, 10, 52, 53, 54, 92, 10, 92, 10, 55, 56, 57, 32, 92, 10, 65, 66, 67, 92, 10, 32, 68, 69, 70>>) IN r.ok /\ r.f = <<<<49, 50, 51, 52, 53, 54, 55, 56, 57>>, <<65, 66, 67>>, <<68, 69, 70>>>>

\* quote-p.sh:389 single quotes
\*   text:   '\'abc\' \'"a"\' \'a\\\\b\' \'a\'\'\'\'\'\'b\''
\*   fields: ['abc', '"a"', 'a\\\\b', 'ab']
ASSUME LET r == Read("arg", <<39, 97, 98, 99, 39, 32, 39, 34, 97, 34, 39, 32, 39, 97, 92, 92, 98, 39, 32, 39, 97, 39, 39, 39, 39, 39, 39, 98, 39>>) IN r.ok /\ r.f = <<<<97, 98, 99>>, <<34, 97, 34>>, <<97, 92, 92, 98>>, <<97, 98>>>>

\* quote-p.sh:390 single quotes with newlines
\*   text:   "'a\nb' 'a\n\nb'"
\*   fields: ['a\nb', 'a\n\nb']
ASSUME LET r == Read("arg", <<39, 97, 10, 98, 39, 32, 39, 97, 10, 10, 98, 39>>) IN r.ok /\ r.f = <<<<97, 10, 98>>, <<97, 10, 10, 98>>>>

\* quote-p.sh:416 double quotes
\*   text:   '"abc" "\'a\'"'
\*   fields: ['abc', "'a'"]
ASSUME LET r == Read("arg", <<34, 97, 98, 99, 34, 32, 34, 39, 97, 39, 34>>) IN r.ok /\ r.f = <<<<97, 98, 99>>, <<39, 97, 39>>>>

\* quote-p.sh:454 backslashes in double quotes
\*   text:   '"a\\\\b" "a\\\\\\\\b"'
\*   fields: ['a\\b', 'a\\\\b']
ASSUME LET r == Read("arg", <<34, 97, 92, 92, 98, 34, 32, 34, 97, 92, 92, 92, 92, 98, 34>>) IN r.ok /\ r.f = <<<<97, 92, 98>>, <<97, 92, 92, 98>>>>

\* quote-p.sh:455
\*   text:   '"a\\$b" "a\\`b\\`c" "a\\"b\\"c"'
\*   fields: ['a$b', 'a`b`c', 'a"b"c']
ASSUME LET r == Read("arg", <<34, 97, 92, 36, 98, 34, 32, 34, 97, 92, 96, 98, 92, 96, 99, 34, 32, 34, 97, 92, 34, 98, 92, 34, 99, 34>>) IN r.ok /\ r.f = <<<<97, 36, 98>>, <<97, 96, 98, 96, 99>>, <<97, 34, 98, 34, 99>>>>

\* quote-p.sh:456 line continuation in double quotes
\*   text:   '"a\\\nb\\\nc"'
\*   fields: ['abc']
ASSUME LET r == Read("arg", <<34, 97, 92, 10, 98, 92, 10, 99, 34>>) IN r.ok /\ r.f = <<<<97, 98, 99>>>>

\* quote-p.sh:459
\*   text:   '"\\ \\!\\#\\$x\\%\\&\\\'\\(\\)\\*\\+\\,\\-\\.\\/"'
\*   fields: ["\\ \\!\\#$x\\%\\&\\'\\(\\)\\*\\+\\,\\-\\.\\/"]
ASSUME LET r == Read("arg", <<34, 92, 32, 92, 33, 92, 35, 92, 36, 120, 92, 37, 92, 38, 92, 39, 92, 40, 92, 41, 92, 42, 92, 43, 92, 44, 92, 45, 92, 46, 92, 47, 34>>) IN r.ok /\ r.f = <<<<92, 32, 92, 33, 92, 35, 36, 120, 92, 37, 92, 38, 92, 39, 92, 40, 92, 41, 92, 42, 92, 43, 92, 44, 92, 45, 92, 46, 92, 47>>>>

\* quote-p.sh:461 (part)
\*   text:   '"\\@\\A\\[\\\\\\]\\^\\_"'
\*   fields: ['\\@\\A\\[\\\\]\\^\\_']
ASSUME LET r == Read("arg", <<34, 92, 64, 92, 65, 92, 91, 92, 92, 92, 93, 92, 94, 92, 95, 34>>) IN r.ok /\ r.f = <<<<92, 64, 92, 65, 92, 91, 92, 92, 93, 92, 94, 92, 95>>>>

\* quote-p.sh:463 tab and newline in double quotes
\*   text:   '"a\t\n\tb"'
\*   fields: ['a\t\n\tb']
ASSUME LET r == Read("arg", <<34, 97, 9, 10, 9, 98, 34>>) IN r.ok /\ r.f = <<<<97, 9, 10, 9, 98>>>>

\* tilde.md: echo ~/Documents
\*   text:   '~/Documents'
ASSUME LET r == Read("arg", <<126, 47, 68, 111, 99, 117, 109, 101, 110, 116, 115>>) IN ~r.ok /\ r.why = "tilde"

\* tilde.md: echo ~'b'ob (a quoted part makes the shell under test treat it literally; the reader stays conservative)
\*   text:   "~'b'ob"
ASSUME LET r == Read("arg", <<126, 39, 98, 39, 111, 98>>) IN ~r.ok /\ r.why = "tilde"

\* quoting.md: parameter expansion in double quotes
\*   text:   '"foo=\'$foo\'"'
ASSUME LET r == Read("arg", <<34, 102, 111, 111, 61, 39, 36, 102, 111, 111, 39, 34>>) IN ~r.ok /\ r.why = "expansion"

\* globbing.md: echo *
\*   text:   '*'
ASSUME LET r == Read("arg", <<42>>) IN ~r.ok /\ r.why = "pattern"

\* XCU 2.2: an unquoted ; is an operator
\*   text:   'a;b'
ASSUME LET r == Read("arg", <<97, 59, 98>>) IN ~r.ok /\ r.why = "operator"

\* XCU 2.2.2: a single quote cannot occur within single quotes
\*   text:   "'a'b'"
ASSUME LET r == Read("arg", <<39, 97, 39, 98, 39>>) IN ~r.ok /\ r.why = "unterminated single quote"

\* tilde.md: in assignments tilde expansion happens at the start of the value and after each `:`
ASSUME ~Read("value", <<126, 47, 98, 105, 110, 58, 47, 117, 115, 114, 47, 98, 105, 110>>).ok /\ ~Read("value", <<47, 98, 105, 110, 58, 126, 98, 111, 98, 47, 98, 105, 110>>).ok
ASSUME ~Read("decl", <<80, 65, 84, 72, 61, 47, 98, 105, 110, 58, 126, 47, 98, 105, 110>>).ok /\ ~Read("decl", <<80, 65, 84, 72, 61, 126, 47, 98, 105, 110>>).ok
\* ... but not in an ordinary argument, nor when the `~` is quoted
ASSUME ReadsAs("arg", <<80, 65, 84, 72, 61, 47, 98, 105, 110, 58, 126, 47, 98, 105, 110>>, <<80, 65, 84, 72, 61, 47, 98, 105, 110, 58, 126, 47, 98, 105, 110>>)
ASSUME ReadsAs("value", <<47, 98, 105, 110, 58, 92, 126, 47, 98, 105, 110>>, <<47, 98, 105, 110, 58, 126, 47, 98, 105, 110>>)
\* comments.md: a `#` inside a word does not start a comment
ASSUME ReadsAs("value", <<35, 120>>, <<35, 120>>) /\ Read("arg", <<35, 120>>).f = <<>>
\* keywords.md: echo { do re mi } prints { do re mi } (braces in different words are no pair)
ASSUME Read("arg", <<123, 32, 100, 111, 32, 114, 101, 32, 109, 105, 32, 125>>).f = <<<<123>>, <<100, 111>>, <<114, 101>>, <<109, 105>>, <<125>>>>
\* keywords.md: reserved words must be quoted to be used as a command name; {echo is a command name
ASSUME ~CommandWordSafe(<<105, 102>>) /\ CommandWordSafe(<<92, 105, 102>>) /\ ~CommandWordSafe(<<97, 61, 98>>) /\ CommandWordSafe(<<123, 101, 99, 104, 111>>)
\* yash-quote rustdoc examples: foo, '', '$foo', "'\$foo'"
ASSUME QuoteRule(<<102, 111, 111>>) = <<102, 111, 111>> /\ QuoteRule(<<>>) = <<39, 39>>
ASSUME QuoteRule(<<36, 102, 111, 111>>) = <<39, 36, 102, 111, 111, 39>>
ASSUME QuoteRule(<<39, 36, 102, 111, 111, 39>>) = <<34, 39, 92, 36, 102, 111, 111, 39, 34>>
=============================================================================
