\* C08 quick: every scenario with at most 2 mutators in total, one representative per mutator class
CONSTANTS
  MaxPre = 1
  MaxChild = 2
  MaxPost = 1
  MaxTotal = 2
  MinPre = 0
  MinTotal = 0
  Leaky = FALSE
  ForkBug = "none"
  Alphabet <- CoreCmds
  PreAlphabet <- CorePreCmds
  Kinds <- AllKinds
  Modes <- ScriptMode
  Fins <- NormalFin
  Ctxs <- MainCtx
INIT Init
NEXT Next
INVARIANTS NoForeignTrapAction EntryIsForkImage PendingCleared ParentTrapOnce ContextDuplicated TrapRule SharedDescriptions Final Emit
PROPERTIES Isolation CopyNotReference
