SPECIFICATION Spec
CONSTANTS
  NameSeq <- NameSeq4
  GlobalNames = {}
  LineFam = "4"
  Prune = TRUE
INVARIANT NoSelfNesting
INVARIANT ChainsSound
INVARIANT Deterministic
INVARIANT VariantNat
INVARIANT Emit
PROPERTY VariantDecreases
PROPERTY OnlyEligibleReplaced
