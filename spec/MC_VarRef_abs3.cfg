SPECIFICATION Spec
CONSTANTS
  Names = {"x", "y"}
  Vals = {"a"}
  MaxDepth = 2
  PosVals <- PosSome
  Thens = {"none", "assign", "export", "ro"}
INVARIANT TypeOK
INVARIANT ProjectionFaithful
INVARIANT AbstractionSound
INVARIANT EnvExact
INVARIANT ScopedOpsAreLocal
PROPERTY ReadOnlyNeverChanges
PROPERTY ReadOnlyVisible
