CONSTANTS
  MaxPre = 0
  MaxChild = 0
  MaxPost = 0
  MaxTotal = 0
  MinPre = 0
  MinTotal = 0
  Leaky = FALSE
  ForkBug = "none"
  Alphabet <- AllCmds
  PreAlphabet <- AllCmds
  Kinds <- AllKinds
  Modes <- ScriptMode
  Fins <- NormalFin
  Ctxs <- MainCtx
SPECIFICATION TraceSpec
POSTCONDITION Accepted
CHECK_DEADLOCK FALSE
