\* C08 quick: the construct executed from inside a trap action with another caught signal pending, at most 1 mutator
CONSTANTS
  MaxPre = 1
  MaxChild = 2
  MaxPost = 1
  MaxTotal = 1
  MinPre = 0
  MinTotal = 0
  Leaky = FALSE
  ForkBug = "none"
  Alphabet <- CoreCmds
  PreAlphabet <- CorePreCmds
  Kinds <- AllKinds
  Modes <- ScriptMode
  Fins <- NormalFin
  Ctxs <- TrapCtx
INIT Init
NEXT Next
INVARIANTS NoForeignTrapAction EntryIsForkImage PendingCleared ParentTrapOnce ContextDuplicated TrapRule SharedDescriptions Final Emit
PROPERTIES Isolation CopyNotReference
