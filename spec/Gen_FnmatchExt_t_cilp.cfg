INIT Init
NEXT Next
VIEW view
CONSTANTS
  Variant = ""
  PNorm <- TokCL
  PLit <- NoChars
  PMacro <- MacCL
  PLen = 4
  SAlpha <- StrCL
  SLen = 3
  CfgSel = "cilp"
  Kind = "match"
INVARIANT Emit
