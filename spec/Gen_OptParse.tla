---------------------------- MODULE Gen_OptParse ----------------------------
(***************************************************************************)
(* P4 enumeration for C20: TLC's breadth-first search is the exhaustive    *)
(* enumerator of (table, mode, argument vector); the functional definition *)
(* OptParse!Parse is the oracle.  A state is a vector `v` of token indices *)
(* of length < MaxLen; its line carries the prescribed outcome of v itself *)
(* ("s") and of each one-token extension of v ("r"), so every vector of    *)
(* length <= MaxLen appears exactly once as an extension (and <<>> as "s").*)
(*                                                                         *)
(* Outcome code (all integers, one JSON array):                            *)
(*   accepted: <<1, p, i1, sp1, f1, k1, d1, i2, sp2, f2, k2, d2, ...>>     *)
(*             operands are argv[p..]; option n is specs[i_n], written in  *)
(*             argv[f_n] at letter position sp_n (0 = long), its           *)
(*             option-argument is argv[k_n] from character d_n on          *)
(*             (k_n = 0: none)                                             *)
(*   rejected: <<0, at, c1, c2, ...>>  at = index of the offending         *)
(*             argument, c = codes of the error classes that apply to it   *)
(***************************************************************************)
EXTENDS OptTables, Json

\* Cases: set of integers 8 * (table id) + (mode id)
CONSTANTS Cases, MaxLen

VARIABLES tab, mid, specs, mode, v
vars == <<tab, mid, specs, mode, v>>

ErrCode(c) == CASE c = "UnknownShort" -> 1 [] c = "UnknownLong" -> 2
                [] c = "NonPortableShort" -> 3 [] c = "NonPortableLong" -> 4
                [] c = "AmbiguousLong" -> 5 [] c = "MissingArg" -> 6
                [] c = "Unseparated" -> 7 [] c = "UnexpectedArg" -> 8

RECURSIVE FlatOpts(_)
FlatOpts(opts) == IF opts = <<>> THEN <<>>
                  ELSE <<opts[1].i, opts[1].sp, opts[1].f, opts[1].k, opts[1].d>> \o FlatOpts(Tail(opts))

RECURSIVE SetToSeq(_)
SetToSeq(S) == IF S = {} THEN <<>>
               ELSE LET x == CHOOSE x \in S : \A y \in S : x <= y IN <<x>> \o SetToSeq(S \ {x})

Code(r) == IF r.ok THEN <<1, r.p>> \o FlatOpts(r.opts)
           ELSE <<0, r.at>> \o SetToSeq({ErrCode(c) : c \in r.errs})

Outcome(w) == Code(Parse(specs, mode, ArgvOf(w)))

Init == /\ \E c \in Cases : tab = c \div 8 /\ mid = c % 8
        /\ specs = TableOf(tab) /\ mode = ModeOfId(mid)
        /\ v = <<>>

Next == /\ Len(v) < MaxLen - 1
        /\ \E t \in 1..NTok : v' = Append(v, t)
        /\ UNCHANGED <<tab, mid, specs, mode>>

Spec == Init /\ [][Next]_vars

SpecJson(o) == [s |-> o.s, l |-> o.l, a |-> o.a, x |-> o.x]

Emit ==
  /\ Len(v) = 0
       => PrintT(ToJson([hdr |-> tab, specs |-> [i \in DOMAIN specs |-> SpecJson(specs[i])],
                         tokens |-> Tokens, wf |-> WellFormed(specs)]))
  /\ PrintT(ToJson([t |-> tab, m |-> mid, v |-> v, s |-> Outcome(v),
                    r |-> [t \in 1..NTok |-> Outcome(Append(v, t))]]))
=============================================================================
