SPECIFICATION FairSpec
CONSTANTS
  PIPE_BUF = 2
  PIPE_SIZE = 4
  NProc = 3
  MaxN = 6
  Chunks = {1, 4}
  Filters = {"all", "stream"}
  Takes = {FALSE, TRUE}
  FAULT = ""
PROPERTY Termination
CHECK_DEADLOCK TRUE
