SPECIFICATION Spec
CONSTANTS
  Sigs = {"INT", "USR1"}
  WithExit = FALSE
  MaxH = 100
  UniformInit = FALSE
  InitVals = {"C"}
VIEW view
INVARIANT Consistent
INVARIANT EmitState
PROPERTY ExactlyOnce
PROPERTY InitiallyIgnoredRefused
