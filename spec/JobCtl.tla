------------------------------- MODULE JobCtl -------------------------------
(***************************************************************************)
(* Specification-growth module G02: the job-control built-ins `jobs`,      *)
(* `wait`, `bg`, `fg`, `kill` and asynchronous lists over the job table    *)
(* and the process table.                                                  *)
(*                                                                         *)
(* Written from POSIX.1-2024 XCU (jobs, fg, bg, wait, kill, 2.9.3.1        *)
(* Asynchronous Lists, 2.11 Job Control, 2.12 Signals and Error Handling)  *)
(* and the manual under docs/src (interactive/job_control.md,              *)
(* builtins/{jobs,fg,bg,wait,kill}.md, language/commands/exit_status.md),  *)
(* NOT from the code.  The observable job table, its consistency           *)
(* invariants, the rules for the current/previous job and the job IDs are  *)
(* those of JobListAbs (property C12), used read-only.                     *)
(*                                                                         *)
(* State  S = [m, t, ps, rel]                                              *)
(*   m    monitor option (`set -m` / `set +m`); m0 its value at the start  *)
(*   t    the job table in the format of JobListAbs (jobs in number order, *)
(*        cur, prev, by, last = `$!`)                                      *)
(*   ps   the processes of the three job slots: st in N(ot started),       *)
(*        R(unning), S(topped), E(xited), K(illed) + exit code / signal,   *)
(*        ran = "has certainly run since it was forked", var = "the script *)
(*        holds its process ID in $pj" (started with `&`)                  *)
(*   rel  slot j has been released: its body `hold K </tmp/fj` will exit   *)
(*        with status K = ExitOf(j) as soon as it runs; an unreleased      *)
(*        body blocks for ever (it ends only when killed)                  *)
(*                                                                         *)
(* A command is [k, j, sig, opt, ops].  StepCmd(S, c) is the SET of allowed   *)
(* results [lo, hi, err, out, outfree, post]: exit status in lo..hi,       *)
(* whether a diagnostic is written, the lines written to standard output,  *)
(* and the successor state.  The only sources of non-determinism are       *)
(*  - scheduling: a released running process may have terminated or not    *)
(*    (Sync) whenever the shell looks at its children;                     *)
(*  - what the documents leave open (which unused job number a new job     *)
(*    gets, which job becomes current/previous when only the invariants    *)
(*    constrain it, `jobs -p` removing finished jobs, ...).                *)
(* Conformance is membership: harness/g02 runs scripts on the real shell   *)
(* and Trace_JobCtl checks every observed run against StepCmd.                *)
(*                                                                         *)
(* The second half of the module is the bounded model TLC explores: it     *)
(* checks the properties below on every reachable state and emits, for     *)
(* every distinct state, a witness script and the commands usable in it    *)
(* (the scripts the harness runs).                                         *)
(***************************************************************************)
EXTENDS JobListAbs, Json

CONSTANTS MaxLen,      \* scripts of at most MaxLen commands
          Modes,       \* values of the monitor option explored (subset of BOOLEAN)
          JobIdOps,    \* job-ID operands used by the generated scripts
          PidOps,      \* process-ID operands ("$p1".."$p3": pid of slot j, "9999": no such process)
          Sigs,        \* signals sent by `kill -s`
          JobsOpts,    \* options of `jobs` without operands ("", "-l", "-p")
          KillLNums,   \* operands of `kill -l`
          MonCmds,     \* `set -m` (1) / `set +m` (0) commands used by the generated scripts
          FgSlots,     \* slots that may also be started as a foreground job that suspends itself
          StartWith    \* name of the script every generated script starts with ("none", "p3", ...)

Slots == {1, 2, 3}
ExitOf(j) == CASE j = 1 -> 0 [] j = 2 -> 3 [] j = 3 -> 7
Chars(s) == [i \in 1..Len(s) |-> SubSeq(s, i, i)]
\* the command text of a job is its name (POSIX jobs: "<command>: the associated command")
SlotNames == [j \in Slots |-> Chars(CASE j = 1 -> "hold 0 </tmp/f1"
                                      [] j = 2 -> "hold 3 </tmp/f2"
                                      [] j = 3 -> "hold 7 </tmp/f3")]
\* a foreground job `(selfstop; hold K </tmp/fj)` is named after the body of the subshell
FgNames == [j \in Slots |-> Chars(CASE j = 1 -> "selfstop; hold 0 </tmp/f1"
                                    [] j = 2 -> "selfstop; hold 3 </tmp/f2"
                                    [] j = 3 -> "selfstop; hold 7 </tmp/f3")]
\* SIGSTOP has no POSIX-defined number: the harness reports "384 + SIGSTOP" as this value
StoppedBySTOP == -116
\* POSIX-defined signal numbers (kill, "-signal_number"); exit_status.md: 384 + number
SigNum(s) == CASE s = "HUP" -> 1 [] s = "INT" -> 2 [] s = "QUIT" -> 3 [] s = "KILL" -> 9 [] s = "TERM" -> 15
BigStatus == 1000000

-----------------------------------------------------------------------------
\* The job table (JobListAbs format)

ByOf(jobs) == [p \in 1..3 |-> IF \E k \in DOMAIN jobs : jobs[k].pid = p
                              THEN jobs[CHOOSE k \in DOMAIN jobs : jobs[k].pid = p].i ELSE None]
MkTab(jobs, c, p, last) == [jobs |-> jobs, cur |-> c, prev |-> p, by |-> ByOf(jobs), last |-> last,
                            len |-> Len(jobs), ids |-> <<>>]
EmptyTab == MkTab(<<>>, None, None, 0)
\* nid identifies the name: the slot for an asynchronous list, slot + 10 for a foreground job
NewJob(k, pid, st, fg, jc) == [i |-> k, pid |-> pid, st |-> st, ch |-> TRUE, ex |-> "N", own |-> TRUE,
                           name |-> IF fg THEN FgNames[pid] ELSE SlotNames[pid],
                           nid |-> IF fg THEN pid + 10 ELSE pid,
                           jc |-> jc,      \* job-controlled: job control was on when the job was started
                           code |-> 0, sig |-> IF st = "S" THEN "STOP" ELSE ""]
\* the exit code / signal detail is not part of the JobListAbs relations
Proj(t) == [t EXCEPT !.jobs = [k \in DOMAIN t.jobs |-> [t.jobs[k] EXCEPT !.code = 0, !.sig = ""]]]

\* the consistency invariants of JobListAbs (all of Consistent but the logged job-ID resolutions)
TabInv(t) ==
  /\ WellFormed(t) /\ NonEmptyHasCurrent(t) /\ EmptyHasNone(t) /\ TwoHavePrevious(t)
  /\ OneHasNoPrevious(t) /\ PrevIsAJob(t) /\ CurrentIsSuspended(t) /\ PreviousIsSuspended(t)
  /\ PidsUnique(t)

InsSorted(jobs, r) == SelectSeq(jobs, LAMBDA x : x.i < r.i) \o <<r>> \o SelectSeq(jobs, LAMBDA x : x.i > r.i)
SetJob(jobs, i, r) == [k \in DOMAIN jobs |-> IF jobs[k].i = i THEN r ELSE jobs[k]]
DelJobs(jobs, R)   == SelectSeq(jobs, LAMBDA x : x.i \notin R)
SelOf(jobs) == LET I == {jobs[k].i : k \in DOMAIN jobs} \cup {None} IN I \X I
MaxOf(S) == CHOOSE x \in S : \A y \in S : y <= x

\* A child changes state: the shell's view of the job follows (JobListAbs.Update
\* gives the rules for the current and previous job).
UpdTab(t, pid, st, code, sig) ==
  IF pid \notin PidOf(t) THEN {t}
  ELSE LET i == t.by[pid]
           old == J(t, i)
           new == [old EXCEPT !.st = st, !.code = code, !.sig = sig]
           jobs2 == SetJob(t.jobs, i, new)
       IN IF new = old THEN {t}
          ELSE {t2 \in {MkTab(jobs2, cp[1], cp[2], t.last) : cp \in SelOf(jobs2)} :
                  /\ TabInv(t2) /\ StableNumbers(t, t2)
                  /\ Update(Proj(t), [op |-> "update", p |-> pid, s |-> st], i, Proj(t2))}

\* A new job.  job_control.md "Job numbers": "assigned sequentially, starting from 1.
\* After a job is removed, its number may be reused": any unused number up to one more
\* than the largest in use.
InsTab(t, pid, st, fg, jc) ==
  LET used == Idx(t)
      top == IF used = {} THEN -1 ELSE MaxOf(used)
      K == (0..(top + 1)) \ used
  IN UNION {LET jobs2 == InsSorted(t.jobs, NewJob(k, pid, st, fg, jc))
            IN {t2 \in {MkTab(jobs2, cp[1], cp[2], t.last) : cp \in SelOf(jobs2)} :
                  /\ TabInv(t2) /\ StableNumbers(t, t2)
                  /\ Insert(Proj(t), [op |-> "insert", p |-> pid, s |-> st], k, Proj(t2))} : k \in K}

\* Jobs are removed by a built-in.  Which job-list operation the built-ins use is not
\* documented: the frame conditions are those every removal satisfies
\* (JobListAbs.RemoveSet), the rest is left to the invariants.
RemTab(t, R) ==
  IF R = {} THEN {t}
  ELSE LET jobs2 == DelJobs(t.jobs, R)
       IN {t2 \in {MkTab(jobs2, cp[1], cp[2], t.last) : cp \in SelOf(jobs2)} :
             /\ TabInv(t2) /\ StableNumbers(t, t2)
             /\ Idx(t2) = Idx(t) \ R /\ Untouched(t, t2, R)
             /\ (t.cur \notin R => t2.cur = t.cur)
             /\ ((t.cur \notin R /\ t.prev \notin R) => t2.prev = t.prev)}

-----------------------------------------------------------------------------
\* Processes

InitS(m) == [m |-> m, m0 |-> m, t |-> EmptyTab,
             ps |-> [j \in Slots |-> [st |-> "N", code |-> 0, sig |-> "", ran |-> FALSE, var |-> FALSE, jc |-> FALSE]],
             rel |-> [j \in Slots |-> FALSE]]

Alive(p) == p.st \in {"R", "S"}
Dead(p)  == p.st \in {"E", "K"}
Pend(S, j) == S.ps[j].st = "R" /\ S.rel[j]
StatusOf(p) == IF p.st = "E" THEN p.code ELSE 384 + SigNum(p.sig)

\* process j changes state and the job table follows
SetProc(S, j, st, code, sig) ==
  {[S EXCEPT !.ps[j].st = st, !.ps[j].code = code, !.ps[j].sig = sig, !.t = t2] :
     t2 \in UpdTab(S.t, j, st, code, sig)}

RECURSIVE TermAll(_, _)
TermAll(SS, P) ==
  IF P = {} THEN SS
  ELSE LET j == CHOOSE x \in P : TRUE
       IN TermAll(UNION {SetProc(S, j, "E", ExitOf(j), "") : S \in SS}, P \ {j})

\* scheduling: any of the released running processes may have terminated by now
Sync(S) == UNION {TermAll({S}, P) : P \in SUBSET {j \in Slots : Pend(S, j)}}

\* `settle` (harness built-in): every other process runs until it blocks or ends
Settle(S) ==
  {[X EXCEPT !.ps = [j \in Slots |-> IF X.ps[j].st = "R" THEN [X.ps[j] EXCEPT !.ran = TRUE] ELSE X.ps[j]]] :
     X \in TermAll({S}, {j \in Slots : Pend(S, j)})}

\* Effect of a signal on an alive process that is blocked in its body: set of
\* <<st, code, sig>>.  XCU 2.12: an asynchronous list started while job control is
\* disabled ignores SIGINT and SIGQUIT.
SigEffect(S, j, sg) ==
  LET p == S.ps[j]
      same == <<p.st, p.code, p.sig>>
  IN CASE sg = "0" -> {same}
       [] sg = "KILL" -> {<<"K", 0, "KILL">>}
       [] sg \in {"TERM", "HUP"} -> {<<"K", 0, sg>>}
       [] sg \in {"INT", "QUIT"} -> IF p.jc THEN {<<"K", 0, sg>>} ELSE {same}
       [] sg \in {"STOP", "TSTP"} -> {<<"S", 0, sg>>}
       [] sg = "CONT" -> IF p.st = "S" THEN {<<"R", 0, "">>} ELSE {same}
\* Not judged (limits of the simulated kernel, not this module's subject):
\*  - signals other than KILL and CONT sent to a stopped process stay pending in a
\*    real kernel;
\*  - a simulated process that is runnable (it has not run since its fork, or its
\*    body has been released) keeps running up to its next blocking call even after
\*    a signal stopped or killed it: signals are only sent to processes known to be
\*    blocked in their body (`ran`, not released); SIGCONT may be sent to a released
\*    stopped process.
SigUnspec(S, j, sg) ==
  /\ sg # "0"
  /\ \/ (S.ps[j].st = "S" /\ sg \notin {"KILL", "CONT"})
     \/ ~S.ps[j].ran
     \/ (S.rel[j] /\ sg # "CONT")

-----------------------------------------------------------------------------
\* Operands

VarSlot(op) == CASE op = "$p1" -> 1 [] op = "$p2" -> 2 [] op = "$p3" -> 3 [] OTHER -> 0
IsJobId(op) == SubSeq(op, 1, 1) = "%"
\* [k, i, j]: k = "job" (index i, slot j), "proc" (a process that is no job any more),
\* "none" (no such job), "amb", "nopid", "bad" (the variable is unset: the operand vanishes)
ResolveOp(S, op) ==
  IF IsJobId(op)
  THEN LET r == ResolveId(S.t, Chars(op))
       IN IF r >= 0 THEN [k |-> "job", i |-> r, j |-> J(S.t, r).pid]
          ELSE IF r = Ambiguous THEN [k |-> "amb", i |-> None, j |-> 0]
          ELSE [k |-> "none", i |-> None, j |-> 0]
  ELSE LET j == VarSlot(op)
       IN IF j = 0 THEN [k |-> "nopid", i |-> None, j |-> 0]
          ELSE IF ~S.ps[j].var THEN [k |-> "bad", i |-> None, j |-> j]      \* `pj=$!` has not been executed
          ELSE IF j \in PidOf(S.t) THEN [k |-> "job", i |-> S.t.by[j], j |-> j]
          ELSE [k |-> "proc", i |-> None, j |-> j]

\* the job a `bg`/`fg` command designates: no operand = the current job
Target(S, c) ==
  IF c.ops = <<>> THEN (IF S.t.cur = None THEN [k |-> "none", i |-> None, j |-> 0]
                        ELSE [k |-> "job", i |-> S.t.cur, j |-> J(S.t, S.t.cur).pid])
  ELSE ResolveOp(S, c.ops[1])

-----------------------------------------------------------------------------
\* Results

Res(lo, hi, err, out, outfree, post) ==
  [lo |-> lo, hi |-> hi, err |-> err, out |-> out, outfree |-> outfree, post |-> post]
Ok(out, post)   == Res(0, 0, "n", out, FALSE, post)
Fail(post)      == Res(1, BigStatus, "y", <<>>, FALSE, post)       \* diagnostic + non-zero status, no effect
Free(post)      == Res(0, BigStatus, "?", <<>>, TRUE, post)        \* status left open by the documents

Mark(t, i) == IF i = t.cur THEN "+" ELSE IF i = t.prev THEN "-" ELSE " "
JobsLine(t, x, opt) ==
  IF opt = "-p" THEN [n |-> 0, mk |-> "", pid |-> x.pid, st |-> "", code |-> 0, sig |-> "", nm |-> -1]
  ELSE [n |-> x.i + 1, mk |-> Mark(t, x.i), pid |-> IF opt = "-l" THEN x.pid ELSE -1,
        st |-> x.st, code |-> x.code, sig |-> x.sig, nm |-> x.nid]
Listing(t, T, opt) ==
  LET sel == SelectSeq(t.jobs, LAMBDA x : x.i \in T)
  IN [k \in DOMAIN sel |-> JobsLine(t, sel[k], opt)]
NameLine(n, j) == [n |-> n, mk |-> "", pid |-> -1, st |-> "", code |-> 0, sig |-> "", nm |-> j]

-----------------------------------------------------------------------------
\* The commands (on a state in which the shell has just looked at its children)

\* `body &`: XCU 2.9.3.1: new job, `$!` = its process ID, exit status 0
DoStart(S, c) ==
  LET S1 == [S EXCEPT !.ps[c.j] = [st |-> "R", code |-> 0, sig |-> "", ran |-> FALSE, var |-> TRUE, jc |-> S.m]]
  IN {Ok(<<>>, [S1 EXCEPT !.t = [t2 EXCEPT !.last = c.j, !.by = ByOf(t2.jobs)]]) : t2 \in InsTab(S.t, c.j, "R", FALSE, S.m)}

\* `(selfstop; body)` with job control: a foreground job that is suspended enters the job
\* table as a suspended job (job_control.md "Suspending foreground jobs"); `$?` is "as if
\* it had been terminated by the signal that suspended it"; `$!` is not affected.
DoFgStart(S, c) ==
  LET S1 == [S EXCEPT !.ps[c.j] = [st |-> "S", code |-> 0, sig |-> "STOP", ran |-> TRUE, var |-> FALSE, jc |-> TRUE]]
  IN {Res(StoppedBySTOP, StoppedBySTOP, "n", <<>>, FALSE, [S1 EXCEPT !.t = t2]) : t2 \in InsTab(S.t, c.j, "S", TRUE, TRUE)}

DoRel(S, c) == {Ok(<<>>, [S EXCEPT !.rel[c.j] = TRUE])}
DoSettle(S, c) == {Ok(<<>>, X) : X \in Settle(S)}

\* jobs.md: one line per job, in the POSIX format; a reported finished job is removed.
\* With -p only process IDs are written; whether that "reports" a finished job is left open.
DoJobs(S, c) ==
  LET t == S.t
      r == IF c.ops = <<>> THEN [k |-> "all"] ELSE ResolveOp(S, c.ops[1])
  IN IF r.k \in {"none", "amb"} THEN {Fail(S)}
     ELSE LET T == IF r.k = "all" THEN Idx(t) ELSE {r.i}
              fin == {i \in T : Finished(J(t, i))}
              posts == RemTab(t, fin) \cup (IF c.opt = "-p" THEN {t} ELSE {})
          IN {Ok(Listing(t, T, c.opt), [S EXCEPT !.t = t2]) : t2 \in posts}

\* wait.md / XCU wait
WaitTargets(S, c) == [k \in DOMAIN c.ops |-> ResolveOp(S, c.ops[k])]
WaitJobs(S, c) ==
  IF c.ops = <<>> THEN Idx(S.t)
  ELSE LET rs == WaitTargets(S, c) IN {rs[k].i : k \in {k \in DOMAIN rs : rs[k].k = "job"}}
WillEnd(S, j) == Dead(S.ps[j]) \/ Pend(S, j)
DoWait(S, c) ==
  LET t == S.t
      rs == WaitTargets(S, c)
      W == WaitJobs(S, c)
      P == {J(t, i).pid : i \in W}
  IN IF \E k \in DOMAIN rs : rs[k].k = "amb" THEN {Res(1, 126, "y", <<>>, FALSE, S)}
     ELSE UNION {LET last == IF c.ops = <<>> THEN [k |-> "all"] ELSE rs[Len(rs)]
                     st == IF last.k = "all" THEN 0
                           ELSE IF last.k = "job" THEN StatusOf(X.ps[last.j]) ELSE 127
                 IN {Res(st, st, "n", <<>>, FALSE, [X EXCEPT !.t = t2]) : t2 \in RemTab(X.t, W)}
                 : X \in TermAll({S}, {j \in P : Pend(S, j)})}

\* bg.md / XCU bg
\* Which job is current afterwards is left to the invariants ("the current job is
\* usually the most recently suspended job, or another job if none are suspended").
Reselect(t) == {t2 \in {MkTab(t.jobs, cp[1], cp[2], t.last) : cp \in SelOf(t.jobs)} : TabInv(t2)}
\* bg.md "Errors": no such job, a job that is not job-controlled (job control was off when
\* it was started), job control off now.  A bg that fails resumes nothing: nothing changes,
\* in particular `$!` ("the (last) RESUMED job's process ID is set to the ! special
\* parameter") keeps designating the last asynchronous command.
BgFgRefused(S, r) == ~S.m \/ r.k # "job" \/ ~J(S.t, r.i).jc
DoBg(S, c) ==
  LET r == Target(S, c)
  IN IF BgFgRefused(S, r) THEN {Fail(S)}
     ELSE LET p == S.ps[r.j]
              lasts(X) == {[X EXCEPT !.t = [t2 EXCEPT !.last = r.j]] : t2 \in Reselect(X.t)}
          IN IF Dead(p) THEN {Free(X) : X \in lasts(S) \cup {S}}
             ELSE IF p.st = "R" THEN {Res(0, 0, "n", <<NameLine(r.i + 1, J(S.t, r.i).nid)>>, FALSE, X) : X \in lasts(S)}
             ELSE UNION {{Ok(<<NameLine(r.i + 1, J(S.t, r.i).nid)>>, Y) : Y \in lasts(X)} : X \in SetProc(S, r.j, "R", 0, "")}

\* fg.md / XCU fg: continue, wait, report the job's status; a finished job is removed
DoFg(S, c) ==
  LET r == Target(S, c)
  IN IF BgFgRefused(S, r) THEN {Fail(S)}
     ELSE LET p == S.ps[r.j]
              S1 == IF p.st = "S" THEN SetProc(S, r.j, "R", 0, "") ELSE {S}
              S2 == IF Dead(p) THEN S1 ELSE UNION {SetProc(X, r.j, "E", ExitOf(r.j), "") : X \in S1}
          IN UNION {LET st == StatusOf(X.ps[r.j])
                    IN {Res(st, st, "n", <<NameLine(0, J(S.t, r.i).nid)>>, FALSE, [X EXCEPT !.t = t2]) : t2 \in RemTab(X.t, {r.i})}
                    : X \in S2}

\* kill.md / XCU kill
DoKill(S, c) ==
  LET op == c.ops[1]
      r == ResolveOp(S, op)
  IN IF r.k \in {"none", "amb", "nopid"} THEN {Fail(S)}
     ELSE IF IsJobId(op) /\ ~J(S.t, r.i).jc THEN {Fail(S)}      \* the job is not job-controlled
     ELSE IF Dead(S.ps[r.j]) THEN {Free(S)}              \* (not judged, see Unspec)
     ELSE UNION {{Ok(<<>>, X) : X \in SetProc(S, r.j, e[1], e[2], e[3])} : e \in SigEffect(S, r.j, c.sig)}

\* kill.md / XCU kill: `kill -l N` writes the name (without SIG) of signal number N
\* or of the signal that terminated a process whose exit status is N; 0 is invalid.
SigOfNum(n) == CASE n = 1 -> "HUP" [] n = 2 -> "INT" [] n = 3 -> "QUIT" [] n = 9 -> "KILL" [] n = 15 -> "TERM"
                 [] OTHER -> ""
DoKillL(S, c) ==
  LET nm == IF c.j > 384 THEN SigOfNum(c.j - 384) ELSE SigOfNum(c.j)
  IN IF c.j = 0 THEN {Fail(S)}
     ELSE {Ok(<<[n |-> 0, mk |-> "", pid |-> -1, st |-> "", code |-> 0, sig |-> nm, nm |-> -1]>>, S)}

Do(S, c) ==
  CASE c.k = "start"  -> DoStart(S, c)
    [] c.k = "killl"  -> DoKillL(S, c)
    [] c.k = "fgstart" -> DoFgStart(S, c)
    [] c.k = "mon"    -> {Ok(<<>>, [S EXCEPT !.m = (c.j = 1)])}      \* `set -m` / `set +m`
    [] c.k = "rel"    -> DoRel(S, c)
    [] c.k = "settle" -> DoSettle(S, c)
    [] c.k = "jobs"   -> DoJobs(S, c)
    [] c.k = "wait"   -> DoWait(S, c)
    [] c.k = "bg"     -> DoBg(S, c)
    [] c.k = "fg"     -> DoFg(S, c)
    [] c.k = "kill"   -> DoKill(S, c)

\* The command cannot be judged: an operand that expands to nothing, a process-ID
\* operand where only job IDs are documented, a second start of a slot, a signal
\* whose effect is the (simulated) kernel's business: see SigUnspec; the simulated
\* kernel also keeps terminated processes and lets SIGCONT revive them.
Unspec(S, c) ==
  \/ c.k \in {"start", "fgstart"} /\ S.ps[c.j].st # "N"
  \/ c.k = "rel" /\ (S.rel[c.j] \/ Dead(S.ps[c.j]))      \* (a dead simulated process woken by input runs on)
  \/ c.k \in {"jobs", "wait", "bg", "fg", "kill"} /\ \E k \in DOMAIN c.ops : ResolveOp(S, c.ops[k]).k = "bad"
  \/ c.k \in {"jobs", "bg", "fg"} /\ \E k \in DOMAIN c.ops : ~IsJobId(c.ops[k])
  \/ c.k \in {"jobs", "bg", "fg"} /\ Len(c.ops) > 1
  \/ c.k = "kill" /\ Len(c.ops) # 1
  \/ c.k = "killl" /\ c.j # 0 /\ SigOfNum(c.j) = "" /\ (c.j <= 384 \/ SigOfNum(c.j - 384) = "")
  \/ c.k = "kill" /\ LET r == ResolveOp(S, c.ops[1])
                      IN r.k \in {"job", "proc"} /\ (IsJobId(c.ops[1]) => J(S.t, r.i).jc)
                         /\ (Dead(S.ps[r.j]) \/ SigUnspec(S, r.j, c.sig))
  \/ c.k = "wait" /\ Len(c.ops) > 1
       /\ \E a, b \in DOMAIN c.ops : a # b /\ LET ra == ResolveOp(S, c.ops[a])
                                                   rb == ResolveOp(S, c.ops[b])
                                               IN ra.k = "job" /\ rb.k = "job" /\ ra.i = rb.i

\* The command never returns (wait.md: "will wait indefinitely"): the set of states the
\* shell is stuck in.  A process that is stopped, or running an unreleased body, never ends.
Hang(S, c) ==
  CASE c.k = "fgstart" ->      \* without job control the shell goes on waiting for the stopped child
         IF S.m THEN {} ELSE {[S EXCEPT !.ps[c.j] = [st |-> "S", code |-> 0, sig |-> "STOP", ran |-> TRUE, var |-> FALSE, jc |-> FALSE]]}
    [] c.k = "wait" ->
         IF (\E k \in DOMAIN c.ops : ResolveOp(S, c.ops[k]).k = "amb") THEN {}
         ELSE IF \E i \in WaitJobs(S, c) : ~WillEnd(S, J(S.t, i).pid) THEN {S} ELSE {}
    [] c.k = "fg" ->
         LET r == Target(S, c)
         IN IF BgFgRefused(S, r) \/ Dead(S.ps[r.j]) \/ S.rel[r.j] THEN {}
            ELSE IF S.ps[r.j].st = "S" THEN SetProc(S, r.j, "R", 0, "") ELSE {S}
    [] OTHER -> {}

\* One command of a script: the shell looks at its children, runs the command, and
\* the observation that follows looks at the children again.
StepCmd(S, c) ==
  UNION {UNION {{[r EXCEPT !.post = S2] : S2 \in Sync(r.post)} : r \in Do(S1, c)}
         : S1 \in {X \in Sync(S) : Hang(X, c) = {}}}
Stuck(S, c) == UNION {UNION {Sync(Y) : Y \in Hang(S1, c)} : S1 \in Sync(S)}

-----------------------------------------------------------------------------
\* Judging an observed run (used by Trace_JobCtl)

ObsTab(S) == [k \in DOMAIN S.t.jobs |->
                LET x == S.t.jobs[k]
                IN [n |-> x.i + 1, pid |-> x.pid, st |-> x.st, code |-> x.code, sig |-> x.sig,
                    nm |-> x.nid, jc |-> x.jc]]
MatchObs(r, o) ==
  /\ o.st >= r.lo /\ o.st <= r.hi
  /\ (r.err = "?" \/ (r.err = "y") = o.err)
  /\ (r.outfree \/ o.out = r.out)
  /\ o.cur = r.post.t.cur + 1 /\ o.prev = r.post.t.prev + 1 /\ o.bang = r.post.t.last
  /\ o.tab = ObsTab(r.post)

FinalOK(S, fin) ==
  \A j \in Slots :
    LET p == S.ps[j]
        f == fin[j]
    IN CASE p.st = "N" -> f.st = "N"
         [] p.st = "R" -> f.st = "R" \/ (S.rel[j] /\ f.st = "E" /\ f.code = ExitOf(j))
         [] p.st = "S" -> f.st = "S"
         [] OTHER -> f.st = p.st /\ f.code = p.code /\ f.sig = p.sig

\* [v, at, why]: v = "ok" | "skip" | "bad"
RECURSIVE RunFrom(_, _, _)
RunFrom(rec, SS, k) ==
  LET n == Len(rec.script)
      no == Len(rec.steps)
  IN IF k > no
     THEN IF rec.outcome = "completed" /\ no = n
          THEN IF \E S \in SS : FinalOK(S, rec.final) THEN [v |-> "ok", at |-> k, why |-> ""]
               ELSE [v |-> "bad", at |-> k, why |-> "final process table"]
          ELSE IF rec.outcome = "deadlock" /\ no < n
          THEN IF \E S \in SS : Unspec(S, rec.script[k]) THEN [v |-> "skip", at |-> k, why |-> "unspecified command"]
               ELSE IF \E S \in SS : \E Y \in Stuck(S, rec.script[k]) : FinalOK(Y, rec.final)
               THEN [v |-> "ok", at |-> k, why |-> "hang"]
               ELSE [v |-> "bad", at |-> k, why |-> "the shell hangs where the specification does not"]
          ELSE [v |-> "bad", at |-> k, why |-> rec.outcome]
     ELSE LET c == rec.script[k]
              o == rec.steps[k]
          IN IF \E S \in SS : Unspec(S, c) THEN [v |-> "skip", at |-> k, why |-> "unspecified command"]
             ELSE LET SS2 == UNION {{r.post : r \in {r \in StepCmd(S, c) : MatchObs(r, o)}} : S \in SS}
                  IN IF SS2 = {} THEN [v |-> "bad", at |-> k, why |-> "observation not allowed"]
                     ELSE RunFrom(rec, SS2, k + 1)
Verdict(rec) == RunFrom(rec, {InitS(rec.m)}, 1)

-----------------------------------------------------------------------------
\* The bounded model

Cmd(k, j, sig, opt, ops) == [k |-> k, j |-> j, sig |-> sig, opt |-> opt, ops |-> ops]
AnyOps == JobIdOps \cup PidOps
Cmds ==
  {Cmd("start", j, "", "", <<>>) : j \in Slots} \cup {Cmd("fgstart", j, "", "", <<>>) : j \in FgSlots} \cup {Cmd("rel", j, "", "", <<>>) : j \in Slots}
  \cup {Cmd("settle", 0, "", "", <<>>)}
  \cup {Cmd("jobs", 0, "", o, <<>>) : o \in JobsOpts} \cup {Cmd("jobs", 0, "", "", <<id>>) : id \in JobIdOps}
  \cup {Cmd("wait", 0, "", "", <<>>)} \cup {Cmd("wait", 0, "", "", <<o>>) : o \in AnyOps}
  \cup {Cmd("wait", 0, "", "", <<ab[1], ab[2]>>) : ab \in {x \in PidOps \X PidOps : x[1] # x[2]}}
  \cup {Cmd("bg", 0, "", "", <<>>), Cmd("fg", 0, "", "", <<>>)}
  \cup {Cmd("bg", 0, "", "", <<id>>) : id \in JobIdOps} \cup {Cmd("fg", 0, "", "", <<id>>) : id \in JobIdOps}
  \cup {Cmd("kill", 0, s, "", <<o>>) : s \in Sigs, o \in AnyOps}
  \cup {Cmd("killl", n, "", "", <<>>) : n \in KillLNums}
  \cup {Cmd("mon", b, "", "", <<>>) : b \in MonCmds}

VARIABLES S,     \* specification state
          h,     \* the script that led to it (hidden by the VIEW)
          rep,   \* how often `jobs` has reported slot j as finished
          res    \* exit status of the last command if the specification fixes it, else -1 (hidden)

vars == <<S, h, rep, res>>
view == <<S, rep>>

Usable(X, c) == ~Unspec(X, c)

\* Deeper scenarios within the same bound: the model may start after a fixed script.
Prefix ==
  CASE StartWith = "none" -> <<>>
    [] StartWith = "p3" -> <<Cmd("start", 1, "", "", <<>>), Cmd("start", 2, "", "", <<>>),
                             Cmd("start", 3, "", "", <<>>), Cmd("settle", 0, "", "", <<>>)>>
    [] StartWith = "p2" -> <<Cmd("start", 1, "", "", <<>>), Cmd("start", 2, "", "", <<>>),
                             Cmd("settle", 0, "", "", <<>>)>>
Lim == Len(Prefix) + MaxLen
RECURSIVE RunAll(_, _, _)
RunAll(SS, cmds, k) ==
  IF k > Len(cmds) THEN SS
  ELSE RunAll(UNION {{r.post : r \in StepCmd(X, cmds[k])} : X \in SS}, cmds, k + 1)

Init == /\ \E m \in Modes : S \in RunAll({InitS(m)}, Prefix, 1)
        /\ h = Prefix
        /\ rep = [j \in Slots |-> 0]
        /\ res = 0

Reports(out) == {out[k].nm : k \in {k \in DOMAIN out : out[k].st \in {"E", "K"}}}
Next ==
  /\ Len(h) < Lim
  /\ \E c \in Cmds :
       /\ Usable(S, c)
       /\ \E r \in StepCmd(S, c) :
            /\ S' = r.post
            /\ h' = Append(h, c)
            /\ res' = IF r.lo = r.hi THEN r.lo ELSE -1
            /\ rep' = IF c.k = "jobs" /\ ~r.outfree
                      THEN [j \in Slots |-> IF j \in Reports(r.out) THEN rep[j] + 1 ELSE rep[j]]
                      ELSE rep
Spec == Init /\ [][Next]_vars

\* Random walks (TLC simulation mode) for longer scripts: one command per step, drawn
\* uniformly from the kinds that have a command which returns and is not a plain error.
Good(X) == {c \in Cmds : Usable(X, c) /\ \E r \in StepCmd(X, c) : r.err # "y"}
WalkStep(c) ==
  \E r \in StepCmd(S, c) :
    /\ S' = r.post
    /\ h' = Append(h, c)
    /\ rep' = rep
    /\ res' = IF r.lo = r.hi THEN r.lo ELSE -1
PickKind(G, k) == RandomElement({c \in G : c.k = k})
PickFrom(G) == PickKind(G, RandomElement({d.k : d \in G}))
WalkNext == Len(h) < Lim /\ WalkStep(PickFrom(Good(S)))
WalkSpec == Init /\ [][WalkNext]_vars

-----------------------------------------------------------------------------
\* Properties TLC checks on the model

\* the JobListAbs consistency invariants hold after every action
TableConsistent == TabInv(S.t)
\* the table shows exactly the state of the job's process
TableMirrorsProcesses ==
  \A k \in DOMAIN S.t.jobs :
    LET x == S.t.jobs[k]
        p == S.ps[x.pid]
    IN x.st = p.st /\ x.code = p.code /\ x.sig = p.sig
\* `jobs` lists exactly the jobs of the table in number order, `+` on the current and
\* `-` on the previous job
ListingShape ==
  LET t == S.t
      L == Listing(t, Idx(t), "")
  IN /\ Len(L) = Len(t.jobs)
     /\ \A k \in 1..Len(L) - 1 : L[k].n < L[k + 1].n
     /\ {L[k].n - 1 : k \in DOMAIN L} = Idx(t)
     /\ \A k \in DOMAIN L : /\ (L[k].mk = "+") = (L[k].n - 1 = t.cur)
                            /\ (L[k].mk = "-") = (L[k].n - 1 = t.prev)
                            /\ L[k].mk \in {"+", "-", " "}
     /\ (t.jobs # <<>>) => Cardinality({k \in DOMAIN L : L[k].mk = "+"}) = 1
     /\ Cardinality({k \in DOMAIN L : L[k].mk = "-"}) = (IF Len(t.jobs) >= 2 THEN 1 ELSE 0)
\* a finished job is reported once and then gone
ReportedOnce == \A j \in Slots : rep[j] <= 1
ReportedThenGone ==
  [][\A j \in Slots : rep'[j] > rep[j] => j \notin PidOf(S'.t)]_vars
\* `wait %n` / `wait pid` returns the true status of the job's process, which has ended
WaitTrue ==
  [][(h' # h /\ h'[Len(h')].k = "wait" /\ Len(h'[Len(h')].ops) = 1) =>
       LET r == ResolveOp(S, h'[Len(h')].ops[1])      \* (scheduling does not change what an operand designates)
       IN r.k = "job" => /\ Dead(S'.ps[r.j]) /\ res' = StatusOf(S'.ps[r.j])
                         /\ r.j \notin PidOf(S'.t)]_vars
\* job numbers of surviving jobs never change
NumbersStable == [][StableNumbers(S.t, S'.t)]_vars

\* One line per distinct state: the witness script and the commands to try in it.
EmitState ==
  IF Len(h) < Lim
  THEN PrintT(ToJson([m |-> S.m0, h |-> h, next |-> {c \in Cmds : Usable(S, c)}]))
  ELSE TRUE
\* Simulation mode (random longer scripts): one line per completed random walk.
EmitWalk ==
  IF Len(h) = Lim THEN PrintT(ToJson([m |-> S.m0, h |-> h, next |-> {}])) ELSE TRUE
=============================================================================
