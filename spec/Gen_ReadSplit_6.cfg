SPECIFICATION Spec
CONSTANT MaxLen = 6
INVARIANT Emit
INVARIANT EmptyIfsLaw
