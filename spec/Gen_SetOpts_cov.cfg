\* G06: one root, depth 1 with the step fan only - used once for the coverage report
INIT Init
NEXT Next
VIEW View
CONSTANTS
  Depth = 1
  RootIds = {4}
  BigRoots = {4}
  Wide = FALSE
INVARIANT Emit
