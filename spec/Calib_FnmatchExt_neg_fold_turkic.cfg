INIT Init
NEXT Next
CONSTANTS
  Variant = "fold_turkic"
INVARIANT C_Turkic
