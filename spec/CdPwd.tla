------------------------------- MODULE CdPwd -------------------------------
(***************************************************************************)
(* G01 (specification growth): the `cd` and `pwd` built-ins and the        *)
(* shell's notion of the working directory.                                *)
(*                                                                         *)
(* Written from POSIX.1-2024 XCU `cd` (the numbered steps 1-10 of the      *)
(* DESCRIPTION, STDOUT, ENVIRONMENT VARIABLES), XCU `pwd`, XCU 2.5.3 /     *)
(* `sh` (initialisation of PWD from the environment) and the manual        *)
(* docs/src/builtins/cd.md, pwd.md (exit statuses, removal of redundant    *)
(* slashes, the empty CDPATH item).  Not written from the code.            *)
(*                                                                         *)
(* The model: a file tree (directories, regular files, symbolic links),    *)
(* the state [cwd, pwd, oldpwd, home, cdpath] and the operations           *)
(*   Start(T, cwd, env)         the shell starts in cwd with environment   *)
(*   SetVar(S, name, value)     HOME / CDPATH / OLDPWD are assigned        *)
(*   Cd(T, S, opts, args)       `cd opts... args...`                       *)
(*   Pwd(T, S, opts, args)      `pwd opts... args...`                      *)
(* each command returning the allowed exit statuses, the lines written to  *)
(* standard output and the successor state.  Where POSIX and the manual    *)
(* leave the outcome open the result is marked `unspec` (such cases are    *)
(* skipped and counted by the binding, never judged).                      *)
(*                                                                         *)
(* Pathnames are strings; a physical directory is the sequence of names    *)
(* leading to it from the root (<<>> is the root).  The value "" of a      *)
(* variable stands for "unset or empty": every clause of POSIX and of the  *)
(* manual treats the two alike for HOME, OLDPWD and CDPATH.                *)
(***************************************************************************)
EXTENDS Naturals, Sequences, FiniteSets, TLC

(***************************************************************************)
(* Strings.                                                                *)
(***************************************************************************)
RECURSIVE SplitAcc(_, _, _, _)
SplitAcc(s, i, sep, acc) ==
  IF i > Len(s) THEN acc
  ELSE LET c == SubSeq(s, i, i) IN
       IF c = sep THEN SplitAcc(s, i + 1, sep, Append(acc, ""))
       ELSE SplitAcc(s, i + 1, sep, [acc EXCEPT ![Len(acc)] = @ \o c])

\* the maximal sep-free pieces of s, empty ones included: "a//b" -> <<"a","","b">>
Split(s, sep) == SplitAcc(s, 1, sep, <<"">>)

\* the pathname components of s (XBD 3.254: the non-empty pieces between slashes)
Comps(s) == SelectSeq(Split(s, "/"), LAMBDA c : c # "")

IsAbs(s) == Len(s) > 0 /\ SubSeq(s, 1, 1) = "/"
EndsSlash(s) == Len(s) > 0 /\ SubSeq(s, Len(s), Len(s)) = "/"
DoubleSlash(s) == Len(s) >= 2 /\ SubSeq(s, 1, 2) = "//"

RECURSIVE JoinSl(_)
JoinSl(cs) == IF cs = <<>> THEN "" ELSE "/" \o Head(cs) \o JoinSl(Tail(cs))

\* the absolute pathname with exactly the components cs, no redundant slash
AbsStr(cs) == IF cs = <<>> THEN "/" ELSE JoinSl(cs)

\* "the concatenation of dir, a <slash> if dir did not end with a <slash>, and rel"
\* (cd steps 5 and 7)
Concat(dir, rel) == dir \o (IF EndsSlash(dir) THEN "" ELSE "/") \o rel

HasDot(cs) == \E i \in 1..Len(cs) : cs[i] \in {".", ".."}

SetMin(X) == CHOOSE x \in X : \A y \in X : x <= y

(***************************************************************************)
(* The file tree: a function from physical paths to [k, to]; k = "d"       *)
(* directory, "f" regular file, "l" symbolic link with target `to`.        *)
(***************************************************************************)
Kind(T, p) == IF p \in DOMAIN T THEN T[p].k ELSE "n"

Parent(p) == IF p = <<>> THEN <<>> ELSE SubSeq(p, 1, Len(p) - 1)

GoodName(c) == c # "" /\ c # "." /\ c # ".." /\ \A i \in 1..Len(c) : SubSeq(c, i, i) # "/"

WellFormedTree(T) ==
  /\ Kind(T, <<>>) = "d"
  /\ \A p \in DOMAIN T :
       /\ T[p].k \in {"d", "f", "l"}
       /\ (T[p].k = "l") = (T[p].to # "")
       /\ p # <<>> => /\ Kind(T, Parent(p)) = "d"
                      /\ GoodName(p[Len(p)])

HasLinks(T) == \E p \in DOMAIN T : T[p].k = "l"

\* More symbolic links than this in one resolution is ELOOP.  The bound is
\* the kernel's; the trees used are such that a resolution either needs far
\* fewer links or loops for ever, so that its value does not matter.
MaxLinks == 40

NoDir == [ok |-> FALSE, p |-> <<>>]

(***************************************************************************)
(* Pathname resolution (XBD 4.16) as far as `chdir` needs it: the          *)
(* directory named by components cs, starting in directory cur, following  *)
(* every symbolic link; fails if a component is missing, is not a          *)
(* directory or a link to one, or the links loop.                          *)
(***************************************************************************)
RECURSIVE Walk(_, _, _, _)
Walk(T, cur, cs, n) ==
  IF cs = <<>> THEN [ok |-> TRUE, p |-> cur]
  ELSE LET c == Head(cs)
           r == Tail(cs)
       IN IF c = "." THEN Walk(T, cur, r, n)
          ELSE IF c = ".." THEN Walk(T, Parent(cur), r, n)
          ELSE LET q == Append(cur, c)
                   k == Kind(T, q)
               IN IF k = "d" THEN Walk(T, q, r, n)
                  ELSE IF k = "l"
                       THEN IF n = 0 THEN NoDir
                            ELSE Walk(T, IF IsAbs(T[q].to) THEN <<>> ELSE cur, Comps(T[q].to) \o r, n - 1)
                       ELSE NoDir

\* the directory that pathname s names for a process whose working directory is cwd
DirAt(T, cwd, s) ==
  IF s = "" THEN NoDir ELSE Walk(T, IF IsAbs(s) THEN <<>> ELSE cwd, Comps(s), MaxLinks)

\* s is an absolute pathname of directory d without dot and dot-dot components
\* (what `pwd -L` and the start of the shell require of $PWD)
ValidPwd(T, d, s) ==
  /\ IsAbs(s)
  /\ ~HasDot(Comps(s))
  /\ DirAt(T, <<>>, s) = [ok |-> TRUE, p |-> d]

\* s is an absolute pathname of directory d
Names(T, d, s) == IsAbs(s) /\ DirAt(T, <<>>, s) = [ok |-> TRUE, p |-> d]

(***************************************************************************)
(* cd step 8: conversion of an absolute curpath to canonical form,         *)
(* "considering each component from beginning to end, in sequence":        *)
(*  a. dot components are deleted;                                         *)
(*  b. for each dot-dot component with a preceding component that is       *)
(*     neither root nor dot-dot: if the preceding component does not refer *)
(*     (with symbolic links followed) to a directory, cd fails; else the   *)
(*     preceding component and the dot-dot are deleted;                    *)
(*  c. (manual: always) redundant slashes are removed.                     *)
(* A dot-dot that directly follows the root (or another such dot-dot) is   *)
(* kept.  `out` is the canonical prefix built so far.                      *)
(***************************************************************************)
RECURSIVE CanonAcc(_, _, _)
CanonAcc(T, cs, out) ==
  IF cs = <<>> THEN [ok |-> TRUE, cs |-> out]
  ELSE LET c == Head(cs)
           r == Tail(cs)
       IN IF c = "." THEN CanonAcc(T, r, out)
          ELSE IF c = ".."
               THEN IF (IF out = <<>> THEN TRUE ELSE out[Len(out)] = "..")
                    THEN CanonAcc(T, r, Append(out, ".."))
                    ELSE IF DirAt(T, <<>>, AbsStr(out)).ok
                         THEN CanonAcc(T, r, SubSeq(out, 1, Len(out) - 1))
                         ELSE [ok |-> FALSE, cs |-> out]
               ELSE CanonAcc(T, r, Append(out, c))

Canon(T, s) == LET r == CanonAcc(T, Comps(s), <<>>) IN [ok |-> r.ok, s |-> AbsStr(r.cs)]

(***************************************************************************)
(* Utility syntax (XBD 12.2): option arguments as written, e.g.            *)
(* <<"-L", "-Pe">>; "--" ends the options.  Result: the letters given.     *)
(***************************************************************************)
\* The manual's long names (a non-standard extension) stand for their letters;
\* any other long option is the unknown letter "?".
LongLetter(o) ==
  CASE o = "--logical" -> "L" [] o = "--physical" -> "P" [] o = "--ensure-pwd" -> "e" [] OTHER -> "?"

RECURSIVE Letters(_)
Letters(opts) ==
  IF (IF opts = <<>> THEN TRUE ELSE Head(opts) = "--") THEN <<>>
  ELSE LET o == Head(opts) IN
       (IF Len(o) > 2 /\ SubSeq(o, 1, 2) = "--" THEN <<LongLetter(o)>>
        ELSE [i \in 1..(Len(o) - 1) |-> SubSeq(o, i + 1, i + 1)]) \o Letters(Tail(opts))

\* "-L / -P: if both are specified, the last of these options shall be used";
\* "if neither is specified, the default is -L"
ModeOf(ls) ==
  LET I == {i \in 1..Len(ls) : ls[i] \in {"L", "P"}} IN
  IF I = {} THEN "L" ELSE ls[CHOOSE i \in I : \A j \in I : j <= i]

(***************************************************************************)
(* State and results.                                                      *)
(***************************************************************************)
\* ro: which of PWD, OLDPWD have been made read-only
MkState(cwd, pwd, oldpwd, home, cdpath) ==
  [cwd |-> cwd, pwd |-> pwd, oldpwd |-> oldpwd, home |-> home, cdpath |-> cdpath, ro |-> {}]

\* st = <<lo, hi>>: the exit status must lie in lo..hi
Res(S, lo, hi, out) == [st |-> <<lo, hi>>, out |-> out, S |-> S, unspec |-> FALSE]
Fails(S, status) == Res(S, status, status, <<>>)
Unspec(S) == [st |-> <<0, 255>>, out |-> <<>>, S |-> S, unspec |-> TRUE]

(***************************************************************************)
(* Start of the shell (XCU `sh`, ENVIRONMENT VARIABLES, PWD): "if a value  *)
(* for PWD is passed to the shell in the environment when it is executed,  *)
(* the value is an absolute pathname of the current working directory      *)
(* [...] and the value does not contain any components that are dot or     *)
(* dot-dot, then the shell shall set PWD to the value from the             *)
(* environment.  [...] Otherwise the sh utility sets PWD to the pathname    *)
(* that would be output by pwd -P."  env = [pwd, oldpwd, home, cdpath].    *)
(***************************************************************************)
Start(T, cwd, env) ==
  MkState(cwd, IF ValidPwd(T, cwd, env.pwd) THEN env.pwd ELSE AbsStr(cwd), env.oldpwd, env.home, env.cdpath)

\* name = "readonly": `readonly val` (val is PWD or OLDPWD)
SetVar(S, name, val) ==
  CASE name = "HOME" -> [S EXCEPT !.home = val]
    [] name = "CDPATH" -> [S EXCEPT !.cdpath = val]
    [] name = "OLDPWD" -> [S EXCEPT !.oldpwd = val]
    [] name = "readonly" -> [S EXCEPT !.ro = @ \cup {val}]

(***************************************************************************)
(* cd steps 3-6: the search through CDPATH.  Applies if the operand does   *)
(* not begin with a slash and its first component is neither dot nor       *)
(* dot-dot.  A non-empty item: "the concatenation of that pathname, a      *)
(* <slash> if that pathname did not end with a <slash>, and the operand";  *)
(* an empty item: "dot, a <slash>, and the operand".  The first candidate  *)
(* that names a directory becomes curpath; the new directory is printed    *)
(* if "a non-empty directory name from CDPATH is used".  (Manual: with an  *)
(* empty item the operand is used as is - the same directory and the same  *)
(* canonical form.)                                                        *)
(***************************************************************************)
Eligible(opnd) == ~IsAbs(opnd) /\ Split(opnd, "/")[1] \notin {".", ".."}

CdpathSearch(T, S, opnd) ==
  LET items == IF S.cdpath = "" THEN <<>> ELSE Split(S.cdpath, ":")
      Cand(i) == IF items[i] = "" THEN Concat(".", opnd) ELSE Concat(items[i], opnd)
      hits == {i \in 1..Len(items) : DirAt(T, S.cwd, Cand(i)).ok}
  IN IF ~Eligible(opnd) \/ hits = {} THEN [cur |-> opnd, pr |-> FALSE]
     ELSE LET i == SetMin(hits) IN
          IF items[i] = "" THEN [cur |-> opnd, pr |-> FALSE] ELSE [cur |-> Cand(i), pr |-> TRUE]

\* step 10 done: the working directory is d, "the PWD environment variable
\* shall be set", OLDPWD "shall be set to the value of the old working
\* directory (that is the value of PWD immediately prior to the call)"
\* Manual: "The built-in may also fail if PWD or OLDPWD is read-only.  In this
\* case, the working directory remains changed, but the variable is not
\* updated" and the exit status is 1.  (What is printed then is left open.)
Changed(S, d, newpwd, pr) ==
  IF S.ro = {} THEN Res([S EXCEPT !.cwd = d, !.pwd = newpwd, !.oldpwd = S.pwd], 0, 0, IF pr THEN <<newpwd>> ELSE <<>>)
  ELSE IF pr THEN Unspec(S)
  ELSE Res([S EXCEPT !.cwd = d,
                     !.pwd = IF "PWD" \in S.ro THEN @ ELSE newpwd,
                     !.oldpwd = IF "OLDPWD" \in S.ro THEN @ ELSE S.pwd], 1, 1, <<>>)

(***************************************************************************)
(* cd.  Exit statuses as in the manual: 2 chdir failed, 3 a dot-dot        *)
(* follows something that is not a directory, 4 HOME / OLDPWD unset or     *)
(* empty, 5 invalid arguments; POSIX only says > 0.  A failing cd changes  *)
(* nothing and prints nothing to standard output.                          *)
(***************************************************************************)
Cd(T, S, opts, args) ==
  LET ls == Letters(opts)
      mode == ModeOf(ls)
      ens == \E i \in 1..Len(ls) : ls[i] = "e"
      has == Len(args) = 1
      arg == IF has THEN args[1] ELSE ""
  IN
  IF (\E i \in 1..Len(ls) : ls[i] \notin {"L", "P", "e"}) \/ Len(args) > 1 THEN Fails(S, 5)
  ELSE IF ens /\ mode = "L" THEN Unspec(S)                  \* synopsis: cd [-L|-P [-e]]
  ELSE IF has /\ arg = "" THEN Res(S, 1, 255, <<>>)         \* "an empty string: [...] exit with non-zero status"
  ELSE IF ~has /\ S.home = "" THEN Fails(S, 4)              \* step 1 (manual: an error)
  ELSE IF has /\ arg = "-" /\ S.oldpwd = "" THEN Fails(S, 4)
  ELSE
    LET opnd == IF ~has THEN S.home ELSE IF arg = "-" THEN S.oldpwd ELSE arg   \* step 2; `cd -` = cd "$OLDPWD" && pwd
        h == CdpathSearch(T, S, opnd)
        pr == (has /\ arg = "-") \/ h.pr
    IN
    IF mode = "P"
    THEN \* step 7 -> step 10: chdir(curpath); PWD := what `pwd -P` would print
         LET d == DirAt(T, S.cwd, h.cur) IN
         IF d.ok THEN Changed(S, d.p, AbsStr(d.p), pr) ELSE Fails(S, 2)
    ELSE \* step 7: make curpath absolute with $PWD; step 8; step 10
         IF ~IsAbs(h.cur) /\ ~Names(T, S.cwd, S.pwd)
         THEN Unspec(S)     \* $PWD does not name the working directory: manual "unspecified"
         ELSE LET full == IF IsAbs(h.cur) THEN h.cur ELSE Concat(S.pwd, h.cur) IN
              IF DoubleSlash(full) THEN Unspec(S)           \* two leading slashes: implementation-defined
              ELSE LET c == Canon(T, full) IN
                   IF ~c.ok THEN Fails(S, 3)
                   ELSE LET d == DirAt(T, <<>>, c.s) IN
                        IF d.ok THEN Changed(S, d.p, c.s, pr) ELSE Fails(S, 2)

(***************************************************************************)
(* pwd.  -L: "if the PWD environment variable contains an absolute         *)
(* pathname of the current directory and the pathname does not contain any *)
(* components that are dot or dot-dot, pwd shall write this pathname to    *)
(* standard output [...] Otherwise, the -L option shall behave as the -P   *)
(* option."  -P: "the pathname written shall not contain any components    *)
(* that are dot or dot-dot, or are symbolic links".  No operands.          *)
(***************************************************************************)
Pwd(T, S, opts, args) ==
  LET ls == Letters(opts) IN
  IF (\E i \in 1..Len(ls) : ls[i] \notin {"L", "P"}) \/ Len(args) > 0 THEN Unspec(S)   \* synopsis: pwd [-L|-P]
  ELSE IF ModeOf(ls) = "L" /\ ValidPwd(T, S.cwd, S.pwd) THEN Res(S, 0, 0, <<S.pwd>>)
  ELSE Res(S, 0, 0, <<AbsStr(S.cwd)>>)

(***************************************************************************)
(* A step: assignments to HOME / CDPATH / OLDPWD, then one command.        *)
(* step = [pre: sequence of <<name, value>>, k: "cd" | "pwd", opts, args]. *)
(***************************************************************************)
RECURSIVE ApplyPre(_, _)
ApplyPre(S, pre) == IF pre = <<>> THEN S ELSE ApplyPre(SetVar(S, Head(pre)[1], Head(pre)[2]), Tail(pre))

Step(T, S, step) ==
  LET S1 == ApplyPre(S, step.pre) IN
  IF step.k = "cd" THEN Cd(T, S1, step.opts, step.args) ELSE Pwd(T, S1, step.opts, step.args)

(***************************************************************************)
(* What TLC checks about the specification itself (evaluated by the        *)
(* driver Gen_CdPwd for every reachable state S, every step of the fan and *)
(* its result R).  A failure is a defect of the specification.             *)
(***************************************************************************)
\* dot-dot components only where cd step 8b keeps them: directly after the root
OnlyLeadingDotDot(cs) == \A i \in 1..Len(cs) : cs[i] = ".." => \A j \in 1..i : cs[j] = ".."

\* after a successful cd: $PWD is an absolute pathname of the new working
\* directory, free of dot components and of removable dot-dot components
\* and of redundant slashes; with -P it holds no symbolic link; $OLDPWD is
\* the previous $PWD
ThmSuccess(T, S1, mode, R) ==
  (R.st = <<0, 0>> /\ ~R.unspec) =>
     /\ IsAbs(R.S.pwd)
     /\ DirAt(T, <<>>, R.S.pwd) = [ok |-> TRUE, p |-> R.S.cwd]
     /\ Kind(T, R.S.cwd) = "d"
     /\ R.S.pwd = AbsStr(Comps(R.S.pwd))
     /\ \A i \in 1..Len(Comps(R.S.pwd)) : Comps(R.S.pwd)[i] # "."
     /\ OnlyLeadingDotDot(Comps(R.S.pwd))
     /\ (mode = "P" => R.S.pwd = AbsStr(R.S.cwd))
     /\ R.S.oldpwd = S1.pwd
     /\ R.S.home = S1.home /\ R.S.cdpath = S1.cdpath
     /\ R.out \in {<<>>, <<R.S.pwd>>}

\* a failing cd changes nothing and prints nothing (the one exception: the
\* working directory changed but a read-only variable could not follow)
ThmFailure(S1, R) == (R.st[1] > 0 /\ S1.ro = {}) => (R.S = S1 /\ R.out = <<>>)

\* read-only PWD / OLDPWD: the working directory changes exactly as it would
\* otherwise, the read-only variable keeps its value, the other one is updated
ThmReadonly(T, S1, opts, args, R) ==
  (S1.ro # {} /\ ~R.unspec) =>
     LET R0 == Cd(T, [S1 EXCEPT !.ro = {}], opts, args) IN
     IF R0.st # <<0, 0>> THEN R.st = R0.st /\ R.S = S1
     ELSE /\ R.st = <<1, 1>> /\ R.S.cwd = R0.S.cwd
          /\ R.S.pwd = (IF "PWD" \in S1.ro THEN S1.pwd ELSE R0.S.pwd)
          /\ R.S.oldpwd = (IF "OLDPWD" \in S1.ro THEN S1.oldpwd ELSE S1.pwd)

\* `cd -` prints, and a second `cd -` is back where the first one started
ThmSwap(T, S1, R) ==
  (R.st = <<0, 0>> /\ ~R.unspec /\ ValidPwd(T, S1.cwd, S1.pwd) /\ S1.pwd = AbsStr(Comps(S1.pwd))) =>
     /\ R.out = <<R.S.pwd>>
     /\ LET R2 == Cd(T, R.S, <<>>, <<"-">>) IN
        /\ R2.st = <<0, 0>>
        /\ R2.S.cwd = S1.cwd /\ R2.S.pwd = S1.pwd /\ R2.S.oldpwd = R.S.pwd
        /\ R2.out = <<S1.pwd>>

\* logical dot-dot is lexical: `cd -L ..` strips the last component of $PWD
\* (whatever that component is, a symbolic link or not); physical dot-dot is
\* the parent of the working directory
ThmDotDot(T, S1) ==
  (ValidPwd(T, S1.cwd, S1.pwd)) =>
     LET RL == Cd(T, S1, <<"-L">>, <<"..">>)
         RP == Cd(T, S1, <<"-P">>, <<"..">>)
         cs == Comps(S1.pwd)
     IN /\ RP.st = <<0, 0>> /\ RP.S.cwd = Parent(S1.cwd) /\ RP.S.pwd = AbsStr(Parent(S1.cwd))
        /\ cs # <<>> => (RL.st = <<0, 0>> /\ RL.S.pwd = AbsStr(SubSeq(cs, 1, Len(cs) - 1)))

\* `cd -L x/..` with x a directory or a link to one stays where it is
ThmLinkDotDot(T, S1, name) ==
  (ValidPwd(T, S1.cwd, S1.pwd) /\ S1.pwd = AbsStr(Comps(S1.pwd)) /\ DirAt(T, S1.cwd, name).ok /\ GoodName(name)) =>
     LET R == Cd(T, [S1 EXCEPT !.cdpath = ""], <<"-L">>, <<name \o "/..">>) IN
     R.st = <<0, 0>> /\ R.S.pwd = S1.pwd /\ R.S.cwd = S1.cwd

\* pwd: -P prints the physical pathname; -L prints $PWD or the physical
\* pathname, in both cases an absolute pathname of the working directory
\* without dot components
ThmPwd(T, S1) ==
  LET RL == Pwd(T, S1, <<"-L">>, <<>>)
      RP == Pwd(T, S1, <<"-P">>, <<>>)
  IN /\ RP.out = <<AbsStr(S1.cwd)>> /\ RP.S = S1 /\ RL.S = S1
     /\ RL.out[1] \in {S1.pwd, AbsStr(S1.cwd)}
     /\ ValidPwd(T, S1.cwd, RL.out[1])

\* canonical form is a fixed point, and in a tree without symbolic links the
\* logical and the physical resolution of a pathname agree
ThmCanon(T, s) ==
  LET c == Canon(T, s) IN
  c.ok => /\ Canon(T, c.s) = c
          /\ (~HasLinks(T) => DirAt(T, <<>>, c.s) = DirAt(T, <<>>, s))
=============================================================================
