\* G14 negative configuration: the wrong variant "cluster-first" of SigNames.tla must be refuted by a law
SPECIFICATION Spec
CONSTANTS
  Level = "laws"
  Variant = "cluster-first"
INVARIANT LawsHold
