---------------------------- MODULE Gen_PipeK ----------------------------
(***************************************************************************)
(* Driver for the system-call level binding of C14 (spec -> impl): a small *)
(* implementation-shaped model of ONE pipe used by several actors, each    *)
(* with at most one request in flight.                                     *)
(*   Level "K": requests go straight to the simulated kernel               *)
(*     (VirtualSystem read / write in blocking or non-blocking mode,       *)
(*     select on the read end, the write end or both);                     *)
(*   Level "C": requests go through yash-env's Concurrent (read, write,    *)
(*     read_all, write_all) and `peek` is Concurrent's select with a zero  *)
(*     timeout, which wakes the tasks whose descriptor became ready.       *)
(* TLC explores the model with PIPE_BUF = 2, PIPE_SIZE = 4 and prints, for *)
(* every distinct state, the history that reaches it.  harness/c14 replays *)
(* each history on the real objects with the sizes scaled to the real      *)
(* constants (x256: all comparisons of the rules are homogeneous, so the   *)
(* scaled behaviour is the same) and mapped onto the boundaries            *)
(* 511/512/513/1023/1024/1025, and records every executed step as          *)
(* {pre, op, res, post}.  This module only DRIVES: the verdict on every    *)
(* recorded step comes from KStep in Trace_Pipe (PipeData's rules with the *)
(* real constants), so drift between this model and the code can never     *)
(* raise a false alarm; steps that do not apply are skipped and counted.   *)
(***************************************************************************)
EXTENDS PipeData, Json

CONSTANTS Level,      \* "K" | "C"
          Actors,     \* e.g. {1, 2}
          WSizes,     \* request sizes of writes
          RSizes,     \* request sizes of reads
          MaxH,       \* bound on the length of histories
          Spurious    \* BOOLEAN: also poll requests whose waker has not fired

VARIABLES occ, nr, nw,   \* occupancy, open read ends, open write ends
          act,           \* [Actors -> request in flight or Idle]
          regR, regW,    \* actors whose waker is registered for readability / writability
          woken,         \* actors whose waker has fired since their last poll
          h              \* history (hidden by VIEW)

vars == <<occ, nr, nw, act, regR, regW, woken, h>>
view == <<occ, nr, nw, act, regR, regW, woken>>

Idle == [k |-> "I", n |-> 0, blk |-> FALSE, done |-> 0]
Req(k, n, blk) == [k |-> k, n |-> n, blk |-> blk, done |-> 0]

ReadKinds  == {"R", "SR", "SB", "CR", "CRA"}      \* use the read end
WriteKinds == {"W", "SW", "SB", "CW", "CWA"}      \* use the write end

Requests ==
  IF Level = "K"
  THEN {Req("R", n, b) : n \in RSizes, b \in BOOLEAN} \cup {Req("W", n, b) : n \in WSizes, b \in BOOLEAN}
       \cup {Req("SR", 0, TRUE), Req("SW", 0, TRUE), Req("SB", 0, TRUE)}
  ELSE {Req("CR", n, TRUE) : n \in RSizes} \cup {Req("CW", n, TRUE) : n \in WSizes}
       \cup {Req("CWA", n, TRUE) : n \in WSizes} \cup {Req("CRA", 0, TRUE)}

Init == /\ occ = 0 /\ nr = 1 /\ nw = 1
        /\ act = [a \in Actors |-> Idle]
        /\ regR = {} /\ regW = {} /\ woken = {} /\ h = <<>>

StepRec(op, a, r) == [op |-> op, a |-> a, k |-> r.k, n |-> r.n, blk |-> r.blk]

\* effect of polling request r of actor a: [occ, r (Idle when finished), wakeR, wakeW, reg]
\* wakeR / wakeW: the pending-read / pending-write wakers of the pipe fire
Eff(o, r2, wr, ww, rg) == [occ |-> o, r |-> r2, wakeR |-> wr, wakeW |-> ww, reg |-> rg]

Poll(r) ==
  CASE r.k \in {"R", "CR"} ->
         LET x == ReadXfer(occ, nw, r.n)
         IN IF x = XBLOCK THEN (IF r.blk THEN Eff(occ, r, FALSE, FALSE, "R") ELSE Eff(occ, Idle, FALSE, FALSE, ""))
            ELSE Eff(occ - x, Idle, FALSE, TRUE, "")
    [] r.k = "CRA" ->
         IF nw = 0 THEN Eff(0, Idle, FALSE, occ > 0, "") ELSE Eff(0, r, FALSE, occ > 0, "R")
    [] r.k \in {"W", "CW"} /\ ~(r.k = "W" /\ r.blk) ->
         LET x == WriteXfer(occ, nr, r.n)
         IN IF x = XEPIPE THEN Eff(occ, Idle, FALSE, FALSE, "")
            ELSE IF x = XBLOCK THEN (IF r.k = "CW" THEN Eff(occ, r, FALSE, FALSE, "W") ELSE Eff(occ, Idle, FALSE, FALSE, ""))
            ELSE Eff(occ + x, Idle, TRUE, FALSE, "")
    [] r.k = "CWA" \/ (r.k = "W" /\ r.blk) ->      \* loops until everything is written or nothing fits
         LET rem == r.n - r.done
             x == WriteXfer(occ, nr, rem)
         IN IF x = XEPIPE THEN Eff(occ, Idle, FALSE, FALSE, "")
            ELSE IF x = XBLOCK THEN Eff(occ, r, FALSE, FALSE, "W")
            ELSE IF x = rem THEN Eff(occ + x, Idle, TRUE, FALSE, "")
            ELSE Eff(occ + x, [r EXCEPT !.done = @ + x], TRUE, FALSE, "W")
    [] r.k = "SR" -> IF ReadyR(occ, nw) THEN Eff(occ, Idle, FALSE, FALSE, "") ELSE Eff(occ, r, FALSE, FALSE, "R")
    [] r.k = "SW" -> IF ReadyW(occ, nr) THEN Eff(occ, Idle, FALSE, FALSE, "") ELSE Eff(occ, r, FALSE, FALSE, "W")
    [] r.k = "SB" -> IF ReadyR(occ, nw) \/ ReadyW(occ, nr) THEN Eff(occ, Idle, FALSE, FALSE, "")
                     ELSE Eff(occ, r, FALSE, FALSE, "RW")

Apply(a, r, step) ==
  LET e == Poll(r)
      \* at level K the pipe's wakers are the actors' own; at level C the
      \* tasks are woken by `peek` only
      fired == IF Level = "K" THEN (IF e.wakeR THEN regR ELSE {}) \cup (IF e.wakeW THEN regW ELSE {}) ELSE {}
  IN /\ occ' = e.occ
     /\ act' = [act EXCEPT ![a] = e.r]
     /\ regR' = ((IF Level = "K" /\ e.wakeR THEN {} ELSE regR) \ {a}) \cup (IF e.reg \in {"R", "RW"} THEN {a} ELSE {})
     /\ regW' = ((IF Level = "K" /\ e.wakeW THEN {} ELSE regW) \ {a}) \cup (IF e.reg \in {"W", "RW"} THEN {a} ELSE {})
     /\ woken' = (woken \cup fired) \ {a}
     /\ h' = Append(h, step)
     /\ UNCHANGED <<nr, nw>>

Start(a, r) ==
  /\ act[a] = Idle
  /\ r.k \in ReadKinds => nr = 1
  /\ r.k \in WriteKinds => nw = 1
  \* Concurrent switches the descriptor to non-blocking mode for the duration
  \* of a request and restores the mode afterwards, which presupposes ONE
  \* request at a time per descriptor -- what a shell process does (it runs a
  \* single task); two requests on one descriptor are outside C14
  /\ Level = "C" => \A b \in Actors \ {a} :
                       /\ ~(act[b].k \in ReadKinds /\ r.k \in ReadKinds)
                       /\ ~(act[b].k \in WriteKinds /\ r.k \in WriteKinds)
  /\ Apply(a, r, StepRec("start", a, r))

PollStep(a) ==
  /\ act[a] # Idle
  /\ Spurious \/ a \in woken
  /\ Apply(a, act[a], StepRec("poll", a, act[a]))

\* Concurrent::peek: every task registered for a descriptor that is ready is woken
Peek ==
  /\ Level = "C"
  /\ LET rdy == (IF ReadyR(occ, nw) THEN regR ELSE {}) \cup (IF ReadyW(occ, nr) THEN regW ELSE {})
     IN /\ rdy # {}
        /\ woken' = woken \cup rdy
        /\ regR' = IF ReadyR(occ, nw) THEN {} ELSE regR
        /\ regW' = IF ReadyW(occ, nr) THEN {} ELSE regW
  /\ h' = Append(h, StepRec("peek", 0, Idle))
  /\ UNCHANGED <<occ, nr, nw, act>>

\* an end is closed only while no request uses it (the request holds the
\* open file description)
CloseR ==
  /\ nr = 1 /\ \A a \in Actors : act[a].k \notin ReadKinds
  /\ nr' = 0
  /\ woken' = woken \cup (IF Level = "K" THEN regR \cup regW ELSE {})
  /\ regR' = IF Level = "K" THEN {} ELSE regR
  /\ regW' = IF Level = "K" THEN {} ELSE regW
  /\ h' = Append(h, StepRec("closeR", 0, Idle))
  /\ UNCHANGED <<occ, nw, act>>
CloseW ==
  /\ nw = 1 /\ \A a \in Actors : act[a].k \notin WriteKinds
  /\ nw' = 0
  /\ woken' = woken \cup (IF Level = "K" THEN regR \cup regW ELSE {})
  /\ regR' = IF Level = "K" THEN {} ELSE regR
  /\ regW' = IF Level = "K" THEN {} ELSE regW
  /\ h' = Append(h, StepRec("closeW", 0, Idle))
  /\ UNCHANGED <<occ, nr, act>>

Next == \/ \E a \in Actors : (\E r \in Requests : Start(a, r)) \/ PollStep(a)
        \/ Peek \/ CloseR \/ CloseW

Spec == Init /\ [][Next]_vars

Bound == Len(h) < MaxH

TypeOK == occ \in 0 .. PIPE_SIZE /\ regR \subseteq Actors /\ regW \subseteq Actors

\* one line per distinct state: the history that reaches it
Emit == h = <<>> \/ PrintT(ToJson([h |-> h]))
=============================================================================
