SPECIFICATION TraceSpec
CONSTANTS
  MaxLen = 0
  Kinds = {}
  PadKinds = {}
  Feeds = {"fd"}
  MaxLenC = 0
  KindsC = {}
  ChunkSizes = {0}
POSTCONDITION Accepted
CHECK_DEADLOCK FALSE
