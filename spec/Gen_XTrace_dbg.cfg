SPECIFICATION Spec
CONSTANT Fams = {"fields"}
CONSTANT Deep = 0
CONSTANT NegVariant = "spec"
INVARIANT Laws
INVARIANT Emit
