SPECIFICATION TraceSpec
CONSTANTS
  Variant = "ok"
  MaxP = 9
  Scripts <- CatAll
POSTCONDITION Accepted
CHECK_DEADLOCK FALSE
