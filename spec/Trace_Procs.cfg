SPECIFICATION TraceSpec
CONSTANTS
  Variant = "ok"
  MaxP = 10
  Scripts <- CatAll
POSTCONDITION Accepted
CHECK_DEADLOCK FALSE
