SPECIFICATION Spec
CONSTANTS
  PIPE_BUF = 2
  PIPE_SIZE = 4
  Level = "C"
  Actors = {1, 2}
  WSizes = {1, 2, 3, 5}
  RSizes = {1, 2, 5}
  MaxH = 7
  Spurious = FALSE
VIEW view
CONSTRAINT Bound
INVARIANT TypeOK
INVARIANT Emit
