------------------------------ MODULE HereDoc ------------------------------
(***************************************************************************)
(* G03 - here-documents end to end.                                        *)
(*                                                                         *)
(* Written from POSIX.1-2024 XCU 2.7.4 (Here-Document), 2.2 (Quoting),     *)
(* 2.6.7 (Quote Removal) and the manual                                    *)
(* docs/src/language/redirections/here_documents.md - not from the code.   *)
(*                                                                         *)
(* Text is a TLA+ string; the input of the shell is a sequence of          *)
(* physical lines (strings without the terminating newline).               *)
(*                                                                         *)
(*  1  the delimiter word: quoting, quote removal                          *)
(*  2  reading the bodies: for each operator of a command line, in order,  *)
(*     the lines up to the first line equal to the delimiter (after tab    *)
(*     stripping for <<-, after line-continuation removal when the         *)
(*     delimiter is unquoted); Rest = the lines that follow                *)
(*  3  the content delivered: the body literally (quoted delimiter) or     *)
(*     expanded when the redirection is performed (backslash before        *)
(*     $ ` \ only; parameter, command, arithmetic expansion; quotes        *)
(*     literal; tabs that result from expansions are kept)                 *)
(*  4  scenarios: a command line with 1-3 operators in one of the shapes   *)
(*     and placements below, followed by lines; Expect gives the script    *)
(*     text, the events the probes must record (bytes each reader gets,    *)
(*     the commands that run after the bodies), the standard output, the   *)
(*     here-document nodes the parser must build and the one-line          *)
(*     printed form (bodies omitted by design)                             *)
(*                                                                         *)
(*     Shapes: post pre mid cat semi and pipe (see HeaderCmds).            *)
(*     Placements: top top2 seq comment brace sub func for subst pipeL     *)
(*     pipeR pipeNL andNL forin if while case bang never bredir fredir     *)
(*     exec alias eval bare (see HeadLine / TailLines).                    *)
(*                                                                         *)
(* Where POSIX and the manual leave the outcome open the class of the      *)
(* scenario is "unterm" / "unspec" (nothing is demanded beyond "no         *)
(* panic"); scenarios whose text leaves the modelled fragment are "skip".  *)
(***************************************************************************)
EXTENDS Naturals, Sequences, FiniteSets, TLC

---------------------------------------------------------------------------
(* 0  strings *)
At(s, i) == SubSeq(s, i, i)
From(s, i) == SubSeq(s, i, Len(s))
StartsAt(s, i, p) == i + Len(p) - 1 <= Len(s) /\ SubSeq(s, i, i + Len(p) - 1) = p
HdMin(S) == CHOOSE x \in S : \A y \in S : x <= y
HdMax(S) == CHOOSE x \in S : \A y \in S : y <= x
\* least j >= i at which p occurs in s, or 0
FindFrom(s, i, p) == LET J == {j \in i..Len(s) : StartsAt(s, j, p)} IN IF J = {} THEN 0 ELSE HdMin(J)

TAB == "\t"
BSL == "\\"
DQT == "\""
SQT == "'"
BQT == "`"
NLC == "\n"

RECURSIVE Cat(_)
Cat(ss) == IF ss = <<>> THEN "" ELSE Head(ss) \o Cat(Tail(ss))
\* lines, each terminated by a newline, as one string
LinesText(ls) == Cat([i \in 1..Len(ls) |-> ls[i] \o NLC])
RECURSIVE JoinWith(_, _)
JoinWith(ss, sep) == IF ss = <<>> THEN "" ELSE IF Len(ss) = 1 THEN ss[1] ELSE ss[1] \o sep \o JoinWith(Tail(ss), sep)

LowerLetters == {"a","b","c","d","e","f","g","h","i","j","k","l","m","n","o","p","q","r","s","t","u","v","w","x","y","z"}
UpperLetters == {"A","B","C","D","E","F","G","H","I","J","K","L","M","N","O","P","Q","R","S","T","U","V","W","X","Y","Z"}
Digits == {"0","1","2","3","4","5","6","7","8","9"}
NameStart == LowerLetters \cup UpperLetters \cup {"_"}
NameChar == NameStart \cup Digits
AllIn(s, C) == \A i \in 1..Len(s) : At(s, i) \in C
IsName(s) == Len(s) > 0 /\ At(s, 1) \in NameStart /\ AllIn(s, NameChar)
IsDigits(s) == Len(s) > 0 /\ AllIn(s, Digits)
DigitVal(c) == CHOOSE k \in 0..9 : ToString(k) = c
RECURSIVE Num(_)
Num(t) == IF Len(t) = 0 THEN 0 ELSE Num(SubSeq(t, 1, Len(t) - 1)) * 10 + DigitVal(At(t, Len(t)))

LeadTabs(l) == HdMax({k \in 0..Len(l) : \A j \in 1..k : At(l, j) = TAB})
\* XCU 2.7.4: "all leading <tab> characters shall be stripped"; only tabs, not spaces (manual)
StripTabs(l) == From(l, LeadTabs(l) + 1)
TrailBS(l) == HdMax({k \in 0..Len(l) : \A j \in (Len(l) - k + 1)..Len(l) : At(l, j) = BSL})
\* a <backslash><newline> pair: the newline is preceded by a backslash that is
\* not itself escaped by a backslash (odd run of backslashes before the newline)
EndsWithContinuation(l) == TrailBS(l) % 2 = 1

---------------------------------------------------------------------------
(* 1  the delimiter word (XCU 2.7.4: "If any part of word is quoted ... the *)
(* delimiter shall be formed by performing quote removal on word ...       *)
(* Otherwise the delimiter shall be the word itself")                      *)
HasQuote(w) == \E i \in 1..Len(w) : At(w, i) \in {SQT, DQT, BSL}

RECURSIVE QR(_, _, _)        \* quote removal, XCU 2.2.1-2.2.3; m: "u" unquoted, "s" '...', "d" "..."
QR(w, i, m) ==
  IF i > Len(w) THEN ""
  ELSE LET c == At(w, i) IN
    IF m = "s" THEN (IF c = SQT THEN QR(w, i + 1, "u") ELSE c \o QR(w, i + 1, "s"))
    ELSE IF m = "d" THEN
      (IF c = DQT THEN QR(w, i + 1, "u")
       ELSE IF c = BSL /\ i < Len(w) /\ At(w, i + 1) \in {"$", BQT, DQT, BSL}
            THEN At(w, i + 1) \o QR(w, i + 2, "d")
       ELSE c \o QR(w, i + 1, "d"))
    ELSE
      (IF c = SQT THEN QR(w, i + 1, "s")
       ELSE IF c = DQT THEN QR(w, i + 1, "d")
       ELSE IF c = BSL /\ i < Len(w) THEN At(w, i + 1) \o QR(w, i + 2, "u")
       ELSE c \o QR(w, i + 1, "u"))

Quoted(op) == HasQuote(op.word)
Delim(op) == IF Quoted(op) THEN QR(op.word, 1, "u") ELSE op.word

---------------------------------------------------------------------------
(* 2  reading the bodies *)

\* Quoted delimiter: physical lines, literally.
RECURSIVE ReadQ(_, _, _, _)
ReadQ(d, strip, lines, acc) ==
  IF lines = <<>> THEN [ok |-> FALSE, open |-> FALSE, body |-> acc, rest |-> <<>>]
  ELSE LET l == IF strip THEN StripTabs(Head(lines)) ELSE Head(lines) IN
       IF l = d THEN [ok |-> TRUE, open |-> FALSE, body |-> acc, rest |-> Tail(lines)]
       ELSE ReadQ(d, strip, Tail(lines), Append(acc, l))

\* Unquoted delimiter: "the removal of <backslash><newline> for line
\* continuation shall be performed during the search for the trailing
\* delimiter".  Logical(lines): the logical line at the head of lines -
\* joined text, number of physical lines, cut = the input ended inside it.
RECURSIVE Logical(_)
Logical(lines) ==
  LET l == Head(lines) IN
  IF EndsWithContinuation(l) THEN
    IF Len(lines) = 1 THEN [text |-> SubSeq(l, 1, Len(l) - 1), n |-> 1, cut |-> TRUE, last |-> ""]
    ELSE LET r == Logical(Tail(lines))
         IN [text |-> SubSeq(l, 1, Len(l) - 1) \o r.text, n |-> r.n + 1, cut |-> r.cut, last |-> r.last]
  ELSE [text |-> l, n |-> 1, cut |-> FALSE, last |-> l]

\* A logical line made of several physical lines that spells the delimiter:
\* "(As a consequence, the trailing delimiter is not recognized immediately
\* after a <newline> that was removed by line continuation.)" - when the
\* delimiter is all there is after the removed newline(s) it is body text;
\* the other splittings (E\ + empty line) are left open.
RECURSIVE ReadU(_, _, _, _)
ReadU(d, strip, lines, acc) ==
  IF lines = <<>> THEN [ok |-> FALSE, open |-> FALSE, body |-> acc, rest |-> <<>>]
  ELSE LET L == Logical(lines)
           t == IF strip THEN StripTabs(L.text) ELSE L.text
       IN IF L.cut THEN [ok |-> FALSE, open |-> FALSE, body |-> acc, rest |-> <<>>]
          ELSE IF t = d /\ L.n = 1
               THEN [ok |-> TRUE, open |-> FALSE, body |-> acc, rest |-> SubSeq(lines, 2, Len(lines))]
          ELSE IF t = d /\ L.last # L.text
               THEN [ok |-> FALSE, open |-> TRUE, body |-> acc, rest |-> <<>>]
          ELSE ReadU(d, strip, SubSeq(lines, L.n + 1, Len(lines)), Append(acc, t))

ReadOne(op, lines) == IF Quoted(op) THEN ReadQ(Delim(op), op.strip, lines, <<>>)
                      ELSE ReadU(Delim(op), op.strip, lines, <<>>)

\* "If more than one << or <<- operator is specified on a line, the
\* here-document associated with the first operator shall be supplied first"
RECURSIVE ReadAll(_, _)
ReadAll(ops, lines) ==
  IF ops = <<>> THEN [ok |-> TRUE, open |-> FALSE, bodies |-> <<>>, rest |-> lines]
  ELSE LET r == ReadOne(Head(ops), lines) IN
       IF ~r.ok THEN [ok |-> FALSE, open |-> r.open, bodies |-> <<>>, rest |-> <<>>]
       ELSE LET q == ReadAll(Tail(ops), r.rest)
            IN [ok |-> q.ok, open |-> q.open, bodies |-> <<r.body>> \o q.bodies, rest |-> q.rest]

---------------------------------------------------------------------------
(* 3  content.  Units of a text in an unquoted here-document: "Any          *)
(* <backslash> characters in the input shall behave as the <backslash>     *)
(* inside double-quotes"; manual: "Backslash escapes work only before $, ` *)
(* and \.  Other backslashes are literal" ... "Single and double quotes    *)
(* in the here-document content are treated literally".  Modelled          *)
(* expansions: $name ${name} $((sum of literals and names)) $(echo words)  *)
(* `echo words`; anything else starting with $ or ` is "bad" (outside the  *)
(* modelled fragment).                                                     *)
Lit(c) == [k |-> "lit", v |-> c]
NameEnd(s, i) == HdMax({j \in i..Len(s) : \A m \in i..j : At(s, m) \in NameChar})

RECURSIVE Units(_, _)
Units(s, i) ==
  IF i > Len(s) THEN <<>>
  ELSE LET c == At(s, i) IN
    IF c = BSL THEN
      IF i < Len(s) /\ At(s, i + 1) \in {"$", BQT, BSL}
      THEN <<Lit(At(s, i + 1))>> \o Units(s, i + 2)
      ELSE <<Lit(BSL)>> \o Units(s, i + 1)
    ELSE IF c = "$" THEN
      IF StartsAt(s, i, "$((") THEN
        LET j == FindFrom(s, i + 3, "))") IN
        IF j = 0 THEN <<[k |-> "bad", v |-> ""]>>
        ELSE <<[k |-> "arith", v |-> SubSeq(s, i + 3, j - 1)]>> \o Units(s, j + 2)
      ELSE IF StartsAt(s, i, "$(") THEN
        LET j == FindFrom(s, i + 2, ")") IN
        IF j = 0 THEN <<[k |-> "bad", v |-> ""]>>
        ELSE <<[k |-> "cmd", v |-> SubSeq(s, i + 2, j - 1)]>> \o Units(s, j + 1)
      ELSE IF StartsAt(s, i, "${") THEN
        LET j == FindFrom(s, i + 2, "}") IN
        IF j = 0 \/ ~IsName(SubSeq(s, i + 2, j - 1)) THEN <<[k |-> "bad", v |-> ""]>>
        ELSE <<[k |-> "var", v |-> SubSeq(s, i + 2, j - 1)]>> \o Units(s, j + 1)
      ELSE IF i < Len(s) /\ At(s, i + 1) \in NameStart THEN
        \* XCU 2.6.2: "the longest valid name"
        LET j == NameEnd(s, i + 1) IN <<[k |-> "var", v |-> SubSeq(s, i + 1, j)]>> \o Units(s, j + 1)
      ELSE <<[k |-> "bad", v |-> ""]>>
    ELSE IF c = BQT THEN
      LET j == FindFrom(s, i + 1, BQT) IN
      IF j = 0 THEN <<[k |-> "bad", v |-> ""]>>
      ELSE <<[k |-> "cmd", v |-> SubSeq(s, i + 1, j - 1)]>> \o Units(s, j + 1)
    ELSE <<Lit(c)>> \o Units(s, i + 1)

Val(V, name) == IF name \in DOMAIN V THEN V[name] ELSE ""

\* arithmetic: t1+t2+...; a term is a decimal literal or a variable holding one
RECURSIVE SplitPlus(_)
SplitPlus(e) == LET j == FindFrom(e, 1, "+") IN
                IF j = 0 THEN <<e>> ELSE <<SubSeq(e, 1, j - 1)>> \o SplitPlus(From(e, j + 1))
TrimSp(t) == LET I == {j \in 1..Len(t) : At(t, j) # " "}
             IN IF I = {} THEN "" ELSE SubSeq(t, HdMin(I), HdMax(I))
TermOK(u, V) == LET t == TrimSp(u) IN IsDigits(t) \/ (IsName(t) /\ IsDigits(Val(V, t)))
TermVal(u, V) == LET t == TrimSp(u) IN IF IsDigits(t) THEN Num(t) ELSE Num(Val(V, t))
RECURSIVE SumSeq(_)
SumSeq(ns) == IF ns = <<>> THEN 0 ELSE Head(ns) + SumSeq(Tail(ns))
ArithOK(e, V) == Len(e) <= 12 /\ \A i \in DOMAIN SplitPlus(e) : Len(TrimSp(SplitPlus(e)[i])) <= 3 /\ TermOK(SplitPlus(e)[i], V)
ArithVal(e, V) == LET ts == SplitPlus(e) IN ToString(SumSeq([i \in DOMAIN ts |-> TermVal(ts[i], V)]))

\* command substitution: `echo w1 w2` with literal words; XCU 2.6.3: the
\* output with trailing newlines removed
WordChars == LowerLetters \cup UpperLetters \cup Digits
CmdOK(c) == /\ StartsAt(c, 1, "echo ")
            /\ Len(c) > 5
            /\ AllIn(From(c, 6), WordChars \cup {" "})
            /\ At(c, 6) # " " /\ At(c, Len(c)) # " "
            /\ FindFrom(c, 6, "  ") = 0
CmdOut(c) == From(c, 6)

UnitOK(u, V) == CASE u.k = "bad" -> FALSE
                  [] u.k = "arith" -> ArithOK(u.v, V)
                  [] u.k = "cmd" -> CmdOK(u.v)
                  [] OTHER -> TRUE
UnitVal(u, V) == CASE u.k = "lit" -> u.v
                   [] u.k = "var" -> Val(V, u.v)
                   [] u.k = "arith" -> ArithVal(u.v, V)
                   [] u.k = "cmd" -> CmdOut(u.v)
                   [] OTHER -> "?"
TextOK(s, V) == LET us == Units(s, 1) IN \A i \in DOMAIN us : UnitOK(us[i], V)
ExpandText(s, V) == LET us == Units(s, 1) IN Cat([i \in DOMAIN us |-> UnitVal(us[i], V)])

\* the text of a body as read (what the parser keeps; what is printed)
Raw(body) == LinesText(body)
\* a body can be modelled: every logical line is made of modelled units
BodyOK(op, body, V) == Quoted(op) \/ \A i \in DOMAIN body : TextOK(body[i], V)
\* "All lines of the here-document shall be expanded, when the redirection
\* operator is evaluated" / "the here-document lines shall not be expanded"
Content(op, body, V) == IF Quoted(op) THEN Raw(body) ELSE ExpandText(Raw(body), V)

---------------------------------------------------------------------------
(* 4  scenarios *)

\* shell state set up by the first line of every script
V0 == [x |-> "vx", y |-> "a  b", n |-> "5", e |-> "", t |-> "\tT", d |-> "E"]
Prelude == "x=vx y='a  b' n=5 e= t='\tT' d=E"
WithVar(V, name, val) == [k \in DOMAIN V \cup {name} |-> IF k = name THEN val ELSE V[k]]
V1 == WithVar(V0, "x", "wx")
Vi(k) == WithVar(V0, "i", ToString(k))

\* an operator: [strip, word, fd, sp]  (sp: a blank between operator and word)
FdPfx(op) == IF op.fd = 0 THEN "" ELSE ToString(op.fd)
OpText(op) == FdPfx(op) \o (IF op.strip THEN "<<-" ELSE "<<") \o (IF op.sp THEN " " ELSE "") \o op.word
\* one-line printed form; a blank is needed only to keep `<< -E` apart from `<<- E`
OpPrinted(op) == FdPfx(op) \o (IF op.strip THEN "<<-" ELSE "<<")
                 \o (IF Len(op.word) > 0 /\ At(op.word, 1) = "-" THEN " " ELSE "") \o op.word
OpsText(ops, printed) == JoinWith([i \in DOMAIN ops |-> IF printed THEN OpPrinted(ops[i]) ELSE OpText(ops[i])], " ")

Tags == <<"a", "b", "c">>
\* descriptors of the operators, each once, in order of first occurrence
RECURSIVE DistinctFds(_, _)
DistinctFds(ops, seen) ==
  IF ops = <<>> THEN <<>>
  ELSE IF Head(ops).fd \in seen THEN DistinctFds(Tail(ops), seen)
  ELSE <<Head(ops).fd>> \o DistinctFds(Tail(ops), seen \cup {Head(ops).fd})
FdsText(fds) == JoinWith([i \in DOMAIN fds |-> ToString(fds[i])], " ")

\* the commands of the header line: texts, and how they are connected
\* shapes: post  rd a FDS OPS         pre   OPS rd a FDS      cat  cat OP [<&3]
\*         mid   rd a OPS FDS
\*         semi  rd a F1 OP1; rd b F2 OP2 ...     and  ... && ...     pipe ... | ...
HeaderCmds(h, printed) ==
  LET ops == h.ops IN
  CASE h.shape = "post" -> <<"rd a " \o FdsText(DistinctFds(ops, {})) \o " " \o OpsText(ops, printed)>>
    [] h.shape = "pre" -> IF printed THEN <<"rd a " \o FdsText(DistinctFds(ops, {})) \o " " \o OpsText(ops, printed)>>
                          ELSE <<OpsText(ops, printed) \o " rd a " \o FdsText(DistinctFds(ops, {}))>>
    [] h.shape = "mid" -> IF printed THEN <<"rd a " \o FdsText(DistinctFds(ops, {})) \o " " \o OpsText(ops, printed)>>
                          ELSE <<"rd a " \o OpsText(ops, printed) \o " " \o FdsText(DistinctFds(ops, {}))>>
    [] h.shape = "cat" -> <<"cat " \o OpsText(ops, printed) \o (IF ops[1].fd = 0 THEN "" ELSE " <&" \o ToString(ops[1].fd))>>
    [] OTHER -> [i \in DOMAIN ops |-> "rd " \o Tags[i] \o " " \o ToString(ops[i].fd) \o " " \o OpsText(<<ops[i]>>, printed)]
Connector(h) == CASE h.shape = "semi" -> "; " [] h.shape = "and" -> " && " [] h.shape = "pipe" -> " | " [] OTHER -> ""
HeaderText(h) == JoinWith(HeaderCmds(h, FALSE), Connector(h))

\* events: <<"rd", tag, fd, bytes>>  <<"probe", args...>>;  a group is a
\* sequence of events whose relative order is not fixed (pipeline stages)
RdEv(tag, fd, data) == <<"rd", tag, ToString(fd), data>>
Singletons(evs) == IF evs = <<>> THEN <<>> ELSE [i \in 1..Len(evs) |-> <<evs[i]>>]
RECURSIVE FlattenG(_)
FlattenG(gs) == IF gs = <<>> THEN <<>> ELSE Head(gs) \o FlattenG(Tail(gs))

\* the last operator for descriptor fd wins (redirections are performed left to right)
LastFor(ops, fd) == HdMax({i \in DOMAIN ops : ops[i].fd = fd})

\* what the header line does under variables V: event groups and standard output
HeaderRes(h, bodies, V) ==
  LET ops == h.ops
      C(i) == Content(ops[i], bodies[i], V)
  IN CASE h.shape \in {"post", "pre", "mid"} ->
            LET fds == DistinctFds(ops, {})
            IN [groups |-> Singletons([j \in DOMAIN fds |-> RdEv("a", fds[j], C(LastFor(ops, fds[j])))]), out |-> ""]
       [] h.shape = "cat" -> [groups |-> <<>>, out |-> C(1)]
       [] h.shape = "pipe" -> [groups |-> << [i \in DOMAIN ops |-> RdEv(Tags[i], ops[i].fd, C(i))] >>, out |-> ""]
       [] OTHER -> [groups |-> Singletons([i \in DOMAIN ops |-> RdEv(Tags[i], ops[i].fd, C(i))]), out |-> ""]

\* --- the lines after the bodies are commands --------------------------------
\* Modelled command lines: the two probe lines, blank lines, and "noise": a
\* simple command that names no utility (so it records nothing).  A noise
\* line is made of modelled units and harmless characters only.
SafeChars == LowerLetters \cup UpperLetters \cup Digits \cup {" ", TAB, "-", "_", "$", BQT, BSL}
QuoteLine == "\"q\" 'r'"
Blanks == {" ", TAB}
LeadBlanks(l) == HdMax({k \in 0..Len(l) : \A j \in 1..k : At(l, j) \in Blanks})
TrimLead(l) == From(l, LeadBlanks(l) + 1)
IsBlankLine(l) == AllIn(l, Blanks)
FirstWord(l) == LET t == TrimLead(l)
                    E == {j \in 1..Len(t) : At(t, j) \in Blanks}
                IN IF E = {} THEN t ELSE SubSeq(t, 1, HdMin(E) - 1)
\* a word of lower-case letters could name a utility or be a reserved word
NotAName(w) == ~AllIn(w, LowerLetters) \/ (Len(w) <= 2 /\ w \notin {"do", "fi", "if", "in", "cd", "bg", "fg", "rd"})
ProbeLines == {"probe k", "probe $i"}
IsProbeLine(l) == TrimLead(l) \in ProbeLines
SafeNoise(l, V) ==
  \/ l = QuoteLine
  \/ LET us == Units(l, 1) IN
     /\ \A i \in DOMAIN us : UnitOK(us[i], V) /\ (us[i].k = "lit" => us[i].v \in SafeChars)
     /\ NotAName(FirstWord(l))
CmdLineOK(l, V) == IsBlankLine(l) \/ IsProbeLine(l) \/ SafeNoise(l, V)
\* events of one command line
CmdEv(l, V) ==
  LET t == TrimLead(l) IN
  IF t = "probe k" THEN << <<"probe", "k">> >>
  ELSE IF t = "probe $i" THEN (IF Val(V, "i") = "" THEN << <<"probe">> >> ELSE << <<"probe", Val(V, "i")>> >>)
  ELSE <<>>

\* logical command lines of Rest (backslash-newline joins lines)
RECURSIVE CmdLines(_)
CmdLines(lines) ==
  IF lines = <<>> THEN [ok |-> TRUE, ls |-> <<>>]
  ELSE LET L == Logical(lines) IN
       IF L.cut THEN [ok |-> FALSE, ls |-> <<>>]
       ELSE LET r == CmdLines(SubSeq(lines, L.n + 1, Len(lines)))
            IN [ok |-> r.ok, ls |-> <<L.text>> \o r.ls]
RestOK(rest, V) == LET c == CmdLines(rest) IN c.ok /\ \A i \in DOMAIN c.ls : CmdLineOK(c.ls[i], V)
\* event groups of a sequence of command lines run one after the other
RestGroups(ls, V) == Singletons(FlattenG([i \in DOMAIN ls |-> CmdEv(ls[i], V)]))
RECURSIVE DropBlank(_)
DropBlank(ls) == IF ls = <<>> THEN <<>> ELSE IF IsBlankLine(Head(ls)) THEN DropBlank(Tail(ls)) ELSE ls

\* --- placements ------------------------------------------------------------
\* Head(place, H): the header line; TailLines(place): the lines after the
\* scenario's own lines.
SecondDoc == <<"rd k 0 <<'Q'", "q$x", "Q">>
HeadLine(h) ==
  LET H == HeaderText(h)
      op == h.ops[1]
      F == ToString(op.fd)
  IN CASE h.place \in {"top", "bare", "top2"} -> H
       [] h.place = "seq" -> "probe b; " \o H \o "; probe c"
       [] h.place = "comment" -> H \o " # <<X"
       [] h.place = "brace" -> "{ " \o H
       [] h.place = "sub" -> "( " \o H
       [] h.place = "func" -> "f() { " \o H
       [] h.place = "for" -> "for i in 1 2; do " \o H
       [] h.place = "subst" -> "probe s \"$(" \o H
       [] h.place = "pipeL" -> H \o " | rd p 0"
       [] h.place = "pipeR" -> "echo zz | " \o H
       [] h.place = "pipeNL" -> H \o " |"
       [] h.place = "andNL" -> H \o " &&"
       [] h.place = "forin" -> H \o " | for i in a"
       [] h.place = "if" -> "if " \o H
       [] h.place = "case" -> "case x in x) " \o H
       [] h.place = "while" -> "while " \o H
       [] h.place = "bang" -> "! " \o H
       [] h.place = "never" -> "status 1 && " \o H
       [] h.place = "alias" -> "h"
       [] h.place = "eval" -> "eval '" \o H
       [] h.place = "exec" -> "exec " \o OpText(op)
       [] h.place = "bredir" -> "{ rd a " \o F \o "; rd b " \o F \o "; } " \o OpText(op)
       [] h.place = "fredir" -> "f() { rd a " \o F \o "; } " \o OpText(op)
TailLines(h) ==
  CASE h.place = "bare" -> <<>>
    [] h.place = "top2" -> SecondDoc \o <<"probe end">>
    [] h.place = "brace" -> <<"}", "probe end">>
    [] h.place = "sub" -> <<")", "probe end">>
    [] h.place = "func" -> <<"}", "f", "x=wx", "f", "probe end">>
    [] h.place = "for" -> <<"done", "probe end">>
    [] h.place = "subst" -> <<")\"", "probe end">>
    [] h.place \in {"pipeNL", "andNL"} -> <<"probe p", "probe end">>
    [] h.place = "forin" -> <<"do probe $i; done", "probe end">>
    [] h.place = "if" -> <<"status 0", "then probe t; fi", "probe end">>
    [] h.place = "case" -> <<";; esac", "probe end">>
    [] h.place = "while" -> <<"do break; done", "probe end">>
    [] h.place = "eval" -> <<"'", "probe end">>
    [] h.place = "exec" -> <<"rd a " \o ToString(h.ops[1].fd), "probe end">>
    [] h.place = "fredir" -> <<"f", "x=wx", "f", "probe end">>
    [] OTHER -> <<"probe end">>

\* alias: the operator comes out of an alias substitution (the alias is defined on a line of its own)
AliasDef(h) == "alias h=\"" \o HeaderText(h) \o "\""
Script(h, lines) == <<Prelude>> \o (IF h.place = "alias" THEN <<AliasDef(h)>> ELSE <<>>)
                    \o <<HeadLine(h)>> \o lines \o TailLines(h)
NoneOf(s, C) == \A i \in 1..Len(s) : At(s, i) \notin C

\* commands that carry a here-document operator, printed on one line
Printed(h) ==
  LET op == h.ops[1]
      F == ToString(op.fd)
  IN CASE h.place = "bredir" -> <<"{ rd a " \o F \o "; rd b " \o F \o "; } " \o OpPrinted(op)>>
       [] h.place = "exec" -> <<"exec " \o OpPrinted(op)>>
       [] h.place = "fredir" -> <<"{ rd a " \o F \o "; } " \o OpPrinted(op)>>
       [] h.place = "top2" -> HeaderCmds(h, TRUE) \o <<SecondDoc[1]>>
       [] OTHER -> HeaderCmds(h, TRUE)

TrimTrailNL(s) == LET K == {k \in 0..Len(s) : \A j \in (Len(s) - k + 1)..Len(s) : At(s, j) = NLC}
                  IN SubSeq(s, 1, Len(s) - HdMax(K))
EndG == << << <<"probe", "end">> >> >>
OneG(ev) == << <<ev>> >>

\* Expected behaviour of the scenario (header h, lines, final newline nl)
Expect(h, lines, nl) ==
  LET ops == IF h.place \in {"bredir", "fredir", "exec"} THEN <<h.ops[1]>> ELSE h.ops
      rb == ReadAll(ops, lines)
      script == Script(h, lines)
      base == [script |-> script, nl |-> nl, class |-> "ok", groups |-> <<>>, out |-> "", docs |-> <<>>, printed |-> <<>>]
  IN
  IF ~rb.ok THEN [base EXCEPT !.class = IF rb.open THEN "unspec" ELSE "unterm"]
  ELSE
  LET B == rb.bodies
      rest == rb.rest
      docs == [i \in DOMAIN ops |-> [d |-> Delim(ops[i]), s |-> ops[i].strip, q |-> Quoted(ops[i]), raw |-> Raw(B[i])]]
              \o (IF h.place = "top2" THEN <<[d |-> "Q", s |-> FALSE, q |-> TRUE, raw |-> "q$x\n"]>> ELSE <<>>)
      Vs == CASE h.place \in {"func", "fredir"} -> <<V0, V1>>
              [] h.place = "for" -> <<Vi(1), Vi(2)>>
              [] OTHER -> <<V0>>
      modelled == /\ \A v \in DOMAIN Vs : \A i \in DOMAIN ops : BodyOK(ops[i], B[i], Vs[v])
                  /\ \A v \in DOMAIN Vs : RestOK(rest, Vs[v])
                  /\ (h.place = "forin" => \A i \in DOMAIN rest : IsBlankLine(rest[i]))
                  \* the alias value is written between double quotes, the eval operand between single quotes
                  /\ (h.place = "alias" => NoneOf(HeaderText(h), {DQT, "$", BSL, BQT}))
                  /\ (h.place = "eval" => NoneOf(HeaderText(h), {SQT}) /\ \A i \in DOMAIN lines : NoneOf(lines[i], {SQT}))
                  \* `exec 0<<E` would replace the descriptor the shell may be reading the script from
                  /\ (h.place = "exec" => ops[1].fd # 0)
      \* the delimiter line is the last line of the input and has no newline:
      \* XCU 2.7.4 asks for "a line containing only the delimiter and a <newline>"
      eofdelim == h.place = "bare" /\ ~nl /\ rest = <<>>
      R(V) == CmdLines(rest).ls
      HR(V) == IF h.place \in {"bredir", "fredir", "exec"} THEN [groups |-> <<>>, out |-> ""] ELSE HeaderRes(h, B, V)
      Hg(V) == HR(V).groups
      Seq1(V) == Hg(V) \o RestGroups(R(V), V)
      C1(V) == Content(ops[1], B[1], V)
      F == ops[1].fd
      groups ==
        CASE h.place = "bare" -> Seq1(V0)
          [] h.place = "top2" -> Seq1(V0) \o OneG(RdEv("k", 0, "q$x\n")) \o EndG
          [] h.place = "seq" -> OneG(<<"probe", "b">>) \o Hg(V0) \o OneG(<<"probe", "c">>) \o RestGroups(R(V0), V0) \o EndG
          [] h.place = "func" -> Seq1(V0) \o Seq1(V1) \o EndG
          [] h.place = "for" -> Seq1(Vi(1)) \o Seq1(Vi(2)) \o EndG
          [] h.place = "subst" -> Seq1(V0) \o OneG(<<"probe", "s", TrimTrailNL(HR(V0).out)>>) \o EndG
          [] h.place = "pipeL" -> << FlattenG(Hg(V0)) \o <<RdEv("p", 0, HR(V0).out)>> >> \o RestGroups(R(V0), V0) \o EndG
          [] h.place = "pipeNL" ->
               \* the command after `|` is the first non-blank line that follows the bodies
               LET cl == DropBlank(R(V0))
               IN IF cl = <<>> THEN << FlattenG(Hg(V0)) \o << <<"probe", "p">> >> >> \o EndG
                  ELSE << FlattenG(Hg(V0)) \o CmdEv(Head(cl), V0) >> \o RestGroups(Tail(cl), V0)
                       \o OneG(<<"probe", "p">>) \o EndG
          [] h.place = "andNL" -> Seq1(V0) \o OneG(<<"probe", "p">>) \o EndG
          [] h.place = "forin" -> << FlattenG(Hg(V0)) \o << <<"probe", "a">> >> >> \o EndG
          [] h.place = "if" -> Seq1(V0) \o OneG(<<"probe", "t">>) \o EndG
          \* "If the redirection operator is never evaluated (because the command it is part of is
          \* not executed), the here-document shall be read without performing any expansions"
          [] h.place = "never" -> RestGroups(R(V0), V0) \o EndG
          \* the descriptor stays open after `exec`; the content was fixed when exec ran
          [] h.place = "exec" -> RestGroups(R(V0), V0) \o OneG(RdEv("a", F, C1(V0))) \o EndG
          [] h.place = "bredir" -> OneG(RdEv("a", F, C1(V0))) \o OneG(RdEv("b", F, "")) \o RestGroups(R(V0), V0) \o EndG
          [] h.place = "fredir" -> RestGroups(R(V0), V0) \o OneG(RdEv("a", F, C1(V0))) \o OneG(RdEv("a", F, C1(V1))) \o EndG
          [] OTHER -> Seq1(V0) \o EndG
      out == CASE h.place = "func" -> HR(V0).out \o HR(V1).out
               [] h.place = "for" -> HR(Vi(1)).out \o HR(Vi(2)).out
               \* the standard output of the header command is consumed by the substitution / the pipe
               [] h.place \in {"subst", "pipeL", "pipeNL", "forin", "never"} -> ""
               [] OTHER -> HR(V0).out
  IN IF ~modelled THEN [base EXCEPT !.class = "skip"]
     ELSE IF eofdelim THEN [base EXCEPT !.class = "unspec"]
     ELSE [script |-> script, nl |-> nl, class |-> "ok", groups |-> groups, out |-> out, docs |-> docs,
           printed |-> Printed(h)]

=============================================================================
