---------------------------- MODULE Calib_XTrace ----------------------------
(***************************************************************************)
(* Calibration of XTrace.tla: the worked examples of the manual            *)
(* (docs/src/debugging.md) and the cases of the repository's scripted      *)
(* tests that concern xtrace / verbose / noexec (option-p.sh, option-y.sh) *)
(* transcribed as ASSUMEs (the scripted tests cannot run in this sandbox). *)
(* Where an example uses a construct outside the modelled fragment the     *)
(* transcription says so.                                                  *)
(***************************************************************************)
EXTENDS XTrace

RECURSIVE Flat(_)
Flat(cs) == IF cs = <<>> THEN ""
            ELSE (IF Head(cs).k = "d" THEN "<DIAG>\n" ELSE IF Head(cs).k = "p" THEN "<PAR>\n" ELSE Head(cs).s) \o Flat(Tail(cs))
Only(sc) == LET A == Alts(sc) IN IF Cardinality(A) = 1 THEN CHOOSE x \in A : TRUE ELSE [cls |-> "many", err |-> <<>>, out |-> "", st |-> 0]
Err(sc) == Flat(Only(sc).err)
Out(sc) == Only(sc).out
OkCls(sc) == Only(sc).cls = "ok"
Std(prog) == Scen(NoOpts, prog, <<>>)
With(o, prog) == Scen(o, prog, <<>>)
SetO(args) == CmdL(<<"set">> \o args)
Echo(ss) == CmdL(<<"echo">> \o ss)

(* debugging.md "Tracing command execution", first example (the file is    *)
(* called f1 here)                                                         *)
Ex1 == Std(<< SetO(<<"-o", "xtrace">>),
              For("user", Lits(<<"Alice", "Bob", "Charlie">>),
                  << Sc(<<>>, <<Lit("echo"), CatW(<<Lit("Hello, "), Dq("user"), Lit("!")>>)>>, <<RApp(1, Lit("f1"))>>, 0) >>),
              Sc(<<>>, <<Lit("cat")>>, <<RIn(Lit("f1"))>>, 0) >>)
ASSUME OkCls(Ex1)
ASSUME Script(Ex1) = <<"set -o xtrace", "for user in Alice Bob Charlie; do", "echo \"Hello, \"\"$user\"\"!\" 1>>f1", "done", "cat 0<f1">>
ASSUME Err(Ex1) = "+ for user in Alice Bob Charlie\n+ echo 'Hello, Alice!' 1>>f1\n+ echo 'Hello, Bob!' 1>>f1\n+ echo 'Hello, Charlie!' 1>>f1\n+ cat 0<f1\n"
ASSUME Out(Ex1) = "Hello, Alice!\nHello, Bob!\nHello, Charlie!\n"

(* debugging.md second example: PS4='$((i=i+1))+ ' (the while/getopts loop  *)
(* is outside the fragment; one round of its body is written out)          *)
Ex2 == Std(<< Semi(<<Sc(<<Asg("PS4", Ps4(<<PInc("i"), PLit("+ ")>>))>>, <<>>, <<>>, 0), SetO(<<"-o", "xtrace">>)>>),
              Sc(<<Asg("option", Lit("n"))>>, <<>>, <<>>, 0),
              Case(Var("option"), << Item(<<"n">>, <<Sc(<<Asg("n_option", Lit("true"))>>, <<>>, <<>>, 0)>>),
                                      Item(<<"*">>, <<Echo(<<"Unknown">>)>>) >>),
              Echo(<<"x">>) >>)
ASSUME OkCls(Ex2)
ASSUME Err(Ex2) = "1+ option=n\n2+ case n in\n3+ n_option=true\n4+ echo x\n"

(* debugging.md "Reviewing command input" *)
Ex3 == Std(<< SetO(<<"-o", "verbose">>), Echo(<<"Hello, world!">>) >>)
ASSUME Err(Ex3) = "echo \"Hello, world!\"\n" /\ Out(Ex3) = "Hello, world!\n"
Ex4 == Std(<< SetO(<<"-o", "verbose">>), FDef("f", <<Echo(<<"Hello, world!">>)>>), CmdL(<<"f">>) >>)
ASSUME Err(Ex4) = "f() {\necho \"Hello, world!\"\n}\nf\n" /\ Out(Ex4) = "Hello, world!\n"

(* debugging.md "Checking syntax" *)
Ex5 == Std(<< SetO(<<"+o", "exec">>), Echo(<<"Hello, world!">>), SynErr, Echo(<<"never">>) >>)
ASSUME Err(Ex5) = "<DIAG>\n" /\ Out(Ex5) = "" /\ Only(Ex5).st = -1

(* option-p.sh 'verbose (short) on: effect' (-v) *)
Ex6 == With(Opts(FALSE, TRUE, FALSE, FALSE), << Echo(<<"1">>), Echo(<<"2">>), If(<<CmdL(<<"true">>)>>, <<Echo(<<"3">>)>>) >>)
ASSUME Err(Ex6) = "echo 1\necho 2\nif true; then\necho 3\nfi\n" /\ Out(Ex6) = "1\n2\n3\n"
(* option-p.sh 'xtrace (short) on: effect' (-x) *)
Ex7 == With(Opts(TRUE, FALSE, FALSE, FALSE), << Sc(<<Asg("foo", Lit("bar"))>>, <<>>, <<>>, 0), Cmd(<<Lit("echo"), Var("foo")>>) >>)
ASSUME Err(Ex7) = "+ foo=bar\n+ echo bar\n" /\ Out(Ex7) = "bar\n"
(* option-p.sh '$PS4': foo=XY PS4='${foo#X} '; set -x 2>/dev/null; echo xtrace   *)
(* (${foo#X} is outside the fragment: ${foo} is used)                      *)
Ex8 == Std(<< Semi(<<Sc(<<Asg("foo", Lit("XY")), Asg("PS4", Ps4(<<PVar("foo"), PLit(" ")>>))>>, <<>>, <<>>, 0),
                     Sc(<<>>, Lits(<<"set", "-x">>), <<ROut(2, Lit("/dev/null"))>>, 1)>>),
              Echo(<<"xtrace">>) >>)
ASSUME Err(Ex8) = "XY echo xtrace\n" /\ Out(Ex8) = "xtrace\n"
(* option-p.sh noexec: -n / -o noexec: `echo executed` prints nothing; the  *)
(* for loop with $(>noexec_file) creates no file                           *)
Ex9 == With(Opts(FALSE, FALSE, TRUE, FALSE), << Echo(<<"executed">>) >>)
ASSUME Out(Ex9) = "" /\ Err(Ex9) = "" /\ Only(Ex9).st = 0
Ex10 == With(Opts(FALSE, FALSE, TRUE, FALSE), << For("i", <<Sub(<<Sc(<<>>, <<>>, <<ROut(1, Lit("f1"))>>, 0)>>)>>, <<CmdL(<<":">>)>>) >>)
ASSUME Only(Ex10).files = <<>> /\ Only(Ex10).st = 0
(* option-y.sh 'noexec takes effect immediately' *)
Ex11 == Std(<< Semi(<<SetO(<<"-n">>), Echo(<<"not", "executed">>)>>) >>)
ASSUME Out(Ex11) = "" /\ Err(Ex11) = ""
(* option-y.sh 'noexec is ineffective when interactive' (-in) *)
Ex12 == With(Opts(FALSE, FALSE, TRUE, TRUE), << Semi(<<Echo(<<"printed">>), CmdL(<<"exit">>), Echo(<<"not", "printed">>)>>) >>)
ASSUME Out(Ex12) = "printed\n"
(* option-y.sh 'xtrace on: recursion' (-x) *)
Ex13 == With(Opts(TRUE, FALSE, FALSE, FALSE), << Sc(<<Asg("PS4", Ps4(<<PSub("X"), PLit("+ ")>>))>>, <<>>, <<>>, 0), Echo(<<"1">>), Echo(<<"2">>) >>)
ASSUME Script(Ex13) = <<"PS4='$(echo X)+ '", "echo 1", "echo 2">>
ASSUME Err(Ex13) = "X+ PS4='$(echo X)+ '\nX+ echo 1\nX+ echo 2\n"

(* documentation of yash_semantics::xtrace (XTrace::finish): assignments,  *)
(* words, redirections; here-document contents after the line              *)
Ex14 == Std(<< Sc(<<Asg("x", Lit("a b"))>>, <<>>, <<>>, 0), SetO(<<"-x">>),
               Sc(<<Asg("x", Lit("q"))>>, <<Lit("cat")>>, <<RHere(0, FALSE, FALSE, "E", <<"here $x">>), RHere(4, TRUE, TRUE, "F", <<"\ttab">>)>>, 0) >>)
ASSUME Script(Ex14) = <<"x=\"a b\"", "set -x", "x=q cat 0<<E 4<<-'F'", "here $x", "E", "\ttab", "F">>
\* simple.md: redirections (step 2) are performed before assignments (step 3)
ASSUME Err(Ex14) = "+ x=q cat 0<<E 4<<-'F'\nhere a b\nE\ntab\nF\n" /\ Out(Ex14) = "here a b\n"

(* xtrace module documentation: one line per command - assignments, words, redirections *)
Ex19 == Std(<< SetO(<<"-x">>), Sc(<<Asg("x", Lit("1"))>>, <<>>, <<ROut(1, Lit("f3"))>>, 0) >>)
ASSUME Err(Ex19) = "+ x=1 1>f3\n" /\ Only(Ex19).files = << <<"f3", "">> >>
(* XCU 2.5.3: variables are initialized from the environment; "+ " is only the default of PS4 *)
XOpt == Opts(TRUE, FALSE, FALSE, FALSE)
Ex20 == ScenEnv(XOpt, << Echo(<<"a">>) >>, <<>>, <<PLit("> ")>>)
ASSUME Err(Ex20) = "> echo a\n"

(* POSIX: "It is unspecified whether the command that turns tracing off is traced." *)
Ex15 == Std(<< SetO(<<"-x">>), SetO(<<"+x">>), Echo(<<"a">>) >>)
ASSUME {Flat(a.err) : a \in Alts(Ex15)} = {"", "+ set +x\n"}
(* a command that redirects its own standard error: where its trace goes is open *)
Ex16 == Std(<< SetO(<<"-x">>), Sc(<<>>, Lits(<<"echo", "hi">>), <<ROut(2, Lit("f1"))>>, 1) >>)
ASSUME {<<Flat(a.err), a.files>> : a \in Alts(Ex16)} = { <<"+ echo hi 2>f1\n", << <<"f1", "">> >> >>, <<"", << <<"f1", "+ echo hi 2>f1\n">> >> >> }

(* an expansion error: no trace of the command; the substitutions that ran are traced *)
Ex17 == Std(<< SetO(<<"-x">>), Cmd(<<Lit("echo"), Sub(<<Echo(<<"a">>)>>), ErrW, Lit("z")>>), Echo(<<"not reached">>) >>)
ASSUME Err(Ex17) = "+ echo a\n<DIAG>\n" /\ Out(Ex17) = "" /\ Only(Ex17).st = -1
(* a pipeline: the traces of the two subshells in any order *)
Ex18 == Std(<< SetO(<<"-x">>), Pipe(<<Echo(<<"a">>), CmdL(<<"cat">>)>>) >>)
ASSUME Only(Ex18).err = << [k |-> "p", a |-> <<[k |-> "x", s |-> "+ echo a\n"]>>, b |-> <<[k |-> "x", s |-> "+ cat\n"]>>] >> /\ Out(Ex18) = "a\n"
ASSUME MatchErr(Only(Ex18).err, "+ cat\n+ echo a\n") /\ MatchErr(Only(Ex18).err, "+ echo a\n+ cat\n") /\ ~MatchErr(Only(Ex18).err, "+ echo a\n")
ASSUME MatchErr(Only(Ex17).err, "+ echo a\nerror: x\n  | y\n") /\ ~MatchErr(Only(Ex17).err, "+ echo a\nerror: x\n+ echo a z\n")
=============================================================================
