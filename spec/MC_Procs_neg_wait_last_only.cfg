\* NEGATIVE configuration: the named wrong order "wait_last_only" replaces the correct
\* protocol; TLC MUST report a deadlock / invariant violation here.
SPECIFICATION Spec
CONSTANTS
  Variant = "wait_last_only"
  MaxP = 7
  Scripts <- CatNegPipe
INVARIANTS NoErr InvReapOnce InvStatusTrue InvNoFgLeft InvJobsSound InvDenotation
