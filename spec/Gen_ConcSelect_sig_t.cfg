\* generated once by the builder of G17; bounded model + generator (see Gen_ConcSelect.tla)
SPECIFICATION Spec
CONSTANTS
  NT = 2
  NP = 1
  NS = 2
  Cap = 2
  MaxNow = 2
  Budget = 3
  MaxExt = 2
  MaxSel = 2
  MaxSpur = 1
  Base0 = {2}
  Variant = "ok"
  Hist = "on"
  Loop = FALSE
  Peek = TRUE
  Sym = TRUE
  Fam = "sig"
  Ops <- FamOps
  Exts <- FamExts
  EmitAll = FALSE
VIEW view
INVARIANT TypeOK
INVARIANT I_PendingRegistered
INVARIANT I_RegOnlyPending
INVARIANT I_Mask
INVARIANT I_MaskInSelect
INVARIANT I_SelMask
INVARIANT I_CaughtInside
INVARIANT I_PendingBlocked
INVARIANT I_SelArgs
INVARIANT I_SelExclusive
INVARIANT EmitState
PROPERTY P_NoLostFd
PROPERTY P_NoLostTimer
PROPERTY P_SignalsToAll
PROPERTY P_NoSpurious
PROPERTY P_OnlySelectWakes
PROPERTY P_TimerNotEarly
PROPERTY P_ClockMonotone
PROPERTY P_RegistrationStable
PROPERTY P_SelectBracket
PROPERTY P_RetryExact
