--------------------------- MODULE Gen_CmdSearch ---------------------------
(***************************************************************************)
(* spec -> impl enumeration for G04 (B).  TLC enumerates shell states      *)
(* (functions, aliases, built-in type of the name, options, $PATH, files   *)
(* under the PATH directories / the working directory) x command names in  *)
(* four families and prints, for each, what CmdSearch.tla prescribes for   *)
(* `command -v`, `command -V` / `type`, running the name, `command name`,  *)
(* `command -p name`, `command -pv name`:                                  *)
(*   {fam, name, S: state, ask: [queries], q: {query: expectation}}        *)
(* The initial state prints the tables (built-ins, keywords).              *)
(*                                                                         *)
(*  "S"  search order: name of every built-in type (none, special,         *)
(*       mandatory, elective, extension, substitutive; registered probe    *)
(*       built-ins and the real `:` cd true typeset) x function? x alias?  *)
(*       x options x PATH (permutations of up to MaxPath of /d1 /d2 ""     *)
(*       and the relative r) x kind of the file of that name in each       *)
(*       directory (none, executable, not executable, directory)           *)
(*  "L"  names with a slash (./n /d1/n r/n /nx/n) x kind of that file      *)
(*  "P"  command -p: standard path /std:/d2 against PATH=/d1               *)
(*  "K"  reserved words                                                    *)
(*  "X"  (Real = TRUE, instead of the others) the PATH search on the real  *)
(*       kernel: the names nno (no built-in) and true (substitutive), all  *)
(*       four directories under the working directory (/w/d1 /w/d2 "" r),  *)
(*       every kind of file in each                                        *)
(* Slice > 1 keeps a 1/Slice sample (selected by SEED) of family S.        *)
(***************************************************************************)
EXTENDS CmdSearch, Json, IOUtils, FiniteSets

CONSTANTS MaxPath, Slice,
          Real      \* TRUE: only family "X" (for the run on the real operating system)

Seed == IF "SEED" \in DOMAIN IOEnv THEN (CHOOSE n \in 0..9999 : ToString(n) = IOEnv.SEED) ELSE 1

NameTab == <<
  [n |-> "nno", t |-> "none"],        [n |-> "nsp", t |-> "special"],   [n |-> "nma", t |-> "mandatory"],
  [n |-> "nel", t |-> "elective"],    [n |-> "nex", t |-> "extension"], [n |-> "nsu", t |-> "substitutive"],
  [n |-> ":", t |-> "special"],       [n |-> "cd", t |-> "mandatory"],  [n |-> "true", t |-> "substitutive"],
  [n |-> "typeset", t |-> "elective"] >>
NCustom == 6
BiTable == SelectSeq(NameTab, LAMBDA e : e.t # "none")

DirTab == <<"/d1", "/d2", "", "r">>          \* components of $PATH ("": the working directory /w)
DirAbs == <<"/d1", "/d2", "/w", "/w/r">>
Kinds == <<"none", "exec", "plain", "dir">>
KeywordNames == <<"if", "done", "{", "!", "in">>
SlashNames == <<"./nno", "/d1/nno", "r/nno", "/nx/nno", ".//nno">>
SlashAbs == <<"/w/nno", "/d1/nno", "/w/r/nno", "/nx/nno", "/w/nno">>
XDirTab == <<"/w/d1", "/w/d2", "", "r">>
XDirAbs == <<"/w/d1", "/w/d2", "/w", "/w/r">>
XSlashNames == <<"./nno", "r/nno", "/w/d1/nno">>
XSlashAbs == <<"/w/nno", "/w/r/nno", "/w/d1/nno">>

VARIABLES fam, ni, fn, al, op, pi, fk
\* fam: family ("" = root); ni: index of the name; fn/al: function / alias of that name defined;
\* op: 0..3 (posixlycorrect = odd, portable = >= 2); pi: $PATH as indices into DirTab;
\* fk: kind index of the file of that name per directory (family S: DirTab; P: /std /d1 /d2; L, K: one entry)
vars == <<fam, ni, fn, al, op, pi, fk>>

Perms(k) == { p \in UNION { [1..m -> 1..4] : m \in 1..k } : \A i, j \in DOMAIN p : i # j => p[i] # p[j] }

RECURSIVE Hash(_, _)
Hash(q, i) == IF i > Len(q) THEN 7 ELSE (q[i] * 31 + Hash(q, i + 1) * 17) % 10007

(* the sample of families S and X (all of them if Slice <= 1) *)
Sampled(p, f) ==
  Slice <= 1 \/ (Hash(p \o f \o <<ni, op, IF fn THEN 1 ELSE 0, IF al THEN 1 ELSE 0>>, 1) + Seed) % Slice = 0

Init == fam = "" /\ ni = 0 /\ fn = FALSE /\ al = FALSE /\ op = 0 /\ pi = <<>> /\ fk = <<>>

OptSensitive(i) == NameTab[i].t \in {"elective", "extension", "special"}

Next ==
  \/ /\ Real /\ fam = "" /\ fam' = "X0" /\ ni' \in {1, 9} /\ fn' \in BOOLEAN /\ al' = FALSE /\ op' = 0
     /\ UNCHANGED <<pi, fk>>
  \/ /\ fam = "X0" /\ fam' = "X" /\ UNCHANGED <<ni, fn, al, op>>
     /\ pi' \in Perms(MaxPath) /\ fk' \in [1..4 -> 1..4] /\ Sampled(pi', fk')
  \/ /\ Real /\ fam = "" /\ fam' = "XL" /\ ni' \in DOMAIN XSlashNames /\ fk' \in { <<k>> : k \in 1..4 }
     /\ fn' = FALSE /\ al' = FALSE /\ op' = 0 /\ pi' = <<2>>
  \/ /\ ~Real /\ fam = "" /\ fam' = "S0" /\ ni' \in DOMAIN NameTab /\ fn' \in BOOLEAN /\ al' \in BOOLEAN
     /\ op' \in 0..3 /\ (op' # 0 => OptSensitive(ni')) /\ UNCHANGED <<pi, fk>>
  \/ /\ fam = "S0" /\ fam' = "S" /\ UNCHANGED <<ni, fn, al, op>>
     /\ pi' \in Perms(MaxPath)
     /\ fk' \in { f \in [1..4 -> 1..4] : f[2] <= 2 /\ f[4] <= 2 } /\ Sampled(pi', fk')
  \/ /\ ~Real /\ fam = "" /\ fam' = "L" /\ ni' \in DOMAIN SlashNames /\ fk' \in { <<k>> : k \in 1..4 }
     /\ (ni' = 4 => fk' = <<1>>) /\ fn' = FALSE /\ al' = FALSE /\ op' = 0 /\ pi' = <<2>>
  \/ /\ ~Real /\ fam = "" /\ fam' = "P" /\ ni' \in (1..NCustom) \cup {9} /\ fn' \in BOOLEAN /\ al' = FALSE /\ op' = 0
     /\ pi' = <<1>> /\ fk' \in { f \in [1..3 -> 1..3] : f[2] <= 2 /\ f[3] <= 2 }
  \/ /\ ~Real /\ fam = "" /\ fam' = "K" /\ ni' \in DOMAIN KeywordNames /\ fk' \in { <<k>> : k \in 1..2 }
     /\ fn' = FALSE /\ al' = FALSE /\ op' = 0 /\ pi' = <<1>>

Spec == Init /\ [][Next]_vars

Name ==
  CASE fam \in {"S0", "S", "P", "X0", "X"} -> NameTab[ni].n
    [] fam = "L" -> SlashNames[ni]
    [] fam = "XL" -> XSlashNames[ni]
    [] fam = "K" -> KeywordNames[ni]
    [] OTHER -> ""

Base == CASE fam \in {"L", "XL"} -> "nno" [] OTHER -> Name      \* the file name

Files ==
  CASE fam = "S" -> SelectSeq([d \in 1..4 |-> [p |-> DirAbs[d] \o "/" \o Base, k |-> Kinds[fk[d]]]], LAMBDA f : f.k # "none")
    [] fam = "X" -> SelectSeq([d \in 1..4 |-> [p |-> XDirAbs[d] \o "/" \o Base, k |-> Kinds[fk[d]]]], LAMBDA f : f.k # "none")
    [] fam = "L" -> SelectSeq(<<[p |-> SlashAbs[ni], k |-> Kinds[fk[1]]]>>, LAMBDA f : f.k # "none")
    [] fam = "XL" -> SelectSeq(<<[p |-> XSlashAbs[ni], k |-> Kinds[fk[1]]]>>, LAMBDA f : f.k # "none")
    [] fam = "P" -> SelectSeq(<<[p |-> "/std/" \o Base, k |-> Kinds[fk[1]]], [p |-> "/d1/" \o Base, k |-> Kinds[fk[2]]],
                                [p |-> "/d2/" \o Base, k |-> Kinds[fk[3]]]>>, LAMBDA f : f.k # "none")
    [] fam = "K" -> SelectSeq(<<[p |-> "/d1/" \o Base, k |-> Kinds[fk[1]]]>>, LAMBDA f : f.k # "none")
    [] OTHER -> <<>>

State ==
  [fns |-> IF fn THEN {Name} ELSE {}, als |-> IF al THEN {Name} ELSE {}, bi |-> BiTable,
   path |-> [i \in DOMAIN pi |-> IF fam \in {"X", "XL"} THEN XDirTab[pi[i]] ELSE DirTab[pi[i]]], std |-> <<"/std", "/d2">>, files |-> Files, cwd |-> "/w",
   posix |-> op % 2 = 1, portable |-> op >= 2]

Selected == fam \in {"S", "X", "L", "P", "K", "XL"}

(* which queries are put to the shell *)
IsCustomBuiltin == fam \in {"S", "P"} /\ ni <= NCustom /\ ni > 1
Ask ==
  CASE fam = "S" -> <<"v", "V", "type", "plain", "cmd">> \o (IF IsCustomBuiltin THEN <<"abortplain", "abortcmd">> ELSE <<>>)
    [] fam \in {"L", "X", "XL"} -> <<"v", "V", "type", "plain", "cmd">>
    [] fam = "P" -> <<"v", "pv", "pV", "cmd", "cmdp">> \o (IF IsCustomBuiltin THEN <<"abortcmdp">> ELSE <<>>)
    [] fam = "K" -> <<"v", "V", "type", "pv">>
    [] OTHER -> <<>>

Expect(S, name) ==
  [v |-> Identify(S, name, FALSE), pv |-> Identify(S, name, TRUE),
   plain |-> Invoke(S, name, "plain"), cmd |-> Invoke(S, name, "command"), cmdp |-> Invoke(S, name, "command-p"),
   abortplain |-> AbortsOnError(S, name, "plain"), abortcmd |-> AbortsOnError(S, name, "command"),
   abortcmdp |-> AbortsOnError(S, name, "command-p")]

StateJson(S) == [fns |-> IF fn THEN <<Name>> ELSE <<>>, als |-> IF al THEN <<Name>> ELSE <<>>,
                 path |-> S.path, std |-> S.std, files |-> S.files, cwd |-> S.cwd, posix |-> S.posix, portable |-> S.portable]

Emit ==
  IF fam = ""
  THEN PrintT(ToJson([hdr |-> TRUE, bi |-> BiTable, ncustom |-> NCustom, keywords |-> Keywords]))
  ELSE (fam \notin {"S0", "X0"} /\ Selected) =>
         LET S == State IN PrintT(ToJson([fam |-> fam, name |-> Name, S |-> StateJson(S), ask |-> Ask, q |-> Expect(S, Name)]))

---------------------------------------------------------------------------
(* laws of the oracle on the enumerated domain                             *)
Laws ==
  fam \in {"S", "P", "L", "K", "X", "XL"} =>
    LET S == State
        n == Name
        p == Invoke(S, n, "plain")
        c == Invoke(S, n, "command")
        v == Identify(S, n, FALSE)
    IN \* a function never hides a special built-in and is never run by `command`
       /\ (TypeInTable(S, n) = "special" /\ ~Rejected(S, n, "special") => p.what = "builtin" /\ p.sp)
       /\ c.what # "function" /\ ~c.sp
       \* without a function of that name `command name` runs what `name` runs
       /\ (n \notin S.fns => c.what = p.what /\ c.path = p.path /\ c.st = p.st)
       \* what is executed is an executable regular file; a PATH search never yields 126
       /\ (p.what = "exec" => FileKind(S, p.path) = "exec")
       /\ (~HasSlash(n) /\ p.what = "fail" /\ p.st = 126 => Rejected(S, n, TypeInTable(S, n)))
       \* -v finds exactly what can be run (aliases and reserved words aside)
       /\ (v.kind \notin {"alias", "keyword", "unsp"} => (v.found <=> p.what # "fail"))
=============================================================================
