SPECIFICATION Spec
CONSTANTS
  Theme = "rw"
  MaxFd = 4
  MaxH = 1
VIEW view
CONSTRAINT Bounded
INVARIANT TypeOK
INVARIANT NoDanglingOfd
INVARIANT TreeClosed
INVARIANT NoIgnoredPending
INVARIANT EmitState
