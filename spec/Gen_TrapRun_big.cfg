SPECIFICATION GenSpec
CONSTANT Level = 2
INVARIANT EmitProgram
INVARIANT NonEmpty
