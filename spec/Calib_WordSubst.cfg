CONSTANT Variant = "spec"
