SPECIFICATION Spec
CONSTANTS
  Profile = "lex"
  MaxTok = 4
  MaxUnits = 0
INVARIANT GenInv
