\* G14 negative configuration: the wrong variant "dash-needs-upper" of SigNames.tla must be refuted by a law
SPECIFICATION Spec
CONSTANTS
  Level = "laws"
  Variant = "dash-needs-upper"
INVARIANT LawsHold
