SPECIFICATION Spec
CONSTANTS
  N = 4
  Pids = {1, 2, 3, 4}
  MaxH = 100
  Flags = FALSE
VIEW view
INVARIANT TypeOK
INVARIANT Consistent
INVARIANT EmitState
PROPERTY StableNumbers
