INIT Init
NEXT Next
VIEW view
CONSTANTS
  PNorm <- AlphaWild
  PLit <- LitSpecial
  PMacro <- NoChars
  PLen = 4
  SAlpha <- StrFull
  SLen = 3
  Kind = "match"
INVARIANT Emit
