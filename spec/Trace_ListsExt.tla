--------------------------- MODULE Trace_ListsExt ---------------------------
(***************************************************************************)
(* impl -> spec for G18: records {p, e, pf, oc, tr, st, out, ff} produced  *)
(* by executing seeded random programs on the real shell (simulated OS,    *)
(* random schedules) are judged against the specification: TLC evaluates   *)
(* the interpreter of ListsExt.tla on the recorded program and run options *)
(* and requires the recorded run - the observations with the path of the   *)
(* process that made each, in the order in which they happened - to be a   *)
(* run the specification allows (Conforms: every environment made exactly  *)
(* its observations, every child environment ran inside its window, final  *)
(* status and sinks agree).  Programs the specification classifies as      *)
(* unspecified, open or diverging are accepted whatever was observed (and  *)
(* counted).  One JSON line is printed per record; the judge never stops   *)
(* at a rejection.                                                         *)
(***************************************************************************)
EXTENDS ListsExt, Json, IOUtils

Rec == ndJsonDeserialize(IOEnv.TRACE)

VARIABLE l
vars == <<l>>

RECURSIVE SetToSeq(_)
SetToSeq(S) == IF S = {} THEN <<>> ELSE LET x == CHOOSE y \in S : TRUE IN <<x>> \o SetToSeq(S \ {x})

Judge(r, i) ==
  LET R == Run(Parse(r.p), [e |-> r.e, pf |-> r.pf = 1])
  IN IF R.oc # "ok" THEN PrintT(ToJson([skip |-> R.oc, i |-> i]))
     ELSE IF Conforms(R, r)
          THEN PrintT(ToJson([ok |-> i, tg |-> SetToSeq(R.tg), n |-> Len(R.tr), w |-> Len(R.win)]))
     ELSE \* rejected: say what the specification prescribes
          PrintT(ToJson([reject |-> i, tr |-> R.tr, win |-> R.win, st |-> R.st, x |-> R.x, out |-> R.out, ff |-> R.ff,
                         orace |-> R.orace, tg |-> SetToSeq(R.tg)]))

TraceInit == l = 1

TraceNext ==
  /\ l <= Len(Rec)
  /\ Judge(Rec[l], l)
  /\ l' = l + 1

TraceSpec == TraceInit /\ [][TraceNext]_vars

\* every record was judged
Complete == TLCGet("stats").diameter - 1 = Len(Rec)
=============================================================================
