\* no behaviour: only the ASSUMEs of Calib_Quote.tla are evaluated
