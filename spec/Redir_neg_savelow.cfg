SPECIFICATION Spec
CONSTANTS
  Cfg = "neg"
  Bug = "savelow"
  Sim = TRUE
INVARIANT TypeOK
INVARIANT Conforms
