\* P1 + P2 generator, theme "forkfd", quick tier: every distinct state reachable by
\* <= 4 calls of the theme's alphabet (parent and child), and the result of
\* every call in each of them (sequences of <= 5 calls).
SPECIFICATION Spec
CONSTANTS
  Theme = "forkfd"
  MaxFd = 4
  MaxLen = 6
  MaxPipe = 1
  MaxH = 4
VIEW view
CONSTRAINT Bounded
INVARIANT TypeOK
INVARIANT NoDanglingOfd
INVARIANT TreeClosed
INVARIANT NoIgnoredPending
INVARIANT EmitBounded
PROPERTY ForkLaw
PROPERTY KillKidLaw
