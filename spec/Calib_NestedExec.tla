-------------------------- MODULE Calib_NestedExec --------------------------
(***************************************************************************)
(* Calibration of the oracle NestedExec.tla: worked examples transcribed   *)
(* by hand from the project manual (docs/src/builtins/*.md,                *)
(* docs/src/termination.md, docs/src/language/functions.md) and from the   *)
(* POSIX-conformance scripts yash-cli/tests/scripted_test/{eval,source,    *)
(* exec,return,exit,break,continue}-p.sh, for the part inside the modelled *)
(* fragment.  `echo x` is transcribed as an observation point mk(m, 0),    *)
(* `echo $?` as probe(m), `(exit n)` as a subshell around exit n, `false`  *)
(* as mk(m, 1).  The ASSUMEs state which observation points fire, in which *)
(* order, the $? they see where the example prints it, and the final       *)
(* status where the example states it.  A failing ASSUME is a defect of    *)
(* the oracle (tool error), never a violation.                             *)
(***************************************************************************)
EXTENDS NestedExec

L(k, n, s, m) == [k |-> k, n |-> n, s |-> s, m |-> m, c |-> <<>>]
N(k, n, s, c) == [k |-> k, n |-> n, s |-> s, m |-> 0, c |-> c]
Echo(m) == L("mk", 0, "", m)
Mk(m, n) == L("mk", n, "", m)
P(m) == L("P", 0, "", m)
False == Mk(900, 1)
True == Mk(901, 0)
Brk(n) == L("brk", n, "", 0)
Cnt(n) == L("cnt", n, "", 0)
Ret(n) == L("ret", n, "", 0)
Exit(n) == L("exit", n, "", 0)
Inv(f) == L("cmd", 0, f, 0)
RECURSIVE SeqL(_)
SeqL(cs) == IF Len(cs) = 1 THEN cs[1] ELSE N("seq", 0, "", <<cs[1], SeqL(Tail(cs))>>)
And(a, b) == N("and", 0, "", <<a, b>>)
Or(a, b) == N("or", 0, "", <<a, b>>)
Not(a) == N("not", 0, "", <<a>>)
Subsh(a) == N("sub", 0, "", <<a>>)
If(c, t) == N("if", 0, "", <<c, t>>)
For(k, b) == N("for", k, "", <<b>>)
Def(f, b) == N("def", 0, f, <<b>>)
Eval(a) == N("eval", 0, "", <<a>>)
EvalNil == L("evalnil", 0, "", 0)
EvalSyn == L("evalsyn", 0, "", 0)
Dot(a) == N("dot", 0, "", <<a>>)
DotP(a) == N("dot", 1, "", <<a>>)
DotNil == L("dotnil", 0, "", 0)
DotMiss(n) == L("dotmiss", n, "", 0)
Exec(s, n, m) == L("exec", n, s, m)
Trap(a, m) == L("trap", a, "", m)
SubExit(n) == Subsh(Exit(n))

R(t, e, tr) == Run(t, [e |-> e, t |-> tr])
Ms(r) == [i \in 1..Len(r.tr) |-> r.tr[i][1]]
Real(r) == [i \in {j \in 1..Len(r.tr) : r.tr[j][1] < 900} |-> r.tr[i]]
NoAux(ms) == SelectSeq(ms, LAMBDA m : m < 900)
Fired(r) == NoAux(Ms(r))

\* ---- eval-p.sh ----
\* 'evaluating no operands' / 'null operands':  false; eval  -> 0
ASSUME R(SeqL(<<False, EvalNil>>), 0, 0).st = 0
\* 'evaluating some commands': eval 'echo foo; echo bar' -> foo bar, 0
ASSUME LET r == R(Eval(SeqL(<<Echo(1), Echo(2)>>)), 0, 0) IN Fired(r) = <<1, 2>> /\ r.st = 0
\* 'exit status of evaluation': eval '(exit 23)' -> 23
ASSUME R(Eval(SubExit(23)), 0, 0).st = 23
\* 'effect on environment': eval exit; echo not reached
ASSUME LET r == R(SeqL(<<Eval(Echo(1)), Eval(Exit(-1)), Echo(2)>>), 0, 0)
       IN Fired(r) = <<1>> /\ r.st = 0 /\ r.x = "exit"
\* eval.md: "If there is no command in the string, the exit status is zero."
ASSUME R(SeqL(<<SubExit(5), EvalNil, P(1)>>), 0, 0).tr = <<<<1, 0>>>>

\* ---- source-p.sh ----
\* 'empty dot script': (exit 1); . /dev/null -> 0
ASSUME R(SeqL(<<SubExit(1), DotNil>>), 0, 0).st = 0
\* 'non-empty dot script': (exit 5); . ./file1  [echo $?; (exit 3)] -> prints 5, status 3
ASSUME LET r == R(SeqL(<<SubExit(5), Dot(SeqL(<<P(1), SubExit(3)>>))>>), 0, 0)
       IN r.tr = <<<<1, 5>>>> /\ r.st = 3
\* 'recursive dot script': file2 = echo in; . ./file1; echo out -> in 0 out, status 0
ASSUME LET r == R(Dot(SeqL(<<Echo(1), Dot(SeqL(<<P(2), SubExit(3)>>)), Echo(3)>>)), 0, 0)
       IN r.tr = <<<<1, 0>>, <<2, 0>>, <<3, 3>>>> /\ r.st = 0
\* 'dot script in $PATH': . file3 [exit 11] -> 11
ASSUME LET r == R(DotP(Exit(11)), 0, 0) IN r.st = 11 /\ r.x = "exit"
\* 'dot script not found, non-interactive shell': non-zero, "not reached"
ASSUME \A n \in {0, 1} :
         LET r == R(SeqL(<<DotMiss(n), Echo(1)>>), 0, 0) IN Fired(r) = <<>> /\ r.st < 0 /\ r.x = "exit"
\* 'dot script not found, subshell': (. _no_such_file_); echo reached ; subshell status non-zero
ASSUME \A n \in {0, 1} :
         LET r == R(SeqL(<<Subsh(DotMiss(n)), P(1)>>), 0, 0)
         IN Fired(r) = <<1>> /\ r.tr[1][2] < 0 /\ r.st < 0 /\ r.x = "none"

\* ---- exec-p.sh ----
\* set -e; exec; echo reached
ASSUME Fired(R(SeqL(<<Exec("none", 0, 0), Echo(1)>>), 1, 0)) = <<1>>
\* exec --; echo $? -> 0
ASSUME R(SeqL(<<False, Exec("none", 0, 0), P(1)>>), 0, 0).tr = <<<<900, 0>>, <<1, 0>>>>
\* 'executing external command': exec echo foo bar; echo not reached  -> foo bar, 0
ASSUME LET r == R(SeqL(<<Exec("found", 0, 1), Echo(2)>>), 0, 0)
       IN Fired(r) = <<1>> /\ r.st = 0 /\ r.x = "exec"
\* 'exec in subshell': (exec echo foo bar); echo $? -> foo bar 0
ASSUME R(SeqL(<<Subsh(Exec("found", 0, 1)), P(2)>>), 0, 0).tr = <<<<1, 0>>, <<2, 0>>>>
\* 'executing non-existing command (relative, non-interactive)': 127, not reached
ASSUME LET r == R(SeqL(<<Exec("missing", 0, 0), Echo(1)>>), 0, 0)
       IN Fired(r) = <<>> /\ r.st = 127 /\ r.x = "exit"
\* exec.md: "If the built-in fails to invoke the utility, the exit status will be 126."
ASSUME R(SeqL(<<Exec("noexec", 0, 0), Echo(1)>>), 0, 0).st = 126
\* the replaced process image runs no EXIT trap of the shell
ASSUME R(SeqL(<<Exec("found", 3, 1), Echo(2)>>), 0, 1).tr = <<<<1, 0>>>>

\* ---- return-p.sh / functions.md "Returning from functions" ----
\* 'returning from function, unnested'
ASSUME Fired(R(SeqL(<<Def("f", SeqL(<<Echo(1), Ret(-1), Echo(2)>>)), Inv("f"), Echo(3)>>), 0, 0)) = <<1, 3>>
\* 'returning from function, nested in dot script'
ASSUME Fired(R(SeqL(<<Dot(SeqL(<<Def("f", SeqL(<<Echo(1), Ret(-1), Echo(2)>>)), Inv("f"), Echo(3)>>)), Echo(4)>>), 0, 0))
       = <<1, 3, 4>>
\* 'returning from dot script, unnested'
ASSUME Fired(R(SeqL(<<Dot(SeqL(<<Echo(1), Ret(-1), Echo(2)>>)), Echo(3)>>), 0, 0)) = <<1, 3>>
\* 'returning from dot script, nested in another dot script'
ASSUME Fired(R(SeqL(<<Dot(SeqL(<<Echo(1), Dot(SeqL(<<Echo(2), Ret(-1), Echo(3)>>)), Echo(4)>>)), Echo(5)>>), 0, 0))
       = <<1, 2, 4, 5>>
\* 'returning from dot script, nested in function'
ASSUME Fired(R(SeqL(<<Def("f", SeqL(<<Echo(1), Dot(SeqL(<<Echo(2), Ret(-1), Echo(3)>>)), Echo(4)>>)), Inv("f"), Echo(5)>>), 0, 0))
       = <<1, 2, 4, 5>>
\* 'default exit status of returning from function' (13) / 'from dot script' (17)
ASSUME R(SeqL(<<Def("f", SeqL(<<SubExit(13), Ret(-1)>>)), Inv("f")>>), 0, 0).st = 13
ASSUME R(Dot(SeqL(<<SubExit(17), Ret(-1)>>)), 0, 0).st = 17
\* 'specifying exit status in returning'
ASSUME R(SeqL(<<Def("f", SeqL(<<SubExit(1), Ret(13)>>)), Inv("f")>>), 0, 0).st = 13
ASSUME R(Dot(SeqL(<<SubExit(1), Ret(17)>>)), 0, 0).st = 17
\* 'returning out of eval'
ASSUME Fired(R(SeqL(<<Def("f", SeqL(<<Eval(Ret(-1)), Echo(1)>>)), Inv("f")>>), 0, 0)) = <<>>
\* 'returning out of for loop'
ASSUME Fired(R(SeqL(<<Def("f", SeqL(<<For(1, SeqL(<<Ret(-1), Echo(1)>>)), Echo(2)>>)), Inv("f")>>), 0, 0)) = <<>>
\* XCU return: outside a function or dot script the results are unspecified
ASSUME R(Ret(3), 0, 0).oc = "unspec" /\ R(Eval(Ret(3)), 0, 0).oc = "unspec"

\* ---- break-p.sh / continue-p.sh ----
\* 'breaking out of eval': for i in 1; do eval break; echo not reached; done
ASSUME LET r == R(For(1, SeqL(<<Eval(Brk(1)), Echo(1)>>)), 0, 0) IN Fired(r) = <<>> /\ r.st = 0
\* continue through eval: both iterations start, nothing after the continue
ASSUME Fired(R(For(2, SeqL(<<Echo(1), Eval(Cnt(1)), Echo(2)>>)), 0, 0)) = <<1, 1>>
\* break in a dot script whose loop is outside: XCU break leaves it open
ASSUME R(For(1, Dot(Brk(1))), 0, 0).oc = "unspec"
\* break.md: "If n is greater than the number of enclosing loops, the built-in exits the outermost one."
ASSUME Fired(R(SeqL(<<For(2, For(2, SeqL(<<Echo(1), Eval(Brk(3))>>))), Echo(2)>>), 0, 0)) = <<1, 2>>

\* ---- exit-p.sh / exit.md / termination.md ----
ASSUME R(SeqL(<<False, Exit(0)>>), 0, 0).st = 0
ASSUME R(Exit(17), 0, 0).st = 17
ASSUME R(SubExit(19), 0, 0).st = 19
ASSUME R(SeqL(<<SubExit(5), Exit(-1)>>), 0, 0).st = 5
ASSUME R(SeqL(<<SubExit(3), Subsh(Exit(-1))>>), 0, 0).st = 3
\* 'exiting with EXIT trap': trap 'echo TRAP' EXIT; exit 19 -> TRAP, 19
ASSUME LET r == R(SeqL(<<Trap(-2, 1), Exit(19)>>), 0, 0) IN Fired(r) = <<1>> /\ r.st = 19
\* 'exiting from EXIT trap with 7': trap 'exit 7' EXIT; exit 1 -> 7
ASSUME R(SeqL(<<Trap(7, 1), Exit(1)>>), 0, 0).st = 7
ASSUME R(SeqL(<<Trap(0, 1), Exit(1)>>), 0, 0).st = 0
\* 'default exit status in EXIT trap in exiting with default': trap exit EXIT; (exit 2); exit -> 2
ASSUME R(SeqL(<<Trap(-1, 1), SubExit(2), Exit(-1)>>), 0, 0).st = 2
\* 'default exit status in EXIT trap in exiting with 1' (readings of POSIX differ: see the script)
ASSUME R(SeqL(<<Trap(-1, 1), Exit(1)>>), 0, 0).oc = "unspec"
\* termination.md: the EXIT trap runs at end of input, on exit, on errexit, on a shell error;
\* "at most once per shell session"
ASSUME \A t \in {Echo(2), Exit(3), DotMiss(0), EvalSyn} :
         LET r == R(SeqL(<<Trap(-2, 1), t>>), 0, 0) IN Fired(r)[Len(Fired(r))] = 1 /\ r.nt = 1
ASSUME LET r == R(SeqL(<<Trap(-2, 1), False, Echo(2)>>), 1, 0) IN Fired(r) = <<1>> /\ r.st = 1 /\ r.fired
\* exit inside eval / dot script / function / loop ends the shell; inside a subshell only the subshell
ASSUME \A w \in {"eval", "dot", "fn", "for"} :
         LET inner == SeqL(<<Echo(1), Exit(4), Echo(2)>>)
             t == CASE w = "eval" -> Eval(inner) [] w = "dot" -> Dot(inner) [] w = "for" -> For(2, inner)
                    [] OTHER -> SeqL(<<Def("f", inner), Inv("f")>>)
             r == R(SeqL(<<t, Echo(3)>>), 0, 0)
         IN Fired(r) = <<1>> /\ r.st = 4 /\ r.x = "exit"
ASSUME LET r == R(SeqL(<<Subsh(SeqL(<<Echo(1), Exit(4), Echo(2)>>)), P(3)>>), 0, 0)
       IN r.tr = <<<<1, 0>>, <<3, 4>>>> /\ r.x = "none"
\* set -e inside eval / dot: the failing command ends the shell there
ASSUME \A w \in {"eval", "dot"} :
         LET inner == SeqL(<<Mk(1, 1), Echo(2)>>)
             r == R(SeqL(<<IF w = "eval" THEN Eval(inner) ELSE Dot(inner), Echo(3)>>), 1, 0)
         IN Fired(r) = <<1>> /\ r.st = 1 /\ r.fired
\* ... but not in the condition of an if (XCU set -e, exception 2)
ASSUME LET r == R(If(Eval(SeqL(<<Mk(1, 1), Echo(2)>>)), Echo(3)), 1, 0) IN Fired(r) = <<1, 2, 3>>

\* ---- error-p.sh / command-p.sh / termination.md "Shell errors" (leaf `fail c`; C10) ----
Fail(c) == L("fail", 0, c, 0)
\* 'expansion error kills non-interactive shell', 'assignment error without
\* command kills ...', 'assignment error on command X kills ...', 'redirection
\* error on special built-in X kills ...'; termination.md: errors in special
\* built-ins: "echo not reached", non-zero exit status
ASSUME \A c \in {"exp", "asg", "asgc", "spr", "sp"} :
         LET r == R(SeqL(<<Fail(c), Echo(1)>>), 0, 0) IN Fired(r) = <<>> /\ r.st < 0 /\ r.x = "exit"
\* '... in subshell': (a=b; echo not reached); [ $? -ne 0 ]; echo $?
ASSUME \A c \in {"exp", "asg", "asgc", "spr", "sp"} :
         LET r == R(SeqL(<<Subsh(SeqL(<<Fail(c), Echo(1)>>)), P(2)>>), 0, 0)
         IN Fired(r) = <<2>> /\ r.tr[1][2] < 0 /\ r.x = "none"
\* 'redirection error on compound command spares non-interactive shell',
\* '... on function spares ...': printf 'reached\n'
ASSUME LET r == R(SeqL(<<Fail("cmpr"), Echo(1)>>), 0, 0) IN Fired(r) = <<1>> /\ r.st = 0 /\ r.x = "none"
\* 'redirection error on non-special built-in cd spares shell': cd <_no_such_file_; test $? -ne 0 && echo ok
ASSUME LET r == R(SeqL(<<Fail("regr"), P(1)>>), 0, 0) IN r.tr = <<<<1, -10>>>> /\ r.x = "none"
\* command-p.sh 'redirection error on special built-in does not kill shell' (command : <_no_such_file_),
\* 'dot script not found does not kill shell' (command . ./_no_such_file_): echo reached
ASSUME \A c \in {"regr", "cmdsp"} : Fired(R(SeqL(<<Fail(c), Echo(1)>>), 0, 0)) = <<1>>
\* termination.md: redirection errors (except for special built-ins): "The shell exits if errexit is
\* set. Otherwise, it continues with the next command."; exit_status.md "Exiting on errors": not in
\* the condition of an if
ASSUME \A c \in {"reg", "cmdsp", "regr", "cmpr"} :
         /\ LET r == R(SeqL(<<Fail(c), Echo(1)>>), 1, 0) IN Fired(r) = <<>> /\ r.st < 0 /\ r.fired
         /\ Fired(R(SeqL(<<If(Fail(c), Echo(1)), Echo(2)>>), 1, 0)) = <<2>>
\* termination.md: a shell error exits also when -e is being ignored; the EXIT trap runs "regardless
\* of how the shell exits, whether due to an error, ..."
ASSUME \A c \in {"exp", "asg", "asgc", "spr", "sp"} : \A e \in {0, 1} :
         LET r == R(SeqL(<<Trap(-2, 1), If(Fail(c), Echo(2)), Echo(3)>>), e, 0)
         IN Fired(r) = <<1>> /\ r.nt = 1 /\ r.st < 0
\* the same errors in the operand of eval, in a dot script, in a function called by eval
ASSUME \A c \in {"exp", "sp"} : \A w \in {"eval", "dot", "fn"} :
         LET t == CASE w = "eval" -> Eval(Fail(c)) [] w = "dot" -> Dot(Fail(c))
                    [] OTHER -> SeqL(<<Def("f", Fail(c)), Eval(Inv("f"))>>)
             r == R(SeqL(<<t, Echo(3)>>), 0, 0)
         IN Fired(r) = <<>> /\ r.x = "exit"
ASSUME \A w \in {"eval", "dot"} :
         LET t == IF w = "eval" THEN Eval(Fail("reg")) ELSE Dot(Fail("reg"))
         IN R(SeqL(<<t, P(3)>>), 0, 0).tr = <<<<3, -10>>>>
=============================================================================
