SPECIFICATION Spec
CONSTANT Fams = {"exp1"}
CONSTANT Deep = 0
CONSTANT Variant = "noexcl"
INVARIANT Refute
