SPECIFICATION Spec
CONSTANT MaxPath = 3
CONSTANT Slice = 96
CONSTANT Real = TRUE
INVARIANT Emit
INVARIANT Laws
