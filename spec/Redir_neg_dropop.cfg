SPECIFICATION Spec
CONSTANTS
  Cfg = "negop"
  Bug = "dropop"
  Sim = TRUE
INVARIANT TypeOK
INVARIANT Conforms
