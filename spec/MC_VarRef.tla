----------------------------- MODULE MC_VarRef -----------------------------
(***************************************************************************)
(* The invariants of property C16 on the documented model VarRef itself    *)
(* (P1).  A ghost variable remembers, for every pushed context, what was   *)
(* visible when it was pushed and which names have since been the target   *)
(* of an operation that reaches below it (Global scope; Local scope when   *)
(* issued from a volatile context above).                                  *)
(*                                                                         *)
(*  LocalsVanish       everything below a pushed context is exactly as it  *)
(*                     was at the push, for every name not so targeted:    *)
(*                     popping restores the caller's bindings; locals,     *)
(*                     temporary (volatile) assignments and a function's   *)
(*                     positional parameters do not outlive their context. *)
(*  AssignThenLookup   after a successful assignment, lookup returns the   *)
(*                     assigned value; a Global/Local assignment lands in  *)
(*                     a regular context (it persists until that context   *)
(*                     is popped: "globals assigned inside persist").      *)
(*  ReadOnlyNeverChanges / ReadOnlyVisible / EnvExact / ScopedOpsAreLocal  *)
(*                     from VarRef.                                        *)
(***************************************************************************)
EXTENDS VarRef

VARIABLE snap   \* ghost: snap[k] = [vis, pos, dirty, pd] for context k
gvars == <<ctx, snap>>

Vis(c) == [n \in Names |-> Lookup(c, n)]
Entry(c) == [vis |-> Vis(c), pos |-> Pos(c), dirty |-> {}, pd |-> FALSE]

\* lowest context an operation may touch
Reach(c, op) ==
  CASE op.op = "unset" -> ScopeIdx(c, op.scope)
    [] op.op = "gon"   -> IF op.scope = "Volatile" THEN Len(c) ELSE ScopeIdx(c, op.scope)
    [] op.op = "setpos" -> TopReg(c)

GInit == Init /\ snap = <<Entry(InitCtx)>>
GNext ==
  \E op \in Ops :
    /\ Enabled(ctx, op)
    /\ ctx' = Apply(ctx, op).ctx
    /\ snap' = CASE op.op = "push" -> Append(snap, Entry(ctx))
                 [] op.op = "pop"  -> SubSeq(snap, 1, Len(snap) - 1)
                 [] op.op \in {"gon", "unset"} ->
                      [k \in 1..Len(snap) |-> IF Reach(ctx, op) < k
                                              THEN [snap[k] EXCEPT !.dirty = @ \cup {op.n}]
                                              ELSE snap[k]]
                 [] op.op = "setpos" ->
                      [k \in 1..Len(snap) |-> IF Reach(ctx, op) < k
                                              THEN [snap[k] EXCEPT !.pd = TRUE]
                                              ELSE snap[k]]
GSpec == GInit /\ [][GNext]_gvars

LocalsVanish ==
  \A k \in 2..Len(ctx) :
    LET below == SubSeq(ctx, 1, k - 1)
    IN /\ \A n \in Names \ snap[k].dirty : Lookup(below, n) = snap[k].vis[n]
       /\ ~snap[k].pd => Pos(below) = snap[k].pos

AssignThenLookup ==
  \A op \in Ops :
    (op.op = "gon" /\ op.then = "assign") =>
      LET r == Apply(ctx, op)
      IN r.res.st = "ok" =>
           /\ Lookup(r.ctx, op.n).hv /\ Lookup(r.ctx, op.n).val = op.val
           /\ op.scope # "Volatile" => r.ctx[VisIdx(r.ctx, op.n)].kind = "R"
           /\ op.scope = "Global" => \A k \in Holders(r.ctx, op.n) : r.ctx[k].kind = "V" => k < VisIdx(r.ctx, op.n)

GReadOnlyNeverChanges == [][ReadOnlyStep(ctx, ctx')]_gvars
GReadOnlyVisible      == [][ReadOnlyVisibleStep(ctx, ctx')]_gvars
=============================================================================
