--------------------------- MODULE Trace_SetOpts ---------------------------
(***************************************************************************)
(* G06, impl -> spec: every record                                         *)
(*   {id, argv, ops, script, kind, evs, exit, done}                        *)
(* recorded from one run of the real shell (the command line it was        *)
(* started with; the operations, as data; the script text the harness      *)
(* rendered for them; "run" / "error" / "info" = what became of the        *)
(* command line; the observations made by the obs / lst built-ins in       *)
(* order; the exit status; whether the run completed normally) is judged   *)
(* against SetOpts.tla: the events Prog(argv, ops) prescribes must be the  *)
(* ones observed.                                                          *)
(*                                                                         *)
(* Records are independent.  The state of this checker is an index range   *)
(* (lo, hi) that Next halves; the record at lo = hi is judged by the       *)
(* invariant, which prints a verdict line for every record that is not     *)
(* plainly accepted (lib/checks/g06.py turns verdicts into violations and  *)
(* checks that every record was reached):                                  *)
(*   "reject"  expected event number k (0 = the command line) is not what  *)
(*             was observed (field f)                                      *)
(*   "unspec"  the record uses something the specification leaves open     *)
(*             (the events before that operation were accepted)            *)
(*   "misplaced"  the command line is valid but takes another operand than  *)
(*             the harness's script as command string / file (not judged)  *)
(*   "render"  the script text is not Script(ops) (tool error)             *)
(***************************************************************************)
EXTENDS SetOpts, Json, IOUtils

Rec == ndJsonDeserialize(IOEnv.TRACE)

VARIABLES lo, hi
vars == <<lo, hi>>

V(v, k, f) == [v |-> v, k |-> k, f |-> f]

\* JSON arrays arrive as sequences; make the operations records of the specification's shape
RECURSIVE OpsOf(_)
OpOf(o) == [k |-> o.k, cmd |-> o.cmd, args |-> o.args, body |-> OpsOf(o.body)]
OpsOf(q) == IF Len(q) = 0 THEN <<>> ELSE <<OpOf(q[1])>> \o OpsOf(Tail(q))

StOk(exp, got) == IF exp = -1 THEN got # 0 ELSE exp = got

\* "" = the observed event o is the expected event e; else the deviating field
Differs(e, o) ==
  IF o.t # e.t THEN "kind-of-observation"
  ELSE IF e.t = "p" THEN
       IF SRange(o.dash) # SRange(e.dash) \/ Len(o.dash) # Len(e.dash) THEN "dash"
       ELSE IF SRange(o.on) # SRange(e.on) \/ Len(o.on) # Len(e.on) THEN "options"
       ELSE IF o.ppos # e.pos THEN "positional"
       ELSE IF o.pos # e.pos THEN "at"
       ELSE IF o.ns # ToString(Len(e.pos)) THEN "count"
       ELSE IF o.star # JoinWith(e.pos, " ") THEN "star"
       ELSE IF o.a0 # e.a0 \/ o.ea0 # e.a0 THEN "arg0"
       ELSE IF ~StOk(e.st, o.st) THEN "status"
       ELSE ""
  ELSE IF e.t = "lo" THEN (IF o.rows = e.rows THEN "" ELSE "set-o-listing")
  ELSE IF e.t = "lp" THEN (IF o.lines = e.lines THEN "" ELSE "set+o-listing")
  ELSE "kind-of-observation"

\* walk the expected events (from number i) along the observed ones (from number j)
RECURSIVE Walk(_, _, _, _, _)
Walk(exp, r, i, j, partial) ==
  IF i > Len(exp) THEN (IF partial THEN V("unspec", i, "") ELSE V("reject", i, "no-end-event"))
  ELSE LET e == exp[i] IN
       IF e.t \in {"x", "e"} THEN
            IF j > Len(r.evs) THEN (IF StOk(e.st, r.exit) THEN V("ok", 0, "") ELSE V("reject", i, "exit-status"))
            ELSE IF e.may THEN Walk(exp, r, i + 1, j, partial)
            ELSE V("reject", i, "runs-on")
       ELSE IF j > Len(r.evs) THEN V("reject", i, "exits-early")
       ELSE LET d == Differs(e, r.evs[j]) IN
            IF d # "" THEN V("reject", i, d) ELSE Walk(exp, r, i + 1, j + 1, partial)

Judge(r) ==
  LET ops == OpsOf(r.ops) IN
  IF r.script # Script(ops) THEN V("render", 0, "")
  ELSE LET p == Prog(r.argv, ops) IN
       IF p.k = "unspec" THEN V("unspec", 0, "")
       ELSE IF p.k # r.kind THEN V("reject", 0, "command-line")
       ELSE IF p.k # "run" THEN V("ok", 0, "")
       \* the harness puts the script where @C / /tmp/script stand: a command line on which the
       \* specification finds the command string or the file elsewhere does not run the script
       ELSE IF (p.mode = "c" /\ r.argv[p.script] # "@C") \/ (p.mode = "f" /\ r.argv[p.script] # "/tmp/script")
            THEN V("misplaced", 0, "")
       ELSE IF ~r.done THEN V("reject", 0, "outcome")
       ELSE Walk(p.evs, r, 1, 1, p.partial)

TraceInit == lo = 1 /\ hi = Len(Rec)

TraceNext ==
  /\ lo < hi
  /\ LET mid == (lo + hi) \div 2 IN
     \/ lo' = lo /\ hi' = mid
     \/ lo' = mid + 1 /\ hi' = hi

Verdict ==
  lo = hi => LET v == Judge(Rec[lo]) IN
             IF v.v = "ok" THEN TRUE ELSE PrintT(ToJson([i |-> lo, v |-> v.v, k |-> v.k, f |-> v.f]))

TraceSpec == TraceInit /\ [][TraceNext]_vars
=============================================================================
