SPECIFICATION Spec
CONSTANTS
  PIPE_BUF = 512
  PIPE_SIZE = 1024
  Tier = "quick"
  NRandom = 6
INVARIANT Emit
