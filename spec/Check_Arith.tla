---------------------------- MODULE Check_Arith ----------------------------
(***************************************************************************)
(* Calibration of the oracle Arith.tla (DESIGN.md 4.4): worked examples     *)
(* transcribed by hand, each citing its source, evaluated by TLC before the *)
(* oracle is allowed to judge the code.  A failing ASSUME is a tool error.  *)
(*  [man]   /repo/docs/src/arithmetic.md, language/words/arithmetic.md      *)
(*  [p.sh]  /repo/yash-cli/tests/scripted_test/arith-p.sh (POSIX cases)     *)
(*  [C]     ISO C 6.5 / POSIX XCU 2.6.4                                     *)
(* (Parse(Toks(e)) = e and the 64-bit range of every result are checked on  *)
(* every generated case by Gen_Arith!Line.)                                 *)
(***************************************************************************)
EXTENDS Arith, TLC

N(i) == IF i < 0 THEN Pre("-", Const(FromInt(0 - i), "d")) ELSE Const(FromInt(i), "d")
X == Var("x")
A == Var("a")
Bv == Var("b")
Cv == Var("c")
NoVars == [n \in {"x", "a", "b", "c"} |-> Unset]
With(env, n, str) == [env EXCEPT ![n] = Cell(str)]

\* the single value of e
Val(e, env) == LET S == Allowed(e, env) IN IF Cardinality(S) = 1 THEN (CHOOSE o \in S : TRUE) ELSE [t |-> "many"]
Is(e, env, i) == LET o == Val(e, env) IN o.t = "v" /\ o.v = FromInt(i)
Fails(e, env) == \A o \in Allowed(e, env) : o.t = "e"
B2(op, i, j) == Bin(op, N(i), N(j))

\* [man] numeric constants
ASSUME Is(Const(FromInt(34), "o"), NoVars, 34) /\ Text(Const(FromInt(34), "o"), "s") = "042"
ASSUME Is(Const(FromInt(42), "x"), NoVars, 42) /\ Text(Const(FromInt(42), "X"), "s") = "0X2A"
ASSUME Text(Const(FromInt(42), "x"), "s") = "0x2a" /\ Text(Const(Zero, "o"), "s") = "00" /\ Text(Const(Zero, "d"), "s") = "0"
\* [man] $((1 + 2)) = 3, $((2 * 3 + 4)) = 10, $((2 * (3 + 4))) = 14
ASSUME Is(B2("+", 1, 2), NoVars, 3)
ASSUME Is(Bin("+", B2("*", 2, 3), N(4)), NoVars, 10) /\ Text(Bin("+", B2("*", 2, 3), N(4)), "s") = "2 * 3 + 4"
ASSUME Is(Bin("*", N(2), B2("+", 3, 4)), NoVars, 14) /\ Text(Bin("*", N(2), B2("+", 3, 4)), "s") = "2 * ( 3 + 4 )"
\* [man] a=5 b=10: a + b = 15; unset x: x + 3 = 3; x=foo: error
ASSUME Is(Bin("+", A, Bv), With(With(NoVars, "a", <<"5">>), "b", <<"1", "0">>), 15)
ASSUME Is(Bin("+", X, N(3)), NoVars, 3)
ASSUME Fails(Bin("+", X, N(3)), With(NoVars, "x", <<"f", "o", "o">>))
\* [p.sh] single variable: plus_one=+1 minus_one=-1
ASSUME Is(X, With(NoVars, "x", <<"+", "1">>), 1) /\ Is(X, With(NoVars, "x", <<"-", "1">>), -1)
\* [p.sh] unary operators: -+-2 = 2; ~0 ~1 ~-1 ~-2 = -1 -2 0 1; !0 !2 !-1 = 1 0 0
ASSUME Is(Pre("-", Pre("+", N(-2))), NoVars, 2)
ASSUME Is(Pre("~", N(0)), NoVars, -1) /\ Is(Pre("~", N(1)), NoVars, -2) /\ Is(Pre("~", N(-1)), NoVars, 0) /\ Is(Pre("~", N(-2)), NoVars, 1)
ASSUME Is(Pre("!", N(0)), NoVars, 1) /\ Is(Pre("!", N(2)), NoVars, 0) /\ Is(Pre("!", N(-1)), NoVars, 0)
\* [p.sh] multiplicative: -5*7 -12/3 35/-5 -121/-11 47%7
ASSUME Is(B2("*", -5, 7), NoVars, -35) /\ Is(B2("/", -12, 3), NoVars, -4) /\ Is(B2("/", 35, -5), NoVars, -7)
ASSUME Is(B2("/", -121, -11), NoVars, 11) /\ Is(B2("%", 47, 7), NoVars, 5) /\ Is(B2("%", 1, 2), NoVars, 1)
\* [C] 6.5.5: truncation toward zero, remainder has the sign of the dividend
ASSUME Is(B2("/", -7, 2), NoVars, -3) /\ Is(B2("%", -7, 2), NoVars, -1) /\ Is(B2("%", 7, -2), NoVars, 1)
\* [p.sh] additive: 5+-7 5- -7 -1- -2
ASSUME Is(B2("+", 5, -7), NoVars, -2) /\ Is(B2("-", 5, -7), NoVars, 12) /\ Is(B2("-", -1, -2), NoVars, 1)
ASSUME Text(B2("-", 5, -7), "t") = "5- -7"
\* [p.sh] shifts: 3<<2 5<<3 15>>2 43>>3 -14>>3 = 12 40 3 5 -2   ("undefined: -2<<3")
ASSUME Is(B2("<<", 3, 2), NoVars, 12) /\ Is(B2("<<", 5, 3), NoVars, 40) /\ Is(B2(">>", 15, 2), NoVars, 3)
ASSUME Is(B2(">>", 43, 3), NoVars, 5) /\ Is(B2(">>", -14, 3), NoVars, -2)
ASSUME {o.t : o \in Allowed(B2("<<", -2, 3), NoVars)} = {"e", "v"}
\* [p.sh] relational / equality
ASSUME Is(B2("<", -1, 0), NoVars, 1) /\ Is(B2("<", 0, -1), NoVars, 0) /\ Is(B2("<=", 1, 1), NoVars, 1) /\ Is(B2(">", 1, -1), NoVars, 1)
ASSUME Is(B2(">=", -1, 0), NoVars, 0) /\ Is(B2("==", 3, 3), NoVars, 1) /\ Is(B2("!=", 2, 3), NoVars, 1) /\ Is(B2("!=", 3, 3), NoVars, 0)
\* [p.sh] bitwise: -13&5 3&-11 -13&-11 = 1 1 -15; -13^5 3^-11 -13^-11 = -10 -10 6; -13|5 3|-11 -13|-11 = -9 -9 -9
ASSUME Is(B2("&", -13, 5), NoVars, 1) /\ Is(B2("&", 3, -11), NoVars, 1) /\ Is(B2("&", -13, -11), NoVars, -15)
ASSUME Is(B2("^", -13, 5), NoVars, -10) /\ Is(B2("^", 3, -11), NoVars, -10) /\ Is(B2("^", -13, -11), NoVars, 6)
ASSUME Is(B2("|", -13, 5), NoVars, -9) /\ Is(B2("|", 3, -11), NoVars, -9) /\ Is(B2("|", 3, 5), NoVars, 7)
\* [p.sh] logical: 3&&-5 0||-5 -1?2:3
ASSUME Is(B2("&&", 3, -5), NoVars, 1) /\ Is(B2("&&", 3, 0), NoVars, 0) /\ Is(B2("||", 0, -5), NoVars, 1) /\ Is(Cond(N(-1), N(2), N(3)), NoVars, 2)
\* [p.sh] conditional evaluation: a=0; 1&&(a=5) -> 1, a=5;  0&&(a=-5) -> 0, a unchanged
ASSUME LET o == Val(Bin("&&", N(1), Bin("=", A, N(5))), With(NoVars, "a", <<"0">>)) IN o.t = "v" /\ o.v = One /\ o.env["a"] = Cell(<<"5">>)
ASSUME LET o == Val(Bin("&&", N(0), Bin("=", A, N(-5))), With(NoVars, "a", <<"0">>)) IN o.t = "v" /\ o.v = Zero /\ o.env["a"] = Cell(<<"0">>)
ASSUME LET o == Val(Bin("||", N(1), Bin("=", A, N(-5))), With(NoVars, "a", <<"0">>)) IN o.t = "v" /\ o.v = One /\ o.env["a"] = Cell(<<"0">>)
ASSUME LET o == Val(Cond(N(0), Bin("=", A, N(-5)), Bin("=", Bv, N(5))), NoVars) IN o.t = "v" /\ o.v = FromInt(5) /\ ~o.env["a"].set /\ o.env["b"] = Cell(<<"5">>)
\* yash-arith/src/lib.rs (doc tests of the crate): "a = b -= c = 7" is -7 with a=-7 b=-7 c=7;
\* "9 ? 1 : 0 ? 2 : 3" = 1, "0 ? 1 : 0 ? 2 : 3" = 3, "1?a=10:(b=20)" = 10
ASSUME LET e == Bin("=", A, Bin("-=", Bv, Bin("=", Cv, N(7))))
           o == Val(e, NoVars)
       IN /\ Text(e, "s") = "a = b -= c = 7"
          /\ o.t = "v" /\ o.v = FromInt(-7) /\ o.env["a"] = Cell(<<"-", "7">>) /\ o.env["b"] = Cell(<<"-", "7">>) /\ o.env["c"] = Cell(<<"7">>)
ASSUME LET e == Cond(N(9), N(1), Cond(N(0), N(2), N(3))) IN Is(e, NoVars, 1) /\ Text(e, "s") = "9 ? 1 : 0 ? 2 : 3"
ASSUME Is(Cond(N(0), N(1), Cond(N(0), N(2), N(3))), NoVars, 3)
ASSUME LET e == Cond(N(1), Bin("=", A, N(10)), Bin("=", Bv, N(20))) IN Is(e, NoVars, 10) /\ Text(e, "t") = "1?a=10:(b=20)"
\* [C] precedence: 1 | 2 ^ 3 & 4 == 4 is 1 | (2 ^ (3 & (4 == 4))) = 3; 1 + 2 << 3 = 24; 2 * 3 % 4 = 2; 10 - 4 - 3 = 3
ASSUME LET e == Bin("|", N(1), Bin("^", N(2), Bin("&", N(3), B2("==", 4, 4)))) IN Is(e, NoVars, 3) /\ Text(e, "s") = "1 | 2 ^ 3 & 4 == 4"
ASSUME LET e == Bin("<<", B2("+", 1, 2), N(3)) IN Is(e, NoVars, 24) /\ Text(e, "s") = "1 + 2 << 3"
ASSUME LET e == Bin("%", B2("*", 2, 3), N(4)) IN Is(e, NoVars, 2) /\ Text(e, "s") = "2 * 3 % 4"
ASSUME LET e == Bin("-", B2("-", 10, 4), N(3)) IN Is(e, NoVars, 3) /\ Text(e, "s") = "10 - 4 - 3"
ASSUME LET e == Bin("-", N(10), B2("-", 4, 3)) IN Is(e, NoVars, 9) /\ Text(e, "s") = "10 - ( 4 - 3 )"
ASSUME Text(Pre("-", B2("*", 1, 2)), "t") = "-(1*2)" /\ Text(Bin("*", N(-1), N(2)), "t") = "-1*2"
ASSUME Text(Post("++", Pre("++", X)), "t") = "(++x)++" /\ Text(Pre("++", Post("++", X)), "t") = "++x++"
ASSUME Text(Bin("+", Post("++", X), Pre("+", N(1))), "t") = "x++ + +1"
ASSUME Text(Bin("=", Cond(N(1), X, A), N(3)), "t") = "(1?x:a)=3" /\ Text(Cond(N(1), X, Bin("=", A, N(3))), "t") = "1?x:(a=3)"
ASSUME Text(Cond(Cond(N(1), N(2), N(3)), N(4), N(5)), "t") = "(1?2:3)?4:5"
\* [C] errors instead of wrapped values at the ends of the range
ASSUME Fails(Bin("+", Const(Max64, "d"), N(1)), NoVars) /\ Fails(Pre("-", X), With(NoVars, "x", DecChars(Min64)))
ASSUME Fails(Bin("/", X, N(-1)), With(NoVars, "x", DecChars(Min64))) /\ Fails(B2("/", 1, 0), NoVars) /\ Fails(B2("%", 1, 0), NoVars)
ASSUME Fails(B2("<<", 1, 64), NoVars) /\ Fails(B2(">>", 1, 64), NoVars) /\ Fails(B2("<<", 1, -1), NoVars) /\ Fails(B2(">>", 1, -1), NoVars)
ASSUME Fails(B2("<<", 1, 63), NoVars) /\ Is(B2("<<", 1, 30), NoVars, 1073741824)
ASSUME {o.t : o \in Allowed(Bin("%", X, N(-1)), With(NoVars, "x", DecChars(Min64)))} = {"e", "v"}
ASSUME Fails(B2("=", 1, 2), NoVars) /\ Fails(Post("++", N(1)), NoVars) /\ Is(Bin("&&", N(0), B2("=", 1, 2)), NoVars, 0)
\* [C] 6.5p2: unsequenced modification and use of x is undefined
ASSUME {o.t : o \in Allowed(Bin("+", X, Bin("=", X, N(1))), NoVars)} = {"u"}
ASSUME {o.t : o \in Allowed(Bin("=", X, Post("++", X)), NoVars)} = {"u"}
ASSUME Is(Bin("=", X, Bin("+", X, N(1))), With(NoVars, "x", <<"4">>), 5)
\* [C] 6.5.1p5: a parenthesized lvalue is an lvalue; redundant parentheses do not change the value
ASSUME LET e == Bin("=", Group(X), N(3)) IN Is(e, NoVars, 3) /\ Text(e, "t") = "(x)=3"
ASSUME LET e == Post("++", Group(Group(X))) IN Is(e, With(NoVars, "x", <<"4">>), 4) /\ Text(e, "t") = "((x))++"
ASSUME Is(Bin("*", Group(N(2)), Group(B2("+", 3, 4))), NoVars, 14) /\ Fails(Bin("=", Group(N(1)), N(2)), NoVars)
\* variable values: XCU 2.6.4 "$((x))" and "$(($x))" agree for integer constants
ASSUME ValueOf(<<"0", "1", "0">>) = [c |-> "num", v |-> FromInt(8)] /\ ValueOf(<<"0", "x", "1", "0">>) = [c |-> "num", v |-> FromInt(16)]
ASSUME ValueOf(<<"-", "0", "1", "0">>) = [c |-> "num", v |-> FromInt(-8)] /\ ValueOf(<<"+", "5">>).v = FromInt(5)
ASSUME ValueOf(<<>>).c = "bad" /\ ValueOf(<<"f", "o", "o">>).c = "bad" /\ ValueOf(<<"0", "8">>).c = "unspec" /\ ValueOf(<<"1", " ">>).c = "unspec"
ASSUME ValueOf(DecChars(Min64)) = [c |-> "num", v |-> Min64] /\ ValueOf(DecChars(Mk(FALSE, M2p63))).c = "range"
ASSUME ValueOfDecimalOnly(<<"0", "1", "0">>).v = FromInt(10) /\ ValueOfDecimalOnly(<<"0", "x", "1", "0">>).c = "bad"

VARIABLE dummy
Init == dummy = 0
Next == UNCHANGED dummy
=============================================================================
