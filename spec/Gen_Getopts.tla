----------------------------- MODULE Gen_Getopts -----------------------------
(***************************************************************************)
(* P4 enumeration for the getopts part of C20: every vector of length      *)
(* <= MaxLen over GTokens, for every option string of OptStrings.  One     *)
(* state per vector prefix; its line carries the prescribed loop of the    *)
(* prefix ("s", used for the empty vector) and of each one-token extension *)
(* ("r").  Code of a loop: <<optind, n, then per report                    *)
(*   ch (index into GLetters), err (0 none, 1 unknown, 2 missing), k, d,   *)
(*   ai, ci>>  -- (ai, ci) = where parsing resumes after the report        *)
(* (model::Result::next_arg_index / next_char_index).                      *)
(* "vis": what a script sees, per mode: [[name, OPTARG]...], for the shell *)
(* level replay (only printed for vectors up to ShellLen).                 *)
(* The invariant also checks the ungrouping theorem (vectors <= ShellLen). *)
(***************************************************************************)
EXTENDS Getopts, Json

CONSTANTS MaxLen, ShellLen

GTokens == << GOChars("-a"), GOChars("-ab"), GOChars("-x"), GOChars("-xa"), GOChars("-axc"),
              GOChars("-bARG"), GOChars("-xbARG"), GOChars("--"), GOChars("-"), GOChars("X"),
              GOChars("-b"), GOChars("-c:") >>
NGTok == Len(GTokens)
OptStrings == << GOChars("ab:c"), GOChars(":ab:c"), GOChars("abc"), GOChars(":xa"), GOChars("b:"), GOChars("") >>
GLetters == <<"a", "b", "c", "x", "A", "R", "G", ":", "-">>
LetterIdx(c) == CHOOSE i \in 1..Len(GLetters) : GLetters[i] = c

VARIABLES osi, v
vars == <<osi, v>>

ArgvOf(w) == [n \in 1..Len(w) |-> GTokens[w[n]]]
ErrIdx(e) == IF e = "" THEN 0 ELSE IF e = "U" THEN 1 ELSE 2

RECURSIVE Flat(_)
Flat(rs) == IF rs = <<>> THEN <<>>
            ELSE <<LetterIdx(rs[1].ch), ErrIdx(rs[1].err), rs[1].k, rs[1].d, rs[1].ai, rs[1].ci>> \o Flat(Tail(rs))

CodeOf(l) == <<l.optind, Len(l.reports)>> \o Flat(l.reports)
Code(w) == CodeOf(GOLoop(OptStrings[osi], ArgvOf(w)))

Vis(w) == LET os == OptStrings[osi]
              a == ArgvOf(w)
              l == GOLoop(os, a)
          IN [rep |-> [n \in DOMAIN l.reports |-> GOVisible(os, a, l.reports[n])],
              diag |-> GODiagnostic(os, l), optind |-> l.optind]

Ungrouping(w) ==
  LET os == OptStrings[osi]
      a == ArgvOf(w)
      u == GOUngroup(os, a)
  IN GOAbstract(a, GOLoop(os, a)) = GOAbstract(u, GOLoop(os, u))

Init == osi \in 1..Len(OptStrings) /\ v = <<>>
Next == /\ Len(v) < MaxLen - 1
        /\ \E t \in 1..NGTok : v' = Append(v, t)
        /\ UNCHANGED osi
Spec == Init /\ [][Next]_vars

Emit ==
  /\ Len(v) < ShellLen =>
       Assert(\A t \in 1..NGTok : Ungrouping(Append(v, t)), <<"ungrouping theorem fails", osi, v>>)
  /\ Len(v) = 0 => PrintT(ToJson([hdr |-> TRUE, tokens |-> GTokens, optstrings |-> OptStrings,
                                  letters |-> GLetters]))
  /\ PrintT(ToJson([os |-> osi, v |-> v, s |-> Code(v),
                    r |-> [t \in 1..NGTok |-> Code(Append(v, t))],
                    vis |-> IF Len(v) < ShellLen THEN [t \in 1..NGTok |-> Vis(Append(v, t))] ELSE <<>>]))
=============================================================================
