SPECIFICATION TraceSpec
CONSTANTS
  Profile = "trace"
  MaxTok = 0
  MaxUnits = 0
POSTCONDITION Accepted
CHECK_DEADLOCK FALSE
