SPECIFICATION GenSpec
CONSTANT Level = 1
INVARIANT EmitProgram
INVARIANT NonEmpty
