CONSTANTS
  MaxDepth = 4
  Variant = ""
