\* G14 negative configuration: the wrong variant "trap-folds-case" of SigNames.tla must be refuted by a law
SPECIFICATION Spec
CONSTANTS
  Level = "laws"
  Variant = "trap-folds-case"
INVARIANT LawsHold
