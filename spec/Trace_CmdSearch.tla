-------------------------- MODULE Trace_CmdSearch --------------------------
(***************************************************************************)
(* impl -> spec validation for G04 (B).  Every record of the ndjson file   *)
(* IOEnv.TRACE was observed on the real shell:                             *)
(*   {name, S: {fns, als, path, std, files, cwd, posix, portable}, query,  *)
(*    pn (panicked), obs}                                                  *)
(* query "v"/"pv": obs = {out, found}; "V"/"pV"/"type": {kind, path,       *)
(* found}; "plain"/"cmd"/"cmdp": {what, path, st, sp, persist};            *)
(* "abortplain"/"abortcmd"/"abortcmdp": {aborted}.                         *)
(* The built-in table is the one of the harness (BiTable below).  A record *)
(* is accepted iff the observation agrees with what CmdSearch.tla          *)
(* prescribes (AgreeV / AgreeVV / AgreeInv).                               *)
(***************************************************************************)
EXTENDS CmdSearch, Json, IOUtils

Rec == ndJsonDeserialize(IOEnv.TRACE)
N == Len(Rec)

BiTable == <<
  [n |-> "nsp", t |-> "special"],   [n |-> "nma", t |-> "mandatory"], [n |-> "nel", t |-> "elective"],
  [n |-> "nex", t |-> "extension"], [n |-> "nsu", t |-> "substitutive"],
  [n |-> ":", t |-> "special"],     [n |-> "cd", t |-> "mandatory"],  [n |-> "true", t |-> "substitutive"],
  [n |-> "typeset", t |-> "elective"] >>

VARIABLES lo, hi
vars == <<lo, hi>>

Init == lo = 1 /\ hi = N
Next == /\ lo < hi
        /\ LET mid == (lo + hi) \div 2
           IN \/ lo' = lo /\ hi' = mid
              \/ lo' = mid + 1 /\ hi' = hi
Spec == Init /\ [][Next]_vars

SeqToSet(q) == { q[i] : i \in DOMAIN q }

StateOf(r) == [fns |-> SeqToSet(r.S.fns), als |-> SeqToSet(r.S.als), bi |-> BiTable, path |-> r.S.path,
               std |-> r.S.std, files |-> r.S.files, cwd |-> r.S.cwd, posix |-> r.S.posix, portable |-> r.S.portable]

Mode(q) == CASE q \in {"plain", "abortplain"} -> "plain"
             [] q \in {"cmd", "abortcmd"} -> "command"
             [] OTHER -> "command-p"

Verdict(r) ==
  LET S == StateOf(r)
      q == r.query
  IN IF r.pn THEN [v |-> "reject", exp |-> [panic |-> FALSE]]
     ELSE CASE q \in {"v", "pv"} ->
                 LET id == Identify(S, r.name, q = "pv")
                 IN IF id.kind = "unsp" THEN [v |-> "skip", exp |-> ""]
                    ELSE IF AgreeV(r.obs, id) THEN [v |-> "ok", exp |-> ""] ELSE [v |-> "reject", exp |-> id]
            [] q \in {"V", "pV", "type"} ->
                 LET id == Identify(S, r.name, q = "pV")
                 IN IF id.kind = "unsp" THEN [v |-> "skip", exp |-> ""]
                    ELSE IF AgreeVV(r.obs, id) THEN [v |-> "ok", exp |-> ""] ELSE [v |-> "reject", exp |-> id]
            [] q \in {"plain", "cmd", "cmdp"} ->
                 LET o == Invoke(S, r.name, Mode(q))
                 IN IF AgreeInv(r.obs, o) THEN [v |-> "ok", exp |-> ""] ELSE [v |-> "reject", exp |-> o]
            [] OTHER ->
                 LET a == AbortsOnError(S, r.name, Mode(q))
                 IN IF r.obs.aborted = a THEN [v |-> "ok", exp |-> ""] ELSE [v |-> "reject", exp |-> [aborted |-> a]]

Judge ==
  (lo = hi /\ N > 0) =>
     LET j == Verdict(Rec[lo])
     IN IF j.v = "ok" THEN TRUE
        ELSE PrintT(ToJson([i |-> lo, v |-> j.v, exp |-> j.exp]))
=============================================================================
