\* negative configuration: the wrong variant "async_gets_tty" must be refuted (law TakeBack)
SPECIFICATION Spec
CONSTANTS
  Variant = "async_gets_tty"
  Fams = {"fg", "async", "stop1", "tty", "nomon"}
  Cfgs = {"m", "mi", "-", "ml", "mib"}
  Enf = {TRUE}
ALIAS Brief
INVARIANT TakeBack
