INIT Init
NEXT Next
VIEW view
CONSTANTS
  Variant = ""
  PNorm <- TokLP
  PLit <- LitLPt
  PMacro <- MacLPt
  PLen = 3
  SAlpha <- StrLP
  SLen = 4
  CfgSel = "lp"
  Kind = "match"
INVARIANT Emit
