INIT Init
NEXT Next
VIEW view
CONSTANTS
  PNorm <- AlphaDq
  PLit <- LitDq
  PMacro <- NoChars
  PLen = 3
  SAlpha <- StrDq
  SLen = 2
  Kind = "shell"
INVARIANT Emit
