------------------------------- MODULE VarLang -------------------------------
(***************************************************************************)
(* C16, phase 2: the variable store as the LANGUAGE drives it.             *)
(*                                                                         *)
(* A script is a sequence of simple commands; this module gives each the   *)
(* meaning the code comments and the manual give it, as a composition of   *)
(* the documented VariableSet operations of VarRef:                        *)
(*                                                                         *)
(*   n=v                 get_or_new(n, Global); assign                     *)
(*   n=v :               the same (special built-in: the assignment        *)
(*                       persists)                                         *)
(*   n=v snap            regular built-in: push a volatile context;        *)
(*                       get_or_new(n, Volatile); assign; export; run the  *)
(*                       built-in; pop                                     *)
(*   [n=v] fK args       function: push volatile; assign+export; push a    *)
(*                       regular context with the positional parameters;   *)
(*                       body; pop; pop                                    *)
(*   [n=v] /bin/true     external: push volatile; assign+export; the       *)
(*                       program receives env_c_strings(); pop             *)
(*   typeset n[=v]       (regular built-in, so inside its own volatile     *)
(*                       context) get_or_new(n, Local); assign             *)
(*   export n[=v]        get_or_new(n, Global); assign; export             *)
(*   readonly n[=v]      get_or_new(n, Global); assign; make_read_only     *)
(*   unset n             unset(n, Global)                                  *)
(*   set -- args         positional_params_mut()                           *)
(*                                                                         *)
(* (simple_command.rs perform_assignments: Special => Global, else         *)
(* Volatile + export; simple_command/{builtin,function,external}.rs;       *)
(* yash-builtin typeset/set_variables.rs, export.rs, readonly.rs,          *)
(* unset/semantics.rs.)                                                    *)
(*                                                                         *)
(* After every command the script runs the probe `snap`, which reports     *)
(* every visible variable with its attributes and the positional           *)
(* parameters; the EXIT trap runs a last `snap`.  A command that fails     *)
(* (assignment to / unset of a read-only variable) is the last command of  *)
(* the script: what the shell does after such an error is property C10's   *)
(* business, here only the final state is predicted.                       *)
(*                                                                         *)
(* TLC enumerates (or samples, -simulate) the scripts and prints, for each *)
(* complete one, the command list together with the predicted snapshots,   *)
(* the predicted environment of every executed program and the predicted   *)
(* final state; the harness runs the script in the real shell on the       *)
(* simulated OS and the observations are compared with the predictions.    *)
(***************************************************************************)
EXTENDS VarRef, Json

CONSTANTS MaxLen,     \* number of commands of a script
          MaxCalls,   \* nesting depth of function calls
          Cmds        \* kinds of commands generated, a subset of
                      \* {"assign", "sassign", "pbuiltin", "call", "ext", "typeset",
                      \*  "export", "readonly", "unset", "setpos"}

VARIABLES script,   \* sequence of events: commands, "ret", and "snap" probes
          snaps,    \* predicted snapshots, in order
          envs,     \* predicted environments of the executed programs, in order
          frames,   \* number of function calls in progress
          ncmd,     \* commands so far
          dead      \* a command failed: the script ends here

lvars == <<ctx, script, snaps, envs, frames, ncmd, dead>>

ArgVals == {<<>>, <<"1">>, <<"2", "3">>}

\* what `snap` reports: positional parameters and every name's visible variable
Shot(c) == [pos |-> Pos(c), vars |-> [i \in 1..Len(NameSeq) |-> VarStr(Lookup(c, NameSeq[i]))]]

GonOp(n, scope, then, val, flag) ==
  [op |-> "gon", n |-> n, scope |-> scope, then |-> then, val |-> val, flag |-> flag]
PushV == [op |-> "push", kind |-> "V", pos |-> <<>>]
PopOp == [op |-> "pop"]

\* run a list of operations; stop at the first one that fails
RECURSIVE RunOps(_, _)
RunOps(c, ops) ==
  IF ops = <<>> THEN [ctx |-> c, ok |-> TRUE]
  ELSE LET r == Apply(c, Head(ops))
       IN IF r.res.st # "ok" THEN [ctx |-> r.ctx, ok |-> FALSE]
          ELSE RunOps(r.ctx, Tail(ops))

\* drop every context above the base one (what is left when the script ends)
Base(c) == SubSeq(c, 1, 1)

\* the optional assignment and the attribute of typeset/export/readonly
Decl(n, hasv, v, scope, attr) ==
  (IF hasv THEN <<GonOp(n, scope, "assign", v, FALSE)>> ELSE <<>>)
  \o (CASE attr = "none"   -> <<GonOp(n, scope, "none", "", FALSE)>>
        [] attr = "export" -> <<GonOp(n, scope, "export", "", TRUE)>>
        [] attr = "ro"     -> <<GonOp(n, scope, "ro", "", FALSE)>>)

\* prefix assignment to a regular built-in, function or external utility
Prefix(n, v) == <<GonOp(n, "Volatile", "assign", v, FALSE), GonOp(n, "Volatile", "export", "", TRUE)>>

NoPre == [n |-> "", v |-> ""]
Pres  == {NoPre} \cup [n : Names, v : Vals]

Tag == Len(snaps) + 1

\* finish a command: ev = the command event; r = result of its operations;
\* a snapshot probe follows unless the command failed
Finish(ev, r) ==
  /\ ncmd' = ncmd + 1
  /\ ctx' = r.ctx
  /\ dead' = ~r.ok
  /\ IF r.ok THEN /\ script' = script \o <<ev, [c |-> "snap", tag |-> Tag]>>
                  /\ snaps' = Append(snaps, Shot(r.ctx))
     ELSE /\ script' = Append(script, ev)
          /\ snaps' = snaps

Simple(kind) == kind \in Cmds /\ ~dead /\ ncmd < MaxLen

Assign ==
  \E n \in Names, v \in Vals, k \in {"assign", "sassign"} :
    /\ Simple(k)
    /\ Finish([c |-> k, n |-> n, v |-> v], RunOps(ctx, <<GonOp(n, "Global", "assign", v, FALSE)>>))
    /\ UNCHANGED <<envs, frames>>

\* n=v snap: the probe itself is the regular built-in, so its report is taken
\* inside the volatile context
PrefixBuiltin ==
  \E n \in Names, v \in Vals :
    /\ Simple("pbuiltin")
    /\ LET r == RunOps(ctx, <<PushV>> \o Prefix(n, v))
       IN /\ ncmd' = ncmd + 1
          /\ dead' = ~r.ok
          /\ IF r.ok
             THEN /\ ctx' = Apply(r.ctx, PopOp).ctx
                  /\ script' = script \o <<[c |-> "pbuiltin", n |-> n, v |-> v, tag |-> Tag],
                                           [c |-> "snap", tag |-> Tag + 1]>>
                  /\ snaps' = snaps \o <<Shot(r.ctx), Shot(Apply(r.ctx, PopOp).ctx)>>
             ELSE /\ ctx' = r.ctx
                  /\ script' = Append(script, [c |-> "pbuiltin", n |-> n, v |-> v, tag |-> Tag])
                  /\ snaps' = snaps
    /\ UNCHANGED <<envs, frames>>

External ==
  \E p \in Pres :
    /\ Simple("ext")
    /\ LET r == RunOps(ctx, <<PushV>> \o (IF p = NoPre THEN <<>> ELSE Prefix(p.n, p.v)))
       IN /\ envs' = IF r.ok THEN Append(envs, EnvSeq(r.ctx)) ELSE envs
          /\ Finish([c |-> "ext", n |-> p.n, v |-> p.v],
                    IF r.ok THEN [ctx |-> Apply(r.ctx, PopOp).ctx, ok |-> TRUE] ELSE r)
    /\ UNCHANGED frames

\* the call itself; the body's commands follow, then "ret"
Call ==
  \E p \in Pres, a \in ArgVals :
    /\ Simple("call") /\ frames < MaxCalls
    /\ LET r == RunOps(ctx, <<PushV>> \o (IF p = NoPre THEN <<>> ELSE Prefix(p.n, p.v)))
           ev == [c |-> "call", n |-> p.n, v |-> p.v, args |-> a]
       IN /\ ncmd' = ncmd + 1
          /\ dead' = ~r.ok
          /\ script' = Append(script, ev)
          /\ snaps' = snaps
          /\ IF r.ok THEN /\ ctx' = Apply(r.ctx, [op |-> "push", kind |-> "R", pos |-> a]).ctx
                          /\ frames' = frames + 1
             ELSE ctx' = r.ctx /\ frames' = frames
    /\ UNCHANGED envs

\* end of a function body: both contexts are popped; the probe after the call
Ret ==
  /\ ~dead /\ frames > 0
  /\ LET c2 == Apply(Apply(ctx, PopOp).ctx, PopOp).ctx
     IN /\ ctx' = c2
        /\ script' = script \o <<[c |-> "ret"], [c |-> "snap", tag |-> Tag]>>
        /\ snaps' = Append(snaps, Shot(c2))
  /\ frames' = frames - 1
  /\ UNCHANGED <<envs, ncmd, dead>>

Declare ==
  \E n \in Names, hasv \in BOOLEAN, v \in Vals, k \in {"typeset", "export", "readonly"} :
    /\ Simple(k)
    /\ hasv \/ v = CHOOSE w \in Vals : TRUE
    /\ LET ops == CASE k = "typeset"  -> <<PushV>> \o Decl(n, hasv, v, "Local", "none") \o <<PopOp>>
                    [] k = "export"   -> Decl(n, hasv, v, "Global", "export")
                    [] k = "readonly" -> Decl(n, hasv, v, "Global", "ro")
       IN Finish([c |-> k, n |-> n, hasv |-> hasv, v |-> IF hasv THEN v ELSE ""], RunOps(ctx, ops))
    /\ UNCHANGED <<envs, frames>>

UnsetVar ==
  \E n \in Names :
    /\ Simple("unset")
    /\ Finish([c |-> "unset", n |-> n], RunOps(ctx, <<[op |-> "unset", n |-> n, scope |-> "Global"]>>))
    /\ UNCHANGED <<envs, frames>>

SetParams ==
  \E a \in ArgVals :
    /\ Simple("setpos")
    /\ Finish([c |-> "setpos", args |-> a], RunOps(ctx, <<[op |-> "setpos", pos |-> a]>>))
    /\ UNCHANGED <<envs, frames>>

LInit == /\ ctx = InitCtx /\ script = <<>> /\ snaps = <<>> /\ envs = <<>>
         /\ frames = 0 /\ ncmd = 0 /\ dead = FALSE
LNext == Assign \/ PrefixBuiltin \/ External \/ Call \/ Ret \/ Declare \/ UnsetVar \/ SetParams
LSpec == LInit /\ [][LNext]_lvars

\* a script is complete when it cannot be extended
Complete == dead \/ (frames = 0 /\ ncmd >= MaxLen)

\* generator: one line per complete script with everything predicted
EmitScript ==
  IF Complete
  THEN PrintT(ToJson([script |-> script, snaps |-> snaps, envs |-> envs, dead |-> dead,
                      end |-> Shot(Base(ctx))]))
  ELSE TRUE

\* sanity of the composition (the property, at the level of the language)
\*  - prefix assignments to regular built-ins, functions and externals do not
\*    outlive the command; after the call returns / the utility ends the
\*    context stack is what it was
DepthMatchesFrames == dead \/ Len(ctx) = 1 + 2 * frames
=============================================================================
