---- MODULE Dbg_ArrayVars ----
EXTENDS Gen_ArrayVars
Dsi == 1
Dfi == 4
Dw == <<U[51]>>
Dst == MkState(Dsi, Dfi, FALSE)
DO == Word(Dw, Dst)
ASSUME PrintT(<<"w", Dw>>)
ASSUME PrintT(<<"O", DO>>)
ASSUME PrintT(<<"cons", Conservative(Dw, Dst, DO)>>)
ASSUME PrintT(<<"X", Outcomes(ToX(Dw), XState(Dst))>>)
ASSUME PrintT(<<"ss", ScalarSingleton(Dw, Dst, DO)>>)
ASSUME PrintT(<<"pe", PerElement(Dw, Dst, DO)>>)
ASSUME PrintT(<<"co", Consistent(Dw, Dst, DO)>>)
ASSUME PrintT(<<"ca", ContextsAgree(Dw, Dst, DO)>>)
====
