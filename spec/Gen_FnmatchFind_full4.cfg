INIT Init
NEXT Next
CONSTANTS
  SAlpha <- StrFull
  SLen = 4
  Shards = 16
INVARIANT Emit
