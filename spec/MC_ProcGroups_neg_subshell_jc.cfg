\* negative configuration: the wrong variant "subshell_jc" must be refuted (law ProbesLaw)
SPECIFICATION Spec
CONSTANTS
  Variant = "subshell_jc"
  Fams = {"fg", "async", "stop1", "tty", "nomon"}
  Cfgs = {"m", "mi", "-", "ml", "mib"}
  Enf = {TRUE}
ALIAS Brief
INVARIANT ProbesLaw
