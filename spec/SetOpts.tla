------------------------------ MODULE SetOpts ------------------------------
(***************************************************************************)
(* G06 (specification growth): shell options and positional parameters as  *)
(* state, the commands that change and show them, and the shell's own      *)
(* command line.                                                           *)
(*                                                                         *)
(* Written from POSIX.1-2024 XCU 2.5.1 (positional parameters), 2.5.2      *)
(* (special parameters @ * # - 0), 2.8.1 (consequences of shell errors),   *)
(* 2.9.5 (function call), `set`, `shift`, `sh`, and from the manual        *)
(*   docs/src/environment/options.md   (option list, long / short names,   *)
(*                                      spelling freedom, listings, $-,    *)
(*                                      the portable option)               *)
(*   docs/src/builtins/set.md, shift.md, README.md (argument conventions)  *)
(*   docs/src/language/parameters/positional.md, special.md                *)
(*   docs/src/startup.md, docs/src/termination.md (shell errors)           *)
(* -- not from the code.                                                   *)
(*                                                                         *)
(* State  S = [on, pos, arg0]                                              *)
(*   on    the set of names of the options that are on                     *)
(*   pos   the positional parameters (a sequence of strings)               *)
(*   arg0  special parameter 0                                             *)
(*                                                                         *)
(* Texts are TLA+ strings; TLC supports Len, SubSeq and \o on them.        *)
(*                                                                         *)
(* Operations (records [k, cmd, args, body]):                              *)
(*   k = "set"    set args...         cmd: run through the `command`       *)
(*   k = "shift"  shift args...            built-in (no shell exit on      *)
(*   k = "lo"     set -o  (listing)        error, termination.md)          *)
(*   k = "lp"     set +o  (listing)                                        *)
(*   k = "call"   f args... where the body of f is the operations `body`   *)
(* An argument that starts with a double quote is a shell word written     *)
(* as is: "$@" (all positional parameters) and "$#" (their number); every  *)
(* other argument is literal data.                                         *)
(*                                                                         *)
(* The outcome of running operations is a sequence of EVENTS, the          *)
(* observations the conformance harness makes after every operation:       *)
(*   t = "p"   $- (as a set of letters), $#, $0, "$*", "$@", the options   *)
(*             that are on, $? of the operation                            *)
(*   t = "lo"  the rows <<name, on|off>> printed by `set -o`               *)
(*   t = "lp"  the lines printed by `set +o`                               *)
(*   t = "x"   the shell exits here (may = TRUE: it is allowed to, XCU     *)
(*             shift: "a non-interactive shell may exit") with status st   *)
(*   t = "e"   end of the script: the shell exits with status st           *)
(* Status values: n >= 0 exactly n; -1 any non-zero status.                *)
(***************************************************************************)
EXTENDS Naturals, Integers, Sequences, FiniteSets, TLC

SRange(q) == {q[i] : i \in 1..Len(q)}
Ch(s, i) == SubSeq(s, i, i)
Chars(s) == [i \in 1..Len(s) |-> SubSeq(s, i, i)]
RECURSIVE StrOf(_)
StrOf(q) == IF Len(q) = 0 THEN "" ELSE Head(q) \o StrOf(Tail(q))
StartsWith(s, p) == Len(p) <= Len(s) /\ SubSeq(s, 1, Len(p)) = p
Drop(s, k) == SubSeq(s, k + 1, Len(s))
RECURSIVE JoinWith(_, _)
JoinWith(q, sep) == IF Len(q) = 0 THEN "" ELSE IF Len(q) = 1 THEN q[1] ELSE q[1] \o sep \o JoinWith(Tail(q), sep)

(***************************************************************************)
(* The option list (options.md "Option list"), in the alphabetical order   *)
(* of the listings; defaults; short names with the state the letter        *)
(* renders ("Some short options negate long options").                     *)
(***************************************************************************)
OptSeq == <<"allexport", "clobber", "cmdline", "errexit", "exec", "glob", "hashondefinition", "ignoreeof",
            "interactive", "log", "login", "monitor", "notify", "pipefail", "portable", "posixlycorrect",
            "stdin", "unset", "verbose", "vi", "xtrace">>
OptNames == SRange(OptSeq)
DefaultOn == {"clobber", "exec", "glob", "log", "unset"}
\* set.md: "You cannot modify the following options with the set built-in"
StartupOnly == {"cmdline", "interactive", "stdin"}

Sh(c, o, on) == [c |-> c, o |-> o, on |-> on]
Shorts == <<Sh("a", "allexport", TRUE), Sh("b", "notify", TRUE), Sh("C", "clobber", FALSE), Sh("c", "cmdline", TRUE),
            Sh("e", "errexit", TRUE), Sh("f", "glob", FALSE), Sh("h", "hashondefinition", TRUE),
            Sh("i", "interactive", TRUE), Sh("l", "login", TRUE), Sh("m", "monitor", TRUE), Sh("n", "exec", FALSE),
            Sh("s", "stdin", TRUE), Sh("u", "unset", FALSE), Sh("v", "verbose", TRUE), Sh("x", "xtrace", TRUE)>>
ShortLetters == {Shorts[i].c : i \in 1..Len(Shorts)}
ShortOf(c) == Shorts[CHOOSE i \in 1..Len(Shorts) : Shorts[i].c = c]

\* options.md "Compatibility": what POSIX.1-2024 specifies (the portable option admits nothing else)
PosixLetters == ShortLetters \ {"l"}
PosixLong == {"allexport", "notify", "noclobber", "errexit", "noglob", "ignoreeof", "nolog", "monitor", "noexec",
              "nounset", "pipefail", "verbose", "vi", "xtrace"}

(***************************************************************************)
(* Long names (options.md "Long option names"): only alphanumeric          *)
(* characters matter, case-insensitive; `no` in front negates; a name can  *)
(* be abbreviated if unambiguous.  The names that can be meant are the     *)
(* option names and the option names with `no` in front; a spelling means  *)
(* the name it equals, else the only name it is a prefix of.               *)
(***************************************************************************)
LowerAlpha == "abcdefghijklmnopqrstuvwxyz"
UpperAlpha == "ABCDEFGHIJKLMNOPQRSTUVWXYZ"
DigitStr == "0123456789"
LowerSet == SRange(Chars(LowerAlpha))
UpperSet == SRange(Chars(UpperAlpha))
DigitSet == SRange(Chars(DigitStr))
ToLower(c) == IF c \in UpperSet THEN Ch(LowerAlpha, CHOOSE i \in 1..26 : Ch(UpperAlpha, i) = c) ELSE c
ToUpper(c) == IF c \in LowerSet THEN Ch(UpperAlpha, CHOOSE i \in 1..26 : Ch(LowerAlpha, i) = c) ELSE c
IsAlnum(c) == c \in LowerSet \/ c \in UpperSet \/ c \in DigitSet
\* the printable ASCII characters: anything else is outside the modelled fragment
AsciiPunct == SRange(Chars(" !#$%&()*+,-./:;<=>?@[]^_`{|}~")) \cup {"\"", "'", "\\"}
IsAscii(s) == \A i \in 1..Len(s) : IsAlnum(Ch(s, i)) \/ Ch(s, i) \in AsciiPunct

Canon(s) ==
  LET cs == SelectSeq(Chars(s), IsAlnum) IN StrOf([i \in 1..Len(cs) |-> ToLower(cs[i])])

FullNames == OptNames \cup {"no" \o o : o \in OptNames}
NameMeaning(f) == IF f \in OptNames THEN [o |-> f, on |-> TRUE] ELSE [o |-> Drop(f, 2), on |-> FALSE]
Candidates(c, names) == IF c \in names THEN {c} ELSE {f \in names : StartsWith(f, c)}

\* start-up only long options (startup.md "Options")
StartupLong == {"profile", "noprofile", "rcfile", "norcfile", "help", "version"}
EqPos(s) == IF \E i \in 1..Len(s) : Ch(s, i) = "=" THEN CHOOSE i \in 1..Len(s) : Ch(s, i) = "=" /\ \A j \in 1..(i - 1) : Ch(s, j) # "=" ELSE 0
NamePart(s) == IF EqPos(s) = 0 THEN s ELSE SubSeq(s, 1, EqPos(s) - 1)

(***************************************************************************)
(* Option arguments of `set` (ctx = "set") and of the shell (ctx = "sh").  *)
(* The arguments are examined in order (options.md "Compatibility": "so    *)
(* options written before -o portable are not checked").  Result:          *)
(*   err     "" or the class of the error                                  *)
(*   chg     the changes <<[o, on]>> in order                              *)
(*   i       index of the first argument that is not an option             *)
(*   pt      state of the portable option after the changes                *)
(*   info    --help / --version met (start-up only)                        *)
(*   unspec  outside what the manual settles                               *)
(***************************************************************************)
PRes(err, chg, i, pt, info, unspec) == [err |-> err, chg |-> chg, i |-> i, pt |-> pt, info |-> info, unspec |-> unspec]
Fail(why) == PRes(why, <<>>, 0, FALSE, FALSE, FALSE)
Unspec == PRes("", <<>>, 0, FALSE, FALSE, TRUE)
Info == PRes("", <<>>, 0, FALSE, TRUE, FALSE)
Chg(o, on) == [o |-> o, on |-> on]

RECURSIVE ParseOpts(_, _, _, _, _), Group(_, _, _, _, _, _, _)

\* the argument of -o / +o: `raw` as written, attached to the letter or not; `next` = index to go on with
OArg(args, raw, attached, neg, pt, chg, ctx, next) ==
  LET m == Candidates(Canon(raw), FullNames) IN
  IF ~IsAscii(raw) THEN Unspec
  ELSE IF m = {} THEN Fail("unknown")
  ELSE IF Cardinality(m) > 1 THEN Fail("ambiguous")
  ELSE LET mean == NameMeaning(CHOOSE f \in m : TRUE)
           on == (mean.on # neg)
       IN \* options.md says login is "only settable at startup", set.md does not list it: left open
          IF ctx = "set" /\ mean.o = "login" THEN Unspec
          ELSE IF ctx = "set" /\ mean.o \in StartupOnly THEN Fail("unmodifiable")
          \* portable: exactly a POSIX name, as a separate argument; "portable" itself always accepted
          ELSE IF pt /\ raw \notin (PosixLong \cup {"portable"}) THEN Fail("nonportable")
          ELSE IF pt /\ attached THEN Fail("nonportable")
          \* turning cmdline / stdin off on the command line (+c, +o stdin, -o nostdin): not described
          ELSE IF ctx = "sh" /\ ~on /\ mean.o \in {"cmdline", "stdin"} THEN Unspec
          ELSE ParseOpts(args, next, IF mean.o = "portable" THEN on ELSE pt, Append(chg, Chg(mean.o, on)), ctx)

\* the letters of one argument -abc / +abc from position j on
Group(args, i, j, neg, pt, chg, ctx) ==
  LET a == args[i] IN
  IF j > Len(a) THEN ParseOpts(args, i + 1, pt, chg, ctx)
  ELSE LET c == Ch(a, j) IN
       IF c = "o" THEN
            IF j < Len(a) THEN OArg(args, Drop(a, j), TRUE, neg, pt, chg, ctx, i + 1)
            ELSE IF i = Len(args) THEN Fail("missing")
            ELSE OArg(args, args[i + 1], FALSE, neg, pt, chg, ctx, i + 2)
       ELSE IF ctx = "sh" /\ c = "V" THEN Unspec
       ELSE IF c \notin ShortLetters THEN Fail("unknown")
       ELSE LET s == ShortOf(c) IN
            IF ctx = "set" /\ s.o = "login" THEN Unspec
            ELSE IF ctx = "set" /\ s.o \in StartupOnly THEN Fail("unmodifiable")
            ELSE IF pt /\ c \notin PosixLetters THEN Fail("nonportable")
            \* startup.md: +c and +s are rejected under portable; their meaning otherwise is not described
            ELSE IF ctx = "sh" /\ neg /\ s.o \in {"cmdline", "stdin"} THEN (IF pt THEN Fail("nonportable") ELSE Unspec)
            ELSE Group(args, i, j + 1, neg, pt, Append(chg, Chg(s.o, s.on # neg)), ctx)

\* --name / ++name
LongWord(args, i, neg, pt, chg, ctx) ==
  LET raw == Drop(args[i], 2)
      m == Candidates(Canon(raw), FullNames)
      np == NamePart(raw)
      su == IF ctx = "sh" THEN Candidates(np, StartupLong) ELSE {}
      total == Cardinality(m) + Cardinality(su)
  IN IF ~IsAscii(raw) THEN Unspec
     \* the spelling freedom is described for shell option names; whether it extends to --profile etc. is open
     ELSE IF ctx = "sh" /\ su = {} /\ Canon(np) # np /\ (\E n \in StartupLong : StartsWith(n, Canon(np))) THEN Unspec
     ELSE IF total = 0 THEN Fail("unknown")
     ELSE IF total > 1 THEN Fail("ambiguous")
     ELSE IF su # {} THEN
          LET n == CHOOSE n \in su : TRUE IN
          IF neg THEN Fail("unnegatable")
          ELSE IF pt THEN Fail("nonportable")
          ELSE IF n \in {"help", "version"} THEN (IF EqPos(raw) # 0 THEN Fail("argument") ELSE Info)
          ELSE IF n \in {"noprofile", "norcfile"} THEN
               (IF EqPos(raw) # 0 THEN Fail("argument") ELSE ParseOpts(args, i + 1, pt, chg, ctx))
          ELSE \* profile / rcfile take an argument: =value or the next argument
               IF EqPos(raw) # 0 THEN ParseOpts(args, i + 1, pt, chg, ctx)
               ELSE IF i = Len(args) THEN Fail("missing")
               ELSE ParseOpts(args, i + 2, pt, chg, ctx)
     ELSE LET mean == NameMeaning(CHOOSE f \in m : TRUE)
              on == (mean.on # neg)
          IN IF ctx = "set" /\ mean.o = "login" THEN Unspec
             ELSE IF ctx = "set" /\ mean.o \in StartupOnly THEN Fail("unmodifiable")
             ELSE IF pt THEN Fail("nonportable")      \* POSIX has no --name / ++name
             ELSE IF ctx = "sh" /\ ~on /\ mean.o \in {"cmdline", "stdin"} THEN Unspec
             ELSE ParseOpts(args, i + 1, IF mean.o = "portable" THEN on ELSE pt, Append(chg, Chg(mean.o, on)), ctx)

ParseOpts(args, i, pt, chg, ctx) ==
  IF i > Len(args) THEN PRes("", chg, i, pt, FALSE, FALSE)
  ELSE LET a == args[i] IN
       IF Len(a) >= 2 /\ Ch(a, 1) \in {"-", "+"} THEN
            IF Ch(a, 2) = Ch(a, 1) THEN
                 IF a = "--" THEN PRes("", chg, i, pt, FALSE, FALSE)           \* the separator
                 ELSE LongWord(args, i, Ch(a, 1) = "+", pt, chg, ctx)
            ELSE Group(args, i, 2, Ch(a, 1) = "+", pt, chg, ctx)
       ELSE PRes("", chg, i, pt, FALSE, FALSE)    \* "-", "+", "" and everything else: not an option

RECURSIVE ApplyChg(_, _)
ApplyChg(on, chg) ==
  IF Len(chg) = 0 THEN on
  ELSE ApplyChg(IF chg[1].on THEN on \cup {chg[1].o} ELSE on \ {chg[1].o}, Tail(chg))

(***************************************************************************)
(* `set` with at least one argument that is not the lone -o / +o           *)
(* (set.md): options, then an optional separator -- or -, then operands;   *)
(* "All arguments after the first operand are treated as operands"         *)
(* (README.md, Argument order); a separator or an operand replaces the     *)
(* positional parameters; invalid options: status 2, nothing changes.      *)
(***************************************************************************)
SRes(S, st, fail, unspec) == [S |-> S, st |-> st, fail |-> fail, unspec |-> unspec]

SetCmd(S, args) ==
  LET r == ParseOpts(args, 1, "portable" \in S.on, <<>>, "set") IN
  IF \E i \in 1..Len(args) : ~IsAscii(args[i]) THEN SRes(S, 0, FALSE, TRUE)
  ELSE IF r.unspec THEN SRes(S, 0, FALSE, TRUE)
  ELSE IF r.err # "" THEN SRes(S, 2, TRUE, FALSE)
  ELSE LET sep == r.i <= Len(args) /\ args[r.i] \in {"--", "-"}
           operands == SubSeq(args, IF sep THEN r.i + 1 ELSE r.i, Len(args))
           haspos == sep \/ Len(operands) > 0
       IN SRes([on |-> ApplyChg(S.on, r.chg), pos |-> IF haspos THEN operands ELSE S.pos, arg0 |-> S.arg0],
               0, FALSE, FALSE)

(***************************************************************************)
(* `shift [n]` (shift.md, XCU shift): no options, -- accepted; n a         *)
(* non-negative decimal integer <= $#, default 1; otherwise an error:      *)
(* non-zero status, the parameters stay.                                   *)
(***************************************************************************)
IsDigits(s) == Len(s) > 0 /\ \A i \in 1..Len(s) : Ch(s, i) \in DigitSet
DigitVal(c) == (CHOOSE i \in 1..10 : Ch(DigitStr, i) = c) - 1
RECURSIVE NatOf(_)
NatOf(s) == IF Len(s) = 0 THEN 0 ELSE NatOf(SubSeq(s, 1, Len(s) - 1)) * 10 + DigitVal(Ch(s, Len(s)))

ShiftCmd(S, args0) ==
  LET args == IF Len(args0) > 0 /\ args0[1] = "--" THEN Tail(args0) ELSE args0
      bad == SRes(S, -1, TRUE, FALSE)
  IN IF \E i \in 1..Len(args0) : ~IsAscii(args0[i]) THEN SRes(S, 0, FALSE, TRUE)
     ELSE IF Len(args) = 0 THEN
          (IF Len(S.pos) >= 1 THEN SRes([S EXCEPT !.pos = Tail(S.pos)], 0, FALSE, FALSE) ELSE bad)
     ELSE LET a == args[1] IN
          \* an explicit plus sign: "non-negative decimal integer" does not say; more than 6 digits: not modelled
          IF (Len(a) >= 2 /\ Ch(a, 1) = "+") \/ (IsDigits(a) /\ Len(a) > 6) THEN SRes(S, 0, FALSE, TRUE)
          ELSE IF Len(args) > 1 THEN bad
          ELSE IF ~IsDigits(a) THEN bad
          ELSE IF NatOf(a) > Len(S.pos) THEN bad
          ELSE SRes([S EXCEPT !.pos = SubSeq(S.pos, NatOf(a) + 1, Len(S.pos))], 0, FALSE, FALSE)

(***************************************************************************)
(* Observations.                                                           *)
(***************************************************************************)
\* $- (options.md, special.md): the short names of the options in the state the letter renders
Dash(S) == LET sel == SelectSeq(Shorts, LAMBDA s : (s.o \in S.on) = s.on) IN [i \in 1..Len(sel) |-> sel[i].c]
OnSeq(S) == SelectSeq(OptSeq, LAMBDA o : o \in S.on)

\* `set -o`: every option with its state, alphabetically (options.md "Viewing current options")
ListO(S) == [i \in 1..Len(OptSeq) |-> <<OptSeq[i], IF OptSeq[i] \in S.on THEN "on" ELSE "off">>]
\* `set +o` (set.md, since 3.3.5): starts by disabling portable, then every other option alphabetically as a
\* command, commented out for the options set cannot modify; a final `set -o portable` if portable is on
ListP(S) ==
  LET rest == SelectSeq(OptSeq, LAMBDA o : o # "portable")
      line(o) == (IF o \in StartupOnly THEN "#" ELSE "") \o "set " \o (IF o \in S.on THEN "-" ELSE "+") \o "o " \o o
  IN <<"set +o portable">> \o [i \in 1..Len(rest) |-> line(rest[i])]
     \o (IF "portable" \in S.on THEN <<"set -o portable">> ELSE <<>>)

Ev(t, dash, a0, pos, on, st, may, rows, lines) ==
  [t |-> t, dash |-> dash, a0 |-> a0, pos |-> pos, on |-> on, st |-> st, may |-> may, rows |-> rows, lines |-> lines]
EvP(S, st) == Ev("p", Dash(S), S.arg0, S.pos, OnSeq(S), st, FALSE, <<>>, <<>>)
EvLO(S) == Ev("lo", <<>>, "", <<>>, <<>>, 0, FALSE, ListO(S), <<>>)
EvLP(S) == Ev("lp", <<>>, "", <<>>, <<>>, 0, FALSE, <<>>, ListP(S))
EvX(st, may) == Ev("x", <<>>, "", <<>>, <<>>, st, may, <<>>, <<>>)
EvE(st) == Ev("e", <<>>, "", <<>>, <<>>, st, FALSE, <<>>, <<>>)

(***************************************************************************)
(* Running operations.  Result [S, st, evs, cut, unspec]: cut = the shell  *)
(* has exited (the last event is an "x" that is not optional).             *)
(*  - an error of a special built-in that is not run through `command`     *)
(*    makes the non-interactive shell exit (XCU 2.8.1, termination.md)     *)
(*    with a non-zero status; for `shift` POSIX says "may exit";           *)
(*  - errexit: a failing command makes the shell exit with that status;    *)
(*  - exec off (-n): nothing further is executed (XCU set -n).             *)
(***************************************************************************)
RRes(S, st, evs, cut, unspec) == [S |-> S, st |-> st, evs |-> evs, cut |-> cut, unspec |-> unspec]

IsWord(a) == Len(a) > 0 /\ Ch(a, 1) = "\""
RECURSIVE ExpandArgs(_, _)
ExpandArgs(S, args) ==
  IF Len(args) = 0 THEN <<>>
  ELSE (IF args[1] = "\"$@\"" THEN S.pos
        ELSE IF args[1] = "\"$#\"" THEN <<ToString(Len(S.pos))>>
        ELSE <<args[1]>>) \o ExpandArgs(S, Tail(args))
WordsOk(args) == \A i \in 1..Len(args) : IsWord(args[i]) => args[i] \in {"\"$@\"", "\"$#\""}

\* what follows a command that returned [S, st, fail] (mayexit: POSIX lets the shell go on after the error)
After(S0, r, cmd, mayexit) ==
  IF r.unspec THEN RRes(S0, 0, <<>>, FALSE, TRUE)
  ELSE IF r.fail /\ ~cmd THEN
       IF mayexit /\ "errexit" \notin r.S.on THEN RRes(r.S, r.st, <<EvX(-1, TRUE), EvP(r.S, r.st)>>, FALSE, FALSE)
       ELSE RRes(r.S, r.st, <<EvX(-1, FALSE)>>, TRUE, FALSE)
  ELSE IF r.st # 0 /\ "errexit" \in r.S.on THEN RRes(r.S, r.st, <<EvX(r.st, FALSE)>>, TRUE, FALSE)
  ELSE IF "exec" \notin r.S.on THEN RRes(r.S, r.st, <<EvX(r.st, FALSE)>>, TRUE, FALSE)
  ELSE RRes(r.S, r.st, <<EvP(r.S, r.st)>>, FALSE, FALSE)

Basic(S, op) ==
  IF ~WordsOk(op.args) THEN RRes(S, 0, <<>>, FALSE, TRUE)
  ELSE LET args == ExpandArgs(S, op.args) IN
  CASE op.k = "set" ->
         IF Len(args) = 0 THEN RRes(S, 0, <<EvP(S, 0)>>, FALSE, FALSE)      \* prints the variables (C07)
         ELSE IF args = <<"-o">> THEN RRes(S, 0, <<EvP(S, 0)>>, FALSE, FALSE)   \* the listings: see "lo" / "lp"
         ELSE IF args = <<"+o">> THEN RRes(S, 0, <<EvP(S, 0)>>, FALSE, FALSE)
         ELSE After(S, SetCmd(S, args), op.cmd, FALSE)
    [] op.k = "shift" -> After(S, ShiftCmd(S, args), op.cmd, TRUE)
    [] op.k = "lo" -> RRes(S, 0, <<EvLO(S), EvP(S, 0)>>, FALSE, FALSE)
    [] op.k = "lp" -> RRes(S, 0, <<EvLP(S), EvP(S, 0)>>, FALSE, FALSE)
    [] OTHER -> RRes(S, 0, <<>>, FALSE, TRUE)

RECURSIVE RunBody(_, _, _)
RunBody(S, st, ops) ==
  IF Len(ops) = 0 THEN RRes(S, st, <<>>, FALSE, FALSE)
  ELSE LET r == Basic(S, ops[1]) IN
       IF r.unspec \/ r.cut THEN r
       ELSE LET q == RunBody(r.S, r.st, Tail(ops)) IN RRes(q.S, q.st, r.evs \o q.evs, q.cut, q.unspec)

(* A function call (XCU 2.9.5, positional.md): the operands become the     *)
(* positional parameters for the duration of the call and the previous     *)
(* ones are restored when it completes; special parameter 0 is unchanged;  *)
(* options are not part of the call and stay as the body left them; the    *)
(* status is that of the last command of the body.  The script defines f   *)
(* right before calling it, and a function definition command has status   *)
(* 0 (XCU 2.9.5), so $? is 0 when the body starts.                         *)
Call(S, prev0, op) ==
  IF ~WordsOk(op.args) THEN RRes(S, 0, <<>>, FALSE, TRUE)
  ELSE LET S1 == [S EXCEPT !.pos = ExpandArgs(S, op.args)]
           prev == 0
           b == RunBody(S1, prev, op.body)
       IN IF b.unspec THEN RRes(b.S, 0, <<EvP(S1, prev)>> \o b.evs, FALSE, TRUE)
          ELSE IF b.cut THEN RRes(b.S, b.st, <<EvP(S1, prev)>> \o b.evs, TRUE, FALSE)
          ELSE LET S2 == [b.S EXCEPT !.pos = S.pos] IN
               IF b.st # 0 /\ "errexit" \in S2.on
               THEN RRes(S2, b.st, <<EvP(S1, prev)>> \o b.evs \o <<EvX(b.st, FALSE)>>, TRUE, FALSE)
               ELSE RRes(S2, b.st, <<EvP(S1, prev)>> \o b.evs \o <<EvP(S2, b.st)>>, FALSE, FALSE)

Exec(S, prev, op) == IF op.k = "call" THEN Call(S, prev, op) ELSE Basic(S, op)

RECURSIVE RunOps(_, _, _)
RunOps(S, prev, ops) ==
  IF Len(ops) = 0 THEN RRes(S, prev, <<>>, FALSE, FALSE)
  ELSE LET r == Exec(S, prev, ops[1]) IN
       IF r.unspec \/ r.cut THEN r
       ELSE LET q == RunOps(r.S, r.st, Tail(ops)) IN RRes(q.S, q.st, r.evs \o q.evs, q.cut, q.unspec)

(***************************************************************************)
(* The shell's command line (XCU sh, startup.md, positional.md,            *)
(* special.md "0"): argv[1] is the name the shell was started under.       *)
(* Result [k, S, mode, script]: k = "run" | "error" | "info" | "unspec";   *)
(* mode "c" (command string = operand number `script` of argv), "s"        *)
(* (standard input), "f" (file named by operand number `script`).          *)
(***************************************************************************)
RECURSIVE BaseName(_)
BaseName(s) == IF \E i \in 1..Len(s) : Ch(s, i) = "/"
               THEN BaseName(Drop(s, CHOOSE i \in 1..Len(s) : Ch(s, i) = "/" /\ \A j \in 1..(i - 1) : Ch(s, j) # "/"))
               ELSE s

StRes(k, S, mode, script) == [k |-> k, S |-> S, mode |-> mode, script |-> script]
NoState == [on |-> {}, pos |-> <<>>, arg0 |-> ""]

Start(argv) ==
  LET a0 == argv[1]
      \* startup.md: a leading hyphen in the command name makes a login shell;
      \* options.md posixlycorrect: "Enabled on startup if the shell is started as sh"
      pre == (IF StartsWith(a0, "-") THEN <<Chg("login", TRUE)>> ELSE <<>>)
             \o (IF BaseName(a0) = "sh" THEN <<Chg("posixlycorrect", TRUE)>> ELSE <<>>)
      r == ParseOpts(argv, 2, FALSE, pre, "sh")
  IN IF \E i \in 1..Len(argv) : ~IsAscii(argv[i]) THEN StRes("unspec", NoState, "", 0)
     ELSE IF a0 = "-sh" THEN StRes("unspec", NoState, "", 0)        \* is `-sh` "started as sh"?  not said
     ELSE IF r.unspec THEN StRes("unspec", NoState, "", 0)
     ELSE IF r.info THEN StRes("info", NoState, "", 0)
     ELSE IF r.err # "" THEN StRes("error", NoState, "", 0)
     ELSE LET first == IF r.i <= Len(argv) /\ argv[r.i] \in {"-", "--"} THEN r.i + 1 ELSE r.i
              nop == Len(argv) - first + 1                          \* number of operands
              on0 == ApplyChg(DefaultOn, r.chg)
              wantc == "cmdline" \in on0
              wants == "stdin" \in on0
          IN IF "interactive" \in on0 THEN StRes("unspec", NoState, "", 0)     \* needs a terminal
             ELSE IF wantc /\ wants THEN StRes("error", NoState, "", 0)        \* mutually exclusive
             ELSE IF wantc THEN
                  IF nop = 0 THEN StRes("error", NoState, "", 0)
                  ELSE StRes("run", [on |-> on0, pos |-> SubSeq(argv, first + 2, Len(argv)),
                                     arg0 |-> IF nop >= 2 THEN argv[first + 1] ELSE a0], "c", first)
             ELSE IF wants THEN
                  StRes("run", [on |-> on0, pos |-> SubSeq(argv, first, Len(argv)), arg0 |-> a0], "s", 0)
             ELSE IF nop >= 1 THEN
                  StRes("run", [on |-> on0, pos |-> SubSeq(argv, first + 1, Len(argv)), arg0 |-> argv[first]], "f", first)
             ELSE \* "If no operands are given and -c is not specified, the shell assumes -s"
                  StRes("run", [on |-> on0 \cup {"stdin"}, pos |-> <<>>, arg0 |-> a0], "s", 0)

\* the events of a whole run: the first observation, the operations, the end of the script
Prog(argv, ops) ==
  LET st == Start(argv) IN
  IF st.k # "run" THEN [k |-> st.k, evs |-> <<>>, mode |-> "", script |-> 0, partial |-> FALSE]
  ELSE IF "exec" \notin st.S.on THEN [k |-> "run", evs |-> <<EvE(0)>>, mode |-> st.mode, script |-> st.script, partial |-> FALSE]
  ELSE LET r == RunOps(st.S, 0, ops) IN
       \* partial: an operation the specification leaves open was met; evs = the events up to it
       [k |-> "run", evs |-> <<EvP(st.S, 0)>> \o r.evs \o (IF r.cut \/ r.unspec THEN <<>> ELSE <<EvE(r.st)>>),
        mode |-> st.mode, script |-> st.script, partial |-> r.unspec]

(***************************************************************************)
(* The script text of operations (so that what is run is what the          *)
(* specification talks about): one command per line, every data argument   *)
(* in single quotes; `obs` is the harness's observation built-in (it       *)
(* leaves $? unchanged), `lst` records a listing.                          *)
(***************************************************************************)
ObsLine == "obs \"$-\" \"$#\" \"$0\" \"$*\" \"$@\""
QArg(a) == IF IsWord(a) THEN a ELSE "'" \o a \o "'"
CmdText(name, cmd, args) ==
  (IF cmd THEN "command " ELSE "") \o name \o (IF Len(args) = 0 THEN "" ELSE " " \o JoinWith([i \in 1..Len(args) |-> QArg(args[i])], " "))
BasicLines(op) ==
  CASE op.k = "set" -> <<CmdText("set", op.cmd, op.args), ObsLine>>
    [] op.k = "shift" -> <<CmdText("shift", op.cmd, op.args), ObsLine>>
    [] op.k = "lo" -> <<"x=$(" \o CmdText("set", op.cmd, <<>>) \o " -o)", "lst lo \"$x\"", ObsLine>>
    [] op.k = "lp" -> <<"x=$(" \o CmdText("set", op.cmd, <<>>) \o " +o)", "lst lp \"$x\"", ObsLine>>
    [] OTHER -> <<>>
RECURSIVE BodyLines(_)
BodyLines(ops) == IF Len(ops) = 0 THEN <<>> ELSE BasicLines(ops[1]) \o BodyLines(Tail(ops))
OpLines(op) ==
  IF op.k = "call" THEN <<"f() {", ObsLine>> \o BodyLines(op.body) \o <<"}", CmdText("f", FALSE, op.args), ObsLine>>
  ELSE BasicLines(op)
RECURSIVE OpsLines(_)
OpsLines(ops) == IF Len(ops) = 0 THEN <<>> ELSE OpLines(ops[1]) \o OpsLines(Tail(ops))
Script(ops) == JoinWith(<<ObsLine>> \o OpsLines(ops), "\n") \o "\n"

\* constructors
Op(k, cmd, args, body) == [k |-> k, cmd |-> cmd, args |-> args, body |-> body]
SetOp(args) == Op("set", FALSE, args, <<>>)
CSetOp(args) == Op("set", TRUE, args, <<>>)
ShiftOp(args) == Op("shift", FALSE, args, <<>>)
CShiftOp(args) == Op("shift", TRUE, args, <<>>)
CallOp(args, body) == Op("call", FALSE, args, body)
ListOOp == Op("lo", FALSE, <<>>, <<>>)
ListPOp == Op("lp", FALSE, <<>>, <<>>)

(***************************************************************************)
(* Theorems about the specification itself (checked by TLC on every        *)
(* explored state and operation, Gen_SetOpts.tla).                         *)
(***************************************************************************)
IsOperandsOnly(args) ==     \* a separator first, or no argument that looks like an option
  Len(args) > 0 /\ (args[1] \in {"--", "-"} \/ ~(Len(args[1]) >= 2 /\ Ch(args[1], 1) \in {"-", "+"}))

ThmBasic(S, op) ==
  LET r == Basic(S, op)
      args == ExpandArgs(S, op.args)
  IN r.unspec \/
     /\ r.S.arg0 = S.arg0                                                    \* nothing changes $0
     /\ (r.st # 0 => r.S = S)                                                \* an error changes nothing
     /\ (op.k = "shift" /\ r.st = 0 =>
           /\ r.S.on = S.on
           /\ \E n \in 0..Len(S.pos) : /\ Len(r.S.pos) = Len(S.pos) - n
                                        /\ r.S.pos = SubSeq(S.pos, n + 1, Len(S.pos))
                                        /\ (Len(args) = 0 => n = 1))
     /\ (op.k = "shift" /\ Len(args) = 0 /\ Len(S.pos) = 0 => r.st # 0)
     /\ (op.k = "set" /\ IsOperandsOnly(args) => r.st = 0 /\ r.S.on = S.on)   \* set -- never changes options
     /\ (op.k = "set" /\ Len(args) > 0 /\ args[1] \in {"--", "-"} => r.S.pos = Tail(args))
     /\ (op.k = "set" /\ r.st = 0 => \A o \in StartupOnly : (o \in r.S.on) = (o \in S.on))
     /\ (op.k \in {"lo", "lp"} => r.S = S)

ThmCall(S, op) ==
  LET r == Call(S, 0, op) IN
  r.unspec \/ r.cut \/ (r.S.pos = S.pos /\ r.S.arg0 = S.arg0)

\* the listings mention every option exactly once (set +o: portable first, and last again if it is on)
RECURSIVE RunLines(_, _)
RunLines(S, lines) ==     \* evaluate the lines of a `set +o` listing as commands
  IF Len(lines) = 0 THEN S
  ELSE IF Ch(lines[1], 1) = "#" THEN RunLines(S, Tail(lines))
  ELSE IF Drop(lines[1], 7) = "login" THEN RunLines(S, Tail(lines))    \* (login through set: left open above)
  ELSE LET l == lines[1]
           r == SetCmd(S, <<SubSeq(l, 5, 6), Drop(l, 7)>>)
       IN IF SubSeq(l, 1, 4) = "set " /\ r.st = 0 /\ ~r.unspec THEN RunLines(r.S, Tail(lines)) ELSE [on |-> {}, pos |-> <<>>, arg0 |-> "?"]

ThmListings(S, T) ==
  /\ \A o \in OptNames : Cardinality({i \in 1..Len(ListO(S)) : ListO(S)[i][1] = o}) = 1
  /\ Len(ListO(S)) = Cardinality(OptNames)
  /\ \A o \in OptNames \ {"portable"} :
        Cardinality({i \in 1..Len(ListP(S)) : \E sg \in {"-", "+"}, h \in {"", "#"} : ListP(S)[i] = h \o "set " \o sg \o "o " \o o}) = 1
  \* evaluated in any other state T (whatever its portable option), the listing restores the modifiable options
  /\ LET R == RunLines(T, ListP(S))
         skip == StartupOnly \cup {"login"}
     IN R.on \ skip = S.on \ skip /\ R.pos = T.pos

\* $- and the options determine each other for the options that have a letter
ThmDash(S) ==
  /\ \A i \in 1..Len(Shorts) : (Shorts[i].c \in SRange(Dash(S))) = ((Shorts[i].o \in S.on) = Shorts[i].on)
  /\ Len(Dash(S)) = Cardinality(SRange(Dash(S)))
=============================================================================
