---------------------------- MODULE Calib_Expand ----------------------------
(***************************************************************************)
(* Calibration of the C01 oracle (DESIGN.md 4.4): worked examples from the *)
(* manual (docs/src/language/words/*.md, docs/src/language/parameters/     *)
(* special.md, docs/src/builtins/read.md) and from the POSIX conformance   *)
(* scripts yash-cli/tests/scripted_test/{fsplit,param,quote,read}-p.sh,    *)
(* transcribed by hand with variables renamed to x / y.  A failing ASSUME  *)
(* is a tool error (the oracle is wrong), never a violation.               *)
(***************************************************************************)
EXTENDS Expand

\* --- notation -----------------------------------------------------------
L(s) == WLit(s)
B(c) == WBs(c)
SQ(s) == WSq(s)
DQ(us) == WDq(us)
P(p) == WPar(p)
PL(p) == WLen(p)
SW(p, colon, act, w) == WSw(p, colon, act, w)
TR(p, side, long, w) == WTrim(p, side, long, w)

DefaultIfs == [set |-> TRUE, v |-> " \t\n"]
NoIfs == [set |-> FALSE, v |-> ""]
S(x, y, pos, ifs) == [x |-> x, y |-> y, pos |-> pos, ifs |-> ifs, nounset |-> FALSE, st |-> "0"]
SU(x, y, pos, ifs) == [S(x, y, pos, ifs) EXCEPT !.nounset = TRUE]
Ifs(s) == [set |-> TRUE, v |-> s]

One(w, st) == Outcomes(w, st)[1]
F(w, st) == IF Len(Outcomes(w, st)) = 1 /\ One(w, st).k = "ok" THEN One(w, st).f ELSE <<"?not-ok-or-ambiguous?">>
K(w, st) == One(w, st).k

\* --- field_splitting.md ---------------------------------------------------
ASSUME F(P("x"), S(Val("a:b::c:d"), Unset, <<>>, Ifs(":"))) = <<"a", "b", "", "c", "d">>
ASSUME F(P("x"), S(Val("a:b:"), Unset, <<>>, Ifs(":"))) = <<"a", "b">>
ASSUME F(P("x"), S(Val(" a  b   c"), Unset, <<>>, Ifs(" "))) = <<"a", "b", "c">>
ASSUME F(P("x"), S(Val("a:b  c : d:  :e  f "), Unset, <<>>, Ifs(" :"))) = <<"a", "b", "c", "d", "", "e", "f">>
ASSUME F(P("x"), S(Val("-a -l"), Unset, <<>>, DefaultIfs)) = <<"-a", "-l">>
ASSUME F(P("x"), S(Val("-a -l"), Unset, <<>>, NoIfs)) = <<"-a", "-l">>
ASSUME F(DQ(P("x")), S(Val("-a -l"), Unset, <<>>, DefaultIfs)) = <<"-a -l">>
ASSUME F(P("x"), S(Val("-a -l"), Unset, <<>>, Ifs(""))) = <<"-a -l">>
\* empty field removal
ASSUME F(P("x"), S(Val(""), Unset, <<>>, DefaultIfs)) = <<>>
ASSUME F(P("x"), S(Val(" "), Unset, <<>>, DefaultIfs)) = <<>>
ASSUME F(P("x"), S(Val(""), Unset, <<>>, Ifs(""))) = <<>>
ASSUME F(P("x"), S(Val(" "), Unset, <<>>, Ifs(""))) = <<" ">>
ASSUME F(DQ(P("x")), S(Val(""), Unset, <<>>, DefaultIfs)) = <<"">>
ASSUME F(DQ(P("x")), S(Val(" "), Unset, <<>>, DefaultIfs)) = <<" ">>

\* --- special.md -----------------------------------------------------------
Foo == <<"foo", "bar bar", "baz">>
ASSUME F(DQ(P("@")), S(Unset, Unset, Foo, DefaultIfs)) = <<"foo", "bar bar", "baz">>
ASSUME F(P("@"), S(Unset, Unset, Foo, DefaultIfs)) = <<"foo", "bar", "bar", "baz">>
ASSUME F(DQ(P("*")), S(Unset, Unset, Foo, DefaultIfs)) = <<"foo bar bar baz">>
ASSUME F(P("*"), S(Unset, Unset, Foo, DefaultIfs)) = <<"foo", "bar", "bar", "baz">>
ASSUME F(DQ(P("#")), S(Unset, Unset, Foo, DefaultIfs)) = <<"3">>
ASSUME F(DQ(P("@")), S(Unset, Unset, <<>>, DefaultIfs)) = <<>>

\* --- parameters.md --------------------------------------------------------
ASSUME F(DQ(L("Hello, ") \o P("x") \o L("!")), S(Val("Alice"), Unset, <<>>, DefaultIfs)) = <<"Hello, Alice!">>
ASSUME F(DQ(L("Hello, ") \o P("x") \o L("!")), S(Unset, Unset, <<>>, DefaultIfs)) = <<"Hello, !">>
ASSUME K(DQ(L("Hello, ") \o P("x") \o L("!")), SU(Unset, Unset, <<>>, DefaultIfs)) = "unset"
ASSUME F(DQ(P("1") \o L("2")), S(Unset, Unset, <<"foo", "bar", "baz">>, DefaultIfs)) = <<"foo2">>
ASSUME F(DQ(L("Length of user: ") \o PL("x")), S(Val("Alice"), Unset, <<>>, DefaultIfs)) = <<"Length of user: 5">>
ASSUME F(DQ(L("Hello, ") \o SW("x", FALSE, "-", L("World")) \o L("!")), S(Val("Alice"), Unset, <<>>, DefaultIfs)) = <<"Hello, Alice!">>
ASSUME F(DQ(L("Hello, ") \o SW("x", FALSE, "-", L("World")) \o L("!")), S(Unset, Unset, <<>>, DefaultIfs)) = <<"Hello, World!">>
\* PATH="/bin${PATH:+:$PATH}" (the double-quoted text, expanded as an argument)
ASSUME F(DQ(L("/bin") \o SW("x", TRUE, "+", L(":") \o P("x"))), S(Unset, Unset, <<>>, DefaultIfs)) = <<"/bin">>
ASSUME F(DQ(L("/usr/bin") \o SW("x", TRUE, "+", L(":") \o P("x"))), S(Val("/bin"), Unset, <<>>, DefaultIfs)) = <<"/usr/bin:/bin">>
ASSUME LET o == One(DQ(L("Hello, ") \o SW("x", FALSE, "=", L("Alice")) \o L("!")), S(Unset, Unset, <<>>, DefaultIfs))
       IN o.f = <<"Hello, Alice!">> /\ o.x = Val("Alice")
ASSUME LET o == One(DQ(L("Hello, ") \o SW("x", FALSE, "=", L("Bob")) \o L("!")), S(Val("Alice"), Unset, <<>>, DefaultIfs))
       IN o.f = <<"Hello, Alice!">> /\ o.x = Val("Alice")
ASSUME F(DQ(L("Hello, ") \o SW("x", FALSE, "?", L("tell me your name")) \o L("!")), S(Val("Alice"), Unset, <<>>, DefaultIfs)) = <<"Hello, Alice!">>
ASSUME LET o == One(DQ(L("Hello, ") \o SW("x", FALSE, "?", L("tell me your name")) \o L("!")), S(Unset, Unset, <<>>, DefaultIfs))
       IN o.k = "vacant" /\ o.msg = "tell me your name"
\* "The nounset option does not apply to expansions with a switch modifier."
ASSUME F(DQ(SW("x", FALSE, "-", <<>>)), SU(Unset, Unset, <<>>, DefaultIfs)) = <<"">>
ASSUME F(DQ(SW("x", FALSE, "+", L("a"))), SU(Unset, Unset, <<>>, DefaultIfs)) = <<"">>
\* trim: var="banana"
Banana == S(Val("banana"), Unset, <<>>, DefaultIfs)
ASSUME F(DQ(TR("x", "#", FALSE, L("*a"))), Banana) = <<"nana">>
ASSUME F(DQ(TR("x", "#", TRUE, L("*a"))), Banana) = <<"">>
ASSUME F(DQ(TR("x", "%", FALSE, L("a*"))), Banana) = <<"banan">>
ASSUME F(DQ(TR("x", "%", TRUE, L("a*"))), Banana) = <<"b">>
Stars == S(Val("***"), Unset, <<>>, DefaultIfs)
ASSUME F(DQ(TR("x", "#", TRUE, L("*"))), Stars) = <<"">>
ASSUME F(DQ(TR("x", "#", TRUE, B("*"))), Stars) = <<"**">>
ASSUME F(DQ(TR("x", "#", TRUE, SQ("**"))), Stars) = <<"*">>

\* --- quoting.md -------------------------------------------------------------
ASSUME F(SQ("\"$foo\""), S(Unset, Unset, <<>>, DefaultIfs)) = <<"\"$foo\"">>
ASSUME F(DQ(L("foo='") \o P("x") \o L("'")), S(Val("*  *"), Unset, <<>>, DefaultIfs)) = <<"foo='*  *'">>
ASSUME F(DQ(L("My") \o B(" ") \o L("Diary") \o B("$") \o L(".txt")), S(Unset, Unset, <<>>, DefaultIfs)) = <<"My\\ Diary$.txt">>
ASSUME F(L("My") \o B(" ") \o L("Diary.txt"), S(Unset, Unset, <<>>, DefaultIfs)) = <<"My Diary.txt">>
\* x='\*'; echo $x  -- "the backslash is not removed because it was introduced by expansion"
ASSUME F(P("x"), S(Val("\\*"), Unset, <<>>, DefaultIfs)) = <<"\\*">>

\* --- fsplit-p.sh ------------------------------------------------------------
\* 'field splitting applies to results of expansions'  IFS=' 0' a='1 2'
Fs1 == S(Val("1 2"), Unset, <<>>, Ifs(" 0"))
ASSUME F(L("-") \o P("x") \o L("-"), Fs1) = <<"-1", "2-">>
ASSUME F(SW("x", FALSE, "+", L("-") \o P("x") \o L("- -708-")), Fs1) = <<"-1", "2-", "-7", "8-">>
ASSUME F(SW("y", FALSE, "-", L("-") \o P("x") \o L("- -708-")), Fs1) = <<"-1", "2-", "-7", "8-">>
\* 'field splitting does not apply to quoted expansions'
ASSUME F(DQ(L("-") \o P("x") \o L("-")), Fs1) = <<"-1 2-">>
ASSUME F(SW("x", FALSE, "+", DQ(L("-") \o P("x") \o L("-")) \o L(" ") \o DQ(L("-708-"))), Fs1) = <<"-1 2-", "-708-">>
ASSUME F(DQ(SW("y", FALSE, "-", L("-") \o P("x") \o L("-   -708-"))), Fs1) = <<"-1 2-   -708-">>
ASSUME F(L("-") \o P("x") \o L("-") \o DQ(L("-") \o P("x") \o L("-")) \o L("-") \o P("x") \o L("-"), Fs1) = <<"-1", "2--1 2--1", "2-">>
\* 'field splitting does not apply to non-expansions'  IFS=' 0'
ASSUME F(L("-102-"), Fs1) = <<"-102-">>
ASSUME F(L("-9") \o B("0") \o L("1") \o B(" ") \o L("2-"), Fs1) = <<"-901 2-">>
\* 'field splitting with non-whitespace IFS'  IFS='-"'
ASSUME F(P("x"), S(Val("1-2\"3"), Unset, <<>>, Ifs("-\""))) = <<"1", "2", "3">>
ASSUME F(P("x"), S(Val("--4-\"5\"-6-7"), Unset, <<>>, Ifs("-\""))) = <<"", "", "4", "", "5", "", "6", "7">>
\* 'complex field splitting with nonsuccessive non-whitespace IFS'  IFS=' -"'
ASSUME F(P("x"), S(Val("1%2-3\"4&5"), Unset, <<>>, Ifs(" -\""))) = <<"1%2", "3", "4&5">>
ASSUME F(P("x"), S(Val("- 22- 3- 44 "), Unset, <<>>, Ifs(" -\""))) = <<"", "22", "3", "44">>
ASSUME F(P("x"), S(Val(" -22 -3 -44 "), Unset, <<>>, Ifs(" -\""))) = <<"", "22", "3", "44">>
ASSUME F(P("x"), S(Val(" - 22 - 3 - 44"), Unset, <<>>, Ifs(" -\""))) = <<"", "22", "3", "44">>
\* 'complex field splitting with successive non-whitespace IFS'  IFS=' -'
ASSUME F(P("x"), S(Val("--3\"\"3"), Unset, <<>>, Ifs(" -"))) = <<"", "", "3\"\"3">>
ASSUME F(P("x"), S(Val("  --33"), Unset, <<>>, Ifs(" -"))) = <<"", "", "33">>
ASSUME F(P("x"), S(Val("-  -33"), Unset, <<>>, Ifs(" -"))) = <<"", "", "33">>
ASSUME F(P("x"), S(Val("--  33"), Unset, <<>>, Ifs(" -"))) = <<"", "", "33">>
\* 'backslash in IFS'  IFS=' \-'
ASSUME F(P("x"), S(Val("1\\2\\\\ 4-5\\- 7\\x"), Unset, <<>>, Ifs(" \\-"))) = <<"1", "2", "", "4", "5", "", "7", "x">>
\* 'backslash not in IFS'  IFS=' -'  f='-\\ -\-\x'
ASSUME F(P("x"), S(Val("-\\\\ -\\-\\x"), Unset, <<>>, Ifs(" -"))) = <<"", "\\\\", "\\", "\\x">>
\* 'empty field removal'  a= b=' ' c=' - ' (default IFS)
Ea == S(Val(""), Val(" "), <<>>, DefaultIfs)
ASSUME F(SQ("") \o P("x"), Ea) = <<"">>
ASSUME F(DQ(<<>>) \o P("x"), Ea) = <<"">>
ASSUME F(P("y") \o SQ(""), Ea) = <<"">>
ASSUME F(SQ("") \o P("y") \o SQ(""), Ea) = <<"", "">>
ASSUME F(DQ(<<>>) \o P("y") \o DQ(<<>>), Ea) = <<"", "">>
ASSUME F(SQ("") \o P("x") \o SQ(""), S(Val(" - "), Unset, <<>>, DefaultIfs)) = <<"", "-", "">>
ASSUME F(SW("x", TRUE, "-", SQ("")), Ea) = <<"">>
ASSUME F(SW("x", TRUE, "-", DQ(<<>>)), Ea) = <<"">>
ASSUME F(DQ(P("y")), Ea) = <<" ">>
ASSUME F(DQ(<<>>) \o DQ(<<>>) \o DQ(<<>>), Ea) = <<"">>
\* 'empty last field is ignored'  IFS=' ='
Eq(v) == S(Val(v), Unset, <<>>, Ifs(" ="))
ASSUME F(P("x"), Eq("=")) = <<"">>
ASSUME F(P("x"), Eq("==")) = <<"", "">>
ASSUME F(P("x"), Eq("1=")) = <<"1">>
ASSUME F(P("x"), Eq("1==")) = <<"1", "">>
ASSUME F(P("x"), Eq("1==  ")) = <<"1", "">>
ASSUME F(P("x"), Eq("1= =")) = <<"1", "">>
ASSUME F(P("x"), Eq("1===   =")) = <<"1", "", "", "">>

\* --- param-p.sh -------------------------------------------------------------
\* 'format for parameter expansion'  a=a
Pa == S(Val("a"), Unset, <<>>, DefaultIfs)
ASSUME F(L("-") \o SW("x", FALSE, "-", B("}")) \o L("-"), Pa) = <<"-a-">>
ASSUME F(L("-") \o P("x") \o L("}-"), Pa) = <<"-a}-">>
ASSUME F(L("-") \o P("1") \o L("-"), S(Unset, Unset, <<"a", "b">>, DefaultIfs)) = <<"-a-">>
ASSUME F(P("2") \o L("2"), S(Unset, Unset, <<"a", "b">>, DefaultIfs)) = <<"b2">>
\* 'double-quoted expansion is not subject to field splitting'  a='a b  c'
ASSUME F(SW("x", FALSE, "+", DQ(P("x"))), S(Val("a b  c"), Unset, <<>>, DefaultIfs)) = <<"a b  c">>
\* 'parameter expansion in embedded word'  b=b
ASSUME F(SW("x", FALSE, "-", L("x") \o P("y") \o L("x")), S(Unset, Val("b"), <<>>, DefaultIfs)) = <<"xbx">>
ASSUME F(SW("x", FALSE, "-", B("$") \o L("b")), S(Unset, Val("b"), <<>>, DefaultIfs)) = <<"$b">>
ASSUME LET o == One(SW("x", FALSE, "=", L("x") \o P("y") \o L("x")), S(Unset, Val("b"), <<>>, DefaultIfs))
       IN o.f = <<"xbx">> /\ o.x = Val("xbx")
\* 'embedded word is expanded only if needed'  a= ; unset b
ASSUME F(L("-") \o SW("x", FALSE, "-", SW("y", FALSE, "?", <<>>)) \o L("-"), S(Val(""), Unset, <<>>, DefaultIfs)) = <<"--">>
ASSUME F(L("-") \o SW("y", FALSE, "+", SW("y", FALSE, "?", <<>>)) \o L("-"), S(Val(""), Unset, <<>>, DefaultIfs)) = <<"--">>
ASSUME F(L("-") \o SW("x", FALSE, "=", SW("y", FALSE, "?", <<>>)) \o L("-"), S(Val(""), Unset, <<>>, DefaultIfs)) = <<"--">>
ASSUME F(L("-") \o SW("x", TRUE, "?", SW("y", FALSE, "?", <<>>)) \o L("-"), S(Val("a"), Val(""), <<>>, DefaultIfs)) = <<"-a-">>
ASSUME F(L("-") \o SW("y", TRUE, "+", SW("y", FALSE, "?", <<>>)) \o L("-"), S(Val("a"), Val(""), <<>>, DefaultIfs)) = <<"--">>
\* '${a-b}' '${a+b}' '${a=b}' '${a:=b}' with a=a n= ; unset u
Sw(v, colon, act) == F(DQ(SW("x", colon, act, L("x"))), S(v, Unset, <<>>, DefaultIfs))
ASSUME <<Sw(Val("a"), FALSE, "-"), Sw(Val(""), FALSE, "-"), Sw(Unset, FALSE, "-")>> = <<<<"a">>, <<"">>, <<"x">>>>
ASSUME <<Sw(Val("a"), TRUE, "-"), Sw(Val(""), TRUE, "-"), Sw(Unset, TRUE, "-")>> = <<<<"a">>, <<"x">>, <<"x">>>>
ASSUME <<Sw(Val("a"), FALSE, "+"), Sw(Val(""), FALSE, "+"), Sw(Unset, FALSE, "+")>> = <<<<"x">>, <<"x">>, <<"">>>>
ASSUME <<Sw(Val("a"), TRUE, "+"), Sw(Val(""), TRUE, "+"), Sw(Unset, TRUE, "+")>> = <<<<"x">>, <<"">>, <<"">>>>
ASSUME <<Sw(Val("a"), FALSE, "="), Sw(Val(""), FALSE, "="), Sw(Unset, FALSE, "=")>> = <<<<"a">>, <<"">>, <<"x">>>>
ASSUME <<Sw(Val("a"), TRUE, "="), Sw(Val(""), TRUE, "="), Sw(Unset, TRUE, "=")>> = <<<<"a">>, <<"x">>, <<"x">>>>
ASSUME One(DQ(SW("x", TRUE, "=", L("x"))), S(Val(""), Unset, <<>>, DefaultIfs)).x = Val("x")
ASSUME One(DQ(SW("x", FALSE, "=", L("x"))), S(Val(""), Unset, <<>>, DefaultIfs)).x = Val("")
ASSUME <<Sw(Val("a"), FALSE, "?"), Sw(Val(""), FALSE, "?"), Sw(Val("a"), TRUE, "?")>> = <<<<"a">>, <<"">>, <<"a">>>>
ASSUME K(DQ(SW("x", FALSE, "?", <<>>)), S(Unset, Unset, <<>>, DefaultIfs)) = "vacant"
ASSUME K(DQ(SW("x", TRUE, "?", <<>>)), S(Val(""), Unset, <<>>, DefaultIfs)) = "vacant"
ASSUME One(DQ(SW("x", FALSE, "?", L("foo bar  baz"))), S(Unset, Unset, <<>>, DefaultIfs)).msg = "foo bar  baz"
\* 'assigning to positional parameter' is an error
ASSUME K(SW("1", TRUE, "=", <<>>), S(Unset, Unset, <<>>, DefaultIfs)) = "nonassignable"
\* 'length of valid variables' / 'length of unset variables'
ASSUME F(PL("x") \o L(":") \o PL("y"), S(Val(""), Val("ccccc"), <<>>, DefaultIfs)) = <<"0:5">>
ASSUME F(PL("x"), S(Val("dddddddddddddddddddd"), Unset, <<>>, DefaultIfs)) = <<"20">>
ASSUME F(PL("1") \o PL("2"), S(Unset, Unset, <<"", "a">>, DefaultIfs)) = <<"01">>
ASSUME F(PL("?"), S(Unset, Unset, <<>>, DefaultIfs)) = <<"1">>
ASSUME F(PL("x"), S(Unset, Unset, <<>>, DefaultIfs)) = <<"0">>
ASSUME K(PL("x"), SU(Unset, Unset, <<>>, DefaultIfs)) = "unset"
\* 'removing shortest/longest matching prefix/suffix'  a=1-2-3-4 s='***'
Tr(side, long, w) == F(DQ(TR("x", side, long, w)), S(Val("1-2-3-4"), Unset, <<>>, DefaultIfs))
ASSUME <<Tr("#", FALSE, L("1")), Tr("#", FALSE, L("*1")), Tr("#", FALSE, L("1*")), Tr("#", FALSE, L("1*-"))>>
       = <<<<"-2-3-4">>, <<"-2-3-4">>, <<"-2-3-4">>, <<"2-3-4">>>>
ASSUME <<Tr("#", FALSE, L("*-")), Tr("#", FALSE, L("*")), Tr("#", FALSE, L("-*")), Tr("#", FALSE, L("*-*")), Tr("#", FALSE, L("2"))>>
       = <<<<"2-3-4">>, <<"1-2-3-4">>, <<"1-2-3-4">>, <<"2-3-4">>, <<"1-2-3-4">>>>
ASSUME <<Tr("#", TRUE, L("1")), Tr("#", TRUE, L("*1")), Tr("#", TRUE, L("1*")), Tr("#", TRUE, L("1*-"))>>
       = <<<<"-2-3-4">>, <<"-2-3-4">>, <<"">>, <<"4">>>>
ASSUME <<Tr("#", TRUE, L("*-")), Tr("#", TRUE, L("*")), Tr("#", TRUE, L("-*")), Tr("#", TRUE, L("*-*"))>>
       = <<<<"4">>, <<"">>, <<"1-2-3-4">>, <<"">>>>
ASSUME <<Tr("%", FALSE, L("4")), Tr("%", FALSE, L("*4")), Tr("%", FALSE, L("4*")), Tr("%", FALSE, L("-*4"))>>
       = <<<<"1-2-3-">>, <<"1-2-3-">>, <<"1-2-3-">>, <<"1-2-3">>>>
ASSUME <<Tr("%", FALSE, L("*-")), Tr("%", FALSE, L("*")), Tr("%", FALSE, L("-*")), Tr("%", FALSE, L("*-*")), Tr("%", FALSE, L("3"))>>
       = <<<<"1-2-3-4">>, <<"1-2-3-4">>, <<"1-2-3">>, <<"1-2-3">>, <<"1-2-3-4">>>>
ASSUME <<Tr("%", TRUE, L("4")), Tr("%", TRUE, L("*4")), Tr("%", TRUE, L("4*")), Tr("%", TRUE, L("-*4"))>>
       = <<<<"1-2-3-">>, <<"">>, <<"1-2-3-">>, <<"1">>>>
ASSUME <<Tr("%", TRUE, L("*-")), Tr("%", TRUE, L("*")), Tr("%", TRUE, L("-*")), Tr("%", TRUE, L("*-*"))>>
       = <<<<"1-2-3-4">>, <<"">>, <<"1">>, <<"">>>>
ASSUME F(DQ(TR("x", "#", FALSE, SQ("*"))), Stars) = <<"**">>
ASSUME F(DQ(TR("x", "%", TRUE, SQ("*"))), Stars) = <<"**">>
\* 'parameter expansion in embedded pattern'  w='ab\bc' a='*'
Wp == S(Val("ab\\bc"), Val("*"), <<>>, DefaultIfs)
ASSUME F(TR("x", "#", FALSE, P("y") \o L("b")), Wp) = <<"\\bc">>
ASSUME F(DQ(TR("x", "#", FALSE, P("y") \o L("b"))), Wp) = <<"\\bc">>
ASSUME F(TR("x", "#", FALSE, DQ(P("y") \o L("b"))), Wp) = <<"ab\\bc">>
ASSUME F(TR("x", "#", TRUE, P("y") \o L("b")), Wp) = <<"c">>
ASSUME F(TR("x", "%", FALSE, L("b") \o P("y")), Wp) = <<"ab\\">>
ASSUME F(TR("x", "%", TRUE, L("b") \o P("y")), Wp) = <<"a">>
ASSUME F(TR("x", "%", TRUE, DQ(L("b") \o P("y"))), Wp) = <<"ab\\bc">>
\* 'removing prefix with expanded word'
ASSUME F(TR("x", "#", FALSE, P("y")), S(Val("/home/foo/src/cmd"), Val("/home/foo"), <<>>, DefaultIfs)) = <<"/src/cmd">>
\* 'testing existence of positional parameter'  set a b c
ASSUME F(SW("2", TRUE, "+", L("posix")), S(Unset, Unset, <<"a", "b", "c">>, DefaultIfs)) = <<"posix">>
ASSUME F(SW("1", FALSE, "-", L("posix")), S(Unset, Unset, <<>>, DefaultIfs)) = <<"posix">>
\* 'special parameter *, quoted' (unset IFS, IFS=xyz, IFS=)
Q(pos, ifs) == F(DQ(P("*")), S(Unset, Unset, pos, ifs))
ASSUME <<Q(<<>>, NoIfs), Q(<<"a">>, NoIfs), Q(<<"a", "b  b", "cc">>, NoIfs), Q(<<"">>, NoIfs), Q(<<"", "">>, NoIfs)>>
       = <<<<"">>, <<"a">>, <<"a b  b cc">>, <<"">>, <<" ">>>>
ASSUME Q(<<" a ", "  b  ", " cc ">>, NoIfs) = <<" a    b    cc ">>
ASSUME <<Q(<<>>, Ifs("xyz")), Q(<<"a", "b  b", "cc">>, Ifs("xyz")), Q(<<"", "">>, Ifs("xyz"))>> = <<<<"">>, <<"axb  bxcc">>, <<"x">>>>
ASSUME <<Q(<<>>, Ifs("")), Q(<<"a", "b  b", "cc">>, Ifs("")), Q(<<"", "">>, Ifs(""))>> = <<<<"">>, <<"ab  bcc">>, <<"">>>>
\* 'special parameter *, unquoted' / 'special parameter @, unquoted'
U(p, w1, w2, pos, ifs) == F(w1 \o P(p) \o w2, S(Unset, Unset, pos, ifs))
ASSUME \A p \in {"*", "@"} :
   /\ U(p, <<>>, <<>>, <<>>, DefaultIfs) = <<>>
   /\ U(p, DQ(<<>>), <<>>, <<>>, DefaultIfs) = <<"">>
   /\ U(p, <<>>, DQ(<<>>), <<>>, DefaultIfs) = <<"">>
   /\ U(p, DQ(<<>>), <<>>, <<"a">>, DefaultIfs) = <<"a">>
   /\ U(p, <<>>, <<>>, <<"a", "b  b", "cc">>, DefaultIfs) = <<"a", "b", "b", "cc">>
   /\ U(p, DQ(<<>>), <<>>, <<"a", "b  b", "cc">>, DefaultIfs) = <<"a", "b", "b", "cc">>
   /\ U(p, <<>>, <<>>, <<"a", "b  b", "cc">>, Ifs("")) = <<"a", "b  b", "cc">>
   /\ U(p, <<>>, DQ(<<>>), <<"a", "b  b", "cc">>, Ifs("")) = <<"a", "b  b", "cc">>
\* 'special parameter @, quoted'   null=
At(w, pos) == F(w, S(Val(""), Unset, pos, DefaultIfs))
ASSUME At(DQ(P("@")), <<>>) = <<>>
ASSUME At(DQ(P("@")) \o DQ(P("@")), <<>>) = <<>>
ASSUME At(DQ(L("=") \o P("@") \o L("=")), <<>>) = <<"==">>
ASSUME At(DQ(P("x")) \o DQ(P("@")), <<>>) = <<"">>
ASSUME At(DQ(P("@")) \o DQ(P("x")), <<>>) = <<"">>
ASSUME At(DQ(P("x")) \o DQ(P("@")) \o DQ(P("x")), <<>>) = <<"">>
ASSUME At(DQ(P("x")) \o DQ(P("@") \o P("x")), <<>>) = <<"">>      \* "$null""$@$null"
ASSUME At(DQ(P("x") \o P("@")) \o DQ(P("x")), <<>>) = <<"">>      \* "$null$@""$null"
ASSUME At(DQ(P("@")), <<"a">>) = <<"a">>
ASSUME At(DQ(L("=") \o P("@") \o L("=")), <<"a">>) = <<"=a=">>
ASSUME At(DQ(P("@")), <<"a", "b  b", "cc">>) = <<"a", "b  b", "cc">>
ASSUME At(DQ(L("=") \o P("@") \o L("=")), <<"a", "b  b", "cc">>) = <<"=a", "b  b", "cc=">>
ASSUME At(DQ(P("@") \o P("@")), <<"a", "b  b", "cc">>) = <<"a", "b  b", "cca", "b  b", "cc">>
ASSUME At(DQ(P("@")), <<"">>) = <<"">>
ASSUME At(DQ(L("=") \o P("@") \o L("=")), <<"">>) = <<"==">>
ASSUME At(DQ(P("@") \o P("@")), <<"">>) = <<"">>
ASSUME At(DQ(P("@")), <<"", "">>) = <<"", "">>
ASSUME At(DQ(L("=") \o P("@") \o L("=")), <<"", "">>) = <<"=", "=">>
ASSUME At(DQ(P("@") \o P("@")), <<"", "">>) = <<"", "", "">>
ASSUME At(DQ(P("x")) \o DQ(P("@")) \o DQ(P("x")), <<"", "">>) = <<"", "">>
ASSUME At(DQ(P("@")), <<" a ", "  b  ", " cc ">>) = <<" a ", "  b  ", " cc ">>
\* the unspecified case of 2.5.2: "$@$null" with no positional parameters
ASSUME LET O == Outcomes(DQ(P("@") \o P("x")), S(Val(""), Unset, <<>>, DefaultIfs))
       IN Len(O) = 2 /\ {O[1].f, O[2].f} = {<<>>, <<"">>}
\* '${1+"$@"}'  '${foo:-"$@"}'
P1(pos) == F(SW("1", FALSE, "+", DQ(P("@"))), S(Unset, Unset, pos, DefaultIfs))
ASSUME <<P1(<<>>), P1(<<"a">>), P1(<<"a", "b  b", "cc">>), P1(<<"">>), P1(<<"", "">>), P1(<<" ", " ", " ">>)>>
       = << <<>>, <<"a">>, <<"a", "b  b", "cc">>, <<"">>, <<"", "">>, <<" ", " ", " ">> >>
ASSUME F(SW("x", TRUE, "-", DQ(P("@"))), S(Unset, Unset, <<"a", "b  b", "cc">>, DefaultIfs)) = <<"a", "b  b", "cc">>
ASSUME F(SW("x", TRUE, "-", DQ(P("@"))), S(Val(""), Unset, <<"a", "b  b", "cc">>, DefaultIfs)) = <<"a", "b  b", "cc">>
ASSUME F(SW("x", TRUE, "-", DQ(P("@"))), S(Val("bar"), Unset, <<"a", "b  b", "cc">>, DefaultIfs)) = <<"bar">>

\* --- XCU 2.6: field splitting follows all expansions of the word, so it uses the IFS
\* the word itself assigned:  unset IFS; x='a:b c'; printf '[%s]' ${IFS=:}$x  ->  [][a][b c]
ASSUME LET o == One(SW("IFS", FALSE, "=", L(":")) \o P("x"), S(Val("a:b c"), Unset, <<>>, NoIfs))
       IN o.f = <<"", "a", "b c">> /\ o.ifs = Val(":")
ASSUME F(P("x") \o SW("IFS", TRUE, "=", L(":")), S(Val("a:b c"), Unset, <<>>, Ifs(""))) = <<"a", "b c">>
ASSUME F(SW("IFS", TRUE, "=", L(":")) \o P("x"), S(Val("a:b c"), Unset, <<>>, Ifs(" "))) = <<"a:b", "c">>
\* "$*" joins with the IFS in force where it is expanded
ASSUME F(DQ(P("*")) \o SW("IFS", FALSE, "=", L("-")), S(Unset, Unset, <<"a", "b">>, NoIfs)) = <<"a b">>
ASSUME F(SW("IFS", FALSE, "=", L("-")) \o DQ(P("*")), S(Unset, Unset, <<"a", "b">>, NoIfs)) = <<"", "a-b">>

\* --- read.md / read-p.sh ------------------------------------------------------
RL(s) == [i \in 1..Len(s) |-> [c |-> SubSeq(s, i, i), esc |-> FALSE]]
Esc(c) == <<[c |-> c, esc |-> TRUE]>>
Rd(line, n, ifs) == ReadOutcomes(line, n, [set |-> ifs.set, v |-> Chars(ifs.v)])
ASSUME Rd(RL("1 James Carter"), 2, DefaultIfs) = {<<"1", "James Carter">>}
ASSUME Rd(RL("3:Michael Anthony Davis"), 2, Ifs(":")) = {<<"3", "Michael Anthony Davis">>}
ASSUME Rd(RL(" No field splitting.  Nor line continuation. \\"), 1, Ifs("")) = {<<" No field splitting.  Nor line continuation. \\">>}
ASSUME Rd(RL("  A  "), 1, DefaultIfs) = {<<"A">>}
ASSUME Rd(RL(" - A - "), 1, DefaultIfs) = {<<"- A -">>}
ASSUME Rd(RL("foo bar baz"), 2, DefaultIfs) = {<<"foo", "bar baz">>}
ASSUME Rd(RL(" AA B CC "), 3, Ifs(" -")) = {<<"AA", "B", "CC">>}
ASSUME Rd(RL("-BB-C-DD-"), 5, Ifs(" -")) = {<<"", "BB", "C", "DD", "">>}
ASSUME Rd(RL(" - BB - C - DD - "), 5, Ifs(" -")) = {<<"", "BB", "C", "DD", "">>}
ASSUME Rd(RL("--  CC--  "), 5, Ifs(" -")) = {<<"", "", "CC", "", "">>}
ASSUME Rd(RL("A B"), 4, DefaultIfs) = {<<"A", "B", "", "">>}
\* 'backslash prevents field splitting':  A\ A \ \B\  C\\C\-C\\-D
ASSUME Rd(RL("A") \o Esc(" ") \o RL("A ") \o Esc(" ") \o Esc("B") \o Esc(" ") \o RL(" C") \o Esc("\\") \o RL("C")
          \o Esc("-") \o RL("C") \o Esc("\\") \o RL("-D"), 4, Ifs(" -")) = {<<"A A", " B ", "C\\C-C\\", "D">>}
\* 'exact number of fields with non-whitespace IFS': the manual's reading is among the allowed ones
ASSUME <<"A", "B", "C">> \in Rd(RL("A-B-C - "), 3, Ifs(" -"))
ASSUME Rd(RL("A-B-C - "), 3, Ifs(" -")) = {<<"A", "B", "C">>, <<"A", "B", "C -">>}
\* 'too many fields are joined with trailing whitespaces removed'
ASSUME Rd(RL("A B C-C C") \o Esc("\\") \o RL("CC   "), 3, Ifs(" -")) = {<<"A", "B", "C-C C\\CC">>}
=============================================================================
