---------------------------- MODULE ReadBuiltin ----------------------------
(***************************************************************************)
(* The `read` built-in (specification-growth module G05), written from     *)
(* POSIX.1-2024 XCU `read` and docs/src/builtins/read.md:                  *)
(*                                                                         *)
(*     read [-d delimiter] [-r] variable...                                *)
(*                                                                         *)
(* The standard input is a finite sequence of TOKENS.  A token is one      *)
(* character (a one-character string such as "a", " ", "\\", "\n") or one  *)
(* of the multi-letter names below, which stand for bytes / characters     *)
(* that a TLA+ source file cannot spell portably:                          *)
(*     NUL  the null byte                                                  *)
(*     W2   a two-byte character (U+00E9),  W3  a three-byte one (U+3042)  *)
(*     W4   a four-byte character (U+1F600)                                *)
(*     BAD  a byte that occurs in no character (0xFF)                      *)
(*     CUT  the first byte of a two-byte character without the second one  *)
(*          (0xC3)                                                         *)
(* (test alphabets contain neither the letter W nor digits, so the text    *)
(* "W2" in a value always denotes the character).                          *)
(*                                                                         *)
(* What the built-in does, in two phases:                                  *)
(*  1. Scan: read the LOGICAL LINE - characters up to the first delimiter  *)
(*     (newline; the operand of -d; the null byte for `-d ''`).  Without   *)
(*     -r a backslash-newline pair is a line continuation (both removed,   *)
(*     reading goes on) and a backslash before any other character makes   *)
(*     that character literal ("qtd"; the backslash itself is a quoting    *)
(*     character "qm" that is removed in the end).  With -r, or when the   *)
(*     delimiter is the backslash (manual, Compatibility), no escape is    *)
(*     recognised.  Exactly the tokens up to and including the delimiter   *)
(*     are consumed (manual: "does not read more than needed to find a     *)
(*     delimiter, so that a next command can read the remaining input      *)
(*     without loss").                                                     *)
(*  2. Assign: the line is split by IFS the way Split.tla (C01) prescribes *)
(*     for `read`: the first n-1 fields go to the first n-1 variables, the *)
(*     last variable gets the remainder with its separators but without    *)
(*     trailing IFS white space, variables without a field become empty;   *)
(*     escaped characters are never separators.                            *)
(* Exit status: 0 if the delimiter was found, 1 at end of input before a   *)
(* delimiter (the partial line IS assigned), 2 or more on errors.          *)
(***************************************************************************)
EXTENDS Split

BSL == "\\"
NL  == "\n"
NUL == "NUL"
BAD == "BAD"
CUT == "CUT"
IllFormed == {BAD, CUT}

(***************************************************************************)
(* The option -d.  dopt is "none" (no -d option) or the option argument:   *)
(* "" selects the null byte, a single-byte character selects itself,       *)
(* anything else (several characters, a multi-byte character - tokens of   *)
(* more than one letter) is an error (manual: "The delimiter is not a      *)
(* single-byte character"; POSIX: unspecified).                            *)
(***************************************************************************)
NoD == "none"
DelimValid(dopt) == dopt = NoD \/ Len(dopt) <= 1
DelimTok(dopt) == IF dopt = NoD THEN NL ELSE IF dopt = "" THEN NUL ELSE dopt

Opt(raw, dopt) == [raw |-> raw, d |-> dopt]

---------------------------------------------------------------------------
(* Phase 1.  Result: the attributed logical line, whether the delimiter    *)
(* was found, the number of tokens consumed, and which rules were applied  *)
(* (cont: line continuations, esc: escaped characters, orphan: the input   *)
(* ended right after an unescaped backslash, escnul: an escaped null byte  *)
(* while the null byte is the delimiter).                                  *)
(*                                                                         *)
(* The orphan backslash escapes nothing.  POSIX: "All other unescaped      *)
(* <backslash> characters shall be removed after splitting the input into  *)
(* fields" - it takes part in splitting as an ordinary character and then  *)
(* disappears.  It is recorded with kind "orph"; see Assign.               *)
(*                                                                         *)
(* A backslash followed by a delimiter other than newline: POSIX leaves    *)
(* open whether that is a line continuation; the manual decides ("a line   *)
(* continuation is always a backslash followed by a newline"), so the      *)
(* delimiter is an escaped, literal character here and does not end the    *)
(* line.  Likewise backslash-newline is a continuation whatever the        *)
(* delimiter is (read-y.sh, 'line continuation with non-default            *)
(* delimiter').                                                            *)
(***************************************************************************)
RECURSIVE ScanFrom(_, _, _, _, _, _)
ScanFrom(inp, i, d, raw, acc, tg) ==
  IF i > Len(inp) THEN [line |-> acc, found |-> FALSE, used |-> Len(inp), tags |-> tg]
  ELSE LET c == inp[i] IN
    IF c = d THEN [line |-> acc, found |-> TRUE, used |-> i, tags |-> tg]
    ELSE IF c = BSL /\ ~raw THEN
      IF i = Len(inp)
        THEN [line |-> Append(acc, AC(BSL, "orph")), found |-> FALSE, used |-> i, tags |-> tg \cup {"orphan"}]
      ELSE IF inp[i+1] = NL THEN ScanFrom(inp, i + 2, d, raw, acc, tg \cup {"cont"})
      ELSE ScanFrom(inp, i + 2, d, raw, acc \o <<AC(BSL, "qm"), AC(inp[i+1], "qtd")>>,
                    tg \cup {"esc"} \cup (IF inp[i+1] = d THEN {"escdelim"} ELSE {})
                       \cup (IF inp[i+1] = NUL /\ d = NUL THEN {"escnul"} ELSE {}))
    ELSE ScanFrom(inp, i + 1, d, raw, Append(acc, AC(c, "exp")), tg)

Scan(inp, o) == ScanFrom(inp, 1, DelimTok(o.d), o.raw, <<>>, {})

---------------------------------------------------------------------------
(* Phase 2.  Same definition as Split!ReadAllowed (the theorem             *)
(* ThSameAsSplit below is checked by TLC), generalised to the orphan       *)
(* backslash: it is removed from the values like a quoting character, and  *)
(* during splitting it is an ordinary unquoted character - which matters   *)
(* only when IFS contains the backslash; since the manual calls every      *)
(* backslash of the input a quoting character, both readings are allowed   *)
(* then.                                                                   *)
(***************************************************************************)
Unquote(f) == Str(Plain(SelectSeq(f, LAMBDA a : a.k \notin {"qm", "orph"})))

AssignWith(line, cs, n) ==
  LET R  == RangesDecl(cs)
      m  == Len(R)
      Fld(k) == IF k <= m THEN SubSeq(line, R[k][1], R[k][2]) ELSE <<>>
      Rem == SubSeq(line, R[n][1], LastNonWs(cs))
      Lasts == IF m < n THEN { <<>> }
               ELSE IF m = n THEN { Fld(n), Rem }
               ELSE { Rem }
  IN [m |-> m, vals |-> { [k \in 1..n |-> Unquote(IF k < n THEN Fld(k) ELSE last)] : last \in Lasts }]

ClassesQ(line, ifs) == Classes(line, ifs)          \* orphan: not "exp", hence "N"
ClassesP(line, ifs) ==                              \* orphan: ordinary character
  [i \in DOMAIN line |-> IF line[i].k = "orph" THEN ClassOfChar(BSL, ifs) ELSE ClassOf(line[i], ifs)]

Assign(line, n, ifs) ==
  LET A == AssignWith(line, ClassesP(line, ifs), n) IN
  IF ClassesP(line, ifs) = ClassesQ(line, ifs) THEN A
  ELSE [m |-> A.m, vals |-> A.vals \cup AssignWith(line, ClassesQ(line, ifs), n).vals]

---------------------------------------------------------------------------
(* The whole built-in.  vk is the list of variable operands by kind:       *)
(* "o" an ordinary variable, "r" a read-only one, "b" an invalid name      *)
(* (contains `=`).  Result:                                                *)
(*   class  "ok"     specified: status st ("0"/"1"), the n variables get   *)
(*                   one of the tuples in vals, exactly `lo = hi` tokens   *)
(*                   are consumed                                          *)
(*          "usage"  invalid delimiter, no operand, invalid name: status   *)
(*                   2 or more ("E"), nothing else is demanded             *)
(*          "ronly"  a read-only variable: status "E", that variable keeps *)
(*                   its value, at most the logical line is consumed       *)
(*          "nul"    the line holds a null byte that is not the delimiter  *)
(*                   (manual: an error; POSIX: the input shall not contain *)
(*                   one): status "E"; consumed: at least up to the null   *)
(*                   byte, at most the logical line                        *)
(*          "unreadable"  see ExpectUnreadable                             *)
(*          "open"   ill-formed bytes in the line, or an escaped null byte *)
(*                   under -d '' (neither document says what happens):     *)
(*                   any status; at most the logical line is consumed      *)
(***************************************************************************)
FirstIdx(s, P(_)) == LET S == {i \in DOMAIN s : P(s[i])} IN
                     IF S = {} THEN 0 ELSE CHOOSE i \in S : \A j \in S : i <= j

Expect(o, ifs, vk, inp) ==
  IF ~DelimValid(o.d) \/ vk = <<>> \/ InSeq("b", vk)
  THEN [class |-> "usage", st |-> "E", lo |-> 0, hi |-> Len(inp), m |-> 0, vals |-> {}, tags |-> {}]
  ELSE
    LET s == Scan(inp, o)
        d == DelimTok(o.d)
        cons == SubSeq(inp, 1, s.used)
        a == Assign(s.line, Len(vk), ifs)
        nulAt == IF d = NUL THEN 0 ELSE FirstIdx(cons, LAMBDA c : c = NUL)
    IN IF (\E i \in DOMAIN cons : cons[i] \in IllFormed) \/ "escnul" \in s.tags
       THEN [class |-> "open", st |-> "any", lo |-> 0, hi |-> s.used, m |-> 0, vals |-> {}, tags |-> s.tags]
       ELSE IF nulAt # 0
       THEN [class |-> "nul", st |-> "E", lo |-> nulAt, hi |-> s.used, m |-> 0, vals |-> {}, tags |-> s.tags]
       ELSE IF InSeq("r", vk)
       THEN [class |-> "ronly", st |-> "E", lo |-> 0, hi |-> s.used, m |-> a.m, vals |-> a.vals, tags |-> s.tags]
       ELSE [class |-> "ok", st |-> IF s.found THEN "0" ELSE "1", lo |-> s.used, hi |-> s.used,
             m |-> a.m, vals |-> a.vals, tags |-> s.tags]

(* Descriptor 0 cannot be read at all (closed): manual, Errors: "The        *)
(* standard input is not readable"; status 2 or more.                      *)
ExpectUnreadable(o, vk) ==
  [class |-> IF ~DelimValid(o.d) \/ vk = <<>> \/ InSeq("b", vk) THEN "usage" ELSE "unreadable",
   st |-> "E", lo |-> 0, hi |-> 0, m |-> 0, vals |-> {}, tags |-> {}]

Vars(n) == [k \in 1..n |-> "o"]

---------------------------------------------------------------------------
(* Does an observation agree with the specification?  obs =                *)
(*   [done  the run completed (no panic, deadlock or step limit),          *)
(*    st    exit status of read,                                           *)
(*    vals  values of the n operand variables afterwards, set: which are   *)
(*          set at all, pre: their value before,                           *)
(*    oth   the variables that are not operands kept their values,         *)
(*    used  number of tokens missing (wholly or in part) from descriptor 0 *)
(*          afterwards; -1 if what remains is not a suffix of the input,   *)
(*    mid   only some of the bytes of the last of these tokens (a          *)
(*          multi-byte character) are missing]                             *)
(***************************************************************************)
StatusOK(st, s) ==
  CASE st = "0" -> s = 0
    [] st = "1" -> s = 1
    [] st = "E" -> s >= 2 /\ s <= 255
    [] OTHER -> s >= 0 /\ s <= 255

Conforms(e, vk, obs) ==
  LET n == Len(vk) IN
  IF ~obs.done THEN "outcome"
  ELSE IF ~StatusOK(e.st, obs.st) THEN "status"
  ELSE IF ~(obs.used >= e.lo /\ obs.used <= e.hi) \/ (obs.mid /\ e.class # "open") THEN "consumed"
  ELSE IF ~obs.oth THEN "other-variables"
  ELSE IF e.class = "ok" /\ \E k \in 1..n : ~obs.set[k] THEN "unset"
  ELSE IF e.class = "ok" /\ [k \in 1..n |-> obs.vals[k]] \notin e.vals THEN "values"
  ELSE IF e.class = "ronly" /\ \E k \in 1..n : vk[k] = "r" /\ (~obs.set[k] \/ obs.vals[k] # obs.pre) THEN "readonly-changed"
  ELSE "ok"

---------------------------------------------------------------------------
(* Theorems about the definition itself (TLC checks them on every          *)
(* enumerated input, see Gen_ReadBuiltin!Laws).                            *)

(* without an orphan backslash Assign is C01's ReadAllowed *)
ThSameAsSplit(line, n, ifs) ==
  (\A i \in DOMAIN line : line[i].k # "orph") =>
     Assign(line, n, ifs).vals = { [k \in 1..n |-> Str(v[k])] : v \in ReadAllowed(line, n, ifs) }

(* what follows the consumed tokens has no influence; what is consumed is   *)
(* a prefix ending with the first unescaped delimiter, or everything        *)
ThLocal(o, ifs, n, inp) ==
  LET e == Expect(o, ifs, Vars(n), inp)
      p == Expect(o, ifs, Vars(n), SubSeq(inp, 1, e.hi))
  IN /\ p.class = e.class /\ p.vals = e.vals /\ p.st = e.st /\ p.hi = e.hi
     /\ e.hi <= Len(inp)
     /\ (e.class = "ok" /\ e.st = "0") => inp[e.hi] = DelimTok(o.d)
     /\ (e.class = "ok" /\ e.st = "1") => e.hi = Len(inp)

(* raw mode and no backslash in the input: the same result *)
ThRawSame(o, ifs, n, inp) ==
  (~InSeq(BSL, inp)) =>
     LET e == Expect(Opt(TRUE, o.d), ifs, Vars(n), inp)
         f == Expect(Opt(FALSE, o.d), ifs, Vars(n), inp)
     IN e.class = f.class /\ e.vals = f.vals /\ e.st = f.st /\ e.hi = f.hi

(* raw mode: the values consist of the characters of the line, in order;   *)
(* with an empty IFS the first variable is the line itself                 *)
ThEmptyIfs(o, n, inp) ==
  LET e == Expect(o, IfsOf(""), Vars(n), inp)
      s == Scan(inp, o)
  IN e.class = "ok" => e.vals = { [k \in 1..n |-> IF k = 1 THEN Unquote(s.line) ELSE ""] }

(* a line continuation joins: removing a backslash-newline pair changes    *)
(* nothing but the count of consumed tokens (default delimiter)            *)
ThJoin(ifs, n, inp) ==
  \A i \in 1..(Len(inp) - 1) :
    (inp[i] = BSL /\ inp[i+1] = NL /\ (i = 1 \/ inp[i-1] # BSL)) =>
       LET cut == SubSeq(inp, 1, i - 1) \o SubSeq(inp, i + 2, Len(inp))
           e == Expect(Opt(FALSE, NoD), ifs, Vars(n), inp)
           f == Expect(Opt(FALSE, NoD), ifs, Vars(n), cut)
       IN e.hi > i => (e.class = f.class /\ e.vals = f.vals /\ e.st = f.st /\ e.hi = f.hi + 2)

(* more variables than fields: the surplus is empty and the others are the *)
(* fields, whatever the number of variables                                *)
ThSurplusEmpty(o, ifs, inp) ==
  LET e1 == Expect(o, ifs, Vars(1), inp) IN
  (e1.class = "ok" /\ "orphan" \notin e1.tags) =>
    \A n \in (e1.m + 1)..(e1.m + 2) :
      LET e == Expect(o, ifs, Vars(n), inp) IN
      /\ Cardinality(e.vals) = 1
      /\ \A v \in e.vals : \A k \in (e1.m + 1)..n : v[k] = ""
=============================================================================
