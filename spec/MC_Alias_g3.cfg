SPECIFICATION Spec
CONSTANTS
  NameSeq <- NameSeq3
  GlobalNames = {"c"}
  LineFam = "g"
  Prune = TRUE
INVARIANT NoSelfNesting
INVARIANT ChainsSound
INVARIANT Deterministic
INVARIANT VariantNat
INVARIANT Emit
PROPERTY VariantDecreases
PROPERTY OnlyEligibleReplaced
