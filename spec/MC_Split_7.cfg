SPECIFICATION Spec
CONSTANT MaxLen = 7
INVARIANT Theorems
INVARIANT EmptyIfsNoSplit
INVARIANT AllQuotedOneField
