INIT Init
NEXT Next
VIEW view
CONSTANTS
  Variant = ""
  PNorm <- TokSh
  PLit <- LitSh
  PMacro <- MacSh
  PLen = 2
  SAlpha <- StrSh
  SLen = 2
  CfgSel = "all"
  Kind = "shell"
INVARIANT Emit
