--------------------------- MODULE OptParseMachine ---------------------------
(***************************************************************************)
(* 3. The left-to-right machine, in the shape of                           *)
(*    yash-builtin/src/common/syntax.rs:                                   *)
(*      parse_arguments  = loop { short? ; long? } ; optional `--` ; rest  *)
(*      parse_short_options = take a field starting with a single hyphen,  *)
(*                            walk its characters                          *)
(*      parse_long_option   = take a field `--x...`, split at `=`,         *)
(*                            long_match (first exact, else sole partial)  *)
(*    `pos` is the peekable iterator, `fld` the field taken from it, `ci`  *)
(*    the character cursor, `occ` the occurrences pushed so far.           *)
(*                                                                         *)
(* The model first builds an argument vector over Tokens (phase "gen"), so *)
(* that TLC's search enumerates every vector up to MaxLen for every chosen *)
(* (table, mode), then runs the machine on it.  Invariants:                *)
(*   Agree         machine result = functional definition (OptParse!Parse) *)
(*   OnlySpellings every accepted vector is a spelling (OptParse!Spellings)*)
(*                 of the invocation it is parsed to                       *)
(* and absence of deadlock = the machine always terminates.                *)
(***************************************************************************)
EXTENDS OptTables

CONSTANTS TableIds, ModeIds, MaxLen, CheckSpellings

\* specs, mode: the table and mode of this behaviour (fixed by Init);
\* argv: the argument vector (built in phase "gen")
VARIABLES specs, mode, argv, pc, pos, fld, ci, occ, res
vars == <<specs, mode, argv, pc, pos, fld, ci, occ, res>>

NoRes == [ok |-> FALSE, opts |-> <<>>, p |-> 0, err |-> "", at |-> 0]

Init ==
  /\ \E t \in TableIds : specs = TableOf(t)
  /\ \E m \in ModeIds : mode = ModeOfId(m)
  /\ argv = <<>> /\ pc = "gen" /\ pos = 0 /\ fld = 0 /\ ci = 0 /\ occ = <<>> /\ res = NoRes

GenAppend ==
  /\ pc = "gen" /\ Len(argv) < MaxLen
  /\ \E t \in 1..NTok : argv' = Append(argv, Tokens[t])
  /\ UNCHANGED <<specs, mode, pc, pos, fld, ci, occ, res>>

Start ==
  /\ pc = "gen"
  /\ pc' = "short" /\ pos' = 1
  /\ UNCHANGED <<specs, mode, argv, fld, ci, occ, res>>

Fail(e, k) ==
  /\ res' = [ok |-> FALSE, opts |-> <<>>, p |-> 0, err |-> e, at |-> k]
  /\ pc' = "done"
  /\ UNCHANGED <<specs, mode, argv, pos, fld, ci, occ>>

\* ---- parse_short_options ------------------------------------------------
StartsWithSingleHyphen(w) == Len(w) >= 1 /\ w[1] = Hy /\ Len(w) >= 2 /\ w[2] # Hy

ShortNone ==
  /\ pc = "short"
  /\ ~(pos <= Len(argv) /\ StartsWithSingleHyphen(argv[pos]))
  /\ pc' = "long"
  /\ UNCHANGED <<specs, mode, argv, pos, fld, ci, occ, res>>

ShortTake ==
  /\ pc = "short"
  /\ pos <= Len(argv) /\ StartsWithSingleHyphen(argv[pos])
  /\ fld' = pos /\ pos' = pos + 1 /\ ci' = 2 /\ pc' = "chars"
  /\ UNCHANGED <<specs, mode, argv, occ, res>>

\* option_specs.iter().find(|spec| spec.get_short() == Some(c))
FindShort(c) == LET S == {i \in DOMAIN specs : specs[i].s # "" /\ specs[i].s = c}
                IN IF S = {} THEN 0 ELSE CHOOSE i \in S : \A j \in S : i <= j

CharsEnd ==
  /\ pc = "chars" /\ ci > Len(argv[fld])
  /\ pc' = "short"
  /\ UNCHANGED <<specs, mode, argv, pos, fld, ci, occ, res>>

CharUnknown ==
  /\ pc = "chars" /\ ci <= Len(argv[fld])
  /\ FindShort(argv[fld][ci]) = 0
  /\ Fail("UnknownShort", fld)

CharNonPortable ==
  /\ pc = "chars" /\ ci <= Len(argv[fld])
  /\ LET i == FindShort(argv[fld][ci]) IN i # 0 /\ specs[i].x /\ ~mode.ext
  /\ Fail("NonPortableShort", fld)

Accepted(i) == i # 0 /\ ~(specs[i].x /\ ~mode.ext)

CharPlain ==
  /\ pc = "chars" /\ ci <= Len(argv[fld])
  /\ LET i == FindShort(argv[fld][ci]) IN
       /\ Accepted(i) /\ ~specs[i].a
       /\ occ' = Append(occ, Occ(i, ci - 1, fld, 0, 0))
  /\ ci' = ci + 1
  /\ UNCHANGED <<specs, mode, argv, pc, pos, fld, res>>

CharArgNext ==
  /\ pc = "chars" /\ ci = Len(argv[fld])           \* remainder_len == 0
  /\ LET i == FindShort(argv[fld][ci]) IN
       /\ Accepted(i) /\ specs[i].a
       /\ pos <= Len(argv)
       /\ occ' = Append(occ, Occ(i, ci - 1, fld, pos, 1))
  /\ pos' = pos + 1 /\ pc' = "short"
  /\ UNCHANGED <<specs, mode, argv, fld, ci, res>>

CharArgMissing ==
  /\ pc = "chars" /\ ci = Len(argv[fld])
  /\ LET i == FindShort(argv[fld][ci]) IN Accepted(i) /\ specs[i].a
  /\ pos > Len(argv)
  /\ Fail("MissingArg", fld)

CharArgUnseparated ==
  /\ pc = "chars" /\ ci < Len(argv[fld])
  /\ LET i == FindShort(argv[fld][ci]) IN Accepted(i) /\ specs[i].a
  /\ ~mode.same
  /\ Fail("Unseparated", fld)

CharArgAttached ==
  /\ pc = "chars" /\ ci < Len(argv[fld])
  /\ mode.same
  /\ LET i == FindShort(argv[fld][ci]) IN
       /\ Accepted(i) /\ specs[i].a
       /\ occ' = Append(occ, Occ(i, ci - 1, fld, fld, ci + 1))   \* field.value.drain(..prefix)
  /\ pc' = "short"
  /\ UNCHANGED <<specs, mode, argv, pos, fld, ci, res>>

\* ---- parse_long_option ---------------------------------------------------
StartsWithDoubleHyphen(w) == Len(w) > 2 /\ w[1] = Hy /\ w[2] = Hy

\* long_match(): Ok(index) as [n |-> 1, i], Err(list) as [n |-> length, i |-> 0]
MLongMatch(name) ==
  LET part == {i \in DOMAIN specs : specs[i].l # <<>> /\ OPIsPrefix(name, specs[i].l)}
      exact == {i \in part : Len(specs[i].l) = Len(name)}
      \* the loop returns at the first Exact it meets
  IN IF exact # {} THEN [n |-> 1, i |-> CHOOSE i \in exact : \A j \in exact : i <= j]
     ELSE IF Cardinality(part) = 1 THEN [n |-> 1, i |-> CHOOSE i \in part : TRUE]
     ELSE [n |-> Cardinality(part), i |-> 0]

LongNone ==
  /\ pc = "long"
  /\ ~(pos <= Len(argv) /\ StartsWithDoubleHyphen(argv[pos]))
  /\ pc' = "sep"
  /\ UNCHANGED <<specs, mode, argv, pos, fld, ci, occ, res>>

LEq == OPIndexOf(argv[pos], "=")
LName == IF LEq = 0 THEN OPDrop(argv[pos], 2) ELSE SubSeq(argv[pos], 3, LEq - 1)
LTaken == pc = "long" /\ pos <= Len(argv) /\ StartsWithDoubleHyphen(argv[pos])
LSpecOk(m) == m.n = 1 /\ mode.long /\ (mode.ext \/ ~specs[m.i].x)

LongNonPortable ==
  /\ LTaken
  /\ LET m == MLongMatch(LName) IN m.n = 1 /\ ~LSpecOk(m)
  /\ Fail("NonPortableLong", pos)

LongUnknown ==
  /\ LTaken
  /\ MLongMatch(LName).n = 0
  /\ Fail("UnknownLong", pos)

LongAmbiguous ==
  /\ LTaken
  /\ MLongMatch(LName).n > 1
  /\ Fail("AmbiguousLong", pos)

LongPlain ==
  /\ LTaken
  /\ LET m == MLongMatch(LName) IN
       /\ LSpecOk(m) /\ ~specs[m.i].a /\ LEq = 0
       /\ occ' = Append(occ, Occ(m.i, 0, pos, 0, 0))
  /\ pos' = pos + 1 /\ pc' = "short"
  /\ UNCHANGED <<specs, mode, argv, fld, ci, res>>

LongUnexpected ==
  /\ LTaken
  /\ LET m == MLongMatch(LName) IN LSpecOk(m) /\ ~specs[m.i].a /\ LEq # 0
  /\ Fail("UnexpectedArg", pos)

LongArgNext ==
  /\ LTaken
  /\ pos + 1 <= Len(argv)
  /\ LET m == MLongMatch(LName) IN
       /\ LSpecOk(m) /\ specs[m.i].a /\ LEq = 0
       /\ occ' = Append(occ, Occ(m.i, 0, pos, pos + 1, 1))
  /\ pos' = pos + 2 /\ pc' = "short"
  /\ UNCHANGED <<specs, mode, argv, fld, ci, res>>

LongArgMissing ==
  /\ LTaken
  /\ pos + 1 > Len(argv)
  /\ LET m == MLongMatch(LName) IN LSpecOk(m) /\ specs[m.i].a /\ LEq = 0
  /\ Fail("MissingArg", pos)

LongArgEq ==
  /\ LTaken
  /\ LET m == MLongMatch(LName) IN
       /\ LSpecOk(m) /\ specs[m.i].a /\ LEq # 0
       /\ occ' = Append(occ, Occ(m.i, 0, pos, pos, LEq + 1))      \* field.value.drain(..index + 1)
  /\ pos' = pos + 1 /\ pc' = "short"
  /\ UNCHANGED <<specs, mode, argv, fld, ci, res>>

\* ---- tail of parse_arguments --------------------------------------------
Finish ==
  /\ pc = "sep"
  /\ LET p == IF pos <= Len(argv) /\ argv[pos] = DD THEN pos + 1 ELSE pos IN
       /\ pos' = p
       /\ res' = [ok |-> TRUE, opts |-> occ, p |-> p, err |-> "", at |-> 0]
  /\ pc' = "done"
  /\ UNCHANGED <<specs, mode, argv, fld, ci, occ>>

Done == pc = "done" /\ UNCHANGED vars

Next ==
  \/ GenAppend \/ Start
  \/ ShortNone \/ ShortTake \/ CharsEnd \/ CharUnknown \/ CharNonPortable \/ CharPlain
  \/ CharArgNext \/ CharArgMissing \/ CharArgUnseparated \/ CharArgAttached
  \/ LongNone \/ LongNonPortable \/ LongUnknown \/ LongAmbiguous \/ LongPlain
  \/ LongUnexpected \/ LongArgNext \/ LongArgMissing \/ LongArgEq
  \/ Finish \/ Done

Spec == Init /\ [][Next]_vars

\* ---- what TLC checks ------------------------------------------------------
TablesOK == WellFormed(specs)

Agree ==
  pc = "done" =>
    LET r == Parse(specs, mode, argv) IN
    IF res.ok THEN r.ok /\ r.opts = res.opts /\ r.p = res.p
    ELSE ~r.ok /\ res.err \in r.errs /\ res.at = r.at

OnlySpellings ==
  (CheckSpellings /\ pc = "done" /\ res.ok) =>
    LET r == Parse(specs, mode, argv) IN
    argv \in Spellings(specs, mode, Canon(argv, r))
=============================================================================
