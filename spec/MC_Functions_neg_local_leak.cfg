\* negative configuration: the wrong variant "local_leak" must be refuted by P_CallRestores
SPECIFICATION Spec
CONSTANTS
  MaxDepth = 4
  Variant = "local_leak"
  Fams = {"vars"}
  LB = 1
  LM = 1
  Wide = {}
  Stepwise = TRUE
PROPERTY P_CallRestores
