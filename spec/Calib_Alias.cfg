SPECIFICATION CalibSpec
CONSTANTS
  NameSeq <- NameSeq3
  GlobalNames = {}
  LineFam = "l"
  Prune = FALSE
