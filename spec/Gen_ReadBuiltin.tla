-------------------------- MODULE Gen_ReadBuiltin --------------------------
(***************************************************************************)
(* spec -> impl enumeration for G05.  TLC's breadth-first search is the    *)
(* enumerator: a state is (family, -d operand, input so far); Next appends *)
(* one token of the family's alphabet.  For every state the invariant Emit *)
(* prints ONE JSON line: the input and, for every case of the family's fan *)
(* (raw mode x IFS value x variable operands), what ReadBuiltin!Expect     *)
(* demands.  harness/g05 feeds the input to the real `read` on descriptor  *)
(* 0 (regular file, pipe in chunks, here-document) and compares status,    *)
(* variables and what is left on the descriptor.                           *)
(*                                                                         *)
(* Families (constant Fams selects; Deep = 0, 1, 2 is added to the lengths):                   *)
(*   core    default delimiter; {a, space, ':', backslash, newline}        *)
(*   wide    default delimiter; {a, b, space, ':', backslash, newline,     *)
(*           tab, two-byte character}                                      *)
(*   delim   -d ':' / '' / '\' / ' ' / newline;                            *)
(*           {a, ':', backslash, newline, NUL, space}                      *)
(*   bytes   no -d / -d ''; {a, NUL, ill-formed bytes, three-byte          *)
(*           character, newline, backslash}                                *)
(*   long    default delimiter; {a, space, newline}, longer inputs         *)
(*   errs    read-only variables, invalid names, no operand, invalid       *)
(*           delimiters; {a, space, newline}                               *)
(*   noin    descriptor 0 closed                                           *)
(*   pipe    default delimiter; {a, space, newline, two-, three- and       *)
(*           four-byte character}: the family of the stage run by C14      *)
(*           (checks.g05.run_stage), fed through a pipe in chunks of 1, 2  *)
(*           and 3 bytes so that short reads split the characters          *)
(* Laws checks the theorems of ReadBuiltin.tla on every state.             *)
(***************************************************************************)
EXTENDS ReadBuiltin, Json, IOUtils

CONSTANTS Fams, Deep

VARIABLE st
vars == <<st>>

IfsTable == << [set |-> FALSE, v |-> ""], [set |-> TRUE, v |-> ""], [set |-> TRUE, v |-> " "],
               [set |-> TRUE, v |-> ":"], [set |-> TRUE, v |-> " :"], [set |-> TRUE, v |-> ":\\"] >>
IfsVal(i) == [set |-> IfsTable[i].set, v |-> Chars(IfsTable[i].v)]

Alpha(f) ==
  CASE f = "core"  -> {"a", " ", ":", BSL, NL}
    [] f = "wide"  -> {"a", "b", " ", ":", BSL, NL, "\t", "W2"}
    [] f = "delim" -> {"a", ":", BSL, NL, NUL, " "}
    [] f = "bytes" -> {"a", NUL, BAD, CUT, "W3", "W4", NL, BSL}
    [] f = "pipe"  -> {"a", " ", NL, "W2", "W3", "W4"}
    [] f = "long"  -> {"a", " ", NL}
    [] f = "errs"  -> {"a", " ", NL}
    [] f = "noin"  -> {}
MaxLen(f) ==
  CASE f = "core"  -> 4 + Deep
    [] f = "wide"  -> 3 + Deep
    [] f = "delim" -> 3 + Deep
    [] f = "bytes" -> 2 + Deep
    [] f = "pipe"  -> 3 + Deep
    [] f = "long"  -> 6 + Deep
    [] f = "errs"  -> 3
    [] f = "noin"  -> 0
Delims(f) ==
  CASE f = "delim" -> {":", "", BSL, " ", NL}
    [] f = "bytes" -> {NoD, ""}
    [] f = "errs"  -> {NoD, "W2", "ab"}
    [] OTHER -> {NoD}
(* the fan: << raw, index into IfsTable, kinds of the variable operands >> *)
Kinds(f) == IF f \in {"errs", "noin"} THEN << <<>>, <<"b">>, <<"o", "b">>, <<"r">>, <<"o", "r">>, <<"r", "o">>, <<"o", "r", "o">>, <<"o", "o">> >>
            ELSE IF f = "pipe" THEN << <<"o">>, <<"o", "o">> >>
            ELSE << <<"o">>, <<"o", "o">>, <<"o", "o", "o">> >>
IfsIdx(f) == IF f \in {"errs", "bytes", "noin"} THEN <<1, 5>> ELSE IF f = "pipe" THEN <<1, 2>> ELSE IF f = "long" THEN <<1, 2, 5>> ELSE <<1, 2, 3, 4, 5, 6>>

Init == \E f \in Fams : \E d \in Delims(f) : st = [fam |-> f, d |-> d, inp |-> <<>>]
Next == /\ Len(st.inp) < MaxLen(st.fam)
        /\ \E c \in Alpha(st.fam) : st' = [st EXCEPT !.inp = Append(@, c)]
Spec == Init /\ [][Next]_vars

RECURSIVE SeqOfSet(_)
SeqOfSet(S) == IF S = {} THEN <<>> ELSE LET e == CHOOSE e \in S : TRUE IN <<e>> \o SeqOfSet(S \ {e})
RECURSIVE AsSeq(_, _)
AsSeq(f, i) == IF i > Len(f) THEN <<>> ELSE <<f[i]>> \o AsSeq(f, i + 1)
RECURSIVE Cat(_, _)
Cat(q, i) == IF i > Len(q) THEN "" ELSE q[i] \o Cat(q, i + 1)

Case(s, raw, fi, vk) ==
  LET e == IF s.fam = "noin" THEN ExpectUnreadable(Opt(raw, s.d), vk)
           ELSE Expect(Opt(raw, s.d), IfsVal(fi), vk, s.inp)
  IN [r |-> raw, f |-> fi, k |-> Cat(vk, 1), c |-> e.class, s |-> e.st, lo |-> e.lo, hi |-> e.hi, m |-> e.m,
      o |-> SeqOfSet({AsSeq(v, 1) : v \in e.vals}), t |-> SeqOfSet(e.tags)]

Cases(s) ==
  LET K == Kinds(s.fam)
      F == IfsIdx(s.fam)
      nK == Len(K)
      nF == Len(F)
      \* index 0 .. 2*nF*nK - 1  ->  (raw, ifs, kinds)
      At(j) == Case(s, (j \div (nF * nK)) = 1, F[((j \div nK) % nF) + 1], K[(j % nK) + 1])
  IN AsSeq([j \in 1..(2 * nF * nK) |-> At(j - 1)], 1)

Out(s) == [fam |-> s.fam, d |-> s.d, inp |-> s.inp, ifs |-> IfsTable, cases |-> Cases(s)]

Emit == PrintT(ToJson(Out(st)))

---------------------------------------------------------------------------
Laws ==
  LET s == st
      F == IfsIdx(s.fam)
  IN s.fam \notin {"errs", "noin"} =>
     /\ \A raw \in BOOLEAN :
          LET o == Opt(raw, s.d)
              sc == Scan(s.inp, o)
          IN /\ \A j \in DOMAIN F : \A n \in 1..3 :
                  /\ ThSameAsSplit(sc.line, n, IfsVal(F[j]))
                  /\ ThLocal(o, IfsVal(F[j]), n, s.inp)
             /\ \A n \in 1..3 : ThEmptyIfs(o, n, s.inp)
             /\ \A j \in DOMAIN F : ThSurplusEmpty(o, IfsVal(F[j]), s.inp)
     /\ \A j \in DOMAIN F : \A n \in 1..2 : ThRawSame(Opt(TRUE, s.d), IfsVal(F[j]), n, s.inp)
     /\ s.d = NoD => \A j \in DOMAIN F : \A n \in 1..2 : ThJoin(IfsVal(F[j]), n, s.inp)
=============================================================================
