INIT Init
NEXT Next
VIEW view
CONSTANTS
  PNorm <- AlphaClass
  PLit <- NoChars
  PMacro <- ClassMacros
  PLen = 5
  SAlpha <- StrClass
  SLen = 3
  Kind = "match"
INVARIANT Emit
