INIT Init
NEXT Next
CONSTANTS
  Variant = "lp_unanchored_off"
INVARIANT C_LpUnanch
