---------------------------- MODULE Calib_Startup ----------------------------
(***************************************************************************)
(* Calibration of the G09 oracle (DESIGN.md 4.4): the examples of the      *)
(* manual (startup.md, interactive/README.md, language/parameters/*.md,    *)
(* environment/options.md, termination.md) and the repository's scripted   *)
(* tests startup-p.sh, startup-y.sh, exit-p.sh, trap-p.sh, trap-y.sh,      *)
(* error-p.sh, error-y.sh, lineno-p.sh, ppid-p.sh, transcribed by hand     *)
(* (they cannot run in this sandbox).  Where a test uses a value outside   *)
(* the model's alphabet the nearest one is used and said so (`exit 3` for  *)
(* `exit 17`, `(exit 7)` for `(exit 5)`, /w/rc1 for ${PWD%/}/env ...).     *)
(* A failing ASSUME is a tool error (the oracle is wrong), never a         *)
(* violation.                                                              *)
(***************************************************************************)
EXTENDS Startup

AllFiles == <<"rc1", "rc2", "rc3", "scr", "dscr", "pa", "prof">>
B == [a0 |-> "yash", opts |-> <<>>, sep |-> "", ops |-> <<>>, tin |-> FALSE, terr |-> FALSE, ids |-> "same", env |-> <<>>,
      files |-> AllFiles, prog |-> <<>>, trap |-> ""]
C(opts, ops, prog) == [B EXCEPT !.opts = opts, !.ops = ops, !.prog = prog]
T(trap, prog) == [B EXCEPT !.trap = trap, !.prog = prog]                    \* script on standard input
I(trap, prog) == [B EXCEPT !.opts = <<"-i", "+m">>, !.trap = trap, !.prog = prog]
One(sc) == Expect(sc).alts[1]
Exits(sc, out, st) == Expect(sc).class = "ok" /\ Len(Expect(sc).alts) = 1 /\ One(sc).out = out /\ One(sc).lo = st /\ One(sc).hi = st /\ One(sc).sig = 0
Fails(sc, out) == Expect(sc).class = "ok" /\ One(sc).out = out /\ One(sc).lo = 1 /\ One(sc).hi = 125

\* --- startup-p.sh ------------------------------------------------------------
\* 'one operand with -c': -c 'exit 17'   (exit 3)
ASSUME Exits(C(<<"-c">>, <<"@P">>, <<"exit3">>), <<>>, 3)
\* 'two operands with -c': -c '...' 'command  name' -> [command  name], no positional parameter
ASSUME LET m == Meaning(C(<<"-c">>, <<"@P", "command  name">>, <<>>)) IN m.arg0 = "command  name" /\ m.params = <<>> /\ m.src = "string"
\* 'one positional parameter with -c': 0 1
ASSUME LET m == Meaning(C(<<"-c">>, <<"@P", "0", "1">>, <<>>)) IN m.arg0 = "0" /\ m.params = <<"1">>
\* 'many positional parameters with -c'
ASSUME Meaning(C(<<"-c">>, <<"@P", "0", "1", "2  2", "3", "4", "-", "6">>, <<>>)).params = <<"1", "2  2", "3", "4", "-", "6">>
\* 'no operands with -s' / 'one operand with -s' / 'two operands with -s'
ASSUME LET m == Meaning(C(<<"-s">>, <<>>, <<>>)) IN m.src = "stdin" /\ m.params = <<>>
ASSUME Meaning(C(<<"-s">>, <<"1  1">>, <<>>)).params = <<"1  1">>
ASSUME Meaning(C(<<"-s">>, <<"1  1", "2">>, <<>>)).params = <<"1  1", "2">>
\* '$0 with -s': [$TESTEE]
ASSUME Meaning([C(<<"-s">>, <<"X">>, <<>>) EXCEPT !.a0 = "/path/to/testee"]).arg0 = "/path/to/testee"
\* 'reading file with one positional parameter': "$input" '1  1'; the file says exit 3
ASSUME LET m == Meaning(C(<<>>, <<"./scr", "1  1">>, <<>>)) IN m.src = "file" /\ m.arg0 = "./scr" /\ m.params = <<"1  1">>
ASSUME Exits(C(<<>>, <<"./scr", "1  1">>, <<"echo", "exit3", "echo">>), <<"L:0">>, 3)
\* 'reading non-existing file': -d -e 127
ASSUME LET e == Expect(C(<<>>, <<"d/nos">>, <<"echo">>)) IN e.class = "ok" /\ e.alts[1].lo = 127 /\ e.alts[1].hi = 127 /\ e.alts[1].err = "nonempty" /\ e.alts[1].out = <<>>
\* 'first operand is ignored if it is a hyphen / double-hyphen' (-c; no -c or -s)
ASSUME LET m == Meaning([C(<<"-c">>, <<"@P">>, <<>>) EXCEPT !.sep = "-"]) IN m.src = "string" /\ m.cmd = "@P" /\ ~m.usage
ASSUME LET m == Meaning([C(<<"-c">>, <<"@P">>, <<>>) EXCEPT !.sep = "--"]) IN m.src = "string" /\ m.cmd = "@P"
ASSUME Meaning([B EXCEPT !.sep = "-"]).src = "stdin" /\ Meaning([B EXCEPT !.sep = "--"]).src = "stdin"

\* --- startup-y.sh ------------------------------------------------------------
\* 'startup: no argument': echo $- -> s;  'startup: -c' -> c
ASSUME Flags(OptionsOf(B)) = "s" /\ Flags(OptionsOf(C(<<"-c">>, <<"@P">>, <<>>))) = "c"
\* 'startup: -ci +m ...' -> ci;  '-cil +m' -> cil
ASSUME Flags(OptionsOf(C(<<"-c", "-i", "+m">>, <<"@P">>, <<>>))) = "ci"
ASSUME Flags(OptionsOf(C(<<"-c", "-i", "-l", "+m">>, <<"@P">>, <<>>))) = "cil"
\* 'startup: -abCcefhluvx' (the letters of this model: a c e l)
ASSUME Flags(OptionsOf(C(<<"-a", "-c", "-e", "-l">>, <<"@P">>, <<>>))) = "acel"
\* 'first operand is ignored if it is a hyphen (-s)': -s - -- 2; echo $- "$2" "$1" -> s 2 --
ASSUME LET sc == [C(<<"-s">>, <<"--", "2">>, <<>>) EXCEPT !.sep = "-"] IN Meaning(sc).params = <<"--", "2">> /\ Flags(OptionsOf(sc)) = "s"
\* 'first operand is ignored if it is a hyphen (no -c or -s)': echo $- $# -> s 0
ASSUME LET sc == [B EXCEPT !.sep = "-"] IN Flags(OptionsOf(sc)) = "s" /\ Meaning(sc).params = <<>>
\* 'missing command with -c', 'options -c and -s are mutually exclusive': -e 2, a message
ASSUME Expect(C(<<"-c">>, <<>>, <<"echo">>)).class = "usage" /\ One(C(<<"-c">>, <<>>, <<"echo">>)).lo = 2 /\ One(C(<<"-c">>, <<>>, <<"echo">>)).err = "nonempty"
ASSUME Expect(C(<<"-c", "-s">>, <<"echo XXX">>, <<>>)).class = "usage"
\* 'startup: --posix -c' with ENV set: no rcfile;  '--posix -ci +m': env, then ci   (/w/rc1 for ${PWD%/}/env)
ASSUME RcPlan([C(<<"--posixlycorrect", "-c">>, <<"@P">>, <<>>) EXCEPT !.env = <<<<"ENV", "/w/rc1">>>>]).k = "none"
ASSUME RcPlan([C(<<"--posixlycorrect", "-c", "-i", "+m">>, <<"@P">>, <<>>) EXCEPT !.env = <<<<"ENV", "/w/rc1">>>>]) = [k |-> "file", f |-> "rc1"]
\* '... with unset ENV' -> ci only;  '... with non-existing ENV' -> ci, diagnostics allowed
ASSUME RcPlan(C(<<"--posixlycorrect", "-c", "-i", "+m">>, <<"@P">>, <<>>)).k = "none"
ASSUME RcPlan([C(<<"-c", "-i", "+m">>, <<"@P">>, <<>>) EXCEPT !.env = <<<<"ENV", "/w/norc">>>>]).k = "missing"
ASSUME LET sc == [C(<<"-c", "-i", "+m">>, <<"@P">>, <<"echo">>) EXCEPT !.env = <<<<"ENV", "/w/norc">>>>] IN Exits(sc, <<"L:0">>, 0)
\* 'shell invocation accepts +i under the portable option'; rejects -l, --norcfile; accepts what precedes -o portable
ASSUME ~Meaning(C(<<"portable", "+i">>, <<>>, <<>>)).usage
ASSUME Meaning(C(<<"portable", "-l">>, <<>>, <<>>)).usage /\ Meaning(C(<<"portable", "norc">>, <<>>, <<>>)).usage
\* startup.md: yash3 --rcfile myrc -o portable myscript (accepted); yash3 -o portable --rcfile myrc myscript (rejected)
ASSUME ~Meaning(C(<<"rc1", "portable">>, <<"scr">>, <<>>)).usage /\ Meaning(C(<<"portable", "rc1">>, <<"scr">>, <<>>)).usage
\* 'portable option ignores environment variable with non-portable name' / 'disabled portable option imports ...'
ASSUME ~Imported([C(<<"portable", "-c">>, <<"@P">>, <<>>) EXCEPT !.env = <<<<"a-b", "1">>>>], "a-b")
ASSUME Imported([C(<<"-c">>, <<"@P">>, <<>>) EXCEPT !.env = <<<<"a-b", "1">>>>], "a-b")
\* 'shell invocation accepts non-POSIX short option without the portable option' -l: $- has l
ASSUME OptionsOf(C(<<"-l">>, <<>>, <<>>)).login

\* --- the manual ----------------------------------------------------------------
\* interactive/README.md: `yash3` in a terminal; not with +i; `yash3 -i`
ASSUME OptionsOf([B EXCEPT !.tin = TRUE, !.terr = TRUE]).interactive
ASSUME ~OptionsOf([B EXCEPT !.tin = TRUE, !.terr = FALSE]).interactive /\ ~OptionsOf([B EXCEPT !.tin = FALSE, !.terr = TRUE]).interactive
ASSUME ~OptionsOf([B EXCEPT !.tin = TRUE, !.terr = TRUE, !.opts = <<"+i">>]).interactive
ASSUME OptionsOf(C(<<"-i">>, <<>>, <<>>)).interactive /\ OptionsOf(C(<<"-i">>, <<"scr">>, <<>>)).interactive
\* "the -s option is active, either explicitly or implicitly": a script operand on a terminal is not interactive
ASSUME ~OptionsOf([C(<<>>, <<"scr">>, <<>>) EXCEPT !.tin = TRUE, !.terr = TRUE]).interactive
ASSUME OptionsOf([C(<<"-s">>, <<"x">>, <<>>) EXCEPT !.tin = TRUE, !.terr = TRUE]).interactive
\* options.md: monitor "Enabled by default in interactive shells"; special.md: "if -i and -m are set, the value is im"
ASSUME OptionsOf(C(<<"-i">>, <<>>, <<>>)).monitor /\ ~OptionsOf(C(<<"-i", "+m">>, <<>>, <<>>)).monitor /\ OptionsOf(C(<<"-m">>, <<>>, <<>>)).monitor
ASSUME Flags(OptionsOf(C(<<"-i">>, <<"scr">>, <<>>))) = "im"
\* options.md, `set -o` of a plain invocation: stdin on; cmdline, interactive, login, monitor, errexit, allexport off
ASSUME OnList(OptionsOf(B)) = <<"stdin">>
\* options.md: posixlycorrect "Enabled on startup if the shell is started as sh"; startup.md: login by a leading hyphen
ASSUME OptionsOf([B EXCEPT !.a0 = "sh"]).posixlycorrect /\ OptionsOf([B EXCEPT !.a0 = "/bin/sh"]).posixlycorrect /\ ~OptionsOf([B EXCEPT !.a0 = "/bin/yash"]).posixlycorrect
ASSUME OptionsOf([B EXCEPT !.a0 = "-yash3"]).login /\ ~OptionsOf(B).login
\* positional.md: yash3 script.sh arg1 arg2 arg3;  yash3 -c '...' arg0 arg1 arg2;  yash3 -s arg1 arg2 arg3
ASSUME Meaning(C(<<>>, <<"scr", "arg1", "arg2", "arg3">>, <<>>)).params = <<"arg1", "arg2", "arg3">>
ASSUME LET m == Meaning(C(<<"-c">>, <<"@P", "arg0", "arg1", "arg2">>, <<>>)) IN m.arg0 = "arg0" /\ m.params = <<"arg1", "arg2">>
ASSUME Meaning(C(<<"-s">>, <<"arg1", "arg2", "arg3">>, <<>>)).params = <<"arg1", "arg2", "arg3">>
\* startup.md: the rcfile needs an interactive shell and equal real / effective ids; --norcfile; --rcfile
ASSUME RcPlan([C(<<"-i", "rc2">>, <<>>, <<>>) EXCEPT !.ids = "uid"]).k = "none" /\ RcPlan([C(<<"-i", "rc2">>, <<>>, <<>>) EXCEPT !.ids = "gid"]).k = "none"
ASSUME RcPlan(C(<<"-i", "rc2">>, <<>>, <<>>)) = [k |-> "file", f |-> "rc2"] /\ RcPlan(C(<<"rc2">>, <<>>, <<>>)).k = "none"
ASSUME RcPlan([C(<<"-i", "norc">>, <<>>, <<>>) EXCEPT !.env = <<<<"ENV", "/w/rc1">>>>]).k = "none"
\* "its value is expanded for parameter expansion, command substitution, and arithmetic expansion"
ASSUME RcPlan([C(<<"-i">>, <<>>, <<>>) EXCEPT !.env = <<<<"RCD", "/w/d">>, <<"ENV", "$RCD/rc2">>>>]) = [k |-> "file", f |-> "rc2"]
ASSUME RcPlan([C(<<"-i">>, <<>>, <<>>) EXCEPT !.env = <<<<"ENV", "/w/rc$((1+2))">>>>]) = [k |-> "file", f |-> "rc3"]
\* the rcfile runs first, in the current environment (its variable is seen by the main program)
ASSUME LET sc == C(<<"-i", "+m", "rc2">>, <<"scr", "p1">>, <<"obs">>)
       IN One(sc).out[1] = "R2 1=p1" /\ One(sc).out[2] = "0=scr #=1 1=p1 2= rcv=r2" /\ One(sc).out[3] = "-=i"
\* termination.md "EXIT trap": trap '...; echo "Temporary file removed."' EXIT ... exit
ASSUME Exits(T("t", <<"true", "exit">>), <<"T:0">>, 0)
\* exit_status.md: "If no commands have been executed, the exit status is 0"
ASSUME Exits(T("", <<>>), <<>>, 0) /\ Exits(C(<<"-c">>, <<"@P">>, <<>>), <<>>, 0)
\* exit_status.md: killed by SIGTERM -> 384 + 15, and the shell kills itself with the same signal
ASSUME LET a == One(T("t", <<"sig", "echo", "sig">>)) IN a.out = <<"L:399", "T:399">> /\ a.sig = 15

\* --- exit-p.sh (scripts on standard input) --------------------------------------
ASSUME Exits(T("", <<"exit3">>), <<>>, 3)                       \* 'exiting with 17'
ASSUME Exits(T("", <<"st7">>), <<>>, 7)                         \* 'exiting with 19 in subshell'
ASSUME Exits(T("", <<"exit">>), <<>>, 0)                        \* 'default exit status without previous command'
ASSUME Exits(T("", <<"true", "exit">>), <<>>, 0)                \* '... with previous succeeding command'
ASSUME Exits(T("", <<"st7", "exit">>), <<>>, 7)                 \* '... with previous failing command'
ASSUME Exits(T("t", <<"exit3">>), <<"T:3">>, 3)                 \* 'exiting with EXIT trap': trap 'echo TRAP' EXIT; exit 19
ASSUME Exits(T("te", <<"st7", "exit">>), <<"T:7">>, 7)          \* 'exit status with EXIT trap': trap '(exit 2)' EXIT; (exit 1); exit
ASSUME Exits(T("tx5", <<"exit3">>), <<"T:3">>, 5)               \* 'exiting from EXIT trap with 7': trap 'exit 7' EXIT; exit 1
ASSUME Exits(T("tx", <<"st7", "exit">>), <<"T:7">>, 7)          \* 'default exit status in EXIT trap in exiting with default'
ASSUME Exits(T("tfx", <<"st7", "exit">>), <<"T:7">>, 7)         \* trap '(exit 1); exit' EXIT; (exit 2); exit -> 2
ASSUME Exits(T("tx", <<"exit3">>), <<"T:3">>, 3)                \* 'default exit status in EXIT trap in exiting with 1'
\* --- trap-p.sh / trap-y.sh ---------------------------------------------------------
ASSUME Exits(T("tf", <<"echo">>), <<"L:0", "T:0">>, 0)          \* 'setting trap for EXIT (EOF)': trap 'echo trapped; false' EXIT
ASSUME Exits(T("te", <<"exit3">>), <<"T:3">>, 3)                \* 'setting trap for EXIT (exit built-in)': trap '...; (exit 9)'; exit 7
ASSUME Exits(T("tf", <<>>), <<"T:0">>, 0)                       \* 'exit status of EXIT trap does not affect exit status of shell'
\* 'trap for EXIT is executed just once': -c / -ce 'trap ... EXIT; ./_no_such_command_ [; :]'
ASSUME Exits([C(<<"-c">>, <<"@P">>, <<"notfound">>) EXCEPT !.trap = "t"], <<"T:127">>, 127)
ASSUME Exits([C(<<"-c", "-e">>, <<"@P">>, <<"notfound">>) EXCEPT !.trap = "t"], <<"T:127">>, 127)
ASSUME Exits([C(<<"-c">>, <<"@P">>, <<"notfound", "true">>) EXCEPT !.trap = "t"], <<"T:0">>, 0)
ASSUME Exits([C(<<"-c", "-e">>, <<"@P">>, <<"notfound", "true">>) EXCEPT !.trap = "t"], <<"T:127">>, 127)
\* --- error-p.sh / error-y.sh -------------------------------------------------------
ASSUME Fails(T("", <<"synerr", "echo">>), <<>>)                 \* 'syntax error kills non-interactive shell' (error-y: 2)
ASSUME Exits(I("", <<"synerr", "echo">>), <<"L:@NZ">>, 0)       \* 'syntax error spares interactive shell' -i +m
ASSUME Exits(T("", <<"credir", "echo">>), <<"L:@NZ">>, 0)       \* 'redirection error on compound command spares non-interactive shell'
ASSUME Exits(I("", <<"credir", "echo">>), <<"L:@NZ">>, 0)       \* '... spares interactive shell'
ASSUME Fails(T("", <<"experr", "echo">>), <<>>)                 \* 'expansion error kills non-interactive shell'
ASSUME Exits(I("", <<"experr", "echo">>), <<"L:@NZ">>, 0)       \* 'expansion error spares interactive shell'
ASSUME Exits(T("", <<"notfound">>), <<>>, 127)                  \* 'command not found': -e 127
ASSUME Fails(T("", <<"asgerr", "echo">>), <<>>)                 \* 'assignment error without command kills non-interactive shell'
ASSUME Exits(I("", <<"asgerr", "echo">>), <<"L:@NZ">>, 0)       \* '... spares interactive shell'
\* --- lineno-p.sh, ppid-p.sh ----------------------------------------------------------
\* 'LINENO starts from 1', 'LINENO increments for each line' (-s): the LINENO line is the 3rd line of the observation
ASSUME ObsOut(T("", <<"obs">>))[3] = "P=@PPID O=1 L=3" /\ ObsOut(T("", <<"true", "obs">>))[3] = "P=@PPID O=1 L=4"
ASSUME ObsOut(T("t", <<"true", "true", "obs">>))[3] = "P=@PPID O=1 L=6"
\* XCU 2.5.3 defaults
ASSUME ObsOut(T("", <<"obs">>))[4] = "1[$ ] 2[> ] 4[+ ] I[ \t"
\* matching of patterns
ASSUME MatchLine("L:@NZ", "L:2") /\ MatchLine("L:@NZ", "L:125") /\ ~MatchLine("L:@NZ", "L:0") /\ ~MatchLine("L:@NZ", "L:126") /\ ~MatchLine("L:@NZ", "L:")
ASSUME MatchLine("T:3", "T:3") /\ ~MatchLine("T:3", "T:30")

VARIABLE dummy
Init == dummy = 0
Next == UNCHANGED dummy
=============================================================================
