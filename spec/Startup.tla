------------------------------ MODULE Startup ------------------------------
(***************************************************************************)
(* G09 - invocation, initialisation and termination of the shell: what a   *)
(* parsed command line MEANS, what the shell does before it reads the      *)
(* first command, and how and with what status it terminates.              *)
(*                                                                         *)
(* Written from                                                            *)
(*   POSIX.1-2024 XCU sh (SYNOPSIS, OPTIONS -c -i -s, OPERANDS, STDIN,     *)
(*     ENVIRONMENT VARIABLES ENV, EXIT STATUS), XCU 2.5.2 / 2.5.3 (special *)
(*     parameter 0, IFS, LINENO, OPTIND via getopts, PPID, PS1, PS2, PS4,  *)
(*     PWD), XCU 2.8.1 (consequences of shell errors), 2.8.2, 2.15 exit,   *)
(*     exec, dot, trap (EXIT condition),                                   *)
(*   the manual: docs/src/startup.md, termination.md, interactive/         *)
(*     README.md, environment/options.md, environment/traps.md,            *)
(*     language/parameters/{special,positional,variables}.md,              *)
(*     language/commands/exit_status.md, builtins/{exit,exec,trap}.md.     *)
(* Not written from the code.  Option SYNTAX (spellings, abbreviations,    *)
(* grouping) belongs to C20 (OptParse.tla): here a command line is a       *)
(* sequence of option ITEMS with one fixed spelling each.                  *)
(*                                                                         *)
(* A scenario is the whole input of one shell invocation:                  *)
(*   a0     argv[0]                                                        *)
(*   opts   option items (names of the table Item), in command-line order  *)
(*   sep    "" / "-" / "--"   the argument ending the options, if any      *)
(*   ops    operands; "@P" stands for the text of the main program         *)
(*   tin, terr   standard input / standard error is a terminal             *)
(*   ids    "same" / "uid" / "gid"  real and effective ids equal / differ  *)
(*   env    environment, a sequence of <<name, value>>                     *)
(*   files  ids of the files that exist (table FilePath)                   *)
(*   prog   main program: a sequence of command kinds (table Line)         *)
(*   trap   kind of the EXIT trap the main program sets first ("" = none)  *)
(* Expect(sc) is what the specification allows to be observed: the lines   *)
(* on standard output, the exit status (a range), death by signal, the     *)
(* class of standard error; a set of alternatives where POSIX leaves a     *)
(* choice, class "unspec" where neither POSIX nor the manual decides.      *)
(***************************************************************************)
EXTENDS Naturals, Integers, Sequences, FiniteSets, TLC

\* "" = the specification.  Any other value selects a named WRONG variant of one
\* rule (see the places where Variant is tested); the negative configurations
\* Gen_Startup_neg_*.cfg show that the laws at the end of this module refute it.
CONSTANT Variant

\* ------------------------------------------------------------------ strings
At(s, i) == SubSeq(s, i, i)
StartsWith(s, p) == Len(s) >= Len(p) /\ SubSeq(s, 1, Len(p)) = p
EndsWith(s, p) == Len(s) >= Len(p) /\ SubSeq(s, Len(s) - Len(p) + 1, Len(s)) = p
HasSlash(s) == \E i \in 1..Len(s) : At(s, i) = "/"
RECURSIVE BaseFrom(_, _)
BaseFrom(s, i) == IF i = 0 THEN s ELSE IF At(s, i) = "/" THEN SubSeq(s, i + 1, Len(s)) ELSE BaseFrom(s, i - 1)
BaseName(s) == BaseFrom(s, Len(s))
RECURSIVE JoinWith(_, _)
JoinWith(seq, sep) == IF seq = <<>> THEN "" ELSE IF Len(seq) = 1 THEN seq[1] ELSE seq[1] \o sep \o JoinWith(Tail(seq), sep)
RECURSIVE Flat(_)
Flat(ss) == IF ss = <<>> THEN <<>> ELSE Head(ss) \o Flat(Tail(ss))
Has(seq, x) == \E i \in DOMAIN seq : seq[i] = x
\* last element of seq that lies in set S ("" if none)
RECURSIVE LastIn(_, _)
LastIn(seq, S) == IF seq = <<>> THEN "" ELSE IF seq[Len(seq)] \in S THEN seq[Len(seq)] ELSE LastIn(SubSeq(seq, 1, Len(seq) - 1), S)
SelectIn(seq, S) == SelectSeq(seq, LAMBDA x : x \in S)
TAB == "\t"
NL == "\n"

\* ------------------------------------------------- the simulated file tree
\* The working directory of every scenario is /w.
Cwd == "/w"
PathDir == "/w/pathdir"
FileIds == {"rc1", "rc2", "rc3", "scr", "dscr", "pa", "prof"}
FilePath(f) == CASE f = "rc1" -> "/w/rc1"
                 [] f = "rc2" -> "/w/d/rc2"
                 [] f = "rc3" -> "/w/rc3"
                 [] f = "scr" -> "/w/scr"
                 [] f = "dscr" -> "/w/d/scr"
                 [] f = "pa" -> "/w/pathdir/pa"
                 [] f = "prof" -> "/w/prof"
\* initialisation files: fixed contents (markers on standard output, a variable
\* that the main program can see, an `exit`)
RcLines(f) == CASE f = "rc1" -> <<"echo \"R1 0=$0 #=$#\"", "echo \"-=$-\"", "RCV=r1">>
                [] f = "rc2" -> <<"echo \"R2 1=$1\"", "RCV=r2">>
                [] f = "rc3" -> <<"echo R3", "exit 3", "echo R3b">>
                [] f = "prof" -> <<"echo PROFILE">>
\* script operands: spelling on the command line -> file id ("" = no such file)
ScriptOps == {"scr", "d/scr", "./scr", "pa", "nos", "d/nos"}
ScriptFile(o) == CASE o = "scr" -> "scr" [] o = "./scr" -> "scr" [] o = "d/scr" -> "dscr" [] o = "pa" -> "pa" [] OTHER -> ""

\* ------------------------------------------------------- option items
\* Shell options an item sets: <<option, state>>
ShellItems == {"-c", "-s", "-i", "+i", "-m", "+m", "-e", "-l", "-a", "--posixlycorrect", "portable"}
RcItems == {"rc1", "rc2", "rc3", "rcno", "norc"}
ProfItems == {"prof", "noprof"}
BadItems == {"-Z", "--bogus"}
Items == ShellItems \cup RcItems \cup ProfItems \cup BadItems
ItemOpt(n) == CASE n = "-c" -> <<"cmdline", TRUE>>
                [] n = "-s" -> <<"stdin", TRUE>>
                [] n = "-i" -> <<"interactive", TRUE>>
                [] n = "+i" -> <<"interactive", FALSE>>
                [] n = "-m" -> <<"monitor", TRUE>>
                [] n = "+m" -> <<"monitor", FALSE>>
                [] n = "-e" -> <<"errexit", TRUE>>
                [] n = "-l" -> <<"login", TRUE>>
                [] n = "-a" -> <<"allexport", TRUE>>
                [] n = "--posixlycorrect" -> <<"posixlycorrect", TRUE>>
                [] n = "portable" -> <<"portable", TRUE>>
\* the one spelling of an item (startup.md "Options", options.md)
ItemArgv(n) == CASE n = "portable" -> <<"-o", "portable">>
                 [] n = "rc1" -> <<"--rcfile", "/w/rc1">>
                 [] n = "rc2" -> <<"--rcfile", "/w/d/rc2">>
                 [] n = "rc3" -> <<"--rcfile", "/w/rc3">>
                 [] n = "rcno" -> <<"--rcfile", "/w/norc">>
                 [] n = "norc" -> <<"--norcfile">>
                 [] n = "prof" -> <<"--profile", "/w/prof">>
                 [] n = "noprof" -> <<"--noprofile">>
                 [] OTHER -> <<n>>
RcItemFile(n) == CASE n = "rc1" -> "rc1" [] n = "rc2" -> "rc2" [] n = "rc3" -> "rc3" [] OTHER -> ""
\* startup.md "Compatibility" (since 3.3.5): what must not FOLLOW `-o portable`
NonPortableItem(n) == n \in RcItems \cup ProfItems \cup {"-l", "--posixlycorrect"}

\* ---------------------------------------------------- environment values
EnvGet(env, name) == LET hits == SelectSeq(env, LAMBDA p : p[1] = name)
                     IN IF hits = <<>> THEN [set |-> FALSE, v |-> ""] ELSE [set |-> TRUE, v |-> hits[Len(hits)][2]]
\* values of ENV the model understands, with their parameter expansion
\* (XCU sh, ENV: "shall be subjected to parameter expansion"; startup.md adds
\* command substitution and arithmetic expansion); "?" = not in the model
EnvValues == {"", "/w/rc1", "$RCD/rc2", "${NORC-/w/rc1}", "/w/rc$((1+2))", "/w/norc", "${RCD}/rc2"}
ExpandENV(v, env) ==
  LET rcd == EnvGet(env, "RCD").v
  IN CASE v = "" -> ""
       [] v = "/w/rc1" -> "/w/rc1"
       [] v = "$RCD/rc2" -> rcd \o "/rc2"
       [] v = "${RCD}/rc2" -> rcd \o "/rc2"
       [] v = "${NORC-/w/rc1}" -> IF EnvGet(env, "NORC").set THEN EnvGet(env, "NORC").v ELSE "/w/rc1"
       [] v = "/w/rc$((1+2))" -> "/w/rc3"
       [] v = "/w/norc" -> "/w/norc"
       [] OTHER -> "?"
PathFile(p) == CASE p = "/w/rc1" -> "rc1" [] p = "/w/d/rc2" -> "rc2" [] p = "/w/rc3" -> "rc3" [] OTHER -> ""
IsAbsolute(p) == StartsWith(p, "/")

\* ------------------------------------------------ meaning of the command line
(* XCU sh SYNOPSIS / OPERANDS, startup.md "Modes of operation":             *)
(*  - the argument "-" or "--" ending the options is ignored;               *)
(*  - with -c the first operand is the command string, the second (if any)  *)
(*    special parameter 0, the rest the positional parameters;              *)
(*  - with -s, or with no operand and no -c, commands come from standard    *)
(*    input and all operands are positional parameters;                     *)
(*  - otherwise the first operand is the command file and special           *)
(*    parameter 0, the rest the positional parameters;                      *)
(*  - special parameter 0 is argv[0] in the forms without command_file /    *)
(*    command_name.                                                         *)
(* Usage errors (startup-y.sh: exit status 2, a message, nothing executed): *)
(* an unknown option, -c together with -s, -c without a command string,    *)
(* a non-portable spelling after `-o portable`.                             *)
PortableAt(opts, i) == \E j \in 1..(i - 1) : opts[j] = "portable"
Meaning(sc) ==
  LET opts == sc.opts
      ops == sc.ops
      c == Has(opts, "-c")
      s == Has(opts, "-s")
      bad == \/ \E i \in DOMAIN opts : opts[i] \in BadItems
             \/ \E i \in DOMAIN opts : NonPortableItem(opts[i]) /\ PortableAt(opts, i)
             \/ c /\ s
             \/ c /\ ops = <<>>
      src == IF c THEN "string" ELSE IF s \/ ops = <<>> THEN "stdin" ELSE "file"
  IN [usage |-> bad,
      src |-> src,
      cmd |-> IF src = "string" /\ ops # <<>> THEN ops[1] ELSE "",
      path |-> IF src = "file" THEN ops[1] ELSE "",
      arg0 |-> CASE src = "string" -> IF Len(ops) >= 2 THEN ops[2] ELSE sc.a0
                 [] src = "stdin" -> sc.a0
                 [] src = "file" -> ops[1],
      params |-> CASE src = "string" -> SubSeq(ops, 3, Len(ops))
                   [] src = "stdin" -> ops
                   [] src = "file" -> SubSeq(ops, 2, Len(ops))]

(* Option states when the first command is read (options.md, interactive/   *)
(* README.md, XCU sh -i / set -m):                                          *)
(*  interactive  the last of -i / +i; without either: commands are read     *)
(*               from standard input and standard input and standard error  *)
(*               are terminals                                              *)
(*  monitor      the last of -m / +m; without either: interactive           *)
(*  stdin        commands are read from standard input; cmdline: -c         *)
(*  login        -l or argv[0] begins with "-"                              *)
(*  posixlycorrect  given, or the shell was started as `sh`                 *)
LastState(opts, name) ==
  LET hits == SelectSeq(opts, LAMBDA n : n \in ShellItems /\ ItemOpt(n)[1] = name)
  IN IF hits = <<>> THEN "" ELSE IF ItemOpt(hits[Len(hits)])[2] THEN "on" ELSE "off"
OptionsOf(sc) ==
  LET m == Meaning(sc)
      st(name) == LastState(sc.opts, name)
      inter == IF st("interactive") # "" THEN st("interactive") = "on"
               ELSE IF Variant = "interactive-stdin-only" THEN m.src = "stdin" /\ sc.tin
               ELSE m.src = "stdin" /\ sc.tin /\ sc.terr
  IN [interactive |-> inter,
      monitor |-> IF st("monitor") # "" THEN st("monitor") = "on"
                  ELSE IF Variant = "monitor-only-explicit" THEN FALSE ELSE inter,
      stdin |-> m.src = "stdin",
      cmdline |-> m.src = "string",
      login |-> st("login") = "on" \/ StartsWith(sc.a0, "-"),
      posixlycorrect |-> st("posixlycorrect") = "on" \/ BaseName(sc.a0) = "sh",
      errexit |-> st("errexit") = "on",
      allexport |-> st("allexport") = "on",
      portable |-> st("portable") = "on"]
WatchedOptions == <<"allexport", "cmdline", "errexit", "interactive", "login", "monitor", "portable", "posixlycorrect", "stdin">>
OnList(o) == SelectSeq(WatchedOptions, LAMBDA n : o[n])
\* special parameter "-": the single-letter names of the options that are on
\* (special.md; the options of this model that have a letter), sorted
Flags(o) == (IF o.allexport THEN "a" ELSE "") \o (IF o.cmdline THEN "c" ELSE "") \o (IF o.errexit THEN "e" ELSE "")
            \o (IF o.interactive THEN "i" ELSE "") \o (IF o.login THEN "l" ELSE "") \o (IF o.monitor THEN "m" ELSE "")
            \o (IF o.stdin THEN "s" ELSE "")

(* Initialisation files (startup.md "Initialization files", XCU sh ENV).     *)
(* Profile: "Profile file execution is not yet implemented" - never read.   *)
(* Rcfile: read iff the shell is interactive and real and effective user    *)
(* and group ids are equal; --norcfile: none; --rcfile F: F; otherwise the  *)
(* expansion of $ENV, nothing if that is empty.  The result is              *)
(*   [k |-> "none"]                no file is read                          *)
(*   [k |-> "file", f |-> id]      this file is executed, once, in the      *)
(*                                 current environment, before any command  *)
(*   [k |-> "missing"]             the named file does not exist: a         *)
(*                                 diagnostic, the shell carries on         *)
(*                                 (startup-y.sh "non-existing ENV")        *)
(*   [k |-> "unspec"]              relative pathname (XCU: unspecified),    *)
(*                                 several --rcfile / --norcfile options    *)
RcPlan(sc) ==
  LET o == OptionsOf(sc)
      rcitems == SelectIn(sc.opts, RcItems)
      envv == EnvGet(sc.env, "ENV")
      path == IF rcitems # <<>> THEN (IF rcitems[1] = "norc" THEN "" ELSE ItemArgv(rcitems[1])[2])
              ELSE IF envv.set THEN ExpandENV(envv.v, sc.env) ELSE ""
      f == PathFile(path)
  IN IF (~o.interactive /\ Variant # "rc-noninteractive") \/ sc.ids # "same" THEN [k |-> "none", f |-> ""]
     ELSE IF Len(rcitems) > 1 THEN [k |-> "unspec", f |-> ""]
     ELSE IF path = "" THEN [k |-> "none", f |-> ""]
     ELSE IF path = "?" \/ ~IsAbsolute(path) THEN [k |-> "unspec", f |-> ""]
     ELSE IF f # "" /\ Has(sc.files, f) THEN [k |-> "file", f |-> f]
     ELSE [k |-> "missing", f |-> ""]

\* ------------------------------------------------------ the main program
(* One physical line per command kind.  Statuses: an exact number, or -1   *)
(* for "some value in 1..125" (a failure whose value POSIX leaves open:    *)
(* XCU 2.8.2 "between 1 and 125 inclusive").                               *)
NZ == -1
SigTerm == 15
SigStatus == 384 + SigTerm      \* exit_status.md: "384 plus the signal number"
Kinds == {"true", "false", "st7", "echo", "exit", "exit3", "synerr", "dot", "setbad", "sbredir", "asgerr", "experr",
          "cmddot", "redir", "credir", "notfound", "execfail", "sig", "kill", "obs", "penv"}
\* shell errors after which a non-interactive shell shall exit and an interactive
\* shall not (XCU 2.8.1: syntax error, special built-in utility error, redirection
\* error with a special built-in, variable assignment error, expansion error;
\* termination.md "Shell errors")
FatalKinds == {"synerr", "dot", "setbad", "sbredir", "asgerr", "experr"}
TrapKinds == {"", "t", "tf", "tx", "tfx", "tx5", "tt", "te"}
TrapAction(t) == CASE t = "t" -> "echo \"T:$?\""
                   [] t = "tf" -> "echo \"T:$?\"; false"
                   [] t = "tx" -> "echo \"T:$?\"; exit"
                   [] t = "tfx" -> "echo \"T:$?\"; false; exit"
                   [] t = "tx5" -> "echo \"T:$?\"; exit 5"
                   [] t = "tt" -> "echo \"T:$?\"; trap \"echo T2\" EXIT"
                   [] t = "te" -> "echo \"T:$?\"; (exit 9)"
\* the observation command: special parameters and the variables the shell
\* initialises (LINENO only where XCU 2.5.3 defines it: in a script)
ObsLines(src) ==
  <<"echo \"0=$0 #=$# 1=$1 2=$2 rcv=$RCV\"",
    "echo \"-=$-\"",
    IF src = "string" THEN "echo \"P=$PPID O=$OPTIND\"" ELSE "echo \"P=$PPID O=$OPTIND L=$LINENO\"",
    "echo \"1[$PS1] 2[$PS2] 4[$PS4] I[$IFS]\"",
    "echo \"W=$PWD\"",
    "echo \"<<opts\"; set -o; echo \"opts>>\"">>
Line(k, src) ==
  CASE k = "true" -> <<"true">>
    [] k = "false" -> <<"false">>
    [] k = "st7" -> <<"(exit 7)">>
    [] k = "echo" -> <<"echo \"L:$?\"">>
    [] k = "exit" -> <<"exit">>
    [] k = "exit3" -> <<"exit 3">>
    [] k = "synerr" -> <<"fi">>
    [] k = "dot" -> <<". ./nosuchfile">>
    [] k = "setbad" -> <<"set -o nosuchoption">>
    [] k = "sbredir" -> <<": <./nosuchfile">>
    [] k = "asgerr" -> <<"RO=2">>
    [] k = "experr" -> <<"echo \"${UNSET?}\"">>
    [] k = "cmddot" -> <<"command . ./nosuchfile">>
    [] k = "redir" -> <<"echo hi <./nosuchfile">>
    [] k = "credir" -> <<"{ echo hi; } <./nosuchfile">>
    [] k = "notfound" -> <<"./nosuchcmd">>
    [] k = "execfail" -> <<"exec ./nosuchcmd">>
    [] k = "sig" -> <<"(selfkill)">>
    [] k = "kill" -> <<"kill -s TERM $$">>
    [] k = "obs" -> ObsLines(src)
    [] k = "penv" -> <<"printenv a-b">>
ProgLines(prog, trap, src) ==
  (IF trap = "" THEN <<>> ELSE <<"trap '" \o TrapAction(trap) \o "' EXIT">>)
  \o (IF Has(prog, "asgerr") THEN <<"readonly RO=1">> ELSE <<>>)
  \o Flat([i \in 1..Len(prog) |-> Line(prog[i], src)])
\* text delivered as a file / on standard input, and as a -c operand
FileText(lines) == Flat([i \in 1..Len(lines) |-> <<lines[i] \o NL>>])
RECURSIVE Concat(_)
Concat(ss) == IF ss = <<>> THEN "" ELSE Head(ss) \o Concat(Tail(ss))
AsFile(lines) == Concat(FileText(lines))
AsString(lines) == JoinWith(lines, NL)
\* what standard input holds when the commands do NOT come from it (XCU sh -c:
\* "No commands shall be read from the standard input")
StdinDecoy == "echo FROM-STDIN\n"

\* -------------------------------------------------------------- rendering
Argv(sc) ==
  LET lines == ProgLines(sc.prog, sc.trap, Meaning(sc).src)
      op(x) == IF x = "@P" THEN AsString(lines) ELSE x
  IN <<sc.a0>> \o Flat([i \in 1..Len(sc.opts) |-> ItemArgv(sc.opts[i])])
     \o (IF sc.sep = "" THEN <<>> ELSE <<sc.sep>>) \o [i \in 1..Len(sc.ops) |-> op(sc.ops[i])]
StdinText(sc) == IF Meaning(sc).src = "stdin" THEN AsFile(ProgLines(sc.prog, sc.trap, "stdin")) ELSE StdinDecoy
\* "@S" = ScriptText(sc) (printed once per scenario)
ScriptText(sc) == AsFile(ProgLines(sc.prog, sc.trap, "file"))
FileContent(sc, f) == IF f \in {"scr", "dscr", "pa"} THEN "@S" ELSE AsFile(RcLines(f))
FileMode(f) == IF f = "pa" THEN 493 ELSE 420     \* 0755 / 0644
FilesOf(sc) == [i \in 1..Len(sc.files) |-> [path |-> FilePath(sc.files[i]), content |-> FileContent(sc, sc.files[i]), mode |-> FileMode(sc.files[i])]]

\* ------------------------------------------------- variables set at start
(* XCU 2.5.3: "Variables shall be initialized from the environment"; PS1,   *)
(* PS2, PS4 have DEFAULT values "$ ", "> ", "+ " (variables.md too); PPID   *)
(* is "set by the shell ... during initialization"; getopts: "Whenever the  *)
(* shell is invoked, OPTIND shall be initialized to 1"; IFS: "The shell     *)
(* shall set IFS to <space><tab><newline> when it is invoked"; PWD (no      *)
(* value inherited in this model) is the working directory; LINENO is the   *)
(* number of the line within the script.                                    *)
Default(env, name, dflt) == IF EnvGet(env, name).set THEN EnvGet(env, name).v ELSE dflt
\* is an environment variable imported?  (startup.md, since 3.3.3: with
\* `-o portable` on the command line names that are not portable are ignored)
PortableName(n) == \A i \in 1..Len(n) : At(n, i) # "-"
Imported(sc, name) == EnvGet(sc.env, name).set /\ (OptionsOf(sc).portable => PortableName(name))

\* ------------------------------------------------------------ termination
Str(st) == IF st = NZ THEN "@NZ" ELSE ToString(st)
(* The EXIT trap (termination.md "EXIT trap", exit.md, traps.md, XCU exit / *)
(* trap): runs once when the shell exits for whatever reason, sees in $?    *)
(* the status the shell is exiting with; that status is preserved across    *)
(* the action; `exit` inside the action ends the shell immediately, without *)
(* an operand with the status $? had before the action; an EXIT trap set    *)
(* inside the action is not executed (termination.md).                      *)
Finish(S, st) ==
  LET t == S.trap
      seen == IF t = "" THEN <<>>
              ELSE IF Variant = "trap-twice" /\ t \in {"tx", "tfx", "tx5"} THEN <<"T:" \o Str(st), "T:" \o Str(st)>>
              ELSE <<"T:" \o Str(st)>>
      final == IF t = "tx5" THEN 5
               ELSE IF Variant = "trap-status" /\ t = "tf" THEN 1
               ELSE IF Variant = "trap-status" /\ t = "te" THEN 9
               ELSE st
  IN [out |-> S.out \o seen, st |-> final]
(* One command.  The result says how the loop goes on:                      *)
(*   go    next command, with $? = st                                       *)
(*   exit  the shell exits (EXIT trap first) with st                        *)
(*   die   the shell process is killed by SIGTERM (no EXIT trap)            *)
Effect(k, S) ==
  LET fatal == IF S.inter /\ Variant # "interactive-exits-on-error" THEN [act |-> "go", st |-> NZ, out |-> <<>>] ELSE [act |-> "exit", st |-> NZ, out |-> <<>>]
  IN CASE k = "true" -> [act |-> "go", st |-> 0, out |-> <<>>]
       [] k = "false" -> [act |-> "go", st |-> 1, out |-> <<>>]
       [] k = "st7" -> [act |-> "go", st |-> 7, out |-> <<>>]
       [] k = "echo" -> [act |-> "go", st |-> 0, out |-> <<"L:" \o Str(S.st)>>]
       [] k = "exit" -> [act |-> "exit", st |-> S.st, out |-> <<>>]
       [] k = "exit3" -> [act |-> "exit", st |-> 3, out |-> <<>>]
       [] k \in FatalKinds -> fatal
       \* `command` strips the special-ness (termination.md); other utilities'
       \* redirection errors never end the shell (termination.md; XCU 2.8.1)
       [] k \in {"cmddot", "redir", "credir"} -> [act |-> "go", st |-> NZ, out |-> <<>>]
       \* command not found: 127; yash does not exit (termination.md last paragraph)
       [] k = "notfound" -> [act |-> "go", st |-> 127, out |-> <<>>]
       \* exec.md "Errors" / "Exit status"
       [] k = "execfail" -> IF S.inter THEN [act |-> "go", st |-> 127, out |-> <<>>] ELSE [act |-> "exit", st |-> 127, out |-> <<>>]
       [] k = "sig" -> [act |-> "go", st |-> SigStatus, out |-> <<>>]
       \* a signal sent to the shell itself: an interactive shell ignores SIGTERM
       \* (traps.md "Auto-ignored signals"); any other is killed, and "when the shell is
       \* killed by a signal ... the trap is not executed" (termination.md)
       [] k = "kill" -> IF S.inter THEN [act |-> "go", st |-> 0, out |-> <<>>] ELSE [act |-> "die", st |-> SigStatus, out |-> <<>>]
       [] k = "obs" -> [act |-> "go", st |-> 0, out |-> S.obs]
       [] k = "penv" -> IF S.penv THEN [act |-> "go", st |-> 0, out |-> <<"1">>] ELSE [act |-> "go", st |-> 1, out |-> <<>>]
RECURSIVE RunFrom(_, _, _)
RunFrom(prog, i, S) ==
  IF i > Len(prog) THEN Finish(S, S.st) @@ [died |-> FALSE]      \* end of input
  ELSE LET e == Effect(prog[i], S)
           S1 == [S EXCEPT !.out = S.out \o e.out, !.st = e.st]
       IN IF e.act = "die" THEN [out |-> S1.out, st |-> SigStatus, died |-> TRUE]
          ELSE IF e.act = "exit" THEN Finish(S1, e.st) @@ [died |-> FALSE]
          \* errexit (exit_status.md "Exiting on errors"): a failing command
          ELSE IF S.errexit /\ e.st # 0 THEN Finish(S1, e.st) @@ [died |-> FALSE]
          ELSE RunFrom(prog, i + 1, S1)

\* ------------------------------------------------------------ expectation
\* ran: the main program was started and the shell left by exiting, not killed from
\* outside (used by the laws only)
Alt(out, lo, hi, sig, err, ran) == [out |-> out, lo |-> lo, hi |-> hi, sig |-> sig, err |-> err, ran |-> ran]
\* an exit status as the parent sees it: the range, or death by the signal
\* (exit_status.md "Exit status of the shell")
AltOf(r, err) ==
  IF r.st = SigStatus THEN Alt(r.out, 0, 0, SigTerm, err, ~r.died)
  ELSE IF r.st = NZ THEN Alt(r.out, 1, 125, 0, err, TRUE)
  ELSE Alt(r.out, r.st, r.st, 0, err, TRUE)
\* does the program (on the path it actually takes) provoke a diagnostic?
NoisyKinds == FatalKinds \cup {"cmddot", "redir", "credir", "notfound", "execfail"}
RECURSIVE Executed(_, _, _)
\* kinds executed, in order (the same walk as RunFrom, recording kinds)
Executed(prog, i, S) ==
  IF i > Len(prog) THEN <<>>
  ELSE LET e == Effect(prog[i], S)
           S1 == [S EXCEPT !.st = e.st]
       IN IF e.act \in {"exit", "die"} \/ (S.errexit /\ e.st # 0) THEN <<prog[i]>>
          ELSE <<prog[i]>> \o Executed(prog, i + 1, S1)

ObsOut(sc) ==
  LET m == Meaning(sc)
      o == OptionsOf(sc)
      rc == RcPlan(sc)
      p(i) == IF Len(m.params) >= i THEN m.params[i] ELSE ""
      rcv == IF rc.k = "file" /\ rc.f = "rc1" THEN "r1" ELSE IF rc.k = "file" /\ rc.f = "rc2" THEN "r2" ELSE ""
      \* line number of the LINENO line: after the trap line / the readonly line
      lno == 3 + (IF sc.trap = "" THEN 0 ELSE 1) + (IF Has(sc.prog, "asgerr") THEN 1 ELSE 0)
             + Len(Flat([i \in 1..(CHOOSE j \in 1..Len(sc.prog) : sc.prog[j] = "obs") - 1 |-> Line(sc.prog[i], m.src)]))
  IN <<"0=" \o m.arg0 \o " #=" \o ToString(Len(m.params)) \o " 1=" \o p(1) \o " 2=" \o p(2) \o " rcv=" \o rcv,
       "-=" \o Flags(o),
       "P=@PPID O=1" \o (IF m.src = "string" THEN "" ELSE " L=" \o ToString(lno)),
       "1[" \o Default(sc.env, "PS1", "$ ") \o "] 2[" \o Default(sc.env, "PS2", "> ") \o "] 4[" \o Default(sc.env, "PS4", "+ ")
            \o "] I[ " \o TAB,
       "]",
       "W=" \o Cwd,
       "on=" \o JoinWith(OnList(o), ",")>>

RcOut(sc, f) ==
  LET m == Meaning(sc)
      p(i) == IF Len(m.params) >= i THEN m.params[i] ELSE ""
  IN CASE f = "rc1" -> <<"R1 0=" \o m.arg0 \o " #=" \o ToString(Len(m.params)), "-=" \o Flags(OptionsOf(sc))>>
       [] f = "rc2" -> <<"R2 1=" \o p(1)>>
       [] f = "rc3" -> <<"R3">>

\* Is the scenario well formed (the program text is where the shell will look
\* for it)?  Used by the generators; Expect is total anyway.
WellFormed(sc) ==
  LET m == Meaning(sc)
  IN /\ Len(SelectSeq(sc.prog, LAMBDA k : k = "obs")) <= 1
     /\ \/ m.usage
        \/ /\ Len(SelectSeq(sc.ops, LAMBDA x : x = "@P")) = (IF m.src = "string" THEN 1 ELSE 0)
           /\ m.src = "string" => sc.ops[1] = "@P"
           /\ m.src = "file" => sc.ops[1] \in ScriptOps

Expect(sc) ==
  LET m == Meaning(sc)
      o == OptionsOf(sc)
      rc == RcPlan(sc)
      explicit_i == LastState(sc.opts, "interactive") = "on"
      S0 == [inter |-> o.interactive, errexit |-> o.errexit, trap |-> sc.trap,
             st |-> 0, out |-> <<>>, obs |-> IF Has(sc.prog, "obs") THEN ObsOut(sc) ELSE <<>>,
             penv |-> Imported(sc, "a-b")]
      rcout == IF rc.k = "file" THEN RcOut(sc, rc.f) ELSE <<>>
      run == RunFrom(sc.prog, 1, [S0 EXCEPT !.out = rcout])
      kinds == Executed(sc.prog, 1, S0)
      noisy == \E i \in DOMAIN kinds : kinds[i] \in NoisyKinds
      \* prompts and rcfile diagnostics go to standard error
      err == IF o.interactive \/ rc.k = "missing" THEN "any" ELSE IF noisy THEN "nonempty" ELSE "empty"
      fileid == IF m.src = "file" THEN ScriptFile(m.path) ELSE ""
      present == fileid # "" /\ Has(sc.files, fileid)
      notfound == Alt(rcout, 127, 127, 0, IF o.interactive \/ rc.k = "missing" THEN "any" ELSE "nonempty", FALSE)
      unspec == [class |-> "unspec", alts |-> <<>>]
  IN \* invalid invocation: status 2, a message, nothing is executed
     IF m.usage THEN [class |-> "usage", alts |-> <<Alt(<<>>, 2, 2, 0, "nonempty", FALSE)>>]
     \* XCU sh -i: "An implementation may treat specifying the -i option as an error if the
     \* real user ID ... does not equal the effective user ID ..."
     ELSE IF explicit_i /\ sc.ids # "same" THEN unspec
     ELSE IF rc.k = "unspec" THEN unspec
     \* a syntax error later in a command string: whether the commands before it
     \* run depends on how much the shell parses at once (C18 owns this)
     ELSE IF m.src = "string" /\ \E i \in 2..Len(sc.prog) : sc.prog[i] = "synerr" THEN unspec
     \* `exit` in the rcfile: "execute in the current environment" (XCU sh ENV),
     \* "A shell session terminates ... when you use the exit built-in"
     ELSE IF rc.k = "file" /\ rc.f = "rc3" THEN [class |-> "ok", alts |-> <<Alt(rcout, 3, 3, 0, "any", FALSE)>>]
     ELSE IF m.src = "file" /\ ~present THEN
          \* XCU sh EXIT STATUS 127: "A specified command_file could not be found"
          [class |-> "ok", alts |-> <<notfound>>]
     ELSE IF m.src = "file" /\ fileid = "pa" THEN
          \* no <slash>, not in the working directory: "the implementation may perform a
          \* search for an executable file using the value of PATH"
          [class |-> "ok", alts |-> <<notfound, AltOf(run, err)>>]
     ELSE [class |-> "ok", alts |-> <<AltOf(run, err)>>]

\* ------------------------------------------------- matching an observation
(* An observed run [out, status, sig, err ("empty"/"nonempty"), outcome]    *)
(* against an allowed outcome.  A line ending in "@NZ" stands for the same  *)
(* line ending in any decimal number from 1 to 125.                         *)
NZStrings == {ToString(n) : n \in 1..125}
MatchLine(pat, got) ==
  IF EndsWith(pat, "@NZ")
  THEN LET n == Len(pat) - 3 IN Len(got) > n /\ SubSeq(got, 1, n) = SubSeq(pat, 1, n) /\ SubSeq(got, n + 1, Len(got)) \in NZStrings
  ELSE pat = got
\* first position at which the lines deviate (0 = none)
RECURSIVE FirstDev(_, _, _)
FirstDev(exp, got, i) ==
  IF i > Len(exp) /\ i > Len(got) THEN 0
  ELSE IF i > Len(exp) \/ i > Len(got) THEN i
  ELSE IF MatchLine(exp[i], got[i]) THEN FirstDev(exp, got, i + 1) ELSE i
LineAt(s, i) == IF i >= 1 /\ i <= Len(s) THEN s[i] ELSE "@END"
\* every deviation of a run from one alternative: all deviating lines of standard
\* output when the line counts agree (otherwise the first one), and, independently,
\* the signal, the exit status and the class of standard error
D(field, pos, exp, got) == [field |-> field, pos |-> pos, exp |-> exp, got |-> got]
Devs(a, run) ==
  IF run.outcome # "completed" THEN {D("outcome", 0, "completed", run.outcome)}
  ELSE LET p == FirstDev(a.out, run.out, 1)
           lines == IF Len(a.out) = Len(run.out)
                    THEN {D("stdout", i - 1, a.out[i], run.out[i]) : i \in {j \in 1..Len(a.out) : ~MatchLine(a.out[j], run.out[j])}}
                    ELSE {D("stdout", p - 1, LineAt(a.out, p), LineAt(run.out, p))}
           sg == IF a.sig # run.sig THEN {D("signal", 0, ToString(a.sig), ToString(run.sig))} ELSE {}
           st == IF a.sig = 0 /\ run.sig = 0 /\ (run.status < a.lo \/ run.status > a.hi)
                 THEN {D("status", 0, ToString(a.lo) \o "-" \o ToString(a.hi), ToString(run.status))} ELSE {}
           er == IF a.err # "any" /\ a.err # run.err THEN {D("stderr", 0, a.err, run.err)} ELSE {}
       IN lines \cup sg \cup st \cup er
\* the deviations from the closest alternative (the empty set: the run is allowed)
RECURSIVE BestDevs(_, _, _)
BestDevs(alts, run, i) ==
  IF i = Len(alts) THEN Devs(alts[i], run)
  ELSE LET d == Devs(alts[i], run)
           r == BestDevs(alts, run, i + 1)
       IN IF Cardinality(d) <= Cardinality(r) THEN d ELSE r
\* what identifies the rule involved (for reports): the rcfile plan and the last
\* command of the main program the specification executes
PlanOf(sc) ==
  LET o == OptionsOf(sc)
      rc == RcPlan(sc)
      S0 == [inter |-> o.interactive, errexit |-> o.errexit, trap |-> sc.trap, st |-> 0, out |-> <<>>, obs |-> <<>>,
             penv |-> Imported(sc, "a-b")]
      kinds == Executed(sc.prog, 1, S0)
  IN [rc |-> rc.k \o (IF rc.f = "" THEN "" ELSE ":" \o rc.f), last |-> IF kinds = <<>> THEN "" ELSE kinds[Len(kinds)],
      src |-> Meaning(sc).src, inter |-> o.interactive]

\* ------------------------------------------------------------------ laws
(* Properties of the specification itself, checked by TLC on every          *)
(* enumerated scenario (Gen_Startup, invariant Laws).                       *)
CountPrefix(out, p) == Cardinality({i \in DOMAIN out : StartsWith(out[i], p)})
Laws(sc) ==
  LET m == Meaning(sc)
      o == OptionsOf(sc)
      rc == RcPlan(sc)
      e == Expect(sc)
  IN \* exactly one source of commands; cmdline and stdin exclude each other
     /\ ~(o.cmdline /\ o.stdin)
     /\ (m.src = "file") = (~o.cmdline /\ ~o.stdin)
     \* -i makes the shell interactive whatever the descriptors are; without -i / +i a
     \* shell that does not read standard input is never interactive
     /\ (LastState(sc.opts, "interactive") = "on" => o.interactive)
     /\ (LastState(sc.opts, "interactive") = "" /\ m.src # "stdin" => ~o.interactive)
     /\ (LastState(sc.opts, "interactive") = "" /\ ~(sc.tin /\ sc.terr) => ~o.interactive)
     \* job control is on by default exactly in interactive shells
     /\ (LastState(sc.opts, "monitor") = "" => o.monitor = o.interactive)
     \* an rcfile is read only by an interactive shell with equal ids, and not with --norcfile
     /\ (rc.k = "file" => o.interactive /\ sc.ids = "same" /\ ~Has(sc.opts, "norc"))
     \* a usage error executes nothing
     /\ (m.usage => e.class = "usage" /\ e.alts[1].out = <<>> /\ e.alts[1].lo = 2)
     /\ \A a \in DOMAIN e.alts :
          LET x == e.alts[a] IN
          \* the EXIT trap runs exactly once if the main program (which sets it) was started,
          \* and never otherwise
          /\ CountPrefix(x.out, "T:") = (IF x.ran /\ sc.trap # "" THEN 1 ELSE 0)
          \* commands are never read from standard input unless it is the source
          /\ ~Has(x.out, "FROM-STDIN")
          \* the profile is never executed (manual: not implemented)
          /\ ~Has(x.out, "PROFILE")
          \* nothing follows the trap's output
          /\ (CountPrefix(x.out, "T:") = 1 => StartsWith(x.out[Len(x.out)], "T:"))
          /\ x.lo <= x.hi /\ x.lo >= 0 /\ x.hi <= 255
          /\ (x.sig # 0 => x.lo = 0 /\ x.hi = 0)
\* the exit status does not depend on the trap unless the trap says `exit N`
TrapNeutral(sc) ==
  LET e == Expect(sc)
      e0 == Expect([sc EXCEPT !.trap = ""])
  IN (e.class = "ok" /\ sc.trap # "tx5") =>
        /\ e0.class = "ok" /\ Len(e.alts) = Len(e0.alts)
        /\ \A a \in DOMAIN e.alts : e.alts[a].lo = e0.alts[a].lo /\ e.alts[a].hi = e0.alts[a].hi /\ e.alts[a].sig = e0.alts[a].sig
\* an interactive shell executes every command of the program up to the first exit / exec
InteractiveSurvives(sc) ==
  LET o == OptionsOf(sc)
      S0 == [inter |-> TRUE, errexit |-> FALSE, trap |-> "", st |-> 0, out |-> <<>>, obs |-> <<>>, penv |-> FALSE]
      kinds == Executed(sc.prog, 1, S0)
  IN \A i \in DOMAIN sc.prog : (\A j \in 1..(i - 1) : sc.prog[j] \notin {"exit", "exit3"}) => Len(kinds) >= i
\* a shell killed by a signal runs no EXIT trap; the parent sees the signal
KilledSilently(sc) ==
  LET e == Expect(sc)
  IN (e.class = "ok" /\ Has(sc.prog, "kill") /\ ~OptionsOf(sc).interactive) =>
        \A a \in DOMAIN e.alts : (e.alts[a].ran \/ e.alts[a].lo = 127 \/ (e.alts[a].sig = SigTerm /\ CountPrefix(e.alts[a].out, "T:") = 0))
=============================================================================
