SPECIFICATION TraceSpec
CONSTANTS
  NT = 8
  NP = 3
  NS = 3
  Cap = 2
  MaxNow = 1000000
  Budget = 64
  MaxExt = 1000000
  MaxSel = 1000000
  MaxSpur = 1000000
  Base0 = {}
  Variant = "ok"
  Hist = "ev"
  Loop = FALSE
  Peek = TRUE
  Sym = FALSE
  Ops <- TOps
  Exts <- TExts
INVARIANT TraceInv
INVARIANT AtEnd
CHECK_DEADLOCK FALSE
