----------------------------- MODULE Trace_Trap -----------------------------
(***************************************************************************)
(* P2/P3 validation for C11: every record observed on the real TrapSet     *)
(* (harness/c11) must be a step allowed by TrapAbs.                        *)
(*                                                                         *)
(* Records (one JSON document per line):                                   *)
(*   {"ev":"reset","init":{sig: "D"|"I"},"st":state}    a new shell        *)
(*   {"ev":"step","op":..,"res":..,"post":state}        the history moves  *)
(*   {"ev":"try", "op":..,"res":..,"post":state}        one operation tried*)
(*                                     from the current state (not kept)   *)
(*   {"ev":"mid","op":..,"sig":s,"k":k,"a":state,"b":state,"m":state}      *)
(*        the operation with signal s arriving just before its k-th system *)
(*        call (m), s arriving before the operation (a), after it (b)      *)
(* The validator keeps the current observed state `cur` and the ghost      *)
(* state `g` (inherited dispositions, the shell's own needs) itself; the   *)
(* harness supplies neither expectations nor ghost values.                 *)
(***************************************************************************)
EXTENDS TrapAbs, Json, IOUtils

Rec == ndJsonDeserialize(IOEnv.TRACE)

VARIABLES l, g, cur, skip
vars == <<l, g, cur, skip>>

TraceInit == l = 1 /\ g = <<>> /\ cur = [proc |-> "-"] /\ skip = TRUE

ResetChecks(r, g1) ==
  << <<"reset: the projection covers the signals of init", SigsOf(r.st) = DOMAIN r.init>>,
     <<"reset: a new trap set knows nothing", r.st.proc = "R" /\ \A c \in CondsOf(r.st) : IsVacant(r.st.c[c])>> >>
  \o InvChecks(g1, r.st)

\* A record that does not conform is reported (one line, collected by the
\* driver) and validation goes on: a failed `try` leaves the current state
\* alone; after a failed `step` the rest of that history is skipped, because
\* everything downstream would only repeat the same failure.
Report(S) == PrintT("REJECT-WHY " \o ToJson([l |-> l, why |-> Failed(S)]))

\* A signal that arrives while the trap set is being changed takes effect under
\* the disposition before or after the change - as if it had arrived before or
\* after the operation ("regardless of when the signal arrives").
SameOutcome(x, y) == x.proc = y.proc /\ (x.proc = "R" => x = y)
MidChecks(r) ==
  << <<"mid: a signal arriving during an operation takes effect as if it arrived before or after it",
       SameOutcome(r.m, r.a) \/ SameOutcome(r.m, r.b)>> >>

TraceNext ==
  /\ l <= Len(Rec)
  /\ l' = l + 1
  /\ LET r == Rec[l] IN
     IF r.ev = "mid"
     THEN /\ UNCHANGED <<g, cur, skip>>
          /\ AllHold(MidChecks(r)) \/ Report(MidChecks(r))
     ELSE IF r.ev = "reset"
     THEN LET g1 == [init |-> r.init, int |-> [s \in DOMAIN r.init |-> "D"]]
              S  == ResetChecks(r, g1)
          IN IF AllHold(S) THEN g' = g1 /\ cur' = r.st /\ skip' = FALSE
             ELSE Report(S) /\ skip' = TRUE /\ UNCHANGED <<g, cur>>
     ELSE IF skip THEN UNCHANGED <<g, cur, skip>>
     ELSE IF cur.proc # "R"
     THEN /\ Report(<< <<"trace: no operation after the shell was killed or stopped", FALSE>> >>)
          /\ skip' = TRUE /\ UNCHANGED <<g, cur>>
     ELSE LET S == StepChecks(g, cur, r.op, r.res, r.post)
          IN IF AllHold(S)
             THEN /\ skip' = FALSE
                  /\ IF r.ev = "step" THEN g' = NextG(g, cur, r.op) /\ cur' = r.post
                                      ELSE UNCHANGED <<g, cur>>
             ELSE /\ Report(S)
                  /\ skip' = (r.ev = "step")
                  /\ UNCHANGED <<g, cur>>

TraceSpec == TraceInit /\ [][TraceNext]_vars

\* every record was processed (a record TLC could not evaluate stops the run)
Accepted ==
  LET d == TLCGet("stats").diameter
  IN IF d - 1 = Len(Rec) THEN TRUE
     ELSE Print(<<"REJECT", d, ToJson(Rec[d])>>, FALSE)
=============================================================================
