SPECIFICATION Spec
CONSTANTS
  NameSeq <- NameSeq3
  GlobalNames = {}
  LineFam = "nt"
  Prune = TRUE
INVARIANT NoSelfNesting
INVARIANT ChainsSound
INVARIANT Deterministic
INVARIANT VariantNat
INVARIANT Emit
PROPERTY VariantDecreases
PROPERTY OnlyEligibleReplaced
