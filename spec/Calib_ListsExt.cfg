CONSTANTS
  Fuel = 60
  TickLimit = 2
  Variant = ""
