------------------------------ MODULE MC_Pipe ------------------------------
(***************************************************************************)
(* Bounded model of Pipe for exhaustive checking, plus the lemmas about    *)
(* the kernel rules and the data operators, which TLC evaluates once when  *)
(* the module is loaded (a failing ASSUME is a model error, exit 2).       *)
(***************************************************************************)
EXTENDS Pipe

\* Sanity of the rules (evaluated by TLC when the module is loaded with small
\* constants): readiness is sound (ready => no request would block) and
\* complete (not ready => some request would block); transfers never exceed
\* the room or the request.
RulesLemma ==
  \A occ \in 0 .. PIPE_SIZE : \A e \in 0 .. 1 :
    /\ \A n \in 1 .. (2 * PIPE_SIZE + 1) :
         /\ ReadyW(occ, e) => WriteXfer(occ, e, n) # XBLOCK
         /\ ReadyR(occ, e) => ReadXfer(occ, e, n) # XBLOCK
         /\ WriteXfer(occ, e, n) >= 0 =>
              /\ WriteXfer(occ, e, n) \in 1 .. PMin(n, Room(occ))
              /\ (n <= PIPE_BUF => WriteXfer(occ, e, n) = n)
         /\ ReadXfer(occ, e, n) >= 0 => ReadXfer(occ, e, n) <= PMin(n, occ)
    /\ ~ReadyW(occ, e) => \E n \in 1 .. PIPE_BUF : WriteXfer(occ, e, n) = XBLOCK
    /\ ~ReadyR(occ, e) => ReadXfer(occ, e, 1) = XBLOCK


\* ---- the data-level theorems, on a small domain ------------------------
SmallBytes == {NL, 32, 97}
RECURSIVE SeqsUpTo(_, _)
SeqsUpTo(S, k) == IF k = 0 THEN {<<>>}
                  ELSE LET T == SeqsUpTo(S, k - 1)
                       IN T \cup {Append(t, x) : t \in T, x \in S}

StripLemma ==
  \A s \in SeqsUpTo(SmallBytes, 5) :
    /\ IsStripOf(Strip(s), s)
    /\ \A r \in SeqsUpTo(SmallBytes, 5) : IsStripOf(r, s) => r = Strip(s)
    /\ Strip(Strip(s)) = Strip(s)

\* the compact form agrees with the plain one
CompactLemma ==
  \A off \in {0, 5, 16, 17, 30} : \A n \in 0 .. 36 : \A t \in SeqsUpTo({NL, 97, 97 + ((off + n) % 23)}, 3) :
    LET d == D(off, n, t)
    IN /\ DExpand(DStrip(d)) = Strip(DExpand(d))
       /\ \A hd \in {<<NL>>, <<255, NL>>, <<NL, NL>>} :
            LET e == DH(hd, off, n, t)
            IN /\ DExpand(DStrip(e)) = Strip(DExpand(e))
               /\ DLen(e) = Len(DExpand(e))
               /\ \A k \in 0 .. PMin(3, DLen(e)) : DExpand(DTrim(e, k)) = SubSeq(DExpand(e), 1, DLen(e) - k)
       /\ DRep(d) = SeqRep(DExpand(d), off)
       /\ DLen(d) = Len(DExpand(d))
       /\ (DFirstNLInStream(d) # 0 => DFirstNLInStream(d) = FirstNL(DExpand(d)))

ASSUME RulesLemma
ASSUME StripLemma
ASSUME CompactLemma
=============================================================================
