-------------------------- MODULE Trace_FnmatchExt --------------------------
(***************************************************************************)
(* G19, impl -> spec.  Every record is one observation of the real         *)
(* yash-fnmatch crate on a (pattern, text, configuration):                 *)
(*   mode, c, l   how the pattern reached the parser: "pc" explicit        *)
(*                PatternChars c with quoted flags l; "esc"                *)
(*                with_escape(text c); "raw" without_escape(text c)        *)
(*   pcc, pcl     the PatternChars that with_escape / without_escape       *)
(*                produced (mode "pc": c, l again)                         *)
(*   s            the text (array of characters)                           *)
(*   ab ae sh lp ci   Config;  cf: Pattern::config() returns it            *)
(*   pn           some call panicked                                       *)
(*   e, en        "" or the Error variant of parse_with_config, its name   *)
(*   lit, lv      as_literal is Some, its characters                       *)
(*   il, iv       into_literal is Ok, its characters                       *)
(*   ak, ac       the atoms of Ast::new (kinds; characters of Char atoms)  *)
(*   m, f, rf     is_match, find, rfind (character indices; -1,-1 = None)  *)
(*   bd           every range returned lies on character boundaries        *)
(*                within the text                                          *)
(*   d            the same calls after a second parse_with_config, after   *)
(*                from_ast_and_config(Ast::new(..)) and - default          *)
(*                configuration - after parse and from_ast gave the same   *)
(*                results                                                  *)
(*   rx           Ast::to_regex depends on the two anchors only ("Only the *)
(*                anchor_begin and anchor_end options in config affect the *)
(*                results") and fmt_regex writes the same text             *)
(*   fa, ra       is_match of the pattern with both anchors added (and     *)
(*                literal_period off) on the part found by find / rfind    *)
(*                (1 / 0; -1: nothing found)                               *)
(*   sf           find on the suffix of the text that starts where find's  *)
(*                match starts (-2,-2: nothing found)                      *)
(* Verdict(r) = "" iff the record is what FnmatchExt.tla allows; otherwise *)
(* the name of the first demand that fails.  The structural demands hold   *)
(* for every input (open or not): no panic, ranges on boundaries, is_match *)
(* = (find # None) = (rfind # None), anchors respected, determinism, the   *)
(* parts found are denoted, the suffix law.                                *)
(***************************************************************************)
EXTENDS FnmatchExt, Json, IOUtils

Rec == ndJsonDeserialize(IOEnv.TRACE)

VARIABLES l, nopen, nmulti
vars == <<l, nopen, nmulti>>

Pcs(cs, ls) == [i \in 1..Len(cs) |-> [c |-> cs[i], l |-> ls[i] = 1]]
CfgOf(r) == [ab |-> r.ab, ae |-> r.ae, sh |-> r.sh, lp |-> r.lp, ci |-> r.ci]

Structural(r) ==
  LET f == r.f  g == r.rf  n == Len(r.s) IN
  IF ~r.d THEN "determinism"
  ELSE IF ~r.rx THEN "to_regex-config"
  ELSE IF ~r.cf THEN "config-accessor"
  ELSE IF r.il # r.lit \/ r.iv # r.lv THEN "into_literal"
  ELSE IF r.m # (f # None) \/ (f = None) # (g = None) THEN "is_match-find-rfind"
  ELSE IF f = None THEN ""
  ELSE IF ~(0 <= f[1] /\ f[1] <= f[2] /\ f[2] <= n /\ 0 <= g[1] /\ g[1] <= g[2] /\ g[2] <= n /\ f[1] <= g[1])
       THEN "range"
  ELSE IF r.ab /\ (f[1] # 0 \/ g[1] # 0) THEN "anchor_begin"
  ELSE IF r.ae /\ (f[2] # n \/ g[2] # n) THEN "anchor_end"
  ELSE IF r.fa # 1 \/ r.ra # 1 THEN "part-not-denoted"
  ELSE IF ~r.lp /\ r.sf # <<0, f[2] - f[1]>> THEN "suffix-law"
  ELSE ""

Verdict(r) ==
  LET p   == Pcs(r.pcc, r.pcl)
      cfg == CfgOf(r)
      ea  == ErrAllowed(p)
  IN
  IF r.pn THEN "panic"
  ELSE IF r.mode = "pc" /\ p # Pcs(r.c, r.l) THEN "pattern-chars"
  ELSE IF r.mode # "pc" /\ p \notin PcAllowed(r.mode, r.c) THEN "pattern-chars"
  ELSE IF "*" \notin ea /\ r.e \notin ea THEN "error"
  ELSE IF ~ErrNameOK(p, r.e, r.en) THEN "error-name"
  ELSE IF r.e # "" THEN ""
  ELSE IF ~r.bd THEN "boundary"
  ELSE IF Structural(r) # "" THEN Structural(r)
  ELSE IF OpenCase(p, r.s, cfg) THEN ""
  ELSE LET A == Parse(p).atoms IN
       IF r.lit # IsLiteralA(A) \/ r.lv # LiteralOf(A) THEN "as_literal"
       ELSE IF r.ak # AtomKinds(A) \/ r.ac # AtomChars(A) THEN "ast"
       ELSE IF <<r.f[1], r.f[2], r.rf[1], r.rf[2]>> \notin Allowed(A, r.s, cfg) THEN "outcome"
       ELSE ""

\* "open": only the structural demands apply; "multi": the documents allow more than one outcome
Class(r) ==
  LET p == Pcs(r.pcc, r.pcl) IN
  IF r.pn \/ r.e # "" \/ OpenCase(p, r.s, CfgOf(r)) THEN "open"
  ELSE IF Cardinality(Allowed(Parse(p).atoms, r.s, CfgOf(r))) > 1 THEN "multi"
  ELSE "one"

\* The records are independent observations, so validation goes on after a
\* record that the specification does not allow: each such record is printed
\* as a {reject, why, rec} line and the driver turns it into a violation.
TraceInit == l = 1 /\ nopen = 0 /\ nmulti = 0

TraceNext ==
  /\ l <= Len(Rec)
  /\ LET r == Rec[l]
         w == Verdict(r)
         k == IF w = "" THEN Class(r) ELSE "one"
     IN /\ IF w = "" THEN TRUE
           ELSE PrintT(ToJson([reject |-> l, why |-> w, rec |-> r,
                               allowed |-> IF w = "outcome"
                                           THEN Allowed(Parse(Pcs(r.pcc, r.pcl)).atoms, r.s, CfgOf(r)) ELSE {}]))
        /\ nopen' = nopen + (IF k = "open" THEN 1 ELSE 0)
        /\ nmulti' = nmulti + (IF k = "multi" THEN 1 ELSE 0)
        /\ IF l = Len(Rec)
           THEN PrintT(ToJson([judged |-> Len(Rec), open |-> nopen', multi |-> nmulti']))
           ELSE TRUE
  /\ l' = l + 1

TraceSpec == TraceInit /\ [][TraceNext]_vars

\* every record was judged
Accepted == TLCGet("stats").diameter - 1 = Len(Rec)
=============================================================================
