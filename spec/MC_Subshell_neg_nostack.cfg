\* negative test: a child that forgets the execution context it was created in must be refuted (ContextDuplicated)
CONSTANTS
  MaxPre = 0
  MaxChild = 1
  MaxPost = 0
  MaxTotal = 1
  MinPre = 0
  MinTotal = 0
  Leaky = FALSE
  ForkBug = "nostack"
  Alphabet <- CtxCmds
  PreAlphabet <- CtxPreCmds
  Kinds <- AllKinds
  Modes <- ScriptMode
  Fins <- NormalFin
  Ctxs <- CondCtxs
INIT Init
NEXT Next
INVARIANTS ContextDuplicated
