INIT Init
NEXT Next
CONSTANTS
  SAlpha <- StrClass
  SLen = 3
  Shards = 16
INVARIANT Emit
