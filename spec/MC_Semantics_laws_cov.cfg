SPECIFICATION Spec
CONSTANTS
  Fuel = 24
  TickLimit = 2
  K = 2
  Alphabet <- AlphaAll
  ItemAlphabet <- ItemsAll
  Mode = "c02"
INVARIANT Laws
CHECK_DEADLOCK FALSE
