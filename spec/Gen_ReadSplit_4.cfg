SPECIFICATION Spec
CONSTANT MaxLen = 4
INVARIANT Emit
INVARIANT EmptyIfsLaw
