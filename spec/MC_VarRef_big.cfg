SPECIFICATION GSpec
CONSTANTS
  Names = {"x"}
  Vals = {"a", "b"}
  MaxDepth = 3
  PosVals <- PosNone
  Thens = {"none", "assign", "export", "ro"}
INVARIANT TypeOK
INVARIANT ProjectionFaithful
INVARIANT EnvExact
INVARIANT ScopedOpsAreLocal
INVARIANT PopRestores
INVARIANT LocalsVanish
INVARIANT AssignThenLookup
PROPERTY GReadOnlyNeverChanges
PROPERTY GReadOnlyVisible
