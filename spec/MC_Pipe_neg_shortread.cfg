SPECIFICATION Spec
CONSTANTS
  PIPE_BUF = 2
  PIPE_SIZE = 4
  NProc = 3
  MaxN = 10
  Chunks = {1, 3, 4}
  Filters = {"all", "stream"}
  Takes = {FALSE, TRUE}
  FAULT = "shortread"
INVARIANT TypeOK
INVARIANT Capacity
INVARIANT Order
INVARIANT Conservation
INVARIANT Completeness
INVARIANT TakeOutcome
INVARIANT NoLostWake
CHECK_DEADLOCK TRUE
