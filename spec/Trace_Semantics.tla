-------------------------- MODULE Trace_Semantics --------------------------
(***************************************************************************)
(* P3 for C02/C10: records {p, e, t, y, oc, tr, st} produced by executing  *)
(* seeded random programs on the real shell are validated against the      *)
(* specification: TLC evaluates the interpreter of Semantics.tla on the    *)
(* recorded program and run options and requires the recorded outcome to   *)
(* be the one the specification prescribes.  Programs the specification    *)
(* classifies as unspecified or diverging are accepted whatever was        *)
(* observed (and counted: one JSON line each).                             *)
(***************************************************************************)
EXTENDS Semantics, Json, IOUtils

Rec == ndJsonDeserialize(IOEnv.TRACE)

VARIABLE l
vars == <<l>>

\* Symbolic statuses (<= -10) stand for "a non-zero status POSIX only bounds":
\* each is bound consistently to one observed value in 1..255.
Unify(etr, est, otr, ost) ==
  LET E == Append(etr, <<-1, est>>)
      O == Append(otr, <<-1, ost>>)
  IN /\ Len(E) = Len(O)
     /\ \A i \in 1..Len(E) :
          /\ E[i][1] = O[i][1]
          /\ IF E[i][2] <= -10 THEN O[i][2] \in 1..255 ELSE E[i][2] = O[i][2]
     /\ \A i, j \in 1..Len(E) : (E[i][2] <= -10 /\ E[i][2] = E[j][2]) => O[i][2] = O[j][2]

Accept(r, i) ==
  LET R == Run(Parse(r.p), [e |-> r.e, t |-> r.t, y |-> r.y])
  IN IF R.oc # "ok" THEN PrintT(ToJson([skip |-> R.oc, i |-> i]))
     ELSE IF r.oc = "completed" /\ Unify(R.tr, R.st, r.tr, r.st) THEN TRUE
     ELSE \* rejected: say what the specification prescribes
          PrintT(ToJson([reject |-> i, tag |-> R.tag, tr |-> R.tr, st |-> R.st])) /\ FALSE

TraceInit == l = 1

TraceNext ==
  /\ l <= Len(Rec)
  /\ Accept(Rec[l], l)
  /\ l' = l + 1

TraceSpec == TraceInit /\ [][TraceNext]_vars

Accepted ==
  LET d == TLCGet("stats").diameter
  IN IF d - 1 = Len(Rec) THEN TRUE
     ELSE Print(<<"REJECT", d, ToJson(Rec[d])>>, FALSE)
=============================================================================
