\* negative configuration: the wrong variant "child_only" must be refuted (law ParentSees)
SPECIFICATION Spec
CONSTANTS
  Variant = "child_only"
  Fams = {"fg", "async", "stop1", "tty", "nomon"}
  Cfgs = {"m", "mi", "-", "ml", "mib"}
  Enf = {TRUE}
ALIAS Brief
INVARIANT ParentSees
