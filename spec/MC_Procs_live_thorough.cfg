\* P1 liveness (thorough): every behaviour terminates under weak fairness of every process
SPECIFICATION FairSpec
CONSTANTS
  Variant = "ok"
  MaxP = 10
  Scripts <- CatThorough
PROPERTY Termination
