\* G14 negative configuration: the wrong variant "any-name" of SigNames.tla must be refuted by a law
SPECIFICATION Spec
CONSTANTS
  Level = "laws"
  Variant = "any-name"
INVARIANT LawsHold
