SPECIFICATION TraceSpec
CONSTANTS
  Variant = "ok"
