---------------------------- MODULE Gen_ReadSplit ----------------------------
(***************************************************************************)
(* spec -> impl enumeration for the `read` part of C01: every line of up   *)
(* to MaxLen symbols over {a, space, ':', \space, \:} x IFS in {unset, "", *)
(* " ", ":", " :"} x 1..3 variables; the invariant prints {line, n, ifs,   *)
(* out} with the set of assignments Split.tla allows (ReadAllowed).        *)
(***************************************************************************)
EXTENDS Expand, Json, IOUtils

CONSTANT MaxLen

Symbols == { [c |-> c, esc |-> FALSE] : c \in {"a", " ", ":"} } \cup { [c |-> c, esc |-> TRUE] : c \in {" ", ":"} }
IfsTable == << [set |-> FALSE, v |-> ""], Val(""), Val(" "), Val(":"), Val(" :") >>

VARIABLES line, n, fi
vars == <<line, n, fi>>

Init == line = <<>> /\ n \in 1..3 /\ fi \in DOMAIN IfsTable
Next == Len(line) < MaxLen /\ \E s \in Symbols : line' = Append(line, s) /\ UNCHANGED <<n, fi>>
Spec == Init /\ [][Next]_vars

RECURSIVE SeqOfSet(_)
SeqOfSet(S) == IF S = {} THEN <<>> ELSE LET e == CHOOSE e \in S : TRUE IN <<e>> \o SeqOfSet(S \ {e})

Emit ==
  LET ifs == IfsTable[fi]
      A == ReadOutcomes(line, n, [set |-> ifs.set, v |-> Chars(ifs.v)])
  IN PrintT(ToJson([line |-> line, n |-> n, ifs |-> ifs, out |-> SeqOfSet(A)]))

(* with an empty IFS the whole line (escapes removed) goes to the first variable *)
EmptyIfsLaw ==
  IfsTable[fi] = Val("") =>
    ReadOutcomes(line, n, [set |-> TRUE, v |-> <<>>])
      = { [k \in 1..n |-> IF k = 1 THEN Str([i \in DOMAIN line |-> line[i].c]) ELSE ""] }
=============================================================================
