SPECIFICATION Spec
CONSTANT MaxPath = 3
CONSTANT Slice = 1
INVARIANT Emit
INVARIANT Laws
