SPECIFICATION Spec
CONSTANT MaxPath = 3
CONSTANT Slice = 1
CONSTANT Real = FALSE
INVARIANT Emit
INVARIANT Laws
