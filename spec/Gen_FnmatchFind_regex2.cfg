INIT Init
NEXT Next
CONSTANTS
  SAlpha <- StrRegex
  SLen = 2
  Shards = 16
INVARIANT Emit
