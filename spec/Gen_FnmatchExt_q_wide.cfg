INIT Init
NEXT Next
VIEW view
CONSTANTS
  Variant = ""
  PNorm <- TokWide
  PLit <- NoChars
  PMacro <- MacWide
  PLen = 2
  SAlpha <- StrWide
  SLen = 2
  CfgSel = "all"
  Kind = "match"
INVARIANT Emit
