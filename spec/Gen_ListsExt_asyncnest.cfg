SPECIFICATION Spec
CONSTANTS
  Fuel = 24
  TickLimit = 2
  Variant = ""
  K = 5
  Alphabet <- AlphaAsyncNest
  ItemAlphabet <- NoItems
  Opts <- OptsPlain
INVARIANT Emit
CHECK_DEADLOCK FALSE
