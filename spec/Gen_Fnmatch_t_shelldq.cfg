INIT Init
NEXT Next
VIEW view
CONSTANTS
  PNorm <- AlphaDq
  PLit <- LitDq
  PMacro <- NoChars
  PLen = 4
  SAlpha <- StrDq
  SLen = 3
  Kind = "shell"
INVARIANT Emit
