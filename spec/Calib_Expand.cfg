
