-------------------------- MODULE Calib_WordSubst --------------------------
(***************************************************************************)
(* Calibration of the G15 oracle: worked examples of the manual            *)
(* (docs/src/language/words/command_substitution.md, arithmetic.md,        *)
(* docs/src/arithmetic.md, docs/src/language/commands/simple.md) and cases *)
(* of the POSIX conformance scripts yash-cli/tests/scripted_test/          *)
(* cmdsub-p.sh, arith-p.sh, simple-p.sh, transcribed by hand (`echoraw` /  *)
(* `printf` are written with put / echo; the variables are x and y).       *)
(* A failing ASSUME is a tool error (the oracle is wrong), not a violation.*)
(***************************************************************************)
EXTENDS WordSubst

L(s) == WLit(s)
P(p) == WPar(p)
DQ(us) == WDq(us)
SQ(s) == WSq(s)
S0 == [x |-> Unset, y |-> Unset, pos |-> <<>>, ifs |-> Val(" \t\n"), nounset |-> FALSE, st |-> "0"]
SX(v) == [S0 EXCEPT !.x = Val(v)]
SXY(v, w) == [S0 EXCEPT !.x = Val(v), !.y = Val(w)]
O(ctx, w, st) == Outcome(ctx, w, st)
F(ctx, w, st) == LET o == O(ctx, w, st) IN IF o.k = "ok" THEN o.f ELSE <<"?" \o o.k \o "?">>
C(b) == WPar0(b)
NL == "\n"

\* --- command_substitution.md -------------------------------------------------
\* :22  echo $(echo $(echo hello))        :24  echo "$(echo "$(echo hello)")"
ASSUME F("arg", C(<<Echo(<<C(<<Echo(<<C(<<Echo(<<L("hello")>>)>>)>>)>>)>>)>>), S0) = <<"hello">>
ASSUME F("arg", DQ(C(<<Echo(<<DQ(C(<<Echo(<<L("hello")>>)>>))>>)>>)), S0) = <<"hello">>
ASSUME Text("arg", DQ(C(<<Echo(<<DQ(C(<<Echo(<<L("hello")>>)>>))>>)>>))) = "\"$(echo \"$(echo hello)\")\""
\* :31  echo `echo \`echo hello\``        :33  echo "`echo \"\`echo hello\`\"`"
Bq1 == WBq(<<Echo(<<WBq(<<Echo(<<L("hello")>>)>>)>>)>>)
Bq2 == DQ(WCs("bq", FALSE, "max", <<Echo(<<DQ(WCs("bq", FALSE, "max", <<Echo(<<L("hello")>>)>>))>>)>>))
ASSUME Text("arg", Bq1) = "`echo \\`echo hello\\``"
ASSUME F("arg", Bq1, S0) = <<"hello">>
ASSUME Text("arg", Bq2) = "\"`echo \\\"\\`echo hello\\`\\\"`\""
ASSUME F("arg", Bq2, S0) = <<"hello">>
\* :37  `$((echo + 1); (echo + 2))` is a command substitution; `$( (echo + 1); (echo + 2))` forces it
ASSUME Text("arg", WCs("par", TRUE, "min", <<Sub(<<Put(<<L("a")>>)>>), Sub(<<Put(<<L("b")>>)>>)>>)) = "$((put a); (put b))"
ASSUME F("arg", WCs("par", TRUE, "min", <<Sub(<<Put(<<L("a")>>)>>), Sub(<<Put(<<L("b")>>)>>)>>), S0) = <<"ab">>
ASSUME Text("arg", WCs("par", FALSE, "min", <<Sub(<<Put(<<L("a")>>)>>)>>)) = "$( (put a))"
ASSUME F("arg", WCs("par", FALSE, "min", <<Sub(<<Put(<<L("a")>>)>>)>>), S0) = <<"a">>
ASSUME O("arg", WCs("par", TRUE, "min", <<Sub(<<Put(<<L("a")>>)>>)>>), S0).k = "skip"
\* :41  "Trailing newlines are removed"

\* --- words/arithmetic.md -----------------------------------------------------
\* :10-15
ASSUME F("arg", WAr(L("1 + 2")), S0) = <<"3">>
ASSUME F("arg", WAr(L("2 * 3 + 4")), S0) = <<"10">>
ASSUME F("arg", WAr(L("2 * (3 + 4)")), S0) = <<"14">>
ASSUME Text("arg", WAr(L("2 * (3 + 4)"))) = "$((2 * (3 + 4)))"
\* :21  x=2; echo $(($x + $((3 * 4)) + $(echo 5)))  -> 19
ASSUME F("arg", WAr(P("x") \o L(" + ") \o WAr(L("3 * 4")) \o L(" + ") \o C(<<Echo(<<L("5")>>)>>)), SX("2")) = <<"19">>
\* :37  seven='3 + 4'; echo $((2 * $seven)) -> 10 (the value text is substituted)
ASSUME F("arg", WAr(L("2 * ") \o P("x")), SX("3 + 4")) = <<"10">>
\* :58  echo $((\$x)) -> error
ASSUME O("arg", WAr(WBs("$") \o L("x")), SX("1")).k = "err"

\* --- arithmetic.md -----------------------------------------------------------
\* :14-19
ASSUME F("arg", WAr(L("42")), S0) = <<"42">> /\ F("arg", WAr(L("042")), S0) = <<"34">> /\ F("arg", WAr(L("0x2A")), S0) = <<"42">>
\* :33  a=5 b=10; echo $((a + b)) -> 15
ASSUME F("arg", WAr(L("x + y")), SXY("5", "10")) = <<"15">>
\* :40  unset x; echo $((x + 3)) -> 3        :47  with nounset: error
ASSUME F("arg", WAr(L("x + 3")), S0) = <<"3">>
ASSUME O("arg", WAr(L("x + 3")), [S0 EXCEPT !.nounset = TRUE]).k = "err"
\* :66  x=foo; echo $((x + 3)) -> error
ASSUME O("arg", WAr(L("x + 3")), SX("foo")).k = "err"

\* --- simple.md ---------------------------------------------------------------
\* :138 no fields: "the exit status is that of the last command substitution in the command, or zero"
ASSUME O("noname", C(<<St("3")>>), S0).q = "3"
ASSUME O("noname", C(<<St("3")>>) \o C(<<St("0")>>), S0).q = "0"
ASSUME O("noname", P("x"), [S0 EXCEPT !.st = "5"]).q = "0"

\* --- cmdsub-p.sh -------------------------------------------------------------
\* :8   a=$(echo a) && bracket $a`echo b` -> [ab]
ASSUME F("assign", C(<<Echo(<<L("a")>>)>>), S0) = <<"a">>
ASSUME F("arg", P("x") \o WBq(<<Echo(<<L("b")>>)>>), SX("a")) = <<"ab">>
\* :14  a=a; b=$(a=x; echo b); bracket $a$b -> [ab]
ASSUME LET o == O("arg", P("x") \o C(<<Asg("x", L("x")), Echo(<<L("b")>>)>>), SX("a")) IN o.f = <<"ab">> /\ o.x = Val("a")
\* :22  trailing newlines: 'x\ny' 'x\ny\n' 'x\n\ny\n\n\n\n'
ASSUME F("arg", DQ(C(<<Put(<<SQ("x" \o NL \o "y")>>)>>)), S0) = <<"x" \o NL \o "y">>
ASSUME F("arg", DQ(C(<<Put(<<SQ("x" \o NL \o "y" \o NL)>>)>>)), S0) = <<"x" \o NL \o "y">>
ASSUME F("arg", DQ(C(<<Put(<<SQ("x" \o NL \o NL \o "y" \o NL \o NL \o NL \o NL)>>)>>)), S0) = <<"x" \o NL \o NL \o "y">>
\* :46  bracket $(printf 'a\n\nb') -> [a][b]
ASSUME F("arg", C(<<Put(<<SQ("a" \o NL \o NL \o "b")>>)>>), S0) = <<"a", "b">>
\* :52  echoraw `echoraw \`echoraw x\`` -> x ;  echoraw `echoraw '\$y'` -> $y
ASSUME F("arg", WBq(<<Put(<<WBq(<<Put(<<L("x")>>)>>)>>)>>), S0) = <<"x">>
ASSUME F("arg", WBqRaw(<<"\\$", "y">>), S0) = <<"$y">>
\* :62  quotations in backquotes: '\$' -> $ ; '\\\\' -> \\ ; '\"' -> \" ; '\`echo c\`' -> `echo c`
ASSUME F("arg", WBqRaw(<<"\\$">>), S0) = <<"$">>
ASSUME F("arg", WBqRaw(<<"\\\\", "\\\\">>), S0) = <<"\\\\">>
ASSUME F("arg", WBqRaw(<<"\\\"">>), S0) = <<"\\\"">>
ASSUME F("arg", DQ(WBqRaw(<<"\\`", "c", "\\`">>)), S0) = <<"`c`">>
\* :78  in double quotes: "`echoraw \$ ...`" ; "`echoraw \"1\"`" -> 1 ; '\\\\' -> \\
ASSUME F("arg", DQ(WBqRaw(<<"\\\\", "\\\\">>)), S0) = <<"\\\\">>
ASSUME F("arg", DQ(WCs("bq", FALSE, "max", <<Put(<<DQ(L("1"))>>)>>)), S0) = <<"1">>
ASSUME Text("arg", DQ(WCs("bq", FALSE, "max", <<Put(<<DQ(L("1"))>>)>>))) = "\"`put \\\"1\\\"`\""
\* :94  in a here-document: `echoraw \"1\"` -> 1 ; " `echoraw \"2\"` " -> " 2 "
ASSUME F("here", WCs("bq", FALSE, "max", <<Put(<<DQ(L("1"))>>)>>), S0) = <<"1">>
ASSUME Text("here", WCs("bq", FALSE, "max", <<Put(<<DQ(L("1"))>>)>>)) = "`put \\\"1\\\"`"
ASSUME F("here", DQ(L(" ") \o WCs("bq", FALSE, "max", <<Put(<<DQ(L("2"))>>)>>) \o L(" ")), S0) = <<"\" 2 \"">>
\* :104 echoraw "$(echoraw ")\$"')\$'\)\$)" -> )$)\$)$
ASSUME F("arg", DQ(C(<<Put(<<DQ(L(")") \o WBs("$")) \o SQ(")\\$") \o WBs(")") \o WBs("$")>>)>>)), S0) = <<")$)\\$)$">>
\* :152 the result is not subject to further expansion
ASSUME F("arg", C(<<Put(<<SQ("~/$x$()$((1))``")>>)>>), SX("A")) = <<"~/$x$()$((1))``">>
ASSUME F("arg", DQ(C(<<Put(<<SQ("~/$x$()$((1))``")>>)>>)), SX("A")) = <<"~/$x$()$((1))``">>
\* :161 field splitting: 'A B  C'
ASSUME F("arg", C(<<Put(<<SQ("A B  C")>>)>>), S0) = <<"A", "B", "C">>
ASSUME F("arg", DQ(C(<<Put(<<SQ("A B  C")>>)>>)), S0) = <<"A B  C">>
\* :169 pathname expansion on the result (the directory holds d1 f1 "f2 x")
ASSUME F("arg", C(<<Put(<<SQ("f*")>>)>>), S0) = <<"f1", "f2 x">>
ASSUME F("arg", DQ(C(<<Put(<<SQ("f*")>>)>>)), S0) = <<"f*">>
\* :177 echo $( (echo $(echo $(echo x)))) -> x
ASSUME F("arg", C(<<Sub(<<Echo(<<C(<<Echo(<<C(<<Echo(<<L("x")>>)>>)>>)>>)>>)>>)>>), S0) = <<"x">>

\* --- arith-p.sh --------------------------------------------------------------
\* :10  $((0)) $((1)) $((100)) $((020)) $((0x7F))
ASSUME F("arg", WAr(L("020")) \o WSp \o WAr(L("0x7F")), S0) = <<"16", "127">>
\* :16  plus_one=+1 minus_one=-1: $((plus_one)) $((minus_one))
ASSUME F("arg", WAr(L("x")) \o WSp \o WAr(L("y")), SXY("+1", "-1")) = <<"1", "-1">>
\* :150 a=0; $((1&&(a=5))) ; $((0&&(a=-5))) ; $a -> 1 0 5
ASSUME LET o == O("arg", WAr(L("1&&(x=5)")) \o WSp \o WAr(L("0&&(x=-5)")) \o WSp \o P("x"), SX("0")) IN o.f = <<"1", "0", "5">> /\ o.x = Val("5")
\* :188 $((a=5)) ... then $a
ASSUME LET o == O("arg", WAr(L("x=5")) \o WSp \o WAr(L("y*=3")), SXY("0", "2")) IN o.f = <<"5", "6">> /\ o.x = Val("5") /\ o.y = Val("6")
\* :203 unset x; $((a=x)) && echoraw $a -> 0 0
ASSUME LET o == O("arg", WAr(L("y=x")), S0) IN o.f = <<"0">> /\ o.y = Val("0")
\* :352 a=+123; $(($a)) $((${a%3})) $(($a-23)) -> 123 12 100
ASSUME F("arg", WAr(P("x")) \o WSp \o WAr(WTrim("x", "%", FALSE, L("3"))) \o WSp \o WAr(P("x") \o L("-23")), SX("+123")) = <<"123", "12", "100">>
\* :358 $(($(echo 123))) $((1+$(echo 10)+`echo 100`+1000)) -> 123 1111
ASSUME F("arg", WAr(C(<<Echo(<<L("123")>>)>>)), S0) = <<"123">>
ASSUME F("arg", WAr(L("1+") \o C(<<Echo(<<L("10")>>)>>) \o L("+") \o WBq(<<Echo(<<L("100")>>)>>) \o L("+1000")), S0) = <<"1111">>
\* :369 unset a; $((${a=1})); $a -> 1 1
ASSUME LET o == O("arg", WAr(WSw("x", FALSE, "=", L("1"))), S0) IN o.f = <<"1">> /\ o.x = Val("1")

\* --- simple-p.sh -------------------------------------------------------------
\* :7   $(exit 11) -> exit status 11
ASSUME O("noname", C(<<Exit("11")>>), S0).q = "11"
\* :43  a=$x${x} b=$(echo $x)`echo $x` c=$((1+2)) -> [XX][XX][3]
ASSUME F("assign", C(<<Echo(<<P("x")>>)>>) \o WBq(<<Echo(<<P("x")>>)>>), SX("X")) = <<"XX">>
ASSUME F("assign", WAr(L("1+2")), S0) = <<"3">>
\* :122 a=$(exit 13) -> 13
ASSUME O("assign", C(<<Exit("13")>>), S0).q = "13"
\* :126 a=foo$(false); bracket "$a" -> [foo]   (status of false: 1)
ASSUME LET o == O("assign", L("foo") \o C(<<St("1")>>), S0) IN o.f = <<"foo">> /\ o.q = "1"
\* :141 >/dev/null$(exit 17) -> 17
ASSUME LET o == O("redir", L("n") \o C(<<Exit("17")>>), S0) IN o.f = <<"n">> /\ o.q = "17"

\* --- POSIX 2.6.4: "$((x))" and "$(($x))" return the same value for an integer constant
ASSUME \A v \in {"7", "-3", "+4", "010", "0x1f"} : F("arg", WAr(L("x")), SX(v)) = F("arg", WAr(P("x")), SX(v))
\* 2.6.3: side effects do not leak, but earlier side effects of the same word are visible
ASSUME LET o == O("arg", WSw("x", FALSE, "=", L("1")) \o C(<<Put(<<P("x")>>)>>), S0) IN o.f = <<"11">> /\ o.x = Val("1")
ASSUME LET o == O("arg", C(<<Put(<<P("x")>>)>>) \o WSw("x", FALSE, "=", L("1")), S0) IN o.f = <<"1">>
ASSUME LET o == O("arg", WAr(L("x=5")) \o C(<<Put(<<P("x")>>)>>), S0) IN o.f = <<"55">>
\* 2.6.5: an unquoted arithmetic result is split (IFS holding a digit or the minus sign)
ASSUME F("arg", WAr(L("1000+1")), [S0 EXCEPT !.ifs = Val("0")]) = <<"1", "", "1">>
ASSUME F("arg", DQ(WAr(L("100+1"))), [S0 EXCEPT !.ifs = Val("0")]) = <<"101">>
ASSUME F("arg", L("a") \o WAr(L("2-5")), [S0 EXCEPT !.ifs = Val("-")]) = <<"a", "3">>
=============================================================================
