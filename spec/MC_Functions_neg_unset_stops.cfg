\* negative configuration: the wrong variant "unset_stops" must be refuted by P_UnsetAll
SPECIFICATION Spec
CONSTANTS
  MaxDepth = 4
  Variant = "unset_stops"
  Fams = {"tabmain"}
  LB = 1
  LM = 2
  Wide = {}
  Stepwise = TRUE
PROPERTY P_UnsetAll
