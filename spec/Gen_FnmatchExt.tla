--------------------------- MODULE Gen_FnmatchExt ---------------------------
(***************************************************************************)
(* G19, spec -> impl enumeration and the theorems of FnmatchExt.tla.        *)
(* One state per pattern over a token alphabet (as Gen_Fnmatch).            *)
(*                                                                          *)
(* Kind = "match": for every pattern one JSON line with everything that     *)
(* FnmatchExt.tla demands of the crate's API for that pattern:              *)
(*   c, l   pattern characters and their quoted flags (1 = Literal)         *)
(*   u      "" or the reason for which POSIX leaves the meaning open        *)
(*   mc     a multi-character collating element occurs (open here)          *)
(*   ek     allowed results of parse_with_config: "" = Ok, an error kind,   *)
(*          "*" = anything                                                  *)
(*   lit, lv   as_literal / into_literal: is Some, and the string           *)
(*   ak, ac    the atoms of Ast::new: kinds and (for Char) characters       *)
(*   t      [subject |-> row]; a row has one entry per configuration of     *)
(*          the header's `cfgs`: the SET of allowed outcomes, each encoded  *)
(*          as the decimal number with digits f1+1 f2+1 r1+1 r2+1 (find     *)
(*          and rfind ranges in characters; 0 = both None).  is_match must  *)
(*          equal (find # None).  Subjects no part of which is denoted      *)
(*          under any reading are omitted: every entry would be {0}.        *)
(* Header line: dom (the subjects), cfgs, wide (the folding table's         *)
(* characters with their code points, checked by the harness).              *)
(*                                                                          *)
(* Kind = "shell": lines for `case` and the four trims through the whole    *)
(* shell: rows <<s, ${s#p}, ${s##p}, ${s%p}, ${s%%p}, case>> where case     *)
(* is "1" iff the pattern denotes s.                                        *)
(*                                                                          *)
(* Kind = "laws": nothing is printed; the invariant Laws states theorems    *)
(* of the definitions on every pattern x subject x configuration.           *)
(***************************************************************************)
EXTENDS FnmatchExt, Json

CONSTANTS PNorm,    \* unquoted one-character tokens
          PLit,     \* quoted one-character tokens
          PMacro,   \* multi-character tokens (strings, all characters unquoted)
          PLen,     \* maximal number of tokens
          SAlpha,   \* characters of the subjects
          SLen,     \* maximal subject length (<= 8)
          CfgSel,   \* which configurations: "all" | "ext" | "ci" | "lp" | "cilp"
          Kind

LongS  == WChar(383)     \* U+017F, folds to s
Kelvin == WChar(8490)    \* U+212A, folds to k
AUml   == WChar(196)
aUml   == WChar(228)
IDot   == WChar(304)     \* U+0130: no simple folding
Sharp  == WChar(223)
SharpU == WChar(7838)
Sigma  == WChar(931)
sigma  == WChar(963)
sigmaF == WChar(962)
Hira   == WChar(12354)
Acute  == WChar(769)
Emoji  == WChar(128512)

\* alphabets named here because a .cfg file cannot write these characters
NoChars   == {}
\* case folding: letters, a range, a class, complements
TokCI     == {"a", "B", "*", "?"}
MacCI     == {"[a-c]", "[!b]", "[[:upper:]]"}
StrCI     == {"a", "A", "b", "C"}
TokCIt    == {"a", "B", "s", "*", "?"}
MacCIt    == {"[a-c]", "[!b]", "[[:upper:]]", "[![:lower:]]"}
StrCIt    == {"a", "A", "b", "S", LongS}
StrCIq    == {"a", "B", "S", LongS}
TokCIw    == {"k", aUml, Sharp, sigma, IDot, "*", "?"}
MacCIw    == {"[i-k]", "[![:alpha:]]", "[[:lower:]1]"}
StrCIw    == {"K", Kelvin, AUml, SharpU, Sigma, sigmaF, IDot, "i", "1"}
\* the leading period
TokLP     == {"a", ".", "*", "?"}
LitLP     == {"."}
MacLP     == {"[.]", "[!a]"}
LitLPt    == {".", "*"}
MacLPt    == {"[.]", "[!a]", "[.a]"}
StrLP     == {"a", ".", "b"}
\* both flags
TokCL     == {"a", ".", "*", "?"}
MacCL     == {"[!A]", "[.a]"}
StrCL     == {"a", "A", "."}
\* the theorems
TokLaw    == {"a", "B", ".", "*", "?"}
LitLaw    == {"*", "."}
MacLaw    == {"[!a]", "[.b]", "[[:upper:]]", "[a-b]"}
StrLaw    == {"a", "B", ".", LongS}
TokLawQ   == {"a", ".", "*"}
LitLawQ   == {"*"}
MacLawQ   == {"[!a]", "[[:upper:]]", "[.b]"}
StrLawQ   == {"a", "B", "."}
\* the literal fast path: every character that is special in the regular-expression language
TokLit    == {"a", ".", "+", "\\", "(", "[", "^", "$", "|", "?"}
LitLit    == {"*", "?", "[", "A"}
MacLit    == {"[a]", "{1}"}
StrLit    == {"a", "A", ".", "+", "*", "\\", "("}
TokLit2   == {"a", "A", ".", "]", ")", "{", "}", "-", "#", "&", "~", "*"}
StrLit2   == {"a", "A", ".", "]", "{", "#", "~"}
\* multi-byte characters (ranges are reported in bytes by the crate)
TokWide   == {"a", aUml, Emoji, "*", "?"}
MacWide   == {"[!a]"}
StrWide   == {"a", aUml, Emoji, Acute, "."}
TokWidet  == {"a", aUml, Hira, Emoji, Acute, "*", "?"}
StrWidet  == {"a", aUml, Hira, Emoji, Acute, "."}
\* errors
TokErr    == {"[", "]"}
MacErr    == {"a-", "-a", "[:digit:]", "[:nothing:]", "[..]", "[==]", "[.a.]"}
StrErr    == {"a", "1", "-"}
TokErrQ   == {"]", "a"}
MacErrQ   == {"-a", "[[:digit:]", "[[:nothing:]", "[[..]", "[[==]", "[a-[:digit:]", "[[.a.]", "[[:alpha:]"}
\* the shell
TokSh     == {"a", "A", ".", "*", "?", aUml}
LitSh     == {"*", "?", "+", "."}
MacSh     == {"[.]", "[!a]"}
StrSh     == {"a", "A", ".", "*", "+", aUml, AUml}

ASSUME \A c \in PNorm \cup PLit \cup SAlpha : Len(c) = 1 \/ c \in WideChars
Tokens == {<<Nc(c)>> : c \in PNorm} \cup {<<Lc(c)>> : c \in PLit}
          \cup {WithoutEscape(Explode(m)) : m \in PMacro}

Dom == UNION {[1..k -> SAlpha] : k \in 0..SLen}

RECURSIVE Join(_)
Join(s) == IF Len(s) = 0 THEN "" ELSE s[1] \o Join(Tail(s))
DomStr == [s \in Dom |-> Join(s)]
StrDom == [str \in {DomStr[s] : s \in Dom} |-> CHOOSE s \in Dom : DomStr[s] = str]

Bools == <<FALSE, TRUE>>
CfgAll == [n \in 0..31 |-> [ab |-> Bools[(n % 2) + 1], ae |-> Bools[((n \div 2) % 2) + 1],
                            sh |-> Bools[((n \div 4) % 2) + 1], lp |-> Bools[((n \div 8) % 2) + 1],
                            ci |-> Bools[((n \div 16) % 2) + 1]]]
Selected(cfg) ==
  CASE CfgSel = "all"  -> TRUE
    [] CfgSel = "ext"  -> cfg.lp \/ cfg.ci
    [] CfgSel = "ci"   -> cfg.ci /\ ~cfg.lp
    [] CfgSel = "lp"   -> cfg.lp /\ ~cfg.ci
    [] CfgSel = "cilp" -> cfg.lp /\ cfg.ci
CfgSeq == SelectSeq([n \in 1..32 |-> CfgAll[n - 1]], Selected)

ASSUME SLen <= 8
ASSUME Kind = "laws" \/
       PrintT(ToJson([dom  |-> {DomStr[s] : s \in Dom},
                      cfgs |-> CfgSeq,
                      wide |-> [i \in WideIdx |-> <<WideTable[i][1], ToString(WideTable[i][2])>>]]))

VARIABLES p, n
vars == <<p, n>>
view == p

Init == p = <<>> /\ n = 0
Next == n < PLen /\ \E t \in Tokens : p' = p \o t /\ n' = n + 1

Enc(o) == (o[1] + 1) * 1000 + (o[2] + 1) * 100 + (o[3] + 1) * 10 + (o[4] + 1)

\* The parts of the domain that the pattern denotes: case-sensitively, and
\* case-insensitively under the two readings of a non-matching list.  The domain
\* is closed under taking parts, so the denoted parts of a subject can be read
\* off these sets (theorem L_Tab).
MSets(A) ==
  LET MS0 == {s \in Dom : MatchAtX(A, 1, s, 1, FALSE, "all")}
      MS1 == IF IsLiteralA(A) /\ Variant # "ci_literal" THEN MS0 ELSE {s \in Dom : MatchAtX(A, 1, s, 1, TRUE, "all")}
      MS2 == IF ~HasNeg(A) THEN MS1 ELSE {s \in Dom : MatchAtX(A, 1, s, 1, TRUE, "any")}
  IN <<MS0, MS1, MS2>>

PartsIn(s, MS) == {r \in Pairs(Len(s)) : SubSeq(s, r[1] + 1, r[2]) \in MS}

\* one entry per configuration: the set of allowed outcomes
Row(A, M, s) ==
  LET P0 == PartsIn(s, M[1])
      P1 == IF M[2] = M[1] THEN P0 ELSE PartsIn(s, M[2])
      P2 == IF M[3] = M[2] THEN P1 ELSE PartsIn(s, M[3])
  IN [k \in 1..Len(CfgSeq) |->
        LET cfg == CfgSeq[k]
            RS(ng) == IF ~cfg.ci THEN P0 ELSE IF ng = "all" THEN P1 ELSE P2
        IN {Enc(o) : o \in AllowedR(RS, NegReadingsFor(A, cfg), Len(s), cfg, LeadDot(A, s, cfg))}]

Line ==
  LET P    == Parse(p)
      A    == P.atoms
      open == P.un # {} \/ P.mc
      lit  == IsLiteralA(A)
      M    == MSets(A)
      MSU  == M[1] \cup M[2] \cup M[3]
      Touched(s) == \E r \in Pairs(Len(s)) : SubSeq(s, r[1] + 1, r[2]) \in MSU
  IN [c   |-> [i \in 1..Len(p) |-> p[i].c],
      l   |-> [i \in 1..Len(p) |-> IF p[i].l THEN 1 ELSE 0],
      u   |-> IF P.un = {} THEN "" ELSE CHOOSE r \in P.un : TRUE,
      mc  |-> P.mc,
      ek  |-> ErrAllowed(p),
      lit |-> lit,
      lv  |-> IF open THEN <<>> ELSE LiteralOf(A),
      ak  |-> IF open THEN <<>> ELSE AtomKinds(A),
      ac  |-> IF open THEN <<>> ELSE AtomChars(A),
      t   |-> IF open THEN [s \in {} |-> <<>>]
              ELSE [s \in {DomStr[x] : x \in {x \in Dom : Touched(x)}} |->
                       Row(A, M, StrDom[s])]]

\* `case` and the trims through the whole shell (FnmatchExt!ShellCfg, TrimX)
ShellLine ==
  LET P  == Parse(p)
      A  == P.atoms
      ok == P.un = {} /\ ~P.mc
  IN [c  |-> [i \in 1..Len(p) |-> p[i].c],
      l  |-> [i \in 1..Len(p) |-> IF p[i].l THEN 1 ELSE 0],
      u  |-> IF ok THEN "" ELSE "open",
      sh |-> IF ok
             THEN {<< DomStr[s], Join(TrimX(A, s, "#")), Join(TrimX(A, s, "##")),
                      Join(TrimX(A, s, "%")), Join(TrimX(A, s, "%%")),
                      IF Outcome(A, s, ShellCfg("case"), "all", "skip")[1] = 0 THEN "1" ELSE "0" >> : s \in Dom}
             ELSE {}]

Emit == Kind = "laws" \/ PrintT(ToJson(IF Kind = "shell" THEN ShellLine ELSE Line))

(***************************************************************************)
(* Theorems of the definitions (Kind = "laws"), for the pattern p of the   *)
(* state, every subject of the domain, all 32 configurations and every     *)
(* reading.  A failure is a defect of the specification (tool error).      *)
(***************************************************************************)
Cfg3(cfg) == [ab |-> cfg.ab, ae |-> cfg.ae, sh |-> cfg.sh]
F(o) == <<o[1], o[2]>>
R(o) == <<o[3], o[4]>>
Part(s, r) == SubSeq(s, r[1] + 1, r[2])
FoldEqS(s, t) == Len(s) = Len(t) /\ \A i \in 1..Len(s) : SimpleFold(s[i]) = SimpleFold(t[i])

LawsFor(A, s, cfg, ng, lr) ==
  LET o    == Outcome(A, s, cfg, ng, lr)
      f    == F(o)
      r    == R(o)
      both == [cfg EXCEPT !.ab = TRUE, !.ae = TRUE, !.lp = FALSE]
      N    == Len(s)
  IN \* L_Base: without the two flags this is C04's definition
     /\ (~cfg.lp /\ ~cfg.ci) => f = FindA(A, s, Cfg3(cfg)) /\ r = RFindA(A, s, Cfg3(cfg))
     \* L_Shape: ranges lie within the text, find and rfind agree on existence, anchors are respected
     /\ (f = None) = (r = None)
     /\ f # None => /\ 0 <= f[1] /\ f[1] <= f[2] /\ f[2] <= N /\ f[1] <= r[1] /\ r[1] <= r[2] /\ r[2] <= N
                    /\ cfg.ab => f[1] = 0 /\ r[1] = 0
                    /\ cfg.ae => f[2] = N /\ r[2] = N
     \* L_Part: the parts found are denoted by the pattern (both anchors added)
     /\ f # None => /\ F(Outcome(A, Part(s, f), both, ng, lr)) = <<0, f[2] - f[1]>>
                    /\ F(Outcome(A, Part(s, r), both, ng, lr)) = <<0, r[2] - r[1]>>
     \* L_Suffix: find on the suffix that starts where the first match starts
     /\ (f # None /\ ~cfg.lp) => F(Outcome(A, SubSeq(s, f[1] + 1, N), cfg, ng, lr)) = <<0, f[2] - f[1]>>
     \* L_Last: no match starts after the last one
     /\ (r # None /\ r[1] < N /\ ~cfg.ab /\ ~cfg.lp) => F(Outcome(A, SubSeq(s, r[1] + 2, N), cfg, ng, lr)) = None
     \* L_Period: whole-string matching with literal_period is C04's MatchesPeriodA
     /\ (cfg.ab /\ cfg.ae /\ cfg.lp /\ ~cfg.ci) => (f # None) = MatchesPeriodA(A, s)
     \* L_Mid: a period that is not the first character of the text is unaffected
     /\ (cfg.lp /\ (N = 0 \/ s[1] # ".")) => o = Outcome(A, s, [cfg EXCEPT !.lp = FALSE], ng, lr)
     \* L_LitCI: case_insensitive is ignored for literal patterns
     /\ IsLiteralA(A) => o = Outcome(A, s, [cfg EXCEPT !.ci = ~cfg.ci], ng, lr)
     \* L_Mono: without a non-matching list, ignoring case only adds matches
     /\ (cfg.ci /\ ~HasNeg(A) /\ F(Outcome(A, s, [cfg EXCEPT !.ci = FALSE], ng, lr)) # None) => f # None
     \* L_Fold: a case-insensitive non-literal pattern cannot tell case counterparts apart
     /\ (cfg.ci /\ ~IsLiteralA(A)) => \A t \in Dom : FoldEqS(s, t) => Outcome(A, t, cfg, ng, lr) = o
     \* L_Greed: shortest_match moves neither the start of find nor of rfind, and never lengthens
     /\ (~cfg.sh /\ f # None) =>
           LET q == Outcome(A, s, [cfg EXCEPT !.sh = TRUE], ng, lr)
           IN q[1] = f[1] /\ q[2] <= f[2] /\ q[3] = r[1] /\ q[4] <= r[2]

\* the literal fast path and the general path agree: a literal pattern and the
\* pattern whose first character is written as a one-member bracket expression
Twin(A) == <<[t |-> "b", neg |-> FALSE, items |-> <<[k |-> "c", c |-> A[1].c]>>, qh |-> FALSE]>> \o Tail(A)

PatternLaws(A) ==
  \* L_Twin (case-sensitively; under literal_period unless the pattern begins with the period itself)
  /\ (IsLiteralA(A) /\ Len(A) > 0) =>
        \A s \in Dom : \A cfg \in ConfigsX :
           (~cfg.ci /\ ~(cfg.lp /\ A[1].c = ".")) => Allowed(Twin(A), s, cfg) = Allowed(A, s, cfg)
  \* L_Anchored: with both anchors the readings of literal_period agree
  /\ \A s \in Dom : \A cfg \in ConfigsX : (cfg.ab /\ cfg.ae /\ (~cfg.ci \/ ~HasNeg(A))) => Cardinality(Allowed(A, s, cfg)) = 1
  \* L_Trim: the shell's use of the flags gives the trims of XCU 2.6.2 (Fnmatch.tla) and `case`
  /\ \A s \in Dom :
        /\ TrimX(A, s, "#")  = TrimPrefixA(A, s, FALSE) /\ TrimX(A, s, "##") = TrimPrefixA(A, s, TRUE)
        /\ TrimX(A, s, "%")  = TrimSuffixA(A, s, FALSE) /\ TrimX(A, s, "%%") = TrimSuffixA(A, s, TRUE)
        /\ (Outcome(A, s, ShellCfg("case"), "all", "skip")[1] = 0) = MatchesA(A, s)
  \* L_Tab: the rows printed for the harness (from tabulated match sets) are the definition
  /\ LET M == MSets(A) IN
     \A s \in Dom : Row(A, M, s) = [k \in 1..Len(CfgSeq) |-> {Enc(o) : o \in Allowed(A, s, CfgSeq[k])}]
  \* L_Lit: a literal pattern denotes exactly its own text
  /\ IsLiteralA(A) => \A s \in Dom : MatchAtX(A, 1, s, 1, FALSE, "all") = (s = LiteralOf(A))

Laws ==
  Kind # "laws" \/
  LET P == Parse(p)  A == P.atoms IN
  (P.un = {} /\ ~P.mc) =>
     /\ PatternLaws(A)
     \* (under the readings that can make a difference: the others give the same outcome by definition)
     /\ \A s \in Dom : \A cfg \in ConfigsX :
           \A ng \in NegReadingsFor(A, cfg) : \A lr \in (IF LeadDot(A, s, cfg) THEN LpReadings ELSE {"skip"}) :
              LawsFor(A, s, cfg, ng, lr)
=============================================================================
