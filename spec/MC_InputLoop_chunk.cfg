SPECIFICATION SpecC
CONSTANTS
  MaxLen = 0
  Kinds = {}
  PadKinds = {}
  Feeds = {"fd"}
  MaxLenC = 3
  KindsC = {"P", "RD", "GO", "GC", "HD", "HE", "LC", "SE", "BX"}
  ChunkSizes = {0, 1, 2, 3, 5}
INVARIANT TypeOK
INVARIANT OffAtExec
INVARIANT StdinBlocking
INVARIANT ChunkIndependent
CHECK_DEADLOCK TRUE
