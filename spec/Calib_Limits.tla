---------------------------- MODULE Calib_Limits ----------------------------
(***************************************************************************)
(* G08 calibration: the examples of docs/src/builtins/{ulimit,umask,       *)
(* times}.md and the cases of the scripted tests ulimit-y.sh / umask-p.sh  *)
(* as ASSUMEs about Limits.tla.  A failing ASSUME is a defect of the       *)
(* specification (tool error), never a violation.                          *)
(***************************************************************************)
EXTENDS Limits

VARIABLE dummy

U64 == "18446744073709551615"
NoCeil == [r \in Resources |-> Inf]
Plat(sup, priv) == [sup |-> sup, priv |-> priv, inf |-> U64, ceil |-> NoCeil, times |-> <<>>]
SimP == Plat(Resources, FALSE)
RootP == Plat(Resources, TRUE)
LinuxSup == {"v", "c", "t", "d", "f", "x", "l", "q", "e", "n", "u", "m", "r", "R", "i", "s"}
LinuxP == Plat(LinuxSup, FALSE)
S0 == MkState(NoLimits, 18)     \* 022

W(text) ==   \* "ulimit -S -n 32" -> <<"ulimit", "-S", "-n", "32">>
  LET ps == Split(Chars(text), " ") IN [i \in 1..Len(ps) |-> Concat(ps[i])]

\* the unique outcome of a command that has exactly one
The(P, S, text) == CHOOSE o \in Outcomes(P, S, W(text)) : TRUE
Det(P, S, text) == Cardinality(Outcomes(P, S, W(text))) = 1 /\ ~The(P, S, text).unspec
RECURSIVE RunAll(_, _, _)
RunAll(P, S, texts) == IF texts = <<>> THEN S ELSE RunAll(P, The(P, S, texts[1]).S, Tail(texts))
Succeeds(P, S, text) == Det(P, S, text) /\ The(P, S, text).st = 0
Fails(P, S, text) == Det(P, S, text) /\ The(P, S, text).st = 1 /\ The(P, S, text).S = S /\ The(P, S, text).fmt = FNone
Prints(P, S, text, out) == Succeeds(P, S, text) /\ The(P, S, text).S = S /\ Canon(P, The(P, S, text).fmt) = out
RECURSIVE AllSucceed(_, _, _)
AllSucceed(P, S, texts) ==
  IF texts = <<>> THEN TRUE ELSE Succeeds(P, S, texts[1]) /\ AllSucceed(P, The(P, S, texts[1]).S, Tail(texts))

---------------------------------------------------------------------------
\* decimal arithmetic
ASSUME DStr(DMulAdd(DigitsOf("18014398509481983"), 1024, 0)) = "18446744073709550592"
ASSUME DStr(DMulAdd(DigitsOf("0"), 1024, 0)) = "0"
ASSUME DStr(DMulAdd(DigitsOf("36028797018963967"), 512, 0)) = "18446744073709551104"
ASSUME DDiv(DigitsOf("18446744073709550592"), 1024) = [q |-> DigitsOf("18014398509481983"), r |-> 0]
ASSUME DDiv(DigitsOf("1000"), 512) = [q |-> <<1>>, r |-> 488]
ASSUME DCmp(DigitsOf("18446744073709551616"), DigitsOf(U64)) = 1
ASSUME DCmp(DigitsOf("999"), DigitsOf("1000")) = -1 /\ DCmp(DigitsOf("1000"), DigitsOf("1000")) = 0
ASSUME LimLE("5", Inf) /\ ~LimLE(Inf, "5") /\ LimLE(Inf, Inf) /\ LimLE("9", "10") /\ ~LimLE("10", "9")

---------------------------------------------------------------------------
\* ulimit.md, "Setting resource limits"
ASSUME AllSucceed(SimP, S0, <<"ulimit -n 64", "ulimit -t unlimited", "ulimit -S -v hard", "ulimit -d hard",
                             "ulimit -H -d soft">>)
\* ulimit.md, "Showing resource limits"
SShow == RunAll(SimP, S0, <<"ulimit -n 64", "ulimit -S -n 32">>)
ASSUME SShow.rlim["n"] = <<"32", "64">>
ASSUME Prints(SimP, SShow, "ulimit -H -n", "64\n")
ASSUME Prints(SimP, SShow, "ulimit -S -n", "32\n")
ASSUME Prints(SimP, SShow, "ulimit -n", "32\n")
\* units: "-c ... (512-byte blocks)", "-d ... (kilobytes)", default resource -f
ASSUME RunAll(SimP, S0, <<"ulimit -c 3">>).rlim["c"] = <<"1536", "1536">>
ASSUME RunAll(SimP, S0, <<"ulimit -d 3">>).rlim["d"] = <<"3072", "3072">>
ASSUME RunAll(SimP, S0, <<"ulimit 7">>).rlim["f"] = <<"3584", "3584">>
ASSUME RunAll(SimP, S0, <<"ulimit -S -t 7">>).rlim["t"] = <<"7", Inf>>
ASSUME Prints(SimP, RunAll(SimP, S0, <<"ulimit -c 3">>), "ulimit -c", "3\n")
ASSUME Prints(SimP, S0, "ulimit", "unlimited\n")
\* Errors
ASSUME Fails(SimP, SShow, "ulimit -S -n 65")                        \* soft above hard
ASSUME Fails(SimP, SShow, "ulimit -H -n 31")                        \* hard below soft
ASSUME Fails(SimP, SShow, "ulimit -H -n 65")                        \* raising the hard limit, unprivileged
ASSUME Fails(SimP, SShow, "ulimit -n unlimited")
ASSUME Succeeds(RootP, SShow, "ulimit -H -n 65")                    \* privileged
ASSUME Succeeds(RootP, SShow, "ulimit -n unlimited")
ASSUME Fails(SimP, S0, "ulimit -c 36028797018963968")               \* 2^55 blocks = 2^64 bytes: out of range
ASSUME Succeeds(SimP, S0, "ulimit -c 36028797018963967")
ASSUME Fails(SimP, S0, "ulimit -t 18446744073709551616")
ASSUME The(SimP, S0, "ulimit -t 18446744073709551615").unspec
ASSUME Fails(SimP, S0, "ulimit -H -S")                              \* both without operand
ASSUME Succeeds(SimP, S0, "ulimit -H -S 5")
ASSUME Fails(SimP, S0, "ulimit -c -d")                              \* more than one resource
ASSUME Succeeds(SimP, S0, "ulimit -c -c")                           \* repetition ignored
ASSUME Fails(LinuxP, S0, "ulimit -k")                               \* unsupported on the platform
ASSUME Fails(LinuxP, S0, "ulimit -k 5")
\* ulimit-y.sh
ASSUME Fails(SimP, S0, "ulimit 0 0")
ASSUME Fails(SimP, S0, "ulimit -a 0")
ASSUME Fails(SimP, S0, "ulimit --no-such=option")
ASSUME Succeeds(SimP, S0, "ulimit --hard")
SPort == RunAll(SimP, S0, <<"set -o portable">>)
ASSUME SPort.portable
ASSUME Fails(SimP, SPort, "ulimit --hard")
ASSUME Succeeds(SimP, SPort, "ulimit -H")
ASSUME \A o \in Resources \ PosixRes : Fails(SimP, SPort, "ulimit -" \o o) /\ Succeeds(SimP, S0, "ulimit -" \o o)
ASSUME PosixRes = {"c", "d", "f", "n", "s", "t", "v"}
ASSUME Fails(SimP, S0, "ulimit -a -f")
ASSUME Succeeds(SimP, S0, "ulimit -Sf")
ASSUME Fails(SimP, SPort, "ulimit -Sf")
ASSUME Succeeds(SimP, SPort, "ulimit -S -f")
ASSUME Fails(SimP, SPort, "ulimit -H -S 0")
ASSUME Succeeds(SimP, SPort, "ulimit -H -H")
ASSUME Fails(SimP, SPort, "ulimit -f -f")
ASSUME Fails(SimP, S0, "ulimit X")
ASSUME Fails(SimP, S0, "ulimit 1.0")
ASSUME Fails(SimP, S0, "ulimit -- -1")
ASSUME RunAll(SimP, SPort, <<"set +o portable">>) = S0

\* ulimit.md, "Showing all resource limits"
SAll ==
  MkState([NoLimits EXCEPT !["c"] = <<"0", Inf>>, !["l"] = <<"67108864", "67108864">>, !["q"] = <<"819200", "819200">>,
                           !["e"] = <<"0", "0">>, !["n"] = <<"1024", "4096">>, !["u"] = <<"62113", "62113">>,
                           !["r"] = <<"0", "0">>, !["i"] = <<"62113", "62113">>, !["s"] = <<"8388608", Inf>>], 18)
ManualTable ==
  "-v: virtual address space size (KiB) unlimited\n" \o
  "-c: core dump size (512-byte blocks) 0\n" \o
  "-t: CPU time (seconds)               unlimited\n" \o
  "-d: data segment size (KiB)          unlimited\n" \o
  "-f: file size (512-byte blocks)      unlimited\n" \o
  "-x: number of file locks             unlimited\n" \o
  "-l: locked memory size (KiB)         65536\n" \o
  "-q: message queue size (bytes)       819200\n" \o
  "-e: process priority (20 - nice)     0\n" \o
  "-n: number of open files             1024\n" \o
  "-u: number of processes              62113\n" \o
  "-m: resident set size (KiB)          unlimited\n" \o
  "-r: real-time priority               0\n" \o
  "-R: real-time timeout (microseconds) unlimited\n" \o
  "-i: number of pending signals        62113\n" \o
  "-s: stack size (KiB)                 8192\n"
ASSUME Succeeds(LinuxP, SAll, "ulimit -a")
ASSUME After(LinuxP, SAll, W("ulimit -a"), [st |-> 0, out |-> ManualTable, err |-> FALSE]) = {SAll}
ASSUME After(LinuxP, SAll, W("ulimit -S -a"), [st |-> 0, out |-> ManualTable, err |-> FALSE]) = {SAll}
ASSUME After(LinuxP, SAll, W("ulimit -H -a"), [st |-> 0, out |-> ManualTable, err |-> FALSE]) = {}   \* -n 4096, -c unlimited
ASSUME After(SimP, SAll, W("ulimit -a"), [st |-> 0, out |-> ManualTable, err |-> FALSE]) = {}       \* 19 resources there

---------------------------------------------------------------------------
\* umask.md
ASSUME Prints(SimP, RunAll(SimP, S0, <<"umask 027">>), "umask", "027\n")
ASSUME Prints(SimP, RunAll(SimP, S0, <<"umask ug=rwx,g-w,o=">>), "umask -S", "u=rwx,g=rx,o=\n")
ASSUME RunAll(SimP, S0, <<"umask 077">>).umask = 63 /\ RunAll(SimP, S0, <<"umask 000">>).umask = 0
\* "u=rwx,go+r-w: sets the user bits to rwx, adds r to group and other, removes w from them"
ASSUME \A m \in {0, 18, 63, 511, 365} :
         LET p == PermsOf(RunAll(SimP, MkState(NoLimits, m), <<"umask u=rwx,go+r-w">>).umask) IN
         /\ {6, 7, 8} \subseteq p /\ {5, 2} \subseteq p /\ p \cap {4, 1} = {}
         /\ p \cap {3, 0} = PermsOf(m) \cap {3, 0}
ASSUME Succeeds(SimP, S0, "umask -- -w") /\ RunAll(SimP, S0, <<"umask -- -w">>) = RunAll(SimP, S0, <<"umask a-w">>)
ASSUME The(SimP, S0, "umask -w").unspec
ASSUME Succeeds(SimP, S0, "umask -S 000") /\ The(SimP, S0, "umask -S 000").fmt = FNone   \* -S ignored with a mode
ASSUME Prints(SimP, S0, "umask --symbolic", "u=rwx,g=rx,o=rx\n")
ASSUME RunAll(SimP, S0, <<"umask a+s">>) = S0                        \* s is ignored
ASSUME Fails(SimP, S0, "umask 022 077") /\ Fails(SimP, S0, "umask 08") /\ Fails(SimP, S0, "umask u") /\
       Fails(SimP, S0, "umask u=r,") /\ Fails(SimP, S0, "umask ,u=r") /\ Fails(SimP, S0, "umask u=rg") /\
       Fails(SimP, S0, "umask u=ug") /\ Fails(SimP, S0, "umask u=r/g=w") /\ Fails(SimP, S0, "umask -z") /\ The(SimP, S0, "umask -x").unspec

\* umask-p.sh: the listing of a directory created under the mask
LsMask(ls) == SumPow({b \in Bits : SubSeq(ls, 10 - b, 10 - b) = "-"})
After777(mode) == RunAll(SimP, MkState(NoLimits, 511), <<"umask " \o mode>>).umask
After177(mode) == RunAll(SimP, MkState(NoLimits, 127), <<"umask " \o mode>>).umask
ASSUME LsMask("drwxr-x---") = 23 /\ LsMask("d---------") = 511
ASSUME /\ After777("u+") = LsMask("d---------") /\ After777("u+r") = LsMask("dr--------")
       /\ After777("u+w") = LsMask("d-w-------") /\ After777("u+x") = LsMask("d--x------")
       /\ After777("u+rw") = LsMask("drw-------") /\ After777("u+xr") = LsMask("dr-x------")
       /\ After777("u+wx") = LsMask("d-wx------") /\ After777("u+xwr") = LsMask("drwx------")
ASSUME /\ After777("g+") = LsMask("d---------") /\ After777("g+r") = LsMask("d---r-----")
       /\ After777("g+xr") = LsMask("d---r-x---") /\ After777("g+xwr") = LsMask("d---rwx---")
ASSUME /\ After777("o+w") = LsMask("d-------w-") /\ After777("o+wx") = LsMask("d-------wx")
       /\ After777("o+xwr") = LsMask("d------rwx")
ASSUME /\ After777("a+") = LsMask("d---------") /\ After777("a+r") = LsMask("dr--r--r--")
       /\ After777("a+wx") = LsMask("d-wx-wx-wx") /\ After777("a+xwr") = LsMask("drwxrwxrwx")
ASSUME /\ After777("+") = LsMask("d---------") /\ After777("+r") = LsMask("dr--r--r--")
       /\ After777("+xr") = LsMask("dr-xr-xr-x") /\ After777("+xwr") = LsMask("drwxrwxrwx")
ASSUME /\ After777("u=") = LsMask("d---------") /\ After777("u=r") = LsMask("dr--------")
       /\ After777("u=xr") = LsMask("dr-x------") /\ After777("u=xwr") = LsMask("drwx------")
ASSUME /\ After777("u=r+w") = LsMask("drw-------") /\ After777("u+w=r") = LsMask("dr--------")
       /\ After777("u+w=r+x") = LsMask("dr-x------")
       /\ After777("u=r+w,g=wx,o+xr") = LsMask("drw--wxr-x") /\ After777("u=rwx,u-w") = LsMask("dr-x------")
ASSUME /\ After177("g=u") = LsMask("drw-rw----") /\ After177("o=u") = LsMask("drw----rw-")
       /\ After177("og=u") = LsMask("drw-rw-rw-") /\ After177("g+u,o+rwx-u") = LsMask("drw-rw---x")
\* umask-p.sh: the output restores the mask, octal and symbolic
ASSUME \A m \in {0, 1, 2, 4, 8, 16, 32, 64, 128, 256, 427, 15} :
         LET S == MkState(NoLimits, m) IN
         /\ RunAll(SimP, MkState(NoLimits, 511), <<"umask " \o OctalText(m)>>).umask = m
         /\ RunAll(SimP, MkState(NoLimits, 511), <<"umask " \o SymText(m)>>).umask = m
         /\ MatchOctal(m, OctalText(m) \o "\n") /\ MatchSym(m, SymText(m) \o "\n")
\* chmod: clauses are performed in order, permcopy takes the current permissions
ASSUME After777("u=r,g=u") = LsMask("dr--r-----")
ASSUME After777("u=rw,g=u,u-w") = LsMask("dr--rw----")
\* X: both readings of "current (unmodified)" are allowed
ASSUME Outcomes(SimP, MkState(NoLimits, 511), W("umask u=x,g=X")) =
         {Out(0, FNone, MkState(NoLimits, LsMask("d--x------")), FALSE), Out(0, FNone, MkState(NoLimits, LsMask("d--x--x---")), FALSE)}
ASSUME After777("a=X") = 511 /\ After177("go=X") = LsMask("drw-------")
ASSUME RunAll(SimP, MkState(NoLimits, LsMask("d--x------")), <<"umask go=X">>).umask = LsMask("d--x--x--x")
\* other notations are loosely matched
ASSUME MatchOctal(18, "0022\n") /\ MatchOctal(18, "22\n") /\ ~MatchOctal(18, "022") /\ ~MatchOctal(18, "023\n")
ASSUME MatchSym(18, "u=xwr,g=xr,o=rx\n") /\ ~MatchSym(18, "u=rwx,g=rx,o=r\n") /\ ~MatchSym(18, "u=rwx,g=rx\n") /\
       ~MatchSym(18, "u=rrwx,g=rx,o=rx\n")

---------------------------------------------------------------------------
\* times.md
ASSUME FormatTimes(<<<<1, 2, 345678>>, <<3, 4, 567890>>, <<0, 0, 0>>, <<10, 59, 999999>>>>) =
         "1m2.345678s 3m4.567890s\n0m0.000000s 10m59.999999s\n"
ASSUME ParseTimes("1m2.345678s 3m4.567890s\n0m0.000000s 10m59.999999s\n").ok
ASSUME ~ParseTimes("1m2.345678s 3m4.567890s\n0m0.000000s 10m60.000000s\n").ok
ASSUME ~ParseTimes("1m2.34567s 3m4.567890s\n0m0.000000s 10m59.999999s\n").ok
ASSUME ~ParseTimes("1m2.345678s 3m4.567890s\n").ok
ASSUME LE4(ParseTimes("0m0.100000s 0m0.000000s\n0m0.000000s 0m9.000000s\n").v,
           ParseTimes("0m0.100001s 0m0.000000s\n0m0.000000s 1m0.000000s\n").v)
ASSUME ~LE4(ParseTimes("0m10.000000s 0m0.000000s\n0m0.000000s 0m0.000000s\n").v,
            ParseTimes("0m9.999999s 0m0.000000s\n0m0.000000s 0m0.000000s\n").v)
ASSUME Fails(SimP, S0, "times x") /\ Succeeds(SimP, S0, "times")

---------------------------------------------------------------------------
\* system calls
ASSUME SysGetrlimit(SimP, S0, "c") = {CallRes("", <<Inf, Inf>>, S0)}          \* unset = infinity
ASSUME {r.err : r \in SysSetrlimit(SimP, S0, "c", "2", "1")} = {"EINVAL"}
ASSUME {r.err : r \in SysSetrlimit(SimP, SShow, "n", "1", "65")} = {"EPERM"}
ASSUME {r.err : r \in SysSetrlimit(SimP, SShow, "n", "66", "65")} = {"EINVAL", "EPERM"}
ASSUME {r.err : r \in SysSetrlimit(RootP, SShow, "n", "1", "65")} = {""}
ASSUME {r.err : r \in SysGetrlimit(LinuxP, S0, "k")} = {"EINVAL"}
ASSUME SysUmask(S0, 63) = {CallRes("", 18, [S0 EXCEPT !.umask = 63])}

Init == dummy = 0
Next == UNCHANGED dummy
=============================================================================
