SPECIFICATION Spec
CONSTANTS
  Theme = "sig"
  MaxFd = 3
  MaxH = 1
VIEW view
CONSTRAINT Bounded
INVARIANT TypeOK
INVARIANT NoDanglingOfd
INVARIANT TreeClosed
INVARIANT NoIgnoredPending
INVARIANT EmitState
