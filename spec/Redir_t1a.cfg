SPECIFICATION Spec
CONSTANTS
  Cfg = "t1a"
  Bug = "none"
  Sim = TRUE
INVARIANT TypeOK
INVARIANT InternalInv
INVARIANT Conforms
INVARIANT Emit
