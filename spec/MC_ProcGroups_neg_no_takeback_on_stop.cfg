\* negative configuration: the wrong variant "no_takeback_on_stop" must be refuted (law TakeBack)
SPECIFICATION Spec
CONSTANTS
  Variant = "no_takeback_on_stop"
  Fams = {"fg", "async", "stop1", "tty", "nomon"}
  Cfgs = {"m", "mi", "-", "ml", "mib"}
  Enf = {TRUE}
ALIAS Brief
INVARIANT TakeBack
