SPECIFICATION Spec
CONSTANT Fams = {"pipe"}
CONSTANT Deep = 2
INVARIANT Emit
