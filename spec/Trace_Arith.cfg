SPECIFICATION TraceSpec
POSTCONDITION Complete
CHECK_DEADLOCK FALSE
