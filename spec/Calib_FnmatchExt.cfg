INIT Init
NEXT Next
CONSTANTS
  Variant = ""
