\* G06 enumeration, thorough: all roots, states within 2 successful operations (the second from StepFan);
\* big fan of spellings at four roots
INIT Init
NEXT Next
VIEW View
CONSTANTS
  Depth = 2
  RootIds = {1, 2, 3, 4, 5, 6}
  BigRoots = {1, 2, 4, 5}
  Wide = FALSE
INVARIANT Emit
