------------------------------ MODULE InputLoop ------------------------------
(***************************************************************************)
(* C18 -- the shell consumes its input line by line, no further than the   *)
(* running command needs.                                                  *)
(*                                                                         *)
(* Written from                                                            *)
(*  - POSIX XCU `sh`, STDIN: "the shell shall not read ahead in such a     *)
(*    manner that any characters intended to be read by the invoked        *)
(*    command are consumed by the shell";  `set -v`: "the shell shall      *)
(*    write its input to standard error as it is read";                    *)
(*  - POSIX XCU 2.3 / 2.3.1 / 2.10 (token recognition line by line, alias  *)
(*    substitution at parse time, complete_command as the unit), 2.7.4     *)
(*    (here-document: the lines after the next newline up to a line that   *)
(*    holds only the delimiter), 2.8.1 (a syntax error makes a             *)
(*    non-interactive shell exit with a diagnostic and non-zero status),   *)
(*    `read` (one line from standard input; status > 0 at end-of-file);    *)
(*  - docs/src/language/commands/README.md ("reads and parses input line   *)
(*    by line until it forms a complete list, executes that list, then     *)
(*    continues"), language/aliases.md ("aliases defined in the current    *)
(*    line are not available in the same line"), posix.md (what `set -o    *)
(*    portable` makes the parser reject), debugging.md (verbose).          *)
(*                                                                         *)
(* A script is a sequence of physical lines, each of one KIND (below); the *)
(* concrete text of a line is Text(kind, line number).  The machine `m` is *)
(* the read-eval loop:                                                     *)
(*   NeedLine   the lexer asks for exactly one more line; the reader takes *)
(*              the bytes up to and including one newline from the source  *)
(*   ParseDone  one complete command line has been parsed                  *)
(*   Exec       its simple commands run one after the other:               *)
(*              Probe / ReadData / DefAlias / SetOpt / Assign / HereLoop   *)
(*   Flush      back to the top of the loop: parser mode and alias table   *)
(*              are sampled again                                          *)
(*   SyntaxError  the line just read cannot continue the command           *)
(* In feed "fd" the script is on descriptor 0, which `read` shares (offset *)
(* `off`, counted in lines; Bytes() converts); in feed "str" the script is *)
(* a string (-c, eval, dot script, file operand: pointer `sp`) and         *)
(* descriptor 0 holds the separate stream Data.                            *)
(*                                                                         *)
(* The machine is a deterministic function Step on a state record, so that *)
(* the same definition serves (1) TLC model checking with lazily chosen    *)
(* scripts (`Spec`: every script up to MaxLen lines; prints the scenario   *)
(* catalogue), (2) the chunked-arrival model (`SpecC`: a feeder writes the *)
(* script in chunks; the result must not depend on it), (3) the oracle     *)
(* Run() used by Trace_InputLoop to judge records of the real shell.       *)
(***************************************************************************)
EXTENDS Naturals, Sequences, FiniteSets, TLC, Json

CONSTANTS
  MaxLen,      \* lazily chosen scripts: at most this many lines
  Kinds,       \* line kinds that may be chosen
  PadKinds,    \* kinds appended after the machine has stopped (lines after a syntax error)
  Feeds,       \* subset of {"fd", "str"}
  MaxLenC,     \* chunked model: script length bound
  KindsC,      \* chunked model: line kinds
  ChunkSizes   \* chunked model: chunk sizes of the feeder, in bytes (every line has LB bytes)

VARIABLES
  m,           \* the machine (record, see Start)
  avail,       \* chunked model: bytes written to descriptor 0 so far
  closed,      \* chunked model: the feeder has closed its end
  chunk        \* chunked model: chunk size; 0 = not chunked (everything is there from the start)

vars == <<m, avail, closed, chunk>>

AllKinds == {"P", "RD", "AL", "UA", "ON", "OF", "NP", "VB", "GO", "GC", "HD", "HE", "LC", "SE", "CM", "U8", "BX"}

Num(i) == ToString(i)

\* The text of a line of kind k at physical line i (no newline).
\*  P   a simple command
\*  RD  `read` takes the line that FOLLOWS the command on descriptor 0
\*  AL  defines an alias and uses the name on the same line
\*  UA  removes all aliases and uses the name on the same line
\*  ON  sets the parser-affecting option `portable` and uses a construct the
\*      option makes a syntax error (array assignment) on the same line
\*  OF  clears it
\*  NP  the non-portable construct alone
\*  VB  `set -v`
\*  GO / GC   `{` and `}` on their own lines: a multi-line compound command
\*  HD  a command with a here-document (delimiter `probe`, quoted: literal body)
\*  HE  the line `probe`: ends a here-document, otherwise a command
\*  LC  a command line ending in backslash-newline
\*  SE  a line that is a syntax error wherever a command may start
\*  CM  a comment line
\*  U8  a simple command whose word ends in a two-byte UTF-8 character
\*  BX  a line whose last byte before the newline is the lead byte of a
\*      three-byte UTF-8 sequence (Latin-1 text): not a character.  What the
\*      shell makes of such a line as COMMAND text is open (outside the family);
\*      as DATA for `read` it is one line like any other: `read` fails or not,
\*      but it takes exactly the bytes through that line's newline.
\* Non-ASCII bytes are written in the text as ASCII placeholders: <U+00E9>
\* (the character, two bytes in the script) and <E9> (the single byte); the
\* harness expands them when it writes the script and re-creates them in what
\* it observed.  TextBytes is the length of the line in the script.
Text(k, i) ==
  CASE k = "P"  -> "probe p" \o Num(i)
    [] k = "RD" -> "read -r v; probe r" \o Num(i) \o " \"$v\""
    [] k = "AL" -> "alias probe='probe A'; probe a" \o Num(i)
    [] k = "UA" -> "unalias -a; probe u" \o Num(i)
    [] k = "ON" -> "set -o portable; x=(1); probe o" \o Num(i)
    [] k = "OF" -> "set +o portable; probe f" \o Num(i)
    [] k = "NP" -> "x=(1); probe n" \o Num(i)
    [] k = "VB" -> "set -v; probe v" \o Num(i)
    [] k = "GO" -> "{"
    [] k = "GC" -> "}"
    [] k = "HD" -> "while read -r v; do probe h" \o Num(i) \o " \"$v\"; done <<\\probe"
    [] k = "HE" -> "probe"
    [] k = "LC" -> "probe l" \o Num(i) \o " \\"
    [] k = "SE" -> "probe s" \o Num(i) \o "; )"
    [] k = "CM" -> "# c" \o Num(i)
    [] k = "U8" -> "probe u" \o Num(i) \o "<U+00E9>"
    [] k = "BX" -> "probe b" \o Num(i) \o "caf<E9>"

TextBytes(k, i) == Len(Text(k, i)) - (IF k = "U8" THEN 6 ELSE IF k = "BX" THEN 3 ELSE 0)

\* Content of descriptor 0 in feed "str" (every line newline-terminated).
Data == <<"d1", "d2">>

Front(s) == SubSeq(s, 1, Len(s) - 1)

-----------------------------------------------------------------------------
\* Simple commands of a parsed command line ("ops")
Op(t, tag, b) == [t |-> t, tag |-> tag, x |-> <<>>, c |-> <<>>, b |-> b]
\*   t = "probe":  tag (may be ""), x = further words, b = the value of $v is the last argument
\*   t = "read" | "assign" | "verb";  t = "alias" | "port": b = new value
\*   t = "hdloop": tag, c = line numbers of the here-document body

\* fr: the last argument (the value `read` left in $v) is not specified
Ev(args, st, off) == [args |-> args, st |-> st, off |-> off, fr |-> FALSE]

\* The machine at the start of a script.  `lines`/`eof`: the script as far as
\* it is determined; eof = "open" (more may follow; lazy mode only), "nl"
\* (ends after the last line, which has its newline), "nonl" (the last line
\* lacks the newline).
StartM(lines, eof, feed, medium, nb0) ==
  [ feed |-> feed, lines |-> lines, eof |-> eof,
    medium |-> medium,    \* what descriptor 0 is: "file" | "pipe" ("fd" feed); "none": not the script
    nbk |-> nb0,          \* O_NONBLOCK of the open file description of descriptor 0

    off |-> 0,            \* lines consumed from descriptor 0
    sp |-> 0,             \* feed "str": lines the lexer has taken from the string
    pc |-> "start",       \* start | need | parsed | exec | synerr | done
    fresh |-> TRUE,       \* at the top of the loop: nothing of the next command read yet
    first |-> 0, last |-> 0,   \* first / last line of the command being parsed
    pal |-> FALSE, pport |-> FALSE,   \* alias table / parser mode sampled at the top of the loop
    gst |-> <<>>,         \* open `{`: has the group got a command yet?
    hd |-> 0, hdc |-> <<>>,    \* here-document being read (line of its operator), body so far
    lc |-> FALSE,         \* the last line ended in backslash-newline
    ops |-> <<>>,
    al |-> FALSE, port |-> FALSE, verb |-> FALSE, st |-> 0, v |-> "",   \* execution environment
    vfree |-> FALSE,      \* $v is whatever a failed `read` left there
    noisy |-> FALSE, necho |-> 0,   \* a `read` has complained on stderr; lines echoed before that
    trace |-> <<>>,       \* probe events
    echo |-> <<>>,        \* lines the lexer read while `verbose` was on
    err |-> FALSE,        \* a syntax error was reported
    skip |-> FALSE ]      \* the script left the family this specification speaks about

Start(lines, eof, feed) == StartM(lines, eof, feed, IF feed = "fd" THEN "pipe" ELSE "none", TRUE)

\* XCU sh, STDIN: "If the standard input to sh is a FIFO or terminal device and
\* is set to non-blocking reads, then sh shall enable blocking reads on
\* standard input.  This shall remain in effect when the command completes."
\* (Commands that inherit descriptor 0 -- `read`, children -- rely on it.)
Startup(s) == [s EXCEPT !.pc = "need",
                        !.nbk = IF s.feed = "fd" /\ s.medium = "pipe" THEN FALSE ELSE @]

LexPos(s) == IF s.feed = "fd" THEN s.off ELSE s.sp
AdvLex(s) == IF s.feed = "fd" THEN [s EXCEPT !.off = @ + 1] ELSE [s EXCEPT !.sp = @ + 1]

\* Outside the family: POSIX leaves the outcome open (here-document without
\* its delimiter line, backslash at the very end of input) or the joined
\* text would need a token-level grammar (backslash-newline before a line
\* that is not a plain word list).
Skip(s)   == [s EXCEPT !.pc = "done", !.skip = TRUE]
SynErr(s) == [s EXCEPT !.pc = "synerr"]

MarkContent(g) == IF g = <<>> THEN g ELSE [g EXCEPT ![Len(g)] = TRUE]
AddOps(s, new) == [s EXCEPT !.ops = @ \o new, !.gst = MarkContent(@)]

\* The physical line just taken ends here: is the command line complete?
EndLine(s) == IF s.gst = <<>> /\ s.hd = 0 /\ ~s.lc THEN [s EXCEPT !.pc = "parsed"] ELSE s

HereLine(s, n, k, nonl) ==
  IF k = "HE"
  THEN IF nonl THEN Skip(s)     \* delimiter without its newline
       ELSE EndLine([s EXCEPT !.hd = 0, !.hdc = <<>>, !.ops = [@ EXCEPT ![Len(@)].c = s.hdc]])
  ELSE [s EXCEPT !.hdc = Append(@, n)]

ContLine(s, n, k, nonl) ==
  IF k \notin {"P", "HE", "LC"} \/ (k = "LC" /\ nonl) THEN Skip(s)
  ELSE LET w == CASE k = "P"  -> <<"probe", "p" \o Num(n)>>
                  [] k = "HE" -> <<"probe">>
                  [] k = "LC" -> <<"probe", "l" \o Num(n)>>
       IN EndLine([s EXCEPT !.ops = [@ EXCEPT ![Len(@)].x = @ \o w], !.lc = (k = "LC")])

PlainLine(s, n, k, nonl) ==
  LET Pr(tag, b) == Op("probe", tag \o Num(n), b)
  IN CASE k = "P"  -> EndLine(AddOps(s, <<Pr("p", FALSE)>>))
       [] k = "RD" -> EndLine(AddOps(s, <<Op("read", "", FALSE), Pr("r", TRUE)>>))
       [] k = "AL" -> EndLine(AddOps(s, <<Op("alias", "", TRUE), Pr("a", FALSE)>>))
       [] k = "UA" -> EndLine(AddOps(s, <<Op("alias", "", FALSE), Pr("u", FALSE)>>))
       [] k = "ON" -> IF s.pport THEN SynErr(s)
                      ELSE EndLine(AddOps(s, <<Op("port", "", TRUE), Op("assign", "", FALSE), Pr("o", FALSE)>>))
       [] k = "OF" -> EndLine(AddOps(s, <<Op("port", "", FALSE), Pr("f", FALSE)>>))
       [] k = "NP" -> IF s.pport THEN SynErr(s)
                      ELSE EndLine(AddOps(s, <<Op("assign", "", FALSE), Pr("n", FALSE)>>))
       [] k = "VB" -> EndLine(AddOps(s, <<Op("verb", "", TRUE), Pr("v", FALSE)>>))
       [] k = "GO" -> [s EXCEPT !.gst = Append(MarkContent(@), FALSE)]
       [] k = "GC" -> IF s.gst = <<>> THEN SynErr(s)                 \* nothing to close
                      ELSE IF ~s.gst[Len(s.gst)] THEN SynErr(s)      \* brace_group needs a compound_list
                      ELSE EndLine([s EXCEPT !.gst = Front(@)])
       [] k = "HD" -> [AddOps(s, <<Op("hdloop", "h" \o Num(n), FALSE)>>) EXCEPT !.hd = n, !.hdc = <<>>]
       [] k = "HE" -> EndLine(AddOps(s, <<Op("probe", "", FALSE)>>))
       [] k = "LC" -> IF nonl THEN Skip(s) ELSE [AddOps(s, <<Pr("l", FALSE)>>) EXCEPT !.lc = TRUE]
       [] k = "SE" -> SynErr(s)
       [] k = "CM" -> EndLine(s)
       [] k = "U8" -> EndLine(AddOps(s, <<Op("probe", "u" \o Num(n) \o "<U+00E9>", FALSE)>>))

AtEof(s) ==
  IF s.hd # 0 THEN Skip(s)
  ELSE IF s.gst # <<>> THEN SynErr(s)                              \* `{` never closed
  ELSE IF s.lc THEN [s EXCEPT !.lc = FALSE, !.pc = "parsed"]       \* the continuation is empty
  ELSE [s EXCEPT !.pc = "done"]                                    \* no more commands

\* The lexer takes exactly one more line from its source.
NeedLine(s) ==
  LET n == LexPos(s) + 1 IN
  IF n > Len(s.lines) THEN AtEof(s)
  ELSE LET k == s.lines[n]
           nonl == n = Len(s.lines) /\ s.eof = "nonl"
           s0 == AdvLex(s)
           s1 == [s0 EXCEPT !.echo = IF s.verb THEN Append(@, n) ELSE @,
                            !.fresh = FALSE,
                            !.first = IF s.fresh THEN n ELSE @,
                            !.last = n,
                            !.pal = IF s.fresh THEN s.al ELSE @,
                            !.pport = IF s.fresh THEN s.port ELSE @]
       IN IF k = "BX" THEN Skip(s1)       \* not text: what the lexer makes of it is open
          ELSE IF s1.hd # 0 THEN HereLine(s1, n, k, nonl)
          ELSE IF s1.lc THEN ContLine(s1, n, k, nonl)
          ELSE PlainLine(s1, n, k, nonl)

ParseDone(s) == [s EXCEPT !.pc = "exec"]

\* `read`: one line from descriptor 0, wherever the shell's own reading stopped.
ReadData(r) ==
  LET n == r.off + 1 IN
  IF r.feed = "fd"
  THEN IF n > Len(r.lines) THEN [r EXCEPT !.v = "", !.vfree = FALSE, !.st = 1]
       ELSE IF r.lines[n] = "BX"
       THEN \* not a character string: `read` fails (status > 0, a diagnostic; the
            \* variable is not specified) having taken that line and nothing more
            [r EXCEPT !.v = "", !.vfree = TRUE, !.off = n, !.st = 1,
                      !.noisy = TRUE, !.necho = IF r.noisy THEN @ ELSE Len(r.echo)]
       ELSE [r EXCEPT !.v = Text(r.lines[n], n), !.vfree = FALSE, !.off = n,
                      !.st = IF n = Len(r.lines) /\ r.eof = "nonl" THEN 1 ELSE 0]
  ELSE IF n > Len(Data) THEN [r EXCEPT !.v = "", !.vfree = FALSE, !.st = 1]
       ELSE [r EXCEPT !.v = Data[n], !.vfree = FALSE, !.off = n, !.st = 0]

Pfx(s)   == IF s.pal THEN <<"A">> ELSE <<>>
TagW(o)  == IF o.tag = "" THEN <<>> ELSE <<o.tag>>

ExecOp(s) ==
  IF s.ops = <<>> THEN [s EXCEPT !.pc = "need", !.fresh = TRUE]     \* Flush
  ELSE LET o == Head(s.ops)
           r == [s EXCEPT !.ops = Tail(@)]
       IN CASE o.t = "probe"  -> [r EXCEPT !.trace = Append(@,
                                     [Ev(Pfx(s) \o TagW(o) \o o.x \o (IF o.b THEN <<s.v>> ELSE <<>>), s.st, s.off)
                                        EXCEPT !.fr = o.b /\ s.vfree])]
            [] o.t = "read"   -> ReadData(r)
            [] o.t = "alias"  -> [r EXCEPT !.al = o.b, !.st = 0]
            [] o.t = "port"   -> [r EXCEPT !.port = o.b, !.st = 0]
            [] o.t = "verb"   -> [r EXCEPT !.verb = TRUE, !.st = 0]
            [] o.t = "assign" -> [r EXCEPT !.st = 0]
            [] o.t = "hdloop" -> [r EXCEPT !.trace = @ \o [j \in 1..Len(o.c) |->
                                      Ev(Pfx(s) \o <<o.tag, Text(s.lines[o.c[j]], o.c[j])>>, 0, s.off)],
                                           !.st = 0, !.v = "", !.vfree = FALSE]

SyntaxErr(s) == [s EXCEPT !.pc = "done", !.err = TRUE, !.st = 1, !.ops = <<>>]

Step(s) ==
  CASE s.pc = "start"  -> Startup(s)
    [] s.pc = "need"   -> NeedLine(s)
    [] s.pc = "parsed" -> ParseDone(s)
    [] s.pc = "exec"   -> ExecOp(s)
    [] s.pc = "synerr" -> SyntaxErr(s)

\* The oracle: the machine run to completion on a fully determined script.
RECURSIVE Run(_)
Run(s) == IF s.pc = "done" THEN s ELSE Run(Step(s))

Oracle(lines, nl, feed) == Run(Start(lines, IF nl THEN "nl" ELSE "nonl", feed))

\* What the outside can see of a finished run.
Obs(s) == [trace |-> s.trace, st |-> s.st, err |-> s.err, echo |-> s.echo, skip |-> s.skip, nbk |-> s.nbk]

-----------------------------------------------------------------------------
\* Byte offsets.  Stream of descriptor 0: the script (feed "fd") or Data.
RECURSIVE SumLen(_, _, _)
SumLen(lines, k, acc) == IF k = 0 THEN acc ELSE SumLen(lines, k - 1, acc + TextBytes(lines[k], k) + 1)

Bytes(s, k) ==
  IF s.feed = "fd"
  THEN SumLen(s.lines, k, 0) - (IF k > 0 /\ k = Len(s.lines) /\ s.eof = "nonl" THEN 1 ELSE 0)
  ELSE 3 * k

-----------------------------------------------------------------------------
\* (1) Lazy scripts: a line comes into existence when somebody first reads it.
WantsLine(s) ==
  \/ s.pc = "need" /\ LexPos(s) >= Len(s.lines)
  \/ s.pc = "exec" /\ s.ops # <<>> /\ Head(s.ops).t = "read" /\ s.feed = "fd" /\ s.off >= Len(s.lines)
Known(s) == s.eof # "open" \/ ~WantsLine(s)

\* (2) Chunked arrival (feed "fd" only): every line has LB bytes including its
\* newline; the last line lacks the newline when eof = "nonl".
LB == 2
Total(s) == LB * Len(s.lines) - (IF s.eof = "nonl" THEN 1 ELSE 0)
\* A reader (the lexer or `read`) that wants line n has it as soon as its
\* newline has arrived; a line without newline, and end-of-file, need the close.
\* Reading is one byte at a time and stops at the newline, so nothing else of
\* the stream is touched: the step is atomic at line granularity.
Arrived(s) ==
  \/ chunk = 0
  \/ LET wants == \/ s.pc = "need"
                  \/ s.pc = "exec" /\ s.ops # <<>> /\ Head(s.ops).t = "read"
         n == s.off + 1
     IN IF ~wants THEN TRUE
        ELSE IF n > Len(s.lines) THEN closed
        ELSE IF n = Len(s.lines) /\ s.eof = "nonl" THEN closed
        ELSE avail >= LB * n

Min2(a, b) == IF a < b THEN a ELSE b

Feed  == /\ chunk > 0 /\ avail < Total(m)
         /\ avail' = Min2(avail + chunk, Total(m))
         /\ UNCHANGED <<m, closed, chunk>>
Close == /\ chunk > 0 /\ avail = Total(m) /\ ~closed
         /\ closed' = TRUE
         /\ UNCHANGED <<m, avail, chunk>>

\* Machine actions (named separately so that TLC reports coverage per action)
Do(s)         == Known(s) /\ Arrived(s) /\ m' = Step(s) /\ UNCHANGED <<avail, closed, chunk>>
AStartup      == m.pc = "start" /\ Do(m)
ANeedLine     == m.pc = "need" /\ Do(m)
AParseDone    == m.pc = "parsed" /\ Do(m)
AExec(t)      == m.pc = "exec" /\ m.ops # <<>> /\ Head(m.ops).t = t /\ Do(m)
AProbe        == TRUE /\ AExec("probe")
AReadData     == TRUE /\ AExec("read")
ADefAlias     == TRUE /\ AExec("alias")
ASetOpt       == TRUE /\ (AExec("port") \/ AExec("verb"))
AAssign       == TRUE /\ AExec("assign")
AHereLoop     == TRUE /\ AExec("hdloop")
AFlush        == m.pc = "exec" /\ m.ops = <<>> /\ Do(m)
ASyntaxError  == m.pc = "synerr" /\ Do(m)
Machine == AStartup \/ ANeedLine \/ AParseDone \/ AProbe \/ AReadData \/ ADefAlias \/ ASetOpt \/ AAssign
           \/ AHereLoop \/ AFlush \/ ASyntaxError

\* The environment decides what the next unread line is (or that there is none).
Extend ==
  /\ m.pc # "done" /\ ~Known(m)
  /\ \/ \E k \in Kinds, nonl \in BOOLEAN :
          /\ Len(m.lines) < MaxLen
          /\ (k = "BX" => m.feed = "fd")     \* a string (-c, eval) is text by construction
          /\ m' = [m EXCEPT !.lines = Append(@, k), !.eof = IF nonl THEN "nonl" ELSE "open"]
     \/ m' = [m EXCEPT !.eof = "nl"]
  /\ UNCHANGED <<avail, closed, chunk>>

\* Lines that follow the point where the shell stopped reading.
Pad ==
  /\ m.pc = "done" /\ ~m.skip /\ m.eof = "open" /\ Len(m.lines) < MaxLen
  /\ \E k \in PadKinds : m' = [m EXCEPT !.lines = Append(@, k)]
  /\ UNCHANGED <<avail, closed, chunk>>

Init == /\ \E f \in Feeds : m = Start(<<>>, "open", f)
        /\ avail = 0 /\ closed = TRUE /\ chunk = 0
Next == Machine \/ Extend \/ Pad
Spec == Init /\ [][Next]_vars

RECURSIVE SeqsUpTo(_, _)
SeqsUpTo(S, n) == IF n = 0 THEN {<<>>}
                  ELSE LET P == SeqsUpTo(S, n - 1) IN P \cup {Append(q, x) : q \in {p \in P : Len(p) = n - 1}, x \in S}

InitC == /\ \E ls \in SeqsUpTo(KindsC, MaxLenC), e \in {"nl", "nonl"}, c \in ChunkSizes :
              /\ (ls = <<>> => e = "nl")
              /\ \E nb0 \in BOOLEAN : m = StartM(ls, e, "fd", "pipe", nb0)
              /\ chunk = c
         /\ avail = 0 /\ closed = FALSE
\* everything written, the end closed, the shell finished: the run is over
Term  == m.pc = "done" /\ chunk > 0 => (avail = Total(m) /\ closed)
Over  == m.pc = "done" /\ Term /\ UNCHANGED vars
NextC == Machine \/ Feed \/ Close \/ Over
SpecC == InitC /\ [][NextC]_vars

-----------------------------------------------------------------------------
\* Properties

TypeOK ==
  /\ m.pc \in {"start", "need", "parsed", "exec", "synerr", "done"}
  /\ m.nbk \in BOOLEAN
  /\ m.off \in 0..Len(IF m.feed = "fd" THEN m.lines ELSE Data)
  /\ m.sp \in 0..Len(m.lines)
  /\ m.st \in {0, 1}
  /\ m.eof \in {"open", "nl", "nonl"}

\* `off` at the start of Exec(c) is the end of the last line c needed: the
\* lexer holds no line that it has not used (its buffer can be flushed), and
\* what follows is still on the descriptor for `read`.
OffAtExec ==
  (m.pc = "parsed" /\ m.feed = "fd") =>
     /\ m.off = m.last
     /\ m.first <= m.last
     /\ \A j \in 1..Len(m.ops) : m.ops[j].t = "hdloop" =>
           \A i \in 1..Len(m.ops[j].c) : m.ops[j].c[i] \in m.first..m.last

\* Once the shell has started on a script that comes through a pipe, descriptor 0
\* is in blocking mode, whatever it was before, and stays so.
StdinBlocking == (m.pc # "start" /\ m.feed = "fd" /\ m.medium = "pipe") => ~m.nbk
StdinModeAfterStartup(feed, medium, nb0) == Startup(StartM(<<>>, "nl", feed, medium, nb0)).nbk

\* Every command before a syntax error has executed, exactly as if the script
\* ended before the command that holds the error (two instances compared).
Finished == m.pc = "done" /\ ~m.skip
PrefixBeforeError ==
  (Finished /\ m.err) =>
     LET t == Run(Start(SubSeq(m.lines, 1, m.first - 1), "nl", m.feed))
     IN m.trace = t.trace /\ ~t.err /\ m.st = 1

\* A command line sees the alias table and the parser mode as the commands
\* BEFORE its first line left them: a definition on line i is used by line
\* i + 1 and not by line i (pal / pport are sampled only when `fresh`).
ASSUME Oracle(<<"AL", "P">>, TRUE, "str").trace = <<Ev(<<"a1">>, 0, 0), Ev(<<"A", "p2">>, 0, 0)>>
ASSUME LET o == Oracle(<<"ON", "NP", "P">>, TRUE, "str") IN o.trace = <<Ev(<<"o1">>, 0, 0)>> /\ o.err
ASSUME ~Oracle(<<"ON", "OF", "NP">>, TRUE, "str").err

\* The result does not depend on how the descriptor was fed (two instances:
\* the chunked run against the run with everything present from the start).
ChunkIndependent ==
  m.pc = "done" => Obs(m) = Obs(Run(Start(m.lines, m.eof, m.feed)))   \* incl. the mode of descriptor 0

\* The chunked run never gets stuck before the shell is done: SpecC is checked
\* for deadlock (the only state without a proper successor is the final one,
\* which stutters by Over).

-----------------------------------------------------------------------------
\* Calibration: worked examples of the sources (evaluated by TLC at start-up).
Args(s) == [i \in 1..Len(s.trace) |-> s.trace[i].args]

\* yash-cli/tests/scripted_test/input-p.sh 'no input more than needed is read'
ASSUME Args(Oracle(<<"RD", "P", "P">>, TRUE, "fd")) = <<<<"r1", "probe p2">>, <<"p3">>>>
\* input-p.sh 'shell input is line-wise' (standard input, -c, eval); docs aliases.md
ASSUME \A f \in {"fd", "str"} : Args(Oracle(<<"AL", "P">>, TRUE, f)) = <<<<"a1">>, <<"A", "p2">>>>
\* docs/src/language/commands/README.md: a multi-line compound command is one unit
ASSUME Args(Oracle(<<"GO", "AL", "P", "GC", "P">>, TRUE, "fd")) = <<<<"a2">>, <<"p3">>, <<"A", "p5">>>>
ASSUME Args(Oracle(<<"GO", "RD", "P", "GC", "P", "P">>, TRUE, "fd")) = <<<<"r2", "probe p5">>, <<"p3">>, <<"p6">>>>
\* here-document body is taken by the shell, not by `read` of a later command
ASSUME Args(Oracle(<<"HD", "P", "HE", "RD", "P">>, TRUE, "fd")) = <<<<"h1", "probe p2">>, <<"r4", "probe p5">>>>
\* XCU 2.8.1: commands before the erroneous line have run; status non-zero
ASSUME LET o == Oracle(<<"P", "SE", "P">>, TRUE, "fd") IN Args(o) = <<<<"p1">>>> /\ o.err /\ o.st = 1
\* descriptor 0 separate from the script: `read` gets the data, the next line runs
ASSUME Args(Oracle(<<"RD", "P">>, TRUE, "str")) = <<<<"r1", "d1">>, <<"p2">>>>
\* `read` at end of file: empty value, status > 0; last line without newline: value, status > 0
ASSUME LET o == Oracle(<<"RD">>, TRUE, "fd") IN o.trace = <<Ev(<<"r1", "">>, 1, 1)>> /\ o.st = 1
ASSUME LET o == Oracle(<<"RD", "P">>, FALSE, "fd") IN o.trace = <<Ev(<<"r1", "probe p2">>, 1, 2)>>
\* `read` of a line that is not text: fails, takes exactly that line (the seeded defect reads on)
ASSUME LET o == Oracle(<<"RD", "BX", "P">>, TRUE, "fd")
       IN /\ Len(o.trace) = 2 /\ o.trace[1].st = 1 /\ o.trace[1].fr /\ o.trace[1].off = 2
          /\ o.trace[2] = Ev(<<"p3">>, 1, 3)
ASSUME Args(Oracle(<<"RD", "U8", "U8">>, TRUE, "fd")) = <<<<"r1", "probe u2<U+00E9>">>, <<"u3<U+00E9>">>>>
ASSUME TextBytes("U8", 3) = 10 /\ TextBytes("BX", 3) = 12
\* XCU sh STDIN: a FIFO set to non-blocking reads is made blocking; a regular file is left alone
ASSUME ~StdinModeAfterStartup("fd", "pipe", TRUE) /\ StdinModeAfterStartup("fd", "file", TRUE)
\* posix.md: array assignment is rejected only once `portable` is in effect for the parse
ASSUME LET o == Oracle(<<"ON", "P">>, TRUE, "fd") IN Args(o) = <<<<"o1">>, <<"p2">>>> /\ ~o.err
ASSUME Oracle(<<"ON", "NP">>, TRUE, "fd").err /\ ~Oracle(<<"NP">>, TRUE, "fd").err
\* debugging.md: verbose prints each line as it is read -- from the line after `set -v`
ASSUME Oracle(<<"P", "VB", "P", "P">>, TRUE, "fd").echo = <<3, 4>>

-----------------------------------------------------------------------------
\* Scenario catalogue (one JSON line per finished script of the lazy model)
NormEof(s) == IF s.eof = "nonl" THEN FALSE ELSE TRUE
Entry(s) ==
  [ lines  |-> s.lines,
    nl     |-> NormEof(s),
    feed   |-> s.feed,
    text   |-> [i \in 1..Len(s.lines) |-> Text(s.lines[i], i)],
    trace  |-> [i \in 1..Len(s.trace) |->
                  [args |-> s.trace[i].args, st |-> s.trace[i].st, fr |-> s.trace[i].fr,
                   off |-> Bytes([s EXCEPT !.eof = IF @ = "open" THEN "nl" ELSE @], s.trace[i].off)]],
    status |-> s.st,
    err    |-> s.err,
    echo   |-> s.echo,
    skip   |-> s.skip ]

Catalogue == m.pc = "done" => PrintT(ToJson(Entry(m)))
=============================================================================
