INIT Init
NEXT Next
VIEW view
CONSTANTS
  Variant = ""
  PNorm <- TokCI
  PLit <- NoChars
  PMacro <- MacCI
  PLen = 2
  SAlpha <- StrCI
  SLen = 3
  CfgSel = "ci"
  Kind = "match"
INVARIANT Emit
