SPECIFICATION Spec
CONSTANTS
  Profile = "wordall"
  MaxTok = 12
  MaxUnits = 1
INVARIANT GenInv
