-------------------------- MODULE Calib_CmdSearch --------------------------
(***************************************************************************)
(* Calibration of the G04 (B) oracle: the examples of                      *)
(* docs/src/builtins/type.md, docs/src/language/commands/simple.md,        *)
(* docs/src/builtins/README.md and the cases of the scripted tests         *)
(* yash-cli/tests/scripted_test/command-p.sh, transcribed by hand.         *)
(***************************************************************************)
EXTENDS CmdSearch

Bi == << [n |-> ":", t |-> "special"], [n |-> ".", t |-> "special"], [n |-> "source", t |-> "special"],
         [n |-> "exec", t |-> "special"], [n |-> "cd", t |-> "mandatory"], [n |-> "alias", t |-> "mandatory"],
         [n |-> "read", t |-> "mandatory"], [n |-> "typeset", t |-> "elective"],
         [n |-> "true", t |-> "substitutive"], [n |-> "echo", t |-> "substitutive"], [n |-> "xt", t |-> "extension"] >>
Bin(names) == [i \in DOMAIN names |-> [p |-> names[i], k |-> "exec"]]
S0 == [fns |-> {}, als |-> {}, bi |-> Bi, path |-> <<"/usr/bin", "/bin">>, std |-> <<"/bin", "/usr/bin">>,
       files |-> Bin(<<"/usr/bin/env", "/bin/cat", "/bin/echo", "/bin/true", "/bin/ls">>), cwd |-> "/home/me",
       posix |-> FALSE, portable |-> FALSE]

\* --- type.md: alias ll='ls -l'; greet() {...}; type ll greet cd env ---------------
T1 == [S0 EXCEPT !.fns = {"greet"}, !.als = {"ll"}]
ASSUME Identify(T1, "ll", FALSE).kind = "alias"
ASSUME Identify(T1, "greet", FALSE).kind = "function"
ASSUME Identify(T1, "cd", FALSE) = Id("builtin", "cd", "", TRUE)
ASSUME Identify(T1, "env", FALSE) = Id("external", "/usr/bin/env", "/usr/bin/env", TRUE)

\* --- simple.md: PATH=/bin:/usr/bin: ls  searches /bin, /usr/bin, the current directory ---
S1 == [S0 EXCEPT !.path = <<"/bin", "/usr/bin", "">>, !.files = Bin(<<"/home/me/ls">>)]
ASSUME Invoke(S1, "ls", "plain") = Out("exec", "/home/me/ls", 0, FALSE, "N")
ASSUME Invoke([S1 EXCEPT !.path = <<"/bin", "/usr/bin">>], "ls", "plain") = Out("fail", "", 127, FALSE, "N")
\* a name with a slash is a pathname "regardless of whether the file exists or is executable"
ASSUME Resolve(S0, "./_no_such_command_", TRUE, S0.path) = T("external", "/home/me/_no_such_command_")
ASSUME Invoke(S0, "./_no_such_command_", "command").st = 127          \* command-p.sh, last case
\* 126 if the target was identified but could not be executed
ASSUME Invoke([S0 EXCEPT !.files = <<[p |-> "/home/me/data", k |-> "plain"]>>], "./data", "plain").st = 126

\* --- README.md ----------------------------------------------------------------
\* special built-ins are found first and cannot be overridden by functions; mandatory ones can
ASSUME Invoke([S0 EXCEPT !.fns = {":", "cd"}], ":", "plain") = Out("builtin", "", 0, TRUE, "Y")
ASSUME Invoke([S0 EXCEPT !.fns = {":", "cd"}], "cd", "plain").what = "function"
\* substitutive: "only available if the corresponding external utility exists in PATH"
ASSUME Invoke(S0, "true", "plain") = Out("builtin", "", 0, FALSE, "N")
ASSUME Invoke([S0 EXCEPT !.path = <<"/usr/bin">>], "true", "plain") = Out("fail", "", 127, FALSE, "N")
\* extension built-ins are ignored under posixlycorrect (fall through to the external utility)
ASSUME Invoke([S0 EXCEPT !.posix = TRUE, !.files = Bin(<<"/bin/xt">>)], "xt", "plain") = Out("exec", "/bin/xt", 0, FALSE, "N")
ASSUME Invoke([S0 EXCEPT !.files = Bin(<<"/bin/xt">>)], "xt", "plain").what = "builtin"
\* elective built-ins and `source` are rejected under portable
ASSUME Invoke([S0 EXCEPT !.portable = TRUE], "typeset", "plain").st = 126
ASSUME Invoke([S0 EXCEPT !.portable = TRUE], "source", "plain").st = 126
ASSUME Invoke([S0 EXCEPT !.portable = TRUE], ".", "plain").what = "builtin"
\* command.md (portable): "the -v option produces no output"
ASSUME Identify([S0 EXCEPT !.portable = TRUE], "typeset", FALSE) = Id("notfound", "", "", FALSE)

\* --- command-p.sh -----------------------------------------------------------------
\* `command :` / `command .`: errors do not kill the shell; the assignment is temporary
ASSUME ~AbortsOnError(S0, ":", "command") /\ AbortsOnError(S0, ":", "plain")
ASSUME Invoke(S0, ":", "command").persist = "N"
\* command ignores functions (mandatory, substitutive, external)
ASSUME Invoke([S0 EXCEPT !.fns = {"alias"}], "alias", "command").what = "builtin"
ASSUME Invoke([S0 EXCEPT !.fns = {"echo"}], "echo", "command").what = "builtin"
ASSUME Invoke([S0 EXCEPT !.fns = {"cat"}], "cat", "command") = Out("exec", "/bin/cat", 0, FALSE, "N")
\* PATH= ; command -p echo / cat: the standard path is used
ASSUME Invoke([S0 EXCEPT !.path = <<"/nowhere">>], "cat", "command-p").what = "exec"
ASSUME Identify([S0 EXCEPT !.path = <<"/nowhere">>], "cat", TRUE).found
\* command -v: reserved words, special built-in, non-special built-in with a pathname, external
ASSUME \A k \in Keywords : Identify(S0, k, FALSE) = Id("keyword", k, "", TRUE)
ASSUME Identify(S0, ":", FALSE).text = ":"
ASSUME Identify(S0, "echo", FALSE) = Id("builtin", "/bin/echo", "/bin/echo", TRUE)
ASSUME Identify(S0, "cat", FALSE).text = "/bin/cat"
\* >foo; chmod a+x foo; command -v ./foo  prints an absolute pathname ending in /foo
ASSUME Identify([S0 EXCEPT !.files = Bin(<<"/home/me/foo">>)], "./foo", FALSE).text = "/home/me/foo"
\* cat() { :; }; command -v cat
ASSUME Identify([S0 EXCEPT !.fns = {"cat"}], "cat", FALSE) = Id("function", "cat", "", TRUE)
ASSUME ~Identify([S0 EXCEPT !.path = <<"/nowhere">>], "_no_such_command_", FALSE).found
=============================================================================
