---------------------------- MODULE Calib_HereDoc ----------------------------
(***************************************************************************)
(* Calibration of the G03 oracle (DESIGN.md 4.4): the worked examples of   *)
(* docs/src/language/redirections/here_documents.md and the here-document  *)
(* cases of yash-cli/tests/scripted_test/redir-p.sh, transcribed by hand,  *)
(* plus the sentences of XCU 2.7.4 that have a direct instance.  A failing *)
(* ASSUME is a tool error (the oracle is wrong), never a violation.        *)
(***************************************************************************)
EXTENDS HereDoc

O(strip, word, fd) == [strip |-> strip, word |-> word, fd |-> fd, sp |-> FALSE]
\* contents delivered for the operators of one command line, and the rest
Deliver(ops, lines, V) ==
  LET r == ReadAll(ops, lines)
  IN IF ~r.ok THEN [ok |-> FALSE, c |-> <<>>, rest |-> <<>>]
     ELSE [ok |-> TRUE, c |-> [i \in 1..Len(ops) |-> Content(ops[i], r.bodies[i], V)], rest |-> r.rest]
C1(op, lines, V) == Deliver(<<op>>, lines, V).c[1]
User == [user |-> "Alice"]
Foo == [foo |-> "bar"]
None == [zz |-> ""]

\* --- here_documents.md ---------------------------------------------------
\* "Syntax": cat <<EOF / Hello, / World! / EOF
ASSUME C1(O(FALSE, "EOF", 0), <<"Hello,", "World!", "EOF">>, None) = "Hello,\nWorld!\n"
\* "Multiple here-documents": cat <<EOF; cat <<END <<EOF
ASSUME Deliver(<<O(FALSE, "EOF", 0), O(FALSE, "END", 0), O(FALSE, "EOF", 0)>>,
               <<"Hello,", "EOF", "This is the first here-document for the second command.", "END", "World!", "EOF">>, None)
       = [ok |-> TRUE, c |-> <<"Hello,\n", "This is the first here-document for the second command.\n", "World!\n">>, rest |-> <<>>]
\* "Automatic removal of leading tabs"
ASSUME C1(O(TRUE, "EOF", 0), <<"\t\tHello,", "\t\tWorld!", "\tEOF">>, None) = "Hello,\nWorld!\n"
\* "Note: Only leading tabs are removed, not spaces."
ASSUME C1(O(TRUE, "EOF", 0), <<" \tx", "\t y\t", "EOF">>, None) = " \tx\n y\t\n"
\* "Quoting the delimiter": cat <<'EOF'
ASSUME C1(O(FALSE, "'EOF'", 0), <<"Hello, $user!", "1 + 1 = $((1 + 1)).", "EOF">>, User) = "Hello, $user!\n1 + 1 = $((1 + 1)).\n"
\* unquoted: cat <<EOF
ASSUME C1(O(FALSE, "EOF", 0), <<"Hello, $user!", "1 + 1 = $((1 + 1)).", "EOF">>, User) = "Hello, Alice!\n1 + 1 = 2.\n"
\* "Single and double quotes in the here-document content are treated literally"
ASSUME C1(O(FALSE, "EOF", 0), <<"Hello, '$user'!", "EOF">>, User) = "Hello, 'Alice'!\n"

\* --- redir-p.sh ------------------------------------------------------------
\* 'effect of here-document'
ASSUME C1(O(FALSE, "END", 0), <<"here", "", "\tdocument", "END">>, None) = "here\n\n\tdocument\n"
\* 'no tilde expansion with unquoted here-document delimiter'
ASSUME C1(O(FALSE, "END", 0), <<"tilde ~", "END">>, None) = "tilde ~\n"
\* 'arithmetic expansion with unquoted here-document delimiter'
ASSUME C1(O(FALSE, "END", 0), <<"arithmetic $((1+10))", "END">>, None) = "arithmetic 11\n"
\* 'backslash with unquoted here-document delimiter'
ASSUME C1(O(FALSE, "END", 0), <<"backslash \\a \\$foo \\\\\\\\ \\`\\` \\\"\\\" line-\\", "continuation", "END">>, Foo)
       = "backslash \\a $foo \\\\ `` \\\"\\\" line-continuation\n"
\* 'single and double quotes with unquoted here-document delimiter'
ASSUME C1(O(FALSE, "END", 0), <<"quote 'single' \"double \\$ 'a' \" \\$ 'a'", "END">>, Foo)
       = "quote 'single' \"double $ 'a' \" $ 'a'\n"
\* 'no parameter expansion with double-quoted here-document delimiter'
ASSUME C1(O(FALSE, "\"END\"", 0), <<"foo=$foo", "END">>, Foo) = "foo=$foo\n"
\* 'no quote removal with quoted here-document delimiter' (delimiter 'echo')
ASSUME Deliver(<<O(FALSE, "'echo'", 0)>>,
               <<"backslash \\a \\$foo \\\\\\\\ line-\\", "continuation", "ec\\", "ho", "echo", "after">>, Foo)
       = [ok |-> TRUE, c |-> <<"backslash \\a \\$foo \\\\\\\\ line-\\\ncontinuation\nec\\\nho\n">>, rest |-> <<"after">>]
\* 'various quotation of here-document delimiter'
ASSUME Delim(O(FALSE, "E'N'D", 0)) = "END" /\ Quoted(O(FALSE, "E'N'D", 0))
ASSUME Delim(O(FALSE, "E\"N\"D", 0)) = "END" /\ Quoted(O(FALSE, "E\"N\"D", 0))
ASSUME Delim(O(FALSE, "E\\ND", 0)) = "END" /\ Quoted(O(FALSE, "E\\ND", 0))
ASSUME Delim(O(FALSE, "END", 0)) = "END" /\ ~Quoted(O(FALSE, "END", 0))
\* 'tab removal with <<-'
ASSUME C1(O(TRUE, "END", 0), <<"foo", "\t\t\tbar", "\t\tEND">>, None) = "foo\nbar\n"
\* 'here-document delimiter containing tab': cat <<-END\<tab>HERE
ASSUME C1(O(TRUE, "END\\\tHERE", 0), <<"foo", "\tEND\tHERE">>, None) = "foo\n"
\* 'here-document delimiter starting with -': cat << -END
ASSUME C1(O(FALSE, "-END", 0), <<"foo", "END", "-END">>, None) = "foo\nEND\n"
\* 'multiple here-documents on single command'
ASSUME Deliver(<<O(FALSE, "END-0", 0), O(TRUE, "END-3", 3), O(FALSE, "'END-4'", 4), O(TRUE, "'END-5'", 5)>>,
               <<"\t0 $foo", "END-0", "\t3 $foo", "END-3", "\t4 $foo", "END-4", "\t5 $foo", "END-5">>, Foo).c
       = <<"\t0 bar\n", "3 bar\n", "\t4 $foo\n", "5 $foo\n">>
\* 'multiple commands each with here-document': cat <<END1; echo ---; cat <<END2
ASSUME Deliver(<<O(FALSE, "END1", 0), O(FALSE, "END2", 0)>>, <<"END2", "END1", "foo", "END2">>, None).c = <<"END2\n", "foo\n">>

\* --- XCU 2.7.4 ---------------------------------------------------------------
\* "with no <blank> characters in between"
ASSUME ~Deliver(<<O(FALSE, "E", 0)>>, <<"E ", " E", "E\t">>, None).ok
\* "the trailing delimiter is not recognized immediately after a <newline> that was removed by line continuation"
ASSUME Deliver(<<O(FALSE, "E", 0)>>, <<"a\\", "E", "E", "r">>, None) = [ok |-> TRUE, c |-> <<"aE\n">>, rest |-> <<"r">>]
ASSUME Deliver(<<O(FALSE, "E", 0)>>, <<"\\", "E", "E">>, None) = [ok |-> TRUE, c |-> <<"E\n">>, rest |-> <<>>]
\* ... but only when the delimiter is unquoted
ASSUME Deliver(<<O(FALSE, "'E'", 0)>>, <<"a\\", "E", "E">>, None) = [ok |-> TRUE, c |-> <<"a\\\n">>, rest |-> <<"E">>]
\* "stripped from input lines after <backslash><newline> line continuation ... has been performed"
ASSUME C1(O(TRUE, "E", 0), <<"\ta\\", "\tb", "E">>, None) = "a\tb\n"
\* stripping "does not affect any <tab> characters that result from expansions"
ASSUME C1(O(TRUE, "E", 0), <<"\t$t", "E">>, [t |-> "\tT"]) = "\tT\n"
\* "The delimiter shall be the word itself" (no expansion of the word)
ASSUME C1(O(FALSE, "$x", 0), <<"a $x", "$x">>, [x |-> "1"]) = "a 1\n"
\* an escaped backslash before the newline is no line continuation
ASSUME C1(O(FALSE, "E", 0), <<"a\\\\", "E">>, None) = "a\\\n"
\* the longest name; braces
ASSUME C1(O(FALSE, "E", 0), <<"$xy ${x}y", "E">>, [x |-> "1"]) = " 1y\n"
\* command substitution, both forms
ASSUME C1(O(FALSE, "E", 0), <<"$(echo s t) `echo u`", "E">>, None) = "s t u\n"
\* no delimiter line
ASSUME ~Deliver(<<O(FALSE, "E", 0)>>, <<"a", "b">>, None).ok
ASSUME ~Deliver(<<O(FALSE, "E", 0), O(FALSE, "F", 0)>>, <<"a", "E", "b">>, None).ok
\* a <<- delimiter that starts with a tab can never be matched
ASSUME ~Deliver(<<O(TRUE, "'\tE'", 0)>>, <<"\tE", "E">>, None).ok

\* --- scenarios ---------------------------------------------------------------
H(place, shape, ops) == [place |-> place, shape |-> shape, ops |-> ops]
\* 'here-document with non-default file descriptor': cat 3<<END <&3
ASSUME LET e == Expect(H("top", "cat", <<O(FALSE, "END", 3)>>), <<"foo", "END">>, TRUE)
       IN /\ e.script = <<Prelude, "cat 3<<END <&3", "foo", "END", "probe end">>
          /\ e.class = "ok" /\ e.out = "foo\n" /\ e.groups = << << <<"probe", "end">> >> >>
\* here_documents.md "Here-documents in command substitution"
ASSUME LET e == Expect(H("subst", "cat", <<O(FALSE, "EOF", 0)>>), <<"Hello,", "World!", "EOF">>, TRUE)
       IN /\ e.script = <<Prelude, "probe s \"$(cat <<EOF", "Hello,", "World!", "EOF", ")\"", "probe end">>
          /\ e.groups = << << <<"probe", "s", "Hello,\nWorld!">> >>, << <<"probe", "end">> >> >>
          /\ e.out = ""
\* redir-p.sh 'redirection is temporary': { cat </dev/null; cat; } <<END  - the second reader sees the document
\* (here: the first reader takes everything, the second finds end of file)
ASSUME LET e == Expect(H("bredir", "post", <<O(FALSE, "END", 0)>>), <<"here", "END", "probe k">>, TRUE)
       IN /\ e.script = <<Prelude, "{ rd a 0; rd b 0; } <<END", "here", "END", "probe k", "probe end">>
          /\ e.groups = << << <<"rd", "a", "0", "here\n">> >>, << <<"rd", "b", "0", "">> >>, << <<"probe", "k">> >>, << <<"probe", "end">> >> >>
          /\ e.printed = <<"{ rd a 0; rd b 0; } <<END">>
\* the body is expanded each time the redirection is performed
ASSUME LET e == Expect(H("for", "post", <<O(TRUE, "E", 3)>>), <<"\t$i$x", "E", "probe $i">>, TRUE)
       IN /\ e.script = <<Prelude, "for i in 1 2; do rd a 3 3<<-E", "\t$i$x", "E", "probe $i", "done", "probe end">>
          /\ e.groups = << << <<"rd", "a", "3", "1vx\n">> >>, << <<"probe", "1">> >>,
                          << <<"rd", "a", "3", "2vx\n">> >>, << <<"probe", "2">> >>, << <<"probe", "end">> >> >>
          /\ e.docs = << [d |-> "E", s |-> TRUE, q |-> FALSE, raw |-> "$i$x\n"] >>
ASSUME Expect(H("top", "post", <<O(FALSE, "E", 0)>>), <<"a">>, TRUE).class = "unterm"
ASSUME Expect(H("top", "post", <<O(FALSE, "E", 0)>>), <<"E\\", "", "E">>, TRUE).class = "unspec"
ASSUME Expect(H("bare", "post", <<O(FALSE, "E", 0)>>), <<"a", "E">>, FALSE).class = "unspec"
ASSUME Expect(H("bare", "post", <<O(FALSE, "E", 0)>>), <<"a", "E">>, TRUE).class = "ok"
ASSUME Expect(H("top", "post", <<O(FALSE, "E", 0)>>), <<"$", "E">>, TRUE).class = "skip"
\* two operators for one descriptor: the last one wins
ASSUME Expect(H("top", "post", <<O(FALSE, "E", 0), O(FALSE, "'F'", 0)>>), <<"a", "E", "$x", "F">>, TRUE).groups
       = << << <<"rd", "a", "0", "$x\n">> >>, << <<"probe", "end">> >> >>
\* an empty delimiter (<<'') ends the body at the first empty line
ASSUME Deliver(<<O(FALSE, "''", 0)>>, <<"a", "", "b">>, None) = [ok |-> TRUE, c |-> <<"a\n">>, rest |-> <<"b">>]
\* XCU 2.7.4: "If the redirection operator is never evaluated ... the here-document shall be read without
\* performing any expansions": the body is consumed, the next line is a command
ASSUME LET e == Expect(H("never", "post", <<O(FALSE, "E", 0)>>), <<"$x", "E", "probe k">>, TRUE)
       IN /\ e.script = <<Prelude, "status 1 && rd a 0 <<E", "$x", "E", "probe k", "probe end">>
          /\ e.groups = << << <<"probe", "k">> >>, << <<"probe", "end">> >> >>
\* exec keeps the descriptor open: a later command reads the document
ASSUME LET e == Expect(H("exec", "post", <<O(TRUE, "E", 4)>>), <<"\t$x", "E", "probe k">>, TRUE)
       IN /\ e.script = <<Prelude, "exec 4<<-E", "\t$x", "E", "probe k", "rd a 4", "probe end">>
          /\ e.groups = << << <<"probe", "k">> >>, << <<"rd", "a", "4", "vx\n">> >>, << <<"probe", "end">> >> >>
ASSUME Expect(H("exec", "post", <<O(TRUE, "E", 0)>>), <<"E">>, TRUE).class = "skip"
\* the operator may come out of an alias substitution; the body follows the line that used the alias
ASSUME Expect(H("alias", "post", <<O(FALSE, "'E'", 0)>>), <<"$x", "E">>, TRUE).script
       = <<Prelude, "alias h=\"rd a 0 <<'E'\"", "h", "$x", "E", "probe end">>
\* inside the operand of eval the body must be part of the operand
ASSUME LET e == Expect(H("eval", "cat", <<O(FALSE, "E", 0)>>), <<"$x", "E">>, TRUE)
       IN e.script = <<Prelude, "eval 'cat <<E", "$x", "E", "'", "probe end">> /\ e.out = "vx\n"
ASSUME Expect(H("pipeNL", "post", <<O(FALSE, "E", 0)>>), <<"a", "E", "", "probe k">>, TRUE).groups
       = << << <<"rd", "a", "0", "a\n">>, <<"probe", "k">> >>, << <<"probe", "p">> >>, << <<"probe", "end">> >> >>
=============================================================================
