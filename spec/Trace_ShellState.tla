-------------------------- MODULE Trace_ShellState --------------------------
(***************************************************************************)
(* C07 (ii), validation of the records the harness observed on the real    *)
(* shell against ShellState.tla.                                           *)
(*                                                                         *)
(* Rec[1] = {base, fresh}: the state of a shell that ran nothing, and what *)
(* a fresh shell becomes when it evaluates the printouts of that shell.    *)
(* Every other record {c, h, ok, orig, fresh}:                             *)
(*   h      the definition history (operations of ShellState)              *)
(*   orig   the state observed after running h in a shell started in the   *)
(*          base state (ok: the snapshot was taken and the run completed); *)
(*          its variables are the visible ones: if h enters a function,    *)
(*          the snapshot and the printers are commands of its body         *)
(*   fresh  observations {kind, mode, ok, vars, al, fn, opts, traps, mask}, *)
(*          one per printer (kind) and way of evaluating (mode):           *)
(*          the state of a FRESH shell (started in the base state) after   *)
(*          it evaluated the printout; only the component the printer is   *)
(*          about is filled in.  A (kind, mode) pair that is absent means  *)
(*          the printout was, byte for byte, that of the base shell, whose *)
(*          observation is in Rec[1].                                      *)
(* Verdicts (one JSON line per failure, validation goes on):               *)
(*   model:<component>  orig is not the state ApplyAll predicts for h      *)
(*   listing            the fresh shell's projection for that printer      *)
(*                      differs from the predicted state's projection      *)
(*                      (functions: names as predicted, bodies as printed  *)
(*                      trees equal to those of the original shell)        *)
(* A history outside the quantifier (OpEnabled) is skipped and counted.    *)
(***************************************************************************)
EXTENDS ShellState, Json, IOUtils, TLC

Rec == ndJsonDeserialize(IOEnv.TRACE)

VARIABLE l
vars == <<l>>

SetOf(seq) == {seq[i] : i \in DOMAIN seq}
StateOf(o) == [vars |-> SetOf(o.vars), al |-> SetOf(o.al), fn |-> SetOf(o.fn),
               opts |-> SetOf(o.opts), traps |-> SetOf(o.traps), mask |-> o.mask,
               infn |-> FALSE, loc |-> {}]   \* an observation is a set of visible variables

BaseState == StateOf(Rec[1].base)
BaseObs(kind, mode) == CHOOSE o \in SetOf(Rec[1].fresh) : o.kind = kind /\ o.mode = mode

Names(S) == {e.n : e \in S}

ModelWhy(r, pred) ==
  LET o == StateOf(r.orig) IN
  IF ~r.ok THEN "model:run"
  ELSE IF o.vars # Vis(pred) THEN "model:vars"
  ELSE IF o.al # pred.al THEN "model:al"
  ELSE IF Names(o.fn) # Names(pred.fn) THEN "model:fn"
  ELSE IF o.opts # pred.opts THEN "model:opts"
  ELSE IF o.traps # pred.traps THEN "model:traps"
  ELSE IF o.mask # pred.mask THEN "model:mask"
  ELSE ""

BaseModes == {o.mode : o \in SetOf(Rec[1].fresh)}
ObsFor(r, kind, mode) ==
  IF \E o \in SetOf(r.fresh) : o.kind = kind /\ o.mode = mode
  THEN CHOOSE o \in SetOf(r.fresh) : o.kind = kind /\ o.mode = mode
  ELSE BaseObs(kind, mode)

(* What the fresh shell must show for the printer.  Every printer but one  *)
(* lists a part of the state that the fresh shell has too (all variables   *)
(* with an attribute, all aliases, ...), so the projections must be equal. *)
(* `typeset -p` inside a function lists the local variables only: the      *)
(* fresh shell, which evaluates the printout outside any function, must    *)
(* then have its own variables overridden by exactly the listed ones, i.e. *)
(* be the abstract evaluation of the abstract listing.                     *)
Expected(kind, pred) ==
  IF kind = "typeset" /\ pred.infn
  THEN Proj(kind, Eval(BaseState, Listing(kind, pred)))
  ELSE Proj(kind, pred)

ObsOK(r, pred, kind, mode) ==
  LET o == ObsFor(r, kind, mode)
      s == StateOf(o) IN
  /\ o.ok
  /\ IF kind = "functions"
     THEN Names(s.fn) = Names(pred.fn) /\ (r.ok => s.fn = SetOf(r.orig.fn))
     ELSE Proj(kind, s) = Expected(kind, pred)

Judge(i) ==
  LET r == Rec[i] IN
  IF ~AllEnabled(BaseState, r.h) THEN PrintT(ToJson([skip |-> i]))
  ELSE LET pred == ApplyAll(BaseState, r.h)
           y == ModelWhy(r, pred) IN
       /\ IF y = "" THEN TRUE ELSE PrintT(ToJson([bad |-> i, why |-> y, kind |-> "", mode |-> ""]))
       /\ \A kind \in Kinds : \A mode \in BaseModes :
            IF ObsOK(r, pred, kind, mode) THEN TRUE
            ELSE PrintT(ToJson([bad |-> i, why |-> "listing", kind |-> kind, mode |-> mode]))

(* the base shell's own printouts recreate the base state *)
JudgeBase ==
  \A k \in DOMAIN Rec[1].fresh :
     LET ob == Rec[1].fresh[k] IN
     IF ob.ok /\ (ob.kind = "functions" \/ Proj(ob.kind, StateOf(ob)) = Proj(ob.kind, BaseState)) THEN TRUE
     ELSE PrintT(ToJson([bad |-> 1, why |-> "listing", kind |-> ob.kind, mode |-> ob.mode]))

TraceInit == l = 1

TraceNext ==
  /\ l <= Len(Rec)
  /\ IF l = 1 THEN JudgeBase ELSE Judge(l)
  /\ l' = l + 1

TraceSpec == TraceInit /\ [][TraceNext]_vars

Accepted ==
  LET d == TLCGet("stats").diameter
  IN IF d - 1 = Len(Rec) THEN PrintT(ToJson([done |-> Len(Rec)]))
     ELSE Print(<<"REJECT", d>>, FALSE)
=============================================================================
