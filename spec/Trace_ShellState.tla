-------------------------- MODULE Trace_ShellState --------------------------
(***************************************************************************)
(* C07 (ii), validation of the records the harness observed on the real    *)
(* shell against ShellState.tla.                                           *)
(*                                                                         *)
(* Rec[1] = {base, fresh}: the state of a shell that ran nothing, and what *)
(* a fresh shell becomes when it evaluates the printouts of that shell.    *)
(* Every other record {c, h, ok, orig, fresh}:                             *)
(*   h      the definition history (operations of ShellState)              *)
(*   orig   the state observed after running h in a shell started in the   *)
(*          base state (ok: the snapshot was taken and the run completed)  *)
(*   fresh  one observation per printer and way of evaluating              *)
(*          {kind, mode, ok, same, vars, al, fn, opts, traps, mask}:       *)
(*          the state of a FRESH shell (started in the base state) after   *)
(*          it evaluated the printout; only the component the printer is   *)
(*          about is filled in.  same = the printout was, byte for byte,   *)
(*          the one of the base shell, whose observation is in Rec[1].     *)
(* Verdicts (one JSON line per failure, validation goes on):               *)
(*   model:<component>  orig is not the state ApplyAll predicts for h      *)
(*   listing            the fresh shell's projection for that printer      *)
(*                      differs from the predicted state's projection      *)
(*                      (functions: names as predicted, bodies as printed  *)
(*                      trees equal to those of the original shell)        *)
(* A history outside the quantifier (OpEnabled) is skipped and counted.    *)
(***************************************************************************)
EXTENDS ShellState, Json, IOUtils, TLC

Rec == ndJsonDeserialize(IOEnv.TRACE)

VARIABLE l
vars == <<l>>

SetOf(seq) == {seq[i] : i \in DOMAIN seq}
StateOf(o) == [vars |-> SetOf(o.vars), al |-> SetOf(o.al), fn |-> SetOf(o.fn),
               opts |-> SetOf(o.opts), traps |-> SetOf(o.traps), mask |-> o.mask]

BaseState == StateOf(Rec[1].base)
BaseObs(kind, mode) == CHOOSE o \in SetOf(Rec[1].fresh) : o.kind = kind /\ o.mode = mode

Names(S) == {e.n : e \in S}

ModelWhy(r, pred) ==
  LET o == StateOf(r.orig) IN
  IF ~r.ok THEN "model:run"
  ELSE IF o.vars # pred.vars THEN "model:vars"
  ELSE IF o.al # pred.al THEN "model:al"
  ELSE IF Names(o.fn) # Names(pred.fn) THEN "model:fn"
  ELSE IF o.opts # pred.opts THEN "model:opts"
  ELSE IF o.traps # pred.traps THEN "model:traps"
  ELSE IF o.mask # pred.mask THEN "model:mask"
  ELSE ""

ObsOK(r, pred, ob) ==
  LET o == IF ob.same THEN BaseObs(ob.kind, ob.mode) ELSE ob
      s == StateOf(o) IN
  /\ o.ok
  /\ IF ob.kind = "functions"
     THEN Names(s.fn) = Names(pred.fn) /\ (r.ok => s.fn = SetOf(r.orig.fn))
     ELSE Proj(ob.kind, s) = Proj(ob.kind, pred)

Judge(i) ==
  LET r == Rec[i] IN
  IF ~AllEnabled(BaseState, r.h) THEN PrintT(ToJson([skip |-> i]))
  ELSE LET pred == ApplyAll(BaseState, r.h)
           y == ModelWhy(r, pred) IN
       /\ IF y = "" THEN TRUE ELSE PrintT(ToJson([bad |-> i, why |-> y, kind |-> "", mode |-> ""]))
       /\ \A k \in DOMAIN r.fresh :
            IF ObsOK(r, pred, r.fresh[k]) THEN TRUE
            ELSE PrintT(ToJson([bad |-> i, why |-> "listing", kind |-> r.fresh[k].kind, mode |-> r.fresh[k].mode]))
       /\ IF Len(r.fresh) \in {Cardinality(Kinds), 2 * Cardinality(Kinds)} THEN TRUE
          ELSE PrintT(ToJson([bad |-> i, why |-> "model:run", kind |-> "", mode |-> "incomplete"]))

(* the base shell's own printouts recreate the base state *)
JudgeBase ==
  \A k \in DOMAIN Rec[1].fresh :
     LET ob == Rec[1].fresh[k] IN
     IF ob.ok /\ (ob.kind = "functions" \/ Proj(ob.kind, StateOf(ob)) = Proj(ob.kind, BaseState)) THEN TRUE
     ELSE PrintT(ToJson([bad |-> 1, why |-> "listing", kind |-> ob.kind, mode |-> ob.mode]))

TraceInit == l = 1

TraceNext ==
  /\ l <= Len(Rec)
  /\ IF l = 1 THEN JudgeBase ELSE Judge(l)
  /\ l' = l + 1

TraceSpec == TraceInit /\ [][TraceNext]_vars

Accepted ==
  LET d == TLCGet("stats").diameter
  IN IF d - 1 = Len(Rec) THEN PrintT(ToJson([done |-> Len(Rec)]))
     ELSE Print(<<"REJECT", d>>, FALSE)
=============================================================================
