SPECIFICATION Spec
CONSTANTS
  Configs = {"vars", "alias", "func", "opt", "trap", "umask", "mixed", "trapall", "fn"}
  Depth = 3
  Rich = FALSE
VIEW View
INVARIANT ListingsOK
INVARIANT HistoryOK
INVARIANT Emit
