SPECIFICATION Spec
CONSTANTS
  Cfg = "neg"
  Bug = "savenocx"
  Sim = TRUE
INVARIANT TypeOK
INVARIANT Conforms
