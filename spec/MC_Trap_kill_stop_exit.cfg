SPECIFICATION Spec
CONSTANTS
  Sigs = {"KILL", "STOP"}
  WithExit = TRUE
  MaxH = 100
  UniformInit = FALSE
  InitVals = {"D", "I"}
VIEW view
INVARIANT Consistent
INVARIANT EmitState
PROPERTY ExactlyOnce
PROPERTY InitiallyIgnoredRefused
